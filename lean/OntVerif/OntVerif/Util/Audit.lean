import Lean
/-!
`#audit_props NS` lists every theorem declared under namespace `NS` together with the axioms it
depends on, and raises an error if any axiom outside `propext`, `Classical.choice`, `Quot.sound`
occurs (in particular `sorryAx`, `Lean.ofReduceBool` (native_decide) or a `bv_decide` axiom).
Used by `/verif/check` to audit the property theorems of one property on every run.
-/
open Lean Elab Command

namespace OntVerif.Util

def allowedAxioms : List Name := [``propext, ``Classical.choice, ``Quot.sound]

elab "#audit_props " ns:ident : command => do
  let env ← getEnv
  let nsName := ns.getId
  let mut names : Array Name := #[]
  for (n, ci) in env.constants.map₁.toList ++ env.constants.map₂.toList do
    if nsName.isPrefixOf n && !n.isInternal then
      match ci with
      | .thmInfo _ => names := names.push n
      | _ => pure ()
  let sorted := names.qsort (fun a b => a.toString < b.toString)
  let mut bad := false
  for n in sorted do
    let axs ← liftCoreM <| Lean.collectAxioms n
    let axl := axs.toList
    let extra := axl.filter (fun a => !(allowedAxioms.contains a))
    if !extra.isEmpty then bad := true
    logInfo m!"AUDIT theorem={n} axioms={axl} {if extra.isEmpty then "OK" else "FORBIDDEN"}"
  logInfo m!"AUDIT-SUMMARY namespace={nsName} theorems={sorted.size} {if bad then "FAIL" else "PASS"}"
  if bad then throwError "audit failed: forbidden axioms in {nsName}"
  if sorted.size == 0 then throwError "audit failed: no theorems found in {nsName}"

end OntVerif.Util
