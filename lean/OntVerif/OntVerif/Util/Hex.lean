/-!
Line-protocol helpers shared by all drivers (core-only): hex <-> bytes, decimal parsing, field splitting.
-/
namespace OntVerif.Util

abbrev Bytes := List UInt8

def hexDigit (n : Nat) : Char :=
  if n < 10 then Char.ofNat (48 + n) else Char.ofNat (87 + n)

def hexOfByte (b : UInt8) : String :=
  String.ofList [hexDigit (b.toNat / 16), hexDigit (b.toNat % 16)]

/-- lower-case hex, "" for the empty string is written "-" on the wire (see `hexW`) -/
def hexOf (bs : Bytes) : String := String.join (bs.map hexOfByte)

/-- wire form: "-" for empty -/
def hexW (bs : Bytes) : String := if bs.isEmpty then "-" else hexOf bs

def hexVal (c : Char) : Option Nat :=
  if '0' ≤ c ∧ c ≤ '9' then some (c.toNat - 48)
  else if 'a' ≤ c ∧ c ≤ 'f' then some (c.toNat - 87)
  else if 'A' ≤ c ∧ c ≤ 'F' then some (c.toNat - 55)
  else none

def unhexAux : List Char → Bytes → Option Bytes
  | [], acc => some acc.reverse
  | [_], _ => none
  | a :: b :: r, acc =>
    match hexVal a, hexVal b with
    | some x, some y => unhexAux r (UInt8.ofNat (x * 16 + y) :: acc)
    | _, _ => none

def unhex (s : String) : Option Bytes :=
  if s == "-" then some [] else unhexAux s.toList []

def parseInt (s : String) : Option Int :=
  if s.startsWith "-" then (s.drop 1).toNat?.map (fun n => - (Int.ofNat n))
  else s.toNat?.map Int.ofNat

def fields (line : String) : List String :=
  (line.splitOn " ").filter (· ≠ "")

def boolW (b : Bool) : String := if b then "1" else "0"

end OntVerif.Util
