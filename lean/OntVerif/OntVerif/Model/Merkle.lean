import OntVerif.Model.Codec
import OntVerif.Gen.MerkleStore
/-!
# Model of `/repo/merkle` (`merkle_tree.go`, `merkle_hasher.go`, `file_hash_store.go`, `util.go`)

Executable, core-only.  SHA-256 is never modelled: every function is parametric in an abstract type `Hash`
with `H0 : Bytes → Hash` (`hash_leaf`/`HashLeaf`, sha256(0x00‖data)), `H1 : Hash → Hash → Hash`
(`hash_children`/`HashChildren`, sha256(0x01‖l‖r)) and `He : Hash` (`hash_empty`, sha256 of the empty string).

What is mirrored literally (same loops, same order of checks):

* `TreeHasher._hash_full` (`mth`, RFC 6962 split `1 << (highBit(n-1)-1)`), `_hash_fold`;
* `CompactMerkleTree`: `NewTree/_update` (panic when `len(hashes) ≠ countBit(size)`), `AppendHash` (merge loop
  `for s := treeSize; s%2 == 1; s >>= 1`, the hashes written to the hash store, the returned audit path), `Root`,
  `GetRootWithNewLeaf`, `Marshal/UnMarshal`, `getSubTreeSize`, `getSubTreePos`, `merkleRoot`, `InclusionProof`,
  `ConsistencyProof/subproof` reading the hash store at the computed file positions;
* `fileHashStore`: the file content and its write cursor: `NewFileHashStore(name, size)` (`checkConsistence` + `Seek` to
  the expected hash count), `Append` = `Write` at the cursor, `GetHash` = positional `ReadAt`;
* `MerkleVerifier.VerifyLeafHashInclusion/calculate_root_hash_from_audit_path`, `VerifyConsistency`
  (as repaired by /repo commit bf734509, `fixes/C26-consistency-shortcuts.patch`);
* cross-chain paths: `MerkleHashes`, `MerkleLeafPath`, `MerkleProve` (byte-level path parsing through
  `Model.Codec`, including the `size := remaining/32` loop bound).

Conventions: a Go panic / out-of-range slice or store read is `none`; sizes are `Nat` (the code uses `uint32`;
all statements are for sizes `< 2^31`, where no `uint32` operation in these functions wraps).  Loops that are not
structurally recursive run on explicit fuel which the wrappers set high enough (`Proofs/Merkle.lean` shows the
fuel is never exhausted).
-/
namespace OntVerif.Model.Merkle
open OntVerif.Util

/-! ## bit helpers (`util.go`) -/

/-- `countBit` (`bits.OnesCount32`) -/
def popF : Nat → Nat → Nat
  | 0, _ => 0
  | f+1, n => if n = 0 then 0 else n % 2 + popF f (n / 2)
def countBit (n : Nat) : Nat := popF n n

/-- `1 << (highBit(n-1) - 1)` for `n ≥ 2`: the largest power of two strictly below `n`. -/
def splitK (n : Nat) : Nat := 2 ^ Nat.log2 (n - 1)

section hash
variable {Hash : Type}

/-! ## `TreeHasher` -/

/-- `_hash_full(leaves, l, r)`: RFC 6962 MTH over leaf hashes; fuel = number of leaves. -/
def mthF (H1 : Hash → Hash → Hash) (He : Hash) : Nat → List Hash → Hash
  | 0, _ => He
  | f+1, l =>
    match l with
    | [] => He
    | [x] => x
    | _ => H1 (mthF H1 He f (l.take (splitK l.length))) (mthF H1 He f (l.drop (splitK l.length)))

/-- `HashFullTreeWithLeafHash` -/
def mth (H1 : Hash → Hash → Hash) (He : Hash) (l : List Hash) : Hash := mthF H1 He l.length l

/-- the accumulation of `_hash_fold` over the hashes taken from the last one backwards -/
def foldR (H1 : Hash → Hash → Hash) (acc : Hash) (rest : List Hash) : Hash :=
  rest.foldl (fun a h => H1 h a) acc

/-- `_hash_fold(hashes)`: `accum = hashes[l-1]; for i = l-2 … 0: accum = H1(hashes[i], accum)`;
`none` = Go panic (index -1) on the empty slice. -/
def hashFold (H1 : Hash → Hash → Hash) (hs : List Hash) : Option Hash :=
  match hs.reverse with
  | [] => none
  | a :: t => some (foldR H1 a t)

/-! ## `CompactMerkleTree` -/

structure Tree (Hash : Type) where
  size   : Nat
  hashes : List Hash                  -- one per set bit of `size`, largest subtree first
  store  : Option (List Hash)         -- `hashStore` (nil allowed): the sequence of stored hashes
  deriving Repr, DecidableEq

/-- `NewTree/_update`: panics (`none`) when `len(hashes) ≠ countBit(tree_size)` -/
def newTree (size : Nat) (hashes : List Hash) (store : Option (List Hash)) : Option (Tree Hash) :=
  if hashes.length ≠ countBit size then none else some ⟨size, hashes, store⟩

/-- `Root()` (the `rootHash` cache is not modelled) -/
def Tree.root (H1 : Hash → Hash → Hash) (He : Hash) (t : Tree Hash) : Hash :=
  match hashFold H1 t.hashes with
  | some r => r
  | none => He

/-- the merge loop of `AppendHash` on the reversed `hashes` (smallest subtree first):
`for s := treeSize; s%2 == 1; s >>= 1 { leaf = H1(hashes[size-1], leaf); store = append(store, leaf); size-- }`.
Returns (remaining reversed hashes, final node, nodes written after the leaf); `none` = index panic. -/
def appLoop (H1 : Hash → Hash → Hash) : Nat → Nat → List Hash → Hash → Option (List Hash × Hash × List Hash)
  | 0, _, _, _ => none
  | f+1, s, rh, leaf =>
    if s % 2 = 1 then
      match rh with
      | [] => none
      | h :: t =>
        match appLoop H1 f (s / 2) t (H1 h leaf) with
        | none => none
        | some (r, top, w) => some (r, top, H1 h leaf :: w)
    else some (rh, leaf, [])

/-- `AppendHash(leaf)`: new tree and the returned audit path (the old hashes reversed) -/
def Tree.appendHash (H1 : Hash → Hash → Hash) (t : Tree Hash) (leaf : Hash) : Option (Tree Hash × List Hash) :=
  match appLoop H1 (t.size + 1) t.size t.hashes.reverse leaf with
  | none => none
  | some (r, top, w) =>
    some (⟨t.size + 1, (top :: r).reverse, t.store.map (· ++ leaf :: w)⟩, t.hashes.reverse)

def Tree.appendAll (H1 : Hash → Hash → Hash) (t : Tree Hash) : List Hash → Option (Tree Hash)
  | [] => some t
  | x :: r =>
    match t.appendHash H1 x with
    | none => none
    | some (t', _) => t'.appendAll H1 r

/-- `GetRootWithNewLeaf`: `_hash_fold(append(hashes, newLeaf))` -/
def Tree.rootWithNewLeaf (H1 : Hash → Hash → Hash) (t : Tree Hash) (x : Hash) : Option Hash :=
  hashFold H1 (t.hashes ++ [x])

/-- `Marshal` at the level of (size, hashes); `UnMarshal`: takes `countBit(size)` hashes, error when fewer -/
def Tree.marshal (t : Tree Hash) : Nat × List Hash := (t.size, t.hashes)
def unmarshal (store : Option (List Hash)) (b : Nat × List Hash) : Option (Tree Hash) :=
  if b.2.length < countBit b.1 then none else some ⟨b.1, b.2.take (countBit b.1), store⟩

/-- reversed result of the first loop of `getSubTreeSize/getSubTreePos`: sizes `2^(h+1) - 1` of the stored
subtrees, lowest set bit first (`id` doubles at every bit) -/
def subSizesR : Nat → Nat → Nat → List Nat
  | 0, _, _ => []
  | f+1, n, id =>
    if n = 0 then [] else
    if n % 2 = 1 then (2 * id - 1) :: subSizesR f (n / 2) (2 * id) else subSizesR f (n / 2) (2 * id)

def getSubTreeSize (n : Nat) : List Nat := (subSizesR n n 1).reverse

def prefixSums : Nat → List Nat → List Nat
  | _, [] => []
  | acc, x :: r => (acc + x) :: prefixSums (acc + x) r

/-- `getSubTreePos(n)`: 1-based store positions of the roots of the subtrees of a tree of `n` leaves -/
def getSubTreePos (n : Nat) : List Nat := prefixSums 0 (getSubTreeSize n)

/-- `getStoredHashNum` -/
def storedHashNum (n : Nat) : Nat := (getSubTreeSize n).foldl (· + ·) 0

/-- `GetHash(pos)`; `none` = read past the end (memHashStore: panic; fileHashStore: error that callers ignore) -/
def getHash (store : List Hash) (pos : Nat) : Option Hash := store[pos]?

/-- the block `pos := getSubTreePos(cnt); for p: pos[p] += add; sub[p] = GetHash(pos[p]-1); _hash_fold(sub)` -/
def readFold (H1 : Hash → Hash → Hash) (store : List Hash) (cnt add : Nat) : Option Hash :=
  match (getSubTreePos cnt).mapM (fun p => getHash store (p + add - 1)) with
  | none => none
  | some sub => hashFold H1 sub

/-- `merkleRoot(n)` -/
def merkleRootAt (H1 : Hash → Hash → Hash) (store : List Hash) (n : Nat) : Option Hash := readFold H1 store n 0

inductive PErr | params | notAvail | noStore
  deriving Repr, DecidableEq

/-- the loop of `InclusionProof`; `acc` = `hashes` (appended in order); `none` = store read out of range / fuel -/
def inclLoop (H1 : Hash → Hash → Hash) (store : List Hash) : Nat → Nat → Nat → Nat → List Hash → Option (List Hash)
  | 0, _, _, _, _ => none
  | f+1, m, n, offset, acc =>
    if n = 1 then some acc else
    let k := splitK n
    if m < k then
      match readFold H1 store (n - k) (offset + k * 2 - 1) with
      | none => none
      | some h => inclLoop H1 store f m k offset (acc ++ [h])
    else
      match getHash store (offset + (k * 2 - 1) - 1) with
      | none => none
      | some h => inclLoop H1 store f (m - k) (n - k) (offset + (k * 2 - 1)) (acc ++ [h])

/-- `InclusionProof(m, n)` (m 0-based index, n size) -/
def Tree.inclusionProof (H1 : Hash → Hash → Hash) (t : Tree Hash) (m n : Nat) : Except PErr (Option (List Hash)) :=
  if m ≥ n then .error .params
  else if t.size < n then .error .notAvail
  else match t.store with
    | none => .error .noStore
    | some st => .ok ((inclLoop H1 st n m n 0 []).map List.reverse)

/-- the loop of `subproof(m, n, b)` -/
def consLoop (H1 : Hash → Hash → Hash) (store : List Hash) :
    Nat → Nat → Nat → Bool → Nat → List Hash → Option (List Hash × Nat × Nat × Bool)
  | 0, _, _, _, _, _ => none
  | f+1, m, n, b, offset, acc =>
    if ¬ (m < n) then some (acc, n, offset, b) else
    let k := splitK n
    if m ≤ k then
      match readFold H1 store (n - k) (offset + k * 2 - 1) with
      | none => none
      | some h => consLoop H1 store f m k b offset (acc ++ [h])
    else
      match getHash store (offset + (k * 2 - 1) - 1) with
      | none => none
      | some h => consLoop H1 store f (m - k) (n - k) false (offset + (k * 2 - 1)) (acc ++ [h])

def subproof (H1 : Hash → Hash → Hash) (store : List Hash) (m n : Nat) (b : Bool) : Option (List Hash) :=
  match consLoop H1 store (n + 1) m n b 0 [] with
  | none => none
  | some (acc, n', offset, b') =>
    if b' then some acc.reverse
    else
      match getSubTreePos n' with
      | [p] =>
        match getHash store (p + offset - 1) with
        | none => none
        | some h => some (acc ++ [h]).reverse
      | _ => none      -- panic("assert error")

/-- `ConsistencyProof(m, n)`: outer `none` = the Go `nil` for bad parameters; inner `none` = panic / bad read.
`m == 0` yields the empty proof (since bf734509; before, the loop ran into `1 << (highBit(0)-1)`). -/
def Tree.consistencyProof (H1 : Hash → Hash → Hash) (t : Tree Hash) (m n : Nat) : Option (Option (List Hash)) :=
  if m > n ∨ t.size < n then none
  else match t.store with
    | none => none
    | some st => if m = 0 then some (some []) else some (subproof H1 st m n true)

/-! ## `fileHashStore`: the hash file with its cursor

`NewFileHashStore(name, size)` opens the file, checks it holds at least `getStoredHashNum(size)` hashes and `Seek`s to
that count; `Append` is `file.Write` at the cursor (it overwrites a stale tail left by a crash after the store write and
extends the file at its end); `GetHash(pos)` is the positional `file.ReadAt` — it does **not** move the cursor
(`ReadKind.readAt`; the fact is regenerated from the source into `Gen/MerkleStore.lean`).  `ReadKind.seekRead` is what a
`Seek` + `Read` implementation would do: the read leaves the cursor behind the hash it read.  Units are whole hashes. -/

inductive ReadKind | readAt | seekRead | unknown
  deriving Repr, DecidableEq

/-- how the code under check reads (regenerated from `merkle/file_hash_store.go` by factgen on every run) -/
def codeReadKind : ReadKind :=
  if OntVerif.Gen.MerkleStore.getHashUsesReadAt && !OntVerif.Gen.MerkleStore.getHashMovesCursor then .readAt
  else if OntVerif.Gen.MerkleStore.getHashMovesCursor then .seekRead else .unknown

structure FileStore (Hash : Type) where
  content : List Hash
  cursor  : Nat
  deriving Repr, DecidableEq

/-- `NewFileHashStore(name, tree_size)` on a file holding `file`: `checkConsistence` + `Seek(expected count)` -/
def FileStore.open (file : List Hash) (size : Nat) : Option (FileStore Hash) :=
  if file.length < storedHashNum size then none else some ⟨file, storedHashNum size⟩

/-- `Append(hashes)` (+ `Flush`): `file.Write` at the cursor (the cursor never lies beyond the end of the file) -/
def FileStore.append (fs : FileStore Hash) (hs : List Hash) : FileStore Hash :=
  ⟨fs.content.take fs.cursor ++ hs ++ fs.content.drop (fs.cursor + hs.length), fs.cursor + hs.length⟩

/-- `GetHash(pos)`: the hash (`none` = read past the end of the file) and the store afterwards -/
def FileStore.getHash (k : ReadKind) (fs : FileStore Hash) (pos : Nat) : Option Hash × FileStore Hash :=
  match k with
  | .readAt => (fs.content[pos]?, fs)
  | _ => (fs.content[pos]?, { fs with cursor := if pos < fs.content.length then pos + 1 else pos })

/-- a `CompactMerkleTree` on a `fileHashStore` -/
structure FTree (Hash : Type) where
  size   : Nat
  hashes : List Hash
  fs     : FileStore Hash
  deriving Repr, DecidableEq

/-- what the proof generators see: every `GetHash` is a read of the file content at a position -/
def FTree.view (t : FTree Hash) : Tree Hash := ⟨t.size, t.hashes, some t.fs.content⟩

/-- `AppendHash` on a file store: the leaf and the completed subtree roots are written at the cursor -/
def FTree.appendHash (H1 : Hash → Hash → Hash) (t : FTree Hash) (leaf : Hash) : Option (FTree Hash) :=
  match appLoop H1 (t.size + 1) t.size t.hashes.reverse leaf with
  | none => none
  | some (r, top, w) => some ⟨t.size + 1, (top :: r).reverse, t.fs.append (leaf :: w)⟩

/-- the operations that touch the hash file after it was opened (every proof generation is a sequence of `getHash`) -/
inductive FOp (Hash : Type)
  | append (leaf : Hash)
  | getHash (pos : Nat)
  | flush
  deriving Repr, DecidableEq

def FTree.step (k : ReadKind) (H1 : Hash → Hash → Hash) (t : FTree Hash) : FOp Hash → Option (FTree Hash)
  | .append x => t.appendHash H1 x
  | .getHash pos => some { t with fs := (t.fs.getHash k pos).2 }
  | .flush => some t

def FTree.run (k : ReadKind) (H1 : Hash → Hash → Hash) (t : FTree Hash) : List (FOp Hash) → Option (FTree Hash)
  | [] => some t
  | op :: r =>
    match t.step k H1 op with
    | none => none
    | some t' => t'.run k H1 r

/-- the leaves appended by an op list -/
def FOp.leaves : List (FOp Hash) → List Hash
  | [] => []
  | .append x :: r => x :: FOp.leaves r
  | _ :: r => FOp.leaves r

/-! ## `MerkleVerifier` -/

inductive VErr | params | short | long | rootMismatch | oldMismatch | sameSizeRoots | emptyOld
  deriving Repr, DecidableEq

/-- the loop of `calculate_root_hash_from_audit_path`; returns the hash and the unread part of the path -/
def calcLoop (H1 : Hash → Hash → Hash) : Nat → Hash → Nat → Nat → List Hash → Except VErr (Hash × List Hash)
  | 0, c, _, _, path => .ok (c, path)
  | f+1, c, idx, last, path =>
    if last = 0 then .ok (c, path) else
    match path with
    | [] => .error .short
    | p :: rest =>
      if idx % 2 = 1 then calcLoop H1 f (H1 p c) (idx / 2) (last / 2) rest
      else if idx < last then calcLoop H1 f (H1 c p) (idx / 2) (last / 2) rest
      else calcLoop H1 f c (idx / 2) (last / 2) path

def calcRoot (H1 : Hash → Hash → Hash) (leaf : Hash) (idx : Nat) (path : List Hash) (size : Nat) : Except VErr Hash :=
  match calcLoop H1 size leaf idx (size - 1) path with
  | .error e => .error e
  | .ok (c, []) => .ok c
  | .ok (_, _ :: _) => .error .long

/-- `VerifyLeafHashInclusion` -/
def verifyInclusion [DecidableEq Hash] (H1 : Hash → Hash → Hash) (leaf : Hash) (idx : Nat) (proof : List Hash)
    (root : Hash) (size : Nat) : Except VErr Unit :=
  if size ≤ idx then .error .params else
  match calcRoot H1 leaf idx proof size with
  | .error e => .error e
  | .ok c => if c ≠ root then .error .rootMismatch else .ok ()

/-- `for node%2 == 1 { node /= 2; last_node /= 2 }` -/
def stripOnes : Nat → Nat → Nat → Nat × Nat
  | 0, node, last => (node, last)
  | f+1, node, last => if node % 2 = 1 then stripOnes f (node / 2) (last / 2) else (node, last)

/-- the main loop of `VerifyConsistency` (`for node != 0`) -/
def consVLoop (H1 : Hash → Hash → Hash) :
    Nat → Nat → Nat → Hash → Hash → List Hash → Except VErr (Nat × Hash × Hash × List Hash)
  | 0, _, last, o, n, path => .ok (last, o, n, path)
  | f+1, node, last, o, n, path =>
    if node = 0 then .ok (last, o, n, path) else
    if node % 2 = 1 then
      match path with
      | [] => .error .short
      | p :: rest => consVLoop H1 f (node / 2) (last / 2) (H1 p o) (H1 p n) rest
    else if node < last then
      match path with
      | [] => .error .short
      | p :: rest => consVLoop H1 f (node / 2) (last / 2) o (H1 n p) rest
    else consVLoop H1 f (node / 2) (last / 2) o n path

/-- `for last_node != 0 { new_hash = H1(new_hash, proof[pos]) … }` -/
def consVTail (H1 : Hash → Hash → Hash) : Nat → Nat → Hash → List Hash → Except VErr (Hash × List Hash)
  | 0, _, n, path => .ok (n, path)
  | f+1, last, n, path =>
    if last = 0 then .ok (n, path) else
    match path with
    | [] => .error .short
    | p :: rest => consVTail H1 f (last / 2) (H1 n p) rest

/-- main loop followed by the tail loop of `VerifyConsistency`: (old_hash, new_hash, unread proof) -/
def consVRun (H1 : Hash → Hash → Hash) (f node last : Nat) (o n : Hash) (path : List Hash) :
    Except VErr (Hash × Hash × List Hash) :=
  match consVLoop H1 f node last o n path with
  | .error e => .error e
  | .ok (last', o', n', path') =>
    match consVTail H1 f last' n' path' with
    | .error e => .error e
    | .ok (n'', path'') => .ok (o', n'', path'')

/-- the part of `VerifyConsistency` after the shortcuts, for `0 < old_size < new_size`, without the initial
`len(proof) == 0` check: strip the trailing one bits of `old_size - 1`, start from `proof[0]` (`node != 0`) or from
`old_root` (the old tree is a full subtree, `node == 0`), run both loops. `fromProof` is `false` in the Go code
(it is the generalisation needed for the induction in `Proofs/MerkleG.lean`: always start from `proof[0]`). -/
def consCore (H1 : Hash → Hash → Hash) (fromProof : Bool) (oldSize newSize : Nat) (oldRoot : Hash) (proof : List Hash) :
    Except VErr (Hash × Hash × List Hash) :=
  let nl := stripOnes oldSize (oldSize - 1) (newSize - 1)
  if nl.1 ≠ 0 ∨ fromProof then
    match proof with
    | [] => .error .short
    | p0 :: rest0 => consVRun H1 newSize nl.1 nl.2 p0 p0 rest0
  else consVRun H1 newSize nl.1 nl.2 oldRoot oldRoot proof

/-- the final comparisons of `VerifyConsistency` -/
def consFinish [DecidableEq Hash] (oldRoot newRoot : Hash) : Except VErr (Hash × Hash × List Hash) → Except VErr Unit
  | .error e => .error e
  | .ok (o, n, path) =>
    if n ≠ newRoot then .error .rootMismatch
    else if o ≠ oldRoot then .error .oldMismatch
    else if path ≠ [] then .error .long
    else .ok ()

/-- `VerifyConsistency(old_size, new_size, old_root, new_root, proof)` (code since bf734509): equal sizes need equal roots and an empty proof; an empty old tree
needs `old_root = hash_empty` and an empty proof; otherwise the unchanged main path. -/
def verifyConsistency [DecidableEq Hash] (H1 : Hash → Hash → Hash) (He : Hash) (oldSize newSize : Nat)
    (oldRoot newRoot : Hash) (proof : List Hash) : Except VErr Unit :=
  if oldSize > newSize then .error .params
  else if oldSize = newSize then
    (if oldRoot ≠ newRoot then .error .sameSizeRoots else if proof ≠ [] then .error .long else .ok ())
  else if oldSize = 0 then
    (if oldRoot ≠ He then .error .emptyOld else if proof ≠ [] then .error .long else .ok ())
  else if proof = [] then .error .short     -- `if pos >= lenp` before the start hash is chosen
  else consFinish oldRoot newRoot (consCore H1 false oldSize newSize oldRoot proof)

/-! ## Cross-chain paths (`MerkleHashes`, `MerkleLeafPath`, `MerkleProve`) -/

/-- one step of `MerkleHashes`: adjacent pairs are hashed, an odd last element is carried up unchanged -/
def pairLevel (H1 : Hash → Hash → Hash) : List Hash → List Hash
  | a :: b :: r => H1 a b :: pairLevel H1 r
  | l => l

/-- `depth(n) = int(ceil(log2(float64(n))))` for `n ≥ 1` (float arithmetic modelled by its exact value) -/
def depth (n : Nat) : Nat := if n ≤ 1 then 0 else Nat.log2 (n - 1) + 1

/-- `MerkleHashes(leaves, d)`: `levels[d] = leaves … levels[0]`; returned bottom-up: `[levels[d], …, levels[0]]` -/
def merkleLevels (H1 : Hash → Hash → Hash) : Nat → List Hash → List (List Hash)
  | 0, l => [l]
  | d+1, l => l :: merkleLevels H1 d (pairLevel H1 l)

/-- top of the pairing tree: `levels[0]` (a single hash when `d = depth n`) -/
def pairRoot (H1 : Hash → Hash → Hash) : Nat → List Hash → List Hash
  | 0, l => l
  | d+1, l => pairRoot H1 d (pairLevel H1 l)

/-- the `for i := d; i > 0; i--` loop of `MerkleLeafPath` over the levels bottom-up (the top level is not visited);
a step is (flag, sibling) with `LEFT = 0`, `RIGHT = 1`; `none` = index panic -/
def leafPathLoop : List (List Hash) → Nat → Option (List (UInt8 × Hash))
  | [], _ => some []
  | [_], _ => some []
  | sub :: rest, index =>
    if index = sub.length - 1 ∧ sub.length % 2 ≠ 0 then leafPathLoop rest (index / 2)
    else if index % 2 ≠ 0 then
      match sub[index - 1]? with
      | none => none
      | some s => (leafPathLoop rest (index / 2)).map ((0, s) :: ·)
    else
      match sub[index + 1]? with
      | none => none
      | some s => (leafPathLoop rest (index / 2)).map ((1, s) :: ·)

def maxSize : Nat := 1024 * 1024

inductive LErr | tooLong | notFound
  deriving Repr, DecidableEq

/-- `getIndex` -/
def getIndex [DecidableEq Hash] (leaf : Hash) : List Hash → Nat → Option Nat
  | [], _ => none
  | h :: r, i => if h = leaf then some i else getIndex leaf r (i + 1)

/-- `MerkleLeafPath(data, hashes)`: value and steps (the bytes are `WriteVarBytes(data) ‖ (flag ‖ hash)*`) -/
def merkleLeafPath [DecidableEq Hash] (H0 : Bytes → Hash) (H1 : Hash → Hash → Hash) (data : Bytes) (hashes : List Hash) :
    Except LErr (Option (Bytes × List (UInt8 × Hash))) :=
  if hashes.length * 33 + data.length + 8 > maxSize then .error .tooLong else
  match getIndex (H0 data) hashes 0 with
  | none => .error .notFound
  | some index => .ok ((leafPathLoop (merkleLevels H1 (depth hashes.length) hashes) index).map (fun s => (data, s)))

/-- the bytes `MerkleLeafPath` returns: `sink.WriteVarBytes(data)`, then per step `WriteByte(flag)`, `WriteHash(sibling)`;
`enc` = the 32 bytes of a hash -/
def pathBytes (enc : Hash → Bytes) (data : Bytes) (steps : List (UInt8 × Hash)) : Bytes :=
  Codec.writeVarBytes data ++ steps.flatMap (fun s => s.1 :: enc s.2)

/-- `MerkleLeafPath(data, hashes)` down to the returned bytes -/
def merkleLeafPathBytes [DecidableEq Hash] (H0 : Bytes → Hash) (H1 : Hash → Hash → Hash) (enc : Hash → Bytes)
    (data : Bytes) (hashes : List Hash) : Except LErr (Option Bytes) :=
  match merkleLeafPath H0 H1 data hashes with
  | .error e => .error e
  | .ok none => .ok none
  | .ok (some (d, steps)) => .ok (some (pathBytes enc d steps))

/-- the hashing loop of `MerkleProve` over parsed steps: `f == LEFT` puts the sibling on the left -/
def proveFold (H1 : Hash → Hash → Hash) (h : Hash) : List (UInt8 × Hash) → Hash
  | [] => h
  | (f, v) :: r => if f = 0 then proveFold H1 (H1 v h) r else proveFold H1 (H1 h v) r

inductive MErr | readValue | readByte | readHash | rootMismatch
  deriving Repr, DecidableEq

/-- the reading loop of `MerkleProve` over raw 32-byte hashes: `for i := 0; i < size; i++ { NextByte; NextHash }` -/
def readSteps : Nat → Codec.Src → Except MErr (List (UInt8 × Bytes))
  | 0, _ => .ok []
  | k+1, s =>
    let ((f, eof), s1) := Codec.nextByte s
    if eof then .error .readByte else
    match Codec.nextFixed 32 s1 with
    | none => .error .readHash      -- unreachable (Go slice panic), see C18_total
    | some ((v, eof2), s2) =>
      if eof2 then .error .readHash else
      match readSteps k s2 with
      | .error e => .error e
      | .ok r => .ok ((f, v) :: r)

/-- parsing part of `MerkleProve`: value and the raw steps; `size := (Size - Pos) / 32` iterations -/
def parsePath (path : Bytes) : Except MErr (Bytes × List (UInt8 × Bytes)) :=
  match Codec.nextVarBytes ⟨path, 0⟩ with
  | none => .error .readValue       -- unreachable (Go slice panic)
  | some ((value, _, irr, eof), s) =>
    if eof || irr then .error .readValue else
    match readSteps ((s.bs.length - s.off) / 32) s with
    | .error e => .error e
    | .ok steps => .ok (value, steps)

/-- `MerkleProve(path, root)` with `dec` interpreting 32 raw bytes as a hash -/
def merkleProve [DecidableEq Hash] (H0 : Bytes → Hash) (H1 : Hash → Hash → Hash) (dec : Bytes → Hash)
    (path : Bytes) (root : Hash) : Except MErr Bytes :=
  match parsePath path with
  | .error e => .error e
  | .ok (value, steps) =>
    if proveFold H1 (H0 value) (steps.map fun (f, v) => (f, dec v)) ≠ root then .error .rootMismatch else .ok value

/-- `MerkleProve` on already parsed steps (the abstract layer the C27 theorems are about) -/
def proveSteps [DecidableEq Hash] (H0 : Bytes → Hash) (H1 : Hash → Hash → Hash) (value : Bytes)
    (steps : List (UInt8 × Hash)) (root : Hash) : Bool :=
  proveFold H1 (H0 value) steps = root

end hash
end OntVerif.Model.Merkle
