import OntVerif.Model.KV
/-!
# Model of contract migration / destruction on the layered storage (C44)

Builds on `Model/KV.lean` (`Cache` = transaction memdb of `CacheDB` over `Overlay` over `Store`). Mirrors

* `core/store/overlaydb/memdb.go` `dbIter` **on a memdb that is written while the iterator is open** (`Cursor`): the iterator
  holds a node index; nodes are never unlinked (a deletion is a `Put` of the empty value on the same node) and keys are
  unique, so the node is identified by its key. `Next` follows the node's *current* forward pointer (`nextOf`): a node linked
  behind the cursor is not seen, one linked directly after it is. `key`/`value` are the slices cached by `fill` when the
  cursor arrived (the key/value buffer is append-only, so they keep their content when the node is overwritten later);
* `smartcontract/storage/cachedb.go` `NewIterator` (join of that live iterator with the overlay's join iterator — the overlay
  memdb and the LevelDB iterator are not written during the loop, they stay the snapshot iterators of `Model/KV.lean`),
  `MigrateContractStorage`, `CleanContractStorage`, `CleanContractStorageData`, `DeleteContract`, `SetContractDestroyed`,
  `UnsetContractDestroyed`, `IsContractDestroyed`, `GetContract`, `PutContract`;
* `smartcontract/service/neovm/contract.go`, `storage.go` (`Contract.Create/Migrate/Destroy`, `Storage.Put/Delete`),
  `smartcontract/service/wasmvm` (`DeployContract`, `MigrateCurrentContractStorageTo`, `DeleteCurrentContractStorage`,
  `StorageWrite`, `StorageDelete`), `global_params` add/removeDestroyedContract, and the deploy path of
  `core/store/ledgerstore/tx_handler.go` (`HandleDeployTransaction` after the gas part) as `Sys`/`Tx` steps.

Addresses are byte strings; the Go type is `[20]byte`, every theorem carries the length hypotheses it needs.
A contract is its address plus the serialized `DeployCode` (opaque non-empty bytes; the address is a hash of the code and is
supplied with the operation).
-/
namespace OntVerif.Model.Migrate
open OntVerif.Util OntVerif.Model.KV

def stContract : UInt8 := 0x04
def stDestroyed : UInt8 := 0x06

/-- `config.GetTrackDestroyedContractHeight()` per network id (constants.BLOCKHEIGHT_TRACK_DESTROYED_CONTRACT_*) -/
def trackHeightOf (networkId : Nat) : Nat :=
  if networkId = 1 then 11700000 else 0

/-! ## `dbIter` over a memdb that is being written -/

structure Cursor where
  start : Bytes
  limit : Option Bytes
  /-- key of the node the iterator stands on; `none` = node 0 -/
  node : Option Key := none
  forward : Bool := false
  key : Bytes := []
  value : Bytes := []
  deriving Repr, DecidableEq

/-- `findGE(key, false)`: the first node whose key is `>= key` -/
def findGE (m : MemDB) (k : Key) : Option KV := (m.dropWhile fun e => kcmp e.1 k == .lt).head?

/-- `nodeData[node+nNext]` for the node holding key `k`: its current successor in the level-0 list -/
def nextOf (m : MemDB) (k : Key) : Option KV := ((m.dropWhile fun e => e.1 != k).drop 1).head?

/-- `fill(false, true)`: the limit is checked, the start is not -/
def Cursor.fill (c : Cursor) : Option KV → Bool × Cursor
  | some e =>
    if belowLimit c.limit e.1 then (true, { c with node := some e.1, key := e.1, value := e.2 })
    else (false, { c with node := none, key := [], value := [] })
  | none => (false, { c with node := none, key := [], value := [] })

def Cursor.first (m : MemDB) (c : Cursor) : Bool × Cursor :=
  { c with forward := true }.fill (findGE m c.start)

def Cursor.next (m : MemDB) (c : Cursor) : Bool × Cursor :=
  match c.node with
  | none => if c.forward then (false, c) else c.first m
  | some k => { c with forward := true }.fill (nextOf m k)

/-- the iterator operations against the memdb as it is *now* -/
def liveOps (m : MemDB) : IterOps Cursor :=
  ⟨Cursor.first m, Cursor.next m, fun c => c.key, fun c => c.value, fun _ => m.length + 1⟩

abbrev LiveIter := Join Cursor OverlayIter
def liveIterOps (m : MemDB) : IterOps LiveIter := joinOps (liveOps m) overlayIterOps

/-- `CacheDB.NewIterator(addr)` with the memdb side live -/
def liveIter (c : Cache) (p : Bytes) : LiveIter :=
  { mem := { start := stStorage :: p, limit := prefixLimit (stStorage :: p) }, back := c.backend.newIter (stStorage :: p) }

/-- `for has := iter.First(); has; has = iter.Next() { body(iter.Key(), iter.Value()) }` where the body writes the cache the
iterator reads. `Iter.Key` drops the prefix byte. The fuel bounds the loop by the number of entries of the three layers
(`Proofs/Migrate.lean`: it never runs out). -/
def iterLoop (body : Cache → Bytes → Bytes → Cache) : Nat → Cache → Bool × LiveIter → Cache
  | 0, c, _ => c
  | n + 1, c, (ok, j) =>
    if ok then
      let c' := body c (j.key.drop 1) j.value
      iterLoop body n c' ((liveIterOps c'.mem).next j)
    else c

def loopFuel (c : Cache) : Nat := c.mem.length + c.backend.mem.length + c.backend.store.length + 8

def forEachLive (body : Cache → Bytes → Bytes → Cache) (c : Cache) (p : Bytes) : Cache :=
  iterLoop body (loopFuel c) c ((liveIterOps c.mem).first (liveIter c p))

/-! ## cachedb.go -/

def setDestroyed (track : Nat) (c : Cache) (addr : Bytes) (h : Nat) : Cache :=
  if track ≤ h then c.put stDestroyed addr (leBytes 4 h) else c

def unsetDestroyed (track : Nat) (c : Cache) (addr : Bytes) (h : Nat) : Cache :=
  if track ≤ h then c.delete stDestroyed addr else c

def isDestroyed (c : Cache) (addr : Bytes) : Bool := !(c.get stDestroyed addr).isEmpty

def deleteContract (track : Nat) (c : Cache) (addr : Bytes) (h : Nat) : Cache :=
  setDestroyed track (c.delete stContract addr) addr h

def putContract (c : Cache) (addr val : Bytes) : Cache := c.put stContract addr val

inductive CState
  | absent
  | destroyed
  | present (v : Bytes)
  deriving Repr, DecidableEq

/-- `GetContract`: `(nil, true)` / `(nil, false)` / `(contract, false)` -/
def getContract (c : Cache) (addr : Bytes) : CState :=
  if isDestroyed c addr then .destroyed
  else
    let v := c.get stContract addr
    if v.isEmpty then .absent else .present v

/-- loop body of `MigrateContractStorage`: `Put(newAddress ++ key[20:], val); Delete(key)` -/
def migrateStep (new : Bytes) (c : Cache) (k v : Bytes) : Cache :=
  (c.put stStorage (new ++ k.drop 20) v).delete stStorage k

/-- `MigrateContractStorage(old, new, height)` -/
def migrate (track : Nat) (c : Cache) (old new : Bytes) (h : Nat) : Cache :=
  forEachLive (migrateStep new) (deleteContract track c old h) old

/-- `CleanContractStorageData(addr)` -/
def cleanData (c : Cache) (addr : Bytes) : Cache :=
  forEachLive (fun c k _ => c.delete stStorage k) c addr

/-- `CleanContractStorage(addr, height)` -/
def clean (track : Nat) (c : Cache) (addr : Bytes) (h : Nat) : Cache :=
  cleanData (deleteContract track c addr h) addr

/-! ## Interop services and transactions -/

/-- `.asShipped`: the tree as it is — neither the NeoVM `Storage.Put/Delete` (`checkStorageContext` returns
`NewDetailErr(nil, …) = nil` for a missing contract) nor the wasm `storage_write/delete` check that the contract whose
storage is written still exists. `.sound`: they do. -/
inductive Variant | asShipped | sound
  deriving Repr, DecidableEq

/-- `states.GenRawStorageItem(v)`: state version 0, var-bytes (values shorter than 0xfd bytes) -/
def rawItem (v : Bytes) : Bytes := 0 :: UInt8.ofNat v.length :: v

/-- one service call of an executing contract; `self` = `ContextRef.CurrentContext().ContractAddress`, `ctx` = the address
of the storage context handed to `Storage.Put` -/
inductive Sys
  | neoPut (ctx k v : Bytes)
  | neoDelete (ctx k : Bytes)
  | neoCreate (addr val : Bytes)
  | neoMigrate (self addr val : Bytes)
  | neoDestroy (self : Bytes)
  | appCall (addr : Bytes)                -- APPCALL / wasm invoke: only the existence check (`GetContract != nil`)
  | wasmWrite (self k v : Bytes)
  | wasmDelete (self k : Bytes)
  | wasmCreate (addr val : Bytes)
  | wasmMigrate (self addr val : Bytes)
  | wasmDestroy (self : Bytes)
  | addDestroyed (addr : Bytes)           -- global_params.addDestroyedContract (operator-signed)
  | removeDestroyed (addr : Bytes)        -- global_params.removeDestroyedContract (operator-signed)
  deriving Repr, DecidableEq

inductive Outcome
  | ok (c : Cache)
  | nilInterop (c : Cache)   -- success, a typed-nil contract was pushed (state unchanged)
  | fail                     -- the service returns an error / panics inside wagon: the transaction fails

/-- the cache a successful call leaves behind -/
def Outcome.cache? : Outcome → Option Cache
  | .ok c => some c
  | .nilInterop c => some c
  | .fail => none

/-- all addresses named by the call are 20 bytes (`common.Address`) -/
def Sys.WF : Sys → Prop
  | .neoPut ctx _ _ => ctx.length = 20
  | .neoDelete ctx _ => ctx.length = 20
  | .neoCreate addr _ => addr.length = 20
  | .neoMigrate self addr _ => self.length = 20 ∧ addr.length = 20
  | .neoDestroy self => self.length = 20
  | .appCall addr => addr.length = 20
  | .wasmWrite self _ _ => self.length = 20
  | .wasmDelete self _ => self.length = 20
  | .wasmCreate addr _ => addr.length = 20
  | .wasmMigrate self addr _ => self.length = 20 ∧ addr.length = 20
  | .wasmDestroy self => self.length = 20
  | .addDestroyed addr => addr.length = 20
  | .removeDestroyed addr => addr.length = 20

/-- the call is a storage write executed by (with the storage context of) `a` -/
def Sys.writesAs (a : Bytes) : Sys → Prop
  | .neoPut ctx _ _ => ctx = a
  | .neoDelete ctx _ => ctx = a
  | .wasmWrite self _ _ => self = a
  | .wasmDelete self _ => self = a
  | _ => False

def isPresent (c : Cache) (addr : Bytes) : Bool :=
  match getContract c addr with
  | .present _ => true
  | _ => false

/-- one service call at block height `h` -/
def Sys.run (v : Variant) (track h : Nat) (c : Cache) : Sys → Outcome
  | .neoPut ctx k val =>
    -- `checkStorageContext`: `if err != nil || item == nil { return errors.NewDetailErr(err, …) }` and
    -- `NewDetailErr(nil, …) = nil`: as shipped a missing contract is NOT an error
    if v = .sound && !isPresent c ctx then .fail
    else if k.length > 1024 then .fail
    else .ok (c.put stStorage (ctx ++ k) (rawItem val))
  | .neoDelete ctx k =>
    if v = .sound && !isPresent c ctx then .fail else .ok (c.delete stStorage (ctx ++ k))
  | .neoCreate addr val =>
    match getContract c addr with
    | .present _ => .ok c
    | .absent => .ok (putContract c addr val)
    | .destroyed => .nilInterop c
  | .neoMigrate self addr val =>
    match getContract c addr with
    | .absent => .ok (migrate track (putContract c addr val) self addr h)
    | _ => .fail                              -- ensureContractUndeployed
  | .neoDestroy self =>
    if !isPresent c self then .fail else .ok (clean track c self h)
  | .appCall addr => if isPresent c addr then .ok c else .fail
  | .wasmWrite self k val =>
    if v = .sound && !isPresent c self then .fail else .ok (c.put stStorage (self ++ k) (rawItem val))
  | .wasmDelete self k =>
    if v = .sound && !isPresent c self then .fail else .ok (c.delete stStorage (self ++ k))
  | .wasmCreate addr val =>
    match getContract c addr with
    | .absent => .ok (putContract c addr val)
    | _ => .fail
  | .wasmMigrate self addr val =>
    match getContract c addr with
    | .absent => .ok (migrate track (putContract c addr val) self addr h)
    | _ => .fail
  | .wasmDestroy self => .ok (clean track c self h)
  | .addDestroyed addr => .ok (setDestroyed track c addr h)
  | .removeDestroyed addr => .ok (unsetDestroyed track c addr h)

/-- the calls of one execution, in order; `none` = one of them failed -/
def runCalls (v : Variant) (track h : Nat) : Cache → List Sys → Option Cache
  | c, [] => some c
  | c, s :: r =>
    match s.run v track h c with
    | .ok c' => runCalls v track h c' r
    | .nilInterop c' => runCalls v track h c' r
    | .fail => none

inductive Tx
  | invoke (h : Nat) (calls : List Sys)   -- `cache.Reset()`, run, `Commit()` iff no error
  | deploy (h : Nat) (addr val : Bytes)   -- HandleDeployTransaction (gas price 0)
  | blockCommit                           -- end of block: overlay written to the store, fresh overlay
  deriving Repr, DecidableEq

inductive TxResult | ok | err
  deriving Repr, DecidableEq

def Tx.run (v : Variant) (track : Nat) (c : Cache) : Tx → Cache × TxResult
  | .invoke h calls =>
    let c0 := c.reset
    match runCalls v track h c0 calls with
    | some c' => (c'.commit, .ok)
    | none => (c0, .err)
  | .deploy _ addr val =>
    let c0 := c.reset
    match getContract c0 addr with
    | .destroyed => (c0, .err)
    | .present _ => (c0.commit, .ok)
    | .absent => ((putContract c0 addr val).commit, .ok)
  | .blockCommit => (c.step (.bcommit false), .ok)

def Tx.WF : Tx → Prop
  | .invoke _ calls => ∀ s ∈ calls, s.WF
  | .deploy _ addr _ => addr.length = 20
  | .blockCommit => True

/-- the transaction does not contain the operator's `removeDestroyedContract(a)` -/
def Tx.noRemove (a : Bytes) : Tx → Prop
  | .invoke _ calls => ∀ s ∈ calls, s ≠ .removeDestroyed a
  | _ => True

/-- the transaction contains no storage write executed in the name of `a` -/
def Tx.noWriteAs (a : Bytes) : Tx → Prop
  | .invoke _ calls => ∀ s ∈ calls, ¬ s.writesAs a
  | _ => True

def runTxs (v : Variant) (track : Nat) (c : Cache) (txs : List Tx) : Cache :=
  txs.foldl (fun c t => (t.run v track c).1) c

end OntVerif.Model.Migrate
