import OntVerif.Model.Codec
/-!
# Model of `p2pserver/message/types` (C24)

Executable, core-only.  `ReadMessage` (header checks + payload read + checksum + dispatch) and the per-type
`Deserialization`/`Serialization` methods, written on top of the `ZeroCopySource` readers of `Model/Codec.lean`.
The model mirrors the tree as it is (including the repaired `Addr.Deserialization`, fix f30d0344: the old panic
witnesses stay in `corpus/C24/addr-count.ops`).

* A decoder is a `Dec α := St → Res (α × St)`; `Res.panic` is a Go run-time panic (a slice expression out of
  range), `Res.err e s` an error return (with the state reached, for the allocation accounting), `Res.ok` a normal return.
* Ghost fields of `St`, never read by any decoder:
  - `lossy` is set exactly where the Go code throws information away that the encoder cannot reproduce (an ignored
    `irregular` flag, a list cut to its cap, the `SoftVersion` fallback).  "Canonical payload" = decoding ends with
    `lossy = false` and the cursor at the end of the payload.
  - `allocs` counts allocation events: `allocEv n` mirrors a Go `make(…, n)` / one `append` of a decoded element
    (`allocEv 1` in every count-loop iteration).  The decoders of this package contain no `make` sized by a decoded count
    (pinned by the generated facts `Gen/P2PAlloc.lean`); the two `make` calls of `ReadMessage` are `ReadOk.alloc`.
* The checksum `H : Bytes → Bytes` (first 4 bytes of SHA-256d) is an abstract parameter.  So are the calls out of this
  package made by some decoders, collected in `Oracle`: public-key parsing (`keypair.DeserializePublicKey` followed by
  `SerializePublicKey`), the kad-id difficulty test, `signature.Verify`, the wall-clock test of `getmembers`, and the
  embedded `core/types.Header` decoder (consumed length + re-serialization).  The Go side supplies their values per case.
* `int(count)` is the 64-bit conversion (GOARCH=amd64/arm64): a uint64 ≥ 2^63 becomes negative, a uint32 keeps its value.
* Not modelled (`Msg.opaque`, explored by the harness only): `block`, `tx` (embedded `core/types` Block/Transaction
  decoders: C19/C20) and `offline` (hex public keys + a set of signatures; covered by the `O` lines of the harness).
-/
namespace OntVerif.Model.P2PMsg
open OntVerif.Util OntVerif.Model.Codec

inductive DErr | eof | ueof | irregular | magic | toolong | checksum | other
  deriving DecidableEq, Repr

structure St where
  src : Src
  lossy : Bool
  allocs : Nat
  deriving DecidableEq, Repr

inductive Res (α : Type) | panic | err (e : DErr) (s : St) | ok (a : α)
  deriving DecidableEq, Repr

def Dec (α : Type) := St → Res (α × St)

namespace Dec
def pure (a : α) : Dec α := fun s => .ok (a, s)
def bind (d : Dec α) (f : α → Dec β) : Dec β := fun s =>
  match d s with
  | .panic => .panic
  | .err e s' => .err e s'
  | .ok (a, s') => f a s'
instance : Monad Dec := { pure := Dec.pure, bind := Dec.bind }
end Dec

def fail (e : DErr) : Dec α := fun s => .err e s
/-- ghost: remember that information was dropped -/
def note (b : Bool) : Dec Unit := fun s => .ok ((), { s with lossy := s.lossy || b })
/-- ghost: an allocation of `n` elements (`make(…, n)`, or one `append` for `n = 1`) -/
def allocEv (n : Nat) : Dec Unit := fun s => .ok ((), { s with allocs := s.allocs + n })

def liftO (f : Src → Option (α × Src)) : Dec α := fun s =>
  match f s.src with
  | none => .panic
  | some (a, s') => .ok (a, { s with src := s' })
def liftT (f : Src → α × Src) : Dec α := fun s => .ok ((f s.src).1, { s with src := (f s.src).2 })

/-! raw readers (value, flags) -/
def nBytes (n : Nat) : Dec (Bytes × Bool) := liftO (nextBytes · n)
def nUint (k : Nat) : Dec (Nat × Bool) := liftO (nextUintN k)
def nByte : Dec (UInt8 × Bool) := liftT nextByte
def nBool : Dec (Bool × Bool × Bool) := liftT nextBool
def nFixed (k : Nat) : Dec (Bytes × Bool) := liftO (nextFixed k)
def nVarBytes : Dec (Bytes × Nat × Bool × Bool) := liftO nextVarBytes
/-- `source.Len()` -/
def remaining : Dec Nat := fun s => .ok ((if s.src.off ≥ s.src.bs.length then 0 else s.src.bs.length - s.src.off), s)

/-! checked readers: the ubiquitous `x, eof := source.NextX(); if eof { return io.ErrUnexpectedEOF }` -/
def uN (k : Nat) : Dec Nat := do
  let r ← nUint k
  if r.2 then fail .ueof else pure r.1
def u8 : Dec Nat := do
  let r ← nByte
  if r.2 then fail .ueof else pure r.1.toNat
def fixed (k : Nat) : Dec Bytes := do
  let r ← nFixed k
  if r.2 then fail .ueof else pure r.1
/-- `ReadVarBytes` / `ReadString`: irregular is tested before eof -/
def readVarBytes : Dec Bytes := do
  let r ← nVarBytes
  if r.2.2.1 then fail .irregular else if r.2.2.2 then fail .ueof else pure r.1
/-- `NextString`/`NextVarBytes` with `irregular` discarded (`addr, _, _, eof := source.NextString()`) -/
def varBytesLax : Dec Bytes := do
  let r ← nVarBytes
  if r.2.2.2 then fail .ueof else do
    note r.2.2.1
    pure r.1

/-- `for i := 0; i < n; i++ { x := body(); list = append(list, x) }` -/
def repeatD : Nat → Dec α → Dec (List α)
  | 0, _ => pure []
  | n+1, body => do
    let x ← body
    allocEv 1
    let xs ← repeatD n body
    pure (x :: xs)

/-- `int(count)` for a uint64 on a 64-bit platform, as a loop bound (`i < int(count)` from `i = 0`) -/
def loopBound64 (count : Nat) : Nat := if count < 2 ^ 63 then count else 0

/-- `list[:n]` on a slice whose capacity equals its length (exact for nil; otherwise only `n ≤ len` occurs) -/
def sliceTo (l : List α) (n : Nat) : Dec (List α) := fun s =>
  if n ≤ l.length then .ok (l.take n, s) else .panic

/-! ## Messages -/

structure PeerAddr where
  time : Nat
  services : Nat
  ip : Bytes
  port : Nat
  cport : Nat
  id : Bytes
  deriving DecidableEq, Repr

structure VersionP where
  version : Nat
  services : Nat
  timestamp : Nat
  syncPort : Nat
  httpInfoPort : Nat
  consPort : Nat
  cap : Bytes
  nonce : Nat
  startHeight : Nat
  relay : Nat
  isConsensus : Bool
  softVersion : Bytes
  deriving DecidableEq, Repr

inductive Msg
  | ping (h : Nat)
  | pong (h : Nat)
  | verack (c : Bool)
  | addrReq
  | addr (l : List PeerAddr)
  | headersReq (len : Nat) (s e : Bytes)
  | blocksReq (n : Nat) (s e : Bytes)
  | inv (ty : Nat) (hs : List Bytes)
  | dataReq (ty : Nat) (h : Bytes)
  | notFound (h : Bytes)
  | findNode (id : Bytes)
  | findNodeResp (id : Bytes) (succ : Bool) (addr : Bytes) (closer : List (Bytes × Bytes))
  | version (p : VersionP)
  | members (l : List (Bytes × Bytes))
  | membersReq (frm to : Bytes) (ts : Nat) (pk sig : Bytes)   -- pk = canonical key bytes; ts = 0: request from a seed, no key
  | headers (hs : List Bytes)                                   -- each header as its re-serialization
  | consensus (ver : Nat) (prev : Bytes) (height bk ts : Nat) (data owner sig : Bytes)
  | updateKadId (pk : Bytes)
  | unknown (cmd : Bytes) (payload : Bytes)
  | opaque (cmd : Bytes)
  deriving DecidableEq, Repr

/-! ### command names (ASCII) -/
def cVersion : Bytes := [118, 101, 114, 115, 105, 111, 110]
def cVerack : Bytes := [118, 101, 114, 97, 99, 107]
def cGetAddr : Bytes := [103, 101, 116, 97, 100, 100, 114]
def cAddr : Bytes := [97, 100, 100, 114]
def cPing : Bytes := [112, 105, 110, 103]
def cPong : Bytes := [112, 111, 110, 103]
def cGetHeaders : Bytes := [103, 101, 116, 104, 101, 97, 100, 101, 114, 115]
def cHeaders : Bytes := [104, 101, 97, 100, 101, 114, 115]
def cInv : Bytes := [105, 110, 118]
def cGetData : Bytes := [103, 101, 116, 100, 97, 116, 97]
def cBlock : Bytes := [98, 108, 111, 99, 107]
def cTx : Bytes := [116, 120]
def cConsensus : Bytes := [99, 111, 110, 115, 101, 110, 115, 117, 115]
def cGetBlocks : Bytes := [103, 101, 116, 98, 108, 111, 99, 107, 115]
def cNotFound : Bytes := [110, 111, 116, 102, 111, 117, 110, 100]
def cFindNode : Bytes := [102, 105, 110, 100, 110, 111, 100, 101]
def cFindNodeAck : Bytes := [102, 105, 110, 100, 110, 111, 100, 101, 97, 99, 107]
def cUpdateKadId : Bytes := [117, 112, 100, 97, 116, 101, 107, 97, 100, 105, 100]
def cGetMembers : Bytes := [103, 101, 116, 109, 101, 109, 98, 101, 114, 115]
def cMembers : Bytes := [109, 101, 109, 98, 101, 114, 115]
def cOffline : Bytes := [111, 102, 102, 108, 105, 110, 101]

def knownCmds : List Bytes := [cPing, cVersion, cVerack, cAddr, cGetAddr, cPong, cGetHeaders, cHeaders, cInv, cGetData,
  cBlock, cTx, cConsensus, cNotFound, cGetBlocks, cFindNode, cFindNodeAck, cUpdateKadId, cGetMembers, cMembers, cOffline]

def Msg.cmd : Msg → Bytes
  | .ping _ => cPing | .pong _ => cPong | .verack _ => cVerack | .addrReq => cGetAddr | .addr _ => cAddr
  | .headersReq .. => cGetHeaders | .blocksReq .. => cGetBlocks | .inv .. => cInv | .dataReq .. => cGetData
  | .notFound _ => cNotFound | .findNode _ => cFindNode | .findNodeResp .. => cFindNodeAck | .version _ => cVersion
  | .members _ => cMembers | .membersReq .. => cGetMembers | .headers _ => cHeaders
  | .consensus .. => cConsensus | .updateKadId _ => cUpdateKadId
  | .unknown c _ => c | .opaque c => c

/-! ## Encoders (`Serialization`) -/

def MAX_ADDR_NODE_CNT : Nat := 64
def MAX_INV_BLK_CNT : Nat := 64
def MAX_PAYLOAD_LEN : Nat := 30 * 1024 * 1024 - 24

/-- big-endian value (`big.Int.SetBytes`) -/
def fromBE (bs : Bytes) : Nat := fromLE bs.reverse

/-- `PeerId.ToUint64` -/
def peerIdToUint64 (id : Bytes) : Nat :=
  if (id.drop 8).all (· == 0) then fromLE (id.take 8) else fromBE id % (two64 - 1)

/-- `PseudoPeerIdFromUint64` -/
def pseudoPeerId (v : Nat) : Bytes := leN 8 v ++ List.replicate 12 0

def encPeerAddr (a : PeerAddr) : Bytes :=
  leN 8 a.time ++ leN 8 a.services ++ a.ip ++ leN 2 a.port ++ leN 2 a.cport ++ leN 8 (peerIdToUint64 a.id)

def encPair (p : Bytes × Bytes) : Bytes := p.1 ++ writeVarBytes p.2
def encStrPair (p : Bytes × Bytes) : Bytes := writeVarBytes p.1 ++ writeVarBytes p.2

def encVersion (p : VersionP) : Bytes :=
  leN 4 p.version ++ leN 8 p.services ++ leN 8 p.timestamp ++ leN 2 p.syncPort ++ leN 2 p.httpInfoPort ++
  leN 2 p.consPort ++ p.cap ++ leN 8 p.nonce ++ leN 8 p.startHeight ++ leN 1 p.relay ++ writeBool p.isConsensus ++
  writeVarBytes p.softVersion

def encode : Msg → Bytes
  | .ping h => leN 8 h
  | .pong h => leN 8 h
  | .verack c => writeBool c
  | .addrReq => []
  | .addr l => leN 8 l.length ++ (l.map encPeerAddr).flatten
  | .headersReq n s e => leN 1 n ++ s ++ e
  | .blocksReq n s e => leN 1 n ++ s ++ e
  | .inv ty hs => leN 1 ty ++ leN 4 hs.length ++ hs.flatten
  | .dataReq ty h => leN 1 ty ++ h
  | .notFound h => h
  | .findNode id => id
  | .findNodeResp id succ addr closer =>
      id ++ writeBool succ ++ writeVarBytes addr ++ leN 4 closer.length ++ (closer.map encPair).flatten
  | .version p => encVersion p
  | .members l => leN 4 l.length ++ (l.map encStrPair).flatten
  | .membersReq f t ts pk sig => f ++ t ++ leN 4 ts ++ (if ts != 0 then writeVarBytes pk ++ writeVarBytes sig else [])
  | .headers hs => leN 4 hs.length ++ hs.flatten
  | .consensus ver prev height bk ts data owner sig =>
      leN 4 ver ++ prev ++ leN 4 height ++ leN 2 bk ++ leN 4 ts ++ writeVarBytes data ++ writeVarBytes owner ++ writeVarBytes sig
  | .updateKadId pk => writeVarBytes pk
  | .unknown _ p => p
  | .opaque _ => []


/-! ## Calls out of the package (abstract) -/

/-- smallest serialized `core/types.Header` (no bookkeepers, no signatures, empty consensus payload) -/
def HDR_MIN : Nat := 139

structure Oracle where
  /-- `keypair.DeserializePublicKey(b)` followed by `keypair.SerializePublicKey`: `none` = parse error -/
  pk : Bytes → Option Bytes
  /-- `validatePublicKey` (kad-id difficulty), on the canonical key bytes -/
  kadOk : Bytes → Bool
  /-- `signature.Verify(key, data, sig) == nil` -/
  sigOk : Bytes → Bytes → Bytes → Bool
  /-- `uint32(time.Now().Add(-time.Hour).Unix()) > ts` -/
  expired : Nat → Bool
  /-- `core/types.Header.Deserialization` on the unread bytes: (bytes consumed, re-serialization); `none` = error -/
  hdr : Bytes → Option (Nat × Bytes)

/-- what the model assumes about the embedded header decoder: it consumes what it reports, at least a minimal header -/
def Oracle.wf (O : Oracle) : Prop := ∀ b n re, O.hdr b = some (n, re) → HDR_MIN ≤ n ∧ n ≤ b.length

/-! ## Well-formed messages (field ranges of the Go types; what `Serialization` can emit and `Deserialization` returns) -/

def PeerAddr.wf (a : PeerAddr) : Prop :=
  a.time < 2 ^ 64 ∧ a.services < 2 ^ 64 ∧ a.ip.length = 16 ∧ a.port < 2 ^ 16 ∧ a.cport < 2 ^ 16 ∧
  ∃ v, v < 2 ^ 64 ∧ a.id = pseudoPeerId v          -- ids travel as uint64: only pseudo ids survive

def VersionP.wf (p : VersionP) : Prop :=
  p.version < 2 ^ 32 ∧ p.services < 2 ^ 64 ∧ p.timestamp < 2 ^ 64 ∧ p.syncPort < 2 ^ 16 ∧ p.httpInfoPort < 2 ^ 16 ∧
  p.consPort < 2 ^ 16 ∧ p.cap.length = 32 ∧ p.nonce < 2 ^ 64 ∧ p.startHeight < 2 ^ 64 ∧ p.relay < 2 ^ 8

def Msg.wf (O : Oracle) : Msg → Prop
  | .ping h => h < 2 ^ 64
  | .pong h => h < 2 ^ 64
  | .verack _ => True
  | .addrReq => True
  | .addr l => l.length ≤ MAX_ADDR_NODE_CNT ∧ ∀ a ∈ l, a.wf
  | .headersReq n s e => n < 2 ^ 8 ∧ s.length = 32 ∧ e.length = 32
  | .blocksReq n s e => n < 2 ^ 8 ∧ s.length = 32 ∧ e.length = 32
  | .inv ty hs => ty < 2 ^ 8 ∧ hs.length ≤ MAX_INV_BLK_CNT ∧ ∀ h ∈ hs, h.length = 32
  | .dataReq ty h => ty < 2 ^ 8 ∧ h.length = 32
  | .notFound h => h.length = 32
  | .findNode id => id.length = 20
  | .findNodeResp id _ _ closer => id.length = 20 ∧ closer.length < 2 ^ 32 ∧ ∀ p ∈ closer, p.1.length = 20
  | .version p => p.wf
  | .members l => l.length < 2 ^ 32
  | .membersReq f t ts pk sig => f.length = 20 ∧ t.length = 20 ∧ ts < 2 ^ 32 ∧ (ts = 0 → pk = [] ∧ sig = []) ∧
      (ts ≠ 0 → O.pk pk = some pk ∧ O.expired ts = false ∧ O.sigOk pk (f ++ t ++ leN 4 ts) sig = true)
  | .headers hs => hs.length < 2 ^ 32 ∧ ∀ h ∈ hs, ∀ rest, O.hdr (h ++ rest) = some (h.length, h)
  | .consensus ver prev height bk ts _ owner _ =>
      ver < 2 ^ 32 ∧ prev.length = 32 ∧ height < 2 ^ 32 ∧ bk < 2 ^ 16 ∧ ts < 2 ^ 32 ∧ O.pk owner = some owner
  | .updateKadId pk => O.pk pk = some pk ∧ O.kadOk pk = true
  | .unknown c _ => c ∉ knownCmds ∧ c.length ≤ 12 ∧ c.getLast? ≠ some 0   -- what survives `TrimRight` of the 12-byte field
  | .opaque _ => False

def Msg.isOpaque : Msg → Bool
  | .opaque _ => true
  | _ => false

/-! ## Decoders (`Deserialization`) -/

def padTo (k : Nat) (b : Bytes) : Bytes := b.take k ++ List.replicate (k - b.length) 0

def decPing : Dec Msg := do let h ← uN 8; pure (.ping h)
def decPong : Dec Msg := do let h ← uN 8; pure (.pong h)

def decVerack : Dec Msg := do
  let r ← nBool
  if r.2.2 then fail .ueof else if r.2.1 then fail .irregular else pure (.verack r.1)

def decAddrReq : Dec Msg := pure .addrReq

def decPeerAddr : Dec PeerAddr := do
  let time ← uN 8
  let services ← uN 8
  let ip ← nBytes 16            -- `buf, _ := source.NextBytes(16)`: eof ignored here, caught by the next read
  let port ← uN 2
  let cport ← uN 2
  let id ← uN 8
  pure ⟨time, services, padTo 16 ip.1, port, cport, pseudoPeerId id⟩

/-- `Addr.Deserialization` (with the bound check of fix f30d0344: an entry takes 44 bytes, so a count above the unread
length can never be satisfied; in particular `int(count)` is then non-negative) -/
def decAddr : Dec Msg := do
  let count ← uN 8
  let rem ← remaining
  if count > rem then fail .ueof else do
    let l ← repeatD (loopBound64 count) decPeerAddr
    note (decide (count > MAX_ADDR_NODE_CNT))
    let l' ← sliceTo l (if count > MAX_ADDR_NODE_CNT then MAX_ADDR_NODE_CNT else count)
    pure (.addr l')

def decHeadersReq : Dec Msg := do
  let n ← u8
  let s ← fixed 32
  let e ← fixed 32
  pure (.headersReq n s e)

def decBlocksReq : Dec Msg := do
  let n ← u8
  let s ← fixed 32
  let e ← fixed 32
  pure (.blocksReq n s e)

def decInv : Dec Msg := do
  let ty ← u8
  let cnt ← uN 4
  let hs ← repeatD cnt (fixed 32)
  note (decide (cnt > MAX_INV_BLK_CNT))
  let hs' ← sliceTo hs (if cnt > MAX_INV_BLK_CNT then MAX_INV_BLK_CNT else cnt)
  pure (.inv ty hs')

def decDataReq : Dec Msg := do
  let ty ← u8
  let h ← fixed 32
  pure (.dataReq ty h)

def decNotFound : Dec Msg := do let h ← fixed 32; pure (.notFound h)
def decFindNode : Dec Msg := do let id ← fixed 20; pure (.findNode id)

def decCloser : Dec (Bytes × Bytes) := do
  let id ← fixed 20
  let a ← varBytesLax
  pure (id, a)

def decFindNodeResp : Dec Msg := do
  let id ← fixed 20
  let r ← nBool                -- `succ, _, eof := source.NextBool()`
  if r.2.2 then fail .ueof else do
    note r.2.1
    let addr ← varBytesLax
    let n ← uN 4
    let closer ← repeatD n decCloser
    pure (.findNodeResp id r.1 addr closer)

def decVersion : Dec Msg := do
  let version ← uN 4
  let services ← uN 8
  let timestamp ← uN 8
  let syncPort ← uN 2
  let httpInfoPort ← uN 2
  let consPort ← uN 2
  let cap ← fixed 32
  let nonce ← uN 8
  let startHeight ← uN 8
  let relay ← u8
  let b ← nBool
  if b.2.2 || b.2.1 then fail .ueof else do
    let sv ← nVarBytes
    let bad := sv.2.2.2 || sv.2.2.1          -- `if eof || irregular { SoftVersion = "" }`
    note bad
    pure (.version ⟨version, services, timestamp, syncPort, httpInfoPort, consPort, cap, nonce, startHeight, relay,
                    b.1, if bad then [] else sv.1⟩)

def decMember : Dec (Bytes × Bytes) := do
  let pk ← readVarBytes
  let a ← readVarBytes
  pure (pk, a)

def decMembers : Dec Msg := do
  let n ← uN 4
  let l ← repeatD n decMember
  pure (.members l)

/-- `data, _, irregular, eof := source.NextVarBytes(); if eof {…}; if irregular {…}` -/
def varBytesEofFirst : Dec Bytes := do
  let r ← nVarBytes
  if r.2.2.2 then fail .ueof else if r.2.2.1 then fail .irregular else pure r.1

/-- `SubnetMembersRequest.Deserialization` -/
def decMembersReq (O : Oracle) : Dec Msg := do
  let f ← fixed 20
  let t ← fixed 20
  let ts ← uN 4
  if ts != 0 then do
    let pkb ← readVarBytes
    match O.pk pkb with
    | none => fail .other
    | some canon => do
      let sg ← readVarBytes
      if O.expired ts then fail .other
      else if !O.sigOk canon (f ++ t ++ leN 4 ts) sg then fail .other
      else do
        note (canon != pkb)
        pure (.membersReq f t ts canon sg)
  else pure (.membersReq f t 0 [] [])

/-- the unread bytes (what an embedded decoder gets to see) -/
def peekRest : Dec Bytes := fun s => .ok (s.src.bs.drop s.src.off, s)

/-- one `headers.Deserialization(source)` of `core/types.Header` (abstract), mirrored as "skip the bytes it consumed" -/
def decHeader (O : Oracle) : Dec Bytes := do
  let rest ← peekRest
  match O.hdr rest with
  | none => fail .other
  | some (n, re) =>
    if n > rest.length then fail .other else do   -- unreachable for a well-behaved oracle (`Oracle.wf`)
      let r ← nBytes n
      if r.2 then fail .other else do
        note (re != r.1)
        pure re

/-- `BlkHeader.Deserialization` -/
def decHeaders (O : Oracle) : Dec Msg := do
  let count ← uN 4
  let hs ← repeatD count (decHeader O)
  pure (.headers hs)

/-- `ConsensusPayload.Deserialization` -/
def decConsensus (O : Oracle) : Dec Msg := do
  let ver ← uN 4
  let prev ← fixed 32
  let height ← uN 4
  let bk ← uN 2
  let ts ← uN 4
  let data ← varBytesEofFirst
  let pkb ← varBytesEofFirst
  match O.pk pkb with
  | none => fail .other
  | some canon => do
    let sg ← readVarBytes            -- here `irregular` is tested before `eof`
    note (canon != pkb)
    pure (.consensus ver prev height bk ts data canon sg)

/-- `UpdatePeerKeyId.Deserialization` (`PeerKeyId.Deserialization`) -/
def decUpdateKadId (O : Oracle) : Dec Msg := do
  let pkb ← readVarBytes
  match O.pk pkb with
  | none => fail .other
  | some canon =>
    if !O.kadOk canon then fail .other else do
      note (canon != pkb)
      pure (.updateKadId canon)

def decUnknown (cmd : Bytes) : Dec Msg := do
  let n ← remaining
  let r ← nBytes n
  pure (.unknown cmd r.1)

/-- `makeEmptyMessage(cmdType)` followed by `msg.Deserialization(source)` -/
def decodePayload (O : Oracle) (cmd : Bytes) : Dec Msg :=
  if cmd = cPing then decPing
  else if cmd = cVersion then decVersion
  else if cmd = cVerack then decVerack
  else if cmd = cAddr then decAddr
  else if cmd = cGetAddr then decAddrReq
  else if cmd = cPong then decPong
  else if cmd = cGetHeaders then decHeadersReq
  else if cmd = cHeaders then decHeaders O
  else if cmd = cInv then decInv
  else if cmd = cGetData then decDataReq
  else if cmd = cBlock then pure (.opaque cmd)
  else if cmd = cTx then pure (.opaque cmd)
  else if cmd = cConsensus then decConsensus O
  else if cmd = cNotFound then decNotFound
  else if cmd = cGetBlocks then decBlocksReq
  else if cmd = cFindNode then decFindNode
  else if cmd = cFindNodeAck then decFindNodeResp
  else if cmd = cUpdateKadId then decUpdateKadId O
  else if cmd = cGetMembers then decMembersReq O
  else if cmd = cMembers then decMembers
  else if cmd = cOffline then pure (.opaque cmd)
  else decUnknown cmd

def St.init (p : Bytes) : St := ⟨⟨p, 0⟩, false, 0⟩

/-- decode a whole payload; canonical = no ghost loss and everything consumed -/
def decodeAll (O : Oracle) (cmd p : Bytes) : Res (Msg × St) := decodePayload O cmd (St.init p)

def canonicalEnd (p : Bytes) (st : St) : Bool := !st.lossy && st.src.off == p.length

/-! ## Framing -/

structure Header where
  magic : Nat
  cmd : Bytes
  length : Nat
  checksum : Bytes
  deriving DecidableEq, Repr

/-- `bytes.TrimRight(hdr.CMD[:], "\x00")` -/
def trimRight0 (b : Bytes) : Bytes := (b.reverse.dropWhile (· == 0)).reverse

/-- `io.ReadFull(reader, buf)` with `len(buf) = n` on a reader holding `st`: (buf, rest) -/
def readFull (st : Bytes) (n : Nat) : Except DErr (Bytes × Bytes) :=
  if n = 0 then .ok ([], st)
  else if n ≤ st.length then .ok (st.take n, st.drop n)
  else if st.length = 0 then .error .eof
  else .error .ueof

/-- `readMessageHeader` on the 24 header bytes (eof flags are discarded by the code) -/
def parseHeader : Dec Header := do
  let m ← nUint 4
  let c ← nBytes 12
  let l ← nUint 4
  let k ← nBytes 4
  pure ⟨m.1, padTo 12 c.1, l.1, padTo 4 k.1⟩

structure ReadOk where
  msg : Msg
  len : Nat          -- hdr.Length (second result of ReadMessage)
  rest : Bytes       -- unread part of the stream
  alloc : Nat        -- ghost: size passed to `make([]byte, hdr.Length)`
  fin : St           -- ghost: final decoder state (cursor, lossy)
  deriving DecidableEq, Repr

/-- result of `ReadMessage` -/
inductive RRes | panic | err (e : DErr) | ok (r : ReadOk)
  deriving DecidableEq, Repr

/-- `types.ReadMessage(reader)`; `magic` = `config.DefConfig.P2PNode.NetworkMagic`, `H` = `common.Checksum` -/
def readMessage (O : Oracle) (magic : Nat) (H : Bytes → Bytes) (stream : Bytes) : RRes :=
  match readFull stream 24 with
  | .error e => .err e
  | .ok (hb, rest) =>
    match parseHeader (St.init hb) with
    | .panic => .panic
    | .err e _ => .err e
    | .ok (hdr, _) =>
      if hdr.magic ≠ magic then .err .magic
      else if hdr.length > MAX_PAYLOAD_LEN then .err .toolong
      else
        match readFull rest hdr.length with      -- buf := make([]byte, hdr.Length); io.ReadFull(reader, buf)
        | .error e => .err e
        | .ok (buf, rest') =>
          if H buf ≠ hdr.checksum then .err .checksum
          else
            match decodePayload O (trimRight0 hdr.cmd) (St.init buf) with
            | .panic => .panic
            | .err e _ => .err e
            | .ok (m, st) => .ok ⟨m, hdr.length, rest', hdr.length, st⟩

/-- `newMessageHeader` + `writeMessageHeaderInto` + payload (`WriteMessage`) -/
def writeMessage (magic : Nat) (H : Bytes → Bytes) (m : Msg) : Bytes :=
  let p := encode m
  leN 4 magic ++ padTo 12 m.cmd ++ leN 4 p.length ++ padTo 4 (H p) ++ p

/-- a message `WriteMessage` can frame so that `ReadMessage` accepts it -/
def Framable (O : Oracle) (H : Bytes → Bytes) (magic : Nat) (m : Msg) : Prop :=
  m.wf O ∧ magic < 2 ^ 32 ∧ (encode m).length ≤ MAX_PAYLOAD_LEN ∧ (∀ b, (H b).length = 4)

/-- the receive loop of `link.Rx`: read messages until the first error; number of messages delivered, or `none` on panic.
`fuel` only bounds the recursion of the model (each message consumes ≥ 24 bytes, see `Props/C24`). -/
def rxLoop (O : Oracle) (magic : Nat) (H : Bytes → Bytes) : Nat → Bytes → Option Nat
  | 0, _ => some 0
  | fuel+1, stream =>
    match readMessage O magic H stream with
    | .panic => none
    | .err _ => some 0
    | .ok r => (rxLoop O magic H fuel r.rest).map (· + 1)

end OntVerif.Model.P2PMsg
