import OntVerif.Util.Hex
/-!
# VBFT participant selection (C29)

Mirror of `consensus/vbft/node_utils.go`: `calcParticipant` (16 bits taken from the 64-byte seed at bit offset `k`,
reduced modulo the table length) and `calcParticipantPeers` (walk the position table collecting distinct peers, fill
from the configured peer list up to `3c+1`, split into proposers / endorsers / committers, top the two voting sets up
to `2c+1`). Peer indexes are `uint32` in Go; here `Nat`.

`calcParticipantPeers` is written over an abstract selection stream `pick : Nat → Nat` (the value of `calcParticipant`
at position `k`) so the well-formedness theorems hold for every seed and every way of deriving picks from it.
-/
namespace OntVerif.Model.Participant

/-- `math.MaxUint32`: returned by `calcParticipant` for `k ≥ 512`; `calcParticipantPeers` stops when it sees it -/
def maxU32 : Nat := 4294967295

/-- the 16-bit value `v` that `calcParticipant` takes from the seed at bit offset `k < 512` (before `% len(dposTable)`);
`vrf i` is byte `i` of the 64-byte seed (`VRFValue`), reduced mod 256. All intermediate values fit 32 bits
(`v < 2^16`), so the `uint32` arithmetic never wraps; kept as `% 2^32` anyway. -/
def pickValue (vrf : Nat → Nat) (k : Nat) : Nat :=
  let bIdx := k / 8
  let bits1 := k % 8
  let bits2 := 8 + bits1
  let v1 := (vrf bIdx % 256) >>> bits1
  let v2 := if bIdx + 1 < 64 then vrf (bIdx + 1) % 256 else vrf 0 % 256
  let v2 := v2 &&& ((1 <<< bits2) % 4294967296 - 1)
  ((v2 <<< (8 - bits1)) % 4294967296 + v1) % 4294967296

/-- `calcParticipant(vrf, dposTable, k)` -/
def calcParticipant (vrf : Nat → Nat) (pos : List Nat) (k : Nat) : Nat :=
  if k ≥ 512 then maxU32
  else if h : 0 < pos.length then pos[pickValue vrf k % pos.length]'(Nat.mod_lt _ h)
  else maxU32      -- Go: division by zero; unreachable from calcParticipantPeers (its loop runs `len(PosTable)` times)

/-- step 1 of `calcParticipantPeers`: `for i := 0; i < len(PosTable); i++` collecting distinct picks in order of first
appearance; stops at the sentinel, or when more than `limit = (c+1)+2(2c+1)` peers or exactly `N` peers were found.
`fuel` = remaining iterations. -/
def selectLoop (pick : Nat → Nat) (limit N : Nat) : (fuel i : Nat) → List Nat → List Nat
  | 0, _, acc => acc
  | fuel + 1, i, acc =>
    let p := pick i
    if p = maxU32 then acc
    else if p ∈ acc then selectLoop pick limit N fuel (i + 1) acc
    else
      let acc' := acc ++ [p]
      if acc'.length > limit ∨ acc'.length = N then acc' else selectLoop pick limit N fuel (i + 1) acc'

/-- step 2: `for _, peer := range chain.Peers` adding absent peers; the `len(peerMap) > c*3` test follows every
iteration (also one that added nothing) -/
def fillLoop (c : Nat) : List Nat → List Nat → List Nat
  | [], acc => acc
  | p :: ps, acc =>
    let acc' := if p ∈ acc then acc else acc ++ [p]
    if acc'.length > c * 3 then acc' else fillLoop c ps acc'

/-- `for … && len(dst) < need; … { dst = append(dst, src[i]) }` over `src` in visiting order -/
def topUp (need : Nat) : List Nat → List Nat → List Nat
  | [], acc => acc
  | x :: xs, acc => if acc.length < need then topUp need xs (acc ++ [x]) else acc

structure Sel where
  proposers : List Nat
  endorsers : List Nat
  committers : List Nat
  deriving Repr, DecidableEq

/-- the distinct peers gathered by steps 1 and 2 -/
def gather (pick : Nat → Nat) (posLen c N : Nat) (peers : List Nat) : List Nat :=
  let sel := selectLoop pick ((c + 1) + ((2 * c + 1) * 2)) N posLen 0 []
  if sel.length ≤ c * 3 then fillLoop c peers sel else sel

/-- the split and the two top-ups. `none` = fewer than `c+1` peers gathered (Go: `peers[0:c+1]` beyond the length —
panics or reads spare capacity; never with a valid configuration). -/
def split (c : Nat) (peers : List Nat) : Option Sel :=
  if peers.length < c + 1 then none
  else
    let nCommitter := 2 * c + 1
    let proposers := peers.take (c + 1)
    let n1 := (peers.length - proposers.length) / 2
    let endorsers0 := (peers.drop (c + 1)).take n1
    let committers := peers.drop (c + 1 + n1)
    let endorsers :=
      if endorsers0.length < nCommitter then
        -- 1. last proposer  2. committers from the back  3. proposers c-1 … 1
        let e := endorsers0 ++ (proposers.drop c).take 1
        let e := topUp nCommitter committers.reverse e
        topUp nCommitter ((proposers.take c).drop 1).reverse e
      else endorsers0
    let committers' :=
      if committers.length < nCommitter then
        -- 1. proposers 1 … c  2. initial endorsers from the back
        let k := topUp nCommitter (proposers.drop 1) committers
        topUp nCommitter endorsers0.reverse k
      else committers
    some ⟨proposers, endorsers, committers'⟩

/-- `calcParticipantPeers(cfg, chain)` with `pick k = calcParticipant(cfg.Vrf, chain.PosTable, k)` -/
def calcParticipantPeersOf (pick : Nat → Nat) (posLen c N : Nat) (peers : List Nat) : Option Sel :=
  split c (gather pick posLen c N peers)

def calcParticipantPeers (vrf : Nat → Nat) (pos : List Nat) (c N : Nat) (peers : List Nat) : Option Sel :=
  calcParticipantPeersOf (calcParticipant vrf pos) pos.length c N peers

/-! ### which configurations does the code accept?

`governance.CheckVBFTConfig` (genesis / initConfig), `governance.UpdateConfig` and `vconfig.genConsensusPayload` all test
`C ≠ 0` and `K ≥ 2C+1` (plus `K ≥ 7` in the governance contract) — not the BFT bound `K ≥ 3C+1` that participant selection
(and quorum intersection, C28) needs. `asShipped` mirrors the code, `sound` adds the missing bound. -/

inductive Variant | asShipped | sound
  deriving DecidableEq, Repr

/-- the part of `CheckVBFTConfig` that concerns `K`, `C` and the peer indexes (the harness fixes `N = K`, `L = 16K` and
valid delays, keys and addresses): `C ≠ 0`, `K = len(Peers)`, `K ≥ 2C+1`, `K ≥ 7`, indexes distinct and `> 0` -/
def checkConfig (v : Variant) (K C : Nat) (peers : List Nat) : Bool :=
  decide (C ≠ 0 ∧ K = peers.length ∧ ¬ K < 2 * C + 1 ∧ ¬ K < 7 ∧ peers.Nodup ∧ (∀ x ∈ peers, 0 < x) ∧
    (v = .sound → 3 * C + 1 ≤ K))

end OntVerif.Model.Participant
