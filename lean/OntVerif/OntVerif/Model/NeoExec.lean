import OntVerif.Model.NeoProg
import OntVerif.Model.NeoInt
/-!
# Model of the NeoVM executor as a machine over byte code (C12)

`vm/neovm/executor.go:ExecuteOp`, `value_stack.go`, `execution_context.go`, `utils/vm_reader.go`, the loop header of
`smartcontract/service/neovm/neovm_service.go:Invoke`, `types/struct_value.go:cloneStruct`, `types/array_value.go:RemoveAt`.

Executable, core-only.  What is mirrored LITERALLY:

* every explicit bounds check (`index >= l || index < 0`, `start > length`, `count > MAX_ARRAY_SIZE`, `offset > len(code)`, …) is
  an `if` in the same place with the same comparison;
* every Go index expression `s[i]`, slice expression `s[a:b]`, element assignment `s[i] = v` and `make([]T, n)` goes through
  `goIdx / goSlice / goSet / goMake`, which return `R.panic` exactly where the Go runtime panics (for slices whose capacity
  equals their length; a slice expression Go would accept only thanks to spare capacity is a `panic` here — stricter);
* the evaluation stack is the Go slice `ValueStack.data` in Go order (bottom first), so `l - index - 1` arithmetic is the code's own;
* the code reader is `bytes.Reader` (`i` may run past the end after `Seek`), with the documented short-read bug of `ReadBytes`
  (`Read` instead of `io.ReadFull`) and the `AllowReaderEOF` feature flag.

`Props/C12.lean` proves that for EVERY machine state and EVERY opcode byte the step is `ok | fault | unmod`, never `panic`,
`fuel` (a loop of the model running out of its budget) — so deleting or weakening one of the mirrored checks makes a
`goIdx/goSlice` reachable outside its range and the proof fail.

Values live on the heap of `Model/NeoVal.lean` (containers are references; sharing and cycles are ordinary heaps).
Integers are mathematical (`Int`) with the 32-byte size limit of `IntValFromBigInt`; Go's `int`/`int64` arithmetic on indexes
is exact here because every operand is bounded by a length (≤ 2^20) before it is used.
Maps are kept sorted by key (`NeoVal.mapSet`), so KEYS / VALUES need no iteration-order parameter.
The integer opcodes go through `Model/NeoInt.lean` (C13: `execUnary / execBinary / execWithin`, code as shipped). EQUAL on two structs is
`reflect.DeepEqual` with its `visited` set and an explicit nesting budget: where Go's stack ends the outcome is `R.overflow` (a fatal
stack overflow, known finding). SYSCALL is modelled for `System.Runtime.Serialize / Deserialize / Notify` (C14's functions; `Serialize`
is a parameter `serF` of the step so that the driver can plug an explicit-stack evaluator).
Outside the model (`R.unmod`): every other syscall, APPCALL, TAILCALL, the hash / signature opcodes, integer conversion of a byte array
longer than 33 bytes, `Serialize` of a value from which a map with two or more entries is reachable (Go's map order decides what the
shipped detector sees: C14 / C15).
-/
namespace OntVerif.Model.NeoExec
open OntVerif.Util OntVerif.Model.Codec OntVerif.Model.NeoVal OntVerif.Model.NeoProg

/-- result of a piece of Go code: value, VM fault (error return), Go runtime panic, outside the model, reference outside the
heap (not a Go state), model loop budget exhausted -/
inductive R (α : Type) where
  | ok (a : α) | fault | panic | unmod | dangling | fuel
  | overflow   -- the Go recursion exceeds the goroutine stack limit: `fatal error: stack overflow` (only `reflect.DeepEqual` under EQUAL)
  deriving Repr

def R.bind {α β : Type} : R α → (α → R β) → R β
  | .ok a, f => f a
  | .fault, _ => .fault
  | .panic, _ => .panic
  | .unmod, _ => .unmod
  | .dangling, _ => .dangling
  | .fuel, _ => .fuel
  | .overflow, _ => .overflow

instance : Monad R where
  pure := R.ok
  bind := R.bind

/-! ## Go slice primitives -/

/-- `xs[i]` -/
def goIdx {α : Type} (xs : List α) (i : Int) : R α :=
  if 0 ≤ i ∧ i < xs.length then
    match xs[i.toNat]? with
    | some x => .ok x
    | none => .panic
  else .panic

/-- `xs[lo:hi]` (capacity = length) -/
def goSlice {α : Type} (xs : List α) (lo hi : Int) : R (List α) :=
  if 0 ≤ lo ∧ lo ≤ hi ∧ hi ≤ xs.length then .ok ((xs.drop lo.toNat).take (hi - lo).toNat) else .panic

/-- `xs[i] = v` -/
def goSet {α : Type} (xs : List α) (i : Int) (v : α) : R (List α) :=
  if 0 ≤ i ∧ i < xs.length then .ok (xs.set i.toNat v) else .panic

/-- `make([]T, n)` filled with the zero value `z`: `panic: makeslice: len out of range` for a negative length. (The other way
`make` can kill the process — a length the allocator cannot serve — is excluded by the separate allocation bound
`readBytes_alloc_bound`: the only attacker-sized `make` of the executor never exceeds max(1 MiB, code length).) -/
def goMake {α : Type} (n : Int) (z : α) : R (List α) :=
  if 0 ≤ n then .ok (List.replicate n.toNat z) else .panic

/-! ## `ValueStack` (value_stack.go) — `data` in Go order, `limit = STACK_LIMIT` -/

def STACK_LIMIT : Int := 2048
def MAX_INVOCATION_STACK_SIZE : Nat := 1024

abbrev Stack := List Val

def vsPush (d : Stack) (t : Val) : R Stack :=
  if (d.length : Int) ≥ STACK_LIMIT then .fault else .ok (d ++ [t])

/-- `PushMany(vals...)` -/
def vsPushMany (d : Stack) (vals : List Val) : R Stack :=
  if ((d.length + vals.length : Nat) : Int) > STACK_LIMIT then .fault else .ok (d ++ vals)

def vsPop (d : Stack) : R (Val × Stack) :=
  let length : Int := d.length
  if length = 0 then .fault else do
    let value ← goIdx d (length - 1)
    let rest ← goSlice d 0 (length - 1)
    pure (value, rest)

def vsPeek (d : Stack) (index : Int) : R Val :=
  let l : Int := d.length
  if index ≥ l ∨ index < 0 then .fault else
  let index := l - index
  goIdx d (index - 1)

def vsRemove (d : Stack) (index : Int) : R (Val × Stack) :=
  let l : Int := d.length
  if index ≥ l ∨ index < 0 then .fault else
  let index := l - index
  do
    let value ← goIdx d (index - 1)
    let a ← goSlice d 0 (index - 1)
    let b ← goSlice d index l
    pure (value, a ++ b)

/-- `Insert`: `append`, then `copy(data[index+1:], data[index:])` (memmove semantics), then `data[index] = t` -/
def vsInsert (d : Stack) (index : Int) (t : Val) : R Stack :=
  let l : Int := d.length
  if l ≥ STACK_LIMIT then .fault else
  if index > l ∨ index < 0 then .fault else
  let index := l - index
  let d1 := d ++ [t]
  do
    let dst ← goSlice d1 (index + 1) d1.length
    let src ← goSlice d1 index d1.length
    let d2 := d1.take (index + 1).toNat ++ src.take dst.length
    goSet d2 index t

def vsSwap (d : Stack) (i j : Int) : R Stack :=
  let l : Int := d.length
  if i ≥ l ∨ i < 0 then .fault else
  if j ≥ l ∨ j < 0 then .fault else
  if i = j then .ok d else do
    let a ← goIdx d (l - i - 1)
    let b ← goIdx d (l - j - 1)
    let d1 ← goSet d (l - i - 1) b
    goSet d1 (l - j - 1) a

/-! ## value conversions (`types/neovm_value.go`) -/

def ofOpt {α : Type} : Option α → R α
  | some a => .ok a
  | none => .fault

/-- `AsBool` -/
def asBool (h : Heap) : Val → R Bool
  | .int z => .ok (z != 0)
  | .bool b => .ok b
  | .bytes d => .ok (d.any (· != 0))
  | .ref r =>
    match h[r]? with
    | some (.struct _) | some (.map _) => .ok true
    | some (.arr _) => .fault
    | none => .dangling

/-- `AsBigInt` (no size limit: "urgly hack" of the comparison opcodes) -/
def asBigInt : Val → R Int
  | .int z => .ok z
  | .bool b => .ok (if b then 1 else 0)
  | .bytes d => .ok (fromNeo d)
  | .ref _ => .fault

/-- `AsIntValue` (32-byte limit) -/
def asIntValue : Val → R Int
  | .int z => if intTooBig z then .fault else .ok z
  | .bool b => .ok (if b then 1 else 0)
  | .bytes d => let z := fromNeo d; if intTooBig z then .fault else .ok z
  | .ref _ => .fault

/-- `IntValFromBigInt` of an arithmetic result -/
def intResult (z : Int) : R Val := if intTooBig z then .fault else .ok (.int z)

/-- `VmValueFromBytes` -/
def valFromBytes (b : Bytes) : R Val :=
  if b.length > MAX_BYTEARRAY_SIZE then .fault else .ok (.bytes b)

def popAsInt64 (d : Stack) : R (Int × Stack) := do
  let (v, d) ← vsPop d
  let i ← ofOpt (asInt64 v)
  pure (i, d)

def popAsBytes (d : Stack) : R (Bytes × Stack) := do
  let (v, d) ← vsPop d
  let b ← ofOpt (asBytes v)
  pure (b, d)

def popAsBool (h : Heap) (d : Stack) : R (Bool × Stack) := do
  let (v, d) ← vsPop d
  let b ← asBool h v
  pure (b, d)

def popAsIntValue (d : Stack) : R (Int × Stack) := do
  let (v, d) ← vsPop d
  let z ← asIntValue v
  pure (z, d)

def pushBytes (d : Stack) (b : Bytes) : R Stack := do
  let v ← valFromBytes b
  vsPush d v

/-! ## the code reader (`bytes.Reader` under `utils.VmReader`) -/

/-- `Reader.Len()` -/
def rdLen (code : Bytes) (pos : Nat) : Nat := if pos ≥ code.length then 0 else code.length - pos

/-- `VmReader.Position()` = `ExecutionContext.GetInstructionPointer()` -/
def position (code : Bytes) (pos : Nat) : Int := (code.length : Int) - (rdLen code pos : Int)

/-- `ReadByte` (an error is `io.EOF`: the callers return it as a fault) -/
def readByte (code : Bytes) (pos : Nat) : R (UInt8 × Nat) :=
  if pos ≥ code.length then .fault else do
    let b ← goIdx code pos
    pure (b, pos + 1)

/-- `Reader.Read(b)` with `len(b) = n`: EOF when nothing is left (even for `n = 0`); otherwise `copy(b, s[i:])` — a SHORT read
is not an error; the rest of `b` keeps its zeros -/
def readInto (code : Bytes) (pos : Nat) (n : Nat) : R (Bytes × Nat) :=
  if pos ≥ code.length then .fault else do
    let tail ← goSlice code pos code.length
    let got := tail.take n
    pure (got ++ List.replicate (n - got.length) 0, pos + got.length)

/-- `VmReader.ReadBytes(count)` -/
def readBytes (allowEOF : Bool) (code : Bytes) (pos : Nat) (count : Int) : R (Bytes × Nat) :=
  let amount : Int := if allowEOF then 1048576 else rdLen code pos
  if amount < count then .fault else do
    let b ← goMake count (0 : UInt8)
    readInto code pos b.length

/-- `ReadUint16` / `ReadUint32` through `ReadBytesInto` (short reads leave zero bytes) -/
def readUintN (code : Bytes) (pos : Nat) (k : Nat) : R (Nat × Nat) := do
  let (b, pos) ← readInto code pos k
  pure (fromLE b, pos)

/-- `int16(x)` -/
def toInt16 (x : Nat) : Int := if x % 65536 < 32768 then (x % 65536 : Nat) else ((x % 65536 : Nat) : Int) - 65536

/-- `Reader.Seek(offset, io.SeekStart)`: only a negative position is an error; a position past the end is accepted -/
def seek (offset : Int) : R Nat := if offset < 0 then .fault else .ok offset.toNat

/-! ## `StructValue.Clone` -/

/-- elements of one struct; nested structs are cloned (`rec`), everything else is shared. `h0` = heap to read from (new objects are
appended to `h`). `length` is the shared counter `*length`. -/
def cloneElems (rec : Ref → Heap → Nat → R (Ref × Heap × Nat)) (h0 : Heap) :
    List Val → Heap → Nat → R (List Val × Heap × Nat)
  | [], h, len => .ok ([], h, len)
  | v :: vs, h, len =>
    let len := len + 1
    let r1 : R (Val × Heap × Nat) :=
      match v with
      | .ref r =>
        match h0[r]? with
        | some (.struct _) => (rec r h len).bind fun (r', h', l') => .ok (.ref r', h', l')
        | some _ => .ok (v, h, len)
        | none => .dangling
      | _ => .ok (v, h, len)
    r1.bind fun (v', h', len') =>
    (cloneElems rec h0 vs h' len').bind fun (vs', h'', len'') => .ok (v' :: vs', h'', len'')

/-- `cloneStruct(s, &length)`; first argument: recursion budget (proved sufficient at `MAX_CLONE_LENGTH + 3` for EVERY heap) -/
def cloneStruct : Nat → Heap → Ref → Heap → Nat → R (Ref × Heap × Nat)
  | 0, _, _, _, _ => .fuel
  | f+1, h0, r, h, len =>
    if len > MAX_CLONE_LENGTH then .fault else
    match h0[r]? with
    | some (.struct vs) =>
      (cloneElems (cloneStruct f h0) h0 vs h len).bind fun (vs', h', len') =>
        .ok (h'.length, h' ++ [.struct vs'], len')
    | some _ => .fault
    | none => .dangling

def CLONE_FUEL : Nat := MAX_CLONE_LENGTH + 3

/-- `if s, err := val.AsStructValue(); err == nil { t, err := s.Clone() … }` of SETITEM / APPEND -/
def cloneIfStruct (h : Heap) (v : Val) : R (Val × Heap) :=
  match v with
  | .ref r =>
    match h[r]? with
    | some (.struct _) => (cloneStruct CLONE_FUEL h r h 0).bind fun (r', h', _) => .ok (.ref r', h')
    | some _ => .ok (v, h)
    | none => .dangling
  | _ => .ok (v, h)


/-! ## value conversions that recurse over containers (beyond `Serialize` / `BuildParamToNative`, which are C14's) -/

def MAX_NOTIFY_LENGTH : Nat := 65536

/-- elements of an array / struct in `convertNeoVmValueHexString`: `*count++` before every element -/
def convElems (rec : Val → Nat × Nat → R (Nat × Nat)) : List Val → Nat × Nat → R (Nat × Nat)
  | [], cl => .ok cl
  | v :: vs, (c, l) => (rec v (c + 1, l)).bind fun cl' => convElems rec vs cl'

/-- `VmValue.convertNeoVmValueHexString(count, length)` (Runtime.Notify, and the result of a pre-execution): only the two
counters matter for termination. First argument: recursion budget, proved sufficient at `MAX_COUNT + 3` for EVERY heap. -/
def convHex (h : Heap) : Nat → Val → Nat × Nat → R (Nat × Nat)
  | 0, _, _ => .fuel
  | f+1, v, (c, l) =>
    if c > MAX_COUNT then .fault else
    if l > MAX_NOTIFY_LENGTH then .fault else
    match v with
    | .bool _ => .ok (c, l + 1)
    | .bytes d => .ok (c, l + d.length)
    | .int z => .ok (c, l + (if z = 0 then 1 else (toNeo z).length))
    | .ref r =>
      match h[r]? with
      | some (.arr vs) | some (.struct vs) => convElems (convHex h f) vs (c, l)
      | some (.map _) => .fault
      | none => .dangling

def CONV_FUEL : Nat := MAX_COUNT + 3

/-- `ConvertNeoVmValueHexString()` succeeds -/
def convertHexOk (h : Heap) (v : Val) : R Bool :=
  (convHex h CONV_FUEL v (0, 0)).bind fun (_, l) => .ok (decide (l ≤ MAX_NOTIFY_LENGTH))

def MAX_PARAM_LENGTH : Nat := 1024

def buildElems (rec : Val → Nat → R Nat) : List Val → Nat → R Nat
  | [], size => .ok size
  | v :: vs, size => (rec v size).bind fun size' => buildElems rec vs size'

/-- `BuildResultFromNeo(item, bf)` (result of a NeoVM contract called from wasm): `size` = `len(bf.Bytes())`. Every array level
writes 5 bytes before it recurses and every call starts with `len(bf.Bytes()) > MAX_PARAM_LENGTH`, so even `a = [a]` stops after
206 levels. First argument: recursion budget, proved sufficient at `BUILD_FUEL`. -/
def buildRes (h : Heap) : Nat → Val → Nat → R Nat
  | 0, _, _ => .fuel
  | f+1, v, size =>
    if size > MAX_PARAM_LENGTH then .fault else
    match v with
    | .bytes d => .ok (size + 5 + d.length)
    | .int z => if -170141183460469231731687303715884105728 ≤ z ∧ z ≤ 170141183460469231731687303715884105727 then .ok (size + 17) else .fault
    | .bool _ => .ok (size + 2)
    | .ref r =>
      match h[r]? with
      | some (.arr vs) => buildElems (buildRes h f) vs (size + 5)
      | some _ => .fault
      | none => .dangling

def BUILD_FUEL : Nat := 208

/-! ## the machine -/

structure M where
  code : Bytes
  pos : Nat := 0                 -- `bytes.Reader.i` of the current context
  ctxNil : Bool := false         -- `self.Context == nil` (RET with an empty invocation stack)
  callers : List Nat := []       -- `Executor.Callers` (reader positions; every context shares `code`), Go order
  eval : Stack := []
  alt : Stack := []
  heap : Heap := []
  notes : Nat := 0               -- `len(service.Notifications)`
  allowEOF : Bool := false       -- `VmFeatureFlag.AllowReaderEOF`
  disableHasKey : Bool := false  -- `VmFeatureFlag.DisableHasKey`
  deriving Repr

def MAX_ARRAY_SIZE_I : Int := 1024

/-- the opcodes `step` models; every other byte is `R.unmod` -/
def modelledOp (op : Nat) : Bool :=
  (op ≤ 0x60 && op != 0x50) ||
  [0x61, 0x62, 0x63, 0x64, 0x65, 0x66, 0x68, 0x6A, 0x6B, 0x6C, 0x6D, 0x6E, 0x72, 0x73, 0x74, 0x75, 0x76, 0x77, 0x78, 0x79, 0x7A, 0x7B, 0x7C, 0x7D,
   0x7E, 0x7F, 0x80, 0x81, 0x82, 0x83, 0x84, 0x85, 0x86, 0x87, 0x8B, 0x8C, 0x8D, 0x8F, 0x90, 0x91, 0x92, 0x93, 0x94, 0x95, 0x96, 0x97, 0x98, 0x99,
   0x9A, 0x9B, 0x9C, 0x9E, 0x9F, 0xA0, 0xA1, 0xA2, 0xA3, 0xA4, 0xA5,
   0xC0, 0xC1, 0xC2, 0xC3, 0xC4, 0xC5, 0xC6, 0xC7, 0xC8, 0xC9, 0xCA, 0xCB, 0xCC, 0xCD, 0xF0, 0xF1].contains op

/-- push on the evaluation stack and continue -/
def pushE (m : M) (d : Stack) (v : Val) : R M := do
  let d ← vsPush d v
  pure { m with eval := d }

/-- PACK: `for i := 0; i < size; i++ { val := Pop(); array.Append(val) }` (structural in the announced size; ends by a fault as
soon as the stack is empty or the array is full) -/
def packLoop : Nat → Stack → List Val → R (Stack × List Val)
  | 0, d, acc => .ok (d, acc)
  | n+1, d, acc => do
    let (v, d) ← vsPop d
    if acc.length ≥ MAX_ARRAY_SIZE then .fault else packLoop n d (acc ++ [v])

/-- UNPACK: `for i := l - 1; i >= 0; i-- { Push(arr.Data[i]) }` -/
def unpackLoop (data : List Val) : Nat → Stack → R Stack
  | 0, d => .ok d
  | i+1, d => do
    let v ← goIdx data (i : Nat)
    let d ← vsPush d v
    unpackLoop data i d

/-- REVERSE: `for i, j := 0, len(data)-1; i < j; i, j = i+1, j-1 { data[i], data[j] = data[j], data[i] }` -/
def revLoop : Nat → Int → Int → List Val → R (List Val)
  | 0, i, j, d => if i < j then .fuel else .ok d
  | f+1, i, j, d =>
    if i < j then do
      let a ← goIdx d i
      let b ← goIdx d j
      let d1 ← goSet d i b
      let d2 ← goSet d1 j a
      revLoop f (i + 1) (j - 1) d2
    else .ok d

/-- `ArrayValue.RemoveAt` -/
def removeAt (data : List Val) (index : Int) : R (List Val) :=
  if index < 0 ∨ index ≥ data.length then .fault else do
    let a ← goSlice data 0 index
    let b ← goSlice data (index + 1) data.length
    pure (a ++ b)

/-- `PopContext` -/
def popContext (callers : List Nat) : R (Option Nat × List Nat) :=
  let total : Int := callers.length
  if total = 0 then .ok (none, callers) else do
    let c ← goIdx callers (total - 1)
    let rest ← goSlice callers 0 (total - 1)
    pure (some c, rest)

/-- `PushContext` -/
def pushContext (callers : List Nat) (c : Nat) : R (List Nat) :=
  if callers.length ≥ MAX_INVOCATION_STACK_SIZE then .fault else .ok (callers ++ [c])

/-- index operand of PICKITEM / SETITEM on an array or struct: `index.AsInt64()`, then `ind < 0 || ind >= Len()` -/
def checkedIndex (index : Val) (len : Nat) : R Int := do
  let ind ← ofOpt (asInt64 index)
  if ind < 0 ∨ ind ≥ len then .fault else pure ind

/-- PUSHBYTES1..75 -/
def opPushBytes (m : M) (opn : Nat) : R M := do
    let (buf, pos) ← readBytes m.allowEOF m.code m.pos opn
    let val ← valFromBytes buf
    pushE { m with pos := pos } m.eval val

/-- PUSH0 -/
def opPush0 (m : M) : R M := pushE m m.eval (.int 0)

/-- the length operand of PUSHDATA1 / PUSHDATA2 / PUSHDATA4: `ReadByte` / `ReadUint16` / `ReadUint32` -/
def readPushLen (m : M) (opn : Nat) : R (Nat × Nat) :=
  if opn = 0x4C then do
    let (d, p) ← readByte m.code m.pos
    pure (d.toNat, p)
  else if opn = 0x4D then readUintN m.code m.pos 2
  else readUintN m.code m.pos 4

/-- PUSHDATA1/2/4 -/
def opPushData (m : M) (opn : Nat) : R M := do
    let (numBytes, pos) ← readPushLen m opn
    let (data, pos) ← readBytes m.allowEOF m.code pos numBytes
    let val ← valFromBytes data
    pushE { m with pos := pos } m.eval val

/-- PUSHM1, PUSH1..16 -/
def opPushN (m : M) (opn : Nat) : R M :=
    pushE m m.eval (.int ((opn : Int) - 0x51 + 1))

/-- NOP -/
def opNop (m : M) : R M := .ok m

/-- CALL only: `caller := context.Clone(); caller.SetInstructionPointer(ip + 2); PushContext(caller)` -/
def callPush (m : M) (opn : Nat) : R (List Nat) :=
  if opn = 0x65 then do
    let p ← seek (position m.code m.pos)
    let p ← seek (position m.code p + 2)
    pushContext m.callers p
  else pure m.callers

/-- JMPIF / JMPIFNOT: `PopAsBool`; JMP and CALL always jump -/
def jmpCond (m : M) (opn : Nat) : R (Bool × Stack) :=
  if opn = 0x63 ∨ opn = 0x64 then do
    let (v, d) ← popAsBool m.heap m.eval
    pure (if opn = 0x63 then v else !v, d)
  else pure (true, m.eval)

/-- `if needJmp { SetInstructionPointer(offset) }` -/
def seekIf (needJmp : Bool) (offset : Int) (pos : Nat) : R Nat :=
  if needJmp then seek offset else pure pos

/-- JMP JMPIF JMPIFNOT CALL -/
def opJmp (m : M) (opn : Nat) : R M := do
    let callers ← callPush m opn
    let (num, pos) ← readUintN m.code m.pos 2
    let offset : Int := position m.code pos + toInt16 num - 3
    if offset < 0 ∨ offset > m.code.length then .fault else do
    let (needJmp, eval) ← jmpCond m opn
    let pos ← seekIf needJmp offset pos
    pure { m with pos := pos, callers := callers, eval := eval }

/-- DCALL -/
def opDcall (m : M) : R M := do
    let p ← seek (position m.code m.pos)
    let callers ← pushContext m.callers p
    let (target, eval) ← popAsInt64 m.eval
    if target < 0 ∨ target ≥ m.code.length then .fault else do
    let pos ← seek target
    pure { m with pos := pos, callers := callers, eval := eval }

/-- RET -/
def opRet (m : M) : R M := do
    let (c, rest) ← popContext m.callers
    match c with
    | some p => pure { m with pos := p, callers := rest }
    | none => pure { m with ctxNil := true, callers := rest }

/-- DUPFROMALTSTACK -/
def opDupFromAlt (m : M) : R M := do
    let v ← vsPeek m.alt 0
    pushE m m.eval v

/-- TOALTSTACK -/
def opToAlt (m : M) : R M := do
    let (v, eval) ← vsPop m.eval
    let alt ← vsPush m.alt v
    pure { m with eval := eval, alt := alt }

/-- FROMALTSTACK -/
def opFromAlt (m : M) : R M := do
    let (v, alt) ← vsPop m.alt
    pushE { m with alt := alt } m.eval v

/-- XDROP -/
def opXdrop (m : M) : R M := do
    let (n, d) ← popAsInt64 m.eval
    let (_, d) ← vsRemove d n
    pure { m with eval := d }

/-- XSWAP -/
def opXswap (m : M) : R M := do
    let (n, d) ← popAsInt64 m.eval
    let d ← vsSwap d 0 n
    pure { m with eval := d }

/-- XTUCK -/
def opXtuck (m : M) : R M := do
    let (n, d) ← popAsInt64 m.eval
    let v ← vsPeek d 0
    let d ← vsInsert d n v
    pure { m with eval := d }

/-- DEPTH -/
def opDepth (m : M) : R M := pushE m m.eval (.int m.eval.length)

/-- DROP -/
def opDrop (m : M) : R M := do
    let (_, d) ← vsPop m.eval
    pure { m with eval := d }

/-- DUP -/
def opDup (m : M) : R M := do
    let v ← vsPeek m.eval 0
    pushE m m.eval v

/-- NIP -/
def opNip (m : M) : R M := do
    let (right, d) ← vsPop m.eval
    let (_, d) ← vsPop d
    pushE m d right

/-- OVER -/
def opOver (m : M) : R M := do
    let v ← vsPeek m.eval 1
    pushE m m.eval v

/-- PICK -/
def opPick (m : M) : R M := do
    let (n, d) ← popAsInt64 m.eval
    let v ← vsPeek d n
    pushE m d v

/-- ROT: n = 2; ROLL: `PopAsInt64` -/
def rollN (m : M) (opn : Nat) : R (Int × Stack) :=
  if opn = 0x7B then pure ((2 : Int), m.eval) else popAsInt64 m.eval

/-- ROLL, ROT -/
def opRoll (m : M) (opn : Nat) : R M := do
    let (n, d) ← rollN m opn
    let (v, d) ← vsRemove d n
    pushE m d v

/-- SWAP -/
def opSwap (m : M) : R M := do
    let d ← vsSwap m.eval 0 1
    pure { m with eval := d }

/-- TUCK -/
def opTuck (m : M) : R M := do
    let (x2, d) ← vsPop m.eval
    let (x1, d) ← vsPop d
    let d ← vsPushMany d [x2, x1, x2]
    pure { m with eval := d }

/-- CAT -/
def opCat (m : M) : R M := do
    let (right, d) ← popAsBytes m.eval
    let (left, d) ← popAsBytes d
    let d ← pushBytes d (left ++ right)
    pure { m with eval := d }

/-- SUBSTR -/
def opSubstr (m : M) : R M := do
    let (count, d) ← popAsInt64 m.eval
    let (start, d) ← popAsInt64 d
    let (arr, d) ← popAsBytes d
    let length : Int := arr.length
    if start < 0 ∨ start > length then .fault else
    if count < 0 ∨ count > length then .fault else
    let «end» := start + count
    if «end» > length then .fault else do
    let b ← goSlice arr start «end»
    let d ← pushBytes d b
    pure { m with eval := d }

/-- LEFT -/
def opLeft (m : M) : R M := do
    let (count, d) ← popAsInt64 m.eval
    let (arr, d) ← popAsBytes d
    let length : Int := arr.length
    if count < 0 ∨ count > length then .fault else do
    let b ← goSlice arr 0 count
    let d ← pushBytes d b
    pure { m with eval := d }

/-- RIGHT -/
def opRight (m : M) : R M := do
    let (count, d) ← popAsInt64 m.eval
    let (arr, d) ← popAsBytes d
    let length : Int := arr.length
    if count < 0 ∨ count > length then .fault else do
    let b ← goSlice arr (length - count) length
    let d ← pushBytes d b
    pure { m with eval := d }

/-- SIZE -/
def opSize (m : M) : R M := do
    let (arr, d) ← popAsBytes m.eval
    pushE m d (.int arr.length)

/-! ### `reflect.DeepEqual` on VM values (EQUAL on two structs) -/

/-- nesting levels of containers `reflect.DeepEqual` can descend before the 1 GB goroutine stack is exhausted (~3.4 KB per level:
`deepValueEqual` for the VmValue struct, the pointer, the ArrayValue struct, the slice). Measured on go1.23.5 linux/amd64: two equal,
separately built arrays nested 293750 deep compare equal, nested 300000 deep the process dies. -/
def DEEPEQ_LEVELS : Nat := 295000

inductive DQ where
  | res (b : Bool) (vis : List (Ref × Ref))
  | overflow
  | dangling

/-- reflect's `visited` map: keyed by the unordered pair of addresses -/
def seenPair (vis : List (Ref × Ref)) (a b : Ref) : Bool :=
  vis.any fun p => (p.1 == a && p.2 == b) || (p.1 == b && p.2 == a)

/-- elements of two slices of equal length, left to right, stopping at the first difference -/
def deepList (rec : List (Ref × Ref) → Val → Val → DQ) : List (Ref × Ref) → List Val → List Val → DQ
  | vis, [], [] => .res true vis
  | vis, a :: as, b :: bs =>
    match rec vis a b with
    | .res true vis' => deepList rec vis' as bs
    | r => r
  | vis, _, _ => .res false vis

/-- the values of the entries of map `a` paired with the entries of `b` under the same key (`MapIndex`); `none`: a key is missing -/
def mapPairs : List Entry → List Entry → Option (List Val × List Val)
  | [], _ => some ([], [])
  | e :: es, bs =>
    match mapGet e.key bs, mapPairs es bs with
    | some e', some (xs, ys) => some (e.kv :: e.val :: xs, e'.kv :: e'.val :: ys)
    | _, _ => none

/-- `deepValueEqual` of two `VmValue`s: `valType` first, then the one field in use. First argument: nesting budget. -/
def deepVal (h : Heap) : Nat → List (Ref × Ref) → Val → Val → DQ
  | _, vis, .int x, .int y => .res (decide (x = y)) vis
  | _, vis, .bool x, .bool y => .res (x == y) vis
  | _, vis, .bytes x, .bytes y => .res (x == y) vis
  | 0, _, .ref _, .ref _ => .overflow
  | f+1, vis, .ref a, .ref b =>
    match h[a]?, h[b]? with
    | some (.arr xs), some (.arr ys) | some (.struct xs), some (.struct ys) =>
      if seenPair vis a b then .res true vis else
      let vis := (a, b) :: vis
      if a = b then .res true vis else
      if xs.length ≠ ys.length then .res false vis else
      deepList (deepVal h f) vis xs ys
    | some (.map xs), some (.map ys) =>
      if seenPair vis a b then .res true vis else
      let vis := (a, b) :: vis
      if a = b then .res true vis else
      if xs.length ≠ ys.length then .res false vis else
      match mapPairs xs ys with
      | none => .res false vis
      | some (l, r) => deepList (deepVal h f) vis l r
    | some _, some _ => .res false vis
    | _, _ => .dangling
  | _, vis, _, _ => .res false vis

/-- EQUAL -/
def opEqual (m : M) : R M := do
    let (right, d) ← vsPop m.eval
    let (left, d) ← vsPop d
    match asBytes left, asBytes right with
    | some v1, some v2 => pushE m d (.bool (v1 == v2))
    | _, _ =>
      match left, right with
      | .ref a, .ref b =>
        match m.heap[a]?, m.heap[b]? with
        | some (.map _), some (.map _) => pushE m d (.bool (a == b))
        | some (.arr _), some (.arr _) => pushE m d (.bool (a == b))
        | some (.struct _), some (.struct _) =>
          match deepVal m.heap DEEPEQ_LEVELS [] left right with    -- reflect.DeepEqual(self.structval, other.structval)
          | .res r _ => pushE m d (.bool r)
          | .overflow => .overflow
          | .dangling => .dangling
        | some _, some _ => pushE m d (.bool false)          -- valType differs
        | _, _ => .dangling
      | .ref a, _ => (match m.heap[a]? with | some _ => pushE m d (.bool false) | none => .dangling)
      | _, .ref b => (match m.heap[b]? with | some _ => pushE m d (.bool false) | none => .dangling)
      | _, _ => pushE m d (.bool false)

/-! ### integer opcodes: `Model/NeoInt.lean` (C13), the code as shipped -/

/-- a primitive VM value as C13 sees it (the canonical Go representation: int64 when it fits, `*big.Int` otherwise) -/
def toNI : Val → Option NeoInt.Val
  | .int z => some (if NeoInt.isInt64 z then .int (BitVec.ofInt 64 z) else .bigint z)
  | .bool b => some (.bool b)
  | .bytes d => some (.bytes d)
  | .ref _ => none

def ofNI : NeoInt.Val → Val
  | .int i => .int i.toInt
  | .bigint z => .int z
  | .bool b => .bool b
  | .bytes d => .bytes d

def niResult : Except NeoInt.Fault NeoInt.Val → R Val
  | .ok v => .ok (ofNI v)
  | .error _ => .fault

def unaryOf (opn : Nat) : NeoInt.UOp :=
  if opn = 0x83 then .invert else if opn = 0x8B then .inc else if opn = 0x8C then .dec else if opn = 0x8D then .sign
  else if opn = 0x8F then .negate else if opn = 0x90 then .abs else .nz

def binaryOf (opn : Nat) : NeoInt.BOp :=
  if opn = 0x84 then .and else if opn = 0x85 then .or else if opn = 0x86 then .xor else if opn = 0x93 then .add
  else if opn = 0x94 then .sub else if opn = 0x95 then .mul else if opn = 0x96 then .div else if opn = 0x97 then .mod
  else if opn = 0x98 then .shl else if opn = 0x99 then .shr else if opn = 0x9C then .numequal else if opn = 0x9E then .numnotequal
  else if opn = 0x9F then .lt else if opn = 0xA0 then .gt else if opn = 0xA1 then .lte else if opn = 0xA2 then .gte
  else if opn = 0xA3 then .min else .max

/-- INVERT INC DEC SIGN NEGATE ABS NZ -/
def opUnaryInt (m : M) (opn : Nat) : R M := do
    let (x, d) ← vsPop m.eval
    let a ← ofOpt (toNI x)
    let v ← niResult (NeoInt.execUnary .asShipped (unaryOf opn) a)
    pushE m d v

/-- AND OR XOR ADD SUB MUL DIV MOD SHL SHR MIN MAX, NUMEQUAL NUMNOTEQUAL LT GT LTE GTE (right operand on top) -/
def opBinaryInt (m : M) (opn : Nat) : R M := do
    let (right, d) ← vsPop m.eval
    let b ← ofOpt (toNI right)
    let (left, d) ← vsPop d
    let a ← ofOpt (toNI left)
    let v ← niResult (NeoInt.execBinary .asShipped (binaryOf opn) a b)
    pushE m d v

/-- WITHIN: `x left right` pushed in this order -/
def opWithin (m : M) : R M := do
    let (right, d) ← vsPop m.eval
    let b ← ofOpt (toNI right)
    let (left, d) ← vsPop d
    let a ← ofOpt (toNI left)
    let (val, d) ← vsPop d
    let x ← ofOpt (toNI val)
    let v ← niResult (NeoInt.execWithin x a b)
    pushE m d v

/-- NOT -/
def opNot (m : M) : R M := do
    let (x, d) ← popAsBool m.heap m.eval
    pushE m d (.bool (!x))

/-- BOOLAND BOOLOR: `PopPairAsBool` -/
def opBoolBin (m : M) (opn : Nat) : R M := do
    let (right, d) ← popAsBool m.heap m.eval
    let (left, d) ← popAsBool m.heap d
    pushE m d (.bool (if opn = 0x9A then left && right else left || right))

/-- ARRAYSIZE -/
def opArraySize (m : M) : R M := do
    let (val, d) ← vsPop m.eval
    match val with
    | .ref r =>
      match m.heap[r]? with
      | some (.arr vs) => pushE m d (.int vs.length)
      | some _ => .fault
      | none => .dangling
    | prim =>
      match asBytes prim with
      | some buf => pushE m d (.int buf.length)
      | none => .fault

/-- PACK -/
def opPack (m : M) : R M := do
    let (size, d) ← popAsInt64 m.eval
    if size < 0 then .fault else do
    let (d, items) ← packLoop size.toNat d []
    let r := m.heap.length
    pushE { m with heap := m.heap ++ [.arr items] } d (.ref r)

/-- UNPACK -/
def opUnpack (m : M) : R M := do
    let (v, d) ← vsPop m.eval
    match v with
    | .ref r =>
      match m.heap[r]? with
      | some (.arr data) => do
        let l := data.length
        let d ← unpackLoop data l d
        pushE m d (.int l)
      | some _ => .fault
      | none => .dangling
    | _ => .fault

/-- PICKITEM -/
def opPickItem (m : M) : R M := do
    let (index, d) ← vsPop m.eval
    let (item, d) ← vsPop d
    match item with
    | .ref r =>
      match m.heap[r]? with
      | some (.arr data) | some (.struct data) => do
        let ind ← checkedIndex index data.length
        let val ← goIdx data ind
        pushE m d val
      | some (.map es) => do
        let kb ← ofOpt (asBytes index)
        match mapGet kb es with
        | some e => pushE m d e.val
        | none => .fault
      | none => .dangling
    | prim => do
      let buf ← ofOpt (asBytes prim)
      let ind ← checkedIndex index buf.length
      let b ← goIdx buf ind
      pushE m d (.int b.toNat)

/-- SETITEM -/
def opSetItem (m : M) : R M := do
    let (val, d) ← vsPop m.eval
    let (index, d) ← vsPop d
    let (item, d) ← vsPop d
    let (val, h) ← cloneIfStruct m.heap val
    match item with
    | .ref r =>
      match h[r]? with
      | some (.arr data) => do
        let ind ← checkedIndex index data.length
        let data ← goSet data ind val
        pure { m with heap := h.set r (.arr data), eval := d }
      | some (.struct data) => do
        let ind ← checkedIndex index data.length
        let data ← goSet data ind val
        pure { m with heap := h.set r (.struct data), eval := d }
      | some (.map es) => do
        let kb ← ofOpt (asBytes index)
        pure { m with heap := h.set r (.map (mapSet ⟨kb, index, val⟩ es)), eval := d }
      | none => .dangling
    | _ => .fault

/-- NEWARRAY NEWSTRUCT -/
def opNewArray (m : M) (opn : Nat) : R M := do
    let (count, d) ← popAsInt64 m.eval
    if count < 0 ∨ count > MAX_ARRAY_SIZE_I then .fault else do
    let items ← goMake count (Val.bool false)      -- `count` Appends to an empty array, none of which can fail
    let r := m.heap.length
    pushE { m with heap := m.heap ++ [if opn = 0xC5 then .arr items else .struct items] } d (.ref r)

/-- NEWMAP -/
def opNewMap (m : M) : R M :=
    pushE { m with heap := m.heap ++ [.map []] } m.eval (.ref m.heap.length)

/-- APPEND -/
def opAppend (m : M) : R M := do
    let (item, d) ← vsPop m.eval
    let (item, h) ← cloneIfStruct m.heap item
    -- `val, err := self.EvalStack.Pop()` — err is NOT checked: on an empty stack val is the zero VmValue (an empty byte array)
    let (val, d) := match vsPop d with
      | .ok (v, d') => (v, d')
      | _ => (Val.bytes [], d)
    match val with
    | .ref r =>
      match h[r]? with
      | some (.arr data) => if data.length ≥ MAX_ARRAY_SIZE then .fault else
          pure { m with heap := h.set r (.arr (data ++ [item])), eval := d }
      | some (.struct data) => if data.length ≥ MAX_ARRAY_SIZE then .fault else
          pure { m with heap := h.set r (.struct (data ++ [item])), eval := d }
      | some (.map _) => .fault
      | none => .dangling
    | _ => .fault

/-- REVERSE -/
def opReverse (m : M) : R M := do
    let (item, d) ← vsPop m.eval
    match item with
    | .ref r =>
      match m.heap[r]? with
      | some (.arr data) => do
        let data ← revLoop data.length 0 ((data.length : Int) - 1) data
        pure { m with heap := m.heap.set r (.arr data), eval := d }
      | some (.struct data) => do
        let data ← revLoop data.length 0 ((data.length : Int) - 1) data
        pure { m with heap := m.heap.set r (.struct data), eval := d }
      | some (.map _) => .fault
      | none => .dangling
    | _ => .fault

/-- REMOVE -/
def opRemove (m : M) : R M := do
    let (index, d) ← vsPop m.eval
    let (item, d) ← vsPop d
    match item with
    | .ref r =>
      match m.heap[r]? with
      | some (.map es) => do
        let kb ← ofOpt (asBytes index)
        pure { m with heap := m.heap.set r (.map (mapRemove kb es)), eval := d }
      | some (.arr data) => do
        let i ← ofOpt (asInt64 index)
        let data ← removeAt data i
        pure { m with heap := m.heap.set r (.arr data), eval := d }
      | some (.struct _) => .fault
      | none => .dangling
    | _ => .fault

/-- HASKEY -/
def opHasKey (m : M) : R M := do
    let (key, d) ← vsPop m.eval
    let (item, d) ← vsPop d
    match item with
    | .ref r =>
      match m.heap[r]? with
      | some (.map es) => do
        let kb ← ofOpt (asBytes key)
        pushE m d (.bool (mapGet kb es).isSome)
      | some _ => .fault
      | none => .dangling
    | _ => .fault

/-- KEYS VALUES -/
def opKeysValues (m : M) (opn : Nat) : R M := do
    let (item, d) ← vsPop m.eval
    match item with
    | .ref r =>
      match m.heap[r]? with
      | some (.map es) =>
        let vs := if opn = 0xCC then es.map (·.kv) else es.map (·.val)
        if vs.length > MAX_ARRAY_SIZE then .fault else
        pushE { m with heap := m.heap ++ [.arr vs] } d (.ref m.heap.length)
      | some _ => .fault
      | none => .dangling
    | _ => .fault

/-- THROW -/
def opThrow (_m : M) : R M := .fault

/-- THROWIFNOT -/
def opThrowIfNot (m : M) : R M := do
    let (v, d) ← popAsBool m.heap m.eval
    if !v then .fault else pure { m with eval := d }

/-- stack positions (0 = top) an opcode converts to an integer (`AsInt64` / `AsIntValue` / `AsBigInt`) -/
def numericOperands (opn : Nat) : List Nat :=
  if opn = 0x6D ∨ opn = 0x72 ∨ opn = 0x73 ∨ opn = 0x79 ∨ opn = 0x7A ∨ opn = 0x80 ∨ opn = 0x81 ∨ opn = 0xC1 ∨ opn = 0xC5 ∨ opn = 0xC6 ∨
     opn = 0x6E ∨ opn = 0xC3 ∨ opn = 0xCA ∨
     opn = 0x83 ∨ opn = 0x8B ∨ opn = 0x8C ∨ opn = 0x8D ∨ opn = 0x8F ∨ opn = 0x90 ∨ opn = 0x92 then [0]
  else if opn = 0x7F ∨ opn = 0x84 ∨ opn = 0x85 ∨ opn = 0x86 ∨ (0x93 ≤ opn ∧ opn ≤ 0x99) ∨ opn = 0x9C ∨ (0x9E ≤ opn ∧ opn ≤ 0xA4) then [0, 1]
  else if opn = 0xA5 then [0, 1, 2]
  else if opn = 0xC4 then [1]
  else []

/-- a byte array longer than 33 bytes in a position that is converted to an integer: the conversion (`BigIntFromNeoBytes`, linear in Go) is
outside the model — the mathematical `fromNeo` of a megabyte is not something the driver can evaluate. 33 bytes hold every boundary
value of interest (±2^256). -/
def longNumeric (d : Stack) (opn : Nat) : Bool :=
  (numericOperands opn).any fun i =>
    match d.reverse[i]? with
    | some (.bytes b) => decide (b.length > 33)
    | _ => false

/-! ### SYSCALL: `NeoVmService.SystemCall` for the three runtime services that recurse over a value -/

def nameSerialize : Bytes := "System.Runtime.Serialize".toUTF8.toList
def nameDeserialize : Bytes := "System.Runtime.Deserialize".toUTF8.toList
def nameNotify : Bytes := "System.Runtime.Notify".toUTF8.toList

def objRefs : Obj → List Ref
  | .arr vs | .struct vs => vs.filterMap fun v => match v with | .ref r => some r | _ => none
  | .map es => es.filterMap fun e => match e.val with | .ref r => some r | _ => none

/-- objects reachable from the frontier (work list; the budget `edges + objects + 2` is enough: every object is expanded once) -/
def reachAux (h : Heap) : Nat → List Ref → List Ref → List Ref
  | 0, _, seen => seen
  | _+1, [], seen => seen
  | f+1, r :: fr, seen =>
    if seen.contains r then reachAux h f fr seen else
    match h[r]? with
    | some o => reachAux h f ((objRefs o) ++ fr) (r :: seen)
    | none => reachAux h f fr (r :: seen)

def reachable (h : Heap) (v : Val) : List Ref :=
  match v with
  | .ref r => reachAux h ((h.map fun o => (objRefs o).length + 1).sum + h.length + 2) [r] []
  | _ => []

/-- a map with two or more entries is reachable: what the shipped detector sees then depends on Go's map iteration order -/
def hasMultiMap (h : Heap) (v : Val) : Bool :=
  (reachable h v).any fun r => match h[r]? with | some (.map es) => decide (es.length ≥ 2) | _ => false

/-- `RuntimeSerialize` -/
def sysSerialize (serF : Heap → Val → Except VErr Bytes) (m : M) : R M := do
    let (val, d) ← vsPop m.eval
    if hasMultiMap m.heap val then .unmod else
    match serF m.heap val with
    | .ok b => do
      let d ← pushBytes d b
      pure { m with eval := d }
    | .error .fuel => .overflow      -- the recursion did not return
    | .error .dangling => .dangling
    | .error _ => .fault

/-- inputs of `Deserialize` up to this many bytes are modelled (a VmValue byte array is at most 1 MiB; the model's heap is a list and a
megabyte of nested containers is beyond what the driver can allocate in reasonable time) -/
def DESER_MODEL_LIMIT : Nat := 4096

/-- `RuntimeDeserialize` -/
def sysDeserialize (m : M) : R M := do
    let (data, d) ← popAsBytes m.eval
    if data.length > DESER_MODEL_LIMIT then .unmod else      -- larger inputs: outside the model (the driver's heap is a list)
    match deserialize data with
    | .ok (t, _) =>
      let (v, h) := alloc (MAX_COUNT + 2) t m.heap
      pushE { m with heap := h } d v
    | .error .panic => .panic
    | .error .fuel => .fuel
    | .error _ => .fault

/-- `RuntimeNotify` -/
def sysNotify (m : M) : R M := do
    let (item, d) ← vsPop m.eval
    let ok ← convertHexOk m.heap item
    if ok then pure { m with eval := d, notes := m.notes + 1 } else .fault

/-- the rest of `SystemCall` once the length byte `fb` of the service name has been read (`pos` is behind it) -/
def sysDispatch (serF : Heap → Val → Except VErr Bytes) (m : M) (fb pos : Nat) : R M :=
    if fb ≥ 0xFD then .unmod else do       -- multi-byte name lengths: outside the model
    let (name, pos') ← readBytes m.allowEOF m.code pos fb
    -- a short read (only under AllowReaderEOF) leaves zero bytes in the name: no registered service has such a name
    if pos + fb > m.code.length then .fault else
    let m := { m with pos := pos' }
    if name = nameSerialize then sysSerialize serF m
    else if name = nameDeserialize then sysDeserialize m
    else if name = nameNotify then sysNotify m
    else .unmod

/-- SYSCALL: `ReadVarString(MAX_BYTEARRAY_SIZE)` (the error of the first `ReadByte` is dropped by `ReadVarInt`: at the end of the code the
length is 0), service lookup, handler. Gas is not modelled. -/
def opSyscall (serF : Heap → Val → Except VErr Bytes) (m : M) : R M :=
    match readByte m.code m.pos with
    | .ok (b, p) => sysDispatch serF m b.toNat p
    | _ => sysDispatch serF m 0 m.pos

/-- `ExecuteOp(opcode, context)` (and `SystemCall` for SYSCALL) for one opcode byte that has just been read (`m.pos` is behind it).
`serF` = `VmValue.Serialize` (the model's `serialize .asShipped` or an evaluator equal to it). -/
def step (serF : Heap → Val → Except VErr Bytes) (m : M) (opn : Nat) : R M :=
  if !modelledOp opn then .unmod else
  if longNumeric m.eval opn then .unmod else
  -- checkFeaturesEnabled: HASKEY, KEYS, DCALL, VALUES
  if (opn = 0xCB ∨ opn = 0xCC ∨ opn = 0x6E ∨ opn = 0xCD) ∧ m.disableHasKey then .fault else
  if 0x01 ≤ opn ∧ opn ≤ 0x4B then opPushBytes m opn
  else if opn = 0x00 then opPush0 m
  else if opn = 0x4C ∨ opn = 0x4D ∨ opn = 0x4E then opPushData m opn
  else if opn = 0x4F ∨ (0x51 ≤ opn ∧ opn ≤ 0x60) then opPushN m opn
  else if opn = 0x61 then opNop m
  else if opn = 0x62 ∨ opn = 0x63 ∨ opn = 0x64 ∨ opn = 0x65 then opJmp m opn
  else if opn = 0x6E then opDcall m
  else if opn = 0x66 then opRet m
  else if opn = 0x68 then opSyscall serF m
  else if opn = 0x6A then opDupFromAlt m
  else if opn = 0x6B then opToAlt m
  else if opn = 0x6C then opFromAlt m
  else if opn = 0x6D then opXdrop m
  else if opn = 0x72 then opXswap m
  else if opn = 0x73 then opXtuck m
  else if opn = 0x74 then opDepth m
  else if opn = 0x75 then opDrop m
  else if opn = 0x76 then opDup m
  else if opn = 0x77 then opNip m
  else if opn = 0x78 then opOver m
  else if opn = 0x79 then opPick m
  else if opn = 0x7A ∨ opn = 0x7B then opRoll m opn
  else if opn = 0x7C then opSwap m
  else if opn = 0x7D then opTuck m
  else if opn = 0x7E then opCat m
  else if opn = 0x7F then opSubstr m
  else if opn = 0x80 then opLeft m
  else if opn = 0x81 then opRight m
  else if opn = 0x82 then opSize m
  else if opn = 0x87 then opEqual m
  else if opn = 0x83 ∨ opn = 0x8B ∨ opn = 0x8C ∨ opn = 0x8D ∨ opn = 0x8F ∨ opn = 0x90 ∨ opn = 0x92 then opUnaryInt m opn
  else if opn = 0x91 then opNot m
  else if opn = 0x9A ∨ opn = 0x9B then opBoolBin m opn
  else if opn = 0xA5 then opWithin m
  else if opn = 0x84 ∨ opn = 0x85 ∨ opn = 0x86 ∨ (0x93 ≤ opn ∧ opn ≤ 0x99) ∨ opn = 0x9C ∨ (0x9E ≤ opn ∧ opn ≤ 0xA4) then opBinaryInt m opn
  else if opn = 0xC0 then opArraySize m
  else if opn = 0xC1 then opPack m
  else if opn = 0xC2 then opUnpack m
  else if opn = 0xC3 then opPickItem m
  else if opn = 0xC4 then opSetItem m
  else if opn = 0xC5 ∨ opn = 0xC6 then opNewArray m opn
  else if opn = 0xC7 then opNewMap m
  else if opn = 0xC8 then opAppend m
  else if opn = 0xC9 then opReverse m
  else if opn = 0xCA then opRemove m
  else if opn = 0xCB then opHasKey m
  else if opn = 0xCC ∨ opn = 0xCD then opKeysValues m opn
  else if opn = 0xF0 then opThrow m
  else if opn = 0xF1 then opThrowIfNot m
  else .unmod

/-! ## the loop of `NeoVmService.Invoke` -/

inductive Final where
  | halt (m : M) | fault | panic | unmod | dangling | fuel | steplimit | overflow
  deriving Repr

/-- `limit` opcodes at most (the harness' step limit; the node's is the gas limit) -/
def run (serF : Heap → Val → Except VErr Bytes) : Nat → M → Final
  | 0, m =>
    if m.ctxNil then .halt m else
    if position m.code m.pos ≥ m.code.length then .halt m else
    match readByte m.code m.pos with
    | .ok (op, _) => if !modelledOp op.toNat then .unmod else .steplimit
    | _ => .fault
  | n+1, m =>
    if m.ctxNil then .halt m else
    if position m.code m.pos ≥ m.code.length then .halt m else
    match readByte m.code m.pos with
    | .ok (op, pos) =>
      match step serF { m with pos := pos } op.toNat with
      | .ok m' => run serF n m'
      | .fault => .fault
      | .panic => .panic
      | .unmod => .unmod
      | .dangling => .dangling
      | .fuel => .fuel
      | .overflow => .overflow
    | .fault => .fault
    | .panic => .panic
    | _ => .fault

end OntVerif.Model.NeoExec
