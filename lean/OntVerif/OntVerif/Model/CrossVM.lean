import OntVerif.Model.Codec
/-!
# Model of `vm/crossvm_codec/{codec,vmcall_codec,notify_codec}.go`

Executable, core-only. Readers are the `ZeroCopySource` model of `Model/Codec.lean`.

`DecodeValue` is recursive (a list element is decoded by a nested call, the `for i < size` loop calls it again).
The model makes the recursion structural on an explicit fuel counter; `Props/C25.lean` proves that
`2 * remaining_bytes + 1` units are always enough, i.e. `.fuel` is unreachable from `decodeValue` — that is the
termination argument with its measure.  `.panic` stands for a Go slice-bounds panic (`none` of the codec model),
proved unreachable as well.
-/
namespace OntVerif.Model.CrossVM
open OntVerif.Util OntVerif.Model.Codec

/-- the values `EncodeValue`/`DecodeValue` exchange (`[]byte`, `string`, `common.Address`, `bool`, `*big.Int`,
`common.Uint256`, `[]interface{}`); a Go string is a byte list -/
inductive Val
  | bytes (b : Bytes)
  | str (b : Bytes)
  | addr (b : Bytes)
  | bool (b : Bool)
  | int (i : Int)
  | h256 (b : Bytes)
  | list (l : List Val)
  deriving Repr

def two32 : Nat := 4294967296
def two127 : Nat := 170141183460469231731687303715884105728
def two128 : Nat := 340282366920938463463374607431768211456

/-! ## encoder -/

/-- `common.I128FromBigInt`: `none` = "big int out of i128 range" -/
def i128OfInt (v : Int) : Option Bytes :=
  if v > (two127 : Int) - 1 ∨ v < -(two127 : Int) then none
  else
    let u : Int := if v < 0 then v + (two128 : Int) else v
    -- `buf := ToArrayReverse(val.Bytes()); copy(u128[:], buf)`: little-endian, zero padded to 16 bytes
    some (leN 16 u.toNat)

/-- `I128.ToBigInt` -/
def intOfI128 (d : Bytes) : Int :=
  let u := fromLE d
  if u > two127 - 1 then (u : Int) - (two128 : Int) else (u : Int)

mutual
/-- `EncodeValue` (top level and as list element; for the types of the grammar both switches do the same).
`uint32(len(..))` truncates. `none` = the error of `EncodeBigInt`. -/
def encV : Val → Option Bytes
  | .bytes b => some (0x00 :: writeUintN 4 (b.length % two32) ++ b)
  | .str b => some (0x01 :: writeUintN 4 (b.length % two32) ++ b)
  | .addr a => some (0x02 :: a)
  | .bool b => some [0x03, if b then 1 else 0]
  | .int i => match i128OfInt i with
    | some d => some (0x04 :: d)
    | none => none
  | .h256 h => some (0x05 :: h)
  | .list l => match encL l with
    | some bs => some (0x10 :: writeUintN 4 (l.length % two32) ++ bs)
    | none => none
/-- the element loop of `EncodeList` -/
def encL : List Val → Option Bytes
  | [] => some []
  | v :: r => match encV v, encL r with
    | some a, some b => some (a ++ b)
    | _, _ => none
end

/-! ## decoder -/

inductive DErr
  | format   -- ERROR_PARAM_FORMAT
  | type     -- ERROR_PARAM_NOT_SUPPORTED_TYPE
  deriving Repr, DecidableEq

inductive Res (α : Type)
  | ok (a : α)
  | err (e : DErr)
  | fuel           -- recursion budget exhausted (proved unreachable)
  | panic          -- Go slice bounds panic (proved unreachable)
  deriving Repr

/-- `size, eof := NextUint32(); buf, eof := NextBytes(uint64(size))` -/
def readSized (s : Src) : Res (Bytes × Src) :=
  match nextUintN 4 s with
  | none => .panic
  | some ((size, eof), s1) =>
    if eof then .err .format else
    match nextBytes s1 size with
    | none => .panic
    | some ((buf, eof), s2) => if eof then .err .format else .ok (buf, s2)

/-- `NextAddress` / `NextI128` / `NextHash` followed by the eof check -/
def readFixed (k : Nat) (s : Src) : Res (Bytes × Src) :=
  match nextFixed k s with
  | none => .panic
  | some ((d, eof), s1) => if eof then .err .format else .ok (d, s1)

mutual
/-- `DecodeValue(source)` with recursion budget -/
def decV : Nat → Src → Res (Val × Src)
  | 0, _ => .fuel
  | f+1, s =>
    let ((ty, eof), s1) := nextByte s
    if eof then .err .format else
    if ty == 0x00 then
      match readSized s1 with
      | .ok (b, s2) => .ok (.bytes b, s2)
      | .err e => .err e | .fuel => .fuel | .panic => .panic
    else if ty == 0x01 then
      match readSized s1 with
      | .ok (b, s2) => .ok (.str b, s2)
      | .err e => .err e | .fuel => .fuel | .panic => .panic
    else if ty == 0x02 then
      match readFixed 20 s1 with
      | .ok (b, s2) => .ok (.addr b, s2)
      | .err e => .err e | .fuel => .fuel | .panic => .panic
    else if ty == 0x03 then
      let ((by_, irr, eof), s2) := nextBool s1
      if eof then .err .format else if irr then .err .format else .ok (.bool by_, s2)
    else if ty == 0x04 then
      match readFixed 16 s1 with
      | .ok (b, s2) => .ok (.int (intOfI128 b), s2)
      | .err e => .err e | .fuel => .fuel | .panic => .panic
    else if ty == 0x05 then
      match readFixed 32 s1 with
      | .ok (b, s2) => .ok (.h256 b, s2)
      | .err e => .err e | .fuel => .fuel | .panic => .panic
    else if ty == 0x10 then
      match nextUintN 4 s1 with
      | none => .panic
      | some ((size, eof), s2) =>
        if eof then .err .format else
        match decL f s2 size with
        | .ok (l, s3) => .ok (.list l, s3)
        | .err e => .err e | .fuel => .fuel | .panic => .panic
    else .err .type
/-- `for i := uint32(0); i < size; i++ { val, err := DecodeValue(source); …; list = append(list, val) }` -/
def decL : Nat → Src → Nat → Res (List Val × Src)
  | 0, _, _ => .fuel
  | _+1, s, 0 => .ok ([], s)
  | f+1, s, n+1 =>
    match decV f s with
    | .ok (v, s1) =>
      match decL f s1 n with
      | .ok (vs, s2) => .ok (v :: vs, s2)
      | .err e => .err e | .fuel => .fuel | .panic => .panic
    | .err e => .err e | .fuel => .fuel | .panic => .panic
end

/-- the recursion budget that is always sufficient: two units per unread byte, plus two -/
def budget (s : Src) : Nat := 2 * (s.bs.length - s.off) + 2

/-- `DecodeValue(source)` -/
def decodeValue (s : Src) : Res (Val × Src) := decV (budget s) s

/-- `DeserializeCallParam(input)`: `bytes.HasPrefix(input, []byte{0})` then `DecodeValue(input[1:])` -/
def deserializeCallParam (input : Bytes) : Res Val :=
  match input with
  | 0 :: r => match decodeValue ⟨r, 0⟩ with
    | .ok (v, _) => .ok v
    | .err e => .err e | .fuel => .fuel | .panic => .panic
  | _ => .err .format

/-- `parseNotify(input)`: prefix "evt\x00" -/
def parseNotify (input : Bytes) : Res Val :=
  match input with
  | 0x65 :: 0x76 :: 0x74 :: 0x00 :: r => match decodeValue ⟨r, 0⟩ with
    | .ok (v, _) => .ok v
    | .err e => .err e | .fuel => .fuel | .panic => .panic
  | _ => .err .format

/-! ## well-formed values (what a Go value of these types can be, and what `uint32(len)` does not truncate) -/
mutual
def Val.wf : Val → Prop
  | .bytes b => b.length < two32
  | .str b => b.length < two32
  | .addr a => a.length = 20
  | .bool _ => True
  | .int i => -(two127 : Int) ≤ i ∧ i ≤ (two127 : Int) - 1
  | .h256 h => h.length = 32
  | .list l => l.length < two32 ∧ wfL l
def wfL : List Val → Prop
  | [] => True
  | v :: r => v.wf ∧ wfL r
end

end OntVerif.Model.CrossVM
