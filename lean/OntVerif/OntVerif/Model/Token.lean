import OntVerif.Gen.Token
/-!
# Model of the native ONT / ONG token contracts (property C06)

Mirrors `smartcontract/service/native/ont/{ont.go,utils.go}`, `ong/ong.go` and the arithmetic of
`core/states/native_token_balance.go`, in the order in which the Go code reads and writes the contract cache.

* Storage is a total map (an absent key reads as 0, exactly as `GetNativeTokenBalance` does); balances and allowances
  are naturals in base units (ONT: 10^-9, ONG: 10^-18; a "v1" amount `n` is `n * SF`).  The three key spaces of one
  contract (balance `contract‖addr`, allowance `contract‖from‖to`, unbound offset `contract‖"unboundTimeOffset"‖addr`)
  have different key lengths and are modelled as separate maps.
* `Err.panic` is a Go run-time panic (`MustToInteger64` / `MustToStorageItem` on a non-fractional balance whose integer
  part does not fit `uint64`, or a panic of `CalcUnbindOng`).
* Every primitive (`reduceFrom`, `increaseTo`, `fromApprove`) either writes or fails **before** writing; a failing call
  therefore leaves in the cache exactly the writes of the primitives that completed before it.  That dirty state is the
  second component of `exec`; the transaction level (`txStep`) discards it (`HandleInvokeTransaction` never commits
  the cache of a failed invocation).
* `Env` carries what the contracts read from their environment: the transaction's signature addresses, the calling
  context (`CheckWitness` also accepts the calling contract), block time, `PreExec`, the network constants and
  `CalcUnbindOng` (a parameter here; the driver plugs in the C09 model).
-/
namespace OntVerif.Model.Token

abbrev Addr := Nat

/-- `states.ScaleFactor` (regenerated from the source) -/
def SF : Nat := OntVerif.Gen.Token.ScaleFactor
def two32 : Nat := 4294967296
def two64 : Nat := 18446744073709551616

/-- why an invocation returns an error (or dies) -/
inductive Err where
  | auth          -- "authentication failed!"
  | insufficient  -- "[Transfer] balance insufficient"
  | allowance     -- "[TransferFrom] approve balance insufficient"
  | overSupply    -- "… over totalSupply"
  | timestamp     -- "grant Ong error: wrong timestamp"
  | panic         -- Go run-time panic
  deriving DecidableEq, Repr

inductive Res where
  | ok            -- BYTE_TRUE, nil
  | retFalse      -- BYTE_FALSE, nil (transferFrom of a zero amount)
  | err (e : Err) -- err != nil (or panic)
  deriving DecidableEq, Repr

/-- does the invocation return `err == nil` (the transaction commits its cache)? -/
def Res.commits : Res → Bool
  | .ok => true
  | .retFalse => true
  | .err _ => false

/-- storage of one token contract -/
structure Tok where
  bal : Addr → Nat
  /-- `allow owner spender` -/
  allow : Addr → Addr → Nat

structure St where
  ont : Tok
  ong : Tok
  /-- `unboundTimeOffset` of an ONT holder (uint32) -/
  off : Addr → Nat

inductive Token where
  | ont
  | ong
  deriving DecidableEq, Repr

def St.tok (s : St) : Token → Tok
  | .ont => s.ont
  | .ong => s.ong

def St.setTok (s : St) (k : Token) (t : Tok) : St :=
  match k with
  | .ont => { s with ont := t }
  | .ong => { s with ong := t }

def Tok.setBal (t : Tok) (a : Addr) (v : Nat) : Tok :=
  { t with bal := fun x => if x = a then v else t.bal x }

def Tok.setAllow (t : Tok) (o sp : Addr) (v : Nat) : Tok :=
  { t with allow := fun x y => if x = o ∧ y = sp then v else t.allow x y }

def St.setOff (s : St) (a : Addr) (v : Nat) : St :=
  { s with off := fun x => if x = a then v else s.off x }

structure Env where
  /-- `Tx.GetSignatureAddresses()` -/
  signers : List Addr
  /-- contract address of the context that invoked the native contract (`CallingContext`), if any -/
  caller : Option Addr
  /-- `native.Time` (uint32) -/
  time : Nat
  preExec : Bool
  /-- `constants.GENESIS_BLOCK_TIMESTAMP` -/
  genesis : Nat
  /-- `config.GetOntHolderUnboundDeadline()` -/
  D : Nat
  ontAddr : Addr
  govAddr : Addr
  /-- `constants.ONT_TOTAL_SUPPLY_V2` -/
  ontSupply : Nat
  /-- `constants.ONG_TOTAL_SUPPLY_V2` -/
  ongSupply : Nat
  /-- `utils.CalcUnbindOng(balance, startOffset, endOffset)`; `none` = panic -/
  calcOng : Nat → Nat → Nat → Option Nat

def Env.supply (env : Env) : Token → Nat
  | .ont => env.ontSupply
  | .ong => env.ongSupply

/-- `SmartContract.CheckWitness`: a signature address of the transaction, or the calling contract -/
def witness (env : Env) (calling : Option Addr) (a : Addr) : Bool :=
  env.signers.contains a || calling == some a

/-- `MustToStorageItem` / `MustToInteger64` succeed: fractional balances are stored as big integers, whole ones as uint64 -/
def storable (b : Nat) : Bool := b % SF != 0 || decide (b / SF < two64)

/-- result of a step: value and new cache, or failure kind and the cache as the failing call leaves it -/
inductive R (σ : Type) (α : Type) where
  | ok : α → σ → R σ α
  | fail : Err → σ → R σ α

/-- the cache a step ends with: the new one, or what a failing call leaves behind -/
def R.st {σ α : Type} : R σ α → σ
  | .ok _ s => s
  | .fail _ s => s

def R.panicked {σ α : Type} : R σ α → Prop
  | .ok _ _ => False
  | .fail r _ => r = .panic

/-- `reduceFromBalance`: read, underflow check, write (delete when the balance becomes zero); returns the old balance -/
def reduceFrom (t : Tok) (a : Addr) (v : Nat) : R Tok Nat :=
  let old := t.bal a
  if old < v then .fail .insufficient t
  else if old - v = 0 then .ok old (t.setBal a 0)
  else if storable (old - v) then .ok old (t.setBal a (old - v))
  else .fail .panic t

/-- `increaseToBalance`: read (after the debit has been written), write; returns the balance read -/
def increaseTo (t : Tok) (a : Addr) (v : Nat) : R Tok Nat :=
  let old := t.bal a
  if storable (old + v) then .ok old (t.setBal a (old + v)) else .fail .panic t

/-- `fromApprove`: decrement the allowance `owner → spender` -/
def fromApprove (t : Tok) (owner spender : Addr) (v : Nat) : R Tok Unit :=
  let al := t.allow owner spender
  if al < v then .fail .allowance t
  else if al - v = 0 then .ok () (t.setAllow owner spender 0)
  else if storable (al - v) then .ok () (t.setAllow owner spender (al - v))
  else .fail .panic t

/-- `ont.Transfer`: witness of `from`, debit, credit; returns (old from-balance, to-balance as read) -/
def transferPrim (env : Env) (calling : Option Addr) (t : Tok) (frm to : Addr) (v : Nat) : R Tok (Nat × Nat) :=
  if !witness env calling frm then .fail .auth t
  else
    match reduceFrom t frm v with
    | .fail r t1 => .fail r t1
    | .ok oldFrom t1 =>
      match increaseTo t1 to v with
      | .fail r t2 => .fail r t2
      | .ok oldTo t2 => .ok (oldFrom, oldTo) t2

/-- the time-dependent witness rule of `ont.TransferedFrom` -/
def transferFromAllowed (env : Env) (calling : Option Addr) (sender frm to : Addr) : Bool :=
  if env.time ≤ (env.D + env.genesis) % two32 then witness env calling sender
  else (witness env calling env.ontAddr && sender == to && frm == env.ontAddr) || witness env calling sender

/-- `ont.TransferedFrom`: witness rule, allowance, debit, credit -/
def transferFromPrim (env : Env) (calling : Option Addr) (t : Tok) (sender frm to : Addr) (v : Nat) :
    R Tok (Nat × Nat) :=
  if !transferFromAllowed env calling sender frm to then .fail .auth t
  else
    match fromApprove t frm sender v with
    | .fail r t1 => .fail r t1
    | .ok _ t1 =>
      match reduceFrom t1 frm v with
      | .fail r t2 => .fail r t2
      | .ok oldFrom t2 =>
        match increaseTo t2 to v with
        | .fail r t3 => .fail r t3
        | .ok oldTo t3 => .ok (oldFrom, oldTo) t3

/-- the ONG `transferFrom(sender = address, from = ONT contract, to = address, total)` issued by `grantOng`
(`ong.doTransferFrom`, calling context = ONT contract) -/
def grantTransferFrom (env : Env) (g : Tok) (address : Addr) (total : Nat) : R Tok Unit :=
  if total = 0 then .ok () g                       -- BYTE_FALSE, nil: ignored by grantOng
  else if env.ongSupply < total then .fail .overSupply g
  else
    match transferFromPrim env (some env.ontAddr) g address env.ontAddr address total with
    | .fail r g1 => .fail r g1
    | .ok _ g1 => .ok () g1

/-- second half of `grantOng`'s `balance != 0` block: after the holder deadline the accrued ONG is paid out at once
(except to the governance contract); then the unbound offset is advanced -/
def grantPay (env : Env) (s1 : St) (address : Addr) (total endOffset : Nat) : R St Unit :=
  if endOffset > env.D ∧ address ≠ env.govAddr then
    match grantTransferFrom env s1.ong address total with
    | .fail r g => .fail r { s1 with ong := g }
    | .ok _ g => .ok () ({ s1 with ong := g }.setOff address endOffset)
  else .ok () (s1.setOff address endOffset)

/-- first half of the `balance != 0` block: `CalcUnbindOng`, `getApproveArgs`, ONG `approve`/`approveV2` issued by the
ONT contract (calling context = ONT contract) -/
def grantAccrue (env : Env) (s : St) (address : Addr) (balance startOffset endOffset : Nat) : R St Unit :=
  match env.calcOng balance startOffset endOffset with
  | none => .fail .panic s
  | some value =>
    -- getApproveArgs: accrued amount on top of the allowance ONT contract -> address already recorded in ONG
    let total := value * SF + s.ong.allow env.ontAddr address
    if total % SF = 0 ∧ ¬ total / SF < two64 then .fail .panic s     -- MustToInteger64 of a whole amount
    -- ong.doApprove(from = ONT contract, to = address, total)
    else if env.ongSupply < total then .fail .overSupply s
    else if !witness env (some env.ontAddr) env.ontAddr then .fail .auth s
    else grantPay env { s with ong := s.ong.setAllow env.ontAddr address total } address total endOffset

/-- `ont.grantOng(native, ontContract, address, balance)` with `balance` the whole-ONT part (uint64) of the holder's
balance before the transfer -/
def grantOng (env : Env) (s : St) (address : Addr) (balance : Nat) : R St Unit :=
  let startOffset := s.off address
  if env.time ≤ env.genesis then .ok () s
  else
    let endOffset := env.time - env.genesis
    if endOffset < startOffset then (if env.preExec then .ok () s else .fail .timestamp s)
    else if endOffset = startOffset then .ok () s
    else if balance = 0 then .ok () (s.setOff address endOffset)
    else grantAccrue env s address balance startOffset endOffset

/-- the two grants after a successful ONT balance change (`MustToInteger64` is evaluated before each call) -/
def grantBoth (env : Env) (s : St) (frm to : Addr) (oldFrom oldTo : Nat) : R St Unit :=
  if ¬ oldFrom / SF < two64 then .fail .panic s
  else
    match grantOng env s frm (oldFrom / SF) with
    | .fail r s1 => .fail r s1
    | .ok _ s1 =>
      if ¬ oldTo / SF < two64 then .fail .panic s1
      else grantOng env s1 to (oldTo / SF)

structure Xfer where
  frm : Addr
  to : Addr
  value : Nat
  deriving Repr

/-- what follows a completed balance change: nothing for ONG, the two grants for ONT -/
def afterMove (env : Env) (k : Token) (s : St) (frm to : Addr) (oldFrom oldTo : Nat) : R St Unit :=
  match k with
  | .ong => .ok () s
  | .ont => grantBoth env s frm to oldFrom oldTo

/-- one iteration of the loop in `doTransfer` of ont.go (k = ont: grants after the state) and ong.go (k = ong) -/
def xferStep (env : Env) (k : Token) (x : Xfer) (s : St) : R St Unit :=
  if x.value = 0 then .ok () s                      -- `continue`: no witness check, no write
  else if env.supply k < x.value then .fail .overSupply s
  else
    match transferPrim env env.caller (s.tok k) x.frm x.to x.value with
    | .fail r t => .fail r (s.setTok k t)
    | .ok (oldFrom, oldTo) t => afterMove env k (s.setTok k t) x.frm x.to oldFrom oldTo

/-- `doTransfer`: the states in order; the first failing one aborts and leaves the earlier writes in the cache -/
def transferLoop (env : Env) (k : Token) : List Xfer → St → R St Unit
  | [], s => .ok () s
  | x :: xs, s =>
    match xferStep env k x s with
    | .fail r s1 => .fail r s1
    | .ok _ s1 => transferLoop env k xs s1

inductive Op where
  /-- `transfer` / `transferV2` (amounts already in base units) -/
  | transfer (k : Token) (xs : List Xfer)
  /-- `approve` / `approveV2` -/
  | approve (k : Token) (frm to : Addr) (value : Nat)
  /-- `transferFrom` / `transferFromV2` -/
  | transferFrom (k : Token) (sender frm to : Addr) (value : Nat)

/-- one invocation: result and the cache as the invocation leaves it -/
def exec (env : Env) (s : St) : Op → Res × St
  | .transfer k xs =>
    match transferLoop env k xs s with
    | .ok _ s' => (.ok, s')
    | .fail r s' => (.err r, s')
  | .approve k frm to value =>
    if env.supply k < value then (.err .overSupply, s)
    else if !witness env env.caller frm then (.err .auth, s)
    else (.ok, s.setTok k ((s.tok k).setAllow frm to value))
  | .transferFrom k sender frm to value =>
    if value = 0 then (.retFalse, s)
    else if env.supply k < value then (.err .overSupply, s)
    else
      match transferFromPrim env env.caller (s.tok k) sender frm to value with
      | .fail r t => (.err r, s.setTok k t)
      | .ok (oldFrom, oldTo) t =>
        match afterMove env k (s.setTok k t) frm to oldFrom oldTo with
        | .fail r s2 => (.err r, s2)
        | .ok _ s2 => (.ok, s2)

/-- transaction level: the cache of a failed invocation is discarded -/
def txStep (env : Env) (s : St) (op : Op) : Res × St :=
  let (r, s') := exec env s op
  if r.commits then (r, s') else (r, s)

/-- a history: every call comes with its own environment (signers, caller, block time) -/
def run : List (Env × Op) → St → St
  | [], s => s
  | (env, op) :: rest, s => run rest (txStep env s op).2

end OntVerif.Model.Token
