/-!
# Model of pre-execution (C42): `PreExecuteContract(WithParam)`, `PreExecuteContractBatch`, `PreExecuteEIP155`,
# `PreExecuteEip155Tx` / `executeEip155Tx` of `core/store/ledgerstore/ledger_store.go`

Layering as in the code (and as in C04): the persistent state store is only READ by an `OverlayDB`; a `CacheDB` sits on the
overlay; a contract run (NeoVM script, native contract, EVM message — an arbitrary `Prog`) talks to the CacheDB only.  The
single way from an overlay into the store is `commitBlock` (what `saveBlockToStateStore` + `CommitTo` do with the write set of
`executeBlock`).  Pre-execution builds the overlay, runs, reads the result and drops the overlay.

Core-only, executable.
-/
namespace OntVerif.Model.PreExec

abbrev Key := Nat
abbrev Val := Nat

/-- everything that is persisted or that a query can observe -/
structure Persist where
  kv : Key → Option Val            -- state store (contracts, storage, balances, EVM accounts/code/storage)
  height : Nat                     -- current block
  stateRoots : List Nat            -- state merkle roots, one per block (newest first)
  events : List (Nat × List Nat)   -- event store: (height, notifications)

/-- memdb of an OverlayDB / CacheDB: writes, newest first; `none` = deletion -/
abbrev MemDB := List (Key × Option Val)

def memGet (k : Key) : MemDB → Option (Option Val)
  | [] => none
  | (q, v) :: r => if q = k then some v else memGet k r

/-- `OverlayDB.Get`: own writes first, then the store -/
def overlayGet (p : Persist) (ov : MemDB) (k : Key) : Option Val :=
  match memGet k ov with
  | some v => v
  | none => p.kv k

/-- `CacheDB.Get`: own writes, then the overlay -/
def cacheGet (p : Persist) (ov cache : MemDB) (k : Key) : Option Val :=
  match memGet k cache with
  | some v => v
  | none => overlayGet p ov k

inductive Outcome
  | ok (ret : List Nat) (notify : List Nat)
  | fail (code : Nat)
  deriving Repr, DecidableEq

/-- what a contract run can do; `get` continues with whatever the layered read returns -/
inductive Prog
  | ret (r : List Nat)
  | fail (code : Nat)
  | get (k : Key) (cont : Option Val → Prog)
  | put (k : Key) (v : Val) (next : Prog)
  | del (k : Key) (next : Prog)
  | commit (next : Prog)        -- `CacheDB.Commit()`: flush the cache into the overlay
  | reset (next : Prog)         -- `CacheDB.Reset()`
  | notify (n : Nat) (next : Prog)

structure Run where
  ov : MemDB
  cache : MemDB
  notes : List Nat

/-- interpreter of a run over (store, overlay, cache): the store is an argument, never a result -/
def interp (p : Persist) : Prog → Run → Outcome × Run
  | .ret r, s => (.ok r s.notes.reverse, s)
  | .fail c, s => (.fail c, s)
  | .get k cont, s => interp p (cont (cacheGet p s.ov s.cache k)) s
  | .put k v n, s => interp p n { s with cache := (k, some v) :: s.cache }
  | .del k n, s => interp p n { s with cache := (k, none) :: s.cache }
  | .commit n, s => interp p n { s with ov := s.cache ++ s.ov, cache := [] }
  | .reset n, s => interp p n { s with cache := [] }
  | .notify x n, s => interp p n { s with notes := x :: s.notes }

/-- the only path from an overlay into the store: the block commit (`saveBlockToStateStore` writes the overlay's write set into
the state-store batch, `stateStore.CommitTo()` commits it) -/
def applyWrites : MemDB → (Key → Option Val) → (Key → Option Val)
  | [], f => f
  | (k, v) :: r, f => fun q => if q = k then v else applyWrites r f q

def commitBlock (p : Persist) (ov : MemDB) (root : Nat) (notes : List Nat) : Persist :=
  { kv := applyWrites ov p.kv, height := p.height + 1, stateRoots := root :: p.stateRoots, events := (p.height + 1, notes) :: p.events }

/-- executing a block of one transaction for real: run on a fresh overlay, then commit the overlay (only successful runs flush
their cache; a failed run leaves the overlay as it was) -/
def executeAndCommit (p : Persist) (prog : Prog) (root : Nat) : Outcome × Persist :=
  let (o, s) := interp p prog ⟨[], [], []⟩
  match o with
  | .ok _ notes => (o, commitBlock p (s.cache ++ s.ov) root notes)
  | .fail _ => (o, commitBlock p [] root [])

/-- what `ExecuteBlock` hands back to its caller: a VALUE — the write set of the block's own overlay, the notifications and the
state root.  (Assumption, tied structurally by `Gen.PreExec.overlayProviders`: the overlay behind it is a fresh allocation that
nobody else gets hold of; in particular it is not recycled while the result is alive.) -/
structure ExecResult where
  outcome : Outcome
  writes : MemDB
  notes : List Nat
  root : Nat

/-- phase 1 of the two-phase commit used by the consensus services: `ExecuteBlock` -/
def executeBlock (p : Persist) (prog : Prog) (root : Nat) : ExecResult :=
  let (o, s) := interp p prog ⟨[], [], []⟩
  match o with
  | .ok _ notes => ⟨o, s.cache ++ s.ov, notes, root⟩
  | .fail _ => ⟨o, [], [], root⟩

/-- phase 2: `SubmitBlock(block, result)` persists the result it is given -/
def submitBlock (p : Persist) (r : ExecResult) : Persist := commitBlock p r.writes r.root r.notes

inductive Kind | invoke | deploy | eip155 | evmCall | other
  deriving Repr, DecidableEq

/-- a pre-execution request: what arrives, and what the VM would do with it (any program) -/
structure Request where
  kind : Kind
  prog : Prog
  deployOK : Bool      -- the static checks of a deploy request pass

/-- `PreExecuteContractWithParam` / `PreExecuteEip155Tx`: result and the ledger afterwards.  Mirrors the code: read the
height, build a FRESH overlay and cache, run (invoke / EIP-155 / EVM message), build the result, return; a deploy request is only
checked statically; anything else is an error.  No statement touches `p`. -/
def preExec (p : Persist) (r : Request) : Outcome × Persist :=
  match r.kind with
  | .invoke | .eip155 | .evmCall => ((interp p r.prog ⟨[], [], []⟩).1, p)
  | .deploy => (if r.deployOK then .ok [] [] else .fail 1, p)
  | .other => (.fail 2, p)

/-- `PreExecuteContractBatch`: every transaction gets its own fresh overlay; stops at the first error -/
def preExecBatch (p : Persist) : List Request → List Outcome × Persist
  | [] => ([], p)
  | r :: rs =>
    let (o, p1) := preExec p r
    let (os, p2) := preExecBatch p1 rs
    (o :: os, p2)

end OntVerif.Model.PreExec
