import OntVerif.Gen.Quorum
import OntVerif.Util.Hex
/-!
# Quorum thresholds (C28; reused by C31/C32)

The formulas themselves are **generated from the Go source** (`Gen/Quorum.lean`, rewritten by factgen on every run).
This file only names what they are used for.
-/
namespace OntVerif.Model.Quorum
open OntVerif.Gen.Quorum

/-- `getCommitConsensus` declares consensus for a proposer once `k` distinct signer indexes (committers and the
endorsers their commit messages claim) are recorded for it and `k + 1 ≥ N - (N-1)/3`; the test sits inside the loop
over commit messages, so at least one message (hence one signer) is needed. -/
def commitConsensusReached (N k : Nat) : Bool := decide (0 < k ∧ commitConsensus_lhs k ≥ commitConsensus_q N)

/-- number of distinct peers actually vouching: the recorded signers plus the proposer, who is counted by the `+1`
whether or not it is already among the recorded signers -/
def distinctVouchers (k : Nat) (proposerAmongSigners : Bool) : Nat := if proposerAmongSigners then k else k + 1

/-- the "quorum-type" thresholds found in the code: each is a number of DISTINCT signers a block needs -/
inductive QSite | blockValidator | ledgerHeader | bookkeeperAddress | crossChainMsg | commitSigQuorum | commitMsgQuorum
  deriving DecidableEq, Repr

def QSite.all : List QSite := [.blockValidator, .ledgerHeader, .bookkeeperAddress, .crossChainMsg, .commitSigQuorum, .commitMsgQuorum]

/-- required number of distinct signers at a site, for a consensus of size `N` -/
def need : QSite → Nat → Nat
  | .blockValidator, N => blockValidator_m N
  | .ledgerHeader, N => ledgerStore_m N
  | .bookkeeperAddress, N => addrFromBookkeepers_m N
  | .crossChainMsg, N => crossChainMsg_m N
  | .commitSigQuorum, N => commitDone_strict (commitDone_C N)      -- `count > C'` with `C' = N-(N-1)/3-1`
  | .commitMsgQuorum, N => commitConsensus_q N                     -- signers ∪ {proposer}, proposer not double counted

/-- executable search for a counterexample to the intersection arithmetic (used by ./check when the proof breaks):
smallest `(N, C, s, t)` with `N ≥ 3C+1` and `need s N + need t N < N + C + 1`, i.e. two signer sets of those sizes
inside `N` peers that can overlap in only `C` (possibly all faulty) peers. -/
def searchCounterexample (maxN : Nat) : Option (Nat × Nat × QSite × QSite) :=
  (List.range (maxN + 1)).findSome? fun N =>
    (List.range (N / 3 + 1)).findSome? fun C =>
      if 3 * C + 1 ≤ N then
        QSite.all.findSome? fun s => QSite.all.findSome? fun t =>
          if need s N + need t N < N + C + 1 then some (N, C, s, t) else none
      else none

end OntVerif.Model.Quorum
