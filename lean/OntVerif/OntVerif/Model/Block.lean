import OntVerif.Model.Tx
/-!
# Model of `core/types/header.go`, `core/types/block.go` (codec) and `common/merkle_tree.go:ComputeMerkleRoot`

Executable, core-only; built on the transaction decoder of `Model/Tx.lean`.

* `keypair.DeserializePublicKey` followed (at serialization time) by `keypair.SerializePublicKey` is the abstract
  parameter `Keys.canon : Bytes → Option Bytes` (`none` = the blob is not a public key).
* Hash functions are parameters (`Hashes`); the driver instantiates them with SHA-256.
* `Variant.asShipped` mirrors the code: a bookkeeper blob is stored as the decoded key, hence re-encoded canonically
  (known finding `noncanonical-bookkeeper-key-reencode`).  `Variant.sound` rejects a blob that is not its own
  canonical encoding.
* The list loops run `n` times for the announced count `n` (uint64 counters) and `CrossChainMsg.Deserialization` does
  not pre-allocate from the wire count: this is the code after the repairs `fixes/C20-header-count-wrap.patch` and
  `fixes/C20-crosschainmsg-count.patch` (before them a count `≥ 2^63` meant zero iterations, resp. a `makeslice`
  panic; the witnesses are kept in `corpus/C20/findings.ops`).
-/
namespace OntVerif.Model.Block
open OntVerif.Util OntVerif.Model.Codec OntVerif.Model.Tx

inductive Variant | asShipped | sound
  deriving Repr, DecidableEq

structure Keys where
  canon : Bytes → Option Bytes

structure Hashes where
  txHash : Tx → Bytes               -- `Transaction.Hash()`
  node : Bytes → Bytes → Bytes      -- merkle inner node: sha256d(a ‖ b)
  hdr : Bytes → Bytes               -- header hash of the unsigned serialisation: sha256d

structure HeaderU where
  version : Nat
  prevHash : Bytes
  txRoot : Bytes
  blockRoot : Bytes
  timestamp : Nat
  height : Nat
  consensusData : Nat
  consensusPayload : Bytes
  nextBookkeeper : Bytes
  deriving Repr, DecidableEq

structure Header where
  u : HeaderU
  bookkeepers : List Bytes     -- `SerializePublicKey` of each decoded key (what `Serialization` writes)
  sigData : List Bytes
  -- ghost fields (not in the Go struct): what was on the wire
  bkCount : Nat                -- the var-uint in front of the bookkeeper list
  bkRaw : List Bytes           -- the blobs as read
  sigCount : Nat
  deriving Repr, DecidableEq

/-- `Header.deserializationUnsigned` -/
def parseHeaderUnsigned : P HeaderU := do
  let version ← rUintN 4
  let prevHash ← rBytesN 32
  let txRoot ← rBytesN 32
  let blockRoot ← rBytesN 32
  let timestamp ← rUintN 4
  let height ← rUintN 4
  let consensusData ← rUintN 8
  let consensusPayload ← rVarBytes true
  let nextBookkeeper ← rBytesN 20
  pure ⟨version, prevHash, txRoot, blockRoot, timestamp, height, consensusData, consensusPayload, nextBookkeeper⟩

/-- one bookkeeper entry: (blob as read, its canonical re-encoding) -/
def parseKey (V : Variant) (K : Keys) : P (Bytes × Bytes) := do
  let buf ← rVarBytes true
  match K.canon buf with
  | none => fail .invalid
  | some c =>
    match V with
    | .asShipped => pure (buf, c)
    | .sound => if c = buf then pure (buf, c) else fail .invalid

/-- `Header.Deserialization` -/
def parseHeader (V : Variant) (K : Keys) : P Header := do
  let u ← parseHeaderUnsigned
  let n ← rVarUint true
  let bks ← repeatP n (parseKey V K)
  let m ← rVarUint true
  let sigs ← repeatP m (rVarBytes true)
  pure ⟨u, bks.map (·.2), sigs, n, bks.map (·.1), m⟩

/-- `serializationUnsigned` -/
def serHeaderU (u : HeaderU) : Bytes :=
  writeUintN 4 u.version ++ u.prevHash ++ u.txRoot ++ u.blockRoot ++ writeUintN 4 u.timestamp ++ writeUintN 4 u.height
    ++ writeUintN 8 u.consensusData ++ writeVarBytes u.consensusPayload ++ u.nextBookkeeper

def serList (l : List Bytes) : Bytes := writeVarUint l.length ++ (l.map writeVarBytes).flatten

/-- `Header.Serialization` -/
def serHeader (h : Header) : Bytes := serHeaderU h.u ++ serList h.bookkeepers ++ serList h.sigData

/-- `Header.Hash`: computed from the unsigned serialisation of the *fields* -/
def headerHashInput (h : Header) : Bytes := serHeaderU h.u

/-! ## `RawHeader` (header bytes kept opaque; used for headers from the local store and header sync) -/

structure RawHeader where
  height : Nat
  payload : Bytes
  deriving Repr, DecidableEq

/-- `source.Skip(n)` with the eof result ignored -/
def skipIgn (n : Nat) : P Unit := fun s => .ok () (skip s n).2

/-- `eof = source.Skip(n); if eof { return io.ErrUnexpectedEOF }` -/
def skipE (n : Nat) : P Unit := fun s =>
  let (eof, s') := skip s n
  if eof then .err .eof else .ok () s'

/-- `self.Height, _ = source.NextUint32()` (eof ignored: value 0) -/
def rUintNIgn (k : Nat) : P Nat := fun s =>
  match nextUintN k s with
  | none => .panic
  | some ((v, _), s') => .ok v s'

/-- `RawHeader.deserializationUnsigned`: returns the height -/
def parseRawHeaderUnsigned : P Nat := do
  skipIgn (4 + 32 * 3 + 4)
  let height ← rUintNIgn 4
  skipIgn 8
  let _ ← rVarBytes true
  skipE 20
  pure height

/-- `RawHeader.Deserialization` -/
def parseRawHeader : P RawHeader := do
  let pstart ← pos
  let height ← parseRawHeaderUnsigned
  let n ← rVarUint true
  let _ ← repeatP n (rVarBytes true)
  let m ← rVarUint true
  let _ ← repeatP m (rVarBytes true)
  let payload ← captured pstart
  pure ⟨height, payload⟩

/-! ## `CrossChainMsg` (travels next to a block in the p2p `Block` message and in VBFT proposals) -/

structure CCMsg where
  version : UInt8
  height : Nat
  statesRoot : Bytes
  sigData : List Bytes
  sigCount : Nat            -- ghost: the count on the wire
  deriving Repr, DecidableEq

/-- every error of this decoder is a `fmt.Errorf` -/
def allInvalid {α : Type} (p : P α) : P α := fun s =>
  match p s with
  | .err _ => .err .invalid
  | r => r

/-- version, height, states root and the signature count -/
def parseCCMPrefix : P (UInt8 × Nat × Bytes × Nat) := do
  let v ← allInvalid rByte
  let h ← allInvalid (rUintN 4)
  let r ← allInvalid (rBytesN 32)
  let n ← allInvalid (rVarUint false)
  pure (v, h, r, n)

/-- `CrossChainMsg.Deserialization` -/
def parseCCMsg : P CCMsg := do
  let a ← parseCCMPrefix
  let sigs ← allInvalid (repeatP a.2.2.2 (rVarBytes false))
  pure ⟨a.1, a.2.1, a.2.2.1, sigs, a.2.2.2⟩

def serCCMsg (m : CCMsg) : Bytes :=
  [m.version] ++ writeUintN 4 m.height ++ m.statesRoot ++ serList m.sigData

/-! ## Merkle root of the transaction hashes -/

def zeroHash : Bytes := List.replicate 32 0

/-- one round: pair up, the last element of an odd list is paired with itself -/
def level (node : Bytes → Bytes → Bytes) : List Bytes → List Bytes
  | [] => []
  | [a] => [node a a]
  | a :: b :: r => node a b :: level node r

def rootFuel (node : Bytes → Bytes → Bytes) : Nat → List Bytes → Bytes
  | 0, l => l.headD zeroHash
  | f+1, l =>
    match l with
    | [] => zeroHash
    | [a] => a
    | _ => rootFuel node f (level node l)

/-- `common.ComputeMerkleRoot` -/
def computeMerkleRoot (node : Bytes → Bytes → Bytes) (hs : List Bytes) : Bytes := rootFuel node hs.length hs

/-! ## Block -/

structure Block where
  header : Header
  txs : List Tx
  deriving Repr, DecidableEq

/-- the transaction loop of `Block.Deserialization`: `seen` = hashes of the transactions decoded so far -/
def parseTxs (R : Rlp) (hs : Hashes) : Nat → List Bytes → P (List Tx)
  | 0, _ => pure []
  | n+1, seen => do
    let t ← deserialize R
    if seen.contains (hs.txHash t) then fail .invalid
    let r ← parseTxs R hs n (seen ++ [hs.txHash t])
    pure (t :: r)

/-- `Block.Deserialization` -/
def parseBlock (V : Variant) (K : Keys) (R : Rlp) (hs : Hashes) : P Block := do
  let h ← parseHeader V K
  let n ← rUintN 4
  let txs ← parseTxs R hs n []
  if h.u.txRoot != computeMerkleRoot hs.node (txs.map hs.txHash) then fail .invalid
  pure ⟨h, txs⟩

/-- `Block.Serialization` -/
def serBlock (b : Block) : Bytes :=
  serHeader b.header ++ writeUintN 4 (b.txs.length % 4294967296) ++ (b.txs.map (·.raw)).flatten

end OntVerif.Model.Block
