/-!
# A positive fragment of IEEE-754 binary64 arithmetic (used by C30)

Only what `GenesisChainConfig` needs: `float64(uint64)`, `*`, `/`, `math.Ceil`, on strictly positive finite values, in
round-to-nearest-even. A float value `v` is represented by the natural number `v · 2^128` (all values that occur for
`stake, sum < 2^64`, `scale, K < 2^32` are multiples of `2^-128`: the smallest quotient is `≥ 2^-64` and keeps 53
significant bits above `2^-128`). The exponent range is unbounded here; in the stated domain neither overflow nor
underflow/subnormals occur (values stay within `[2^-64, 2^129]`), so the fragment coincides with IEEE-754 there.
Tied to Go's `float64` by the C30 correspondence harness (position tables are compared slot for slot).
-/
namespace OntVerif.Model.F64

/-- number of fractional bits of the fixed-point representation -/
def FRAC : Nat := 128
def unit : Nat := 2 ^ 128

/-- `p / d` rounded to the nearest integer, ties to even -/
def rhe (p d : Nat) : Nat :=
  let f := p / d
  let r := p % d
  if 2 * r < d then f else if d < 2 * r then f + 1 else if f % 2 = 0 then f else f + 1

/-- exponent of the unit in the last place for the rational `p / q`: 0 below `2^53`, else `⌊log2 (p/q)⌋ - 52` -/
def ulpExp (p q : Nat) : Nat := if p / q < 2 ^ 53 then 0 else Nat.log2 (p / q) - 52

/-- the rational `p / q` rounded to 53 significant bits (round-to-nearest-even) -/
def rn53 (p q : Nat) : Nat :=
  let k := ulpExp p q
  rhe p (q * 2 ^ k) * 2 ^ k

/-- `float64(n)` for an unsigned integer `n` -/
def ofNat (n : Nat) : Nat := rn53 (n * unit) 1
/-- `a * b` -/
def mul (a b : Nat) : Nat := rn53 (a * b) unit
/-- `a / b` -/
def div (a b : Nat) : Nat := rn53 (a * unit) b
/-- `uint64(math.Ceil(a))` (no wrap: the value is below `2^64` in the stated domain) -/
def ceilToNat (a : Nat) : Nat := (a + unit - 1) / unit

/-- `uint64(math.Ceil(float64(stake) * float64(scale) * float64(K) / float64(sum)))`, evaluated left to right as Go does -/
def rankIEEE (stake scale K sum : Nat) : Nat :=
  ceilToNat (div (mul (mul (ofNat stake) (ofNat scale)) (ofNat K)) (ofNat sum))

end OntVerif.Model.F64
