import OntVerif.Model.SigCheck
import OntVerif.Gen.Quorum
/-!
# Model of the header check of a syncing node, VBFT branch (C32)

Mirrors `core/store/ledgerstore/ledger_store.go`, in the order of the Go code:

* `AddHeader`: `header.Height != GetCurrentHeaderHeight()+1` → error; `verifyHeader`; then header cache + header index;
* `verifyHeader` (VBFT branch): previous header by hash, height, timestamp, `vconfig.VbftBlock(header)` (JSON),
  the `chainConfigHeight` lookup (from the header's OWN `LastConfigBlockNum`, or - for a header that carries a new chain
  configuration - from the previous header), `GetHeaderByHeight(chainConfigHeight)`, its `NewChainConfig`, `c`,
  `vbftPeerInfoMap[chainConfigHeight]`, `m := len(vbftPeerInfo) - (len(vbftPeerInfo)*6)/7` (**generated**:
  `Gen.Quorum.ledgerStore_vbft_m`), `len(header.Bookkeepers) < m`, the membership loop filling `usedPubKey`,
  `uint32(len(usedPubKey)) < c+1` (**generated**: `ledgerStore_vbft_members`, evaluated in `uint32`),
  `signature.VerifyMultiSignature(hash, header.Bookkeepers, m, header.SigData)` (`Model.SigCheck.verifyMulti`: greedy match
  of the first `m` signatures against not-yet-used bookkeeper **indexes**), and the `vbftPeerInfoMap[header.Height]` update.

`vbftPeerInfo` is a Go `map[string]uint32` keyed by the peer ID (hex of the serialised public key): its size is the number of
DISTINCT ids of the configuration, membership is by id; the stored index is never read by `verifyHeader`.  A key is
compared through `idOf = vconfig.PubkeyID`.  Signatures and the header hash are abstract (`vf k hash sig`, `hash` a field).

`.sound` (what the property asks for): a bookkeeper list naming an id twice is rejected, and `max m (C+1)` signatures are
verified, with `C+1` computed without wrap-around.
-/
namespace OntVerif.Model.SyncHeader
open OntVerif.Util OntVerif.Model.SigCheck OntVerif.Gen.Quorum

/-- first occurrence removed when it occurs again later: a duplicate-free list with the same members -/
def dedup {α : Type} [DecidableEq α] : List α → List α
  | [] => []
  | a :: r => if a ∈ r then dedup r else a :: dedup r

/-- `vconfig.ChainConfig` as far as the header check reads it -/
structure ChainCfg (Id : Type) where
  c : Nat                 -- `C uint32`
  peers : List Id         -- `Peers[i].ID`, in order (ids may repeat: the Go map collapses them)
  deriving DecidableEq, Repr

/-- `vconfig.VbftBlockInfo` as far as the header check reads it -/
structure Payload (Id : Type) where
  lastCfg : Nat                      -- `LastConfigBlockNum uint32`
  newCfg : Option (ChainCfg Id)      -- `NewChainConfig`
  deriving DecidableEq, Repr

structure Hdr (Key Id Hash : Type) where
  hash : Hash                        -- `header.Hash()` (covers everything except Bookkeepers / SigData)
  height : Nat
  prev : Hash                        -- `PrevBlockHash`
  ts : Nat
  payload : Option (Payload Id)      -- `none`: `json.Unmarshal(header.ConsensusPayload)` fails
  bookkeepers : List Key
  sigData : List Bytes

/-- what a syncing node holds: the header index (`hdrs[k]` = the header the index maps height `k` to: filled by
`AddHeader`, overwritten by a committed block), every header reachable by hash (`known`: header cache ∪ block store - a
header accepted once stays reachable), the in-memory `vbftPeerInfoMap` (association list, newest entry first) and the
height of the newest committed block -/
structure Store (Key Id Hash : Type) where
  hdrs : List (Hdr Key Id Hash)
  known : List (Hdr Key Id Hash)
  peerMap : List (Nat × List Id)
  blockHeight : Nat

inductive Rej
  | height | prev | prevHeight | ts | json | cfgHeader | noCfg | noMap | fewBk | nonMember | fewMembers | dupBk
  | sigCount | sigData | sigFail | panic | blockHeight | blockPrev | blockRoot
  deriving DecidableEq, Repr

def Rej.name : Rej → String
  | .height => "height" | .prev => "prev" | .prevHeight => "prevheight" | .ts => "ts" | .json => "json"
  | .cfgHeader => "cfgheader" | .noCfg => "nocfg" | .noMap => "nomap" | .fewBk => "fewbk" | .nonMember => "nonmember"
  | .fewMembers => "fewmembers" | .dupBk => "dupbk" | .sigCount => "sigcount" | .sigData => "sigdata"
  | .sigFail => "sigfail" | .panic => "panic" | .blockHeight => "blockheight" | .blockPrev => "blockprev" | .blockRoot => "blockroot"

/-! ## `signature.VerifyMultiSignature` with the reason of a rejection (same loop as `SigCheck.vmsLoop`) -/

def vmsLoopR {Key Sig : Type} (parseSig : Bytes → Option Sig) (vf : Key → Sig → VRes) (keys : List Key) :
    Nat → List Bytes → List Bool → Except Rej Unit
  | 0, _, _ => .ok ()
  | _ + 1, [], _ => .error .panic                 -- `sigs[i]` out of range; excluded by the length check
  | m + 1, raw :: rest, mask =>
    match parseSig raw with
    | none => .error .sigData
    | some s =>
      match findIdx (fun k => vf k s) keys mask 0 with
      | .found j => vmsLoopR parseSig vf keys m rest (mask.set j true)
      | .none => .error .sigFail
      | .panic => .error .panic

def verifyMultiR {Key Sig : Type} (parseSig : Bytes → Option Sig) (vf : Key → Sig → VRes) (keys : List Key) (m : Nat)
    (sigs : List Bytes) : Except Rej Unit :=
  if sigs.length < m then .error .sigCount
  else vmsLoopR parseSig vf keys m sigs (List.replicate keys.length false)

/-! ## `verifyHeader`, VBFT branch -/

def U32 : Nat := 2 ^ 32

/-- `GetHeaderByHash`: header cache, then block store -/
def byHash {Key Id Hash : Type} [DecidableEq Hash] (st : Store Key Id Hash) (h : Hash) : Option (Hdr Key Id Hash) :=
  st.known.find? (fun x => x.hash = h)

/-- `GetHeaderByHeight` -/
def byHeight {Key Id Hash : Type} (st : Store Key Id Hash) (k : Nat) : Option (Hdr Key Id Hash) := st.hdrs[k]?

def mapGet {Id : Type} : List (Nat × List Id) → Nat → Option (List Id)
  | [], _ => none
  | (k, v) :: r, h => if k = h then some v else mapGet r h

/-- the `chainConfigHeight` computation: `.ok height` or the JSON error of `VbftBlock(prevHeader)` -/
def cfgHeight {Key Id Hash : Type} (prevHdr : Hdr Key Id Hash) (p : Payload Id) : Except Rej Nat :=
  match p.newCfg with
  | some _ =>
    match prevHdr.payload with
    | none => .error .json
    | some pp =>
      match pp.newCfg with
      | some _ => .ok prevHdr.height
      | none => .ok pp.lastCfg
  | none => .ok p.lastCfg

/-- the configuration `verifyHeader` checks the header against: `(chainConfigHeight, C, vbftPeerInfo ids)` -/
def lookupCfg {Key Id Hash : Type} (st : Store Key Id Hash) (prevHdr : Hdr Key Id Hash) (p : Payload Id) :
    Except Rej (Nat × Nat × List Id) :=
  match cfgHeight prevHdr p with
  | .error e => .error e
  | .ok ch =>
    match byHeight st ch with
    | none => .error .cfgHeader
    | some cfgHdr =>
      match cfgHdr.payload with
      | none => .error .json
      | some cp =>
        match cp.newCfg with
        | none => .error .noCfg
        | some cc =>
          match mapGet st.peerMap ch with
          | none => .error .noMap
          | some ids => .ok (ch, cc.c, ids)

/-- first bookkeeper whose id is not in the peer map -/
def allMembers {Key Id : Type} [DecidableEq Id] (idOf : Key → Id) (ids : List Id) (bk : List Key) : Bool :=
  bk.all (fun k => decide (idOf k ∈ ids))

/-- number of signatures the variant verifies for a peer map of `n` ids and parameter `c` -/
def sigsNeeded (v : Variant) (n c : Nat) : Nat :=
  match v with
  | .asShipped => ledgerStore_vbft_m n
  | .sound => max (ledgerStore_vbft_m n) (ledgerStore_vbft_members c)

/-- the part of `verifyHeader` after the configuration lookup: bookkeeper count, membership, distinct listed members,
signatures -/
def checkQuorum {Key Sig Id : Type} [DecidableEq Id] (v : Variant) (parseSig : Bytes → Option Sig) (vf : Key → Sig → VRes)
    (idOf : Key → Id) (c : Nat) (ids : List Id) (bk : List Key) (sigs : List Bytes) : Except Rej Unit :=
  let n := (dedup ids).length                                    -- `len(vbftPeerInfo)`
  let m := ledgerStore_vbft_m n
  if bk.length < m then .error .fewBk
  else if ¬ allMembers idOf ids bk then .error .nonMember
  else
    let used := (dedup (bk.map idOf)).length                     -- `len(usedPubKey)`
    let enough : Bool :=
      match v with
      | .asShipped => decide (¬ used % U32 < ledgerStore_vbft_members c % U32)   -- `uint32(len(usedPubKey)) < c+1`
      | .sound => decide (ledgerStore_vbft_members c ≤ used)
    if ¬ enough then .error .fewMembers
    else if v = .sound ∧ used ≠ bk.length then .error .dupBk
    else verifyMultiR parseSig vf bk (sigsNeeded v n c) sigs

/-- `verifyHeader`; `.ok st'` carries the `vbftPeerInfoMap` update -/
def verifyHeader {Key Sig Id Hash : Type} [DecidableEq Id] [DecidableEq Hash] (v : Variant)
    (parseSig : Bytes → Option Sig) (vf : Key → Hash → Sig → VRes) (idOf : Key → Id)
    (st : Store Key Id Hash) (h : Hdr Key Id Hash) : Except Rej (Store Key Id Hash) :=
  if h.height = 0 then .ok st
  else match byHash st h.prev with
  | none => .error .prev
  | some prevHdr =>
    if prevHdr.height + 1 ≠ h.height then .error .prevHeight
    else if prevHdr.ts ≥ h.ts then .error .ts
    else match h.payload with
      | none => .error .json
      | some p =>
        match lookupCfg st prevHdr p with
        | .error e => .error e
        | .ok (_, c, ids) =>
          match checkQuorum v parseSig (fun k s => vf k h.hash s) idOf c ids h.bookkeepers h.sigData with
          | .error e => .error e
          | .ok () =>
            match p.newCfg with
            | some nc => .ok { st with peerMap := (h.height, nc.peers) :: st.peerMap }
            | none => .ok st

/-- `AddHeader` (the sync path).  `GetCurrentHeaderHeight() = hdrs.length - 1` (the store always holds the genesis header). -/
def addHeader {Key Sig Id Hash : Type} [DecidableEq Id] [DecidableEq Hash] (v : Variant)
    (parseSig : Bytes → Option Sig) (vf : Key → Hash → Sig → VRes) (idOf : Key → Id)
    (st : Store Key Id Hash) (h : Hdr Key Id Hash) : Except Rej (Store Key Id Hash) :=
  if h.height ≠ (st.hdrs.length - 1) + 1 then .error .height
  else match verifyHeader v parseSig vf idOf st h with
    | .error e => .error e
    | .ok st' => .ok { st' with hdrs := st'.hdrs ++ [h], known := st'.known ++ [h] }

/-- `headerIndexCache.setHeaderIndex(height, hash)`: overwrite the entry of an indexed height, or extend the index -/
def setIndex {α : Type} (l : List α) (k : Nat) (a : α) : List α := if k < l.length then l.set k a else l ++ [a]

/-- `AddBlock` for a block with no transaction (the sync path for blocks; `SubmitBlock` runs the same steps).  Returns the
store afterwards and the verdict (`none` = nil error).  `rootOK`: `header.BlockRoot` equals the ledger's block root.
* a block at or below the committed height: `return nil`, nothing happens;
* `PrevBlockHash != GetCurrentBlockHash()` → error (the committed block of height `blockHeight` is `hdrs[blockHeight]`);
* `verifyHeader` - the same function `AddHeader` runs, on the same store: header sync may be ahead, so the height of the
  block may already be indexed (with another header);
* `saveBlock` → `submitBlock`: the block-root comparison, then the commit (`setHeaderIndex` overwrites the index entry).
`.asShipped`: `verifyHeader` has already written `vbftPeerInfoMap[height]` when the block-root comparison fails.
`.sound`: the peer map changes only when the block is committed. -/
def addBlock {Key Sig Id Hash : Type} [DecidableEq Id] [DecidableEq Hash] (v : Variant)
    (parseSig : Bytes → Option Sig) (vf : Key → Hash → Sig → VRes) (idOf : Key → Id)
    (st : Store Key Id Hash) (h : Hdr Key Id Hash) (rootOK : Bool) : Store Key Id Hash × Option Rej :=
  if h.height ≤ st.blockHeight then (st, none)
  else if h.height ≠ st.blockHeight + 1 then (st, some .blockHeight)
  else if (st.hdrs[st.blockHeight]?).map (·.hash) ≠ some h.prev then (st, some .blockPrev)
  else match verifyHeader v parseSig vf idOf st h with
    | .error e => (st, some e)
    | .ok st1 =>
      if ¬ rootOK then
        (match v with
          | .asShipped => ({ st with peerMap := st1.peerMap }, some .blockRoot)
          | .sound => (st, some .blockRoot))
      else ({ st1 with hdrs := setIndex st1.hdrs h.height h, known := st1.known ++ [h], blockHeight := h.height }, none)

/-- `AddHeader` as a total step: the store afterwards and the verdict -/
def stepHeader {Key Sig Id Hash : Type} [DecidableEq Id] [DecidableEq Hash] (v : Variant)
    (parseSig : Bytes → Option Sig) (vf : Key → Hash → Sig → VRes) (idOf : Key → Id)
    (st : Store Key Id Hash) (h : Hdr Key Id Hash) : Store Key Id Hash × Option Rej :=
  match addHeader v parseSig vf idOf st h with
  | .ok st' => (st', none)
  | .error e => (st, some e)

/-! ## What the property counts -/

/-- `raw` is a signature that verifies under `k` over `msg` -/
def sigOK {Key Sig : Type} (parseSig : Bytes → Option Sig) (vf : Key → Sig → VRes) (k : Key) (raw : Bytes) : Bool :=
  match parseSig raw with
  | some s => decide (vf k s = .ok)
  | none => false

/-- the distinct members of the configuration (ids) for which the header carries a key and a signature that verifies under
it over the header hash (any position of `SigData`, any position of `Bookkeepers`) -/
def validSigners {Key Sig Id : Type} [DecidableEq Id] (parseSig : Bytes → Option Sig) (vf : Key → Sig → VRes)
    (idOf : Key → Id) (ids : List Id) (bk : List Key) (sigs : List Bytes) : List Id :=
  dedup ((bk.filter (fun k => decide (idOf k ∈ ids) && sigs.any (sigOK parseSig vf k))).map idOf)

end OntVerif.Model.SyncHeader
