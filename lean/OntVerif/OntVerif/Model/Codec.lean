import OntVerif.Util.Hex
/-!
# Model of `common/zero_copy_source.go`, `common/zero_copy_sink.go`, `common/serialization/serialize.go`

Executable, core-only. Go semantics kept literally where the property is about them:

* `uint64` offset arithmetic goes through `safeAdd` (wrap-around + overflow flag) exactly as `SafeAdd`;
* a Go slice expression `s[lo:hi]` is `goSlice`, which returns `none` where Go would panic — the
  totality theorems in `Props/C18.lean` show `none` is unreachable for every byte string and every read script.
-/
namespace OntVerif.Model.Codec
open OntVerif.Util

def two64 : Nat := 18446744073709551616

/-- `common.SafeAdd` on uint64 -/
def safeAdd (x y : Nat) : Nat × Bool := ((x + y) % two64, decide (y > two64 - 1 - x))

/-- Go `s[lo:hi]` on a slice whose cap equals its length: panics (none) unless `lo ≤ hi ≤ len`. -/
def goSlice (bs : Bytes) (lo hi : Nat) : Option Bytes :=
  if lo ≤ hi ∧ hi ≤ bs.length then some ((bs.drop lo).take (hi - lo)) else none

structure Src where
  bs  : Bytes
  off : Nat
  deriving Repr, DecidableEq

def Src.wf (s : Src) : Prop := s.off ≤ s.bs.length ∧ s.bs.length < two64

/-- little-endian value of a byte list -/
def fromLE : Bytes → Nat
  | [] => 0
  | b :: r => b.toNat + 256 * fromLE r

/-- `k` little-endian bytes of `v` -/
def leN : Nat → Nat → Bytes
  | 0, _ => []
  | k+1, v => UInt8.ofNat (v % 256) :: leN k (v / 256)

/-- `NextBytes(n)`: result `none` = Go panic. -/
def nextBytes (s : Src) (n : Nat) : Option ((Bytes × Bool) × Src) :=
  let m := s.bs.length
  let (e0, ov) := safeAdd s.off n
  let eof := ov || decide (e0 > m)
  let e := if eof then m else e0
  match goSlice s.bs s.off e with
  | none => none
  | some d => some ((d, eof), { s with off := e })

def skip (s : Src) (n : Nat) : Bool × Src :=
  let m := s.bs.length
  let (e0, ov) := safeAdd s.off n
  let eof := ov || decide (e0 > m)
  (eof, { s with off := if eof then m else e0 })

/-- `NextByte` (index expression `s[off]` guarded by `off >= len`) -/
def nextByte (s : Src) : (UInt8 × Bool) × Src :=
  match s.bs[s.off]? with
  | none => ((0, true), s)
  | some b => ((b, false), { s with off := s.off + 1 })

/-- `NextBool`: (data, irregular, eof) -/
def nextBool (s : Src) : (Bool × Bool × Bool) × Src :=
  let ((v, eof), s') := nextByte s
  if v == 0 then ((false, false, eof), s')
  else if v == 1 then ((true, false, eof), s')
  else ((true, true, eof), s')

/-- `NextUint16/32/64` for k = 2/4/8: value 0 on eof -/
def nextUintN (k : Nat) (s : Src) : Option ((Nat × Bool) × Src) :=
  match nextBytes s k with
  | none => none
  | some ((d, eof), s') => if eof then some ((0, true), s') else some ((fromLE d, false), s')

def getVarUintSize (v : Nat) : Nat :=
  if v < 0xfd then 1 else if v ≤ 0xffff then 3 else if v ≤ 0xFFFFFFFF then 5 else 9

structure VarRes where
  val : Nat
  size : Nat
  irregular : Bool
  eof : Bool
  deriving Repr, DecidableEq

/-- payload width announced by the first byte of a var-uint (the `switch fb` of `NextVarUint`) -/
def prefixK (fb : UInt8) : Nat :=
  if fb == 0xFD then 2 else if fb == 0xFE then 4 else if fb == 0xFF then 8 else 0

def nextVarUint (s : Src) : Option (VarRes × Src) :=
  let ((fb, eof), s1) := nextByte s
  if eof then some (⟨0, 0, false, true⟩, s1) else
  let k := prefixK fb
  if k == 0 then
    let v := fb.toNat
    some (⟨v, 1, 1 != getVarUintSize v, false⟩, s1)
  else
    match nextUintN k s1 with
    | none => none
    | some ((v, e), s2) =>
      if e then some (⟨0, 0, false, true⟩, s2)
      else some (⟨v, k + 1, (k + 1) != getVarUintSize v, false⟩, s2)

/-- `NextVarBytes`: (data, size, irregular, eof). `size` is a uint64 sum (wraps). -/
def nextVarBytes (s : Src) : Option ((Bytes × Nat × Bool × Bool) × Src) :=
  match nextVarUint s with
  | none => none
  | some (r, s1) =>
    let size := (r.size + r.val) % two64
    if r.val > 0 then
      match nextBytes s1 r.val with
      | none => none
      | some ((d, eof), s2) => some ((d, size, r.irregular, eof), s2)
    else some (([], size, r.irregular, r.eof), s1)

/-- fixed-size blobs: address (20), I128 (16), hash (32): zero value on eof -/
def nextFixed (k : Nat) (s : Src) : Option ((Bytes × Bool) × Src) :=
  match nextBytes s k with
  | none => none
  | some ((d, eof), s') => if eof then some ((List.replicate k 0, true), s') else some ((d, false), s')

/-! ## Sink -/

def writeUintN (k : Nat) (v : Nat) : Bytes := leN k v

def writeBool (b : Bool) : Bytes := [if b then 1 else 0]

def writeVarUint (v : Nat) : Bytes :=
  if v < 0xFD then [UInt8.ofNat v]
  else if v ≤ 0xFFFF then 0xFD :: leN 2 v
  else if v ≤ 0xFFFFFFFF then 0xFE :: leN 4 v
  else 0xFF :: leN 8 v

def writeVarBytes (d : Bytes) : Bytes := writeVarUint d.length ++ d

/-! ## `serialization` package (io.Reader flavour): errors are `eof | range`; short reads are errors -/

inductive SErr | eof | range
  deriving Repr, DecidableEq

/-- read exactly `k` bytes or fail -/
def sReadFull (s : Src) (k : Nat) : Except SErr (Bytes × Src) :=
  if s.off + k ≤ s.bs.length then .ok ((s.bs.drop s.off).take k, { s with off := s.off + k })
  else .error .eof

def sReadUintN (k : Nat) (s : Src) : Except SErr (Nat × Src) :=
  match sReadFull s k with
  | .ok (d, s') => .ok (fromLE d, s')
  | .error e => .error e

def sReadVarUint (s : Src) (maxint : Nat) : Except SErr (Nat × Src) :=
  let maxint := if maxint == 0 then two64 - 1 else maxint
  match sReadFull s 1 with
  | .error e => .error e
  | .ok (fbs, s1) =>
    let fb := fbs.headD 0
    let k := if fb == 0xFD then 2 else if fb == 0xFE then 4 else if fb == 0xFF then 8 else 0
    let r : Except SErr (Nat × Src) := if k == 0 then .ok (fb.toNat, s1) else sReadUintN k s1
    match r with
    | .error e => .error e
    | .ok (v, s2) => if v > maxint then .error .range else .ok (v, s2)

def sReadVarBytes (s : Src) : Except SErr (Bytes × Src) :=
  match sReadVarUint s 0 with
  | .error e => .error e
  | .ok (n, s1) => if n == 0 then .ok ([], s1) else sReadFull s1 n

end OntVerif.Model.Codec

namespace OntVerif.Model.Codec
/-! ## Read scripts (what `Props/C18` quantifies over) -/
inductive ROp
  | u8 | u16 | u32 | u64 | bool | vu | vb
  | fixed (k : Nat)      -- address 20 / i128 16 / hash 32
  | bytes (n : Nat)      -- NextBytes(n)
  | skip (n : Nat)
  deriving Repr, DecidableEq

/-- argument is a uint64 -/
def ROp.argOK : ROp → Prop
  | .fixed k => k < two64
  | .bytes n => n < two64
  | .skip n => n < two64
  | _ => True

/-- one read; `none` = the Go code would panic -/
def stepR (s : Src) : ROp → Option Src
  | .u8 => some (nextByte s).2
  | .u16 => (nextUintN 2 s).map (·.2)
  | .u32 => (nextUintN 4 s).map (·.2)
  | .u64 => (nextUintN 8 s).map (·.2)
  | .bool => some (nextBool s).2
  | .vu => (nextVarUint s).map (·.2)
  | .vb => (nextVarBytes s).map (·.2)
  | .fixed k => (nextFixed k s).map (·.2)
  | .bytes n => (nextBytes s n).map (·.2)
  | .skip n => some (skip s n).2

def runR (s : Src) : List ROp → Option Src
  | [] => some s
  | op :: r => match stepR s op with
    | none => none
    | some s' => runR s' r
end OntVerif.Model.Codec
