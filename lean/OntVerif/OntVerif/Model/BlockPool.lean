import OntVerif.Gen.Quorum
/-!
# VBFT block pool: candidate state of one height, message intake, `endorseDone`, `commitDone` (C31, C34)

Mirror of `consensus/vbft/block_pool.go` (`newBlockProposal`, `addBlockEndorsementLocked`, `newBlockEndorsement`,
`newBlockCommitment`, `setProposalEndorsed`, `setProposalCommitted`, `endorseDone`, `commitDone`),
`node_utils.go` (`getCommitConsensus`, `isEndorser`) and of the only signature check that `service.go` performs before a
message reaches the pool: `Server.run` calls `msg.Verify(pk)` with the public key of the **p2p sender** (for proposals:
of the proposer named in the block) — `msg_types.go`. Nothing else is checked (`onConsensusMsg`: "TODO: verify msg"):
the `Endorser` / `Committer` index inside a message is not compared with the sender, the signed hash
(`EndorsedBlockHash` / `CommitBlockHash`) is not compared with the hash of the proposal of `EndorsedProposer` /
`BlockProposer`, and the `EndorsersSig` entries carried by a commit message are never verified.

Signatures are abstract: `Sig.valid k h` are bytes that verify under the key of peer `k` for hash `h` and for nothing
else; `Sig.junk _` verifies under nothing. Which case applies is ghost information supplied by the harness (it owns
the keys and checks the description against the real `signature.Verify`).

Go maps: `EndorseSigs` is an association list with distinct keys; the iteration order of `endorseDone` / `commitDone`
is an explicit parameter `order` (a duplicate-free list of keys). The threshold formulas are the generated ones
(`Gen/Quorum.lean`).  Core Lean only.
-/
namespace OntVerif.Model.BlockPool
open OntVerif.Gen.Quorum

inductive Variant | asShipped | sound
  deriving DecidableEq, Repr

/-- `math.MaxUint32`: the "no proposer" sentinel of `endorseDone` / `commitDone` / `getCommitConsensus` -/
def maxU32 : Nat := 4294967295

/-- hashes are abstract (collision-free by construction): the hash of the block (`fe = false`) or of the empty block
(`fe = true`) of version `ver` of proposer `p`'s proposal — an equivocating proposer signs several versions —, or
the hash of something that is not a block of this height -/
inductive Hash
  | block (p ver : Nat) (fe : Bool)
  | other (n : Nat)
  deriving DecidableEq, Repr, Inhabited

inductive Sig
  | junk (kind : Nat)
  | valid (key : Nat) (hash : Hash)
  deriving DecidableEq, Repr, Inhabited

def blockHash (p ver : Nat) (fe : Bool) : Hash := .block p ver fe

def isBlockHashOf (p : Nat) (fe : Bool) : Hash → Bool
  | .block p' _ fe' => p' == p && fe' == fe
  | .other _ => false

/-- `CandidateEndorseSigInfo` -/
structure ESig where
  proposer : Nat
  forEmpty : Bool
  sig : Sig
  deriving DecidableEq, Repr

/-- the fields of `blockCommitMsg` that matter -/
structure Commit where
  committer : Nat
  proposer : Nat
  hash : Hash
  forEmpty : Bool
  psig : Sig                      -- ProposerSig (a copy, never looked at by the code)
  endorsers : List (Nat × Sig)    -- EndorsersSig (map: distinct keys)
  sig : Sig                       -- CommitterSig
  deriving DecidableEq, Repr

structure Endorse where
  endorser : Nat
  proposer : Nat
  hash : Hash
  forEmpty : Bool
  sig : Sig
  deriving DecidableEq, Repr

structure Proposal where
  proposer : Nat
  ver : Nat
  sig : Sig      -- Block.Header.SigData[0]
  esig : Sig     -- EmptyBlock.Header.SigData[0]
  deriving DecidableEq, Repr

/-- `CandidateInfo` (without the sealed block) -/
structure Cand where
  proposals : List Proposal := []
  commitMsgs : List Commit := []
  endorseSigs : List (Nat × List ESig) := []
  endorsedP : Option Nat := none          -- EndorsedProposal (by proposer index)
  endorsedEmptyP : Option Nat := none     -- EndorsedEmptyProposal
  committedP : Option Nat := none         -- CommittedProposal
  committedEmptyP : Option Nat := none    -- CommittedEmptyProposal
  deriving Repr

/-! ### association lists (Go maps with distinct keys) -/
def lookup {β} (k : Nat) : List (Nat × β) → Option β
  | [] => none
  | (k', v) :: r => if k' = k then some v else lookup k r

def setKey {β} (k : Nat) (v : β) : List (Nat × β) → List (Nat × β)
  | [] => [(k, v)]
  | (k', v') :: r => if k' = k then (k, v) :: r else (k', v') :: setKey k v r

/-! ### intake -/

/-- `addBlockEndorsementLocked` -/
def addEndorse (es : List (Nat × List ESig)) (endorser : Nat) (e : ESig) (commitment : Bool) : List (Nat × List ESig) :=
  match lookup endorser es, commitment with
  | some sigs, false =>
    if sigs.any (·.forEmpty) then es                                  -- has endorsed for empty, ignore new endorsement
    else if e.forEmpty then setKey endorser (sigs ++ [e]) es          -- add empty endorsement
    else if sigs.any (·.proposer == e.proposer) then es               -- dup endorsement
    else setKey endorser (sigs ++ [e]) es
  | _, _ => setKey endorser [e] es

inductive Intake | ok | dup | rej
  deriving DecidableEq, Repr

/-- `newBlockProposal` -/
def newBlockProposal (c : Cand) (m : Proposal) : Intake × Cand :=
  match c.proposals.find? (·.proposer == m.proposer) with
  | some p => if p.sig = m.sig then (.ok, c) else (.dup, c)
  | none =>
    (.ok, { c with proposals := c.proposals ++ [m],
                   endorseSigs := addEndorse c.endorseSigs m.proposer ⟨m.proposer, false, m.sig⟩ false })

/-- `newBlockEndorsement` -/
def newBlockEndorsement (c : Cand) (m : Endorse) : Cand :=
  { c with endorseSigs := addEndorse c.endorseSigs m.endorser ⟨m.proposer, m.forEmpty, m.sig⟩ false }

/-- `newBlockCommitment` (the `EndorsersSig` map is walked in the order of the list: the calls touch distinct keys) -/
def newBlockCommitment (c : Cand) (m : Commit) : Intake × Cand :=
  match c.commitMsgs.find? (·.committer == m.committer) with
  | some c0 => if c0.hash = m.hash then (.ok, c) else (.dup, c)
  | none =>
    let es1 := m.endorsers.foldl (fun es (e : Nat × Sig) => addEndorse es e.1 ⟨m.proposer, m.forEmpty, e.2⟩ false) c.endorseSigs
    let es2 := addEndorse es1 m.committer ⟨m.proposer, m.forEmpty, m.sig⟩ true
    (.ok, { c with endorseSigs := es2, commitMsgs := c.commitMsgs ++ [m] })

/-- `setProposalEndorsed` (on the stored proposal of `proposer`); `true` = no error -/
def setProposalEndorsed (c : Cand) (proposer : Nat) (forEmpty : Bool) : Bool × Cand :=
  if !forEmpty then
    match c.endorsedP with
    | none => (true, { c with endorsedP := some proposer })
    | some q => (q == proposer, c)
  else
    match c.endorsedEmptyP with
    | some _ => (false, c)
    | none => (true, { c with endorsedEmptyP := some proposer })

/-- `setProposalCommitted` -/
def setProposalCommitted (c : Cand) (proposer : Nat) (forEmpty : Bool) : Bool × Cand :=
  if c.committedP.isSome || c.committedEmptyP.isSome then (false, c)
  else if forEmpty then (true, { c with committedEmptyP := some proposer })
  else (true, { c with committedP := some proposer })

/-! ### what `service.go` checks before intake: `msg.Verify(pk of the sender)` -/

def verifyProposal (N : Nat) (m : Proposal) : Bool :=
  decide (m.proposer < N) && m.sig == .valid m.proposer (blockHash m.proposer m.ver false)
    && m.esig == .valid m.proposer (blockHash m.proposer m.ver true)

def verifyEndorse (N sender : Nat) (m : Endorse) : Bool := decide (sender < N) && m.sig == .valid sender m.hash
def verifyCommit (N sender : Nat) (m : Commit) : Bool := decide (sender < N) && m.sig == .valid sender m.hash

/-- is `h` the hash of the (empty) block of the proposal of `p` stored in the pool? -/
def knownHash (c : Cand) (p : Nat) (fe : Bool) (h : Hash) : Bool :=
  match c.proposals.find? (·.proposer == p) with
  | some pr => h == blockHash p pr.ver fe
  | none => false

/-- `.sound`: the checks a repaired intake would add. Endorse message: the claimed endorser is the sender and the signed
hash is the hash of the stored proposal of the endorsed proposer. -/
def soundEndorse (c : Cand) (sender : Nat) (m : Endorse) : Bool :=
  m.endorser == sender && knownHash c m.proposer m.forEmpty m.hash && m.proposer != maxU32

/-- `.sound`, commit message: committer = sender, known hash; every `EndorsersSig` entry that does not verify under the
key of the claimed endorser for that hash is dropped, a `ProposerSig` copy that does not verify is blanked. -/
def soundCommit (N : Nat) (c : Cand) (sender : Nat) (m : Commit) : Option Commit :=
  if m.committer == sender && knownHash c m.proposer m.forEmpty m.hash && m.proposer != maxU32 then
    some { m with endorsers := m.endorsers.filter (fun e => decide (e.1 < N) && e.2 == .valid e.1 m.hash),
                  psig := if m.psig == .valid m.proposer m.hash then m.psig else .junk 0 }
  else none

/-- one message as delivered by the network to this node -/
inductive Delivery
  | proposal (m : Proposal)
  | endorse (sender : Nat) (m : Endorse)
  | commit (sender : Nat) (m : Commit)
  deriving Repr

/-- `Server.run` + `processMsgEvent` for a message of the current height: verify, then hand to the pool -/
def deliver (v : Variant) (N : Nat) (c : Cand) : Delivery → Intake × Cand
  | .proposal m => if verifyProposal N m then newBlockProposal c m else (.rej, c)
  | .endorse s m =>
    if verifyEndorse N s m then
      match v with
      | .asShipped => (.ok, newBlockEndorsement c m)
      | .sound => if soundEndorse c s m then (.ok, newBlockEndorsement c m) else (.rej, c)
    else (.rej, c)
  | .commit s m =>
    if verifyCommit N s m then
      match v with
      | .asShipped => newBlockCommitment c m
      | .sound => match soundCommit N c s m with
        | some m' => newBlockCommitment c m'
        | none => (.rej, c)
    else (.rej, c)

def run (v : Variant) (N : Nat) (c : Cand) : List Delivery → Cand
  | [] => c
  | d :: r => run v N (deliver v N c d).2 r

/-! ### `getCommitConsensus` -/

def insertNew (l : List Nat) (x : Nat) : List Nat := if l.contains x then l else l ++ [x]

/-- signer set of one commit message: the committer and every claimed endorser -/
def Commit.signers (c : Commit) : List Nat := c.committer :: c.endorsers.map (·.1)

def bumpSet (sc : Nat → List Nat) (p : Nat) (xs : List Nat) : Nat → List Nat :=
  fun k => if k = p then xs.foldl insertNew (sc p) else sc k

/-- left-hand side of the test: `.asShipped` adds one for the proposer unconditionally; `.sound` counts it once -/
def gccCount (v : Variant) (p : Nat) (signers : List Nat) : Nat :=
  match v with
  | .asShipped => commitConsensus_lhs signers.length
  | .sound => (insertNew signers p).length

def gccLoop (v : Variant) (N : Nat) : List Commit → (emptyCommitCount : Nat) → (emptyCommit : Bool) → (C : Nat) →
    (signCount : Nat → List Nat) → Nat × Bool
  | [], _, _, _, _ => (maxU32, false)
  | c :: r, ecc, ec, C, sc =>
    let ecc1 := if c.forEmpty then ecc + 1 else ecc
    let hit := c.forEmpty && decide (ecc1 > C) && !ec
    let C1 := if hit then C + 1 else C
    let ec1 := ec || hit
    let sc1 := bumpSet sc c.proposer c.signers
    if gccCount v c.proposer (sc1 c.proposer) ≥ commitConsensus_q N then (c.proposer, ec1)
    else gccLoop v N r ecc1 ec1 C1 sc1

def getCommitConsensus (v : Variant) (msgs : List Commit) (C N : Nat) : Nat × Bool :=
  gccLoop v N msgs 0 false C (fun _ => [])

/-! ### `isEndorser` (all peers `< N` are connected and active in the harness' minimal Server) -/
def isEndorserLoop (N C idx : Nat) : List Nat → Nat → Bool
  | [], _ => false
  | id :: r, activeN =>
    if id = idx then true
    else if id < N then (if activeN + 1 > C * 2 then false else isEndorserLoop N C idx r (activeN + 1))
    else isEndorserLoop N C idx r activeN

def isEndorser (N C : Nat) (endorsers : List Nat) (idx : Nat) : Bool := isEndorserLoop N C idx endorsers 0

/-! ### `commitDone` -/

def bump (cnt : Nat → Nat) (p : Nat) : Nat → Nat := fun k => if k = p then cnt p + 1 else cnt k

/-- inner loop of the signature-count path over the sigs of one endorser:
`(emptyCnt, endorseCnt, some p)` when the loop `break`s with `proposer = p` -/
def cdInner (thr : Nat) : List ESig → Nat → (Nat → Nat) → Nat × (Nat → Nat) × Option Nat
  | [], ec, cnt => (ec, cnt, none)
  | s :: r, ec, cnt =>
    if s.forEmpty then cdInner thr r (ec + 1) cnt
    else
      let cnt' := bump cnt s.proposer
      if cnt' s.proposer > thr then (ec, cnt', some s.proposer) else cdInner thr r ec cnt'

/-- outer loop over the map entries in iteration order -/
def cdOuter (isEnd : Nat → Bool) (thr : Nat) : List (Nat × List ESig) → Nat → (Nat → Nat) → Bool → Nat × Bool
  | [], _, _, _ => (maxU32, false)
  | (e, sigs) :: r, ec, cnt, fe =>
    let ec1 := if !isEnd e then ec + (sigs.filter (·.forEmpty)).length else ec
    match cdInner thr sigs ec1 cnt with
    | (ec2, cnt2, some p) =>
      let fe' := if !fe then decide (ec2 > thr) else fe
      if p != maxU32 then (p, fe') else cdOuter isEnd thr r ec2 cnt2 fe'
    | (ec2, cnt2, none) => cdOuter isEnd thr r ec2 cnt2 fe

/-- the map entries in the order in which a `for … range` visits them -/
def visit {β} (m : List (Nat × β)) (order : List Nat) : List (Nat × β) :=
  order.filterMap (fun k => (lookup k m).map (fun v => (k, v)))

/-- `commitDone(blkNum, C, N)`: `(proposer, forEmpty, done)` -/
def commitDone (v : Variant) (N Csrv : Nat) (endorsers : List Nat) (c : Cand) (order : List Nat) (C : Nat) : Nat × Bool × Bool :=
  let (proposer, forEmpty) := getCommitConsensus v c.commitMsgs C N
  let (proposer, forEmpty) :=
    if proposer == maxU32 then
      cdOuter (isEndorser N Csrv endorsers) (commitDone_C N) (visit c.endorseSigs order) 0 (fun _ => 0) forEmpty
    else (proposer, forEmpty)
  if proposer != maxU32 then (proposer, forEmpty, true) else (maxU32, false, false)

/-! ### `endorseDone` -/
def edInner (C : Nat) : List ESig → Nat → (Nat → Nat) → Nat × (Nat → Nat) × Option (Nat × Bool)
  | [], ec, cnt => (ec, cnt, none)
  | s :: r, ec, cnt =>
    if s.forEmpty then
      if ec + 1 > C then (ec + 1, cnt, some (s.proposer, true)) else edInner C r (ec + 1) cnt
    else
      let cnt' := bump cnt s.proposer
      if cnt' s.proposer > C then (ec, cnt', some (s.proposer, false)) else edInner C r ec cnt'

def edOuter (C : Nat) : List (Nat × List ESig) → Nat → (Nat → Nat) → Nat × Bool × Bool
  | [], _, _ => (maxU32, false, false)
  | (_, sigs) :: r, ec, cnt =>
    match edInner C sigs ec cnt with
    | (_, _, some (p, fe)) => (p, fe, true)
    | (ec2, cnt2, none) => edOuter C r ec2 cnt2

/-- `endorseDone(blkNum, C)`; note that unlike `commitDone` the result is returned as is (a proposer `MaxUint32` is
reported with `done = true`) -/
def endorseDone (c : Cand) (order : List Nat) (C : Nat) : Nat × Bool × Bool :=
  if c.endorseSigs.length < endorseDone_min C then (maxU32, false, false)
  else edOuter C (visit c.endorseSigs order) 0 (fun _ => 0)

/-! ### ghost: which peers have a genuine signature for proposer `p` in the pool -/

/-- `s` is a signature of peer `i` over the hash of a block (or empty block, as `fe` says) proposed by `p` -/
def genuineSig (i p : Nat) (fe : Bool) (s : Sig) : Bool :=
  match s with
  | .valid k h => k == i && isBlockHashOf p fe h
  | .junk _ => false

/-- peer `i < N` has a genuine signature for `p` somewhere in the candidate state -/
def genuineFor (N : Nat) (c : Cand) (p i : Nat) : Bool :=
  decide (i < N) &&
  ( (match lookup i c.endorseSigs with
     | some sigs => sigs.any (fun e => e.proposer == p && genuineSig i p e.forEmpty e.sig)
     | none => false)
  || c.commitMsgs.any (fun m => m.proposer == p &&
        ( (m.committer == i && genuineSig i p m.forEmpty m.sig)
        || m.endorsers.any (fun e => e.1 == i && genuineSig i p m.forEmpty e.2)
        || (i == p && genuineSig p p m.forEmpty m.psig)))
  || (i == p && c.proposals.any (fun pr => pr.proposer == p && genuineSig p p false pr.sig)) )

/-- version of the proposal of `p` stored in the pool -/
def storedVer (c : Cand) (p : Nat) : Option Nat := (c.proposals.find? (·.proposer == p)).map (·.ver)

/-- the signature `s` occurs somewhere in the candidate state (where `genuineFor` looks) -/
def sigOccurs (c : Cand) (s : Sig) : Bool :=
  c.endorseSigs.any (fun x => x.2.any (fun e => e.sig == s))
  || c.commitMsgs.any (fun m => m.sig == s || m.psig == s || m.endorsers.any (fun e => e.2 == s))
  || c.proposals.any (fun pr => pr.sig == s)

/-- number of distinct consensus peers with a genuine signature for `p` in the pool -/
def genuineCount (N : Nat) (c : Cand) (p : Nat) : Nat := ((List.range N).filter (genuineFor N c p)).length

end OntVerif.Model.BlockPool
