import OntVerif.Model.Codec
/-!
# `ZeroCopySink` with its backing memory (`common/zero_copy_sink.go`)

`Model/Codec.lean` models the writers as *pure appends* of a byte list: `writeUintN`, `writeBool`, `writeVarUint`,
`writeVarBytes` return the bytes a writer contributes, and a write script is their concatenation. That says nothing
about *where* the bytes land. This file models the buffer management of the sink as written:

* a sink is its backing array (`mem` = `buf[:cap(buf)]`, old contents included) and the visible length `len(buf)`;
* `NextBytes(n)` reslices when the capacity allows it — exposing whatever bytes are there — and otherwise allocates
  `2*cap + n` zero bytes and copies the visible part (`grow`);
* every `Write*` obtains its region through `NextBytes` and stores into it; `WriteVarUint` obtains 9 bytes, stores
  1/3/5/9 and backs up over the rest; `BackUp(n)` and `Reset()` only move the length.

`Props/C18.lean : C18_sink_memory_independent` proves that the visible bytes after any op sequence (writes, `BackUp`,
`Reset`) are those of the pure model, whatever the backing memory held — the harness runs the real sink over dirty
memory (reused after `Reset`, caller buffer with spare capacity, after `BackUp`) against this model.
-/
namespace OntVerif.Model.Sink
open OntVerif.Util OntVerif.Model.Codec

structure Sink where
  mem : Bytes      -- buf[:cap(buf)]
  len : Nat        -- len(buf)
  deriving Repr, DecidableEq

def Sink.wf (s : Sink) : Prop := s.len ≤ s.mem.length
/-- `Bytes()` -/
def Sink.bytes (s : Sink) : Bytes := s.mem.take s.len
def Sink.cap (s : Sink) : Nat := s.mem.length

/-- `NextBytes(n)`: index of the region and the sink after `tryGrowByReslice` / `grow`.
(`ErrTooLarge` for capacities near 2^63 is not modelled.) -/
def alloc (s : Sink) (n : Nat) : Nat × Sink :=
  if n ≤ s.cap - s.len then (s.len, { s with len := s.len + n })
  else
    -- buf := makeSlice(2*c + n); copy(buf, self.buf); self.buf = buf[:l+n]
    (s.len, { mem := s.mem.take s.len ++ List.replicate (2 * s.cap + n - s.len) 0, len := s.len + n })

/-- assignments `region[0..d.length) = d` where `region = buf[at:]` -/
def store (s : Sink) (at_ : Nat) (d : Bytes) : Sink :=
  { s with mem := s.mem.take at_ ++ d ++ s.mem.drop (at_ + d.length) }

/-- `BackUp(n)`: `buf = buf[:len-n]`; `none` = slice bounds panic -/
def backUp (s : Sink) (n : Nat) : Option Sink :=
  if n ≤ s.len then some { s with len := s.len - n } else none

/-- `Reset()` -/
def reset (s : Sink) : Sink := { s with len := 0 }

/-- `WriteBytes(p)`: `data := NextBytes(len(p)); copy(data, p)`; also `WriteUint8/16/32/64` (`NextBytes(k)` + `buf[0] = …` /
`PutUintK`), `WriteAddress/Hash/I128` (delegate to `WriteBytes`) -/
def writeRaw (s : Sink) (d : Bytes) : Sink :=
  let (m, s1) := alloc s d.length
  store s1 m d

/-- `WriteBool` → `WriteByte` → `WriteUint8` -/
def writeBoolS (s : Sink) (b : Bool) : Sink := if b then writeRaw s [1] else writeRaw s [0]

/-- `WriteVarUint`: `buf := NextBytes(9)`; the prefix byte and the payload are stored; `BackUp(9 - size)` -/
def writeVarUintS (s : Sink) (v : Nat) : Option Sink :=
  let (m, s1) := alloc s 9
  let d := writeVarUint v
  backUp (store s1 m d) (9 - d.length)

inductive Op
  | u8 (v : Nat) | u16 (v : Nat) | u32 (v : Nat) | u64 (v : Nat)
  | bool (b : Bool) | varuint (v : Nat) | varbytes (d : Bytes) | bytes (d : Bytes)
  | backup (n : Nat) | reset
  deriving Repr, DecidableEq

/-- one operation on the sink with memory; `none` = Go panic (`BackUp` beyond the start) -/
def stepMem (s : Sink) : Op → Option Sink
  | .u8 v => some (writeRaw s (writeUintN 1 v))
  | .u16 v => some (writeRaw s (writeUintN 2 v))
  | .u32 v => some (writeRaw s (writeUintN 4 v))
  | .u64 v => some (writeRaw s (writeUintN 8 v))
  | .bool b => some (writeBoolS s b)
  | .varuint v => writeVarUintS s v
  | .varbytes d => (writeVarUintS s d.length).map (fun s1 => writeRaw s1 d)   -- WriteVarUint(l); WriteBytes(data)
  | .bytes d => some (writeRaw s d)
  | .backup n => backUp s n
  | .reset => some (reset s)

def runMem (s : Sink) : List Op → Option Sink
  | [] => some s
  | op :: r => match stepMem s op with
    | none => none
    | some s1 => runMem s1 r

/-! the pure model of `Model/Codec.lean` extended by the two length operations -/

/-- the bytes a write contributes (`Model/Codec` writers) -/
def Op.data : Op → Bytes
  | .u8 v => writeUintN 1 v | .u16 v => writeUintN 2 v | .u32 v => writeUintN 4 v | .u64 v => writeUintN 8 v
  | .bool b => writeBool b | .varuint v => writeVarUint v | .varbytes d => writeVarBytes d | .bytes d => d
  | .backup _ => [] | .reset => []

def stepPure (out : Bytes) : Op → Option Bytes
  | .backup n => if n ≤ out.length then some (out.take (out.length - n)) else none
  | .reset => some []
  | op => some (out ++ op.data)

def runPure (out : Bytes) : List Op → Option Bytes
  | [] => some out
  | op :: r => match stepPure out op with
    | none => none
    | some o => runPure o r

end OntVerif.Model.Sink
