import OntVerif.Model.Tx
/-!
# Model of the transaction signature check (C16) and of the two signer-set derivations (C17)

Mirrors, branch by branch and in the order of the Go code:

* `core/program/program.go`: `programParser.ReadBytes / ReadNum / ReadPubKey`, `GetProgramInfo`, `GetParamInfo`,
  `ProgramBuilder.PushBytes / PushNum`, `ProgramFromPubKey`, `ProgramFromMultiPubKey` (only what the validator uses;
  the full builder/parser round trip is C23's `Model/Program.lean`);
* `core/signature/signature.go`: `Verify`, `VerifyMultiSignature` (greedy match of the first `m` signatures against
  not-yet-masked key **indexes**);
* `core/types/address.go`: `AddressFromPubKey`, `AddressFromMultiPubKeys`;
* `core/validation/transaction_validator.go`: `checkTransactionSignatures`, `checkTransactionPayload`, `VerifyTransaction`;
* `core/types/transaction.go`: `RawSig.GetSig`, `Transaction.GetSignatureAddresses` (fallback derivation).

Cryptography is abstract (`Crypto`): key parsing / serialisation / ordering, signature parsing, `verify`, the address
hash `h160 = ripemd160 ∘ sha256`, the transaction hash `H`.  `verify` has three outcomes because the library call
`s.Verify` can panic (the repaired `signature.verify` wrapper of /repo turns that into a failed verification, `guarded`): slice bounds for an Ethereum-type key and a `KECCAK256WithECDSA` signature shorter than 64 bytes;
`crypto/elliptic: CombinedMult was called on an invalid point` for an uncompressed NIST-curve key that is not on the
curve (`ec.DecodePublicKey` does not check) and an `SM3withSM2` signature.

Executable, core-only, structural recursion only (loops carry fuel; `Proofs/SigCheck.lean` shows the fuel is never
exhausted), so that `decide` can evaluate concrete witnesses.
-/
namespace OntVerif.Model.SigCheck
open OntVerif.Util OntVerif.Model.Tx

abbrev Addr := Bytes

def MULTI_SIG_MAX_PUBKEY_SIZE : Nat := 16

/-- outcome of the library call `s.Verify(key, msg, sig)` -/
inductive VRes | ok | bad | panic
  deriving DecidableEq, Repr

/-- the cryptographic library as seen by the validator, except signature verification and the transaction hash -/
structure Lib (Key Sig : Type) where
  parseKey : Bytes → Option Key            -- keypair.DeserializePublicKey
  serKey : Key → Bytes                     -- keypair.SerializePublicKey
  keyLt : Key → Key → Bool                 -- publicKeyList.Less (keypair.SortPublicKeys)
  ethAddr : Key → Option Addr              -- GetEthereumPubKey + crypto.PubkeyToAddress; none = not Ethereum-type
  parseSig : Bytes → Option Sig            -- s.Deserialize
  h160 : Bytes → Addr                      -- common.AddressFromVmCode

structure Crypto (Key Sig : Type) extends Lib Key Sig where
  verify : Key → Bytes → Sig → VRes        -- s.Verify
  H : Bytes → Bytes                        -- sha256 ∘ sha256

inductive Variant | asShipped | sound
  deriving DecidableEq, Repr

/-- which of the recorded defects are repaired -/
structure Cfg where
  dupKeys : Variant      -- .sound: a verification script that lists a key twice is rejected
  fallback : Variant     -- .sound: `GetSignatureAddresses` derives addresses like the validator
  deriving DecidableEq, Repr

def Cfg.asShipped : Cfg := ⟨.asShipped, .asShipped⟩
def Cfg.sound : Cfg := ⟨.sound, .sound⟩

inductive Verdict (α : Type) where
  | ok (a : α)
  | reject
  | panic
  deriving DecidableEq, Repr

/-! ## program.go: parser -/

def leNat : Bytes → Nat
  | [] => 0
  | b :: r => b.toNat + 256 * leNat r

def beNat (bs : Bytes) : Nat := bs.foldl (fun acc b => acc * 256 + b.toNat) 0

/-- `source.NextBytes(n)`: eof when fewer than `n` bytes remain -/
def takeBytes (n : Nat) (r : Bytes) : Option (Bytes × Bytes) :=
  if r.length < n then none else some (r.take n, r.drop n)

/-- `programParser.ReadBytes` on the remaining bytes; `none` = any error -/
def readBytes : Bytes → Option (Bytes × Bytes)
  | [] => none
  | c :: r =>
    if c = 0x4E then
      match r with
      | b0 :: b1 :: b2 :: b3 :: r' => takeBytes (leNat [b0, b1, b2, b3]) r'
      | _ => none
    else if c = 0x4D then
      match r with
      | b0 :: b1 :: r' => takeBytes (leNat [b0, b1]) r'
      | _ => none
    else if c = 0x4C then
      match r with
      | b0 :: r' => takeBytes b0.toNat r'
      | _ => none
    else if 1 ≤ c.toNat ∧ c.toNat ≤ 0x4B then takeBytes c.toNat r
    else none

/-- `common.BigIntFromNeoBytes`: little-endian two's complement -/
def neoInt (b : Bytes) : Int :=
  let v : Nat := leNat b
  if b.length = 0 then 0
  else if v < 2 ^ (8 * b.length - 1) then (v : Int) else (v : Int) - ((2 ^ (8 * b.length) : Nat) : Int)

/-- `(*big.Int).Int64()`: low 64 bits of the magnitude, sign applied with wrap-around -/
def int64Of (x : Int) : Int :=
  let lo : Nat := x.natAbs % 2 ^ 64
  let s : Int := if lo < 2 ^ 63 then (lo : Int) else (lo : Int) - ((2 ^ 64 : Nat) : Int)
  if x < 0 then (if lo = 2 ^ 63 then s else -s) else s

/-- `programParser.ReadNum` -/
def readNum : Bytes → Option (Nat × Bytes)
  | [] => none
  | c :: r =>
    if c = 0x00 then some (0, r)
    else if 0x51 ≤ c.toNat ∧ c.toNat ≤ 0x60 then some (c.toNat - 0x50, r)
    else match readBytes (c :: r) with
      | none => none
      | some (buf, r') =>
        let num := int64Of (neoInt buf)
        if num > 65535 ∨ num ≤ 16 then none else some (num.toNat, r')

/-- `for i := 0; i < int(m); i++ { key, err := parser.ReadPubKey() … }` -/
def readKeys {Key Sig : Type} (C : Lib Key Sig) : Nat → Bytes → Option (List Key × Bytes)
  | 0, r => some ([], r)
  | n + 1, r =>
    match readBytes r with
    | none => none
    | some (d, r') =>
      match C.parseKey d with
      | none => none
      | some k =>
        match readKeys C n r' with
        | none => none
        | some (ks, r'') => some (k :: ks, r'')

/-- `common.BigIntToNeoBytes(big.NewInt(num))` for `0 ≤ num ≤ 16` -/
def smallNeoBytes (num : Nat) : Bytes := if num = 0 then [] else [UInt8.ofNat num]

/-- the `for { code := PeekOpCode … }` loop of `GetProgramInfo`; returns the buffers and what follows CHECKMULTISIG -/
def bufLoop : Nat → Bytes → List Bytes → Option (List Bytes × Bytes)
  | 0, _, _ => none
  | _ + 1, [], _ => none
  | f + 1, c :: r, acc =>
    if c = 0xAE then some (acc.reverse, r)
    else if c = 0x00 then bufLoop f r (smallNeoBytes 0 :: acc)
    else if 0x51 ≤ c.toNat ∧ c.toNat ≤ 0x60 then bufLoop f r (smallNeoBytes (c.toNat - 0x50) :: acc)
    else match readBytes (c :: r) with
      | none => none
      | some (b, r') => bufLoop f r' (b :: acc)

def parseKeys {Key Sig : Type} (C : Lib Key Sig) : List Bytes → Option (List Key)
  | [] => some []
  | b :: r =>
    match C.parseKey b with
    | none => none
    | some k =>
      match parseKeys C r with
      | none => none
      | some ks => some (k :: ks)

/-- `program.GetProgramInfo`: `(M, PubKeys)`; `none` = any error -/
def getProgramInfo {Key Sig : Type} (C : Lib Key Sig) (prog : Bytes) : Option (Nat × List Key) :=
  if prog.length ≤ 2 then none
  else match prog.getLast? with
    | none => none
    | some e =>
      if e = 0xAC then
        match readBytes prog.dropLast with
        | some (d, rest) =>
          match C.parseKey d with
          | none => none
          | some k => if rest.length ≠ 0 then none else some (1, [k])
        | none => none
      else if e = 0xAE then
        match readNum prog with
        | none => none
        | some (m, r1) =>
          match readKeys C m r1 with
          | none => none
          | some (ks1, r2) =>
            match bufLoop (r2.length + 1) r2 [] with
            | none => none
            | some (bufs, rest) =>
              if rest.length ≠ 0 then none
              else match bufs.getLast? with
                | none => none
                | some last =>
                  let n := beNat last % 2 ^ 64
                  match parseKeys C bufs.dropLast with
                  | none => none
                  | some ks2 =>
                    let ks := ks1 ++ ks2
                    if ks.length ≠ n then none
                    else if 1 ≤ m ∧ m ≤ n ∧ 1 < n ∧ n ≤ MULTI_SIG_MAX_PUBKEY_SIZE then some (m, ks)
                    else none
      else none

def paramLoop : Nat → Bytes → Option (List Bytes)
  | 0, _ => none
  | _ + 1, [] => some []
  | f + 1, c :: r =>
    match readBytes (c :: r) with
    | none => none
    | some (d, r') =>
      match paramLoop f r' with
      | none => none
      | some ds => some (d :: ds)

/-- `program.GetParamInfo` -/
def getParamInfo (prog : Bytes) : Option (List Bytes) := paramLoop (prog.length + 1) prog

/-! ## program.go: builder (`none` = the `panic("push data error")` of `PushBytes`) -/

def leBytes : Nat → Nat → Bytes
  | 0, _ => []
  | k + 1, v => UInt8.ofNat (v % 256) :: leBytes k (v / 256)

def pushBytes (d : Bytes) : Option Bytes :=
  if d.length = 0 then none
  else if d.length ≤ 0x4B then some (UInt8.ofNat d.length :: d)
  else if d.length < 0x100 then some (0x4C :: UInt8.ofNat d.length :: d)
  else if d.length < 0x10000 then some (0x4D :: (leBytes 2 d.length ++ d))
  else some (0x4E :: (leBytes 4 (d.length % 2 ^ 32) ++ d))

/-- `common.BigIntToNeoBytes(big.NewInt(num))` for `0 < num < 2^16` -/
def neoBytesU16 (num : Nat) : Bytes :=
  let bs := if num < 256 then [UInt8.ofNat num] else leBytes 2 num
  if (if num < 256 then num else num / 256) < 128 then bs else bs ++ [0]

/-- `PushNum(num uint16)` -/
def pushNum (num : Nat) : Option Bytes :=
  if num = 0 then some [0x00]
  else if num ≤ 16 then some [UInt8.ofNat (num + 0x50)]
  else pushBytes (neoBytesU16 num)

/-- `ProgramFromPubKey` -/
def progFromKeyBytes (kb : Bytes) : Option Bytes := (pushBytes kb).map (· ++ [0xAC])

def pushAll : List Bytes → Option Bytes
  | [] => some []
  | d :: r =>
    match pushBytes d, pushAll r with
    | some a, some b => some (a ++ b)
    | _, _ => none

/-- insertion sort by `Less` (ties of `Less` are identical keys, so stability does not matter) -/
def insertKey {Key : Type} (lt : Key → Key → Bool) (k : Key) : List Key → List Key
  | [] => [k]
  | x :: r => if lt k x then k :: x :: r else x :: insertKey lt k r

def sortKeys {Key : Type} (lt : Key → Key → Bool) : List Key → List Key
  | [] => []
  | k :: r => insertKey lt k (sortKeys lt r)

/-- the bytes written by `EncodeMultiPubKeyProgramInto` for already ordered serialized keys -/
def multiProg (m : Nat) (kbs : List Bytes) : Option Bytes :=
  match pushNum m, pushAll kbs, pushNum kbs.length with
  | some a, some b, some c => some (a ++ b ++ c ++ [0xAE])
  | _, _, _ => none

/-- `AddressFromPubKey` -/
def addrOfKey {Key Sig : Type} (C : Lib Key Sig) (k : Key) : Verdict Addr :=
  match C.ethAddr k with
  | some a => .ok a
  | none =>
    match progFromKeyBytes (C.serKey k) with
    | some p => .ok (C.h160 p)
    | none => .panic

/-- `AddressFromMultiPubKeys` -/
def addrOfMulti {Key Sig : Type} (C : Lib Key Sig) (keys : List Key) (m : Nat) : Verdict Addr :=
  let n := keys.length
  if ¬ (1 ≤ m ∧ m ≤ n ∧ 1 < n ∧ n ≤ MULTI_SIG_MAX_PUBKEY_SIZE) then .reject
  else match multiProg m ((sortKeys C.keyLt keys).map C.serKey) with
    | some p => .ok (C.h160 p)
    | none => .panic

/-- the account of a parsed signature set, as the validator derives it -/
def setAddr {Key Sig : Type} (C : Lib Key Sig) (keys : List Key) (m : Nat) : Verdict Addr :=
  match keys with
  | [k] => addrOfKey C k
  | _ => addrOfMulti C keys m

/-! ## signature.go -/

/-- the unexported `verify` wrapper of `core/signature/signature.go` (length check for Ethereum-type keys +
`recover`): a panic of the library call `s.Verify` counts as a failed verification -/
def guarded (r : VRes) : VRes :=
  match r with
  | .panic => .bad
  | r => r

/-- `signature.Verify` -/
def verifyOne {Key Sig : Type} (C : Lib Key Sig) (vf : Key → Sig → VRes) (k : Key) (raw : Bytes) : Verdict Unit :=
  match C.parseSig raw with
  | none => .reject
  | some s =>
    match vf k s with
    | .ok => .ok ()
    | .bad => .reject
    | .panic => .panic

inductive Find | found (j : Nat) | none | panic
  deriving DecidableEq, Repr

/-- inner loop of `VerifyMultiSignature`: first index `j` with `!mask[j] && s.Verify(keys[j], data, sig)` -/
def findIdx {Key : Type} (vf : Key → VRes) : List Key → List Bool → Nat → Find
  | k :: ks, b :: bs, j =>
    if b then findIdx vf ks bs (j + 1)
    else match vf k with
      | .ok => .found j
      | .bad => findIdx vf ks bs (j + 1)
      | .panic => .panic
  | _, _, _ => .none

/-- outer loop of `VerifyMultiSignature`, `i = 0 … m-1` -/
def vmsLoop {Key Sig : Type} (C : Lib Key Sig) (vf : Key → Sig → VRes) (keys : List Key) :
    Nat → List Bytes → List Bool → Verdict Unit
  | 0, _, _ => .ok ()
  | _ + 1, [], _ => .panic                      -- `sigs[i]` out of range; excluded by the length check
  | m + 1, raw :: rest, mask =>
    match C.parseSig raw with
    | none => .reject
    | some s =>
      match findIdx (fun k => vf k s) keys mask 0 with
      | .found j => vmsLoop C vf keys m rest (mask.set j true)
      | .none => .reject
      | .panic => .panic

/-- `signature.VerifyMultiSignature(data, keys, m, sigs)` -/
def verifyMulti {Key Sig : Type} (C : Lib Key Sig) (vf : Key → Sig → VRes) (keys : List Key) (m : Nat)
    (sigs : List Bytes) : Verdict Unit :=
  if sigs.length < m then .reject
  else vmsLoop C vf keys m sigs (List.replicate keys.length false)

/-! ## transaction_validator.go -/

/-- the parsed signature set: `RawSig.GetSig` (`GetParamInfo` first, then `GetProgramInfo`) -/
def getSig {Key Sig : Type} (C : Lib Key Sig) (rs : Bytes × Bytes) : Option (List Bytes × Nat × List Key) :=
  match getParamInfo rs.1 with
  | none => none
  | some sigs =>
    match getProgramInfo C rs.2 with
    | none => none
    | some (m, keys) => some (sigs, m, keys)

/-- one iteration of the loop over `tx.Sigs`; `vf k s = s.Verify(k, hash, s)` -/
def checkSigSet {Key Sig : Type} [DecidableEq Key] (cfg : Cfg) (C : Lib Key Sig) (vf : Key → Sig → VRes)
    (rs : Bytes × Bytes) : Verdict Addr :=
  match getSig C rs with
  | none => .reject
  | some (sigs, m, keys) =>
    if keys.length > MULTI_SIG_MAX_PUBKEY_SIZE ∨ sigs.length < m ∨ m > keys.length ∨ m ≤ 0 then .reject
    else if cfg.dupKeys = .sound ∧ ¬ keys.Nodup then .reject
    else match keys with
      | [k] =>
        match sigs with
        | [] => .panic                           -- `sig.SigData[0]`; excluded by `sn < m`, `m ≥ 1`
        | raw :: _ =>
          match verifyOne C vf k raw with
          | .ok _ => addrOfKey C k
          | .reject => .reject
          | .panic => .panic
      | _ =>
        match verifyMulti C vf keys m sigs with
        | .ok _ => addrOfMulti C keys m
        | .reject => .reject
        | .panic => .panic

def checkAll {Key Sig : Type} [DecidableEq Key] (cfg : Cfg) (C : Lib Key Sig) (vf : Key → Sig → VRes) :
    List (Bytes × Bytes) → Verdict (List Addr)
  | [] => .ok []
  | rs :: rest =>
    match checkSigSet cfg C vf rs with
    | .ok a =>
      match checkAll cfg C vf rest with
      | .ok as => .ok (a :: as)
      | .reject => .reject
      | .panic => .panic
    | .reject => .reject
    | .panic => .panic

/-- the message every `s.Verify` call of the validator receives -/
def txMsg {Key Sig : Type} (C : Crypto Key Sig) (tx : Tx) : Bytes := C.H tx.hashInput

/-- `checkTransactionSignatures` on an Ontology-format transaction, parametrised by the verification function.
`.ok addrs`: accepted, `addrs` is (a list representation of) the key set of the `address` map = `tx.SignedAddr`. -/
def checkSigsWith {Key Sig : Type} [DecidableEq Key] (cfg : Cfg) (C : Lib Key Sig) (vf : Key → Sig → VRes)
    (tx : Tx) : Verdict (List Addr) :=
  if tx.sigs.length > TX_MAX_SIG_SIZE then .reject
  else match checkAll cfg C vf tx.sigs with
    | .ok addrs => if tx.payer ∈ addrs then .ok addrs else .reject
    | .reject => .reject
    | .panic => .panic

/-- `s.Verify(key, tx.Hash(), sig)` as configured: the one verification function the validator uses for `tx` -/
def verifier {Key Sig : Type} (C : Crypto Key Sig) (tx : Tx) : Key → Sig → VRes :=
  fun k s => guarded (C.verify k (txMsg C tx) s)

/-- the accounts derived from the signature sets (the `address` map before the payer check) -/
def derived {Key Sig : Type} [DecidableEq Key] (cfg : Cfg) (C : Crypto Key Sig) (tx : Tx) : Verdict (List Addr) :=
  checkAll cfg C.toLib (verifier C tx) tx.sigs

def checkSigs {Key Sig : Type} [DecidableEq Key] (cfg : Cfg) (C : Crypto Key Sig) (tx : Tx) : Verdict (List Addr) :=
  checkSigsWith cfg C.toLib (verifier C tx) tx

inductive Code | noError | verifySignature | transactionPayload | panic
  deriving DecidableEq, Repr

/-- `checkTransactionPayload`; `wasmOK code` = `wasmvm.ReadWasmModule(code, …)` succeeds -/
def payloadOK (wasmOK : Bytes → Bool) : Payload → Bool
  | .deploy code vm _ _ _ _ _ => if vm = 3 then wasmOK code else true
  | .invoke _ => true
  | .eip _ => true

/-- `validation.VerifyTransaction` for Ontology-format transactions -/
def verifyTransaction {Key Sig : Type} [DecidableEq Key] (cfg : Cfg) (C : Crypto Key Sig) (wasmOK : Bytes → Bool)
    (tx : Tx) : Code × List Addr :=
  match checkSigs cfg C tx with
  | .reject => (.verifySignature, [])
  | .panic => (.panic, [])
  | .ok addrs => if payloadOK wasmOK tx.payload then (.noError, addrs) else (.transactionPayload, addrs)

/-! ## Signer sets (C17) -/

/-- `Transaction.GetSignatureAddresses` when `SignedAddr` is empty: one address per signature set, in order.
`.asShipped`: hash of the raw verification script.  `.sound`: derived from the parsed script exactly as the
validator does; a script the validator cannot parse keeps the raw-script hash. -/
def fallbackAddr {Key Sig : Type} (cfg : Cfg) (C : Lib Key Sig) (rs : Bytes × Bytes) : Addr :=
  match cfg.fallback with
  | .asShipped => C.h160 rs.2
  | .sound =>
    match getProgramInfo C rs.2 with
    | none => C.h160 rs.2
    | some (m, keys) =>
      match setAddr C keys m with
      | .ok a => a
      | _ => C.h160 rs.2

def fallback {Key Sig : Type} (cfg : Cfg) (C : Lib Key Sig) (tx : Tx) : List Addr :=
  tx.sigs.map (fallbackAddr cfg C)

/-- what contract code sees (`CheckWitness` → `GetSignatureAddresses`) on a node, depending on whether this
node's copy of the transaction went through the validator (`SignedAddr` set) or not -/
def seen {Key Sig : Type} [DecidableEq Key] (cfg : Cfg) (C : Crypto Key Sig) (validatedHere : Bool) (tx : Tx) :
    List Addr :=
  if validatedHere then
    match checkSigs cfg C tx with
    | .ok addrs => if addrs.length = 0 then fallback cfg C.toLib tx else addrs
    | _ => fallback cfg C.toLib tx
  else fallback cfg C.toLib tx


/-! ## The transaction as an object with state

`types.Transaction` carries the exported, lazily filled field `SignedAddr`: `GetSignatureAddresses()` fills it from
the raw verification scripts when it is empty (without verifying anything - the transaction pool calls that getter
*before* validation: `isSenderLimited(txn.GetSignatureAddresses())`), `checkTransactionSignatures` overwrites it on
success.  `Hash()` and `ToArray()` only read (`hash`, `Raw` are assigned once, at decoding time).
The validator must not take anything from that state: `checkSigsObj` receives it and reads only `o.tx`. -/

structure TxObj where
  tx : Tx
  signedAddr : List Addr        -- `tx.SignedAddr`; length 0 = not assigned
  deriving Repr, DecidableEq

/-- `Transaction.GetSignatureAddresses()`: result and new object state -/
def getSigAddrs {Key Sig : Type} (cfg : Cfg) (C : Lib Key Sig) (o : TxObj) : List Addr × TxObj :=
  if o.signedAddr.length = 0 then
    let fb := fallback cfg C o.tx
    (fb, { o with signedAddr := fb })
  else (o.signedAddr, o)

/-- `checkTransactionSignatures(tx)` on an object in any state: verdict and new state (`tx.SignedAddr = addrList`
only on success).  The pre-state `o.signedAddr` is an input that the code does not consult. -/
def checkSigsObj {Key Sig : Type} [DecidableEq Key] (cfg : Cfg) (C : Crypto Key Sig) (o : TxObj) :
    Verdict (List Addr) × TxObj :=
  match checkSigs cfg C o.tx with
  | .ok addrs => (.ok addrs, { o with signedAddr := addrs })
  | .reject => (.reject, o)
  | .panic => (.panic, o)

/-- `validation.VerifyTransaction(tx)` on an object in any state -/
def verifyObj {Key Sig : Type} [DecidableEq Key] (cfg : Cfg) (C : Crypto Key Sig) (wasmOK : Bytes → Bool)
    (o : TxObj) : Code × TxObj :=
  match checkSigsObj cfg C o with
  | (.reject, o') => (.verifySignature, o')
  | (.panic, o') => (.panic, o')
  | (.ok _, o') => if payloadOK wasmOK o.tx.payload then (.noError, o') else (.transactionPayload, o')

/-- a validator that trusts a non-empty `SignedAddr` ("already established by a previous pass") - NOT what the code
does; kept as the negative instance of `C16_accept_sound` -/
def checkSigsObjTrusting {Key Sig : Type} [DecidableEq Key] (cfg : Cfg) (C : Crypto Key Sig) (o : TxObj) :
    Verdict (List Addr) × TxObj :=
  if o.signedAddr.length ≠ 0 then (.ok o.signedAddr, o) else checkSigsObj cfg C o

/-- operations on the object that precede the final `VerifyTransaction` on an op line -/
inductive PreOp
  | getAddrs                    -- `tx.GetSignatureAddresses()`
  | verify                      -- `validation.VerifyTransaction(tx)`
  | hash                        -- `tx.Hash()`
  | toArray                     -- `tx.ToArray()`
  | setAddrs (as : List Addr)   -- direct assignment of the exported field
  deriving Repr, DecidableEq

/-- run one pre-operation; the `String`-free observable is a list of addresses / a code, rendered by the driver -/
inductive PreOut
  | addrs (as : List Addr)
  | code (c : Code) (signed : List Addr)
  | unit
  deriving Repr, DecidableEq

def runPre {Key Sig : Type} [DecidableEq Key] (cfg : Cfg) (C : Crypto Key Sig) (wasmOK : Bytes → Bool)
    (o : TxObj) : PreOp → PreOut × TxObj
  | .getAddrs => let (as, o') := getSigAddrs cfg C.toLib o; (.addrs as, o')
  | .verify => let (c, o') := verifyObj cfg C wasmOK o; (.code c o'.signedAddr, o')
  | .hash => (.unit, o)
  | .toArray => (.unit, o)
  | .setAddrs as => (.unit, { o with signedAddr := as })

def runPres {Key Sig : Type} [DecidableEq Key] (cfg : Cfg) (C : Crypto Key Sig) (wasmOK : Bytes → Bool) :
    TxObj → List PreOp → List PreOut × TxObj
  | o, [] => ([], o)
  | o, op :: r =>
    let (x, o1) := runPre cfg C wasmOK o op
    let (xs, o2) := runPres cfg C wasmOK o1 r
    (x :: xs, o2)

/-- same set of accounts -/
def sameSet (a b : List Addr) : Prop := ∀ x, x ∈ a ↔ x ∈ b

instance (a b : List Addr) : Decidable (sameSet a b) :=
  decidable_of_iff ((∀ x ∈ a, x ∈ b) ∧ (∀ x ∈ b, x ∈ a))
    ⟨fun h x => ⟨h.1 x, h.2 x⟩, fun h => ⟨fun x => (h x).1, fun x => (h x).2⟩⟩

/-- the verification script is what the builders would emit for the keys it parses to -/
def rebuilt {Key Sig : Type} (C : Lib Key Sig) (script : Bytes) : Option Bytes :=
  match getProgramInfo C script with
  | none => none
  | some (m, keys) =>
    match keys with
    | [k] => progFromKeyBytes (C.serKey k)
    | _ => multiProg m ((sortKeys C.keyLt keys).map C.serKey)

end OntVerif.Model.SigCheck
