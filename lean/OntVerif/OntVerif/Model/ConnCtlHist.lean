import OntVerif.Model.ConnCtl
/-!
# HISTORICAL step functions: `ConnectController` before commit 280bc886 ("reserve-slot") and before 471ac830

Not the code in the tree.  Kept only so that the refutation of C36 for the controller as it was shipped
(`beforeHandshakeCheck` … handshake … `savePeer` without reservation: check-then-act) stays a checked theorem about
an explicitly named function, next to what did hold for it (`C36_historical_sequential_partial`).  Same state space
and thread structure as `Model/ConnCtl.lean`; `pend` and `lock` are never written, the limit check counts established
connections only, `connecting` holds the dialled address and reserves no slot.  Nothing here is linked into the driver.
-/
namespace OntVerif.Model.ConnCtl

/-- `hasBoundAddr` before 280bc886 -/
def hasAddrHist (s : State) (a : Addr) : Bool := a ∈ s.bound .inb || a ∈ s.bound .outb || a ∈ s.listen

/-- `beforeHandshakeCheck` (after `checkReservedPeers`) before 280bc886 -/
def checkHist (s : State) (t : Thread) : Option Rej :=
  if hasAddrHist s t.addr then some .dup
  else if s.own = some t.addr then some .self
  else if (s.bound t.dir).length ≥ s.cfg.max t.dir then some .full
  else if t.dir = .inb ∧ cnt t.ip (s.bound .inb) ≥ s.cfg.maxIp then some .ipfull
  else none

/-- deferred `removeConnecting` -/
def releaseHist (s : State) (d : Dir) (a : Addr) : State :=
  match d with
  | .inb => s
  | .outb => { s with connecting := del a s.connecting }

def stepHistR (s : State) (i : Nat) : State × Res :=
  match s.threads[i]? with
  | none => (s, .idle)
  | some t =>
    let d := t.dir
    let a := t.addr
    match t.pc with
    | .start =>
      if rsvReject s.cfg t then (setPc s i t .closed, .rej .reserved)
      else match checkHist s t with
        | some r => (setPc s i t .closed, .rej r)
        | none => (setPc s i t .checked, .pass)
    | .checked =>
      match d with
      | .inb => (setPc s i t .handshaking, .chk)
      | .outb =>
        if a ∈ s.connecting then (setPc s i t .closed, .rej .connecting)
        else (setPc { s with connecting := ins a s.connecting } i t .handshaking, .chk)
    | .handshaking =>
      match t.fate with
      | .hsFail => (setPc (releaseHist s d a) i t .closed, .rej .hs)
      | .dialFail => (setPc (releaseHist s d a) i t .closed, .rej (if d = .outb then .dial else .hs))
      | .ok =>
        if t.pid = 0 then
          (setPc (releaseHist { s with own := some t.listenAddr } d a) i t .closed, .rej .hsself)
        else if peerIpMismatch s.peers t then
          (setPc (releaseHist s d a) i t .closed, .rej .peerip)
        else
          let cid := s.nextCid + 1
          let s1 : State := { s with
            bound := upd s.bound d (ins a)
            listen := if d = .inb then ins t.listenAddr s.listen else s.listen
            nextCid := cid
            peers := peersSet s.peers t.pid (cid, a) }
          (setThread (releaseHist s1 d a) i { t with pc := .saved, cid := cid }, .saved)
    | .saved =>
      let r := removePeer s t
      (setPc r.1 i t .closed, .closed r.2)
    | .closed => (s, .idle)

/-- the historical controller's step (pre-280bc886) -/
def stepHist (s : State) (i : Nat) : State := (stepHistR s i).1

def runHist (s : State) (sched : List Nat) : State := sched.foldl stepHist s

/-- connection attempts of direction `d` between their check and their `savePeer` / failure -/
def inFlight (s : State) (d : Dir) : Nat :=
  (s.threads.filter (fun t => t.dir = d ∧ (t.pc = .checked ∨ t.pc = .handshaking))).length

def inFlightIp (s : State) (ip : Ip) : Nat :=
  (s.threads.filter (fun t => t.dir = .inb ∧ t.ip = ip ∧ (t.pc = .checked ∨ t.pc = .handshaking))).length

/-- no two attempts of one direction are between check and save at the same time -/
def NoOverlap (s : State) : Prop := ∀ d, inFlight s d ≤ 1

/-- `NoOverlap` holds after every step of the schedule (what a sequential test exercises) -/
def NoOverlapRunHist : State → List Nat → Prop
  | _, [] => True
  | s, i :: r => NoOverlap (stepHist s i) ∧ NoOverlapRunHist (stepHist s i) r

/-! ## The controller between 280bc886 and 471ac830: every `Close()` of a `Conn` ran `removePeer` -/

/-- the current step, except that a repeated `Close()` of a stale handle removes `conn.addr` from the address set
again (only the `peers` entry was guarded by `connectId`) -/
def stepStaleHist (s : State) (i : Nat) : State :=
  if staleStep s i then
    match s.threads[i]? with
    | some t => (removePeer s t).1
    | none => s
  else step s i

def runStaleHist (s : State) (sched : List Nat) : State := sched.foldl stepStaleHist s

/-- the schedule never closes a `Conn` twice -/
def StaleFreeRun : State → List Nat → Prop
  | _, [] => True
  | s, i :: r => staleStep s i = false ∧ StaleFreeRun (step s i) r

end OntVerif.Model.ConnCtl
