import OntVerif.Util.Hex
/-!
# Model of the layered key/value storage

Mirrors (executable, core-only):

* `core/store/overlaydb/memdb.go`   — `MemDB`: the skip list is a strictly sorted association list
  (`findGE` = linear walk), a deletion is a `Put` of the empty value (tombstone), `ForEach` = the list;
  `dbIter` over a `util.Range` = `Leaf` over `MemDB.slice` (`findGE(start)` then stop at `limit`);
* `core/store/overlaydb/overlaydb.go` — `Overlay` (`Get`, `Put`, `Delete`, `CommitTo`, `ChangeHash`, `NewIterator`);
* `core/store/overlaydb/iterator.go`  — `Join`: `first/next/First/Next` as the same state machine
  (`keyOrigin`, `nextMemEnd`, `nextBackEnd`, the skip-empty loop); the flags are *not* set by `first()` — as in the code;
* `smartcontract/storage/cachedb.go`  — `Cache` (prefix byte, `get/put/delete`, `Commit`, `Reset`, `NewIterator`, `Iter.Key`);
* `core/store/leveldbstore`           — `Store`: sorted association list, `Get/Put/Delete`, prefix iterator (LevelDB itself is trusted);
* `smartcontract/storage/statedb.go`  — `StateDB` (section at the end; used by C08).

`kcmp` is `bytes.Compare`. The hash of `ChangeHash` is an abstract parameter.
-/
namespace OntVerif.Model.KV
open OntVerif.Util

abbrev Key := Bytes
abbrev Val := Bytes
abbrev KV := Key × Val

/-- `bytes.Compare` (`nil` and empty are both `[]`) -/
def kcmp : Key → Key → Ordering
  | [], [] => .eq
  | [], _ :: _ => .lt
  | _ :: _, [] => .gt
  | a :: as, b :: bs =>
    if a.toNat < b.toNat then .lt else if b.toNat < a.toNat then .gt else kcmp as bs

/-! ## MemDB -/

/-- invariant (proved in `Proofs/KV.lean` for every op list): strictly sorted by key -/
abbrev MemDB := List KV

/-- `MemDB.Put`: `findGE(key, true)`; exact hit → the node's value is replaced (also for the empty value: only
`nVal` is set to 0), otherwise a node is linked in front of the first greater key. -/
def MemDB.put : MemDB → Key → Val → MemDB
  | [], k, v => [(k, v)]
  | (k', v') :: r, k, v =>
    match kcmp k' k with
    | .lt => (k', v') :: MemDB.put r k v
    | .eq => (k', v) :: r
    | .gt => (k, v) :: (k', v') :: r

/-- `MemDB.Delete(key)` = `Put(key, nil)` -/
def MemDB.del (m : MemDB) (k : Key) : MemDB := m.put k []

/-- `MemDB.Get`: `none` = unknown, `some []` = deleted -/
def MemDB.get : MemDB → Key → Option Val
  | [], _ => none
  | (k', v') :: r, k =>
    match kcmp k' k with
    | .lt => MemDB.get r k
    | .eq => some v'
    | .gt => none

/-- `Size()`: kvSize accounting (key+value lengths of the entries) -/
def MemDB.size (m : MemDB) : Nat := (m.map fun e => e.1.length + e.2.length).sum

/-- bytes fed to the hash by `ChangeHash`: `key ++ value` in `ForEach` order -/
def MemDB.hashInput (m : MemDB) : Bytes := m.flatMap fun e => e.1 ++ e.2

/-- `OverlayDB.ChangeHash` for an abstract hash function -/
def changeHash {α : Type} (H : Bytes → α) (m : MemDB) : α := H m.hashInput

/-- `util.BytesPrefix(prefix).Limit` (`none` = nil limit: no byte below 0xff) -/
def prefixLimit : Bytes → Option Bytes
  | [] => none
  | c :: r =>
    match prefixLimit r with
    | some l => some (c :: l)
    | none => if c.toNat < 255 then some [c + 1] else none

def belowLimit (limit : Option Bytes) (k : Key) : Bool :=
  match limit with
  | none => true
  | some l => kcmp k l == .lt

/-- what a `dbIter` over `&util.Range{start, limit}` walks: from `findGE(start)` until the first key `>= limit` -/
def slice (m : List KV) (start : Bytes) (limit : Option Bytes) : List KV :=
  (m.dropWhile fun e => kcmp e.1 start == .lt).takeWhile fun e => belowLimit limit e.1

def prefixSlice (m : List KV) (p : Bytes) : List KV := slice m p (prefixLimit p)

/-! ## Persistent store (LevelDB, memory storage) -/

abbrev Store := List KV

def Store.put : Store → Key → Val → Store := MemDB.put

def Store.delete : Store → Key → Store
  | [], _ => []
  | (k', v') :: r, k =>
    match kcmp k' k with
    | .lt => (k', v') :: Store.delete r k
    | .eq => r
    | .gt => (k', v') :: r

/-- `none` = `ErrNotFound` -/
def Store.get : Store → Key → Option Val := MemDB.get

/-! ## Iterators -/

/-- operations of a `common.StoreIterator`; `bound` = an upper bound on the number of elements still to come -/
structure IterOps (σ : Type) where
  first : σ → Bool × σ
  next  : σ → Bool × σ
  key   : σ → Bytes
  value : σ → Bytes
  bound : σ → Nat

/-- `dbIter` / LevelDB iterator over a fixed sorted slice. `cur = none`: not positioned (`node = 0, forward = false`);
`cur = some []`: exhausted (`node = 0, forward = true`); `cur = some (e :: _)`: on `e`. -/
structure Leaf where
  all : List KV
  cur : Option (List KV) := none
  deriving Repr, DecidableEq

def Leaf.first (l : Leaf) : Bool × Leaf := (!l.all.isEmpty, { l with cur := some l.all })

def Leaf.next (l : Leaf) : Bool × Leaf :=
  match l.cur with
  | none => l.first
  | some [] => (false, l)
  | some (_ :: r) => (!r.isEmpty, { l with cur := some r })

/-- `Key()` of an invalid iterator is nil -/
def Leaf.key (l : Leaf) : Bytes :=
  match l.cur with
  | some (e :: _) => e.1
  | _ => []

def Leaf.value (l : Leaf) : Bytes :=
  match l.cur with
  | some (e :: _) => e.2
  | _ => []

def leafOps : IterOps Leaf := ⟨Leaf.first, Leaf.next, Leaf.key, Leaf.value, fun l => l.all.length + 1⟩

inductive Origin | mem | back | both
  deriving Repr, DecidableEq

/-- `JoinIter` -/
structure Join (μ β : Type) where
  mem : μ
  back : β
  key : Bytes := []
  value : Bytes := []
  origin : Origin := .mem
  memEnd : Bool := false
  backEnd : Bool := false

section join
variable {μ β : Type} (M : IterOps μ) (B : IterOps β)

/-- `JoinIter.first` -/
def Join.rawFirst (j : Join μ β) : Bool × Join μ β :=
  let (back, b') := B.first j.back
  let (mem, m') := M.first j.mem
  let j := { j with mem := m', back := b' }
  if back then
    let bkey := B.key b'
    let bval := B.value b'
    if !mem then (true, { j with key := bkey, value := bval, origin := .back })
    else
      let mkey := M.key m'
      let mval := M.value m'
      match kcmp mkey bkey with
      | .lt => (true, { j with key := mkey, value := mval, origin := .mem })
      | .eq => (true, { j with key := mkey, value := mval, origin := .both })
      | .gt => (true, { j with key := bkey, value := bval, origin := .back })
  else if mem then (true, { j with key := M.key m', value := M.value m', origin := .mem })
  else (false, j)

/-- `JoinIter.next` -/
def Join.rawNext (j : Join μ β) : Bool × Join μ β :=
  let (m', memEnd) :=
    if (j.origin == .mem || j.origin == .both) && !j.memEnd then
      let (ok, m') := M.next j.mem
      (m', !ok)
    else (j.mem, j.memEnd)
  let (b', backEnd) :=
    if (j.origin == .back || j.origin == .both) && !j.backEnd then
      let (ok, b') := B.next j.back
      (b', !ok)
    else (j.back, j.backEnd)
  let j := { j with mem := m', back := b', memEnd := memEnd, backEnd := backEnd }
  if backEnd then
    if memEnd then (false, { j with key := [], value := [] })
    else (true, { j with key := M.key m', value := M.value m', origin := .mem })
  else if memEnd then (true, { j with key := B.key b', value := B.value b', origin := .back })
  else
    let bkey := B.key b'
    let mkey := M.key m'
    match kcmp mkey bkey with
    | .lt => (true, { j with key := mkey, value := M.value m', origin := .mem })
    | .eq => (true, { j with key := mkey, value := M.value m', origin := .both })
    | .gt => (true, { j with key := bkey, value := B.value b', origin := .back })

/-- `for len(iter.value) == 0 { if !iter.next() { return false } }; return true`.
Fuel: the loop is bounded by the elements still to come (+ the self-healing steps); `Proofs/KV.lean` shows the
result does not depend on the fuel once it is large enough (it never runs out from `Join.first/next`). -/
def Join.skip : Nat → Join μ β → Bool × Join μ β
  | 0, j => (false, j)
  | n + 1, j =>
    if j.value.isEmpty then
      let (ok, j') := Join.rawNext M B j
      if ok then Join.skip n j' else (false, j')
    else (true, j)

def Join.fuel (j : Join μ β) : Nat := M.bound j.mem + B.bound j.back + 4

/-- `JoinIter.First` -/
def Join.first (j : Join μ β) : Bool × Join μ β :=
  let (f, j') := Join.rawFirst M B j
  if f then Join.skip M B (Join.fuel M B j') j' else (false, j')

/-- `JoinIter.Next` -/
def Join.next (j : Join μ β) : Bool × Join μ β :=
  let (f, j') := Join.rawNext M B j
  if f then Join.skip M B (Join.fuel M B j') j' else (false, j')

def joinOps : IterOps (Join μ β) :=
  ⟨Join.first M B, Join.next M B, fun j => j.key, fun j => j.value, fun j => M.bound j.mem + B.bound j.back⟩

end join

/-- `for has := it.First(); has; has = it.Next()` for at most `n` elements (an abandoned iterator stops early);
`strip` = `Iter.Key` of cachedb.go (drop the prefix byte of a non-empty key) -/
def drain {σ : Type} (O : IterOps σ) (strip : Bool) : Nat → Bool × σ → List KV
  | 0, _ => []
  | n + 1, (ok, s) =>
    if ok then
      let k := O.key s
      ((if strip then k.drop 1 else k), O.value s) :: drain O strip n (O.next s)
    else []

/-! ## OverlayDB -/

structure Overlay where
  mem : MemDB
  store : Store
  deriving Repr, DecidableEq

/-- `OverlayDB.Get`: value, nil when deleted or not found -/
def Overlay.get (o : Overlay) (k : Key) : Val :=
  match o.mem.get k with
  | some v => v
  | none =>
    match o.store.get k with
    | some v => v
    | none => []

def Overlay.put (o : Overlay) (k : Key) (v : Val) : Overlay := { o with mem := o.mem.put k v }
def Overlay.delete (o : Overlay) (k : Key) : Overlay := { o with mem := o.mem.del k }
def Overlay.reset (o : Overlay) : Overlay := { o with mem := [] }

/-- `NewBatch(); CommitTo(); BatchCommit()`: every entry of the write set in `ForEach` order, tombstones become deletes -/
def Overlay.commitTo (o : Overlay) : Overlay :=
  { o with store := o.mem.foldl (fun st e => if e.2.isEmpty then Store.delete st e.1 else Store.put st e.1 e.2) o.store }

abbrev OverlayIter := Join Leaf Leaf
def overlayIterOps : IterOps OverlayIter := joinOps leafOps leafOps

/-- `OverlayDB.NewIterator(prefix)` -/
def Overlay.newIter (o : Overlay) (p : Bytes) : OverlayIter :=
  { mem := { all := prefixSlice o.mem p }, back := { all := prefixSlice o.store p } }

def Overlay.iterate (o : Overlay) (p : Bytes) (n : Nat) : List KV :=
  drain overlayIterOps false n (overlayIterOps.first (o.newIter p))

/-! ## CacheDB -/

structure Cache where
  mem : MemDB
  backend : Overlay
  deriving Repr, DecidableEq

/-- `common.ST_STORAGE` -/
def stStorage : UInt8 := 0x05

def Cache.put (c : Cache) (pfx : UInt8) (k : Key) (v : Val) : Cache := { c with mem := c.mem.put (pfx :: k) v }
def Cache.delete (c : Cache) (pfx : UInt8) (k : Key) : Cache := { c with mem := c.mem.del (pfx :: k) }

def Cache.get (c : Cache) (pfx : UInt8) (k : Key) : Val :=
  match c.mem.get (pfx :: k) with
  | some v => v
  | none => c.backend.get (pfx :: k)

/-- `CacheDB.Commit`: replay the transaction memdb into the overlay, then `Reset` -/
def Cache.commit (c : Cache) : Cache :=
  { mem := [],
    backend := c.mem.foldl (fun o e => if e.2.isEmpty then o.delete e.1 else o.put e.1 e.2) c.backend }

def Cache.reset (c : Cache) : Cache := { c with mem := [] }

abbrev CacheIter := Join Leaf OverlayIter
def cacheIterOps : IterOps CacheIter := joinOps leafOps overlayIterOps

/-- `CacheDB.NewIterator(key)`: prefix `ST_STORAGE ++ key` -/
def Cache.newIter (c : Cache) (p : Bytes) : CacheIter :=
  { mem := { all := prefixSlice c.mem (stStorage :: p) }, back := c.backend.newIter (stStorage :: p) }

def Cache.iterate (c : Cache) (p : Bytes) (n : Nat) : List KV :=
  drain cacheIterOps true n (cacheIterOps.first (c.newIter p))

/-! ## Histories on the block overlay's write set (C03) -/

inductive Op
  | put (k : Key) (v : Val)
  | del (k : Key)
  | reset
  deriving Repr, DecidableEq

def MemDB.step (m : MemDB) : Op → MemDB
  | .put k v => m.put k v
  | .del k => m.del k
  | .reset => []

/-- the write set after a history, starting from `NewMemDB` -/
def run (ops : List Op) : MemDB := ops.foldl MemDB.step []

/-- final content of one key: last write wins, a deletion is recorded as the empty value, `none` = untouched
(since the last `Reset`) -/
def finalFrom (init : Option Val) (ops : List Op) (k : Key) : Option Val :=
  ops.foldl (fun acc o =>
    match o with
    | .put k' v => if k = k' then some v else acc
    | .del k' => if k = k' then some [] else acc
    | .reset => none) init

def finalOf (ops : List Op) (k : Key) : Option Val := finalFrom none ops k

end OntVerif.Model.KV
