import OntVerif.Util.Hex
/-!
# Model of the layered key/value storage

Mirrors (executable, core-only):

* `core/store/overlaydb/memdb.go`   — `MemDB`: the skip list is a strictly sorted association list
  (`findGE` = linear walk), a deletion is a `Put` of the empty value (tombstone), `ForEach` = the list;
  `dbIter` over a `util.Range` = `Leaf` over `MemDB.slice` (`findGE(start)` then stop at `limit`);
* `core/store/overlaydb/overlaydb.go` — `Overlay` (`Get`, `Put`, `Delete`, `CommitTo`, `ChangeHash`, `NewIterator`);
* `core/store/overlaydb/iterator.go`  — `Join`: `first/next/First/Next` as the same state machine
  (`keyOrigin`, `nextMemEnd`, `nextBackEnd`, the skip-empty loop); the flags are *not* set by `first()` — as in the code;
* `smartcontract/storage/cachedb.go`  — `Cache` (prefix byte, `get/put/delete`, `Commit`, `Reset`, `NewIterator`, `Iter.Key`);
* `core/store/leveldbstore`           — `Store`: sorted association list, `Get/Put/Delete`, prefix iterator (LevelDB itself is trusted);
* `smartcontract/storage/statedb.go`  — `StateDB` (section at the end; used by C08).

`kcmp` is `bytes.Compare`. The hash of `ChangeHash` is an abstract parameter.
-/
namespace OntVerif.Model.KV
open OntVerif.Util

abbrev Key := Bytes
abbrev Val := Bytes
abbrev KV := Key × Val

/-- `bytes.Compare` (`nil` and empty are both `[]`) -/
def kcmp : Key → Key → Ordering
  | [], [] => .eq
  | [], _ :: _ => .lt
  | _ :: _, [] => .gt
  | a :: as, b :: bs =>
    if a.toNat < b.toNat then .lt else if b.toNat < a.toNat then .gt else kcmp as bs

/-! ## MemDB -/

/-- invariant (proved in `Proofs/KV.lean` for every op list): strictly sorted by key -/
abbrev MemDB := List KV

/-- `MemDB.Put`: `findGE(key, true)`; exact hit → the node's value is replaced (also for the empty value: only
`nVal` is set to 0), otherwise a node is linked in front of the first greater key. -/
def MemDB.put : MemDB → Key → Val → MemDB
  | [], k, v => [(k, v)]
  | (k', v') :: r, k, v =>
    match kcmp k' k with
    | .lt => (k', v') :: MemDB.put r k v
    | .eq => (k', v) :: r
    | .gt => (k, v) :: (k', v') :: r

/-- `MemDB.Delete(key)` = `Put(key, nil)` -/
def MemDB.del (m : MemDB) (k : Key) : MemDB := m.put k []

/-- `MemDB.Get`: `none` = unknown, `some []` = deleted -/
def MemDB.get : MemDB → Key → Option Val
  | [], _ => none
  | (k', v') :: r, k =>
    match kcmp k' k with
    | .lt => MemDB.get r k
    | .eq => some v'
    | .gt => none

/-- `Size()`: kvSize accounting (key+value lengths of the entries) -/
def MemDB.size (m : MemDB) : Nat := (m.map fun e => e.1.length + e.2.length).sum

/-- bytes fed to the hash by `ChangeHash`: `key ++ value` in `ForEach` order -/
def MemDB.hashInput (m : MemDB) : Bytes := m.flatMap fun e => e.1 ++ e.2

/-- `OverlayDB.ChangeHash` for an abstract hash function -/
def changeHash {α : Type} (H : Bytes → α) (m : MemDB) : α := H m.hashInput

/-- `util.BytesPrefix(prefix).Limit` (`none` = nil limit: no byte below 0xff) -/
def prefixLimit : Bytes → Option Bytes
  | [] => none
  | c :: r =>
    match prefixLimit r with
    | some l => some (c :: l)
    | none => if c.toNat < 255 then some [c + 1] else none

def belowLimit (limit : Option Bytes) (k : Key) : Bool :=
  match limit with
  | none => true
  | some l => kcmp k l == .lt

/-- what a `dbIter` over `&util.Range{start, limit}` walks: from `findGE(start)` until the first key `>= limit` -/
def slice (m : List KV) (start : Bytes) (limit : Option Bytes) : List KV :=
  (m.dropWhile fun e => kcmp e.1 start == .lt).takeWhile fun e => belowLimit limit e.1

def prefixSlice (m : List KV) (p : Bytes) : List KV := slice m p (prefixLimit p)

/-! ## Persistent store (LevelDB, memory storage) -/

abbrev Store := List KV

def Store.put : Store → Key → Val → Store := MemDB.put

def Store.delete : Store → Key → Store
  | [], _ => []
  | (k', v') :: r, k =>
    match kcmp k' k with
    | .lt => (k', v') :: Store.delete r k
    | .eq => r
    | .gt => (k', v') :: r

/-- `none` = `ErrNotFound` -/
def Store.get : Store → Key → Option Val := MemDB.get

/-! ## Iterators -/

/-- operations of a `common.StoreIterator`; `bound` = an upper bound on the number of elements still to come -/
structure IterOps (σ : Type) where
  first : σ → Bool × σ
  next  : σ → Bool × σ
  key   : σ → Bytes
  value : σ → Bytes
  bound : σ → Nat

/-- `dbIter` / LevelDB iterator over a fixed sorted slice. `cur = none`: not positioned (`node = 0, forward = false`);
`cur = some []`: exhausted (`node = 0, forward = true`); `cur = some (e :: _)`: on `e`. -/
structure Leaf where
  all : List KV
  cur : Option (List KV) := none
  deriving Repr, DecidableEq

def Leaf.first (l : Leaf) : Bool × Leaf := (!l.all.isEmpty, { l with cur := some l.all })

def Leaf.next (l : Leaf) : Bool × Leaf :=
  match l.cur with
  | none => l.first
  | some [] => (false, l)
  | some (_ :: r) => (!r.isEmpty, { l with cur := some r })

/-- `Key()` of an invalid iterator is nil -/
def Leaf.key (l : Leaf) : Bytes :=
  match l.cur with
  | some (e :: _) => e.1
  | _ => []

def Leaf.value (l : Leaf) : Bytes :=
  match l.cur with
  | some (e :: _) => e.2
  | _ => []

def leafOps : IterOps Leaf := ⟨Leaf.first, Leaf.next, Leaf.key, Leaf.value, fun l => l.all.length + 1⟩

inductive Origin | mem | back | both
  deriving Repr, DecidableEq

/-- `JoinIter` -/
structure Join (μ β : Type) where
  mem : μ
  back : β
  key : Bytes := []
  value : Bytes := []
  origin : Origin := .mem
  memEnd : Bool := false
  backEnd : Bool := false

section join
variable {μ β : Type} (M : IterOps μ) (B : IterOps β)

/-- `JoinIter.first` -/
def Join.rawFirst (j : Join μ β) : Bool × Join μ β :=
  let (back, b') := B.first j.back
  let (mem, m') := M.first j.mem
  let j := { j with mem := m', back := b' }
  if back then
    let bkey := B.key b'
    let bval := B.value b'
    if !mem then (true, { j with key := bkey, value := bval, origin := .back })
    else
      let mkey := M.key m'
      let mval := M.value m'
      match kcmp mkey bkey with
      | .lt => (true, { j with key := mkey, value := mval, origin := .mem })
      | .eq => (true, { j with key := mkey, value := mval, origin := .both })
      | .gt => (true, { j with key := bkey, value := bval, origin := .back })
  else if mem then (true, { j with key := M.key m', value := M.value m', origin := .mem })
  else (false, j)

/-- `JoinIter.next` -/
def Join.rawNext (j : Join μ β) : Bool × Join μ β :=
  let (m', memEnd) :=
    if (j.origin == .mem || j.origin == .both) && !j.memEnd then
      let (ok, m') := M.next j.mem
      (m', !ok)
    else (j.mem, j.memEnd)
  let (b', backEnd) :=
    if (j.origin == .back || j.origin == .both) && !j.backEnd then
      let (ok, b') := B.next j.back
      (b', !ok)
    else (j.back, j.backEnd)
  let j := { j with mem := m', back := b', memEnd := memEnd, backEnd := backEnd }
  if backEnd then
    if memEnd then (false, { j with key := [], value := [] })
    else (true, { j with key := M.key m', value := M.value m', origin := .mem })
  else if memEnd then (true, { j with key := B.key b', value := B.value b', origin := .back })
  else
    let bkey := B.key b'
    let mkey := M.key m'
    match kcmp mkey bkey with
    | .lt => (true, { j with key := mkey, value := M.value m', origin := .mem })
    | .eq => (true, { j with key := mkey, value := M.value m', origin := .both })
    | .gt => (true, { j with key := bkey, value := B.value b', origin := .back })

/-- `for len(iter.value) == 0 { if !iter.next() { return false } }; return true`.
Fuel: the loop is bounded by the elements still to come (+ the self-healing steps); `Proofs/KV.lean` shows the
result does not depend on the fuel once it is large enough (it never runs out from `Join.first/next`). -/
def Join.skip : Nat → Join μ β → Bool × Join μ β
  | 0, j => (false, j)
  | n + 1, j =>
    if j.value.isEmpty then
      let (ok, j') := Join.rawNext M B j
      if ok then Join.skip n j' else (false, j')
    else (true, j)

def Join.fuel (j : Join μ β) : Nat := M.bound j.mem + B.bound j.back + 4

/-- `JoinIter.First` -/
def Join.first (j : Join μ β) : Bool × Join μ β :=
  let (f, j') := Join.rawFirst M B j
  if f then Join.skip M B (Join.fuel M B j') j' else (false, j')

/-- `JoinIter.Next` -/
def Join.next (j : Join μ β) : Bool × Join μ β :=
  let (f, j') := Join.rawNext M B j
  if f then Join.skip M B (Join.fuel M B j') j' else (false, j')

def joinOps : IterOps (Join μ β) :=
  ⟨Join.first M B, Join.next M B, fun j => j.key, fun j => j.value, fun j => M.bound j.mem + B.bound j.back + 3⟩

end join

/-- `for has := it.First(); has; has = it.Next()` for at most `n` elements (an abandoned iterator stops early);
`strip` = `Iter.Key` of cachedb.go (drop the prefix byte of a non-empty key) -/
def drain {σ : Type} (O : IterOps σ) (strip : Bool) : Nat → Bool × σ → List KV
  | 0, _ => []
  | n + 1, (ok, s) =>
    if ok then
      let k := O.key s
      ((if strip then k.drop 1 else k), O.value s) :: drain O strip n (O.next s)
    else []

/-! ## OverlayDB -/

structure Overlay where
  mem : MemDB
  store : Store
  deriving Repr, DecidableEq

/-- `OverlayDB.Get`: value, nil when deleted or not found -/
def Overlay.get (o : Overlay) (k : Key) : Val :=
  match o.mem.get k with
  | some v => v
  | none =>
    match o.store.get k with
    | some v => v
    | none => []

def Overlay.put (o : Overlay) (k : Key) (v : Val) : Overlay := { o with mem := o.mem.put k v }
def Overlay.delete (o : Overlay) (k : Key) : Overlay := { o with mem := o.mem.del k }
def Overlay.reset (o : Overlay) : Overlay := { o with mem := [] }

/-- `NewBatch(); CommitTo(); BatchCommit()`: every entry of the write set in `ForEach` order, tombstones become deletes -/
def Overlay.commitTo (o : Overlay) : Overlay :=
  { o with store := o.mem.foldl (fun st e => if e.2.isEmpty then Store.delete st e.1 else Store.put st e.1 e.2) o.store }

abbrev OverlayIter := Join Leaf Leaf
def overlayIterOps : IterOps OverlayIter := joinOps leafOps leafOps

/-- `OverlayDB.NewIterator(prefix)` -/
def Overlay.newIter (o : Overlay) (p : Bytes) : OverlayIter :=
  { mem := { all := prefixSlice o.mem p }, back := { all := prefixSlice o.store p } }

def Overlay.iterate (o : Overlay) (p : Bytes) (n : Nat) : List KV :=
  drain overlayIterOps false n (overlayIterOps.first (o.newIter p))

/-! ## CacheDB -/

structure Cache where
  mem : MemDB
  backend : Overlay
  deriving Repr, DecidableEq

/-- `common.ST_STORAGE` -/
def stStorage : UInt8 := 0x05

def Cache.put (c : Cache) (pfx : UInt8) (k : Key) (v : Val) : Cache := { c with mem := c.mem.put (pfx :: k) v }
def Cache.delete (c : Cache) (pfx : UInt8) (k : Key) : Cache := { c with mem := c.mem.del (pfx :: k) }

def Cache.get (c : Cache) (pfx : UInt8) (k : Key) : Val :=
  match c.mem.get (pfx :: k) with
  | some v => v
  | none => c.backend.get (pfx :: k)

/-- `CacheDB.Commit`: replay the transaction memdb into the overlay, then `Reset` -/
def Cache.commit (c : Cache) : Cache :=
  { mem := [],
    backend := c.mem.foldl (fun o e => if e.2.isEmpty then o.delete e.1 else o.put e.1 e.2) c.backend }

def Cache.reset (c : Cache) : Cache := { c with mem := [] }

abbrev CacheIter := Join Leaf OverlayIter
def cacheIterOps : IterOps CacheIter := joinOps leafOps overlayIterOps

/-- `CacheDB.NewIterator(key)`: prefix `ST_STORAGE ++ key` -/
def Cache.newIter (c : Cache) (p : Bytes) : CacheIter :=
  { mem := { all := prefixSlice c.mem (stStorage :: p) }, back := c.backend.newIter (stStorage :: p) }

def Cache.iterate (c : Cache) (p : Bytes) (n : Nat) : List KV :=
  drain cacheIterOps true n (cacheIterOps.first (c.newIter p))

/-! ## Histories on the block overlay's write set (C03) -/

inductive Op
  | put (k : Key) (v : Val)
  | del (k : Key)
  | reset
  deriving Repr, DecidableEq

def MemDB.step (m : MemDB) : Op → MemDB
  | .put k v => m.put k v
  | .del k => m.del k
  | .reset => []

/-- the write set after a history, starting from `NewMemDB` -/
def run (ops : List Op) : MemDB := ops.foldl MemDB.step []

/-- final content of one key: last write wins, a deletion is recorded as the empty value, `none` = untouched
(since the last `Reset`) -/
def finalFrom (init : Option Val) (ops : List Op) (k : Key) : Option Val :=
  ops.foldl (fun acc o =>
    match o with
    | .put k' v => if k = k' then some v else acc
    | .del k' => if k = k' then some [] else acc
    | .reset => none) init

def finalOf (ops : List Op) (k : Key) : Option Val := finalFrom none ops k

/-- the same history applied through `OverlayDB.Put/Delete/Reset` on an overlay over ANY persistent store: the store is
never consulted by a write (in particular not to skip a write of the value that is already visible) -/
def Overlay.step (o : Overlay) : Op → Overlay
  | .put k v => o.put k v
  | .del k => o.delete k
  | .reset => o.reset

def Overlay.runOps (o : Overlay) (ops : List Op) : Overlay := ops.foldl Overlay.step o

/-! ## Histories on the three layers (C04) -/

/-- state-changing operations on a `CacheDB` (keys get the `ST_STORAGE` prefix) over an `OverlayDB` (raw keys) over the store -/
inductive COp
  | put (k : Key) (v : Val)
  | del (k : Key)
  | commit                    -- `CacheDB.Commit`
  | reset                     -- `CacheDB.Reset`
  | bput (k : Key) (v : Val)  -- `OverlayDB.Put` (raw key)
  | bdel (k : Key)            -- `OverlayDB.Delete`
  | bcommit (keep : Bool)     -- `NewBatch; CommitTo; BatchCommit`, then a fresh overlay (`keep = false`) or the same one
  | breset                    -- `OverlayDB.Reset`
  deriving Repr, DecidableEq

def Cache.step (c : Cache) : COp → Cache
  | .put k v => c.put stStorage k v
  | .del k => c.delete stStorage k
  | .commit => c.commit
  | .reset => c.reset
  | .bput k v => { c with backend := c.backend.put k v }
  | .bdel k => { c with backend := c.backend.delete k }
  | .bcommit keep => { c with backend := if keep then c.backend.commitTo else c.backend.commitTo.reset }
  | .breset => { c with backend := c.backend.reset }

/-- what a read of raw key `k` through the transaction cache returns (`[]` = absent) -/
def Cache.read (c : Cache) (k : Key) : Val :=
  match c.mem.get k with
  | some v => v
  | none => c.backend.get k

/-- what a read of the persistent store returns (`[]` = absent) -/
def Store.read (st : Store) (k : Key) : Val :=
  match Store.get st k with
  | some v => v
  | none => []

/-! ## StateDB (C08) — `smartcontract/storage/statedb.go`

Keccak is a parameter (the code hash comes with the operation). The storage encoding of an ONG balance
(`NativeTokenBalance` storage item) is abstracted to `encBal`/`decBal`: only getters are compared with the implementation. -/

def stEthCode : UInt8 := 0x30
def stEthAccount : UInt8 := 0x31
def two64 : Nat := 18446744073709551616

/-- `utils.OngContractAddress` -/
def ongAddr : Bytes := List.replicate 19 0 ++ [2]

def leBytes : Nat → Nat → Bytes
  | 0, _ => []
  | k + 1, v => UInt8.ofNat (v % 256) :: leBytes k (v / 256)

def fromLE : Bytes → Nat
  | [] => 0
  | b :: r => b.toNat + 256 * fromLE r

def encNat : Nat → Nat → Bytes
  | 0, _ => []
  | f + 1, n => if n = 0 then [] else UInt8.ofNat (n % 256) :: encNat f (n / 256)

/-- abstract storage form of a non-zero balance (zero is never stored: `SetBalance` deletes) -/
def encBal (n : Nat) : Bytes := encNat 64 n
def decBal (b : Bytes) : Nat := fromLE b

/-- `common.BytesToHash`: crop from the left / left-pad to 32 bytes -/
def bytesToHash (b : Bytes) : Bytes :=
  if b.length ≥ 32 then b.drop (b.length - 32) else List.replicate (32 - b.length) 0 ++ b

def zeroHash : Bytes := List.replicate 32 0

structure EthAccount where
  nonce : Nat
  codeHash : Bytes
  deriving Repr, DecidableEq

def EthAccount.isEmpty (a : EthAccount) : Bool := a.nonce == 0 && a.codeHash == zeroHash

structure Snap where
  changes : MemDB
  suicided : List Bytes
  logsSize : Nat
  refund : Nat
  deriving Repr, DecidableEq

structure StateDB where
  cache : Cache
  suicided : List Bytes := []   -- the keys of the Go map `Suicided` (all values are `true`)
  logs : List Bytes := []       -- a log is represented by its `Data`
  refund : Nat := 0             -- uint64
  snaps : List Snap := []
  dbErr : Bool := false         -- `OverlayDB.dbErr != nil`
  deriving Repr, DecidableEq

namespace StateDB

/-- `CacheDB.GetEthAccount` (a stored value is always the 40-byte serialization; anything else decodes to the zero account) -/
def getEthAccount (s : StateDB) (addr : Bytes) : EthAccount :=
  let v := s.cache.get stEthAccount addr
  if v.length = 40 then ⟨fromLE (v.take 8), v.drop 8⟩ else ⟨0, zeroHash⟩

/-- `CacheDB.PutEthAccount`: the empty account is stored as the empty value -/
def putEthAccount (s : StateDB) (addr : Bytes) (a : EthAccount) : StateDB :=
  { s with cache := s.cache.put stEthAccount addr (if a.isEmpty then [] else leBytes 8 a.nonce ++ a.codeHash) }

def getState (s : StateDB) (addr slot : Bytes) : Bytes := bytesToHash (s.cache.get stStorage (addr ++ slot))
def getNonce (s : StateDB) (addr : Bytes) : Nat := (s.getEthAccount addr).nonce
def getCodeHash (s : StateDB) (addr : Bytes) : Bytes := (s.getEthAccount addr).codeHash
def getCode (s : StateDB) (addr : Bytes) : Bytes := s.cache.get stEthCode (s.getCodeHash addr)
def getBalance (s : StateDB) (addr : Bytes) : Nat := decBal (s.cache.get stStorage (ongAddr ++ addr))
def hasSuicided (s : StateDB) (addr : Bytes) : Bool := s.suicided.contains addr
def exist (s : StateDB) (addr : Bytes) : Bool :=
  s.hasSuicided addr || !(s.getEthAccount addr).isEmpty || s.getBalance addr > 0
def empty (s : StateDB) (addr : Bytes) : Bool := (s.getEthAccount addr).isEmpty && s.getBalance addr == 0

/-- `OngBalanceHandle.SetBalance` -/
def setBalance (s : StateDB) (addr : Bytes) (n : Nat) : StateDB :=
  { s with cache := if n = 0 then s.cache.delete stStorage (ongAddr ++ addr)
                    else s.cache.put stStorage (ongAddr ++ addr) (encBal n) }

/-- state mutations of the EVM interface -/
inductive Mut
  | setState (addr slot val : Bytes)
  | setNonce (addr : Bytes) (n : Nat)
  | setCode (addr code hash : Bytes)     -- `hash` = Keccak256(code), supplied by the caller of the model
  | addBalance (addr : Bytes) (n : Nat)
  | subBalance (addr : Bytes) (n : Nat)
  | suicide (addr : Bytes)
  | addLog (data : Bytes)
  | addRefund (n : Nat)
  | subRefund (n : Nat)
  deriving Repr, DecidableEq

/-- `none` = the Go code panics (state unchanged) -/
def applyMut (s : StateDB) : Mut → Option StateDB
  | .setState a k v => some { s with cache := s.cache.put stStorage (a ++ k) v }
  | .setNonce a n => some (s.putEthAccount a { s.getEthAccount a with nonce := n })
  | .setCode a code h =>
    let s1 := s.putEthAccount a { s.getEthAccount a with codeHash := h }
    some { s1 with cache := s1.cache.put stEthCode h code }
  | .addBalance a n => some (s.setBalance a (s.getBalance a + n))
  | .subBalance a n =>
    if s.getBalance a < n then some { s with dbErr := true } else some (s.setBalance a (s.getBalance a - n))
  | .suicide a =>
    if (s.getEthAccount a).isEmpty then some s
    else some ({ s with suicided := if s.suicided.contains a then s.suicided else a :: s.suicided }.setBalance a 0)
  | .addLog d => some { s with logs := s.logs ++ [d] }
  | .addRefund n => some { s with refund := (s.refund + n) % two64 }
  | .subRefund n => if n > s.refund then none else some { s with refund := s.refund - n }

/-- `Snapshot()`: deep clone of the transaction memdb, copy of the map, sizes; returns the new state and the id -/
def snapshot (s : StateDB) : StateDB × Nat :=
  ({ s with snaps := s.snaps ++ [⟨s.cache.mem, s.suicided, s.logs.length, s.refund⟩] }, s.snaps.length)

/-- `RevertToSnapshot(idx)`; `none` = panic (`idx+1 > len(snapshots)` or a negative index) -/
def revert (s : StateDB) (idx : Int) : Option StateDB :=
  if idx < 0 then none else
  match s.snaps[idx.toNat]? with
  | none => none
  | some sn =>
    some { s with snaps := s.snaps.take idx.toNat, cache := { s.cache with mem := sn.changes },
                  suicided := sn.suicided, refund := sn.refund, logs := s.logs.take sn.logsSize }

/-- `DiscardSnapshot(idx)` -/
def discard (s : StateDB) (idx : Int) : Option StateDB :=
  if idx < 0 then none else
  if idx.toNat + 1 > s.snaps.length then none else some { s with snaps := s.snaps.take idx.toNat }

inductive SOp
  | mutate (m : Mut)
  | snapshot
  | revert (idx : Int)
  | discard (idx : Int)
  deriving Repr, DecidableEq

def step (s : StateDB) : SOp → Option StateDB
  | .mutate m => s.applyMut m
  | .snapshot => some s.snapshot.1
  | .revert i => s.revert i
  | .discard i => s.discard i

/-- a history; a panicking operation is recovered by the caller and leaves the state unchanged -/
def runOps (s : StateDB) (ops : List SOp) : StateDB :=
  ops.foldl (fun s o => (s.step o).getD s) s

end StateDB

end OntVerif.Model.KV

