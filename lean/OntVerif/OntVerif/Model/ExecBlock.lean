import OntVerif.Model.KV
/-!
# Model of block execution (C02)

Mirrors `core/store/ledgerstore/ledger_store.go:executeBlock` and what surrounds it (`ExecuteBlock`/`SubmitBlock`,
`AddBlock`/`saveBlock`, `saveBlockToStateStore`) as ONE total function of explicitly listed inputs:

* `refreshGlobalParam`: the process-global `neovm.GAS_TABLE` is overwritten, key by key, by the global parameters found in
  the state (`ps.Value != ""`); the block's `gasTable` is a copy of it made by `sync.Map.Range` (iteration order = `perm`);
* `getEvmSystemWitnessAddress` (a read of the state);
* `cache := storage.NewCacheDB(overlay)`; per transaction `cache.Reset()`, then `handleTransaction`, which is a
  **parameter** (`Env.handle`): the deploy / invoke / EIP-155 handlers with the whole VM behind them.  It receives the gas
  table (as a lookup function), the block context, the transaction, its index, the EVM witness address, the freshly reset
  cache whose backend is the block overlay (the handlers also write the overlay directly: `costInvalidGas` opens its own
  cache on it) and - the point of this property - the **witness predicate** of the transaction:
  `CheckWitness(a)` = `a ∈ tx.GetSignatureAddresses()` (`smart_contract.go:checkAccountAddress`, a membership loop).
  `none` = `overlay.Error()` / undecodable EIP-155 payload: `executeBlock` returns the error, nothing is applied;
* `notify.GasStepUsed = GasConsumed / GasPrice`, `notify.TxIndex = i`, concatenation of notifies / cross states / logs in
  transaction order; bloom, `overlay.ChangeHash()` (`KV.changeHash`: sha256 over the sorted write set), `GetWriteSet()`,
  cross-states root, state merkle root (`stateHashCheckHeight` switch, `GetStateMerkleRootWithNewHash`);
* committing: the write set goes to the state store (`Overlay.commitTo`), the block's hash is appended to the state tree.

The signer function `signers : Tx → List Addr` is what `GetSignatureAddresses` returns on this node for each
transaction: `SignedAddr` set by the validator (a list filled from a Go map, any order) or the fallback derivation.
Not covered: the wasm JIT runtime receives the LIST (order and duplicates visible) - the JIT is a stub in this sandbox.
-/
namespace OntVerif.Model.ExecBlock
open OntVerif.Util OntVerif.Model.KV

abbrev Addr := Bytes
abbrev Hash := Bytes

structure BlockCtx where
  height : Nat
  timestamp : Nat
  blockHash : Hash
  deriving DecidableEq, Repr

/-- `event.ExecuteNotify` -/
structure Notify where
  txHash : Hash
  state : Nat               -- CONTRACT_STATE_FAIL = 0 / SUCCESS = 1
  gasConsumed : Nat
  gasStepUsed : Nat
  txIndex : Nat
  events : List Bytes       -- `Notify []*NotifyEventInfo`, serialised
  created : Bytes           -- `CreatedContract`
  deriving DecidableEq, Repr

/-- what `handleTransaction` returns besides the (mutated) cache -/
structure TxOut where
  cache : Cache             -- transaction cache after the handler; `cache.backend` is the block overlay
  notify : Notify
  cross : List Hash
  logs : List Bytes         -- receipt logs (EIP-155 only)

/-- the gas table as the handlers use it: `gasTable[name]` -/
abbrev GasLookup := String → Option Nat

/-- everything `executeBlock` calls out to -/
structure Env (Tx Tree : Type) where
  gasPrice : Tx → Nat
  handle : GasLookup → BlockCtx → (Addr → Bool) → Tx → Nat → Bytes → Cache → Option TxOut
  param : Store → String → Option Nat        -- `getGlobalParam` of one key: `none` = absent or empty value
  evmWitness : Store → Bytes                 -- `getEvmSystemWitnessAddress`
  H : Bytes → Hash                           -- sha256 of `ChangeHash`
  bloomOf : List Bytes → Bytes               -- `types3.LogsBloom(parseOntLogsToEth(allLogs))`
  crossRoot : List Hash → Hash               -- `merkle.TreeHasher{}.HashFullTreeWithLeafHash`
  totalStateHash : Overlay → Hash            -- `calculateTotalStateHash`
  rootWith : Tree → Hash → Hash              -- `GetStateMerkleRootWithNewHash`
  treeAppend : Tree → Hash → Tree            -- `stateStore.AddStateMerkleTreeRoot`
  emptyHash : Hash                           -- `common.UINT256_EMPTY`

/-- what a node holds between two blocks, as far as execution reads it -/
structure Node (Tree : Type) where
  store : Store                              -- the persisted state (LevelDB `states`)
  tree : Tree                                -- the state merkle tree
  gasGlobal : List (String × Nat)            -- the process-global `neovm.GAS_TABLE`
  checkHeight : Nat                          -- `stateHashCheckHeight` (configuration)

structure Block (Tx : Type) where
  ctx : BlockCtx
  txs : List Tx

/-- `store.ExecuteResult` -/
structure Result where
  notifies : List Notify
  cross : List Hash
  bloom : Bytes
  hash : Hash
  writeSet : MemDB
  crossRoot : Hash
  merkleRoot : Hash
  deriving DecidableEq, Repr

/-- `refreshGlobalParam`: every key of the table takes the state's value when the state has a non-empty one -/
def refresh (G : List (String × Nat)) (ps : String → Option Nat) : List (String × Nat) :=
  G.map fun e => (e.1, (ps e.1).getD e.2)

/-- the block's `gasTable`: a Go map filled from `GAS_TABLE.Range` (`entries` = the table in iteration order) -/
def gasLookup (entries : List (String × Nat)) : GasLookup :=
  fun k => (entries.find? fun e => e.1 == k).map (·.2)

/-- `CheckWitness(a)` on the account part: membership in `tx.GetSignatureAddresses()` -/
def witness (l : List Addr) : Addr → Bool := fun a => decide (a ∈ l)

structure Acc where
  notifies : List Notify := []
  cross : List Hash := []
  logs : List Bytes := []

/-- the `for i, tx := range block.Transactions` loop -/
def txLoop {Tx Tree : Type} (env : Env Tx Tree) (gas : GasLookup) (ctx : BlockCtx) (signers : Tx → List Addr)
    (evmW : Bytes) : List Tx → Nat → Cache → Acc → Option (Cache × Acc)
  | [], _, c, acc => some (c, acc)
  | tx :: rest, i, c, acc =>
    match env.handle gas ctx (witness (signers tx)) tx i evmW c.reset with
    | none => none
    | some out =>
      let n := { out.notify with
        gasStepUsed := if env.gasPrice tx ≠ 0 then out.notify.gasConsumed / env.gasPrice tx else out.notify.gasStepUsed,
        txIndex := i }
      txLoop env gas ctx signers evmW rest (i + 1) out.cache
        { notifies := acc.notifies ++ [n], cross := acc.cross ++ out.cross, logs := acc.logs ++ out.logs }

/-- the table `executeBlock` works with: the process-global one after `refreshGlobalParam` (not run for the genesis block) -/
def blockTable {Tx Tree : Type} (env : Env Tx Tree) (node : Node Tree) (b : Block Tx) : List (String × Nat) :=
  if b.ctx.height ≠ 0 then refresh node.gasGlobal (env.param node.store) else node.gasGlobal

/-- `executeBlock`.  `perm` = the order in which `GAS_TABLE.Range` enumerates the (refreshed) table.
Returns the result, the block overlay and the refreshed global table. -/
def executeBlock {Tx Tree : Type} (env : Env Tx Tree) (node : Node Tree) (perm : List (String × Nat) → List (String × Nat))
    (signers : Tx → List Addr) (b : Block Tx) : Option (Result × Overlay × List (String × Nat)) :=
  let G := blockTable env node b
  let evmW := if b.ctx.height ≠ 0 then env.evmWitness node.store else []
  let overlay : Overlay := ⟨[], node.store⟩
  match txLoop env (gasLookup (perm G)) b.ctx signers evmW b.txs 0 ⟨[], overlay⟩ {} with
  | none => none
  | some (c, acc) =>
    let ov := c.backend
    let hash := changeHash env.H ov.mem
    let crossRoot := if acc.cross.length ≠ 0 then env.crossRoot acc.cross else env.emptyHash
    let (root, hash') :=
      if b.ctx.height < node.checkHeight then (env.emptyHash, hash)
      else if b.ctx.height = node.checkHeight then (env.totalStateHash ov, env.totalStateHash ov)
      else (env.rootWith node.tree hash, hash)
    some (⟨acc.notifies, acc.cross, env.bloomOf acc.logs, hash', ov.mem, crossRoot, root⟩, ov, G)

/-- execute and commit (`ExecuteBlock` + `SubmitBlock`, or `AddBlock` → `saveBlock`): write set to the state store,
block hash into the state tree -/
def applyBlock {Tx Tree : Type} (env : Env Tx Tree) (node : Node Tree) (perm : List (String × Nat) → List (String × Nat))
    (signers : Tx → List Addr) (b : Block Tx) : Option (Result × Node Tree) :=
  match executeBlock env node perm signers b with
  | none => none
  | some (r, ov, G) =>
    some (r, { node with store := ov.commitTo.store, tree := env.treeAppend node.tree r.hash, gasGlobal := G })

/-- a sequence of blocks; stops at the first block that cannot be executed -/
def applyChain {Tx Tree : Type} (env : Env Tx Tree) (perm : List (String × Nat) → List (String × Nat))
    (signers : Tx → List Addr) : Node Tree → List (Block Tx) → List Result × Node Tree
  | node, [] => ([], node)
  | node, b :: rest =>
    match applyBlock env node perm signers b with
    | none => ([], node)
    | some (r, node') =>
      let (rs, fin) := applyChain env perm signers node' rest
      (r :: rs, fin)

end OntVerif.Model.ExecBlock
