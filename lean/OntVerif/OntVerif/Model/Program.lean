import OntVerif.Model.Codec
/-!
# Model of `core/program/program.go` (signature scripts) and `core/types/address.go:AddressFromMultiPubKeys`

Executable, core-only. The parser reads through the `ZeroCopySource` model of `Model/Codec.lean`.

* A public key is opaque: `Key` carries its serialization (`keypair.SerializePublicKey`) and exactly the data
  `keypair.SortPublicKeys` looks at (key type, curve label, affine coordinates, raw Ed25519 bytes).
* `keypair.DeserializePublicKey` followed by `SerializePublicKey` is the abstract parameter
  `canon : Bytes → Option Bytes` (`none` = error): the parser's result is printed through the serializer.
* The script hash (`AddressFromVmCode` = RIPEMD160 ∘ SHA256) is the abstract parameter `H`.
* `PErr.panic` = Go slice panic, `PErr.fuel` = loop budget of the model exhausted; both are proved unreachable.
-/
namespace OntVerif.Model.Program
open OntVerif.Util OntVerif.Model.Codec

/-! ## keys and their order -/

inductive KeyType | ecdsa | sm2 | eddsa | eth
  deriving Repr, DecidableEq

/-- `keypair.GetKeyType` -/
def KeyType.code : KeyType → Nat
  | .ecdsa => 0x12 | .sm2 => 0x13 | .eddsa => 0x14 | .eth => 0x15

structure Key where
  ser : Bytes        -- SerializePublicKey(key)
  typ : KeyType
  curve : Nat        -- GetCurveLabel (ECDSA / SM2)
  x : Nat            -- affine coordinates (ECDSA / SM2 / ETHECDSA)
  y : Nat
  raw : Bytes        -- the key bytes (EdDSA)
  deriving Repr, DecidableEq

/-- `bytes.Compare(a, b) < 0` -/
def bytesLt : Bytes → Bytes → Bool
  | [], [] => false
  | [], _ :: _ => true
  | _ :: _, [] => false
  | a :: r, b :: t => if a.toNat < b.toNat then true else if b.toNat < a.toNat then false else bytesLt r t

/-- `publicKeyList.Less` -/
def less (a b : Key) : Bool :=
  if a.typ ≠ b.typ then decide (a.typ.code < b.typ.code)
  else match a.typ with
    | .ecdsa | .sm2 =>
      if a.curve ≠ b.curve then decide (a.curve < b.curve)
      else if a.x ≠ b.x then decide (a.x < b.x)
      else decide (a.y < b.y)
    | .eddsa => bytesLt a.raw b.raw
    | .eth =>
      if a.x ≠ b.x then decide (a.x < b.x)
      else decide (a.y < b.y)

/-- what `Less` compares, as one lexicographically ordered tuple (`Props/C23.lean: C23_less_is_rank`) -/
def rank (k : Key) : List Nat :=
  match k.typ with
  | .ecdsa => [k.typ.code, k.curve, k.x, k.y]
  | .sm2 => [k.typ.code, k.curve, k.x, k.y]
  | .eddsa => k.typ.code :: k.raw.map (·.toNat)
  | .eth => [k.typ.code, k.x, k.y]

/-- `keypair.SortPublicKeys` (`sort.Sort`; any comparison sort gives the same serialized sequence, see
`C23_sort_unique`: the sorted arrangement is unique) -/
def sortKeys (l : List Key) : List Key := l.mergeSort (fun a b => !less b a)

/-! ## builder -/

def PUSH0 : UInt8 := 0x00
def PUSHBYTES1 : UInt8 := 0x01
def PUSHBYTES75 : UInt8 := 0x4B
def PUSHDATA1 : UInt8 := 0x4C
def PUSHDATA2 : UInt8 := 0x4D
def PUSHDATA4 : UInt8 := 0x4E
def PUSH1 : UInt8 := 0x51
def CHECKSIG : UInt8 := 0xAC
def CHECKMULTISIG : UInt8 := 0xAE
def maxPubKeys : Nat := 16   -- constants.MULTI_SIG_MAX_PUBKEY_SIZE

/-- `ProgramBuilder.PushBytes`; `none` = `panic("push data error: data is nil")` -/
def pushBytes (data : Bytes) : Option Bytes :=
  let n := data.length
  if n = 0 then none
  else if n ≤ 75 then some (UInt8.ofNat n :: data)
  else if n < 0x100 then some (PUSHDATA1 :: UInt8.ofNat n :: data)
  else if n < 0x10000 then some (PUSHDATA2 :: writeUintN 2 n ++ data)
  else some (PUSHDATA4 :: writeUintN 4 (n % 4294967296) ++ data)

/-- `common.BigIntToNeoBytes` for a `uint16` -/
def neoBytesOfU16 (n : Nat) : Bytes :=
  if n = 0 then []
  else
    let bs : Bytes := if n < 256 then [UInt8.ofNat n] else [UInt8.ofNat (n % 256), UInt8.ofNat (n / 256)]
    if (bs.getLast?.getD 0).toNat ≥ 128 then bs ++ [0] else bs

/-- `ProgramBuilder.PushNum(num uint16)` -/
def pushNum (num : Nat) : Option Bytes :=
  if num = 0 then some [PUSH0]
  else if num ≤ 16 then some [UInt8.ofNat (num - 1 + 0x51)]
  else pushBytes (neoBytesOfU16 num)

/-- `ProgramFromPubKey`; `none` = panic (empty serialization) -/
def programFromPubKey (k : Key) : Option Bytes :=
  match pushBytes k.ser with
  | some p => some (p ++ [CHECKSIG])
  | none => none

def pushAll : List Bytes → Option Bytes
  | [] => some []
  | d :: r => match pushBytes d, pushAll r with
    | some a, some b => some (a ++ b)
    | _, _ => none

inductive BErr | param | panic
  deriving Repr, DecidableEq

/-- the guard of `EncodeMultiPubKeyProgramInto` / `AddressFromMultiPubKeys` -/
def paramsOK (m : Int) (n : Nat) : Bool :=
  decide (1 ≤ m) && decide (m ≤ (n : Int)) && decide (n > 1) && decide (n ≤ maxPubKeys)

/-- `ProgramFromMultiPubKey(pubkeys, m)` -/
def programFromMultiPubKey (keys : List Key) (m : Int) : Except BErr Bytes :=
  let n := keys.length
  if !paramsOK m n then .error .param else
  let sorted := sortKeys keys
  match pushNum m.toNat, pushAll (sorted.map (·.ser)), pushNum sorted.length with
  | some a, some b, some c => .ok (a ++ b ++ c ++ [CHECKMULTISIG])
  | _, _, _ => .error .panic

/-- `AddressFromMultiPubKeys`: the same guard, then the script hash -/
def addressFromMultiPubKeys {Addr : Type} (H : Bytes → Addr) (keys : List Key) (m : Int) : Except BErr Addr :=
  if !paramsOK m keys.length then .error .param else
  match programFromMultiPubKey keys m with
  | .ok p => .ok (H p)
  | .error e => .error e

/-! ## parser -/

inductive PErr
  | eof          -- io.ErrUnexpectedEOF
  | opcode       -- "unexpected opcode"
  | key          -- DeserializePublicKey failed
  | short        -- "wrong program" (len <= 2)
  | trailing     -- "expected eof"
  | nolen        -- "missing pubkey length"
  | count        -- "number of pubkeys unmarched"
  | param        -- "wrong multi-sig param"
  | unsupported  -- "unsupported program"
  | numrange     -- "num not in range (16, MaxUint16]"
  | panic | fuel
  deriving Repr, DecidableEq

abbrev PRes (α : Type) := Except PErr α

/-- `ReadOpCode` -/
def readOpCode (s : Src) : PRes (UInt8 × Src) :=
  let ((c, eof), s1) := nextByte s
  if eof then .error .eof else .ok (c, s1)

/-- `PeekOpCode`: `ReadOpCode` then `BackUp(1)` — the cursor is unchanged -/
def peekOpCode (s : Src) : PRes UInt8 :=
  match readOpCode s with
  | .ok (c, _) => .ok c
  | .error e => .error e

/-- `ReadBytes` -/
def readBytes (s : Src) : PRes (Bytes × Src) :=
  match readOpCode s with
  | .error e => .error e
  | .ok (code, s1) =>
    let lenRes : PRes (Nat × Src) :=
      if code == PUSHDATA4 then
        match nextUintN 4 s1 with
        | none => .error .panic
        | some ((v, eof), s2) => if eof then .error .eof else .ok (v, s2)
      else if code == PUSHDATA2 then
        match nextUintN 2 s1 with
        | none => .error .panic
        | some ((v, eof), s2) => if eof then .error .eof else .ok (v, s2)
      else if code == PUSHDATA1 then
        let ((v, eof), s2) := nextByte s1
        if eof then .error .eof else .ok (v.toNat, s2)
      else if code.toNat ≤ PUSHBYTES75.toNat && code.toNat ≥ PUSHBYTES1.toNat then
        .ok (code.toNat - PUSHBYTES1.toNat + 1, s1)
      else .error .opcode
    match lenRes with
    | .error e => .error e
    | .ok (keylen, s2) =>
      match nextBytes s2 keylen with
      | none => .error .panic
      | some ((buf, eof), s3) => if eof then .error .eof else .ok (buf, s3)

/-- `ReadPubKey`: the key is returned in serialized form -/
def readPubKey (canon : Bytes → Option Bytes) (s : Src) : PRes (Bytes × Src) :=
  match readBytes s with
  | .error e => .error e
  | .ok (buf, s1) =>
    match canon buf with
    | none => .error .key
    | some k => .ok (k, s1)

def two63 : Nat := 9223372036854775808

/-- `(*big.Int).Int64()`: the low 64 bits of |v| reinterpreted as int64, negated (wrapping) if v < 0 -/
def int64OfBig (v : Int) : Int :=
  let a := v.natAbs % two64
  let s : Int := if a ≥ two63 then (a : Int) - (two64 : Int) else (a : Int)
  if v < 0 then (if s = -(two63 : Int) then s else -s) else s

/-- `common.BigIntFromNeoBytes`: little-endian two's complement -/
def bigOfNeoBytes (ba : Bytes) : Int :=
  match ba.getLast? with
  | none => 0
  | some top =>
    if top.toNat / 128 = 1 then (fromLE ba : Int) - ((256 ^ ba.length : Nat) : Int) else (fromLE ba : Int)

/-- `big.Int.SetBytes`: big-endian unsigned -/
def bigOfBE (b : Bytes) : Nat := fromLE b.reverse

/-- `ReadNum` -/
def readNum (s : Src) : PRes (Nat × Src) :=
  match peekOpCode s with
  | .error e => .error e
  | .ok code =>
    if code == PUSH0 then
      match readOpCode s with
      | .ok (_, s1) => .ok (0, s1)
      | .error e => .error e
    else
      let num : Int := (code.toNat : Int) - 0x51 + 1
      if 1 ≤ num ∧ num ≤ 16 then
        match readOpCode s with
        | .ok (_, s1) => .ok (num.toNat, s1)
        | .error e => .error e
      else
        match readBytes s with
        | .error e => .error e
        | .ok (buff, s1) =>
          let n := int64OfBig (bigOfNeoBytes buff)
          if n > 65535 ∨ n ≤ 16 then .error .numrange else .ok (n.toNat, s1)

/-- `for i := 0; i < int(m); i++ { key, err := parser.ReadPubKey() … }` -/
def readKeys (canon : Bytes → Option Bytes) : Nat → Src → PRes (List Bytes × Src)
  | 0, s => .ok ([], s)
  | k+1, s =>
    match readPubKey canon s with
    | .error e => .error e
    | .ok (key, s1) =>
      match readKeys canon k s1 with
      | .error e => .error e
      | .ok (ks, s2) => .ok (key :: ks, s2)

/-- the `for { … }` loop collecting `buffers` until CHECKMULTISIG; first argument = iteration budget -/
def readBuffers : Nat → Src → PRes (List Bytes × Src)
  | 0, _ => .error .fuel
  | f+1, s =>
    match peekOpCode s with
    | .error e => .error e
    | .ok code =>
      if code == CHECKMULTISIG then
        match readOpCode s with
        | .ok (_, s1) => .ok ([], s1)
        | .error e => .error e
      else
        let one : PRes (Bytes × Src) :=
          if code == PUSH0 then
            match readOpCode s with
            | .ok (_, s1) => .ok ([], s1)                 -- BigIntToNeoBytes(0)
            | .error e => .error e
          else
            let num : Int := (code.toNat : Int) - 0x51 + 1
            if 1 ≤ num ∧ num ≤ 16 then
              match readOpCode s with
              | .ok (_, s1) => .ok ([UInt8.ofNat num.toNat], s1)   -- BigIntToNeoBytes(num), num < 128
              | .error e => .error e
            else readBytes s
        match one with
        | .error e => .error e
        | .ok (b, s1) =>
          match readBuffers f s1 with
          | .error e => .error e
          | .ok (bs, s2) => .ok (b :: bs, s2)

/-- `for i := 0; i < len(buffers)-1; i++ { DeserializePublicKey(buffers[i]) … }` -/
def canonAll (canon : Bytes → Option Bytes) : List Bytes → PRes (List Bytes)
  | [] => .ok []
  | b :: r =>
    match canon b with
    | none => .error .key
    | some k =>
      match canonAll canon r with
      | .error e => .error e
      | .ok ks => .ok (k :: ks)

/-- `ExpectEOF` / `IsEOF`: `source.Len() == 0` (`Len` is 0 when `off >= len`, else `len - off`) -/
def expectEOF (s : Src) : Bool := decide (s.bs.length - s.off = 0)

/-- `GetProgramInfo(program)`: (serialized keys, M) -/
def getProgramInfo (canon : Bytes → Option Bytes) (prog : Bytes) : PRes (List Bytes × Nat) :=
  if prog.length ≤ 2 then .error .short else
  match prog.getLast? with
  | none => .error .short
  | some end_ =>
    if end_ == CHECKSIG then
      match readPubKey canon ⟨prog.take (prog.length - 1), 0⟩ with
      | .error e => .error e
      | .ok (key, s1) => if !expectEOF s1 then .error .trailing else .ok ([key], 1)
    else if end_ == CHECKMULTISIG then
      match readNum ⟨prog, 0⟩ with
      | .error e => .error e
      | .ok (m, s1) =>
        match readKeys canon m s1 with
        | .error e => .error e
        | .ok (keys1, s2) =>
          match readBuffers (s2.bs.length - s2.off + 1) s2 with
          | .error e => .error e
          | .ok (buffers, s3) =>
            if !expectEOF s3 then .error .trailing else
            match buffers.getLast? with
            | none => .error .nolen
            | some last =>
              let n := int64OfBig (bigOfBE last)
              match canonAll canon buffers.dropLast with
              | .error e => .error e
              | .ok keys2 =>
                let keys := keys1 ++ keys2
                if (keys.length : Int) ≠ n then .error .count else
                if !(decide (1 ≤ m) && decide ((m : Int) ≤ n) && decide (n > 1) && decide (n ≤ (maxPubKeys : Int))) then .error .param
                else .ok (keys, m)
    else .error .unsupported

/-- `GetParamInfo`: `for !parser.IsEOF() { ReadBytes }`; first argument = iteration budget -/
def readParams : Nat → Src → PRes (List Bytes)
  | 0, _ => .error .fuel
  | f+1, s =>
    if expectEOF s then .ok [] else
    match readBytes s with
    | .error e => .error e
    | .ok (sig, s1) =>
      match readParams f s1 with
      | .error e => .error e
      | .ok sigs => .ok (sig :: sigs)

def getParamInfo (prog : Bytes) : PRes (List Bytes) := readParams (prog.length + 1) ⟨prog, 0⟩

/-- `ProgramFromParams` -/
def programFromParams (sigs : List Bytes) : Option Bytes := pushAll sigs

end OntVerif.Model.Program
