import OntVerif.Util.Hex
/-!
# Model of `common/address.go` (Base58 / hex forms of an address) and of `github.com/itchyny/base58-go`

Executable, core-only. The Go code goes through three positional number systems:

* bytes  → `big.Int`            (`SetBytes`, base 256, most significant first),
* `big.Int` → decimal string    (`String()` / `SetString(_, 10)`; the itchyny library takes and returns *decimal text*),
* number → base-58 digits       (`Encode` / `Decode`, alphabet `BitcoinEncoding`).

All three are instances of `toLE`/`ofBE` below (digit lists over `Nat`).  A Go `string` is a byte list.
The double SHA-256 is the abstract parameter `H` (only its first four bytes are used, `temps[0:4]`).
-/
namespace OntVerif.Model.Address
open OntVerif.Util

/-! ## positional digits -/

/-- least-significant-first digits of `n` in base `b`; `[]` for 0. The first argument is fuel (`n` itself suffices);
this is the loop `for n > 0 { n, mod = n.DivMod(58); append(mod) }` of `Encode` -/
def toLE (b : Nat) : Nat → Nat → List Nat
  | 0, _ => []
  | f+1, n => if n = 0 then [] else n % b :: toLE b f (n / b)

/-- most-significant-first digits -/
def digits (b n : Nat) : List Nat := (toLE b n n).reverse

def ofLE (b : Nat) : List Nat → Nat
  | [] => 0
  | d :: r => d + b * ofLE b r

/-- the accumulation loop `n = n*b + d` over most-significant-first digits (`SetBytes`, `SetString`, `Decode`) -/
def ofBE (b : Nat) (ds : List Nat) : Nat := ds.foldl (fun acc d => acc * b + d) 0

/-- `new(big.Int).SetBytes(data)` -/
def bigOfBytes (d : Bytes) : Nat := ofBE 256 (d.map (·.toNat))

/-- `x.Bytes()` : minimal big-endian bytes, empty for 0 -/
def bytesOfBig (x : Nat) : Bytes := (digits 256 x).map UInt8.ofNat

/-! ## decimal text -/

/-- `x.String()` for a non-negative big.Int -/
def toDec (x : Nat) : Bytes := if x = 0 then [48] else (digits 10 x).map (fun d => UInt8.ofNat (48 + d))

def isDecDigit (c : UInt8) : Bool := 48 ≤ c.toNat && c.toNat ≤ 57

/-- `new(big.Int).SetString(s, 10)` restricted to what can reach it here (digit strings): `none` = `ok == false`.
(A sign prefix is also accepted by Go; the strings produced by `Decode` never carry one.) -/
def parseDec (s : Bytes) : Option Nat :=
  if s.isEmpty then none
  else if s.all isDecDigit then some (ofBE 10 (s.map (fun c => c.toNat - 48)))
  else none

/-! ## base58 (`base58.BitcoinEncoding`) -/

/-- "123456789ABCDEFGHJKLMNPQRSTUVWXYZabcdefghijkmnopqrstuvwxyz" as character codes -/
def alphabet : List Nat :=
  [49,50,51,52,53,54,55,56,57,
   65,66,67,68,69,70,71,72,74,75,76,77,78,80,81,82,83,84,85,86,87,88,89,90,
   97,98,99,100,101,102,103,104,105,106,107,109,110,111,112,113,114,115,116,117,118,119,120,121,122]

/-- `enc.alphabet[d]` (callers only pass `d < 58`) -/
def alphaAt (d : Nat) : UInt8 := UInt8.ofNat (alphabet.getD d 0)

/-- `enc.decodeMap[c]`, `none` for `-1` -/
def decodeMap (c : UInt8) : Option Nat := alphabet.idxOf? c.toNat

/-- number of leading bytes equal to `c` -/
def leading (c : UInt8) : Bytes → Nat
  | [] => 0
  | x :: r => if x = c then leading c r + 1 else 0

/-- the loop `for _, c := range src { i = decodeMap[c]; if i < 0 { return err } ... }`: all digit values, or `none` -/
def decodeDigits : Bytes → Option (List Nat)
  | [] => some []
  | c :: r =>
    match decodeMap c, decodeDigits r with
    | some d, some ds => some (d :: ds)
    | _, _ => none

/-- `Encoding.Encode(src)`: `src` is decimal text. `none` = error. -/
def b58Encode (src : Bytes) : Option Bytes :=
  if src.isEmpty then some []
  else match parseDec src with
    | none => none
    | some n => some (List.replicate (leading 48 src) (alphaAt 0) ++ (digits 58 n).map alphaAt)

/-- `Encoding.Decode(src)`: returns decimal text; `none` = invalid character. -/
def b58Decode (src : Bytes) : Option Bytes :=
  if src.isEmpty then some []
  else
    -- `c == alphabet[0] && i < len(src)-1`
    let zeros := List.replicate (min (leading (alphaAt 0) src) (src.length - 1)) (48 : UInt8)
    match decodeDigits src with
    | none => none
    | some ds => some (zeros ++ toDec (ofBE 58 ds))

/-! ## `common.Address` -/

inductive Err
  | invalid   -- "invalid address": empty / longer than 2048 / SetString failed
  | char      -- base58 library: invalid character
  | shape     -- "wrong encoded address": not 25 bytes or version byte != 23
  | len       -- AddressParseFromBytes: len != 20
  | verify    -- re-encoding differs from the input
  | hex       -- encoding/hex error
  deriving Repr, DecidableEq

/-- `Address.ToBase58`. `H` = `sha256.Sum256 ∘ sha256.Sum256`. -/
def toBase58 (H : Bytes → Bytes) (a : Bytes) : Bytes :=
  let data := 23 :: a
  let data := data ++ (H data).take 4
  let bi := toDec (bigOfBytes data)
  -- `encoded, _ := base58.BitcoinEncoding.Encode(bi)`: the error is dropped, `encoded` is then nil
  match b58Encode bi with
  | some e => e
  | none => []

def maxBase58AddrLen : Nat := 2048

/-- `AddressFromBase58` -/
def fromBase58 (H : Bytes → Bytes) (s : Bytes) : Except Err Bytes :=
  if s.isEmpty || decide (s.length > maxBase58AddrLen) then .error .invalid else
  match b58Decode s with
  | none => .error .char
  | some dec =>
    match parseDec dec with
    | none => .error .invalid
    | some x =>
      let buf := bytesOfBig x
      if buf.length ≠ 25 || buf.head? ≠ some 23 then .error .shape else
      let ph := (buf.drop 1).take 20      -- buf[1:21]
      if ph.length ≠ 20 then .error .len else
      if toBase58 H ph ≠ s then .error .verify else .ok ph

/-! ## hex -/

def hexChar (n : Nat) : UInt8 := UInt8.ofNat (if n < 10 then 48 + n else 87 + n)

/-- `fmt.Sprintf("%x", bs)` / `hex.EncodeToString` -/
def hexEncode : Bytes → Bytes
  | [] => []
  | b :: r => hexChar (b.toNat / 16) :: hexChar (b.toNat % 16) :: hexEncode r

/-- `encoding/hex.fromHexChar` -/
def hexVal (c : UInt8) : Option Nat :=
  let n := c.toNat
  if 48 ≤ n ∧ n ≤ 57 then some (n - 48)
  else if 97 ≤ n ∧ n ≤ 102 then some (n - 87)
  else if 65 ≤ n ∧ n ≤ 70 then some (n - 55)
  else none

/-- `hex.DecodeString`: `none` = `InvalidByteError` or `ErrLength` -/
def hexDecode : Bytes → Option Bytes
  | [] => some []
  | [_] => none
  | a :: b :: r =>
    match hexVal a, hexVal b, hexDecode r with
    | some x, some y, some t => some (UInt8.ofNat (x * 16 + y) :: t)
    | _, _, _ => none

/-- `Address.ToHexString` -/
def toHexString (a : Bytes) : Bytes := hexEncode a.reverse

/-- `AddressFromHexString` -/
def fromHexString (s : Bytes) : Except Err Bytes :=
  match hexDecode s with
  | none => .error .hex
  | some hx =>
    let f := hx.reverse
    if f.length ≠ 20 then .error .len else .ok f

end OntVerif.Model.Address
