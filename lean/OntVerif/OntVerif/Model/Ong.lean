import OntVerif.Gen.Ong
/-!
# Model of the ONG unbinding schedule (property C09)

Mirrors `smartcontract/service/native/utils/unbind_ong.go` (`CalcUnbindOng`, `CalcGovernanceUnbindOng`) and
`common/config/config.go:GetGovUnboundDeadline`, branch by branch, over a configuration record whose fields are
filled from the regenerated facts `Gen/Ong.lean` (`cfgOf networkId`).

* A Go run-time panic (array index out of range, division by zero, the explicit `panic("incompatible constants
  setting")`) is `none`.
* `uint32` subtraction/multiplication and the final `uint64` multiplication wrap as in Go.  The `uint64`
  accumulators (`amount`, `count`) are natural numbers: `Props/C09.lean` proves they stay far below 2^64 on every network
  configuration (`C09_amounts_bounded`).
* `Variant.asShipped` is the code as it is (`startOffset < deadline`), `Variant.sound` the repaired comparison
  (`startOffset <= deadline`, `fixes/C09-gov-deadline.patch`).
-/
namespace OntVerif.Model.Ong

def two32 : Nat := 4294967296
def two64 : Nat := 18446744073709551616

/-- Go `uint32` subtraction -/
def u32sub (a b : Nat) : Nat := (a % two32 + two32 - b % two32) % two32
/-- Go `uint64` subtraction -/
def u64sub (a b : Nat) : Nat := (a % two64 + two64 - b % two64) % two64

inductive Variant where
  | asShipped
  | sound
  deriving DecidableEq, Repr

/-- what the three functions read from package-level state -/
structure Cfg where
  /-- `TIME_INTERVAL` (uint32) -/
  TI : Nat
  /-- `GENERATION_AMOUNT` -/
  G : List Nat
  /-- `NEW_GENERATION_AMOUNT` -/
  NG : List Nat
  /-- `config.GetOntHolderUnboundDeadline()` for the configured network -/
  D : Nat
  /-- `constants.ONT_TOTAL_SUPPLY` -/
  supply : Nat

/-- the network configurations of the tree under check -/
def cfgOf (networkId : Nat) : Cfg :=
  { TI := Gen.Ong.TIME_INTERVAL, G := Gen.Ong.GENERATION_AMOUNT, NG := Gen.Ong.NEW_GENERATION_AMOUNT,
    D := Gen.Ong.GetOntHolderUnboundDeadline networkId, supply := Gen.Ong.ONT_TOTAL_SUPPLY }

/-- `for ustart < uend { amount += uint64(TIME_INTERVAL-istart) * A[ustart]; ustart++; istart = 0 }`
run for `n = uend - ustart` iterations; state `(ustart, istart, amount)` -/
def segLoop (TI : Nat) (A : List Nat) : Nat → Nat → Nat → Nat → Option (Nat × Nat × Nat)
  | 0, u, i, amt => some (u, i, amt)
  | n + 1, u, i, amt =>
    match A[u]? with
    | none => none
    | some a => segLoop TI A n (u + 1) 0 (amt + (TI - i) * a)

/-- the common tail of both functions: split offsets, loop, last partial interval -/
def segment (TI : Nat) (A : List Nat) (s e : Nat) : Option Nat :=
  if TI = 0 then none
  else
    match segLoop TI A (e / TI - s / TI) (s / TI) (s % TI) 0 with
    | none => none
    | some (u, i, amt) =>
      match A[u]? with
      | none => none
      | some a => some (amt + u32sub (e % TI) i * a)

/-- `amount` of `CalcUnbindOng` before the multiplication by `balance` -/
def holderAmount (c : Cfg) (s e : Nat) : Option Nat :=
  if s ≥ e then some 0
  else if s < c.D then segment c.TI c.G s (if e ≥ c.D then c.D else e)
  else some 0

/-- `CalcUnbindOng(balance, startOffset, endOffset)` -/
def calcUnbind (c : Cfg) (balance s e : Nat) : Option Nat :=
  (holderAmount c s e).map fun a => (a * balance) % two64

/-- `for i := lo; i < lo+n; i++ { count += A[i] * uint64(TI) }` -/
def countLoop (TI : Nat) (A : List Nat) : Nat → Nat → Nat → Option Nat
  | 0, _, count => some count
  | n + 1, i, count =>
    match A[i]? with
    | none => none
    | some a => countLoop TI A n (i + 1) (count + a * TI)

/-- `config.GetGovUnboundDeadline()` : (deadline, gap) -/
def govDeadline (c : Cfg) : Option (Nat × Nat) :=
  if c.TI = 0 then none
  else
    let index := c.D / c.TI
    match countLoop c.TI c.G index 0 0 with
    | none => none
    | some count0 =>
      let gap := c.D - index * c.TI
      match c.G[index]?, c.NG[index]? with
      | some g, some ng =>
        let count1 := count0 + (g * gap + ng * (c.TI - gap))
        match countLoop c.TI c.NG (c.NG.length - (index + 1)) (index + 1) count1 with
        | none => none
        | some count =>
          match c.NG[c.NG.length - 1]? with
          | none => none
          | some last =>
            if last ≠ 3 ∨ ¬ (u64sub count (3 * c.TI) < c.supply ∧ c.supply ≤ count) then none
            else
              some (u32sub (u32sub ((c.TI * c.NG.length) % two32) ((count - c.supply) % two32 / 3)) 1,
                    3 - (count - c.supply) % 3)
      | _, _ => none

/-- `amount` of `CalcGovernanceUnbindOng` before the multiplication by `ONT_TOTAL_SUPPLY` -/
def govAmount (v : Variant) (c : Cfg) (s e : Nat) : Option Nat :=
  if e < c.D then some 0
  else
    let s1 := if s < c.D then c.D else s
    if s1 ≥ e then some 0
    else
      match govDeadline c with
      | none => none
      | some (deadline, gapc) =>
        let enter : Bool := match v with
          | .asShipped => decide (s1 < deadline)
          | .sound => decide (s1 ≤ deadline)
        if enter then
          let e1 := if e > deadline then deadline else e
          let gap := if e > deadline then gapc else 0
          match segment c.TI c.NG s1 e1 with
          | none => none
          | some amt => some (amt + gap)
        else some 0

/-- `CalcGovernanceUnbindOng(startOffset, endOffset)` -/
def calcGov (v : Variant) (c : Cfg) (s e : Nat) : Option Nat :=
  (govAmount v c s e).map fun a => (a * c.supply) % two64

end OntVerif.Model.Ong
