import OntVerif.Model.Codec
/-!
# Model of NeoVM values: `vm/neovm/types/{neovm_value,array_value,struct_value,map_value}.go`

Executable, core-only.  Shared by C14 (serialization round trip / cycle rejection) and C15 (independence of Go map
iteration order).

* **Values live on an explicit heap.**  `ArrayValue`, `StructValue` and `MapValue` are Go pointers; a `VmValue` of
  container type is a *reference* (`Val.ref r`, an index into `Heap = List Obj`).  Shared sub-structures and cycles
  are therefore ordinary heaps (`a = [1, a]` is `[Obj.arr [int 1, ref 0]]`).
* **Integers** are `Int`: the two Go representations (`integerType` int64 / `bigintType` *big.Int) have the same
  `AsBytes`, so every function modelled here is insensitive to the representation ("equal up to integer representation").
* **Go maps** (`map[string][2]VmValue`) are represented by their association list *sorted by key string*
  (`Entry.key` = `GetMapKey` of the key value).  Two Go maps with the same entries have the same representation
  ("equal up to map key order").  Every Go `for … range m` takes the iteration order as an explicit parameter
  `perm : Perm`, indexed by the *call path* (position of the dynamic call in the recursion tree) and the map, so each
  `range` statement may see a different order — as in Go.
* **The cycle/depth detector** `circularRefAndDepthDetection` is mirrored literally in `detShipped`: it `return`s inside
  the `for … range`, so only the first element of an array/struct is ever inspected and the map branch follows the
  first entry in Go's iteration order.  `Variant.sound` is the behaviour for which the full theorem is proved
  (`detSound` = cycle reachable ∨ the shipped depth rule made order independent).
-/
namespace OntVerif.Model.NeoVal
open OntVerif.Util OntVerif.Model.Codec

abbrev Ref := Nat

inductive Val
  | bytes (b : Bytes)
  | bool (b : Bool)
  | int (z : Int)
  | ref (r : Ref)
  deriving DecidableEq, Repr, Inhabited

/-- one map entry: `Data[key] = [2]VmValue{kv, val}` -/
structure Entry where
  key : Bytes
  kv  : Val
  val : Val
  deriving DecidableEq, Repr, Inhabited

inductive Obj
  | arr (vs : List Val)
  | struct (vs : List Val)
  | map (es : List Entry)
  deriving DecidableEq, Repr, Inhabited

abbrev Heap := List Obj

def MAX_STRUCT_DEPTH : Nat := 10
def MAX_BYTEARRAY_SIZE : Nat := 1048576
def MAX_ARRAY_SIZE : Nat := 1024
def MAX_COUNT : Nat := 1024
def MAX_INT_SIZE : Nat := 32

/-! ## `common.BigIntToNeoBytes` / `BigIntFromNeoBytes`: minimal two's-complement little-endian -/

def toNeoAux : Nat → Int → Bytes
  | 0, _ => []
  | f+1, z =>
    let b := UInt8.ofNat (z % 256).toNat
    if -128 ≤ z ∧ z < 128 then [b] else b :: toNeoAux f (z / 256)

def toNeo (z : Int) : Bytes := if z = 0 then [] else toNeoAux z.natAbs z

/-- signed little-endian value (`[] ↦ 0`) -/
def fromNeo : Bytes → Int
  | [] => 0
  | [b] => if b.toNat < 128 then (b.toNat : Int) else (b.toNat : Int) - 256
  | b :: r => (b.toNat : Int) + 256 * fromNeo r

/-- `len(val.Bytes()) > MAX_INT_SIZE` (magnitude needs more than 32 bytes) -/
def intTooBig (z : Int) : Bool := decide (z.natAbs ≥ 256 ^ MAX_INT_SIZE)

/-! ## map keys and the sorted representation -/

/-- `VmValue.AsBytes` for primitive values; `none` = `ERR_BAD_TYPE` (containers) -/
def asBytes : Val → Option Bytes
  | .bytes d => some d
  | .bool b => some [if b then 1 else 0]
  | .int z => some (toNeo z)
  | .ref _ => none

/-- Go string comparison `a <= b` (bytewise lexicographic) -/
def ble : Bytes → Bytes → Bool
  | [], _ => true
  | _ :: _, [] => false
  | a :: as, b :: bs => decide (a.toNat < b.toNat) || (a.toNat == b.toNat && ble as bs)

/-- `m.Data[key] = [2]VmValue{kv, v}` on the key-sorted association list -/
def mapSet (e : Entry) : List Entry → List Entry
  | [] => [e]
  | x :: xs =>
    if x.key = e.key then e :: xs
    else if ble e.key x.key then e :: x :: xs
    else x :: mapSet e xs

def mapRemove (k : Bytes) : List Entry → List Entry
  | [] => []
  | x :: xs => if x.key = k then xs else x :: mapRemove k xs

def mapGet (k : Bytes) : List Entry → Option Entry
  | [] => none
  | x :: xs => if x.key = k then some x else mapGet k xs

/-- insertion sort by key (`sort.Strings` on the keys collected by `for k := range m`) -/
def insertE (e : Entry) : List Entry → List Entry
  | [] => [e]
  | x :: xs => if ble e.key x.key then e :: x :: xs else x :: insertE e xs

def sortE : List Entry → List Entry
  | [] => []
  | e :: es => insertE e (sortE es)

/-- Iteration order of one `for … range m` statement: call path → map → entries ↦ entries in visiting order. -/
abbrev Perm := List Nat → Ref → List Entry → List Entry

def Perm.valid (p : Perm) : Prop := ∀ path r es, (p path r es).Perm es

def Perm.id : Perm := fun _ _ es => es

/-- `getMapSortedKey`: collect in iteration order, then sort -/
def sortedEntries (perm : Perm) (path : List Nat) (r : Ref) (es : List Entry) : List Entry :=
  sortE (perm path r es)

/-! ## the cycle / depth detector -/

inductive Variant | asShipped | sound
  deriving DecidableEq, Repr

/-- `circularRefAndDepthDetection(visited, depth)` as written. The first argument is `MAX_STRUCT_DEPTH + 1 - depth`
(`0` ⇔ `depth > MAX_STRUCT_DEPTH`).  `visited` is keyed by the address of the backing store, modelled by the
reference.  `for _, v := range data { return f(v) }` inspects the first element in iteration order only; the
`delete(visited, p); return false` after the loop is reached only for an empty map. -/
def detShipped (perm : Perm) (path : List Nat) (h : Heap) : Nat → List Ref → Val → Bool
  | 0, _, _ => true
  | k+1, vis, .ref r =>
    match h[r]? with
    | some (.arr vs) | some (.struct vs) =>
      match vs with
      | [] => false
      | v0 :: _ => if vis.contains r then true else detShipped perm path h k (r :: vis) v0
    | some (.map es) =>
      if vis.contains r then true else
      match perm path r es with
      | [] => false
      | e :: _ => detShipped perm path h k (r :: vis) e.val
    | none => false
  | _+1, _, _ => false

/-- children that are references -/
def Obj.kids : Obj → List Val
  | .arr vs => vs
  | .struct vs => vs
  | .map es => es.map (·.val)

def isSafeVal (s : List Bool) : Val → Bool
  | .ref r => s.getD r false
  | _ => true

/-- one round: an object is safe when all its children are safe -/
def safeStep (h : Heap) (s : List Bool) : List Bool := h.map fun o => o.kids.all (isSafeVal s)

/-- after `k` rounds exactly the objects of height `< k` (no path of `k` edges leaves them) are safe -/
def safeIter (h : Heap) : Nat → List Bool
  | 0 => h.map fun _ => false
  | k+1 => safeStep h (safeIter h k)

/-- a cycle is reachable from `v` (`h.length` rounds: polynomial, every object is inspected once per round) -/
def hasCycle (h : Heap) (v : Val) : Bool := !isSafeVal (safeIter h h.length) v

/-- the shipped depth rule (first-element chain longer than `MAX_STRUCT_DEPTH`), made independent of the map order:
a map is too deep when *some* entry is. First argument as in `detShipped`. -/
def chainDeep (perm : Perm) (path : List Nat) (h : Heap) : Nat → Val → Bool
  | 0, _ => true
  | k+1, .ref r =>
    match h[r]? with
    | some (.arr vs) | some (.struct vs) =>
      match vs with
      | [] => false
      | v0 :: _ => chainDeep perm path h k v0
    | some (.map es) => (perm path r es).any fun e => chainDeep perm path h k e.val
    | none => false
  | _+1, _ => false

def detSound (perm : Perm) (path : List Nat) (h : Heap) (v : Val) : Bool :=
  hasCycle h v || chainDeep perm path h (MAX_STRUCT_DEPTH + 1) v

/-- `VmValue.CircularRefAndDepthDetection()` -/
def detect (var : Variant) (perm : Perm) (path : List Nat) (h : Heap) (v : Val) : Bool :=
  match var with
  | .asShipped => detShipped perm path h (MAX_STRUCT_DEPTH + 1) [] v
  | .sound => detSound perm path h v

/-! ## `Serialize` -/

inductive VErr
  | cycle      -- "can not serialize circular reference data"
  | size       -- "can not serialize length over the uplimit"
  | badtype    -- BuildParamToNative on a map
  | dangling   -- reference outside the heap (not a Go state)
  | fuel       -- recursion budget exhausted: the Go recursion does not return (stack overflow)
  deriving DecidableEq, Repr

/-- children of a container in the order `Serialize` visits them; a map is visited in sorted key order -/
def serKids (perm : Perm) (path : List Nat) (r : Ref) : Obj → List Val
  | .arr vs => vs
  | .struct vs => vs
  | .map es => (sortedEntries perm path r es).flatMap fun e => [e.kv, e.val]

def tagOf : Obj → UInt8
  | .arr _ => 0x80
  | .struct _ => 0x81
  | .map _ => 0x82

/-- number written after the tag: `len(Data)` -/
def countOf : Obj → Nat
  | .arr vs => vs.length
  | .struct vs => vs.length
  | .map es => es.length

def encLeaf : Val → Bytes
  | .bytes d => 0x00 :: writeVarBytes d
  | .bool b => 0x01 :: writeBool b
  | .int z => 0x02 :: writeVarBytes (toNeo z)
  | .ref _ => []

/-- fold of a recursive call over the children; `size` = `sink.Size()` before, `i` = index of the first child -/
def serList (rec : List Nat → Val → Nat → Except VErr Bytes) (path : List Nat) :
    Nat → List Val → Nat → Except VErr Bytes
  | _, [], _ => .ok []
  | i, v :: vs, size =>
    match rec (i :: path) v size with
    | .error e => .error e
    | .ok o =>
      match serList rec path (i+1) vs (size + o.length) with
      | .error e => .error e
      | .ok os => .ok (o ++ os)

/-- `sink.Size() > MAX_BYTEARRAY_SIZE` at the end of every `Serialize` call (cumulative size) -/
def chkSize (size : Nat) (out : Bytes) : Except VErr Bytes :=
  if size + out.length > MAX_BYTEARRAY_SIZE then .error .size else .ok out

/-- `VmValue.Serialize(sink)`: returns the bytes this call appends. `size` = bytes already in the sink.
The detector runs at **every** level (each recursive `Serialize` starts with `CircularRefAndDepthDetection()`). -/
def ser (var : Variant) (perm : Perm) (h : Heap) : Nat → List Nat → Val → Nat → Except VErr Bytes
  | 0, _, _, _ => .error .fuel
  | f+1, path, v, size =>
    if detect var perm path h v then .error .cycle else
    match v with
    | .ref r =>
      match h[r]? with
      | none => .error .dangling
      | some o =>
        let hdr := tagOf o :: writeVarUint (countOf o)
        match serList (ser var perm h f) path 0 (serKids perm path r o) (size + hdr.length) with
        | .error e => .error e
        | .ok body => chkSize size (hdr ++ body)
    | leaf => chkSize size (encLeaf leaf)

/-- recursion budget that is never exhausted by a run of the Go code that returns: every nested call has written at
least one byte, and every call that returns checks the size -/
def serFuel : Nat := MAX_BYTEARRAY_SIZE + 2

def serialize (var : Variant) (perm : Perm) (h : Heap) (v : Val) : Except VErr Bytes :=
  ser var perm h serFuel [] v 0

/-! ## `BuildParamToNative` (argument marshalling for native contract calls): no size limit -/

def natLeaf : Val → Bytes
  | .bytes d => writeVarBytes d
  | .bool b => writeBool b
  | .int z => writeVarBytes (toNeo z)
  | .ref _ => []

/-- the recursion of `BuildParamToNative` **before** repair 060d8e9c (no on-path set): kept because C12's lemmas about the
historical divergence on `a = [1, a]` are stated on it. Not used by `buildParamToNative` any more. -/
def natv (var : Variant) (perm : Perm) (h : Heap) : Nat → List Nat → Val → Except VErr Bytes
  | 0, _, _ => .error .fuel
  | f+1, path, v =>
    if detect var perm path h v then .error .cycle else
    match v with
    | .ref r =>
      match h[r]? with
      | none => .error .dangling
      | some (.arr vs) =>
        match serList (fun p v _ => natv var perm h f p v) path 0 vs 0 with
        | .error e => .error e
        | .ok body => .ok (writeVarBytes (toNeo vs.length) ++ body)
      | some (.struct vs) => serList (fun p v _ => natv var perm h f p v) path 0 vs 0
      | some (.map _) => .error .badtype
    | leaf => .ok (natLeaf leaf)

/-- `buildParamToNativeOnPath(sink, onPath)` + `buildParamToNative(sink, onPath)` as repaired (060d8e9c): the detector
runs at every level as before; in addition a non-empty array / struct whose backing store is already on the current
recursion path (`on`) is rejected with the circular-reference error; `defer delete(onPath, p)` = the set is the path.
A map is rejected with `ERR_BAD_TYPE` before anything below it is visited. -/
def natvP (var : Variant) (perm : Perm) (h : Heap) : Nat → List Nat → List Ref → Val → Except VErr Bytes
  | 0, _, _, _ => .error .fuel
  | f+1, path, on, v =>
    if detect var perm path h v then .error .cycle else
    match v with
    | .ref r =>
      match h[r]? with
      | none => .error .dangling
      | some (.arr vs) =>
        if decide (vs.length > 0) && on.contains r then .error .cycle else
        match serList (fun p v _ => natvP var perm h f p (r :: on) v) path 0 vs 0 with
        | .error e => .error e
        | .ok body => .ok (writeVarBytes (toNeo vs.length) ++ body)
      | some (.struct vs) =>
        if decide (vs.length > 0) && on.contains r then .error .cycle else
        serList (fun p v _ => natvP var perm h f p (r :: on) v) path 0 vs 0
      | some (.map _) => .error .badtype
    | leaf => .ok (natLeaf leaf)

/-- `VmValue.BuildParamToNative(sink)`. The containers on the recursion path are pairwise different, so the recursion
is at most `|heap| + 1` deep: the budget is never exhausted (`Props/C14.lean: C14_buildParam_terminates`). -/
def buildParamToNative (var : Variant) (perm : Perm) (h : Heap) (v : Val) : Except VErr Bytes :=
  natvP var perm h (h.length + 2) [] [] v

/-! ## `Deserialize`: produces a fresh tree (every container is a new object) -/

inductive Tree
  | bytes (b : Bytes)
  | bool (b : Bool)
  | int (z : Int)
  | arr (ts : List Tree)
  | struct (ts : List Tree)
  | map (es : List (Bytes × Tree × Tree))   -- sorted by key
  deriving Repr, Inhabited

inductive DErr
  | eof | irregular | depth | itemsize | bigint | arraysize | badtype
  | panic   -- a Go slice expression out of range (proved unreachable)
  | fuel    -- proved unreachable
  deriving DecidableEq, Repr

def Tree.asBytes : Tree → Option Bytes
  | .bytes d => some d
  | .bool b => some [if b then 1 else 0]
  | .int z => some (toNeo z)
  | _ => none

/-- `mapSet` on trees -/
def tmapSet (k : Bytes) (kv v : Tree) : List (Bytes × Tree × Tree) → List (Bytes × Tree × Tree)
  | [] => [(k, kv, v)]
  | x :: xs =>
    if x.1 = k then (k, kv, v) :: xs
    else if ble k x.1 then (k, kv, v) :: x :: xs
    else x :: tmapSet k kv v xs

/-- `for i := 0; i < int(l); i++`: a length `≥ 2^63` is negative as `int` -/
def loopCount (l : Nat) : Nat := if l < 9223372036854775808 then l else 0

/-- elements of an array / struct: decode, then `Append` (fails when 1024 elements are already there) -/
def desList (rec : Src → Except DErr (Tree × Src)) : Nat → Src → List Tree → Except DErr (List Tree × Src)
  | 0, s, acc => .ok (acc.reverse, s)
  | n+1, s, acc =>
    match rec s with
    | .error e => .error e
    | .ok (t, s') =>
      if acc.length ≥ MAX_ARRAY_SIZE then .error .arraysize
      else desList rec n s' (t :: acc)

def desMap (rec : Src → Except DErr (Tree × Src)) :
    Nat → Src → List (Bytes × Tree × Tree) → Except DErr (List (Bytes × Tree × Tree) × Src)
  | 0, s, acc => .ok (acc, s)
  | n+1, s, acc =>
    match rec s with
    | .error e => .error e
    | .ok (k, s1) =>
      match rec s1 with
      | .error e => .error e
      | .ok (v, s2) =>
        match k.asBytes with
        | none => .error .badtype
        | some kb => desMap rec n s2 (tmapSet kb k v acc)

/-- `NextVarUint` followed by the eof / irregular checks -/
def readCount (s : Src) : Except DErr (Nat × Src) :=
  match nextVarUint s with
  | none => .error .panic
  | some (r, s') => if r.eof then .error .eof else if r.irregular then .error .irregular else .ok (r.val, s')

def readVarBytes (s : Src) : Except DErr (Bytes × Src) :=
  match nextVarBytes s with
  | none => .error .panic
  | some ((d, _, irr, eof), s') => if eof then .error .eof else if irr then .error .irregular else .ok (d, s')

/-- `VmValue.deserialize(source, depth)`; first argument: recursion budget -/
def deser : Nat → Src → Nat → Except DErr (Tree × Src)
  | 0, _, _ => .error .fuel
  | f+1, s, depth =>
    if depth > MAX_COUNT then .error .depth else
    let ((t, eof), s1) := nextByte s
    if eof then .error .eof else
    if t == 0x01 then
      let ((b, irr, eof), s2) := nextBool s1
      if eof then .error .eof else if irr then .error .irregular else .ok (.bool b, s2)
    else if t == 0x00 then
      match readVarBytes s1 with
      | .error e => .error e
      | .ok (d, s2) => if d.length > MAX_BYTEARRAY_SIZE then .error .itemsize else .ok (.bytes d, s2)
    else if t == 0x02 then
      match readVarBytes s1 with
      | .error e => .error e
      | .ok (d, s2) => if intTooBig (fromNeo d) then .error .bigint else .ok (.int (fromNeo d), s2)
    else if t == 0x80 then
      match readCount s1 with
      | .error e => .error e
      | .ok (l, s2) =>
        match desList (fun s => deser f s (depth + 1)) (loopCount l) s2 [] with
        | .error e => .error e
        | .ok (ts, s3) => .ok (.arr ts, s3)
    else if t == 0x82 then
      match readCount s1 with
      | .error e => .error e
      | .ok (l, s2) =>
        match desMap (fun s => deser f s (depth + 1)) (loopCount l) s2 [] with
        | .error e => .error e
        | .ok (es, s3) => .ok (.map es, s3)
    else if t == 0x81 then
      match readCount s1 with
      | .error e => .error e
      | .ok (l, s2) =>
        match desList (fun s => deser f s (depth + 1)) (loopCount l) s2 [] with
        | .error e => .error e
        | .ok (ts, s3) => .ok (.struct ts, s3)
    else .error .badtype

/-- `VmValue.Deserialize(source)` -/
def deserialize (bs : Bytes) : Except DErr (Tree × Src) := deser (MAX_COUNT + 2) ⟨bs, 0⟩ 0

/-! ## unfolding a heap value into the tree it denotes (exists iff no cycle is reachable) -/

def unfoldList (rec : Val → Option Tree) : List Val → Option (List Tree)
  | [] => some []
  | v :: vs =>
    match rec v with
    | none => none
    | some t => match unfoldList rec vs with
      | none => none
      | some ts => some (t :: ts)

def unfoldEntries (rec : Val → Option Tree) : List Entry → Option (List (Bytes × Tree × Tree))
  | [] => some []
  | e :: es =>
    match rec e.kv, rec e.val with
    | some k, some v => match unfoldEntries rec es with
      | none => none
      | some r => some ((e.key, k, v) :: r)
    | _, _ => none

def unfold (h : Heap) : Nat → Val → Option Tree
  | _, .bytes d => some (.bytes d)
  | _, .bool b => some (.bool b)
  | _, .int z => some (.int z)
  | 0, .ref _ => none
  | f+1, .ref r =>
    match h[r]? with
    | none => none
    | some (.arr vs) => (unfoldList (unfold h f) vs).map .arr
    | some (.struct vs) => (unfoldList (unfold h f) vs).map .struct
    | some (.map es) => (unfoldEntries (unfold h f) es).map .map

end OntVerif.Model.NeoVal
