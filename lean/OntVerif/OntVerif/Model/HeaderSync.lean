import OntVerif.Gen.HeaderSync
/-!
# Header-sync native contract (C33)

Model of `smartcontract/service/native/cross_chain/header_sync` (`SyncGenesisHeader`, `SyncBlockHeader`, `ProcessHeader`,
`VerifyHeader`, `findKeyHeight`, `putConsensusPeers`, `UpdateConsensusPeer`) and of
`core/signature.VerifyMultiSignature`.

* Keys, messages and signatures are abstract: `verify : Key → Msg → Sig → Bool` is a parameter. A signature entry of a
  header is `Option Sig` (`none` = bytes that `signature.Deserialize` rejects).
* The count condition and the `m` handed to `VerifyMultiSignature` are **generated from the Go source** (`Gen/HeaderSync.lean`).
* `Variant.asShipped` is the tree as pinned; `Variant.sound` is the tree with `fixes/C33-distinct-bookkeepers.patch`
  (duplicate bookkeeper ⇒ reject, inside the membership loop).
* Go maps: `ConsensusPeers.PeerMap` is a duplicate-free list of ids (`dedup`), its `len` is the list length.
-/
namespace OntVerif.Model.HeaderSync
open OntVerif.Gen.HeaderSync

inductive Variant | asShipped | sound
  deriving DecidableEq, Repr

/-! ## core/signature.VerifyMultiSignature -/

inductive MSErr | notEnough | badSig | failed
  deriving DecidableEq, Repr

/-- the inner `for j` loop: the first position that is not masked and whose key verifies the signature gets masked.
A slot is `(keys[j], mask[j])`. `none` = `valid` stayed false. -/
def matchSig {Key : Type} (vf : Key → Bool) : List (Key × Bool) → Option (List (Key × Bool))
  | [] => none
  | (k, used) :: r =>
    if used then (matchSig vf r).map ((k, used) :: ·)
    else if vf k then some ((k, true) :: r)
    else (matchSig vf r).map ((k, used) :: ·)

/-- the outer `for i := 0; i < m; i++` loop over `sigs[0..m)` -/
def multiLoop {Key Msg Sig : Type} (verify : Key → Msg → Sig → Bool) (data : Msg) :
    List (Option Sig) → List (Key × Bool) → Except MSErr Unit
  | [], _ => .ok ()
  | none :: _, _ => .error .badSig
  | some s :: r, slots =>
    match matchSig (fun k => verify k data s) slots with
    | none => .error .failed
    | some slots' => multiLoop verify data r slots'

def verifyMultiSignature {Key Msg Sig : Type} (verify : Key → Msg → Sig → Bool) (data : Msg) (keys : List Key) (m : Nat)
    (sigs : List (Option Sig)) : Except MSErr Unit :=
  if sigs.length < m then .error .notEnough
  else multiLoop verify data (sigs.take m) (keys.map fun k => (k, false))

/-! ## header_sync.VerifyHeader, given the peer set in force -/

inductive VErr | noKeyHeight | noPeers | count | member | dup | multisig (e : MSErr) | payload | witness
  deriving DecidableEq, Repr

/-- the membership loop `for _, bookkeeper := range header.Bookkeepers`; `seen` is `usedPubKey` of the repaired code -/
def memberLoop {Key : Type} [DecidableEq Key] (v : Variant) (peers : List Key) : List Key → List Key → Except VErr Unit
  | [], _ => .ok ()
  | b :: r, seen =>
    if b ∉ peers then .error .member
    else if v = .sound ∧ b ∈ seen then .error .dup
    else memberLoop v peers r (b :: seen)

def verifyHeaderWith {Key Msg Sig : Type} [DecidableEq Key] (v : Variant) (verify : Key → Msg → Sig → Bool)
    (peers : List Key) (data : Msg) (bks : List Key) (sigs : List (Option Sig)) : Except VErr Unit :=
  if countRejects bks.length peers.length then .error .count
  else match memberLoop v peers bks [] with
    | .error e => .error e
    | .ok () =>
      match verifyMultiSignature verify data bks (multisigM bks.length peers.length) sigs with
      | .error e => .error (.multisig e)
      | .ok () => .ok ()

/-! ## contract state -/

/-- `ConsensusPayload`: no `new_chain_config`, not JSON, or a new peer list (ids as listed, duplicates possible) -/
inductive Cfg (Key : Type) | none | bad | peers (ps : List Key)

structure Hdr (Key Msg Sig : Type) where
  chain : Nat
  height : Nat
  data : Msg                       -- header.Hash(), computed from the unsigned part
  bks : List Key
  sigs : List (Option Sig)
  cfg : Cfg Key

structure St (Key : Type) where
  headers : List (Nat × Nat) := []                  -- HEADER_INDEX: (chain, height) with a stored header
  keyHeights : List (Nat × List Nat) := []          -- KEY_HEIGHTS per chain, as stored (sorted big → small)
  peers : List ((Nat × Nat) × List Key) := []       -- CONSENSUS_PEER: (chain, key height) ↦ PeerMap ids

/-- map insertion: `PeerMap[p.ID] = …` for each listed peer -/
def dedup {Key : Type} [DecidableEq Key] : List Key → List Key
  | [] => []
  | k :: r => if k ∈ r then dedup r else k :: dedup r

def getKeyHeights {Key : Type} (st : St Key) (chain : Nat) : List Nat :=
  match st.keyHeights.find? (·.1 == chain) with
  | some (_, l) => l
  | none => []

/-- `append` then `sort.SliceStable(big → small)` on a list that is already sorted -/
def insertDesc (h : Nat) : List Nat → List Nat
  | [] => [h]
  | x :: r => if x < h then h :: x :: r else x :: insertDesc h r

def putAssoc {α β : Type} [BEq α] (k : α) (v : β) : List (α × β) → List (α × β)
  | [] => [(k, v)]
  | (k', v') :: r => if k' == k then (k, v) :: r else (k', v') :: putAssoc k v r

def getPeers {Key : Type} (st : St Key) (chain kh : Nat) : Option (List Key) :=
  (st.peers.find? (·.1 == (chain, kh))).map (·.2)

/-- `findKeyHeight`: the first stored key height `v` with `height > v` -/
def findKeyHeight {Key : Type} (st : St Key) (chain height : Nat) : Option Nat :=
  (getKeyHeights st chain).find? (fun v => decide (height > v))

def putHeader {Key : Type} (st : St Key) (chain height : Nat) : St Key :=
  if (chain, height) ∈ st.headers then st else { st with headers := (chain, height) :: st.headers }

/-- `UpdateConsensusPeer` -/
def updateConsensusPeer {Key : Type} [DecidableEq Key] (st : St Key) (chain height : Nat) : Cfg Key → Except VErr (St Key)
  | .none => .ok st
  | .bad => .error .payload
  | .peers ps => .ok { st with
      peers := putAssoc (chain, height) (dedup ps) st.peers
      keyHeights := putAssoc chain (insertDesc height (getKeyHeights st chain)) st.keyHeights }

/-- `VerifyHeader` -/
def verifyHeader {Key Msg Sig : Type} [DecidableEq Key] (v : Variant) (verify : Key → Msg → Sig → Bool) (st : St Key)
    (h : Hdr Key Msg Sig) : Except VErr Unit :=
  match findKeyHeight st h.chain h.height with
  | none => .error .noKeyHeight
  | some kh =>
    match getPeers st h.chain kh with
    | none => .error .noPeers
    | some peers => verifyHeaderWith v verify peers h.data h.bks h.sigs

/-- `ProcessHeader` -/
def processHeader {Key Msg Sig : Type} [DecidableEq Key] (v : Variant) (verify : Key → Msg → Sig → Bool) (st : St Key)
    (h : Hdr Key Msg Sig) : Except VErr (St Key) :=
  match verifyHeader v verify st h with
  | .error e => .error e
  | .ok () => updateConsensusPeer (putHeader st h.chain h.height) h.chain h.height h.cfg

/-- `SyncBlockHeader` with one header: an already stored height is skipped (`ok`, nothing changes);
an error reverts the transaction. Returns (succeeded, new state). -/
def syncBlockHeader {Key Msg Sig : Type} [DecidableEq Key] (v : Variant) (verify : Key → Msg → Sig → Bool) (st : St Key)
    (h : Hdr Key Msg Sig) : Bool × St Key :=
  if (h.chain, h.height) ∈ st.headers then (true, st)
  else match processHeader v verify st h with
    | .ok st' => (true, st')
    | .error _ => (false, st)

/-- `SyncGenesisHeader`: operator witness, then store header and peers without any signature check -/
def syncGenesisHeader {Key Msg Sig : Type} [DecidableEq Key] (st : St Key) (witness : Bool) (h : Hdr Key Msg Sig) : Bool × St Key :=
  if !witness then (false, st)
  else match updateConsensusPeer (putHeader st h.chain h.height) h.chain h.height h.cfg with
    | .ok st' => (true, st')
    | .error _ => (false, st)

inductive Op (Key Msg Sig : Type)
  | genesis (witness : Bool) (h : Hdr Key Msg Sig)
  | block (h : Hdr Key Msg Sig)

def step {Key Msg Sig : Type} [DecidableEq Key] (v : Variant) (verify : Key → Msg → Sig → Bool) (st : St Key) :
    Op Key Msg Sig → Bool × St Key
  | .genesis w h => syncGenesisHeader st w h
  | .block h => syncBlockHeader v verify st h

def run {Key Msg Sig : Type} [DecidableEq Key] (v : Variant) (verify : Key → Msg → Sig → Bool) :
    St Key → List (Op Key Msg Sig) → St Key
  | st, [] => st
  | st, op :: r => run v verify (step v verify st op).2 r

/-! ## what the property counts -/

/-- the peers of the set that have a verifying signature among ALL signatures of the header -/
def genuineSigners {Key Msg Sig : Type} (verify : Key → Msg → Sig → Bool) (peers : List Key) (data : Msg)
    (sigs : List (Option Sig)) : List Key :=
  peers.filter fun p => sigs.any fun
    | some s => verify p data s
    | none => false

end OntVerif.Model.HeaderSync
