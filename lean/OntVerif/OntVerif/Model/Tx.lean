import OntVerif.Model.Codec
/-!
# Model of `core/types/transaction.go` (decoding side), `core/payload/{invoke,deploy,eip155}_code.go`,
# and of `MutableTransaction.serialize` (encoding side)

Executable, core-only.  Built on the `ZeroCopySource` model (`Model/Codec.lean`).

* A parser is a function `Src → Res α`; `Res.panic` stands for a Go run-time panic (slice out of range,
  index out of range).  `Props/C19.lean` proves that it is unreachable.
* Order of checks is the order of the Go code (e.g. `eof` before `irregular` in `RawSig.Deserialization`,
  `irregular` before `eof` for the attribute count and for `DeployCode.Description`).
* `BackUp` is modelled with uint64 wrap-around (`sub64`), the captured `Raw`/`rawUnsigned` are the result of
  the actual `BackUp` + `NextBytes` sequence, not an idealised slice.
* go-ethereum's RLP decoder, the sender recovery and the Ethereum transaction hash are the abstract parameter
  `Rlp` (the correspondence harness supplies the verdicts of the real library on the op line).
-/
namespace OntVerif.Model.Tx
open OntVerif.Util OntVerif.Model.Codec

def MAX_TX_SIZE : Nat := 1024 * 1024
def TX_MAX_SIG_SIZE : Nat := 16
def GWei : Nat := 1000000000
def maxUint32 : Nat := 4294967295

/-- error kinds of the decoders: `io.ErrUnexpectedEOF`, `common.ErrIrregularData`, any other error -/
inductive Err | eof | irregular | invalid
  deriving Repr, DecidableEq

inductive Res (α : Type) where
  | ok (a : α) (s : Src)
  | err (e : Err)
  | panic
  deriving Repr

/-- a reader over the zero-copy source -/
def P (α : Type) := Src → Res α

def P.pure {α : Type} (a : α) : P α := fun s => .ok a s

def P.bind {α β : Type} (p : P α) (f : α → P β) : P β := fun s =>
  match p s with
  | .ok a s1 => f a s1
  | .err e => .err e
  | .panic => .panic

instance : Monad P where
  pure := P.pure
  bind := P.bind

def fail {α : Type} (e : Err) : P α := fun _ => .err e

/-! ## Field readers (each is one call of the Go source API followed by the caller's error checks) -/

/-- `NextByte`, `if eof { return io.ErrUnexpectedEOF }` -/
def rByte : P UInt8 := fun s =>
  let ((b, eof), s') := nextByte s
  if eof then .err .eof else .ok b s'

/-- `tx.Version, _ = source.NextByte()` (eof ignored: value 0, cursor unchanged) -/
def rByteNoEof : P UInt8 := fun s =>
  let ((b, _), s') := nextByte s
  .ok b s'

/-- `NextUint32/64`, eof is an error -/
def rUintN (k : Nat) : P Nat := fun s =>
  match nextUintN k s with
  | none => .panic
  | some ((v, eof), s') => if eof then .err .eof else .ok v s'

/-- `NextBytes(n)`, eof is an error -/
def rBytesN (n : Nat) : P Bytes := fun s =>
  match nextBytes s n with
  | none => .panic
  | some ((d, eof), s') => if eof then .err .eof else .ok d s'

/-- `NextVarBytes` followed by the two checks; `eofFirst` says which check comes first in the caller -/
def rVarBytes (eofFirst : Bool) : P Bytes := fun s =>
  match nextVarBytes s with
  | none => .panic
  | some ((d, _, irr, eof), s') =>
    if eofFirst then
      if eof then .err .eof else if irr then .err .irregular else .ok d s'
    else
      if irr then .err .irregular else if eof then .err .eof else .ok d s'

/-- `NextVarUint` + checks, irregular first (`ReadVarUint`, attribute count) -/
def rVarUint (eofFirst : Bool) : P Nat := fun s =>
  match nextVarUint s with
  | none => .panic
  | some (r, s') =>
    if eofFirst then
      if r.eof then .err .eof else if r.irregular then .err .irregular else .ok r.val s'
    else
      if r.irregular then .err .irregular else if r.eof then .err .eof else .ok r.val s'

def pos : P Nat := fun s => .ok s.off s

/-- uint64 subtraction -/
def sub64 (a b : Nat) : Nat := (a + two64 - b) % two64

/-- `BackUp(n)`: `off -= n` on uint64 -/
def backUp (s : Src) (n : Nat) : Src := { s with off := sub64 s.off n }

/-- `d, _ = source.NextBytes(n)` (eof ignored) -/
def takeN (n : Nat) : P Bytes := fun s =>
  match nextBytes s n with
  | none => .panic
  | some ((d, _), s') => .ok d s'

/-- `n := source.Pos() - start; source.BackUp(n); d, _ = source.NextBytes(n)` -/
def captured (start : Nat) : P Bytes := fun s =>
  takeN (sub64 s.off start) (backUp s (sub64 s.off start))

def repeatP {α : Type} : Nat → P α → P (List α)
  | 0, _ => pure []
  | n+1, p => do
    let a ← p
    let r ← repeatP n p
    pure (a :: r)

/-! ## Payloads -/

/-- the decoded Ethereum transaction as far as `TransactionFromEIP155` looks at it -/
structure EipTx where
  nonce : Nat
  gasPrice : Nat            -- wei, unbounded (`*big.Int`)
  gas : Nat
  sender : Option Bytes     -- `EIP155Signer.Sender`: 20 bytes, `none` = error
  hash : Bytes              -- `eiptx.Hash()`
  enc : Bytes               -- `rlp.EncodeToBytes(eiptx)`
  deriving Repr, DecidableEq

/-- go-ethereum: `rlp.DecodeBytes(code, new(types.Transaction))` -/
structure Rlp where
  decode : Bytes → Except Err EipTx

/-- the stated assumption about the library: it accepts exactly the encoder's output -/
def Rlp.canonical (R : Rlp) : Prop := ∀ c t, R.decode c = .ok t → t.enc = c

inductive Payload
  | invoke (code : Bytes)
  | deploy (code : Bytes) (vmFlags : UInt8) (name version author email desc : Bytes)
  | eip (t : EipTx)
  deriving Repr, DecidableEq

/-- `InvokeCode.Deserialization` -/
def parseInvoke : P Payload := do
  let code ← rVarBytes true
  pure (.invoke code)

/-- `validateDeployCode` -/
def validateDeploy (code : Bytes) (vmFlags : UInt8) (name version author email desc : Bytes) : Bool :=
  (vmFlags == 0 || vmFlags == 1 || vmFlags == 3) &&
  (if vmFlags == 3 then decide (code.length ≤ 512 * 1024) else decide (code.length ≤ 1024 * 1024)) &&
  decide (name.length ≤ 252) && decide (version.length ≤ 252) && decide (author.length ≤ 252) &&
  decide (email.length ≤ 252) && decide (desc.length ≤ 65536)

/-- `DeployCode.Deserialization` -/
def parseDeploy : P Payload := do
  let code ← rVarBytes true
  let vmFlags ← rByte
  let name ← rVarBytes true
  let version ← rVarBytes true
  let author ← rVarBytes true
  let email ← rVarBytes true
  let desc ← rVarBytes false
  if validateDeploy code vmFlags name version author email desc then
    pure (.deploy code vmFlags name version author email desc)
  else fail .invalid

/-! ## Transaction -/

structure Tx where
  version : UInt8
  txType : UInt8
  nonce : Nat
  gasPrice : Nat
  gasLimit : Nat
  payer : Bytes
  payload : Payload
  sigs : List (Bytes × Bytes)      -- RawSig: (Invoke, Verify)
  raw : Bytes                      -- `tx.Raw`
  hashInput : Bytes                -- the bytes the transaction hash is computed from
  deriving Repr, DecidableEq

/-- the unsigned fields -/
structure TxU where
  version : UInt8
  txType : UInt8
  nonce : Nat
  gasPrice : Nat
  gasLimit : Nat
  payer : Bytes
  payload : Payload
  deriving Repr, DecidableEq

def Tx.unsigned (t : Tx) : TxU := ⟨t.version, t.txType, t.nonce, t.gasPrice, t.gasLimit, t.payer, t.payload⟩

/-- `deserializeOntUnsigned` -/
def parseOntUnsigned : P TxU := do
  let ver ← rByte
  if ver != 0 then fail .invalid
  let ty ← rByte
  if ty == 0xd3 then fail .invalid
  let nonce ← rUintN 4
  let gasPrice ← rUintN 8
  let gasLimit ← rUintN 8
  let payer ← rBytesN 20
  let pl ← (if ty == 0xd1 || ty == 0xd2 then parseInvoke
            else if ty == 0xd0 then parseDeploy
            else fail .invalid)
  let attr ← rVarUint false
  if attr != 0 then fail .invalid
  pure ⟨ver, ty, nonce, gasPrice, gasLimit, payer, pl⟩

/-- `RawSig.Deserialization` -/
def parseRawSig : P (Bytes × Bytes) := do
  let i ← rVarBytes true
  let v ← rVarBytes true
  pure (i, v)

/-- the non-EIP branch of `Transaction.Deserialization` -/
def parseOnt : P Tx := do
  let pstart ← pos
  let u ← parseOntUnsigned
  let rawUnsigned ← captured pstart
  let length ← rVarUint false
  if length > TX_MAX_SIG_SIZE then fail .invalid
  let sigs ← repeatP length parseRawSig
  let pend ← pos
  if sub64 pend pstart > MAX_TX_SIZE then fail .invalid
  let raw ← captured pstart
  pure ⟨u.version, u.txType, u.nonce, u.gasPrice, u.gasLimit, u.payer, u.payload, sigs, raw, rawUnsigned⟩

/-- `EIP155Code.Deserialization`: `ReadVarBytes` then the library decoder -/
def parseEipCode (R : Rlp) : P EipTx := do
  let code ← rVarBytes false
  match R.decode code with
  | .ok t => pure t
  | .error e => fail e

/-- `TransactionFromEIP155` (with `CheckChainID = false`): the checks and the re-encoding of `Raw` -/
def fromEip155 (t : EipTx) : Except Err Tx :=
  match t.sender with
  | none => .error .invalid
  | some addr =>
    if t.nonce > maxUint32 || t.gasPrice ≥ two64 then .error .invalid
    else if t.gasPrice % GWei != 0 then .error .invalid
    else .ok ⟨0, 0xd3, t.nonce, t.gasPrice / GWei, t.gas, addr, .eip t, [],
              [0, 0xd3] ++ writeVarBytes t.enc, t.enc⟩

/-- `decodeEip155` -/
def parseEip (R : Rlp) : P Tx := do
  let pstart ← pos
  let ver ← rByteNoEof
  if ver != 0 then fail .invalid
  let ty ← rByte
  if ty != 0xd3 then fail .invalid
  let t ← parseEipCode R
  match fromEip155 t with
  | .error e => fail e
  | .ok tx =>
    let pend ← pos
    if sub64 pend pstart > MAX_TX_SIZE then fail .invalid
    pure tx

/-- `isEip155TxBytes` (`none` = index panic): note that on eof the cursor is NOT restored -/
def isEip155 (s : Src) : Option (Bool × Src) :=
  match nextBytes s 2 with
  | none => none
  | some ((pre, eof), s1) =>
    if eof then some (false, s1)
    else match pre[1]? with
      | none => none
      | some b => some (b == 0xd3, backUp s1 2)

/-- `Transaction.Deserialization` -/
def deserialize (R : Rlp) : P Tx := fun s =>
  match isEip155 s with
  | none => .panic
  | some (true, s0) => parseEip R s0
  | some (false, s0) => parseOnt s0

/-- `TransactionFromRawBytes` -/
def fromRawBytes (R : Rlp) (raw : Bytes) : Res Tx :=
  if raw.length > MAX_TX_SIZE then .err .invalid else deserialize R ⟨raw, 0⟩

/-- the bytes a decoder run consumed: from the start cursor `s` to the end cursor `s'` of the same buffer -/
def consumed (s s' : Src) : Bytes := (s.bs.drop s.off).take (s'.off - s.off)

/-! ## Encoding side (`MutableTransaction.serialize`, payload `Serialization`) -/

def serPayload : Payload → Bytes
  | .invoke code => writeVarBytes code
  | .deploy code vm name version author email desc =>
      writeVarBytes code ++ [vm] ++ writeVarBytes name ++ writeVarBytes version ++ writeVarBytes author
        ++ writeVarBytes email ++ writeVarBytes desc
  | .eip t => writeVarBytes t.enc

/-- `serializeUnsigned` (attribute count is the constant 0) -/
def serUnsigned (u : TxU) : Bytes :=
  [u.version, u.txType] ++ writeUintN 4 u.nonce ++ writeUintN 8 u.gasPrice ++ writeUintN 8 u.gasLimit ++ u.payer
    ++ serPayload u.payload ++ writeVarUint 0

def serSig (sg : Bytes × Bytes) : Bytes := writeVarBytes sg.1 ++ writeVarBytes sg.2

def serSigs (sigs : List (Bytes × Bytes)) : Bytes :=
  writeVarUint sigs.length ++ (sigs.map serSig).flatten

/-- the encoding determined by the parsed fields: Ontology shapes = unsigned part + signatures;
EIP-155 = `00 d3 varbytes(rlp)` -/
def serTx (t : Tx) : Bytes :=
  match t.payload with
  | .eip e => [t.version, t.txType] ++ writeVarBytes e.enc
  | _ => serUnsigned t.unsigned ++ serSigs t.sigs

/-- what the hash is computed from, as a function of the parsed fields alone -/
def hashInputOf (t : Tx) : Bytes :=
  match t.payload with
  | .eip e => e.enc
  | _ => serUnsigned t.unsigned

/-! ## Well-formed field tuples (what the encoder may be given so that the decoder accepts its output) -/

/-- the payload fits the transaction type and passes `validateDeployCode` -/
def wfPayload (ty : UInt8) : Payload → Bool
  | .invoke _ => ty == 0xd1 || ty == 0xd2
  | .deploy c vm n v a e d => ty == 0xd0 && validateDeploy c vm n v a e d
  | .eip _ => false

/-- Decidable well-formedness of an Ontology-shape field tuple: version 0, type/payload match and deploy limits,
integer widths, 20-byte payer, at most `TX_MAX_SIG_SIZE` signature entries, total size at most `MAX_TX_SIZE`. -/
def wfFields (u : TxU) (sigs : List (Bytes × Bytes)) : Bool :=
  u.version == 0 && wfPayload u.txType u.payload &&
  decide (u.nonce < 256 ^ 4) && decide (u.gasPrice < 256 ^ 8) && decide (u.gasLimit < 256 ^ 8) &&
  u.payer.length == 20 && decide (sigs.length ≤ TX_MAX_SIG_SIZE) &&
  decide ((serUnsigned u ++ serSigs sigs).length ≤ MAX_TX_SIZE)

/-- the `Transaction` the decoder builds for a field tuple -/
def mkTx (u : TxU) (sigs : List (Bytes × Bytes)) : Tx :=
  ⟨u.version, u.txType, u.nonce, u.gasPrice, u.gasLimit, u.payer, u.payload, sigs,
   serUnsigned u ++ serSigs sigs, serUnsigned u⟩

end OntVerif.Model.Tx
