import OntVerif.Model.NeoVal
/-!
# Model of the native contracts' argument decoders that loop over an attacker-announced count (C12)

`smartcontract/service/native/utils/serialization.go` (`DecodeVarUint`, `DecodeVarUintWrapping`, `DecodeAddress`, `DecodeVarBytes`,
`DecodeString`), `ont/states.go` (`TransferState`, `TransferStates`, `TransferStatesV2`, `TransferFrom`), `governance/param.go`
(`BlackNodeParam`, `AuthorizeForPeerParam`), `auth/param.go` (`FuncsToRoleParam`, `OntIDsToRoleParam`), `ontid/group.go`
(`rDeserialize`, `deserializeSigners`).

Executable, core-only, on the reader model of `Model/Codec.lean` (C18). Every loop has the shape

    n, err := utils.DecodeVarUint(source)            // any value up to 2^64-1 announced by the input
    for i := 0; uint64(i) < n; i++ { item, err := decode(source); if err != nil { return err }; list = append(list, item) }

The model loop `loopN` counts the announced `n` down and ALSO carries a budget; `Proofs/NativeDec.lean` shows the budget
`remaining bytes + 1` is never exhausted, because every item that decodes without error consumes at least one byte: the number of
iterations (and of appended elements) is bounded by the length of the input, not by the announced count, and no `make` is sized by it.
-/
namespace OntVerif.Model.NativeDec
open OntVerif.Util OntVerif.Model.Codec OntVerif.Model.NeoVal

inductive DE
  | eof | irregular | range | negative | badaddr | toomany | mismatch | depth | threshold
  deriving DecidableEq, Repr

/-- outcome of a decoder: value and advanced source, error return, Go panic inside the reader, model budget exhausted -/
inductive D (α : Type) where
  | ok (a : α) (s : Src) | err (e : DE) | panic | fuel
  deriving Repr

def D.bind {α β : Type} : D α → (α → Src → D β) → D β
  | .ok a s, f => f a s
  | .err e, _ => .err e
  | .panic, _ => .panic
  | .fuel, _ => .fuel

/-- `utils.DecodeVarBytes` / `DecodeString` / `source.NextString()` with `irregular || eof` rejected -/
def dVarBytes (s : Src) : D Bytes :=
  match nextVarBytes s with
  | none => .panic
  | some ((d, _, irr, eof), s') => if eof then .err .eof else if irr then .err .irregular else .ok d s'

/-- `utils.DecodeVarUint` -/
def dVarUint (s : Src) : D Nat :=
  (dVarBytes s).bind fun value s' =>
    let v := fromNeo value
    if v < 0 ∨ ¬ v < 18446744073709551616 then .err .range else .ok v.toNat s'

/-- `utils.DecodeVarUintWrapping`: negative rejected, otherwise `big.Int.Uint64()` (low 64 bits) -/
def dVarUintWrapping (s : Src) : D Nat :=
  (dVarBytes s).bind fun value s' =>
    let v := fromNeo value
    if v < 0 then .err .negative else .ok (v.toNat % 18446744073709551616) s'

/-- `utils.DecodeAddress`: var-bytes, then `AddressParseFromBytes` (exactly 20 bytes) -/
def dAddress (s : Src) : D Bytes :=
  (dVarBytes s).bind fun d s' => if d.length = 20 then .ok d s' else .err .badaddr

structure Transfer where
  frm : Bytes
  to : Bytes
  value : Nat
  deriving Repr

/-- `TransferState.Deserialization` -/
def dTransferState (wrapping : Bool) (s : Src) : D Transfer :=
  (dAddress s).bind fun frm s =>
  (dAddress s).bind fun to s =>
  ((if wrapping then dVarUintWrapping s else dVarUint s)).bind fun v s => .ok ⟨frm, to, v⟩ s

/-- `TransferStateV2.Deserialization`: the amount is an arbitrary-length non-negative integer -/
def dTransferStateV2 (s : Src) : D Transfer :=
  (dAddress s).bind fun frm s =>
  (dAddress s).bind fun to s =>
  (dVarBytes s).bind fun buf s =>
    let v := fromNeo buf
    if v < 0 then .err .negative else .ok ⟨frm, to, v.toNat⟩ s

/-- `for i := 0; uint64(i) < n; i++ { item }`: first argument = budget (never exhausted: `Proofs/NativeDec.loopN_total`) -/
def loopN {α : Type} (item : Src → D α) : Nat → Nat → Src → List α → D (List α)
  | _, 0, s, acc => .ok acc.reverse s
  | 0, _+1, _, _ => .fuel
  | f+1, n+1, s, acc =>
    match item s with
    | .ok a s' => loopN item f n s' (a :: acc)
    | .err e => .err e
    | .panic => .panic
    | .fuel => .fuel

/-- budget for a loop starting at `s` -/
def budget (s : Src) : Nat := s.bs.length - s.off + 1

/-- count, then that many items -/
def dList {α : Type} (item : Src → D α) (s : Src) : D (List α) :=
  (dVarUint s).bind fun n s => loopN item (budget s) n s []

/-- `TransferStates.Deserialization` on `native.Input` -/
def dTransferStates (wrapping : Bool) (input : Bytes) : D (List Transfer) := dList (dTransferState wrapping) ⟨input, 0⟩

/-- `TransferStatesV2.Deserialization` -/
def dTransferStatesV2 (input : Bytes) : D (List Transfer) := dList dTransferStateV2 ⟨input, 0⟩

/-- `TransferFrom.Deserialization` (sender, then a transfer state) -/
def dTransferFrom (input : Bytes) : D (Bytes × Transfer) :=
  (dAddress ⟨input, 0⟩).bind fun sender s => (dTransferState false s).bind fun t s => .ok (sender, t) s

/-- governance `BlackNodeParam.Deserialization`: a list of strings -/
def dBlackNodeParam (input : Bytes) : D (List Bytes) := dList dVarBytes ⟨input, 0⟩

/-- a position: `DecodeVarUint`, then `k > math.MaxUint32` rejected -/
def dU32 (s : Src) : D Nat :=
  (dVarUint s).bind fun k s => if k > 4294967295 then .err .range else .ok k s

/-- governance `AuthorizeForPeerParam.Deserialization` (also the shape of `WithdrawParam`) -/
def dAuthorizeForPeerParam (input : Bytes) : D (Bytes × List Bytes × List Nat) :=
  (dAddress ⟨input, 0⟩).bind fun address s =>
  (dVarUint s).bind fun n s =>
  if n > 1024 then .err .toomany else
  (loopN dVarBytes (budget s) n s []).bind fun peers s =>
  (dVarUint s).bind fun m s =>
  (loopN dU32 (budget s) m s []).bind fun pos s =>
  if m ≠ n then .err .mismatch else .ok (address, peers, pos) s

/-- auth `FuncsToRoleParam.Deserialization` / `OntIDsToRoleParam.Deserialization` -/
def dFuncsToRoleParam (input : Bytes) : D (Bytes × Bytes × Bytes × List Bytes × Nat) :=
  (dAddress ⟨input, 0⟩).bind fun contract s =>
  (dVarBytes s).bind fun admin s =>
  (dVarBytes s).bind fun role s =>
  (dList dVarBytes s).bind fun fns s =>
  (dVarUint s).bind fun keyNo s => .ok (contract, admin, role, fns, keyNo) s

/-- ontid `deserializeSigners`: (id, index) pairs -/
def dSigner (s : Src) : D (Bytes × Nat) :=
  (dVarBytes s).bind fun id s => (dVarUint s).bind fun index s => .ok (id, index % 4294967296) s

def dSigners (data : Bytes) : D (List (Bytes × Nat)) := dList dSigner ⟨data, 0⟩

def didPrefix : Bytes := [0x64, 0x69, 0x64, 0x3a, 0x6f, 0x6e, 0x74, 0x3a]   -- "did:ont:"

def MAX_DEPTH : Nat := 8

/-- one member of a group: a var-bytes blob that is an ONT ID (`len(m) > 8 && bytes.Equal(m[:8], "did:ont:")`) or a nested group.
Result: number of ONT IDs below. `rec` parses a nested blob one level deeper. -/
def dMember (rec : Bytes → D Nat) (s : Src) : D Nat :=
  (dVarBytes s).bind fun m s' =>
    if m.length > 8 then
      match goSlice m 0 8 with
      | none => .panic
      | some p =>
        if p = didPrefix then .ok 1 s' else
        match rec m with
        | .ok k _ => .ok k s'
        | .err e => .err e
        | .panic => .panic
        | .fuel => .fuel
    else
      match rec m with
      | .ok k _ => .ok k s'
      | .err e => .err e
      | .panic => .panic
      | .fuel => .fuel

/-- ontid `rDeserialize(data, depth)`; first argument = `MAX_DEPTH - depth` (the code's own `depth == MAX_DEPTH` check) -/
def rDeserialize : Nat → Bytes → D Nat
  | 0, _ => .err .depth
  | k+1, data =>
    (dList (dMember (rDeserialize k)) ⟨data, 0⟩).bind fun members s =>
    (dVarUint s).bind fun t s =>
      if t > members.length then .err .threshold else .ok (members.foldl (· + ·) 0) s

/-- `deserializeGroup` -/
def dGroup (data : Bytes) : D Nat := rDeserialize MAX_DEPTH data

end OntVerif.Model.NativeDec
