/-!
# Model of the transaction pool, the increment validator and the proposer glue (C35)

Mirrors `txnpool/common/transaction_pool.go` (`TXPool`: `AddTxList`, `addEIPTxPool`, `GetTxPool`,
`selectSortEIP155WithLock`, `CleanCompletedTransactionList`, `RemoveTxsBelowGasPrice`, `Remain`, `CleanStaledEIPTx`, `NextNonce`),
`txnpool/common/tx_list.go` (`txSortedMap`), `validator/increment/increment.go` (`IncrementValidator`),
the stateful check of `validator/stateful/stateful_validator.go` and the proposer glue of
`consensus/solo/solo.go:makeBlock` / `consensus/vbft/service.go:validHeight+makeProposal`.

Conventions
* a transaction is the tuple of the fields the pool reads (`Hash()`, `IsEipTx()`, `Payer`, `Nonce : uint32`, `GasPrice : uint64`);
  hashes and addresses are abstract naturals;
* Go maps are association lists (`alookup/ainsert/aerase`); the only place where Go's map iteration order is observable
  (`GetTxPool`) takes the order as the parameter `Order` (each `getPool`/`propose` op of a history carries its own);
* `txSortedMap` (items map + nonce heap) is a nonce-sorted association list: `(*m.index)[0]` is the head key
  (the heap invariant of container/heap is trusted, the correspondence run checks it); the `cache` field is never read by `Heading`;
* machine arithmetic is explicit where it can wrap: `old.GasPrice*101/100` and `txEntry.Nonce+1000` in uint64,
  `uint64(tx.Nonce+1)` in uint32. Block heights are naturals (no model of a chain longer than 2^32 blocks).
Core Lean only.
-/
namespace OntVerif.Model.TxPool

def two32 : Nat := 4294967296
def two64 : Nat := 18446744073709551616

/-! ### association lists (Go maps) -/
def alookup {α} : List (Nat × α) → Nat → Option α
  | [], _ => none
  | (k', v) :: r, k => if k' = k then some v else alookup r k

def ainsert {α} : List (Nat × α) → Nat → α → List (Nat × α)
  | [], k, v => [(k, v)]
  | (k', v') :: r, k, v => if k' = k then (k, v) :: r else (k', v') :: ainsert r k v

def aerase {α} : List (Nat × α) → Nat → List (Nat × α)
  | [], _ => []
  | (k', v) :: r, k => if k' = k then aerase r k else (k', v) :: aerase r k

/-! ### transactions -/
structure Tx where
  hash : Nat
  eip : Bool
  payer : Nat
  nonce : Nat   -- uint32
  price : Nat   -- uint64
deriving DecidableEq, Repr

/-- `VerifiedTx`: the transaction, the height at which the stateful validator checked it and the ledger nonce it saw -/
structure VTx where
  tx : Tx
  vh : Nat
  nonce : Nat   -- uint64
deriving DecidableEq, Repr

structure UserInfo where
  height : Nat
  nonce : Nat
deriving DecidableEq, Repr

/-! ### txSortedMap -/
abbrev SMap := List (Nat × Tx)

namespace SMap
def get (m : SMap) (n : Nat) : Option Tx := alookup m n

/-- `Put`: insert at the nonce (heap push when new), overwrite when present -/
def put : SMap → Tx → SMap
  | [], t => [(t.nonce, t)]
  | (k, x) :: r, t =>
    if t.nonce < k then (t.nonce, t) :: (k, x) :: r
    else if t.nonce = k then (k, t) :: r
    else (k, x) :: put r t

/-- `Forward(threshold)`: pop while the smallest nonce is below the threshold -/
def forward : SMap → Nat → List Tx × SMap
  | [], _ => ([], [])
  | (k, x) :: r, thr =>
    if k < thr then let (rm, rest) := forward r thr; (x :: rm, rest)
    else ([], (k, x) :: r)

def remove (m : SMap) (n : Nat) : Bool × SMap :=
  match alookup m n with
  | none => (false, m)
  | some _ => (true, aerase m n)

/-- `for nonce := index[0]; items[nonce] != nil; nonce++` on the sorted list -/
def headingFrom : Nat → SMap → List Tx
  | _, [] => []
  | n, (k, x) :: r => if k = n then x :: headingFrom (n + 1) r else []

def heading : SMap → List Tx
  | [] => []
  | (k, x) :: r => headingFrom k ((k, x) :: r)

/-- `(*m.index)[0]`: the lowest nonce held (0 for an empty list; only used in statements) -/
def firstKey : SMap → Nat
  | [] => 0
  | (k, _) :: _ => k
end SMap

/-! ### TXPool -/
structure Pool where
  valid : List (Nat × VTx)      -- validTxMap, keyed by hash
  eip : List (Nat × SMap)       -- eipTxPool, keyed by payer
  user : List (Nat × UserInfo)  -- userLatestEiptxHeight
deriving DecidableEq, Repr

def Pool.empty : Pool := ⟨[], [], []⟩

inductive Code | ok | nonceTooBig | sameNonce | dup
deriving DecidableEq, Repr

def EIPTX_NONCE_MAX_GAP : Nat := 1000

/-- the replacement rule of `addEIPTxPool`, in uint64: `trans.GasPrice > old.GasPrice*101/100` -/
def replaces (newPrice oldPrice : Nat) : Bool := decide (newPrice > (oldPrice * 101 % two64) / 100)

/-- `addEIPTxPool`: `(replaced, accepted, pool')`. `getTxListByAddr` creates the sender's list when absent. -/
def addEip (p : Pool) (t : Tx) : Option Tx × Bool × Pool :=
  let l := (alookup p.eip t.payer).getD []
  match l.get t.nonce with
  | none => (none, true, { p with eip := ainsert p.eip t.payer (l.put t) })
  | some old =>
    if replaces t.price old.price then (some old, true, { p with eip := ainsert p.eip t.payer (l.put t) })
    else (none, false, { p with eip := ainsert p.eip t.payer l })

/-- tail of `AddTxList`: `if _, ok := tp.validTxMap[txHash]; ok { return ErrDuplicatedTx }; tp.validTxMap[txHash] = txEntry` -/
def addValid (p : Pool) (e : VTx) (rep : Option Tx) : Code × Option Tx × Pool :=
  match alookup p.valid e.tx.hash with
  | some _ => (.dup, rep, p)
  | none => (.ok, rep, { p with valid := ainsert p.valid e.tx.hash e })

/-- `if repalced != nil { delete(tp.validTxMap, repalced.Hash()) }` -/
def dropReplaced (p : Pool) : Option Tx → Pool
  | some old => { p with valid := aerase p.valid old.hash }
  | none => p

/-- `if tp.userLatestEiptxHeight[payer] == nil { … = &UserNonceInfo{Height, Nonce} }` -/
def noteUser (p : Pool) (e : VTx) : Pool :=
  match alookup p.user e.tx.payer with
  | none => { p with user := ainsert p.user e.tx.payer ⟨e.vh, e.nonce⟩ }
  | some _ => p

/-- `AddTxList`: result code, the transaction it replaced (if any), new pool -/
def addTxList (p : Pool) (e : VTx) : Code × Option Tx × Pool :=
  if e.tx.eip then
    if e.tx.nonce ≥ (e.nonce + EIPTX_NONCE_MAX_GAP) % two64 then (.nonceTooBig, none, p)
    else
      let r := addEip p e.tx
      let p2 := dropReplaced r.2.2 r.1
      if !r.2.1 then (.sameNonce, r.1, p2)
      else addValid (noteUser p2 e) e r.1
  else addValid p e none

/-- `cleanCompletedEipTxPool` for one block transaction -/
def cleanEipOne (p : Pool) (height : Nat) (t : Tx) : List Tx × Pool :=
  if t.eip then
    match alookup p.eip t.payer with
    | none => ([], p)
    | some l =>
      let (rm, l') := l.forward ((t.nonce + 1) % two32)   -- uint64(tx.Nonce+1): the addition is in uint32
      if l'.length = 0 then (rm, { p with eip := aerase p.eip t.payer, user := aerase p.user t.payer })
      else (rm, { p with eip := ainsert p.eip t.payer l', user := ainsert p.user t.payer ⟨height, t.nonce + 1⟩ })
  else ([], p)

def cleanEip (p : Pool) (height : Nat) : List Tx → List Tx × Pool
  | [] => ([], p)
  | t :: r =>
    let (c1, p1) := cleanEipOne p height t
    let (c2, p2) := cleanEip p1 height r
    (c1 ++ c2, p2)

def eraseAll (m : List (Nat × VTx)) : List Tx → List (Nat × VTx)
  | [] => m
  | t :: r => eraseAll (aerase m t.hash) r

/-- `CleanCompletedTransactionList` -/
def cleanCompleted (p : Pool) (txs : List Tx) (height : Nat) : Pool :=
  let (cleaned, p1) := cleanEip p height txs
  { p1 with valid := eraseAll p1.valid (txs ++ cleaned) }

/-! #### GetTxPool -/

/-- Go map iteration order, made explicit: how the sender lists and the `validTxMap` values are enumerated -/
structure Order where
  eip : List (List Tx) → List (List Tx)
  vals : List VTx → List VTx

def Order.id : Order := ⟨fun l => l, fun l => l⟩

/-- an iteration order only permutes -/
structure Order.IsPerm (o : Order) : Prop where
  eip : ∀ l, (o.eip l).Perm l
  vals : ∀ l, (o.vals l).Perm l

/-- one round of `selectSortEIP155WithLock`: index of the non-exhausted list whose head has the maximal gas price
(`>=`: the last one wins a tie); `none` when every list is exhausted -/
def pickGo : List (List Tx) → Nat → Option (Nat × Nat) → Option (Nat × Nat)
  | [], _, best => best
  | [] :: r, i, best => pickGo r (i + 1) best
  | (t :: _) :: r, i, best =>
    match best with
    | none => pickGo r (i + 1) (some (i, t.price))
    | some (_, bp) => if t.price ≥ bp then pickGo r (i + 1) (some (i, t.price)) else pickGo r (i + 1) best

def popAt : List (List Tx) → Nat → Option (Tx × List (List Tx))
  | [], _ => none
  | l :: r, 0 => match l with
    | [] => none
    | t :: l' => some (t, l' :: r)
  | l :: r, i + 1 => (popAt r i).map fun (t, r') => (t, l :: r')

def selectLoop : Nat → List (List Tx) → List Tx
  | 0, _ => []
  | fuel + 1, ls =>
    match pickGo ls 0 none with
    | none => []
    | some (i, _) =>
      match popAt ls i with
      | none => []
      | some (t, ls') => t :: selectLoop fuel ls'

def totalLen : List (List Tx) → Nat
  | [] => 0
  | l :: r => l.length + totalLen r

/-- `selectSortEIP155WithLock`: merge of the per-sender headings by head gas price; entries missing from
`validTxMap` are skipped ("impossible" branch) -/
def selectSort (valid : List (Nat × VTx)) (ls : List (List Tx)) : List VTx :=
  (selectLoop (totalLen ls) ls).filterMap fun t => alookup valid t.hash

/-- `sort.Sort(OrderByNetWorkFee)`: descending gas price (insertion sort; the Go sort is not stable, ties are
order-dependent there) -/
def insertDesc (x : VTx) : List VTx → List VTx
  | [] => [x]
  | y :: r => if x.tx.price > y.tx.price then x :: y :: r else y :: insertDesc x r

def sortDesc : List VTx → List VTx
  | [] => []
  | x :: r => insertDesc x (sortDesc r)

/-- split of the ordered candidate list into the returned list (at most `count` unexpired) and the expired ones -/
def splitExpired (height count : Nat) : List VTx → List VTx → List VTx × List Tx
  | [], acc => (acc.reverse, [])
  | e :: r, acc =>
    if e.vh < height then
      let (v, o) := splitExpired height count r acc
      (v, e.tx :: o)
    else if acc.length < count then splitExpired height count r (e :: acc)
    else splitExpired height count r acc

/-- removal of the expired transactions; `none` = nil dereference (`tp.eipTxPool[tx.Payer]` absent) — proved unreachable
over all histories (`C35_no_panic`) -/
def removeOld (p : Pool) : List Tx → Option Pool
  | [] => some p
  | t :: r =>
    let p1 := { p with valid := aerase p.valid t.hash }
    if t.eip then
      match alookup p1.eip t.payer with
      | none => none
      | some l => removeOld { p1 with eip := ainsert p1.eip t.payer (l.remove t.nonce).2 } r
    else removeOld p1 r

/-- the candidate list of `GetTxPool` before expiry and truncation: EIP-155 selection, then the others by fee -/
def candidates (p : Pool) (ord : Order) : List VTx :=
  selectSort p.valid (ord.eip (p.eip.map fun (_, l) => l.heading))
    ++ sortDesc (ord.vals ((p.valid.map (·.2)).filter fun e => !e.tx.eip))

/-- `GetTxPool(byCount, height)` with `config.DefConfig.Consensus.MaxTxInBlock = maxTx`
(`int(maxTx) <= 0` switches `byCount` off). Returns `(validList, oldTxList, pool')`; `none` = Go panic. -/
def getTxPool (p : Pool) (ord : Order) (byCount : Bool) (height maxTx : Nat) : Option (List VTx × List Tx × Pool) :=
  let all := candidates p ord
  let byCount := if maxTx = 0 ∨ maxTx ≥ two64 / 2 then false else byCount
  let count := if all.length < maxTx ∨ !byCount then all.length else maxTx
  let (v, old) := splitExpired height count all []
  (removeOld p old).map fun p' => (v, old, p')

/-- `RemoveTxsBelowGasPrice`; `none` = nil dereference -/
def removeBelow (p : Pool) (gasPrice : Nat) : Option Pool :=
  removeOld p (((p.valid.map (·.2)).filter fun e => e.tx.price < gasPrice).map (·.tx))

/-- `Remain`: the whole pool is handed back (to be re-verified) -/
def remain (p : Pool) : List Tx × Pool := (p.valid.map (·.2.tx), { p with valid := [], eip := [] })

def MAX_LIMITATION : Nat := 10000
def EIPTX_EXPIRATION_BLOCKS : Nat := 50

/-- one iteration of `CleanStaledEIPTx`: a sender whose last EIP-155 commit is 50 blocks old loses its whole list -/
def staleOne (p : Pool) (height : Nat) (u : Nat × UserInfo) : Pool :=
  if height ≥ u.2.height + EIPTX_EXPIRATION_BLOCKS then
    let p1 : Pool := match alookup p.eip u.1 with
      | some l => { p with valid := eraseAll p.valid (l.map (·.2)), eip := aerase p.eip u.1 }
      | none => p
    { p1 with user := aerase p1.user u.1 }
  else p

def staleLoop (p : Pool) (height : Nat) : List (Nat × UserInfo) → Pool
  | [] => p
  | u :: r => staleLoop (staleOne p height u) height r

/-- `CleanStaledEIPTx(height)`: only when more than `MAX_LIMITATION` transactions are pooled -/
def cleanStaled (p : Pool) (height : Nat) : Pool :=
  if p.valid.length > MAX_LIMITATION then staleLoop p height p.user else p

def lastNonceOf : List Tx → Nat
  | [] => 0
  | [t] => t.nonce
  | _ :: r => lastNonceOf r

/-- `NextNonce(addr)` (pending nonce for the RPC layer; read only). `none` = nil dereference of
`userLatestEiptxHeight[addr]`. `heading[len-1].Nonce + 1` is a uint32 addition. -/
def nextNonce (p : Pool) (addr : Nat) : Option Nat :=
  match alookup p.eip addr with
  | none => some 0
  | some l =>
    match l.heading with
    | [] => some 0
    | t0 :: r =>
      if t0.nonce > 0 then
        match alookup p.user addr with
        | none => none
        | some u => if t0.nonce ≠ u.nonce then some u.nonce else some ((lastNonceOf (t0 :: r) + 1) % two32)
      else some ((lastNonceOf (t0 :: r) + 1) % two32)

/-! ### IncrementValidator -/
structure Val where
  blocks : List (List Nat)          -- tx hash sets, oldest first
  nonces : List (List (Nat × Nat))  -- per block: payer ↦ last EIP nonce + 1
  base : Nat
  maxBlocks : Nat
deriving DecidableEq, Repr

def Val.new (maxBlocks : Nat) : Val := ⟨[], [], 0, if maxBlocks = 0 then 20 else maxBlocks⟩
def Val.clean (v : Val) : Val := { v with blocks := [], nonces := [], base := 0 }
def Val.range (v : Val) : Nat × Nat := (v.base, v.base + v.blocks.length)

def nonceMapOf : List Tx → List (Nat × Nat) → List (Nat × Nat)
  | [], m => m
  | t :: r, m => nonceMapOf r (if t.eip then ainsert m t.payer (t.nonce + 1) else m)

def Val.addBlock (v : Val) (height : Nat) (txs : List Tx) : Val :=
  let base := if v.blocks.length = 0 then height else v.base
  if base + v.blocks.length ≠ height then { v with base := base }
  else if v.blocks.length ≥ v.maxBlocks then
    { v with blocks := v.blocks.drop 1 ++ [txs.map (·.hash)], nonces := v.nonces.drop 1 ++ [nonceMapOf txs []], base := base + 1 }
  else
    { v with blocks := v.blocks ++ [txs.map (·.hash)], nonces := v.nonces ++ [nonceMapOf txs []], base := base }

/-- the `for i := 0; i < len(self.blocks)` scan: last non-zero cached nonce (a missing map key reads as 0 in Go) -/
def cacheNonce (s : Nat) : List (List (Nat × Nat)) → Nat → Nat
  | [], c => c
  | m :: r, c => cacheNonce s r (match alookup m s with
      | some ln => if ln ≠ 0 then ln else c
      | none => c)

inductive VErr | ok | base | dup | nonce
deriving DecidableEq, Repr

abbrev Ctx := List (Nat × Nat)
/-- Go map read with zero default: `nonceCtx[payer]`; 0 is the "unset" sentinel of `Verify` -/
def Ctx.read (c : Ctx) (s : Nat) : Nat := match alookup c s with | some n => n | none => 0

/-- the nonce `Verify` starts a sender at when its context entry is unset: the cached window nonce, else the ledger's -/
def Val.nonceStart (v : Val) (ledger : Nat → Nat) (s : Nat) : Nat :=
  if cacheNonce s v.nonces 0 = 0 then ledger s else cacheNonce s v.nonces 0

/-- `if nonceCtx[payer] == 0 { … cache … ledger … }` -/
def Val.lookupCtx (v : Val) (ledger : Nat → Nat) (ctx : Ctx) (p : Nat) : Ctx :=
  if ctx.read p = 0 then ainsert ctx p (v.nonceStart ledger p) else ctx

/-- `Verify(tx, startHeight, nonceCtx)`; `ledger` = `ledger.DefLedger.GetEthAccount(payer).Nonce` -/
def Val.verify (v : Val) (ledger : Nat → Nat) (t : Tx) (start : Nat) (ctx : Ctx) : VErr × Ctx :=
  if start < v.base then (.base, ctx)
  else if (v.blocks.drop (start - v.base)).any (fun b => b.contains t.hash) then (.dup, ctx)
  else if t.eip then
    if t.nonce ≠ (v.lookupCtx ledger ctx t.payer).read t.payer then (.nonce, v.lookupCtx ledger ctx t.payer)
    else (.ok, ainsert (v.lookupCtx ledger ctx t.payer) t.payer (t.nonce + 1))
  else (.ok, ctx)

/-- the proposer's loop: keep the transactions `Verify` accepts, threading `nonceCtx` -/
def filterV (v : Val) (ledger : Nat → Nat) (start : Nat) : Ctx → List Tx → List Tx
  | _, [] => []
  | ctx, t :: r =>
    match v.verify ledger t start ctx with
    | (.ok, ctx') => t :: filterV v ledger start ctx' r
    | (_, ctx') => filterV v ledger start ctx' r

/-! ### ledger stub + system -/

/-- `s`'s last EIP-155 nonce + 1 in a transaction sequence (0 = none) -/
def lastNonce (s : Nat) : List Tx → Nat → Nat
  | [], c => c
  | t :: r, c => lastNonce s r (if t.eip ∧ t.payer = s then t.nonce + 1 else c)

structure Sys where
  acct0 : List (Nat × Nat)     -- account nonces at genesis
  chain : List (List Tx)       -- blocks by height (index 0 = genesis)
  pool : Pool
  val : Val
deriving Repr

def Sys.new (acct0 : List (Nat × Nat)) (maxBlocks : Nat) : Sys := ⟨acct0, [[]], Pool.empty, Val.new maxBlocks⟩

/-- account nonce of `s` after the given blocks: the ledger executes an EIP-155 transaction only at the account nonce
and then increments it, so it is the last committed nonce + 1 -/
def acctOf (acct0 : List (Nat × Nat)) (blocks : List (List Tx)) (s : Nat) : Nat :=
  let l := lastNonce s blocks.flatten 0
  if l = 0 then (match alookup acct0 s with | some n => n | none => 0) else l

def onChain (blocks : List (List Tx)) (h : Nat) : Bool := blocks.any fun b => b.any fun t => t.hash = h

inductive CommitRes | ok | badNonce | dup
deriving DecidableEq, Repr

/-- block acceptance of the (stub) ledger: every EIP-155 transaction at the running account nonce, no transaction twice -/
def checkBlock (acct0 : List (Nat × Nat)) (chain : List (List Tx)) : List Tx → List Tx → CommitRes
  | [], _ => .ok
  | t :: r, seen =>
    if onChain chain t.hash ∨ seen.any (fun u => u.hash = t.hash) then .dup
    else if t.eip ∧ t.nonce ≠ acctOf acct0 (chain ++ [seen.reverse]) t.payer then .badNonce
    else checkBlock acct0 chain r (t :: seen)

inductive SubRes | pool (c : Code) (replaced : Option Tx) | onChain | lowNonce
deriving DecidableEq, Repr

/-- submission: stateful validator at the ledger view `chain.take (len - lag)` (`IsContainTransaction`, `tx.Nonce < acct.Nonce`),
then `AddTxList` with the height and nonce it reports -/
def Sys.submit (s : Sys) (t : Tx) (lag : Nat) : SubRes × Sys :=
  let view := s.chain.take (max 1 (s.chain.length - lag))   -- the ledger always holds the genesis block
  let vh := view.length - 1
  if onChain view t.hash then (.onChain, s)
  else
    let ln := acctOf s.acct0 view t.payer
    if t.eip ∧ t.nonce < ln then (.lowNonce, s)
    else
      let (c, rep, p) := addTxList s.pool ⟨t, vh, if t.eip then ln else 0⟩
      (.pool c rep, { s with pool := p })

def Sys.commit (s : Sys) (txs : List Tx) : CommitRes × Sys :=
  match checkBlock s.acct0 s.chain txs [] with
  | .ok => (.ok, { s with chain := s.chain ++ [txs] })
  | r => (r, s)

/-- `SaveBlockCompleteMsg` reaching the consensus service: `incrValidator.AddBlock(chain[k])` -/
def Sys.notify (s : Sys) (k : Nat) : Sys :=
  match s.chain[k]? with
  | some b => { s with val := s.val.addBlock k b }
  | none => s

/-- `SaveBlockCompleteMsg` reaching the pool: `CleanCompletedTransactionList(chain[k], k)` -/
def Sys.cleanBlk (s : Sys) (k : Nat) : Sys :=
  match s.chain[k]? with
  | some b => { s with pool := cleanCompleted s.pool b k }
  | none => s

/-- `validHeight`: the window is usable only when it ends at the block below the one being proposed -/
def Sys.validHeight (s : Sys) (height : Nat) : Nat × Val :=
  if height + 1 = s.val.range.2 then (s.val.range.1, s.val) else (height, s.val.clean)

/-- proposer (`makeBlock` / `makeProposal` for block `height+1`): `(validHeight, proposed txs, sys')`; `none` = Go panic -/
def Sys.propose (s : Sys) (ord : Order) (byCount : Bool) (height maxTx : Nat) : Option (Nat × List Tx × Sys) :=
  let (vh, val) := s.validHeight height
  (getTxPool s.pool ord byCount vh maxTx).map fun (v, _, p) =>
    (vh, filterV val (acctOf s.acct0 s.chain) vh [] (v.map (·.tx)), { s with pool := p, val := val })

inductive Op
  | submit (t : Tx) (lag : Nat)
  | commit (txs : List Tx)
  | notify (k : Nat)
  | cleanBlk (k : Nat)
  | getPool (ord : Order) (byCount : Bool) (height maxTx : Nat)
  | propose (ord : Order) (byCount : Bool) (height maxTx : Nat)
  | remain
  | removeBelow (price : Nat)
  | cleanStaled (height : Nat)
  | valClean

/-- one step of a history; a Go panic (`none`) leaves the state unchanged in `step` and is reported by `stepOut` -/
def Sys.step (s : Sys) : Op → Sys
  | .submit t lag => (s.submit t lag).2
  | .commit txs => (s.commit txs).2
  | .notify k => s.notify k
  | .cleanBlk k => s.cleanBlk k
  | .getPool ord bc h m => match getTxPool s.pool ord bc h m with
    | some (_, _, p) => { s with pool := p }
    | none => s
  | .propose ord bc h m => match s.propose ord bc h m with
    | some (_, _, s') => s'
    | none => s
  | .remain => { s with pool := (remain s.pool).2 }
  | .removeBelow g => match removeBelow s.pool g with
    | some p => { s with pool := p }
    | none => s
  | .cleanStaled h => { s with pool := cleanStaled s.pool h }
  | .valClean => { s with val := s.val.clean }

def Sys.run (s : Sys) : List Op → Sys
  | [] => s
  | op :: r => (s.step op).run r

/-- every transaction a history mentions (submitted or committed) -/
def Op.txs : Op → List Tx
  | .submit t _ => [t]
  | .commit txs => txs
  | _ => []

end OntVerif.Model.TxPool
