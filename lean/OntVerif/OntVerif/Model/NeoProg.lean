import OntVerif.Model.NeoVal
/-!
# Model of the NeoVM opcode / syscall subset that builds, inspects and serializes containers
(`vm/neovm/executor.go`, `value_stack.go`, `smartcontract/service/neovm/runtime.go`), for C15.

State = heap + evaluation stack + alt stack (+ notification count, + number of `Serialize` calls so far, which indexes
the Go map iteration orders).  Every opcode is a total function `State → Except Fault State`; a fault ends the
invocation (`NeoVmService.Invoke` returns the error).  The only places where the real code iterates a Go map are
`getMapSortedKey` (KEYS / VALUES / Serialize: order collected, then sorted) and the map branch of the cycle detector
(inside `Serialize`); both take the order from `perm`.

Not modelled: gas (the harness gives an unreachable limit), the 2048-slot stack limit (programs of the harness are far
shorter), the content of notifications (only whether `Runtime.Notify` succeeds).
-/
namespace OntVerif.Model.NeoProg
open OntVerif.Util OntVerif.Model.Codec OntVerif.Model.NeoVal

inductive Op
  | pushInt (z : Int) | pushBytes (b : Bytes)
  | dup | drop | swap | over | rot | nip | tuck | pick
  | toAlt | fromAlt | dupAlt
  | newArray | newStruct | newMap
  | append | setItem | pickItem | remove | hasKey | keys | values | arraySize
  | ser | deser | notify
  deriving DecidableEq, Repr

inductive Fault
  | vm        -- any executor / syscall error other than the two below
  | cycle     -- Serialize: circular reference
  | size      -- Serialize: over the size limit
  | diverge   -- Serialize did not return
  deriving DecidableEq, Repr

structure State where
  heap : Heap := []
  stack : List Val := []     -- head = top
  alt : List Val := []
  notes : Nat := 0
  nser : Nat := 0
  deriving Repr

def fitsInt64 (z : Int) : Bool := decide (-9223372036854775808 ≤ z ∧ z < 9223372036854775808)

/-- `VmValue.AsInt64` -/
def asInt64 : Val → Option Int
  | .int z => if fitsInt64 z then some z else none
  | .bool b => some (if b then 1 else 0)
  | .bytes d => let z := fromNeo d; if intTooBig z then none else if fitsInt64 z then some z else none
  | .ref _ => none

def MAX_CLONE_LENGTH : Nat := 1024

def cloneList (rec : Ref → Heap → Nat → Option (Ref × Heap × Nat)) (h0 : Heap) :
    List Val → Heap → Nat → Option (List Val × Heap × Nat)
  | [], h, len => some ([], h, len)
  | v :: vs, h, len =>
    let len := len + 1
    let r1 : Option (Val × Heap × Nat) :=
      match v with
      | .ref r =>
        match h0[r]? with
        | some (.struct _) => (rec r h len).map fun (r', h', l') => (.ref r', h', l')
        | _ => some (v, h, len)
      | _ => some (v, h, len)
    match r1 with
    | none => none
    | some (v', h', len') =>
      match cloneList rec h0 vs h' len' with
      | none => none
      | some (vs', h'', len'') => some (v' :: vs', h'', len'')

/-- `cloneStruct(s, &length)`: nested structs are copied, everything else is shared. New objects are appended. -/
def cloneStruct : Nat → Ref → Heap → Nat → Option (Ref × Heap × Nat)
  | 0, _, _, _ => none
  | f+1, r, h, len =>
    if len > MAX_CLONE_LENGTH then none else
    match h[r]? with
    | some (.struct vs) =>
      match cloneList (cloneStruct f) h vs h len with
      | none => none
      | some (vs', h', len') => some (h'.length, h' ++ [.struct vs'], len')
    | _ => none

/-- SETITEM / APPEND copy a struct operand (`StructValue.Clone`) -/
def cloneIfStruct (h : Heap) (v : Val) : Option (Val × Heap) :=
  match v with
  | .ref r =>
    match h[r]? with
    | some (.struct _) => (cloneStruct 1100 r h 0).map fun (r', h', _) => (.ref r', h')
    | _ => some (v, h)
  | _ => some (v, h)

/-- allocate the tree produced by `Deserialize` -/
def allocList (rec : Tree → Heap → Val × Heap) : List Tree → Heap → List Val × Heap
  | [], h => ([], h)
  | t :: ts, h =>
    let (v, h1) := rec t h
    let (vs, h2) := allocList rec ts h1
    (v :: vs, h2)

def alloc : Nat → Tree → Heap → Val × Heap
  | _, .bytes b, h => (.bytes b, h)
  | _, .bool b, h => (.bool b, h)
  | _, .int z, h => (.int z, h)
  | 0, _, h => (.int 0, h)
  | f+1, .arr ts, h => let (vs, h1) := allocList (alloc f) ts h; (.ref h1.length, h1 ++ [.arr vs])
  | f+1, .struct ts, h => let (vs, h1) := allocList (alloc f) ts h; (.ref h1.length, h1 ++ [.struct vs])
  | f+1, .map es, h =>
    let (ks, h1) := allocList (alloc f) (es.map fun e => e.2.1) h
    let (vs, h2) := allocList (alloc f) (es.map fun e => e.2.2) h1
    let ents := (es.zip (ks.zip vs)).foldl (fun acc (e, k, v) => mapSet ⟨e.1, k, v⟩ acc) []
    (.ref h2.length, h2 ++ [.map ents])

def MAX_NOTIFY_LENGTH : Nat := 65536

def convList (rec : Val → Nat × Nat → Option (Nat × Nat)) : List Val → Nat × Nat → Option (Nat × Nat)
  | [], cl => some cl
  | v :: vs, (c, l) =>
    match rec v (c + 1, l) with
    | none => none
    | some cl' => convList rec vs cl'

/-- `convertNeoVmValueHexString(count, length)`: only the two counters -/
def conv (h : Heap) : Nat → Val → Nat × Nat → Option (Nat × Nat)
  | 0, _, _ => none
  | f+1, v, (c, l) =>
    if c > MAX_COUNT then none else
    if l > MAX_NOTIFY_LENGTH then none else
    match v with
    | .bool _ => some (c, l + 1)
    | .bytes d => some (c, l + d.length)
    | .int z => some (c, l + (if z = 0 then 1 else (toNeo z).length))
    | .ref r =>
      match h[r]? with
      | some (.arr vs) | some (.struct vs) => convList (conv h f) vs (c, l)
      | _ => none

def notifyOk (h : Heap) (v : Val) : Bool :=
  match conv h 1100 v (0, 0) with
  | some (_, l) => decide (l ≤ MAX_NOTIFY_LENGTH)
  | none => false

def removeAt (vs : List Val) (i : Nat) : List Val := vs.take i ++ vs.drop (i + 1)

def inRange (i : Int) (n : Nat) : Bool := decide (0 ≤ i ∧ i < n)

/-- one opcode. `serF k h v` = `Serialize` of `v` as the `k`-th serialization of the run. `perm` orders the map iteration of
`getMapSortedKey` in KEYS / VALUES. -/
def step (serF : Nat → Heap → Val → Except VErr Bytes) (perm : Perm) (op : Op) (s : State) : Except Fault State :=
  match op, s.stack with
  | .pushInt z, st => .ok { s with stack := .int z :: st }
  | .pushBytes b, st => .ok { s with stack := .bytes b :: st }
  | .dup, x :: st => .ok { s with stack := x :: x :: st }
  | .drop, _ :: st => .ok { s with stack := st }
  | .swap, x :: y :: st => .ok { s with stack := y :: x :: st }
  | .over, x :: y :: st => .ok { s with stack := y :: x :: y :: st }
  | .rot, x :: y :: z :: st => .ok { s with stack := z :: x :: y :: st }
  | .nip, x :: _ :: st => .ok { s with stack := x :: st }
  | .tuck, x :: y :: st => .ok { s with stack := x :: y :: x :: st }
  | .pick, n :: st =>
    match asInt64 n with
    | some i => if inRange i st.length then
        match st[i.toNat]? with
        | some v => .ok { s with stack := v :: st }
        | none => .error .vm
      else .error .vm
    | none => .error .vm
  | .toAlt, x :: st => .ok { s with stack := st, alt := x :: s.alt }
  | .fromAlt, st =>
    match s.alt with
    | x :: a => .ok { s with stack := x :: st, alt := a }
    | [] => .error .vm
  | .dupAlt, st =>
    match s.alt with
    | x :: _ => .ok { s with stack := x :: st }
    | [] => .error .vm
  | .newArray, n :: st =>
    match asInt64 n with
    | some c => if inRange c (MAX_ARRAY_SIZE + 1) then
        .ok { s with heap := s.heap ++ [.arr (List.replicate c.toNat (.bool false))], stack := .ref s.heap.length :: st }
      else .error .vm
    | none => .error .vm
  | .newStruct, n :: st =>
    match asInt64 n with
    | some c => if inRange c (MAX_ARRAY_SIZE + 1) then
        .ok { s with heap := s.heap ++ [.struct (List.replicate c.toNat (.bool false))], stack := .ref s.heap.length :: st }
      else .error .vm
    | none => .error .vm
  | .newMap, st => .ok { s with heap := s.heap ++ [.map []], stack := .ref s.heap.length :: st }
  | .append, item :: target :: st =>
    match cloneIfStruct s.heap item with
    | none => .error .vm
    | some (item, h) =>
      match target with
      | .ref r =>
        match h[r]? with
        | some (.arr vs) => if vs.length ≥ MAX_ARRAY_SIZE then .error .vm else
            .ok { s with heap := h.set r (.arr (vs ++ [item])), stack := st }
        | some (.struct vs) => if vs.length ≥ MAX_ARRAY_SIZE then .error .vm else
            .ok { s with heap := h.set r (.struct (vs ++ [item])), stack := st }
        | _ => .error .vm
      | _ => .error .vm
  | .setItem, val :: index :: item :: st =>
    match cloneIfStruct s.heap val with
    | none => .error .vm
    | some (val, h) =>
      match item with
      | .ref r =>
        match h[r]? with
        | some (.arr vs) =>
          match asInt64 index with
          | some i => if inRange i vs.length then .ok { s with heap := h.set r (.arr (vs.set i.toNat val)), stack := st } else .error .vm
          | none => .error .vm
        | some (.struct vs) =>
          match asInt64 index with
          | some i => if inRange i vs.length then .ok { s with heap := h.set r (.struct (vs.set i.toNat val)), stack := st } else .error .vm
          | none => .error .vm
        | some (.map es) =>
          match asBytes index with
          | some kb => .ok { s with heap := h.set r (.map (mapSet ⟨kb, index, val⟩ es)), stack := st }
          | none => .error .vm
        | none => .error .vm
      | _ => .error .vm
  | .pickItem, index :: item :: st =>
    match item with
    | .ref r =>
      match s.heap[r]? with
      | some (.arr vs) | some (.struct vs) =>
        match asInt64 index with
        | some i => if inRange i vs.length then
            match vs[i.toNat]? with
            | some v => .ok { s with stack := v :: st }
            | none => .error .vm
          else .error .vm
        | none => .error .vm
      | some (.map es) =>
        match asBytes index with
        | some kb =>
          match mapGet kb es with
          | some e => .ok { s with stack := e.val :: st }
          | none => .error .vm
        | none => .error .vm
      | none => .error .vm
    | prim =>
      match asBytes prim, asInt64 index with
      | some buf, some i => if inRange i buf.length then
          match buf[i.toNat]? with
          | some b => .ok { s with stack := .int b.toNat :: st }
          | none => .error .vm
        else .error .vm
      | _, _ => .error .vm
  | .remove, index :: item :: st =>
    match item with
    | .ref r =>
      match s.heap[r]? with
      | some (.map es) =>
        match asBytes index with
        | some kb => .ok { s with heap := s.heap.set r (.map (mapRemove kb es)), stack := st }
        | none => .error .vm
      | some (.arr vs) =>
        match asInt64 index with
        | some i => if inRange i vs.length then .ok { s with heap := s.heap.set r (.arr (removeAt vs i.toNat)), stack := st } else .error .vm
        | none => .error .vm
      | _ => .error .vm
    | _ => .error .vm
  | .hasKey, key :: item :: st =>
    match item with
    | .ref r =>
      match s.heap[r]? with
      | some (.map es) =>
        match asBytes key with
        | some kb => .ok { s with stack := .bool (mapGet kb es).isSome :: st }
        | none => .error .vm
      | _ => .error .vm
    | _ => .error .vm
  | .keys, item :: st =>
    match item with
    | .ref r =>
      match s.heap[r]? with
      | some (.map es) =>
        let ks := (sortedEntries perm [s.nser] r es).map (·.kv)
        if ks.length > MAX_ARRAY_SIZE then .error .vm else
        .ok { s with heap := s.heap ++ [.arr ks], stack := .ref s.heap.length :: st }
      | _ => .error .vm
    | _ => .error .vm
  | .values, item :: st =>
    match item with
    | .ref r =>
      match s.heap[r]? with
      | some (.map es) =>
        let vs := (sortedEntries perm [s.nser] r es).map (·.val)
        if vs.length > MAX_ARRAY_SIZE then .error .vm else
        .ok { s with heap := s.heap ++ [.arr vs], stack := .ref s.heap.length :: st }
      | _ => .error .vm
    | _ => .error .vm
  | .arraySize, item :: st =>
    match item with
    | .ref r =>
      match s.heap[r]? with
      | some (.arr vs) => .ok { s with stack := .int vs.length :: st }
      | _ => .error .vm
    | prim =>
      match asBytes prim with
      | some buf => .ok { s with stack := .int buf.length :: st }
      | none => .error .vm
  | .ser, v :: st =>
    match serF s.nser s.heap v with
    | .ok b => .ok { s with stack := .bytes b :: st, nser := s.nser + 1 }
    | .error .cycle => .error .cycle
    | .error .size => .error .size
    | .error .fuel => .error .diverge
    | .error _ => .error .vm
  | .deser, v :: st =>
    match asBytes v with
    | none => .error .vm
    | some bs =>
      match deserialize bs with
      | .error _ => .error .vm
      | .ok (t, _) =>
        let (v', h') := alloc (MAX_COUNT + 2) t s.heap
        .ok { s with heap := h', stack := v' :: st }
  | .notify, v :: st => if notifyOk s.heap v then .ok { s with stack := st, notes := s.notes + 1 } else .error .vm
  | _, _ => .error .vm

def run (serF : Nat → Heap → Val → Except VErr Bytes) (perm : Perm) : List Op → State → Except Fault State
  | [], s => .ok s
  | op :: ops, s =>
    match step serF perm op s with
    | .error e => .error e
    | .ok s' => run serF perm ops s'

/-- `Runtime.Serialize` of the `k`-th call under iteration orders `perm` (call path prefixed by the call number) -/
def serOf (var : Variant) (perm : Perm) : Nat → Heap → Val → Except VErr Bytes :=
  fun k h v => serialize var (fun path => perm (path ++ [k])) h v

/-- a whole invocation from the empty state: final state (the return value is the top of the stack) or the fault -/
def exec (var : Variant) (perm : Perm) (prog : List Op) : Except Fault State :=
  run (serOf var perm) perm prog {}

end OntVerif.Model.NeoProg
