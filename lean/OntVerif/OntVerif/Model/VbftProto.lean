import OntVerif.Gen.Quorum
/-!
# VBFT, protocol layer (C34)

An abstract transition system for the commit phase of VBFT over ALL heights at once, `N` nodes (`Fin N`), a set of
Byzantine nodes given by `faulty`. The state is the monotone history of every message ever sent (the network may
delay, lose, duplicate and reorder: a guard only ever asks whether messages *exist* in the history, i.e. the messages a
node has received are some subset of it) plus the per-height bookkeeping of every honest node.

Honest node rules (what `block_pool.go` is meant to enforce through `setProposalEndorsed`, `setProposalCommitted`,
`commitDone`, `setBlockSealed`):
* endorse at most one non-empty block and at most one empty block per height;
* commit (sign a commit message) at most one block per height;
* seal a block at a height only if commit messages for that block from at least `N-(N-1)/3` distinct nodes exist
  (a *genuine* commit quorum: an honest node's commit message exists only if that node sent it), once per height.
Byzantine nodes send any message carrying their own identity, at any time. Timeouts are not modelled as such: whatever a
timeout makes an honest node do is one of the guarded steps above, taken at an arbitrary moment.

Blocks are identified by their hash (`Blk`), abstractly. Core Lean only.
-/
namespace OntVerif.Model.VbftProto
open OntVerif.Gen.Quorum

abbrev Blk := Nat

inductive Msg (N : Nat)
  | endorse (h : Nat) (i : Fin N) (b : Blk) (empty : Bool)
  | commit (h : Nat) (i : Fin N) (b : Blk)
  deriving DecidableEq

def Msg.signer {N : Nat} : Msg N → Fin N
  | .endorse _ i _ _ => i
  | .commit _ i _ => i

/-- per-height bookkeeping of one node -/
structure NodeSt where
  endorsed : Nat → Option Blk := fun _ => none
  endorsedEmpty : Nat → Option Blk := fun _ => none
  committed : Nat → Option Blk := fun _ => none
  sealed : Nat → Option Blk := fun _ => none

structure St (N : Nat) where
  hist : List (Msg N) := []
  node : Fin N → NodeSt := fun _ => {}

def setAt (f : Nat → Option Blk) (h : Nat) (b : Blk) : Nat → Option Blk := fun k => if k = h then some b else f k

def updNode {N : Nat} (f : Fin N → NodeSt) (i : Fin N) (s : NodeSt) : Fin N → NodeSt := fun j => if j = i then s else f j

/-- commit messages for `b` at height `h` from at least `N-(N-1)/3` distinct nodes exist -/
def commitQuorum {N : Nat} (hist : List (Msg N)) (h : Nat) (b : Blk) : Prop :=
  ∃ l : List (Fin N), l.Nodup ∧ commitConsensus_q N ≤ l.length ∧ ∀ j ∈ l, Msg.commit h j b ∈ hist

inductive Step {N : Nat} (faulty : Fin N → Bool) : St N → St N → Prop
  /-- an honest node endorses a non-empty block: at most one per height (re-sending the same is allowed) -/
  | endorse (s : St N) (i : Fin N) (h : Nat) (b : Blk) (hi : faulty i = false)
      (guard : (s.node i).endorsed h = none ∨ (s.node i).endorsed h = some b) :
      Step faulty s { hist := .endorse h i b false :: s.hist,
                      node := updNode s.node i { s.node i with endorsed := setAt (s.node i).endorsed h b } }
  /-- … and at most one empty block -/
  | endorseEmpty (s : St N) (i : Fin N) (h : Nat) (b : Blk) (hi : faulty i = false)
      (guard : (s.node i).endorsedEmpty h = none) :
      Step faulty s { hist := .endorse h i b true :: s.hist,
                      node := updNode s.node i { s.node i with endorsedEmpty := setAt (s.node i).endorsedEmpty h b } }
  /-- an honest node commits once per height (to any block: no relation to what it endorsed is needed for safety) -/
  | commit (s : St N) (i : Fin N) (h : Nat) (b : Blk) (hi : faulty i = false)
      (guard : (s.node i).committed h = none) :
      Step faulty s { hist := .commit h i b :: s.hist,
                      node := updNode s.node i { s.node i with committed := setAt (s.node i).committed h b } }
  /-- an honest node seals only on a commit quorum, once per height -/
  | sealBlock (s : St N) (i : Fin N) (h : Nat) (b : Blk) (hi : faulty i = false)
      (guard : commitQuorum s.hist h b) (once : (s.node i).sealed h = none) :
      Step faulty s { s with node := updNode s.node i { s.node i with sealed := setAt (s.node i).sealed h b } }
  /-- a Byzantine node sends anything it can sign -/
  | byz (s : St N) (m : Msg N) (hm : faulty m.signer = true) : Step faulty s { s with hist := m :: s.hist }

inductive Reach {N : Nat} (faulty : Fin N → Bool) : St N → Prop
  | init : Reach faulty {}
  | step (s t : St N) : Reach faulty s → Step faulty s t → Reach faulty t

end OntVerif.Model.VbftProto
