import OntVerif.Model.Codec
/-!
# Model of the numeric encodings (C21) and of NeoVM integers (C13)

Executable, core-only.  Mirrors

* `common/bigint.go`                       `BigIntToNeoBytes` / `BigIntFromNeoBytes`        → `toNeo` / `fromNeo`
* `common/int128.go`                       `I128FromBigInt` / `I128.ToBigInt` / `I128FromInt64` → `i128FromBigInt` / `i128ToBigInt`
* `smartcontract/service/native/utils/serialization.go` `EncodeVarUint` / `DecodeVarUint`  → `encodeVarUint` / `decodeVarUint`
* `core/states/native_token_balance.go` (+ `storage_item.go`)                               → `balanceToItem` / `balanceFromItem` / `item*Bytes`
* `vm/neovm/types/int_value.go`            `IntValue` and its operations                    → `IntValue.*`
* `vm/neovm/executor.go`                   the integer opcodes                              → `execUnary` / `execBinary` / `execWithin`

`math/big.Int` is `Int`; Go `int64` is `BitVec 64` (wrapping `+ - *`, truncating `/` with `MinInt64 / -1 = MinInt64`, `%`);
`github.com/JohnCGriffin/overflow` `Add64/Sub64/Mul64` are transcribed literally.
-/
namespace OntVerif.Model.NeoInt
open OntVerif.Util OntVerif.Model.Codec

/-- (core has no `DecidableEq (Except ε α)`; needed to `decide` concrete witnesses) -/
instance exceptDecEq {ε α : Type} [DecidableEq ε] [DecidableEq α] : DecidableEq (Except ε α)
  | .ok a, .ok b => if h : a = b then isTrue (by rw [h]) else isFalse (by intro e; injection e; contradiction)
  | .error a, .error b => if h : a = b then isTrue (by rw [h]) else isFalse (by intro e; injection e; contradiction)
  | .ok _, .error _ => isFalse (by intro e; cases e)
  | .error _, .ok _ => isFalse (by intro e; cases e)

/-! ## C21 — NeoBytes (little-endian two's complement, minimal) -/

/-- `big.Int.Bytes()` reversed: the minimal little-endian magnitude (`fuel` = any bound ≥ the number of bytes). -/
def natToLEAux : Nat → Nat → Bytes
  | 0, _ => []
  | f+1, n => if n = 0 then [] else UInt8.ofNat (n % 256) :: natToLEAux f (n / 256)

def natToLE (n : Nat) : Bytes := natToLEAux n n

def invBytes (bs : Bytes) : Bytes := bs.map (fun b => ~~~ b)

/-- the `for i := 0; i < len(bs); i++ { if bs[i] == 255 { bs[i] = 0 } else { bs[i] += 1; break } }` loop -/
def incLE : Bytes → Bytes
  | [] => []
  | b :: r => if b == 255 then 0 :: incLE r else (b + 1) :: r

/-- `common.BigIntToNeoBytes` -/
def toNeo (z : Int) : Bytes :=
  let bs := natToLE z.natAbs
  match bs.getLast? with
  | none => []                                   -- len(bs) == 0
  | some top =>
    if z < 0 then
      let bs' := incLE (invBytes bs)
      match bs'.getLast? with
      | none => bs'                              -- unreachable: same length as bs
      | some t => if t < 128 then bs' ++ [255] else bs'
    else
      if top ≥ 128 then bs ++ [0] else bs

/-- `common.BigIntFromNeoBytes` -/
def fromNeo (ba : Bytes) : Int :=
  match ba.getLast? with
  | none => 0
  | some t =>
    if t >>> 7 == 1 then - (Int.ofNat (fromLE (invBytes ba) + 1))
    else Int.ofNat (fromLE ba)

/-! ## C21 — I128 -/

def pow128 : Int := 340282366920938463463374607431768211456
def maxI128 : Int := 170141183460469231731687303715884105727
def minI128 : Int := -170141183460469231731687303715884105728

/-- Go `copy(dst[:16], src)` into a zeroed array -/
def copy16 (src : Bytes) : Bytes := src.take 16 ++ List.replicate (16 - min src.length 16) 0

/-- `common.I128FromBigInt`; `none` = error "big int out of i128 range" -/
def i128FromBigInt (z : Int) : Option Bytes :=
  if z > maxI128 ∨ z < minI128 then none
  else
    let v := if z < 0 then z + pow128 else z
    some (copy16 (natToLE v.natAbs))

/-- `I128.ToBigInt` (through `U128.ToBigInt`: `append(self[:], 0)`, reverse, `SetBytes`) -/
def i128ToBigInt (b : Bytes) : Int :=
  let v := Int.ofNat (fromLE (b ++ [0]))
  if v > maxI128 then v - pow128 else v

/-- `common.I128FromInt64` -/
def i128FromInt64 (v : BitVec 64) : Bytes :=
  let base : Bytes := if v.slt 0 then List.replicate 16 255 else List.replicate 16 0
  leN 8 v.toNat ++ base.drop 8

/-! ## C21 — native contract var-uint -/

/-- `utils.EncodeVarUint` (argument is a uint64) -/
def encodeVarUint (v : Nat) : Bytes := writeVarBytes (toNeo (Int.ofNat v))

inductive DErr | eof | irregular | range | negative
  deriving Repr, DecidableEq

/-- `utils.DecodeVarUint`; outer `none` = Go panic inside `NextVarBytes` (unreachable, see C18) -/
def decodeVarUint (s : Src) : Option (Except DErr Nat × Src) :=
  match nextVarBytes s with
  | none => none
  | some ((value, _, irregular, eof), s') =>
    if eof then some (.error .eof, s')
    else if irregular then some (.error .irregular, s')
    else
      let v := fromNeo value
      if v < 0 ∨ ¬ v < 18446744073709551616 then some (.error .range, s')
      else some (.ok v.toNat, s')

/-! ## C21 — token balance storage item -/

def scaleFactor : Int := 1000000000

/-- `NativeTokenBalance.MustToStorageItem`: (StateVersion, Value); `none` = panic "too large token balance".
`bigint.Int.Mod/Div` are `big.Int.Mod/Div` (Euclidean) = Lean `%` and `/` on `Int`. -/
def balanceToItem (z : Int) : Option (UInt8 × Bytes) :=
  if z % scaleFactor ≠ 0 then some (1, toNeo z)
  else if 0 ≤ z / scaleFactor ∧ z / scaleFactor < 18446744073709551616 then
    some (0, leN 8 (z / scaleFactor).toNat)      -- MustToInteger64: the quotient is a uint64
  else none

/-- `NativeTokenBalanceFromStorageItem`; outer `none` = Go panic in the source (unreachable) -/
def balanceFromItem (ver : UInt8) (val : Bytes) : Option (Except DErr Int) :=
  if ver == 0 then
    match nextUintN 8 ⟨val, 0⟩ with
    | none => none
    | some ((v, eof), _) => if eof then some (.error .eof) else some (.ok (Int.ofNat v * scaleFactor))
  else
    let b := fromNeo val
    if b < 0 then some (.error .negative) else some (.ok b)

/-- `StorageItem.Serialization` -/
def itemToBytes (ver : UInt8) (val : Bytes) : Bytes := ver :: writeVarBytes val

/-- `StorageItem.Deserialization` on a fresh source -/
def itemFromBytes (raw : Bytes) : Option (Except DErr (UInt8 × Bytes)) :=
  let ((ver, eof), s1) := nextByte ⟨raw, 0⟩
  if eof then some (.error .eof) else
  match nextVarBytes s1 with
  | none => none
  | some ((value, _, irregular, eof), _) =>
    if irregular then some (.error .irregular)
    else if eof then some (.error .eof)
    else some (.ok (ver, value))

/-- `MustToStorageItemBytes` -/
def balanceToBytes (z : Int) : Option Bytes := (balanceToItem z).map (fun (v, b) => itemToBytes v b)

def balanceFromBytes (raw : Bytes) : Option (Except DErr Int) :=
  match itemFromBytes raw with
  | none => none
  | some (.error e) => some (.error e)
  | some (.ok (ver, val)) => balanceFromItem ver val

/-! ## C13 — `IntValue` -/

/-- Where the as-shipped code deviates from the property and the deviation is *recorded* (not repaired), the model
has both behaviours.  `DIV MinInt64 -1` is repaired by `fixes/C13-div-minint64.patch`; the model mirrors the repaired code. -/
inductive Variant | asShipped | sound
  deriving Repr, DecidableEq

inductive Fault | oversize | divzero | shiftneg
  deriving Repr, DecidableEq

inductive IntValue
  | small (i : BitVec 64)     -- isbig = false, integer
  | big (z : Int)             -- isbig = true, bigint
  deriving Repr, DecidableEq

abbrev R := Except Fault IntValue

/-- the `*big.Int` the slow path works on (`big.NewInt(self.integer)` or `self.bigint`) -/
def IntValue.toInt : IntValue → Int
  | .small i => i.toInt
  | .big z => z

def isInt64 (z : Int) : Bool := decide (-9223372036854775808 ≤ z ∧ z ≤ 9223372036854775807)

/-- `len(val.Bytes()) > constants.MAX_INT_SIZE` -/
def overSize (z : Int) : Bool := decide ((natToLE z.natAbs).length > 32)

/-- `IntValFromBigInt` without the size check -/
def normInt (z : Int) : IntValue := if isInt64 z then .small (BitVec.ofInt 64 z) else .big z

/-- `IntValFromBigInt` (the Go code sets `err` and still fills `result`; every caller tests `err`) -/
def intValFromBigInt (z : Int) : R :=
  if overSize z then .error .oversize else .ok (normInt z)

def intMin64 : BitVec 64 := BitVec.intMin 64

/-- `overflow.Add64` -/
def add64 (a b : BitVec 64) : BitVec 64 × Bool :=
  let c := a + b
  (c, (a.slt c) == ((0 : BitVec 64).slt b))

/-- `overflow.Sub64` -/
def sub64 (a b : BitVec 64) : BitVec 64 × Bool :=
  let c := a - b
  (c, (c.slt a) == ((0 : BitVec 64).slt b))

/-- `overflow.Mul64` (Go `/` on int64 is `BitVec.sdiv`, including `MinInt64 / -1 = MinInt64`) -/
def mul64 (a b : BitVec 64) : BitVec 64 × Bool :=
  if a == 0 || b == 0 then (0, true)
  else
    let c := a * b
    if (c.slt 0) == ((a.slt 0) != (b.slt 0)) then
      if c.sdiv b == a then (c, true) else (c, false)
    else (c, false)

/-- `IntValue.intOp` -/
def intOp (a b : IntValue) (little : BitVec 64 → BitVec 64 → BitVec 64 × Bool) (bigf : Int → Int → R) : R :=
  match a, b with
  | .small x, .small y =>
    let (v, ok) := little x y
    if ok then .ok (.small v) else bigf x.toInt y.toInt
  | _, _ => bigf a.toInt b.toInt

/-! `math/big` bitwise operations (sign-magnitude case analysis of `big.Int.And/Or/Xor/Not`; `-[n+1]` has `abs-1 = n`) -/
def natAndNot (x y : Nat) : Nat := x ^^^ (x &&& y)

def bigAnd : Int → Int → Int
  | .ofNat m, .ofNat n => .ofNat (m &&& n)
  | .ofNat m, .negSucc n => .ofNat (natAndNot m n)
  | .negSucc m, .ofNat n => .ofNat (natAndNot n m)
  | .negSucc m, .negSucc n => .negSucc (m ||| n)

def bigOr : Int → Int → Int
  | .ofNat m, .ofNat n => .ofNat (m ||| n)
  | .ofNat m, .negSucc n => .negSucc (natAndNot n m)
  | .negSucc m, .ofNat n => .negSucc (natAndNot m n)
  | .negSucc m, .negSucc n => .negSucc (m &&& n)

def bigXor : Int → Int → Int
  | .ofNat m, .ofNat n => .ofNat (m ^^^ n)
  | .ofNat m, .negSucc n => .negSucc (m ^^^ n)
  | .negSucc m, .ofNat n => .negSucc (m ^^^ n)
  | .negSucc m, .negSucc n => .ofNat (m ^^^ n)

def bigNot : Int → Int
  | .ofNat n => .negSucc n
  | .negSucc n => .ofNat n

namespace IntValue

def add (a b : IntValue) : R := intOp a b add64 (fun x y => intValFromBigInt (x + y))
def sub (a b : IntValue) : R := intOp a b sub64 (fun x y => intValFromBigInt (x - y))
def mul (a b : IntValue) : R := intOp a b mul64 (fun x y => intValFromBigInt (x * y))

def isZero : IntValue → Bool
  | .small i => i == 0
  | .big z => z == 0

/-- `IntValue.Div` as repaired by `fixes/C13-div-minint64.patch` (as shipped, the fast path returns
`MinInt64 / -1 = MinInt64` with `ok = true`). `big.Int.Quo` = `Int.tdiv`. -/
def div (a b : IntValue) : R :=
  if b.isZero then .error .divzero
  else intOp a b (fun x y => if x == intMin64 && y == -1 then (0, false) else (x.sdiv y, true))
    (fun x y => intValFromBigInt (x.tdiv y))

/-- `IntValue.Mod`: Go `%` = `BitVec.srem` (`MinInt64 % -1 = 0`), `big.Int.Rem` = `Int.tmod` -/
def mod (a b : IntValue) : R :=
  if b.isZero then .error .divzero
  else intOp a b (fun x y => (x.srem y, true)) (fun x y => intValFromBigInt (x.tmod y))

def max (a b : IntValue) : R :=
  intOp a b (fun x y => (if x.slt y then y else x, true))
    (fun x y => intValFromBigInt (if x ≤ y then y else x))

def min (a b : IntValue) : R :=
  intOp a b (fun x y => (if x.slt y then x else y, true))
    (fun x y => intValFromBigInt (if x ≤ y then x else y))

def xor (a b : IntValue) : R := intOp a b (fun x y => (x ^^^ y, true)) (fun x y => intValFromBigInt (bigXor x y))
def and (a b : IntValue) : R := intOp a b (fun x y => (x &&& y, true)) (fun x y => intValFromBigInt (bigAnd x y))
def or (a b : IntValue) : R := intOp a b (fun x y => (x ||| y, true)) (fun x y => intValFromBigInt (bigOr x y))

def cmpInt (x y : Int) : Int := if x < y then -1 else if x = y then 0 else 1

/-- `IntValue.Cmp` -/
def cmp (a b : IntValue) : Int :=
  match a, b with
  | .small x, .small y => if x.slt y then -1 else if x == y then 0 else 1
  | _, _ => cmpInt a.toInt b.toInt

/-- `IntValue.Sign` -/
def sign : IntValue → Int
  | .small i => if i.slt 0 then -1 else if i == 0 then 0 else 1
  | .big z => cmpInt z 0

/-- `IntValue.Not` (no size check) -/
def not : IntValue → IntValue
  | .big z => .big (bigNot z)
  | .small i => .small (~~~ i)

/-- `IntValue.Abs` -/
def abs : IntValue → IntValue
  | .big z => .big (Int.ofNat z.natAbs)
  | .small i =>
    if i == intMin64 then .big (Int.ofNat i.toInt.natAbs)
    else if i.slt 0 then .small (-i) else .small i

/-- the shift amount of `Rsh`/`Lsh`: a uint64, or `ERR_SHIFT_BY_NEG` -/
def shiftAmount : IntValue → Except Fault Nat
  | .small i => if i.slt 0 then .error .shiftneg else .ok i.toNat
  | .big z => if 0 ≤ z ∧ z < 18446744073709551616 then .ok z.toNat else .error .shiftneg

/-- `IntValue.Rsh`; `big.Int.Rsh` is the arithmetic shift (floor) = `Int.shiftRight` -/
def rsh (a b : IntValue) : R :=
  match shiftAmount b with
  | .error e => .error e
  | .ok val =>
    if val > 256 then
      if a.sign < 0 then .ok (.small (-1)) else .ok (.small 0)
    else intValFromBigInt (a.toInt >>> val)

/-- `IntValue.Lsh`; `big.Int.Lsh` multiplies the magnitude = `Int.shiftLeft` -/
def lsh (a b : IntValue) : R :=
  match shiftAmount b with
  | .error e => .error e
  | .ok val =>
    if val > 256 then .error .oversize
    else intValFromBigInt (a.toInt <<< val)

/-! `.sound` counterparts of the three recorded deviations of `Not`, `Lsh`, `Rsh` -/

def notV : Variant → IntValue → R
  | .asShipped, a => .ok a.not
  | .sound, a => if overSize a.not.toInt then .error .oversize else .ok a.not

def lshV : Variant → IntValue → IntValue → R
  | .asShipped, a, b => a.lsh b
  | .sound, a, b =>
    if b.toInt < 0 then .error .shiftneg
    else if a.toInt = 0 then .ok (.small 0)
    else if b.toInt > 256 then .error .oversize
    else intValFromBigInt (a.toInt <<< b.toInt.toNat)

def rshV : Variant → IntValue → IntValue → R
  | .asShipped, a, b => a.rsh b
  | .sound, a, b =>
    if b.toInt < 0 then .error .shiftneg
    else if b.toInt > 256 then (if a.toInt < 0 then .ok (.small (-1)) else .ok (.small 0))
    else intValFromBigInt (a.toInt >>> b.toInt.toNat)

end IntValue

/-! ## C13 — the opcodes of `Executor.ExecuteOp` on VM values -/

/-- the primitive `VmValue`s an integer opcode accepts -/
inductive Val
  | int (i : BitVec 64)        -- integerType
  | bigint (z : Int)           -- bigintType
  | bytes (bs : Bytes)         -- bytearrayType
  | bool (b : Bool)            -- boolType (integer field 0/1)
  deriving Repr, DecidableEq

def boolBits (b : Bool) : BitVec 64 := if b then 1 else 0

/-- `VmValue.AsIntValue` -/
def Val.asIntValue : Val → R
  | .int i => .ok (.small i)
  | .bool b => .ok (.small (boolBits b))
  | .bigint z => intValFromBigInt z
  | .bytes bs => intValFromBigInt (fromNeo bs)

/-- `VmValue.AsBigInt` ("only used in cmp opcode to lift the 32byte limit of integer") -/
def Val.asBigInt : Val → Int
  | .int i => i.toInt
  | .bool b => (boolBits b).toInt
  | .bigint z => z
  | .bytes bs => fromNeo bs

/-- `VmValue.AsBytes` -/
def Val.asBytes : Val → Bytes
  | .bool b => if b then [1] else [0]
  | .int i => toNeo i.toInt
  | .bigint z => toNeo z
  | .bytes bs => bs

/-- `VmValueFromIntValue` -/
def ofIntValue : IntValue → Val
  | .small i => .int i
  | .big z => .bigint z

inductive UOp | inc | dec | sign | negate | abs | invert | nz
  deriving Repr, DecidableEq

inductive BOp | add | sub | mul | div | mod | max | min | and | or | xor | shl | shr
  | lt | gt | lte | gte | numequal | numnotequal
  deriving Repr, DecidableEq

def pushInt (r : R) : Except Fault Val := r.map ofIntValue

/-- INC DEC SIGN NEGATE ABS INVERT NZ -/
def execUnary (v : Variant) (op : UOp) (a : Val) : Except Fault Val :=
  match a.asIntValue with
  | .error e => .error e
  | .ok x =>
    match op with
    | .inc => pushInt (x.add (.small 1))
    | .dec => pushInt (x.sub (.small 1))
    | .sign => .ok (.int (BitVec.ofInt 64 (x.cmp (.small 0))))
    | .negate => pushInt ((IntValue.small 0).sub x)
    | .abs => .ok (ofIntValue x.abs)
    | .invert => pushInt (IntValue.notV v x)
    | .nz => .ok (.bool (x.cmp (.small 0) != 0))

def BOp.isCmp : BOp → Bool
  | .lt | .gt | .lte | .gte | .numequal | .numnotequal => true
  | _ => false

/-- the integer a comparison opcode sees: `AsBigInt` for LT/GT/LTE/GTE, `BigIntFromNeoBytes(AsBytes)` for NUM(NOT)EQUAL -/
def cmpOperand (op : BOp) (a : Val) : Int :=
  match op with
  | .numequal | .numnotequal => fromNeo a.asBytes
  | _ => a.asBigInt

def cmpResult (op : BOp) (l r : Int) : Bool :=
  match op with
  | .lt => decide (l < r)
  | .gt => decide (l > r)
  | .lte => decide (l ≤ r)
  | .gte => decide (l ≥ r)
  | .numequal => decide (l = r)
  | .numnotequal => decide (l ≠ r)
  | _ => false

/-- the `switch opcode` of the ADD … MIN, AND/OR/XOR and SHL/SHR cases -/
def arithFn (v : Variant) : BOp → IntValue → IntValue → R
  | .add => IntValue.add
  | .sub => IntValue.sub
  | .mul => IntValue.mul
  | .div => IntValue.div
  | .mod => IntValue.mod
  | .max => IntValue.max
  | .min => IntValue.min
  | .and => IntValue.and
  | .or => IntValue.or
  | .xor => IntValue.xor
  | .shl => IntValue.lshV v
  | .shr => IntValue.rshV v
  | _ => fun _ _ => .error .oversize   -- unreachable (comparisons are handled before)

/-- `PopPairAsIntVal` (right operand first), the operation, `Push(VmValueFromIntValue(val))` -/
def binInt (f : IntValue → IntValue → R) (a b : Val) : Except Fault Val :=
  match b.asIntValue with
  | .error e => .error e
  | .ok y =>
    match a.asIntValue with
    | .error e => .error e
    | .ok x => pushInt (f x y)

/-- binary opcodes; `a` was pushed first (left), `b` is the top of the stack (right, popped first) -/
def execBinary (v : Variant) (op : BOp) (a b : Val) : Except Fault Val :=
  if op.isCmp then
    let l := cmpOperand op a
    let r := cmpOperand op b
    match v with
    | .asShipped => .ok (.bool (cmpResult op l r))
    | .sound => if overSize r || overSize l then .error .oversize else .ok (.bool (cmpResult op l r))
  else binInt (arithFn v op) a b

/-- WITHIN: `x a b` pushed in this order; true iff `a ≤ x < b` -/
def execWithin (x a b : Val) : Except Fault Val :=
  match b.asIntValue with
  | .error e => .error e
  | .ok right =>
    match a.asIntValue with
    | .error e => .error e
    | .ok left =>
      match x.asIntValue with
      | .error e => .error e
      | .ok val => .ok (.bool (decide (val.cmp left ≥ 0) && decide (val.cmp right < 0)))

end OntVerif.Model.NeoInt
