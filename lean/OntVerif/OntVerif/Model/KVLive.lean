import OntVerif.Model.Migrate
/-!
# Iterator objects that stay open while the databases change, and `StateDB.Commit`

Builds on `Model/KV.lean` and on the live memdb cursor of `Model/Migrate.lean` (`Cursor`, `liveOps m` = the `dbIter`
operations evaluated against the memdb *as it is when the call is made*: the skip-list iterator holds a pointer to the MemDB,
seeks in `First()`, follows the current forward pointer in `Next()`).

* `OverlayDB.NewIterator` / `CacheDB.NewIterator` as OBJECTS (`Overlay.openIter`, `Cache.openIter`): creation reads nothing from
  the two memdbs (only the range is captured), the LevelDB iterator reads the snapshot taken at creation (`Leaf` over the
  slice of the store at that moment). `First`/`Next` are then run against the memdbs of the state at call time
  (`cacheLiveOps tm bm`). `Join.firstSound` is `First()` of a repaired `JoinIter` whose `first()` clears the two end flags.
* `StateDB.CommitToCacheDB` / `StateDB.Commit` (`smartcontract/storage/statedb.go`): every self-destructed account is deleted
  and its storage cleaned (`CleanContractStorageData`, the iterate-and-delete loop of `Model/Migrate.lean`), `Suicided` becomes a
  fresh map, the snapshot stack is cut to length 0; `Commit` then replays the transaction memdb into the overlay.
  The Go loop ranges over a map; the model takes the list order (the final memdb does not depend on it for addresses of equal
  length — exercised by the correspondence, not proved).
-/
namespace OntVerif.Model.KVLive
open OntVerif.Util OntVerif.Model.KV OntVerif.Model.Migrate

abbrev OvLive := Join Cursor Leaf
abbrev CacheLive := Join Cursor OvLive

/-- iterator operations of an open `OverlayDB` iterator against the block memdb `bm` as it is now -/
def ovLiveOps (bm : MemDB) : IterOps OvLive := joinOps (liveOps bm) leafOps

/-- iterator operations of an open `CacheDB` iterator against the transaction memdb `tm` and the block memdb `bm` as they are now -/
def cacheLiveOps (tm bm : MemDB) : IterOps CacheLive := joinOps (liveOps tm) (ovLiveOps bm)

/-- `OverlayDB.NewIterator(p)`: `store.NewIterator(p)` (LevelDB snapshot) and `memdb.NewIterator(BytesPrefix(p))` (nothing read) -/
def openOverlayIter (o : Overlay) (p : Bytes) : OvLive :=
  { mem := { start := p, limit := prefixLimit p }, back := { all := prefixSlice o.store p } }

/-- `CacheDB.NewIterator(p)` -/
def openCacheIter (c : Cache) (p : Bytes) : CacheLive :=
  { mem := { start := stStorage :: p, limit := prefixLimit (stStorage :: p) }, back := openOverlayIter c.backend (stStorage :: p) }

/-- `First()` then up to `n` elements, against the state `c` at the time of the calls (no writes during the walk) -/
def drainCacheIter (c : Cache) (it : CacheLive) (n : Nat) : List KV :=
  drain (cacheLiveOps c.mem c.backend.mem) true n ((cacheLiveOps c.mem c.backend.mem).first it)

def drainOverlayIter (o : Overlay) (it : OvLive) (n : Nat) : List KV :=
  drain (ovLiveOps o.mem) false n ((ovLiveOps o.mem).first it)

/-- `First()` of a `JoinIter` whose `first()` resets `nextMemEnd`/`nextBackEnd` (proposed repair, fixes/C04-*.patch) -/
def Join.firstSound {μ β : Type} (M : IterOps μ) (B : IterOps β) (j : Join μ β) : Bool × Join μ β :=
  Join.first M B { j with memEnd := false, backEnd := false }

/-- the tree as it is (`first()` leaves the end flags of an earlier pass set) / with the repair -/
inductive Variant | asShipped | sound
  deriving Repr, DecidableEq

def joinOpsV {μ β : Type} (v : Variant) (M : IterOps μ) (B : IterOps β) : IterOps (Join μ β) :=
  match v with
  | .asShipped => joinOps M B
  | .sound => { joinOps M B with first := Join.firstSound M B }

def ovLiveOpsV (v : Variant) (bm : MemDB) : IterOps OvLive := joinOpsV v (liveOps bm) leafOps
def cacheLiveOpsV (v : Variant) (tm bm : MemDB) : IterOps CacheLive := joinOpsV v (liveOps tm) (ovLiveOpsV v bm)

/-! ## StateDB.Commit -/

/-- `StateDB.CommitToCacheDB` -/
def commitToCacheDB (s : StateDB) : StateDB :=
  { s with
    cache := s.suicided.foldl (fun c a => cleanData (c.put stEthAccount a []) a) s.cache,
    suicided := [], snaps := [] }

/-- `StateDB.Commit` -/
def commit (s : StateDB) : StateDB :=
  let s1 := commitToCacheDB s
  { s1 with cache := s1.cache.commit }

end OntVerif.Model.KVLive
