import OntVerif.Model.Token
/-!
# Model of `HandleInvokeTransaction` (core/store/ledgerstore/tx_handler.go) — property C05

What is mirrored, statement by statement, in `UInt64` (Go `uint64`: `+ - *` wrap, `/` truncates):

* `HandleInvokeTransaction`: `isCharge`, `minGas`, `codeLenGasLimit*GasPrice`, `GasLimit < codeLenGasLimit`,
  `oldBalance / GasPrice`, `availableGasLimit - codeLenGasLimit`, `availableGasLimit - sc.Gas`, the `MIN_TRANSACTION_GAS`
  floor, `costGasLimit * GasPrice`, the three `tuneGasFeeByHeight` call sites (with `oldBalance` / `newBalance`);
* `tuneGasFeeByHeight` (as repaired: `gasRound == 0` guard), `calcGasByCodeLen`, `costInvalidGas` (fresh cache on the
  block overlay), `chargeCostGas` (fee transfer on the transaction cache);
* the ONG `transfer` of the fee is NOT re-modelled here: it is the call `transfer [{payer, governance, v}]` of the
  token model of C06 (`Model/Token.lean`: `exec` = `doTransfer`/`ont.Transfer`/`reduceFromBalance`/`increaseToBalance`,
  including the Go panic of `MustToStorageItem` on a whole balance ≥ 2^64 units), in the environment `chargeCostGas`
  builds (a fresh `SmartContract`: no calling context; signature addresses of the transaction);
* `executeBlock`: the transaction cache is empty when a transaction starts (`cache.Reset()`), so reads go to the overlay;
  a cache that is not committed never reaches the overlay.

The VM is a black box: what it did with the gas it was given is the input `ExecOutcome` (gas left, ok / error,
internal-error flag, the state as seen through the transaction cache after the run = what `Commit` would write).

Balances are ONG storage items with 1e-18 precision (`Nat`); the fee logic sees them through `balanceOf`
(`⌊b / 1e9⌋` truncated to `uint64`), the transfer moves `v·1e9`.

`Variant`: the recorded defect of the unchanged tree is the underflow of `availableGasLimit - codeLenGasLimit` when
`codeLenGasLimit*GasPrice` wrapped (the VM is started with ≈ 2^64 gas); `.sound` has the proposed guard
(fixes/C05-gaslimit-underflow.patch).
-/
namespace OntVerif.Model.InvokeFee

abbrev Addr := Nat

/-- 1e9: one fee unit (1e-9 ONG) in storage precision (1e-18 ONG) — `states.ScaleFactor`, regenerated from the source -/
def unit : Nat := OntVerif.Model.Token.SF
/-- `constants.ONG_TOTAL_SUPPLY_V2` = 10^27 -/
def totalSupplyV2 : Nat := OntVerif.Gen.Token.ONG_TOTAL_SUPPLY_V2
/-- `neovm.MIN_TRANSACTION_GAS` -/
def minTxGas : UInt64 := 20000
/-- `neovm.PER_UNIT_CODE_LEN` -/
def perUnitCodeLen : Nat := 1024

/-- as shipped: `sc.Gas = availableGasLimit - codeLenGasLimit` may underflow; sound: guarded -/
inductive Variant | asShipped | sound
  deriving DecidableEq, Repr

/-- The block overlay as far as this property is concerned: ONG balances, and everything else (`σ` is arbitrary). -/
structure Overlay (σ : Type) where
  bal : Addr → Nat
  rest : σ

structure Env where
  tuned : Bool            -- `height > GetGasRoundTuneHeight(networkId)`
  sysTx : Bool            -- `code == COMMIT_DPOS_BYTES || height == 0`
  gasTableOk : Bool       -- `gasTable[UINT_INVOKE_CODE_LEN_NAME]` present
  uintCodeGas : UInt64    -- `gasTable[UINT_INVOKE_CODE_LEN_NAME]`
  gov : Addr              -- `utils.GovernanceContractAddress`

structure Tx where
  gasPrice : UInt64
  gasLimit : UInt64
  codeLen : Nat           -- `len(invoke.Code)`
  payer : Addr
  payerWitness : Bool     -- payer among the signature addresses of the transaction

/-- What the VM did (input). `st` = the state read through the transaction cache after the run. -/
structure ExecOutcome (σ : Type) where
  gasLeft : UInt64
  ok : Bool
  internalErr : Bool
  st : Overlay σ
  notifs : Nat            -- `len(sc.Notifications)`

inductive TxState | fail | success
  deriving DecidableEq, Repr

structure Notify where
  state : TxState
  gasConsumed : UInt64
  events : Nat            -- `len(notify.Notify)`
  deriving DecidableEq, Repr

inductive Res (σ : Type)
  | blockError                       -- `overlay.SetError`: executeBlock returns an error, the block is not applied
  | panic                            -- Go runtime panic
  | done (ov : Overlay σ) (n : Notify)

/-- `balanceOf` as the fee logic reads it: `common.BigIntFromNeoBytes(result).Uint64()` of `⌊b/1e9⌋` -/
def balUnits (b : Nat) : UInt64 := UInt64.ofNat (b / unit)

/-- the environment of the native call issued by `chargeCostGas`: a fresh `SmartContract` (no calling context), the
transaction's signature addresses (only membership of the payer matters), ONG total supply; the ONT-only fields are
never read by an ONG transfer -/
def feeEnv (supply : Nat) (payer : Addr) (witness : Bool) : OntVerif.Model.Token.Env :=
  { signers := if witness then [payer] else [], caller := none, time := 0, preExec := false, genesis := 0, D := 0,
    ontAddr := 0, govAddr := 0, ontSupply := 0, ongSupply := supply, calcOng := fun _ _ _ => none }

/-- a token state whose ONG balances are `view` -/
def tokSt (view : Addr → Nat) : OntVerif.Model.Token.St :=
  ⟨⟨fun _ => 0, fun _ _ => 0⟩, ⟨view, fun _ _ => 0⟩, fun _ => 0⟩

inductive FeeRes
  | ok (view : Addr → Nat)     -- the native call returned without error; balances as the cache now shows them
  | rejected                   -- the native call returned an error
  | panic                      -- Go panic inside the token contract

def feeResOf : OntVerif.Model.Token.Res × OntVerif.Model.Token.St → FeeRes
  | (.ok, s') => .ok s'.ong.bal
  | (.retFalse, _) => .rejected
  | (.err .panic, _) => .panic
  | (.err _, _) => .rejected

/-- ONG `transfer` of the single state `{payer, gov, amt}` (base units) through the token model of C06 -/
def feeTransferAmt (supply : Nat) (view : Addr → Nat) (payer gov : Addr) (witness : Bool) (amt : Nat) : FeeRes :=
  feeResOf (OntVerif.Model.Token.exec (feeEnv supply payer witness) (tokSt view) (.transfer .ong [⟨payer, gov, amt⟩]))

/-- `chargeCostGas`: version-1 amount `v`, i.e. `v·1e9` base units, against `ONG_TOTAL_SUPPLY_V2` -/
def feeTransfer (view : Addr → Nat) (payer gov : Addr) (witness : Bool) (v : UInt64) : FeeRes :=
  feeTransferAmt totalSupplyV2 view payer gov witness (unit * v.toNat)

def calcGasByCodeLen (codeLen : Nat) (codeGas : UInt64) : UInt64 :=
  UInt64.ofNat (codeLen / perUnitCodeLen) * codeGas

def maxU64 : UInt64 := 18446744073709551615

/-- `tuneGasFeeByHeight` -/
def tune (tuned : Bool) (gas gasRound curBalance : UInt64) : UInt64 :=
  if tuned then
    if gasRound = 0 then (if gas > curBalance then curBalance else gas)
    else
      let t := (gas + gasRound - 1) / gasRound
      if gas > maxU64 - gasRound then curBalance
      else
        let newGas := gasRound * t
        if newGas > curBalance then curBalance else newGas
  else gas

/-- `costInvalidGas`: fee transfer through a fresh cache on the overlay; on error nothing is committed and the
notify is left as initialised by `handleTransaction` (FAIL, 0). -/
def costInvalid {σ} (env : Env) (ov : Overlay σ) (tx : Tx) (gas : UInt64) : Res σ :=
  match feeTransfer ov.bal tx.payer env.gov tx.payerWitness gas with
  | .rejected => .done ov ⟨.fail, 0, 0⟩
  | .panic => .panic
  | .ok b => .done { ov with bal := b } ⟨.fail, gas, if gas = 0 then 0 else 1⟩

def isCharge (env : Env) (tx : Tx) : Bool := !env.sysTx && tx.gasPrice != 0

/-- `availableGasLimit` after the cap by `oldBalance / GasPrice` -/
def availOf (tx : Tx) (oldBalance : UInt64) : UInt64 :=
  let maxAva := oldBalance / tx.gasPrice
  if tx.gasLimit > maxAva then maxAva else tx.gasLimit

/-- the proposed guard: the capped limit does not even cover the code-length gas (only possible when
`codeLenGasLimit*GasPrice` wrapped) -/
def underflows (v : Variant) (avail codeLenGasLimit : UInt64) : Bool :=
  match v with
  | .asShipped => false
  | .sound => decide (avail < codeLenGasLimit)

/-- the gas the VM is started with (`sc.Gas`), `none` when the transaction is rejected before the VM runs -/
def gasGiven {σ} (v : Variant) (env : Env) (ov : Overlay σ) (tx : Tx) : Option UInt64 :=
  if isCharge env tx then
    if !env.gasTableOk then none else
    let oldBalance := balUnits (ov.bal tx.payer)
    if oldBalance < minTxGas * tx.gasPrice then none else
    let codeLenGasLimit := calcGasByCodeLen tx.codeLen env.uintCodeGas
    if oldBalance < codeLenGasLimit * tx.gasPrice then none else
    if tx.gasLimit < codeLenGasLimit then none else
    if underflows v (availOf tx oldBalance) codeLenGasLimit then none else
    some (availOf tx oldBalance - codeLenGasLimit)
  else some tx.gasLimit

/-- `costGasLimit * tx.GasPrice` with `costGasLimit = max(availableGasLimit - sc.Gas, MIN_TRANSACTION_GAS)` -/
def costGasOf (availableGasLimit gasLeft gasPrice : UInt64) : UInt64 :=
  let used := availableGasLimit - gasLeft
  (if used < minTxGas then minTxGas else used) * gasPrice

/-- `costGas = tuneGasFeeByHeight(..., oldBalance); costInvalidGas(payer, costGas, ...)` -/
def tunedInvalid {σ} (env : Env) (ov : Overlay σ) (tx : Tx) (costGas cur : UInt64) : Res σ :=
  costInvalid env ov tx (tune env.tuned costGas (tx.gasPrice * minTxGas) cur)

/-- success path with charging: `tune` against the balance after execution, `chargeCostGas` on the transaction cache, `Commit` -/
def chargeAndCommit {σ} (env : Env) (ov : Overlay σ) (tx : Tx) (out : ExecOutcome σ) (costGas newBalance : UInt64) : Res σ :=
  let g := tune env.tuned costGas (tx.gasPrice * minTxGas) newBalance
  match feeTransfer out.st.bal tx.payer env.gov tx.payerWitness g with
  | .rejected => .done ov ⟨.fail, 0, 0⟩                   -- `return nil, err` before Commit
  | .panic => .panic
  | .ok b => .done ⟨b, out.st.rest⟩ ⟨.success, g, out.notifs + (if g = 0 then 0 else 1)⟩

/-- the part of `HandleInvokeTransaction` after `engine.Invoke()` -/
def afterExec {σ} (env : Env) (ov : Overlay σ) (tx : Tx) (out : ExecOutcome σ)
    (oldBalance availableGasLimit : UInt64) : Res σ :=
  if out.internalErr then .blockError else
  if !out.ok then
    if isCharge env tx then tunedInvalid env ov tx (costGasOf availableGasLimit out.gasLeft tx.gasPrice) oldBalance
    else .done ov ⟨.fail, 0, 0⟩
  else if isCharge env tx then
    if balUnits (out.st.bal tx.payer) < costGasOf availableGasLimit out.gasLeft tx.gasPrice then
      tunedInvalid env ov tx (costGasOf availableGasLimit out.gasLeft tx.gasPrice) oldBalance
    else
      chargeAndCommit env ov tx out (costGasOf availableGasLimit out.gasLeft tx.gasPrice) (balUnits (out.st.bal tx.payer))
  else .done out.st ⟨.success, costGasOf availableGasLimit out.gasLeft tx.gasPrice, out.notifs⟩

/-- `HandleInvokeTransaction` on an empty transaction cache over overlay `ov` -/
def invoke {σ} (v : Variant) (env : Env) (ov : Overlay σ) (tx : Tx) (out : ExecOutcome σ) : Res σ :=
  if isCharge env tx then
    if !env.gasTableOk then .blockError else
    let oldBalance := balUnits (ov.bal tx.payer)
    if oldBalance < minTxGas * tx.gasPrice then costInvalid env ov tx oldBalance else
    let codeLenGasLimit := calcGasByCodeLen tx.codeLen env.uintCodeGas
    if oldBalance < codeLenGasLimit * tx.gasPrice then costInvalid env ov tx oldBalance else
    if tx.gasLimit < codeLenGasLimit then costInvalid env ov tx (tx.gasLimit * tx.gasPrice) else
    if underflows v (availOf tx oldBalance) codeLenGasLimit then costInvalid env ov tx oldBalance else
    afterExec env ov tx out oldBalance (availOf tx oldBalance)
  else afterExec env ov tx out 0 tx.gasLimit

/-- observable summary of a result (used by the driver and by the `example`s): state, gas consumed, events,
payer balance, governance balance, rest -/
inductive Obs (σ : Type)
  | blockError | panic
  | done (state : TxState) (consumed : UInt64) (events : Nat) (payerBal govBal : Nat) (rest : σ)
  deriving DecidableEq, Repr

def observe {σ} (env : Env) (tx : Tx) : Res σ → Obs σ
  | .blockError => .blockError
  | .panic => .panic
  | .done ov n => .done n.state n.gasConsumed n.events (ov.bal tx.payer) (ov.bal env.gov) ov.rest

end OntVerif.Model.InvokeFee
