/-!
# Model of `HandleInvokeTransaction` (core/store/ledgerstore/tx_handler.go) — property C05

What is mirrored, statement by statement, in `UInt64` (Go `uint64`: `+ - *` wrap, `/` truncates, `/ 0` panics):

* `HandleInvokeTransaction`: `isCharge`, `minGas`, `codeLenGasLimit*GasPrice`, `GasLimit < codeLenGasLimit`,
  `oldBalance / GasPrice`, `availableGasLimit - codeLenGasLimit`, `availableGasLimit - sc.Gas`, the `MIN_TRANSACTION_GAS`
  floor, `costGasLimit * GasPrice`, the three `tuneGasFeeByHeight` call sites (with `oldBalance` / `newBalance`);
* `tuneGasFeeByHeight`, `calcGasByCodeLen`, `costInvalidGas` (fresh cache on the block overlay), `chargeCostGas`
  (fee transfer on the transaction cache), the ONG `transfer` of one state (`doTransfer`/`ont.Transfer`: zero amount
  skipped, amount over total supply rejected, witness check, balance check, debit written then credit re-read);
* `executeBlock`: the transaction cache is empty when a transaction starts (`cache.Reset()`), so reads go to the overlay;
  a cache that is not committed never reaches the overlay.

The VM is a black box: what it did with the gas it was given is the input `ExecOutcome` (gas left, ok / error,
internal-error flag, the state as seen through the transaction cache after the run = what `Commit` would write).

Balances are ONG storage items with 1e-18 precision (`Nat`); the fee logic sees them through `balanceOf`
(`⌊b / 1e9⌋` truncated to `uint64`), the transfer moves `v·1e9`.
-/
namespace OntVerif.Model.InvokeFee

abbrev Addr := Nat

/-- 1e9: one fee unit (1e-9 ONG) in storage precision (1e-18 ONG) — `states.NativeTokenBalanceFromInteger` -/
def unit : Nat := 1000000000
/-- `constants.ONG_TOTAL_SUPPLY_V2` = 10^27 -/
def totalSupplyV2 : Nat := 1000000000000000000000000000
/-- `neovm.MIN_TRANSACTION_GAS` -/
def minTxGas : UInt64 := 20000
/-- `neovm.PER_UNIT_CODE_LEN` -/
def perUnitCodeLen : Nat := 1024

/-- the recorded defect (division by zero in `tuneGasFeeByHeight` when `GasPrice*20000` wraps to 0): as shipped / repaired -/
inductive Variant | asShipped | sound
  deriving DecidableEq, Repr

/-- The block overlay as far as this property is concerned: ONG balances, and everything else (`σ` is arbitrary). -/
structure Overlay (σ : Type) where
  bal : Addr → Nat
  rest : σ

structure Env where
  tuned : Bool            -- `height > GetGasRoundTuneHeight(networkId)`
  sysTx : Bool            -- `code == COMMIT_DPOS_BYTES || height == 0`
  gasTableOk : Bool       -- `gasTable[UINT_INVOKE_CODE_LEN_NAME]` present
  uintCodeGas : UInt64    -- `gasTable[UINT_INVOKE_CODE_LEN_NAME]`
  gov : Addr              -- `utils.GovernanceContractAddress`

structure Tx where
  gasPrice : UInt64
  gasLimit : UInt64
  codeLen : Nat           -- `len(invoke.Code)`
  payer : Addr
  payerWitness : Bool     -- `CheckWitness(payer)` under this transaction (payer among the signature addresses)

/-- What the VM did (input). `st` = the state read through the transaction cache after the run. -/
structure ExecOutcome (σ : Type) where
  gasLeft : UInt64
  ok : Bool
  internalErr : Bool
  st : Overlay σ
  notifs : Nat            -- `len(sc.Notifications)`

inductive TxState | fail | success
  deriving DecidableEq, Repr

structure Notify where
  state : TxState
  gasConsumed : UInt64
  events : Nat            -- `len(notify.Notify)`
  deriving DecidableEq, Repr

inductive Res (σ : Type)
  | blockError                       -- `overlay.SetError`: executeBlock returns an error, the block is not applied
  | panic                            -- Go runtime panic (integer divide by zero)
  | done (ov : Overlay σ) (n : Notify)

def upd (f : Addr → Nat) (a : Addr) (v : Nat) : Addr → Nat := fun x => if x = a then v else f x

/-- `balanceOf` as the fee logic reads it: `common.BigIntFromNeoBytes(result).Uint64()` of `⌊b/1e9⌋` -/
def balUnits (b : Nat) : UInt64 := UInt64.ofNat (b / unit)

/-- ONG `transfer` of the single state `{payer, gov, v}` on a balance view; `none` = the native call returned an error -/
def feeTransfer (view : Addr → Nat) (payer gov : Addr) (witness : Bool) (v : UInt64) : Option (Addr → Nat) :=
  if v = 0 then some view                                   -- `if v.Value.IsZero() { continue }`
  else if totalSupplyV2 < v.toNat * unit then none          -- over total supply
  else if !witness then none                                -- `authentication failed!`
  else if view payer < v.toNat * unit then none             -- `balance insufficient`
  else
    let v1 := upd view payer (view payer - v.toNat * unit)  -- reduceFromBalance
    some (upd v1 gov (v1 gov + v.toNat * unit))             -- increaseToBalance (re-reads through the cache)

def calcGasByCodeLen (codeLen : Nat) (codeGas : UInt64) : UInt64 :=
  UInt64.ofNat (codeLen / perUnitCodeLen) * codeGas

def maxU64 : UInt64 := 18446744073709551615

/-- `tuneGasFeeByHeight`; `none` = integer divide by zero -/
def tune (v : Variant) (tuned : Bool) (gas gasRound curBalance : UInt64) : Option UInt64 :=
  if tuned then
    if gasRound = 0 then
      match v with
      | .asShipped => none                                   -- `t := (gas + gasRound - 1) / gasRound`
      | .sound => some (if gas > curBalance then curBalance else gas)
    else
      let t := (gas + gasRound - 1) / gasRound
      if gas > maxU64 - gasRound then some curBalance
      else
        let newGas := gasRound * t
        if newGas > curBalance then some curBalance else some newGas
  else some gas

/-- `costInvalidGas`: fee transfer through a fresh cache on the overlay; on error nothing is committed and the
notify is left as initialised by `handleTransaction` (FAIL, 0). -/
def costInvalid {σ} (env : Env) (ov : Overlay σ) (tx : Tx) (gas : UInt64) : Res σ :=
  match feeTransfer ov.bal tx.payer env.gov tx.payerWitness gas with
  | none => .done ov ⟨.fail, 0, 0⟩
  | some b => .done { ov with bal := b } ⟨.fail, gas, if gas = 0 then 0 else 1⟩

def isCharge (env : Env) (tx : Tx) : Bool := !env.sysTx && tx.gasPrice != 0

/-- the gas the VM is started with (`sc.Gas`), `none` when the transaction is rejected before the VM runs -/
def gasGiven {σ} (env : Env) (ov : Overlay σ) (tx : Tx) : Option UInt64 :=
  if isCharge env tx then
    if !env.gasTableOk then none else
    let oldBalance := balUnits (ov.bal tx.payer)
    if oldBalance < minTxGas * tx.gasPrice then none else
    let codeLenGasLimit := calcGasByCodeLen tx.codeLen env.uintCodeGas
    if oldBalance < codeLenGasLimit * tx.gasPrice then none else
    if tx.gasLimit < codeLenGasLimit then none else
    let maxAva := oldBalance / tx.gasPrice
    some ((if tx.gasLimit > maxAva then maxAva else tx.gasLimit) - codeLenGasLimit)
  else some tx.gasLimit

/-- `costGasLimit * tx.GasPrice` with `costGasLimit = max(availableGasLimit - sc.Gas, MIN_TRANSACTION_GAS)` -/
def costGasOf (availableGasLimit gasLeft gasPrice : UInt64) : UInt64 :=
  let used := availableGasLimit - gasLeft
  (if used < minTxGas then minTxGas else used) * gasPrice

/-- `costGas = tuneGasFeeByHeight(..., oldBalance); costInvalidGas(payer, costGas, ...)` -/
def tunedInvalid {σ} (v : Variant) (env : Env) (ov : Overlay σ) (tx : Tx) (costGas cur : UInt64) : Res σ :=
  match tune v env.tuned costGas (tx.gasPrice * minTxGas) cur with
  | none => .panic
  | some g => costInvalid env ov tx g

/-- success path with charging: `tune` against the balance after execution, `chargeCostGas` on the transaction cache, `Commit` -/
def chargeAndCommit {σ} (v : Variant) (env : Env) (ov : Overlay σ) (tx : Tx) (out : ExecOutcome σ) (costGas newBalance : UInt64) : Res σ :=
  match tune v env.tuned costGas (tx.gasPrice * minTxGas) newBalance with
  | none => .panic
  | some g =>
    match feeTransfer out.st.bal tx.payer env.gov tx.payerWitness g with
    | none => .done ov ⟨.fail, 0, 0⟩                   -- `return nil, err` before Commit
    | some b => .done ⟨b, out.st.rest⟩ ⟨.success, g, out.notifs + (if g = 0 then 0 else 1)⟩

/-- the part of `HandleInvokeTransaction` after `engine.Invoke()` -/
def afterExec {σ} (v : Variant) (env : Env) (ov : Overlay σ) (tx : Tx) (out : ExecOutcome σ)
    (oldBalance availableGasLimit : UInt64) : Res σ :=
  if out.internalErr then .blockError else
  if !out.ok then
    if isCharge env tx then tunedInvalid v env ov tx (costGasOf availableGasLimit out.gasLeft tx.gasPrice) oldBalance
    else .done ov ⟨.fail, 0, 0⟩
  else if isCharge env tx then
    if balUnits (out.st.bal tx.payer) < costGasOf availableGasLimit out.gasLeft tx.gasPrice then
      tunedInvalid v env ov tx (costGasOf availableGasLimit out.gasLeft tx.gasPrice) oldBalance
    else
      chargeAndCommit v env ov tx out (costGasOf availableGasLimit out.gasLeft tx.gasPrice) (balUnits (out.st.bal tx.payer))
  else .done out.st ⟨.success, costGasOf availableGasLimit out.gasLeft tx.gasPrice, out.notifs⟩

/-- `HandleInvokeTransaction` on an empty transaction cache over overlay `ov` -/
def invoke {σ} (v : Variant) (env : Env) (ov : Overlay σ) (tx : Tx) (out : ExecOutcome σ) : Res σ :=
  if isCharge env tx then
    if !env.gasTableOk then .blockError else
    let oldBalance := balUnits (ov.bal tx.payer)
    if oldBalance < minTxGas * tx.gasPrice then costInvalid env ov tx oldBalance else
    let codeLenGasLimit := calcGasByCodeLen tx.codeLen env.uintCodeGas
    if oldBalance < codeLenGasLimit * tx.gasPrice then costInvalid env ov tx oldBalance else
    if tx.gasLimit < codeLenGasLimit then costInvalid env ov tx (tx.gasLimit * tx.gasPrice) else
    let maxAva := oldBalance / tx.gasPrice
    afterExec v env ov tx out oldBalance (if tx.gasLimit > maxAva then maxAva else tx.gasLimit)
  else afterExec v env ov tx out 0 tx.gasLimit

/-- observable summary of a result (used by the driver and by the `example`s): state, gas consumed, events,
payer balance, governance balance, rest -/
inductive Obs (σ : Type)
  | blockError | panic
  | done (state : TxState) (consumed : UInt64) (events : Nat) (payerBal govBal : Nat) (rest : σ)
  deriving DecidableEq, Repr

def observe {σ} (env : Env) (tx : Tx) : Res σ → Obs σ
  | .blockError => .blockError
  | .panic => .panic
  | .done ov n => .done n.state n.gasConsumed n.events (ov.bal tx.payer) (ov.bal env.gov) ov.rest

end OntVerif.Model.InvokeFee
