import OntVerif.Util.Hex
/-!
# Model of `p2pserver/dht/kbucket` (C37) and the id helpers of `p2pserver/common/id.go`

Executable, core-only.  A `PeerId` is its 20-byte value (`common.Address`); no hash is involved: `CommonPrefixLen`
and `Distance` work on the raw bytes.  The model is generic in the id length.  A bucket (`container/list`) is a `List`,
front of the list = head.  The recursion of `nextBucket` is driven by explicit fuel: `Fault.diverge` = the Go recursion
would not return (stack overflow); `Props/C37` proves it unreachable for `bucketsize > 0` and exhibits it for `bucketsize = 0`.
`Fault.panic` = index out of range on `rt.Buckets[...]` (unreachable: the table always has ≥ 1 bucket).
-/
namespace OntVerif.Model.KBucket
open OntVerif.Util

abbrev Id := Bytes

/-- `PeerId.Distance` -/
def distance (a b : Id) : Bytes := List.zipWith (· ^^^ ·) a b

/-- `bits.LeadingZeros8` -/
def lz8 (b : UInt8) : Nat :=
  if b ≥ 128 then 0 else if b ≥ 64 then 1 else if b ≥ 32 then 2 else if b ≥ 16 then 3
  else if b ≥ 8 then 4 else if b ≥ 4 then 5 else if b ≥ 2 then 6 else if b ≥ 1 then 7 else 8

/-- `zeroPrefixLen` -/
def zeroPrefixLen : Bytes → Nat
  | [] => 0
  | b :: r => if b != 0 then lz8 b else 8 + zeroPrefixLen r

/-- `CommonPrefixLen` -/
def cpl (a b : Id) : Nat := zeroPrefixLen (distance a b)

/-- `bytes.Compare(a, b) < 0` -/
def bytesLt : Bytes → Bytes → Bool
  | [], [] => false
  | [], _ :: _ => true
  | _ :: _, [] => false
  | a :: as, b :: bs => if a < b then true else if b < a then false else bytesLt as bs

structure Peer where
  id : Id
  addr : String
  deriving DecidableEq, Repr

structure Table where
  loc : Id
  buckets : List (List Peer)
  bucketsize : Nat
  deriving DecidableEq, Repr

/-- `NewRoutingTable` -/
def Table.new (bucketsize : Nat) (loc : Id) : Table := ⟨loc, [[]], bucketsize⟩

inductive Fault | panic | diverge
  deriving DecidableEq, Repr

/-- `bucketID := cpl; if bucketID >= len(rt.Buckets) { bucketID = len(rt.Buckets) - 1 }` -/
def bucketIdx (t : Table) (c : Nat) : Nat := if c ≥ t.buckets.length then t.buckets.length - 1 else c

def has (b : List Peer) (id : Id) : Bool := b.any (·.id == id)

/-- `Bucket.Remove`: unlink the first element with that id -/
def removeFirst (id : Id) : List Peer → List Peer
  | [] => []
  | p :: r => if p.id == id then r else p :: removeFirst id r

def findFirst (id : Id) : List Peer → Option Peer
  | [] => none
  | p :: r => if p.id == id then some p else findFirst id r

/-- `Bucket.MoveToFront` (the scan continues after the move; with at most one matching element that is unobservable) -/
def moveToFront (id : Id) (b : List Peer) : List Peer :=
  match findFirst id b with
  | none => b
  | some p => p :: removeFirst id b

/-- `Bucket.Split(cpl, target)`: (what stays, the new bucket), both in the original order -/
def split (b : List Peer) (c : Nat) (target : Id) : List Peer × List Peer :=
  (b.filter (fun p => !(cpl p.id target > c)), b.filter (fun p => cpl p.id target > c))

/-- `rt.nextBucket()` -/
def nextBucket : Nat → Table → Except Fault Table
  | 0, _ => .error .diverge
  | fuel+1, t =>
    match t.buckets.getLast? with
    | none => .error .panic
    | some last =>
      let sp := split last (t.buckets.length - 1) t.loc
      let t' := { t with buckets := t.buckets.dropLast ++ [sp.1, sp.2] }
      if sp.2.length ≥ t.bucketsize then nextBucket fuel t' else .ok t'

inductive UpdRes | moved | added | rejected
  deriving DecidableEq, Repr

/-- `RouteTable.Update` -/
def updateF (fuel : Nat) (t : Table) (p : Peer) : Except Fault (Table × UpdRes) :=
  let c := cpl p.id t.loc
  let bid := bucketIdx t c
  match t.buckets[bid]? with
  | none => .error .panic
  | some bucket =>
    if has bucket p.id then
      .ok ({ t with buckets := t.buckets.set bid (moveToFront p.id bucket) }, .moved)
    else if bucket.length < t.bucketsize then
      .ok ({ t with buckets := t.buckets.set bid (p :: bucket) }, .added)
    else if bid == t.buckets.length - 1 then
      match nextBucket fuel t with
      | .error e => .error e
      | .ok t' =>
        let bid' := bucketIdx t' c
        match t'.buckets[bid']? with
        | none => .error .panic
        | some b' =>
          if b'.length ≥ t'.bucketsize then .ok (t', .rejected)
          else .ok ({ t' with buckets := t'.buckets.set bid' (p :: b') }, .added)
    else .ok (t, .rejected)

/-- enough fuel for every table whose ids are as long as the local id (see `Props/C37`) -/
def fuelFor (t : Table) : Nat := 8 * t.loc.length + 2

def update (t : Table) (p : Peer) : Except Fault (Table × UpdRes) := updateF (fuelFor t) t p

/-- `RouteTable.Remove`; the Bool says whether `PeerRemoved` fired -/
def remove (t : Table) (id : Id) : Except Fault (Table × Bool) :=
  let bid := bucketIdx t (cpl id t.loc)
  match t.buckets[bid]? with
  | none => .error .panic
  | some bucket => .ok ({ t with buckets := t.buckets.set bid (removeFirst id bucket) }, has bucket id)

/-- insertion into a list sorted by distance to `target` -/
def insertByDist (target : Id) (p : Peer) : List Peer → List Peer
  | [] => [p]
  | q :: r => if bytesLt (distance target p.id) (distance target q.id) then p :: q :: r else q :: insertByDist target p r

/-- `pds.sort()`: any correct sort gives this result when distances are pairwise distinct -/
def sortByDist (target : Id) : List Peer → List Peer
  | [] => []
  | p :: r => insertByDist target p (sortByDist target r)

/-- `for i := cpl + 1; i < len(rt.Buckets) && pds.Len() < count; i++` -/
def collectUp (count : Nat) : List (List Peer) → List Peer → List Peer
  | [], acc => acc
  | b :: r, acc => if acc.length < count then collectUp count r (acc ++ b) else acc

/-- `RouteTable.NearestPeers` (count ≥ 0) -/
def nearestPeers (t : Table) (id : Id) (count : Nat) : Except Fault (List Peer) :=
  let c := bucketIdx t (cpl id t.loc)
  match t.buckets[c]? with
  | none => .error .panic
  | some b0 =>
    let acc := collectUp count (t.buckets.drop (c + 1)) b0
    let acc := collectUp count (t.buckets.take c).reverse acc
    .ok ((sortByDist id acc).take count)

/-- `RouteTable.Find` -/
def find (t : Table) (id : Id) : Except Fault (Option Peer) :=
  match nearestPeers t id 1 with
  | .error e => .error e
  | .ok [] => .ok none
  | .ok (p :: _) => if p.id == id then .ok (some p) else .ok none

/-- `ListPeers` -/
def Table.peers (t : Table) : List Peer := t.buckets.flatten

/-! ## The structural invariant (C37) -/

/-- every peer of bucket `i` has `i = min(cpl(peer, local), last bucket index)` -/
def Placed (t : Table) : Prop :=
  ∀ i b, t.buckets[i]? = some b → ∀ p ∈ b, i = min (cpl p.id t.loc) (t.buckets.length - 1)

def Inv (t : Table) : Prop :=
  t.buckets ≠ [] ∧
  (t.peers.map (·.id)).Nodup ∧                      -- every peer at most once
  (∀ b ∈ t.buckets, b.length ≤ t.bucketsize) ∧     -- no bucket exceeds the bucket size
  Placed t

/-- sorted by XOR distance to `target` (non-strict: `¬ (later < earlier)`) -/
def SortedByDist (target : Id) (l : List Peer) : Prop :=
  l.Pairwise (fun a b => bytesLt (distance target b.id) (distance target a.id) = false)

/-! ## Histories -/
inductive Op
  | update (p : Peer)
  | remove (id : Id)
  deriving DecidableEq, Repr

def step (t : Table) : Op → Except Fault Table
  | .update p => (update t p).map (·.1)
  | .remove id => (remove t id).map (·.1)

def run (t : Table) : List Op → Except Fault Table
  | [] => .ok t
  | op :: r => match step t op with
    | .error e => .error e
    | .ok t' => run t' r

/-- every id handed to `Update` has length `L` (20 in Go) -/
def OpsIdLen (L : Nat) (ops : List Op) : Prop := ∀ op ∈ ops, ∀ p, op = .update p → p.id.length = L

end OntVerif.Model.KBucket
