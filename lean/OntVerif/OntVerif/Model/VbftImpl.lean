import OntVerif.Model.BlockPool
import OntVerif.Gen.SealGates
/-!
# VBFT, implementation layer (C34): several nodes, each with its own block pool, one height

Every honest node owns a `BlockPool` candidate state (`Model/BlockPool.lean`, the mirror of `block_pool.go`). The
node-level rules below are the part of `service.go` that decides **whether** an honest node signs or seals
(`endorseBlock`, `commitBlock`, the `commitDone` branch of `processMsgEvent`); **when** it does so (timers, the event
loop, syncing, the network) is not modelled — it is the schedule, i.e. the op list. The world keeps every message ever
created; delivery of message `k` to node `n` is an op, so loss, delay, duplication and reordering are all schedules.

Byzantine nodes have no pool. They create arbitrary endorse/commit messages; the only restriction is on signatures:
junk, a signature with a Byzantine key over anything, or an honest signature that already exists in the world
(`revealed`) — they cannot forge honest signatures.
-/
namespace OntVerif.Model.VbftImpl
open OntVerif.Model.BlockPool

inductive GMsg
  | endorse (sender : Nat) (m : Endorse)
  | commit (sender : Nat) (m : Commit)
  deriving Repr

structure Node where
  cand : Cand := {}
  /-- endorse messages that passed verification at this node (its `msgPool`), used to fill `EndorsersSig` -/
  recvEndorse : List Endorse := []
  /-- (proposer, version of the stored proposal, forEmpty) of the block this node sealed -/
  sealed : Option (Nat × Nat × Bool) := none
  /-- `CandidateInfo.commitDone`, set by `setCommitDone` at a seal site whose gate said done -/
  commitHadDone : Bool := false
  deriving Repr

structure World where
  N : Nat
  C : Nat
  faulty : List Nat
  msgs : List GMsg := []
  nodes : List (Nat × Node) := []
  /-- signatures of honest nodes that exist: (key, hash) -/
  revealed : List (Nat × Hash) := []
  deriving Repr

def World.isFaulty (w : World) (i : Nat) : Bool := w.faulty.contains i
def World.isHonest (w : World) (i : Nat) : Bool := decide (i < w.N) && !w.faulty.contains i

def World.node (w : World) (i : Nat) : Node := (lookup i w.nodes).getD {}
def World.setNode (w : World) (i : Nat) (n : Node) : World := { w with nodes := setKey i n w.nodes }

/-- the endorser list of the participant configuration: every peer -/
def allPeers (w : World) : List Nat := List.range w.N

inductive Op
  | propose (to p ver : Nat)
  | endorse (i p : Nat) (fe : Bool)
  | commit (i : Nat) (order : List Nat)
  | deliver (k to : Nat)
  | seal (i : Nat) (order : List Nat)
  | commitTimeout (i : Nat) (order : List Nat)
  | forgeE (sender : Nat) (m : Endorse)
  | forgeC (sender : Nat) (m : Commit)
  deriving Repr

/-- can a Byzantine node put this signature into a message? -/
def producible (w : World) : Sig → Bool
  | .junk _ => true
  | .valid k h => w.isFaulty k || w.revealed.contains (k, h)

def reveal (w : World) (k : Nat) (h : Hash) : World :=
  if w.isHonest k && !w.revealed.contains (k, h) then { w with revealed := w.revealed ++ [(k, h)] } else w

def intakeW : Intake → String
  | .ok => "ok" | .dup => "dup" | .rej => "rej"

/-- `EndorsersSig` of a commit message: the received endorsements for that hash, later ones overwrite earlier ones -/
def collectEndorsers (recv : List Endorse) (h : Hash) (fe : Bool) : List (Nat × Sig) :=
  recv.foldl (fun acc e => if e.hash = h && e.forEmpty == fe then setKey e.endorser e.sig acc else acc) []

/-- the decision function that guards a seal site, by the name factgen found there (`Gen/SealGates.lean`); anything but
`endorseDone` is evaluated as `commitDone` — an unexpected name makes `C34_seal_sites_guarded` fail anyway -/
def evalGate (gate : String) (v : Variant) (w : World) (c : Cand) (order : List Nat) : Nat × Bool × Bool :=
  if gate == "endorseDone" then endorseDone c order w.C
  else commitDone v w.N w.C (allPeers w) c order w.C

/-- one op: the resulting world and the canonical output token -/
def step (v : Variant) (w : World) : Op → World × String
  | .propose to p ver =>
    if !w.isHonest to || !(decide (p < w.N)) || (w.isHonest p && ver != 0) then (w, "bad") else
    let n := w.node to
    let (r, c') := BlockPool.deliver v w.N n.cand (.proposal ⟨p, ver, .valid p (blockHash p ver false), .valid p (blockHash p ver true)⟩)
    let w := reveal (reveal w p (blockHash p ver false)) p (blockHash p ver true)
    (w.setNode to { n with cand := c' }, intakeW r)
  | .endorse i p fe =>
    if !w.isHonest i then (w, "bad") else
    let n := w.node i
    -- endorseBlock: own proposal / already endorsed / no such proposal
    if p == i then (w, "no:own") else
    match storedVer n.cand p with
    | none => (w, "no:noprop")
    | some ver =>
      if (!fe && (n.cand.endorsedP.isSome || n.cand.endorsedEmptyP.isSome)) || (fe && n.cand.endorsedEmptyP.isSome) then (w, "no:endorsed")
      else
        let (ok, c1) := setProposalEndorsed n.cand p fe
        if !ok then (w, "no:gate") else
        let h := blockHash p ver fe
        let m : Endorse := ⟨i, p, h, fe, .valid i h⟩
        let (r, c2) := BlockPool.deliver v w.N c1 (.endorse i m)
        let n' : Node := { n with cand := c2, recvEndorse := if r == .ok then n.recvEndorse ++ [m] else n.recvEndorse }
        let w := reveal w i h
        (({ w with msgs := w.msgs ++ [GMsg.endorse i m] } : World).setNode i n', s!"m{w.msgs.length}")
  | .commit i order =>
    if !w.isHonest i then (w, "bad") else
    let n := w.node i
    -- processMsgEvent: endorseDone, findBlockProposal; commitBlock: own proposal / already committed
    let (p, fe, done) := endorseDone n.cand order w.C
    if !done then (w, "no:quorum") else
    if p == i then (w, "no:own") else
    match storedVer n.cand p with
    | none => (w, s!"no:noprop:{p}")
    | some ver =>
      if n.cand.committedP.isSome || n.cand.committedEmptyP.isSome then (w, "no:committed") else
      let (ok, c1) := setProposalCommitted n.cand p fe
      if !ok then (w, "no:gate") else
      let h := blockHash p ver fe
      let m : Commit := ⟨i, p, h, fe, .valid p h, collectEndorsers n.recvEndorse h fe, .valid i h⟩
      let (_, c2) := BlockPool.deliver v w.N c1 (.commit i m)
      let w := reveal w i h
      (({ w with msgs := w.msgs ++ [GMsg.commit i m] } : World).setNode i { n with cand := c2 }, s!"m{w.msgs.length}:{p}/{if fe then 1 else 0}")
  | .deliver k to =>
    if !w.isHonest to then (w, "bad") else
    match w.msgs[k]? with
    | none => (w, "bad")
    | some (.endorse s m) =>
      let n := w.node to
      let (r, c') := BlockPool.deliver v w.N n.cand (.endorse s m)
      (w.setNode to { n with cand := c', recvEndorse := if r == .ok then n.recvEndorse ++ [m] else n.recvEndorse }, intakeW r)
    | some (.commit s m) =>
      let n := w.node to
      let (r, c') := BlockPool.deliver v w.N n.cand (.commit s m)
      (w.setNode to { n with cand := c' }, intakeW r)
  | .seal i order =>
    -- processMsgEvent, commit branch: the gate found at that seal site (commitDone in the shipped code), setCommitDone,
    -- findBlockProposal, makeSealed
    if !w.isHonest i then (w, "bad") else
    let n := w.node i
    let (p, fe, done) := evalGate OntVerif.Gen.SealGates.msgCommitGate v w n.cand order
    if !done then (w, "wait") else
    let n := { n with commitHadDone := true }
    match storedVer n.cand p with
    | none => (w.setNode i n, s!"noprop:{p}")
    | some ver =>
      match n.sealed with
      | none => (w.setNode i { n with sealed := some (p, ver, fe) }, s!"sealed:{p}.{ver}/{if fe then 1 else 0}")
      | some (p', _, _) => if p' == p then (w.setNode i n, "again") else (w.setNode i n, "double-seal")
  | .commitTimeout i order =>
    -- processTimerEvent, EventCommitBlockTimeout: sealed already / commit had been done / the gate found at that seal site
    if !w.isHonest i then (w, "bad") else
    let n := w.node i
    if n.sealed.isSome then (w, "late") else
    if n.commitHadDone then (w, "hadDone") else
    let (p, fe, done) := evalGate OntVerif.Gen.SealGates.commitTimeoutGate v w n.cand order
    if !done then (w, "resync") else
    let n := { n with commitHadDone := true }
    match storedVer n.cand p with
    | none => (w.setNode i n, s!"noprop:{p}")
    | some ver => (w.setNode i { n with sealed := some (p, ver, fe) }, s!"sealed:{p}.{ver}/{if fe then 1 else 0}")
  | .forgeE s m =>
    if !w.isFaulty s || !(decide (s < w.N)) || !producible w m.sig then (w, "refused")
    else ({ w with msgs := w.msgs ++ [GMsg.endorse s m] }, s!"m{w.msgs.length}")
  | .forgeC s m =>
    if !w.isFaulty s || !(decide (s < w.N)) || !producible w m.sig || !producible w m.psig || !m.endorsers.all (fun e => producible w e.2)
    then (w, "refused")
    else ({ w with msgs := w.msgs ++ [GMsg.commit s m] }, s!"m{w.msgs.length}")

def runOps (v : Variant) (w : World) : List Op → World
  | [] => w
  | op :: r => runOps v (step v w op).1 r

/-- the blocks sealed by honest nodes -/
def sealedBlocks (w : World) : List (Nat × Nat × Bool) :=
  w.nodes.filterMap (fun x => if w.isHonest x.1 then x.2.sealed else none)

/-- no two honest nodes sealed different blocks -/
def agree (w : World) : Bool := (sealedBlocks w).all (fun a => (sealedBlocks w).all (fun b => a == b))

def wellFormed (w : World) : Bool :=
  decide (3 * w.C + 1 ≤ w.N) && decide (w.faulty.length ≤ w.C) && w.faulty.all (· < w.N) && decide w.faulty.Nodup

end OntVerif.Model.VbftImpl
