/-!
# Model of the EIP-155 state transition (smartcontract/service/evm/state_transition.go) — property C07

Mirrored statement by statement: `preCheck` (nonce comparison, both directions), `buyGas` (balance-adjusted gas, the
main-net-before-15380000 variant that takes the whole balance), `TransitionDb` (intrinsic gas, clause 6 `CanTransfer`,
the nonce increment on the three paths, `evm.Create` / `evm.Call` top level: nonce of the creator, address-collision
check, snapshot, `SetNonce(new, 1)`, value transfer, revert-to-snapshot on error), `refundGas` (refund counter capped
at half the used gas, remaining gas returned at the original price, `handleGasFee`'s one-off mint at block 13920628),
the payment of `gasUsed·price` to the fee receiver, and `StateDB.Commit` (suicided accounts lose their Ethereum
account record). Balances are the ONG storage items (`OngBalanceHandle`), `math/big` is `Nat`.

The interpreter is a black box: what it did to the state DB below the top-level frame is the input `EvmOutcome`
(`inner` trace of state-DB effects with its own snapshot / revert-to-snapshot / discard operations, gas left, error
flag, refund counter). Nothing is assumed about the trace in the model; the theorems state which interpreter
guarantees they need (no code runs as the externally owned sender; gas left ≤ gas given).
-/
namespace OntVerif.Model.EvmTx

abbrev Addr := Nat

structure St (σ : Type) where
  bal : Addr → Nat        -- ONG balance (1e-18), `OngBalanceHandle.GetBalance`
  nonce : Addr → Nat      -- `EthAccount.Nonce`
  rest : σ                -- code, contract storage, everything else

def upd (f : Addr → Nat) (a : Addr) (v : Nat) : Addr → Nat := fun x => if x = a then v else f x

/-- SELFDESTRUCT with the executing contract as beneficiary: as shipped the balance is credited and then zeroed (burnt);
`.sound` is the conserving behaviour (balance left in place) for which the full conservation theorem holds -/
inductive Variant | asShipped | sound
  deriving DecidableEq, Repr

/-- state-DB effects of the interpreter -/
inductive Eff (σ : Type)
  | transfer (a b : Addr) (v : Nat)   -- `Context.Transfer`: SubBalance a, AddBalance b
  | setNonce (a : Addr) (n : Nat)     -- CREATE inside a contract: creator nonce, new account nonce 1
  | suicide (a ben : Addr)            -- `opSuicide`: AddBalance(ben, bal a); Suicide(a) = SetBalance(a, 0)
  | other (f : σ → σ)                 -- SSTORE, SetCode, logs …
  | snapshot
  | revert (k : Nat)
  | discard (k : Nat)

/-- `StateDB` while a transaction runs -/
structure MSt (σ : Type) where
  st : St σ
  suicided : List Addr
  dbErr : Bool                          -- `cacheDB.SetDbErr` (SubBalance below zero): the transaction is rejected at the end
  bad : Bool                            -- Go panic "can not to revert snapshot"
  snaps : List (St σ × List Addr)

def subBal {σ} (m : MSt σ) (a : Addr) (v : Nat) : MSt σ :=
  if m.st.bal a < v then { m with dbErr := true }     -- `balance.Sub` error: nothing written, error recorded
  else { m with st := { m.st with bal := upd m.st.bal a (m.st.bal a - v) } }

def addBal {σ} (m : MSt σ) (a : Addr) (v : Nat) : MSt σ :=
  { m with st := { m.st with bal := upd m.st.bal a (m.st.bal a + v) } }

def transfer {σ} (m : MSt σ) (a b : Addr) (v : Nat) : MSt σ := addBal (subBal m a v) b v

def applyEff {σ} (v : Variant) (m : MSt σ) : Eff σ → MSt σ
  | .transfer a b v => transfer m a b v
  | .setNonce a n => { m with st := { m.st with nonce := upd m.st.nonce a n } }
  | .suicide a ben =>
    if v = .sound ∧ a = ben then { m with suicided := a :: m.suicided }
    else
      let m1 := addBal m ben (m.st.bal a)
      { m1 with st := { m1.st with bal := upd m1.st.bal a 0 }, suicided := a :: m1.suicided }
  | .other f => { m with st := { m.st with rest := f m.st.rest } }
  | .snapshot => { m with snaps := m.snaps ++ [(m.st, m.suicided)] }
  | .revert k =>
    match m.snaps[k]? with
    | some (s, su) => { m with st := s, suicided := su, snaps := m.snaps.take k }
    | none => { m with bad := true }
  | .discard k => if k < m.snaps.length then { m with snaps := m.snaps.take k } else { m with bad := true }

def runEffs {σ} (v : Variant) (m : MSt σ) : List (Eff σ) → MSt σ
  | [] => m
  | e :: r => runEffs v (applyEff v m e) r

structure Env where
  mainnet : Bool          -- `ChainConfig().ChainID == EIP155_CHAINID_MAINNET`
  height : Nat            -- `Context.BlockNumber`
  feeReceiver : Addr      -- governance contract

structure Msg where
  sender : Addr
  isCreate : Bool         -- `msg.To() == nil`
  dest : Addr             -- recipient, or `CreateAddress(from, nonce)` for a creation
  nonce : Nat
  value : Nat
  gasLimit : Nat
  gasPrice : Nat
  intrinsic : Nat         -- `IntrinsicGas(data, …)`
  checkNonce : Bool

structure EvmOutcome (σ : Type) where
  collision : Bool        -- creation only: the designated address already has a nonce or code
  inner : List (Eff σ)    -- effects below the top-level frame (after the top-level value transfer)
  err : Bool              -- the interpreter returned an error (revert, out of gas, …)
  gasLeft : Nat           -- `leftOverGas` of `evm.Call` / `evm.Create`
  refundCounter : Nat     -- `state.GetRefund()` after the call

inductive Reject | nonceTooHigh | nonceTooLow | dbErr | panic
  deriving DecidableEq, Repr

structure Result where
  usedGas : Nat
  failed : Bool
  adjusted : Bool
  deriving DecidableEq, Repr

def forkHeight : Nat := 15380000
def refundHeight : Nat := 13920628
def refundValue : Nat := 429567499999828173

/-- `buyGas`: (gas bought, amount debited, adjusted) -/
def buyGas (env : Env) (have_ : Nat) (msg : Msg) : Nat × Nat × Bool :=
  let mgval := msg.gasLimit * msg.gasPrice
  if have_ < mgval then
    let gas := have_ / msg.gasPrice
    (gas, if !env.mainnet || env.height ≥ forkHeight then gas * msg.gasPrice else have_, true)
  else (msg.gasLimit, mgval, false)

def bumpNonce {σ} (m : MSt σ) (a : Addr) : MSt σ :=
  { m with st := { m.st with nonce := upd m.st.nonce a (m.st.nonce a + 1) } }

/-- one call frame: run the interpreter's effects from `start` on an empty snapshot stack; on error restore the
state DB contents of `base` (`RevertToSnapshot(snapshot)`: `dbErr`/`bad` are not part of a snapshot) -/
def frame {σ} (v : Variant) (base start : MSt σ) (out : EvmOutcome σ) : MSt σ :=
  let m3 := runEffs v { start with snaps := [] } out.inner
  if out.err then { m3 with st := base.st, suicided := base.suicided, snaps := [] } else { m3 with snaps := [] }

/-- top level of `evm.Call` / `evm.Create` on the state DB `m`; returns the state DB and the gas left -/
def topFrame {σ} (v : Variant) (m : MSt σ) (msg : Msg) (out : EvmOutcome σ) : MSt σ × Nat :=
  if msg.isCreate then
    -- `create`: CanTransfer holds (clause 6); creator nonce + 1; collision check; snapshot; new account nonce 1; transfer
    let m1 := bumpNonce m msg.sender
    if out.collision then (m1, 0)
    else (frame v m1 (transfer (applyEff v m1 (.setNonce msg.dest 1)) msg.sender msg.dest msg.value) out, out.gasLeft)
  else
    -- `Call`: snapshot; (account creation is a no-op here); transfer; run; revert on error
    (frame v m (transfer m msg.sender msg.dest msg.value) out, out.gasLeft)

/-- `StateDB.Commit`: suicided accounts lose their account record (nonce, code hash) and storage; `clean` is the
(unspecified) effect on the rest -/
def commit {σ} (m : MSt σ) (clean : List Addr → σ → σ) : St σ :=
  { bal := m.st.bal,
    nonce := fun a => if a ∈ m.suicided then 0 else m.st.nonce a,
    rest := clean m.suicided m.st.rest }

/-- intrinsic-gas check, clause 6, and the call: (state DB, gas left, vm error, refund counter) -/
def execPhase {σ} (v : Variant) (m0 : MSt σ) (msg : Msg) (out : EvmOutcome σ) (gas0 : Nat) : MSt σ × Nat × Bool × Nat :=
  if gas0 < msg.intrinsic then (bumpNonce m0 msg.sender, 0, true, 0)                 -- ErrIntrinsicGas: all gas consumed
  else if msg.value > 0 && m0.st.bal msg.sender < msg.value then
    (bumpNonce m0 msg.sender, gas0 - msg.intrinsic, true, 0)                         -- ErrInsufficientFundsForTransfer
  else if msg.isCreate then
    let r := topFrame v m0 msg out
    (r.1, r.2, out.err || out.collision, out.refundCounter)
  else
    let r := topFrame v (bumpNonce m0 msg.sender) msg out
    (r.1, r.2, out.err, out.refundCounter)

/-- `refundGas` (with `handleGasFee`) and the payment to the fee receiver: (state DB, gas at the end) -/
def settle {σ} (env : Env) (m1 : MSt σ) (msg : Msg) (gas0 gasLeft counter : Nat) (adjusted : Bool) : MSt σ × Nat :=
  let usedBefore := gas0 - gasLeft
  let refund := if usedBefore / 2 > counter then counter else usedBefore / 2
  let gasEnd := gasLeft + refund
  let m2 := addBal m1 msg.sender (gasEnd * msg.gasPrice)
  let m3 := if adjusted && env.height = refundHeight then addBal m2 msg.sender refundValue else m2
  (addBal m3 env.feeReceiver ((gas0 - gasEnd) * msg.gasPrice), gasEnd)

/-- `ApplyTransaction` = `TransitionDb` + `statedb.Commit` + the DB-error check of `HandleEIP155Transaction` -/
def transition {σ} (v : Variant) (env : Env) (s : St σ) (msg : Msg) (out : EvmOutcome σ) (clean : List Addr → σ → σ) :
    Except Reject (St σ × Result) :=
  -- preCheck
  if msg.checkNonce && s.nonce msg.sender < msg.nonce then .error .nonceTooHigh
  else if msg.checkNonce && s.nonce msg.sender > msg.nonce then .error .nonceTooLow
  else
    let b := buyGas env (s.bal msg.sender) msg
    let m0 : MSt σ := subBal ⟨s, [], false, false, []⟩ msg.sender b.2.1
    let e := execPhase v m0 msg out b.1
    let f := settle env e.1 msg b.1 e.2.1 e.2.2.2 b.2.2
    if f.1.bad then .error .panic
    else if f.1.dbErr then .error .dbErr
    else .ok (commit f.1 clean, ⟨b.1 - f.2, e.2.2.1, b.2.2⟩)

/-- observable summary over a list of accounts (driver, `example`s): balances, nonces, result -/
inductive Obs
  | rejected (r : Reject)
  | done (bals nonces : List Nat) (res : Result)
  deriving DecidableEq, Repr

def observe {σ} (accts : List Addr) : Except Reject (St σ × Result) → Obs
  | .error e => .rejected e
  | .ok (s, r) => .done (accts.map s.bal) (accts.map s.nonce) r

end OntVerif.Model.EvmTx
