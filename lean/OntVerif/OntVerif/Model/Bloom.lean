import OntVerif.Util.Hex
import Std.Data.HashMap
/-!
# Model of the block log blooms and of the per-section bloom bit index (C43)

Sources mirrored:
* go-ethereum v1.9.25 `core/types/bloom9.go` (`Bloom.add`, `Bloom.Test`, `LogsBloom`, `bloomValues`) and
  `core/bloombits/generator.go` (`NewGenerator`, `AddBloom`, `Bitset`) — library code: modelled, not verified;
* ontology `core/store/ledgerstore/ledger_store.go:executeBlock` (the block bloom is `LogsBloom` of the logs of all receipts,
  in transaction order), `bloombits.go` (`PutBloomIndex`, filter-start key), `block_store.go` (`SaveBloomData`, `GetBloomData`,
  `cleanStaleBloomData`, `LoadBloomBits`, `MinFilterStart`) and the call sites of `ledger_store.go` (`saveBlockToBlockStore`,
  `init` — `LoadBloomBits` runs on every open of an already initialised ledger but NOT when the genesis block is created).

Conventions (tied to the code by the correspondence harness, which compares bytes):
* a bloom is the 2048-bit number whose big-endian byte string is `types.Bloom`; `bloomValues` selects three bit numbers
  `k = uint16be(hash[2t..]) & 0x7ff` and sets byte `255 - k/8`, mask `1 << (k%8)`, i.e. bit `k` (LSB numbering) of that number.
  Keccak is not modelled: the three bit numbers of a datum are an abstract function `idx3`.
* a section bit vector of a section of `S` blocks is the `S`-bit number whose big-endian byte string (`S/8` bytes) is
  `Generator.blooms[i]`; `AddBloom` puts block `n` at byte `n/8`, mask `1 << (7 - n%8)`, i.e. bit `S-1-n` (LSB numbering) =
  bit `n` in MSB numbering (`BitVec.getMsbD`).

Core-only, executable.
-/
namespace OntVerif.Model.Bloom
open OntVerif.Util

/-! ## bloom9 -/

abbrev Bloom := BitVec 2048

/-- the three bit numbers `bloomValues` derives from the Keccak hash of a datum -/
abbrev Idx3 := Fin 2048 × Fin 2048 × Fin 2048

/-- `Bloom.add` -/
def add (b : Bloom) (t : Idx3) : Bloom :=
  b ||| BitVec.twoPow 2048 t.1.val ||| BitVec.twoPow 2048 t.2.1.val ||| BitVec.twoPow 2048 t.2.2.val

/-- `Bloom.Test` (`types.BloomLookup`) -/
def test (b : Bloom) (t : Idx3) : Bool :=
  b.getLsbD t.1.val && b.getLsbD t.2.1.val && b.getLsbD t.2.2.val

/-- an EVM log as far as the bloom is concerned (`Data` does not enter the bloom) -/
structure Log where
  address : Bytes
  topics : List Bytes
  deriving Repr, DecidableEq

/-- body of the outer loop of `LogsBloom`: the address, then every topic -/
def addLog (idx3 : Bytes → Idx3) (b : Bloom) (l : Log) : Bloom :=
  l.topics.foldl (fun b t => add b (idx3 t)) (add b (idx3 l.address))

/-- `types.LogsBloom` -/
def logsBloom (idx3 : Bytes → Idx3) (logs : List Log) : Bloom :=
  logs.foldl (addLog idx3) 0

/-- an EVM receipt as far as the bloom is concerned.  `failed` is `Status != ReceiptStatusSuccessful`: a failed transaction still
has a receipt, and its receipt still carries logs (the gas fee is charged even when execution fails, and `MakeOngTransferLog` emits
the `Transfer(from, to, amount)` log of the ONG contract for it; the logs of the reverted execution itself are gone). -/
structure Receipt where
  failed : Bool
  logs : List Log
  deriving Repr, DecidableEq

/-- `executeBlock`: `if receipt != nil { allLogs = append(allLogs, receipt.Logs...) }` for every transaction in order — every
transaction WITH a receipt contributes all its logs, whatever the receipt status (the field `failed` is not looked at);
transactions without a receipt (everything that is not an EIP-155 transaction) contribute nothing -/
def allLogs (receipts : List (Option Receipt)) : List Log :=
  ((receipts.filterMap id).map (·.logs)).flatten

def blockBloom (idx3 : Bytes → Idx3) (receipts : List (Option Receipt)) : Bloom :=
  logsBloom idx3 (allLogs receipts)

/-! ## bloombits.Generator -/

/-- `Generator` for sections of `S` blocks: 2048 bit vectors of `S` bits, and `nextSec` -/
structure Gen (S : Nat) where
  blooms : List (BitVec S)
  nextSec : Nat

/-- `for i := 0; i < types.BloomBitLength; i++ { b.blooms[i] = make([]byte, sections/8) }` -/
def zeroVecs (S : Nat) : List (BitVec S) := List.replicate 2048 0

/-- `NewGenerator` (`none` = error "section count not multiple of 8") -/
def newGen (S : Nat) : Option (Gen S) :=
  if S % 8 ≠ 0 then none else some ⟨zeroVecs S, 0⟩

/-- `AddBloom` (`none` = one of its two errors) -/
def addBloom {S : Nat} (g : Gen S) (index : Nat) (bloom : Bloom) : Option (Gen S) :=
  if g.nextSec ≥ S then none
  else if g.nextSec ≠ index then none
  else some ⟨g.blooms.mapIdx (fun i v => if bloom.getLsbD i then v ||| BitVec.twoPow S (S - 1 - g.nextSec) else v),
             g.nextSec + 1⟩

/-- `Bitset` -/
def bitset {S : Nat} (g : Gen S) (idx : Nat) : Option (BitVec S) :=
  if g.nextSec ≠ S then none
  else if idx ≥ 2048 then none
  else g.blooms[idx]?

/-- the `for i, b := range blooms { gen.AddBloom(uint(i), b) }` loop of `PutBloomIndex` -/
def addAll {S : Nat} : Gen S → Nat → List Bloom → Option (Gen S)
  | g, _, [] => some g
  | g, i, b :: r => match addBloom g i b with
    | none => none
    | some g' => addAll g' (i + 1) r

/-- the loop `for i := 0; i < types.BloomBitLength; i++ { bits, err := gen.Bitset(uint(i)); … }` (`n` iterations from `i`) -/
def bitsets {S : Nat} (g : Gen S) : Nat → Nat → Option (List (BitVec S))
  | _, 0 => some []
  | i, n + 1 => match bitset g i, bitsets g (i + 1) n with
    | some v, some r => some (v :: r)
    | _, _ => none

/-- the vectors `PutBloomIndex` writes for a section (`none` = one of its `panic(err)` sites) -/
def sectionVectors (S : Nat) (blooms : List Bloom) : Option (List (BitVec S)) :=
  match newGen S with
  | none => none
  | some g => match addAll g 0 blooms with
    | none => none
    | some g' => bitsets g' 0 2048

/-! ## block store bookkeeping -/

inductive Variant where
  | asShipped
  | sound
  deriving Repr, DecidableEq

/-- small key spaces (the section index) as association lists, newest binding first -/
def lookup {α : Type} (k : Nat) : List (Nat × α) → Option α
  | [] => none
  | (k', v) :: r => if k' = k then some v else lookup k r

/-- the Go map `bloomCache` and the LevelDB key space `DATA_BLOOM + height` (thousands of entries): hash maps -/
abbrev HMap := Std.HashMap Nat Bloom

/-- the block LevelDB (only the key spaces the bloom bookkeeping touches) -/
structure Store where
  cur : Option Nat                       -- SYS_CURRENT_BLOCK (height)
  filterKey : Option Nat                 -- ST_ETH_FILTER_START
  blooms : HMap                          -- DATA_BLOOM + height
  index : List (Nat × List Bloom)        -- "B" + bit + section: recorded as the bloom list `PutBloomIndex` was called with

/-- in-memory part of `BlockStore` -/
structure Mem where
  filterStart : Nat
  cache : HMap                           -- bloomCache

structure St where
  mem : Mem
  store : Store

/-- `NewBlockStore` -/
def newMem : Mem := ⟨0, ∅⟩

/-- `GetBloomData`: a missing record reads as the empty bloom -/
def getBloomData (st : Store) (h : Nat) : Bloom :=
  match st.blooms[h]? with
  | some b => b
  | none => 0

/-- `MinFilterStart` (`adh` = `config.GetAddDecimalsHeight()`) -/
def minFilterStart (S adh : Nat) : Nat := adh / S * S

/-- `*this.bloomCache[lo]`, …, `*this.bloomCache[lo+n-1]`; `none` = nil dereference -/
def collect (cache : HMap) : Nat → Nat → Option (List Bloom)
  | _, 0 => some []
  | lo, n + 1 => match cache[lo]?, collect cache (lo + 1) n with
    | some b, some r => some (b :: r)
    | _, _ => none

/-- `SaveBloomData` (`none` = panic: nil dereference of a missing cache entry, or a `panic(err)` of `PutBloomIndex`) -/
def saveBloomData (S : Nat) (s : St) (h : Nat) (bloom : Bloom) : Option St :=
  if h < s.mem.filterStart then some s
  else
    let blooms := s.store.blooms.insert h bloom
    let c1 := s.mem.cache.insert h bloom
    let c2 := if h > S * 2 then c1.erase (h - S * 2) else c1       -- cleanStaleBloomData
    if (h + 1) % S = 0 then
      match collect c2 (h + 1 - S) S with
      | none => none
      | some bl =>
        if S % 8 ≠ 0 then none
        else some ⟨{ s.mem with cache := c2 }, { s.store with blooms := blooms, index := (h / S, bl) :: s.store.index }⟩
    else some ⟨{ s.mem with cache := c2 }, { s.store with blooms := blooms }⟩

/-- the loop `for i := loadStart; i <= cur; i++ { bloomCache[i] = GetBloomData(i) }` -/
def loadFrom (st : Store) : Nat → Nat → HMap → HMap
  | _, 0, c => c
  | lo, n + 1, c => loadFrom st (lo + 1) n (c.insert lo (getBloomData st lo))

/-- first value of the filter start.  As shipped: `(cur+4095)/4096` — a section COUNT — unless `cur < adh`.
`sound`: the first section boundary above the current height. -/
def initStart (v : Variant) (S adh cur : Nat) : Nat :=
  if cur < adh then minFilterStart S adh
  else match v with
    | .asShipped => (cur + (S - 1)) / S
    | .sound => (cur / S + 1) * S

/-- `GetOrSetFilterStart`: the persisted value if there is one, else the initial value (which is then persisted) -/
def filterStartOf (v : Variant) (S adh : Nat) (key : Option Nat) (cur : Nat) : Nat :=
  match key with
  | some k => k
  | none => initStart v S adh cur

/-- `LoadBloomBits` on a freshly constructed `BlockStore` -/
def loadBloomBits (v : Variant) (S adh : Nat) (store : Store) : St :=
  let cur := match store.cur with | some c => c | none => 0
  let start := filterStartOf v S adh store.filterKey cur
  let store1 := { store with filterKey := some start }
  if cur < start then ⟨⟨start, ∅⟩, store1⟩
  else
    let loadStart := cur - cur % S
    ⟨⟨start, loadFrom store1 loadStart (cur + 1 - loadStart) ∅⟩, store1⟩

/-- how the block LevelDB came into being -/
inductive Start where
  | fresh                 -- this build creates the genesis block
  | legacy (cur : Nat)    -- written up to height `cur` by a build without the bloom index: no filter-start key, no bloom records
  deriving Repr, DecidableEq

inductive Op where
  | save                  -- the ledger commits the next block (`saveBlockToBlockStore`)
  | reopen                -- Close; NewBlockStore; init → LoadBloomBits
  deriving Repr, DecidableEq

def emptyStore : Store := ⟨none, none, ∅, []⟩

/-- commit of block `h` with bloom `b`: `SaveCurrentBlock` + `SaveBloomData` in one batch -/
def commit (S : Nat) (s : St) (h : Nat) (b : Bloom) : Option St :=
  match saveBloomData S s h b with
  | none => none
  | some s' => some { s' with store := { s'.store with cur := some h } }

/-- `InitLedgerStoreWithGenesisBlock`: genesis branch (no `LoadBloomBits`; `sound`: the filter start is fixed right away) or
`init()` of an existing store -/
def start (v : Variant) (S adh : Nat) (given : Nat → Bloom) : Start → Option St
  | .fresh =>
    match v with
    | .asShipped => commit S ⟨newMem, emptyStore⟩ 0 (given 0)
    | .sound =>
      match commit S ⟨newMem, emptyStore⟩ 0 (given 0) with
      | none => none
      | some s =>
        let k := minFilterStart S adh
        some ⟨{ s.mem with filterStart := k }, { s.store with filterKey := some k }⟩
  | .legacy cur => some (loadBloomBits v S adh { emptyStore with cur := some cur })

def step (v : Variant) (S adh : Nat) (given : Nat → Bloom) (s : St) : Op → Option St
  | .save =>
    match s.store.cur with
    | none => none
    | some c => commit S s (c + 1) (given (c + 1))
  | .reopen => some (loadBloomBits v S adh s.store)

def runOps (v : Variant) (S adh : Nat) (given : Nat → Bloom) : St → List Op → Option St
  | s, [] => some s
  | s, op :: r => match step v S adh given s op with
    | none => none
    | some s' => runOps v S adh given s' r

def run (v : Variant) (S adh : Nat) (given : Nat → Bloom) (st : Start) (ops : List Op) : Option St :=
  match start v S adh given st with
  | none => none
  | some s => runOps v S adh given s ops

/-- the blooms of the `n` heights from `lo` on -/
def secBlooms (given : Nat → Bloom) : Nat → Nat → List Bloom
  | _, 0 => []
  | lo, n + 1 => given lo :: secBlooms given (lo + 1) n

end OntVerif.Model.Bloom
