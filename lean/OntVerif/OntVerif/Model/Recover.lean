/-!
# Model of the ledger store's block commit, crash states and recovery (property C01)

Mirrors `core/store/ledgerstore/ledger_store.go` (`SubmitBlock`/`submitBlock`, `saveBlockToStateStore`,
`saveBlockToEventStore`, `init`, `loadCurrentBlock`, `recoverStore`), `state_store.go` (`NewStateStore`, `init`,
`AddStateMerkleTreeRoot`, `AddBlockMerkleTreeRoot`), `merkle/merkle_tree.go` (`NewTree/_update`, `AppendHash`,
`getStoredHashNum`) and `merkle/file_hash_store.go` (`NewFileHashStore`: size check + `Seek`, `Append`, `Flush`).

Persistent state = three key-value stores, each written by ONE atomic batch per block (LevelDB `Write(batch)`:
modelled as all-or-nothing), and the hash file, a byte string written at the file offset of the open handle
(`Write` + `Sync`: modelled as durable on return; a crash during the write leaves a prefix of the written bytes).
What a block *does* (its write set, change hash, events, transaction root) is an opaque deterministic function of the
state it is executed on (`Sem`): execution determinism is property C02, not C01.

Not modelled: the header-index cache load and bloom-bit load (they read only the block store), the cross-chain message
store (a direct `Put`, `nil` for ordinary blocks), block pruning, `CheckStorage`, `stateHashCheckHeight > 0`, the
first-run genesis initialisation being interrupted, a second crash during recovery as a separate crash point (recovery
commits one block at a time with the same steps, so it is covered by applying the theorem again).
-/
namespace OntVerif.Model.Recover

/-! ## Bits of a tree size (`n % 2`, `n >> 1` loops of merkle_tree.go / util.go) -/

/-- binary digits of `n`, least significant first (fuel `f ≥` number of digits) -/
def bitsAux : Nat → Nat → List Bool
  | 0, _ => []
  | f + 1, n => if n = 0 then [] else (n % 2 == 1) :: bitsAux f (n / 2)

def bits (n : Nat) : List Bool := bitsAux n n

def countTrue : List Bool → Nat
  | [] => 0
  | b :: r => (if b then 1 else 0) + countTrue r

/-- `merkle/util.go:countBit` -/
def countBit (n : Nat) : Nat := countTrue (bits n)

/-- number of trailing one bits: how often `for s := treeSize; s%2 == 1; s >>= 1` iterates -/
def leadTrue : List Bool → Nat
  | true :: r => 1 + leadTrue r
  | _ => 0

/-- `getSubTreeSize` summed: a set bit `j` contributes a complete subtree of `2^(j+1) - 1` stored hashes -/
def storedGo : List Bool → Nat → Nat
  | [], _ => 0
  | b :: r, id => (if b then 2 * id - 1 else 0) + storedGo r (2 * id)

/-- `merkle/file_hash_store.go:getStoredHashNum` -/
def storedHashNum (n : Nat) : Nat := storedGo (bits n) 1

/-! ## Compact merkle tree -/

structure Tree (H : Type) where
  size   : Nat
  hashes : List H
deriving DecidableEq, Repr

/-- the merge loop of `AppendHash`; `rev` = `hashes` reversed (top = `hashes[size-1]`), `acc` = `storehashes`.
`none` = index out of range (Go panic). -/
def mergeLoop {H : Type} (hc : H → H → H) : List Bool → List H → H → List H → Option (List H × H × List H)
  | [], rev, leaf, acc => some (rev, leaf, acc)
  | false :: _, rev, leaf, acc => some (rev, leaf, acc)
  | true :: _, [], _, _ => none
  | true :: bs, top :: rest, leaf, acc => mergeLoop hc bs rest (hc top leaf) (acc ++ [hc top leaf])

/-- `CompactMerkleTree.AppendHash`: new tree and the hashes handed to the hash store -/
def appendHash {H : Type} (hc : H → H → H) (t : Tree H) (leaf : H) : Option (Tree H × List H) :=
  match mergeLoop hc (bits t.size) t.hashes.reverse leaf [leaf] with
  | none => none
  | some (rev, l, stored) => some (⟨t.size + 1, rev.reverse ++ [l]⟩, stored)

/-- `CompactMerkleTree.Root` (`_hash_fold`, `hash_empty`) -/
def treeRoot {H : Type} (hc : H → H → H) (empty : H) (t : Tree H) : H :=
  match t.hashes.reverse with
  | [] => empty
  | last :: restRev => restRev.foldl (fun acc h => hc h acc) last

/-! ## Key-value helpers: a table keyed by height -/

def putAt {α : Type} (l : List (Option α)) (i : Nat) (x : α) : List (Option α) :=
  if i < l.length then l.set i (some x) else l ++ List.replicate (i - l.length) none ++ [some x]

def getAt {α : Type} (l : List (Option α)) (i : Nat) : Option α :=
  match l[i]? with
  | some (some x) => some x
  | _ => none

/-! ## The hash file -/

abbrev Bytes := List UInt8

/-- 32 bytes per hash (`common.UINT256_SIZE`) -/
def cell {H : Type} (enc : H → Bytes) (h : H) : Bytes := (enc h ++ List.replicate 32 0).take 32

def encAll {H : Type} (enc : H → Bytes) : List H → Bytes
  | [] => []
  | h :: r => cell enc h ++ encAll enc r

/-- `os.File.Write` at offset `pos` (a gap is zero-filled) -/
def writeAt (f : Bytes) (pos : Nat) (d : Bytes) : Bytes :=
  f.take pos ++ List.replicate (pos - f.length) 0 ++ d ++ f.drop (pos + d.length)

/-! ## Persistent state -/

structure BlockDB (β : Type) where
  cur    : Nat                    -- SYS_CURRENT_BLOCK
  blocks : List (Option β)        -- DATA_BLOCK_HASH / DATA_HEADER / DATA_TRANSACTION by height
deriving DecidableEq, Repr

structure EventDB (ε : Type) where
  cur  : Nat
  recs : List (Option ε)          -- EVENT_NOTIFY by block height (with the per-transaction records)
deriving DecidableEq, Repr

structure StateDB (σ H : Type) where
  cur   : Nat                     -- SYS_CURRENT_BLOCK
  data  : σ                       -- contracts, storage, …: everything the write sets touch
  btree : Tree H                  -- SYS_BLOCK_MERKLE_TREE
  stree : Tree H                  -- SYS_STATE_MERKLE_TREE
  roots : List (Option (H × H))   -- DATA_STATE_MERKLE_ROOT by height: (change hash, state root)
deriving DecidableEq, Repr

structure Disk (β σ ε H : Type) where
  blk  : BlockDB β
  evt  : EventDB ε
  st   : StateDB σ H
  file : Bytes                    -- merkle_tree.db
deriving DecidableEq, Repr

/-- an open ledger: the persistent state plus what `LedgerStoreImp`/`StateStore` keep in memory -/
structure Ledger (β σ ε H : Type) where
  disk   : Disk β σ ε H
  height : Nat                    -- currBlockHeight
  btree  : Tree H                 -- stateStore.merkleTree
  stree  : Tree H                 -- stateStore.deltaMerkleTree
  fpos   : Option Nat             -- offset of the hash store's file handle; none = persistence disabled
deriving DecidableEq, Repr

/-- the opaque, deterministic meaning of blocks -/
structure Sem (β σ ε H : Type) where
  height    : β → Nat                          -- Header.Height
  txRoot    : β → H                            -- Header.TransactionsRoot
  hdrRoot   : β → H                            -- Header.BlockRoot
  exec      : σ → β → σ                        -- executeBlock + application of the write set
  chash     : σ → β → H                        -- ExecuteResult.Hash
  events    : σ → β → ε                        -- notifications + transaction list saved to the event store
  verify    : List (Option β) → σ → β → Bool   -- verifyHeader (reads headers and the bookkeeper state)
  hc        : H → H → H                        -- hash_children
  emptyRoot : H                                -- hash_empty
  enc       : H → Bytes

inductive Err
  | treeSize      -- "merkle tree size is inconsistent with blockheight"
  | panic         -- a Go panic (NewTree: number of hashes != num bit; index out of range)
  | blockMissing  -- recoverStore: blockStore.GetBlockHash / GetBlock failed
  | height        -- "block height %d not equal next block height %d"
  | verify        -- verifyHeader
  | blockRoot     -- "wrong block root at height"
deriving DecidableEq, Repr

variable {β σ ε H : Type}

/-- what `saveBlockToBlockStore`, `saveBlockToStateStore` and `saveBlockToEventStore` prepare for block `b`:
the three batches (as the store contents they produce) and, eagerly, the in-memory trees and the hash file -/
structure Filled (β σ ε H : Type) where
  blk   : BlockDB β
  evt   : EventDB ε
  st    : StateDB σ H
  btree : Tree H
  stree : Tree H
  data  : Bytes          -- bytes handed to the hash store by AppendHash
deriving DecidableEq, Repr

def fill (S : Sem β σ ε H) (L : Ledger β σ ε H) (b : β) : Option (Filled β σ ε H) :=
  let s := L.disk.st.data
  let h := S.height b
  let ch := S.chash s b
  match appendHash S.hc L.stree ch with            -- AddStateMerkleTreeRoot (no hash store behind this tree)
  | none => none
  | some (stree', _) =>
    match appendHash S.hc L.btree (S.txRoot b) with  -- AddBlockMerkleTreeRoot
    | none => none
    | some (btree', stored) =>
      some { blk := ⟨h, putAt L.disk.blk.blocks h b⟩
             evt := ⟨h, putAt L.disk.evt.recs h (S.events s b)⟩
             st := ⟨h, S.exec s b, btree', stree', putAt L.disk.st.roots h (ch, treeRoot S.hc S.emptyRoot stree')⟩
             btree := btree', stree := stree'
             data := encAll S.enc stored }

/-- the hash store's `Append`+`Flush` of (a prefix of) the data; nothing happens when persistence is disabled -/
def fileAfter (L : Ledger β σ ε H) (d : Bytes) : Bytes :=
  match L.fpos with
  | none => L.disk.file
  | some p => writeAt L.disk.file p d

def fposAfter (L : Ledger β σ ε H) (d : Bytes) : Option Nat :=
  match L.fpos with
  | none => none
  | some p => some (p + d.length)

/-- one `CommitTo`: 0 = block store, 1 = event store, 2 = state store -/
def commitStep (F : Filled β σ ε H) (d : Disk β σ ε H) (s : Nat) : Disk β σ ε H :=
  match s with
  | 0 => { d with blk := F.blk }
  | 1 => { d with evt := F.evt }
  | 2 => { d with st := F.st }
  | _ => d

/-- block root if `leaf` were appended (`GetBlockRootWithNewTxRoots` with one new root) -/
def rootWithLeaf (S : Sem β σ ε H) (t : Tree H) (leaf : H) : Option H :=
  match appendHash S.hc t leaf with
  | none => none
  | some (t', _) => some (treeRoot S.hc S.emptyRoot t')

/-- `SubmitBlock` + `submitBlock` with the commits in the given order -/
def submit [DecidableEq H] (S : Sem β σ ε H) (order : List Nat) (L : Ledger β σ ε H) (b : β) :
    Except Err (Ledger β σ ε H) :=
  if S.height b ≤ L.height then .ok L
  else if S.height b ≠ L.height + 1 then .error .height
  else if S.verify L.disk.blk.blocks L.disk.st.data b = false then .error .verify
  else match rootWithLeaf S L.btree (S.txRoot b) with
    | none => .error .panic
    | some r =>
      if S.height b ≠ 0 ∧ r ≠ S.hdrRoot b then .error .blockRoot
      else match fill S L b with
        | none => .error .panic
        | some F =>
          .ok { disk := order.foldl (commitStep F) { L.disk with file := fileAfter L F.data }
                height := S.height b, btree := F.btree, stree := F.stree, fpos := fposAfter L F.data }

/-- the data directory if the process dies while `b` is being committed: `t` bytes of the eager hash-file append and the
first `k` commits of `order` are durable -/
def crashDisk (S : Sem β σ ε H) (order : List Nat) (L : Ledger β σ ε H) (b : β) (k t : Nat) : Option (Disk β σ ε H) :=
  match fill S L b with
  | none => none
  | some F => some ((order.take k).foldl (commitStep F) { L.disk with file := fileAfter L (F.data.take t) })

/-- one iteration of the loop of `recoverStore` for the block stored at height `j` -/
def replay (S : Sem β σ ε H) (recCommits : List Nat) (L : Ledger β σ ε H) (j : Nat) : Except Err (Ledger β σ ε H) :=
  match getAt L.disk.blk.blocks j with
  | none => .error .blockMissing
  | some b =>
    match fill S L b with
    | none => .error .panic
    | some F =>
      .ok { L with disk := recCommits.foldl (commitStep F) { L.disk with file := fileAfter L F.data }
                   btree := F.btree, stree := F.stree, fpos := fposAfter L F.data }

def replayAll (S : Sem β σ ε H) (recCommits : List Nat) (arg : Nat) :
    List Nat → Ledger β σ ε H → Except Err (Ledger β σ ε H)
  | [], L => .ok L
  | i :: is, L =>
    match replay S recCommits L (i + arg) with
    | .error e => .error e
    | .ok L' => replayAll S recCommits arg is L'

/-- the in-memory ledger `NewLedgerStore` + `init` build from a data directory before `recoverStore` runs -/
def ledgerOf (d : Disk β σ ε H) : Ledger β σ ε H :=
  { disk := d, height := d.blk.cur, btree := d.st.btree, stree := d.st.stree
    fpos := if d.file.length < 32 * storedHashNum d.st.btree.size then none else some (32 * storedHashNum d.st.btree.size) }

/-- `NewLedgerStore` + `InitLedgerStoreWithGenesisBlock` on an initialised data directory.
`lo hi arg`: the replay loop is `for i := stateHeight + lo; i < blockHeight + hi; i++ { replay block i + arg }`. -/
def reopen (S : Sem β σ ε H) (lo hi arg : Nat) (recCommits : List Nat) (d : Disk β σ ε H) :
    Except Err (Ledger β σ ε H) :=
  -- StateStore.init
  if d.st.btree.size > 0 ∧ d.st.btree.size ≠ d.st.cur + 1 then .error .treeSize
  else if d.st.btree.hashes.length ≠ countBit d.st.btree.size then .error .panic
  else if d.st.stree.size > 0 ∧ d.st.stree.size ≠ d.st.cur + 1 then .error .treeSize
  else if d.st.stree.hashes.length ≠ countBit d.st.stree.size then .error .panic
  else
    -- loadCurrentBlock; recoverStore
    replayAll S recCommits arg (List.range' (d.st.cur + lo) ((d.blk.cur + hi) - (d.st.cur + lo))) (ledgerOf d)

/-- The data directory if the process dies DURING `reopen d`, while `recoverStore` re-commits the first block of its
replay loop: `t` bytes of the hash-file re-append and the first `k` commits of the iteration (in `recCommits` order) are
durable. A reopen that fails its checks or replays nothing has no durable step and leaves `d` as it is. (In every state
reachable from a consistent ledger by crashes the state store lags the block store by at most one block — part of what
`C01_recover_twice` proves — so the first iteration is the only one.) -/
def reopenCrash (S : Sem β σ ε H) (lo hi arg : Nat) (recCommits : List Nat) (d : Disk β σ ε H) (k t : Nat) :
    Disk β σ ε H :=
  if d.st.btree.size > 0 ∧ d.st.btree.size ≠ d.st.cur + 1 then d
  else if d.st.btree.hashes.length ≠ countBit d.st.btree.size then d
  else if d.st.stree.size > 0 ∧ d.st.stree.size ≠ d.st.cur + 1 then d
  else if d.st.stree.hashes.length ≠ countBit d.st.stree.size then d
  else
    match List.range' (d.st.cur + lo) ((d.blk.cur + hi) - (d.st.cur + lo)) with
    | [] => d
    | i :: _ =>
      match getAt d.blk.blocks (i + arg) with
      | none => d
      | some b =>
        match fill S (ledgerOf d) b with
        | none => d
        | some F => (recCommits.take k).foldl (commitStep F) { d with file := fileAfter (ledgerOf d) (F.data.take t) }

/-- the first-run branch of `InitLedgerStoreWithGenesisBlock`: empty stores, then the genesis block is executed and
submitted like any block (no header / block-root check at height 0) -/
def emptyLedger (s0 : σ) : Ledger β σ ε H :=
  { disk := ⟨⟨0, []⟩, ⟨0, []⟩, ⟨0, s0, ⟨0, []⟩, ⟨0, []⟩, []⟩, []⟩, height := 0, btree := ⟨0, []⟩, stree := ⟨0, []⟩, fpos := some 0 }

def genesis (S : Sem β σ ε H) (order : List Nat) (s0 : σ) (g : β) : Option (Ledger β σ ε H) :=
  match fill S (emptyLedger s0) g with
  | none => none
  | some F =>
    some { disk := order.foldl (commitStep F) { (emptyLedger (β := β) (ε := ε) (H := H) s0).disk with file := fileAfter (emptyLedger (β := β) (ε := ε) (H := H) s0) F.data }
           height := S.height g, btree := F.btree, stree := F.stree, fpos := fposAfter (emptyLedger (β := β) (ε := ε) (H := H) s0) F.data }

/-- the uncrashed node: blocks are offered one after the other, rejected ones are dropped -/
def run [DecidableEq H] (S : Sem β σ ε H) (order : List Nat) : Ledger β σ ε H → List β → Ledger β σ ε H
  | L, [] => L
  | L, b :: bs =>
    match submit S order L b with
    | .ok L' => run S order L' bs
    | .error _ => run S order L bs

/-! ## Specification vocabulary -/

/-- `NewTree/_update` accepts the stored tree: one hash per set bit of the size -/
def WF (t : Tree H) : Prop := t.hashes.length = countBit t.size

/-- a data directory as a node that is not in the middle of a commit leaves it: the stores agree on the height, the trees
have one leaf per block, and the hash file holds at least the hashes of the committed tree and at most the (possibly
torn) append of one further leaf -/
def DiskOK (d : Disk β σ ε H) : Prop :=
  d.st.cur = d.blk.cur ∧ d.st.btree.size = d.st.cur + 1 ∧ d.st.stree.size = d.st.cur + 1 ∧
  WF d.st.btree ∧ WF d.st.stree ∧
  32 * storedHashNum d.st.btree.size ≤ d.file.length ∧ d.file.length ≤ 32 * storedHashNum (d.st.btree.size + 1)

/-- an open ledger whose memory mirrors its (consistent) data directory -/
def Consistent (L : Ledger β σ ε H) : Prop := L = ledgerOf L.disk ∧ DiskOK L.disk

/-- equal except for what follows the committed part of the hash file -/
def TailEq (L' L : Ledger β σ ε H) : Prop :=
  L'.height = L.height ∧ L'.btree = L.btree ∧ L'.stree = L.stree ∧ L'.fpos = L.fpos ∧
  L'.disk.blk = L.disk.blk ∧ L'.disk.evt = L.disk.evt ∧ L'.disk.st = L.disk.st ∧
  ∃ p, L.fpos = some p ∧ p ≤ L.disk.file.length ∧ p ≤ L'.disk.file.length ∧
    L'.disk.file.take p = L.disk.file.take p ∧
    L.disk.file.length ≤ p + 32 * (1 + leadTrue (bits L.btree.size)) ∧
    L'.disk.file.length ≤ p + 32 * (1 + leadTrue (bits L.btree.size))

def Eqv (L' L : Ledger β σ ε H) : Prop := L' = L ∨ TailEq L' L

/-- both ledgers treat the block the same way: same rejection, or results that are equal (up to the uncommitted tail of
the hash file when the block was a no-op) -/
def SameVerdict (r' r : Except Err (Ledger β σ ε H)) : Prop :=
  match r', r with
  | .ok a, .ok c => Eqv a c
  | .error e', .error e => e' = e
  | _, _ => False

/-- What C01 demands of the ledger `L'` produced by reopening the data directory after the process died during the
commit that leads from the uncrashed ledger `L` to the uncrashed ledger `L1`. -/
structure Recovered [DecidableEq H] (S : Sem β σ ε H) (lo hi arg : Nat) (rc order : List Nat)
    (L L1 L' : Ledger β σ ε H) : Prop where
  /-- the height is the old or the new one -/
  height : L'.height = L.height ∨ L'.height = L1.height
  /-- old height: all three stores and the in-memory trees equal the uncrashed ledger's; the hash file agrees with the
  uncrashed file on the committed part and carries at most one torn append behind it -/
  old : L'.height = L.height → TailEq L' L
  /-- new height: identical to the uncrashed ledger, hash file included -/
  new : L'.height = L1.height → L' = L1
  /-- the next block is accepted or rejected exactly as by the uncrashed ledger of that height … -/
  next : ∀ b' : β, SameVerdict (submit S order L' b') (submit S order (if L'.height = L.height then L else L1) b')
  /-- … and so is every sequence of following blocks, with the same resulting ledger (tail gone after the first commit) -/
  following : ∀ bs : List β, Eqv (run S order L' bs) (run S order (if L'.height = L.height then L else L1) bs)
  /-- closing and reopening once more changes nothing -/
  again : reopen S lo hi arg rc L'.disk = .ok L'

/-! ## A concrete block semantics (used by the model driver and by the kernel-checked witnesses)

Hashes are naturals mixed by a fixed arithmetic function; the state is the list of block ids applied so far, so applying
a block twice or skipping one is visible; every header is accepted by `verify` (the chains fed to it are valid). -/
namespace Toy

structure Blk where
  height  : Nat
  id      : Nat      -- stands for the block's content
  hdrRoot : Nat
deriving DecidableEq, Repr

def mix (a b : Nat) : Nat := (a * 1000003 + b * 999983 + 12345) % 18446744073709551557

def leBytes : Nat → Nat → Bytes
  | 0, _ => []
  | k + 1, n => UInt8.ofNat (n % 256) :: leBytes k (n / 256)

def sem : Sem Blk (List Nat) Nat Nat :=
  { height := fun b => b.height
    txRoot := fun b => mix 1 b.id
    hdrRoot := fun b => b.hdrRoot
    exec := fun s b => b.id :: s
    chash := fun s b => mix (s.foldl mix 2) b.id
    events := fun _ b => b.id
    verify := fun _ _ _ => true
    hc := mix
    emptyRoot := 0
    enc := leBytes 8 }

abbrev TLedger := Ledger Blk (List Nat) Nat Nat
abbrev TDisk := Disk Blk (List Nat) Nat Nat

/-- the block a solo bookkeeper would make on top of `L` (MakeBlock: block root = root with the new tx root) -/
def mkBlock (L : TLedger) (id : Nat) : Blk :=
  { height := L.height + 1, id := id
    hdrRoot := match rootWithLeaf sem L.btree (mix 1 id) with | some r => r | none => 0 }

def genesisLedger (order : List Nat) : TLedger :=
  match genesis sem order [] ⟨0, 0, 0⟩ with
  | some L => L
  | none => emptyLedger []

/-- ledgers of the uncrashed run over the block ids: element `i` = ledger at height `i`, with the blocks made -/
def build (order : List Nat) : List Nat → TLedger → List (TLedger × Blk)
  | [], _ => []
  | id :: ids, L =>
    let b := mkBlock L id
    match submit sem order L b with
    | .ok L' => (L', b) :: build order ids L'
    | .error _ => []

end Toy

end OntVerif.Model.Recover
