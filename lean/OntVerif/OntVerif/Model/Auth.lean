import OntVerif.Gen.Auth
/-!
# Auth native contract (C41)

Model of `smartcontract/service/native/auth/auth.go`: `InitContractAdmin`, `Transfer`, `AssignFuncsToRole`,
`AssignOntIDsToRole` (`assignToRole`), `Delegate` (`delegate`), `Withdraw` (`withdraw`), `VerifyToken` (`verifyToken`),
`getAuthToken` / `hasRole`.

* Contract addresses, ONT IDs, role names and function names are byte strings of which only equality is used: the model
  uses natural-number codes. Role `0` is the empty byte string (deserialised as `nil`), function `0` is the empty name
  (dropped by `StringsDedupAndSort`). `V id` is `account.VerifyID`.
* The ONT-ID contract's `verifySignature(ontID, keyNo)` is not modelled: its result for the call at hand is the field
  `sig` of each operation (`ok` / `bad` = BYTE_FALSE / `err` = the native call failed).
* Storage: one item per (contract), (contract, role), (contract, ontid); items that the code distinguishes from
  "absent" (`tokens == nil`) are `Option`.
* The comparisons on expiry times and levels and the constants `future`, `level = 2` are **generated from the Go
  source** (`Gen/Auth.lean`).
* `Variant.asShipped` = the pinned tree; `Variant.sound` = `verifyToken` using the same notion of "unexpired" as
  `getAuthToken` (the function every other entry point uses to decide whether an identity holds a role):
  a permanent token never expires, a delegation is live while `now < expireTime`.
-/
namespace OntVerif.Model.Auth
open OntVerif.Gen.Auth

inductive Variant | asShipped | sound
  deriving DecidableEq, Repr

structure Token where
  role : Nat
  expire : Nat
  level : Nat
  deriving DecidableEq, Repr

structure DStatus where
  root : Nat
  role : Nat
  expire : Nat
  level : Nat
  deriving DecidableEq, Repr

structure St where
  admin : Nat → Option Nat := fun _ => none                       -- contract ↦ admin ONT ID
  funcs : Nat → Nat → List Nat := fun _ _ => []                   -- contract, role ↦ function names (a set)
  tokens : Nat → Nat → Option (List Token) := fun _ _ => none     -- contract, ontid ↦ roleTokens item
  status : Nat → Nat → List DStatus := fun _ _ => []              -- contract, ontid ↦ delegate Status item (absent = empty)

inductive Sig | ok | bad | err
  deriving DecidableEq, Repr

inductive Res | t | f | error
  deriving DecidableEq, Repr

def two32 : Nat := 4294967296

def tokensOf (st : St) (c id : Nat) : List Token := (st.tokens c id).getD []

/-- `getAuthToken`: the permanent token of that role if any (no expiry test), else the first delegation record of that
role that is still live -/
def getAuthToken (st : St) (c id role now : Nat) : Option Token :=
  match (tokensOf st c id).find? (fun t => t.role == role) with
  | some t => some t
  | none =>
    ((st.status c id).find? (fun s => s.role == role && delegationLive s.expire now)).map
      fun s => ⟨s.role, s.expire, s.level⟩

def hasRole (st : St) (c id role now : Nat) : Bool := (getAuthToken st c id role now).isSome

def setAdmin (st : St) (c id : Nat) : St :=
  { st with admin := fun c' => if c' = c then some id else st.admin c' }

def setFuncs (st : St) (c role : Nat) (fs : List Nat) : St :=
  { st with funcs := fun c' r' => if c' = c ∧ r' = role then fs else st.funcs c' r' }

def setTokens (st : St) (c id : Nat) (ts : List Token) : St :=
  { st with tokens := fun c' i' => if c' = c ∧ i' = id then some ts else st.tokens c' i' }

def setStatus (st : St) (c id : Nat) (ss : List DStatus) : St :=
  { st with status := fun c' i' => if c' = c ∧ i' = id then ss else st.status c' i' }

/-- `InitContractAdmin`; `c` is the calling contract (`CallingContext().ContractAddress`) -/
def initAdmin (V : Nat → Bool) (st : St) (c id : Nat) : Res × St :=
  if !V id then (.error, st)
  else match st.admin c with
    | some _ => (.f, st)
    | none => (.t, setAdmin st c id)

/-- `Transfer` -/
def transfer (V : Nat → Bool) (st : St) (c newAdmin : Nat) (sig : Sig) : Res × St :=
  if !V newAdmin then (.error, st)
  else match st.admin c with
    | none => (.f, st)
    | some _ =>
      match sig with
      | .err => (.error, st)
      | .bad => (.f, st)
      | .ok => (.t, setAdmin st c newAdmin)

/-- `AssignFuncsToRole`; `roleFuncs.AppendFuncs` keeps a sorted duplicate-free list without the empty name — as a set:
the old names and the new non-empty ones -/
def assignFuncs (st : St) (c admin role : Nat) (fns : List Nat) (sig : Sig) : Res × St :=
  if role = 0 then (.error, st)
  else match st.admin c with
    | none => (.error, st)
    | some a =>
      if a ≠ admin then (.f, st)
      else match sig with
        | .err => (.error, st)
        | .bad => (.f, st)
        | .ok => (.t, setFuncs st c role (st.funcs c role ++ fns.filter (· ≠ 0)))

def permanentToken (role : Nat) : Token := ⟨role, FUTURE, permanentLevel⟩

/-- the `for _, p := range param.Persons` loop of `assignToRole` -/
def assignLoop (st : St) (c role now : Nat) : List Nat → St
  | [] => st
  | p :: r =>
    match st.tokens c p with
    | none => assignLoop (setTokens st c p [permanentToken role]) c role now r
    | some ts =>
      if hasRole st c p role now then assignLoop st c role now r
      else assignLoop (setTokens st c p (ts ++ [permanentToken role])) c role now r

/-- `AssignOntIDsToRole` -/
def assignIds (V : Nat → Bool) (st : St) (c admin role : Nat) (ids : List Nat) (sig : Sig) (now : Nat) : Res × St :=
  if role = 0 then (.error, st)
  else if ids.any (fun p => !V p) then (.error, st)
  else match st.admin c with
    | none => (.error, st)
    | some a =>
      if a ≠ admin then (.f, st)
      else match sig with
        | .err => (.error, st)
        | .bad => (.f, st)
        | .ok => (.t, assignLoop st c role now ids)

/-- the update of `to`'s Status item in `delegate`: overwrite the first record of that role, else append -/
def putDelegation (ss : List DStatus) (d : DStatus) : List DStatus :=
  match ss with
  | [] => [d]
  | s :: r => if s.role = d.role then d :: r else s :: putDelegation r d

/-- `Delegate` / `delegate`. `period ≤ MaxUint32` and `level ≤ MaxInt8` are enforced by the parameter decoder. -/
def delegate (V : Nat → Bool) (st : St) (c frm to role period level : Nat) (sig : Sig) (now : Nat) : Res × St :=
  if period ≥ two32 ∨ level > 127 then (.error, st)
  else if now + period ≥ two32 then (.error, st)                 -- `period+expireTime < period` on uint32
  else
    let expire := now + period
    match sig with
    | .err => (.error, st)
    | .bad => (.f, st)
    | .ok =>
      if !V to then (.error, st)
      else match getAuthToken st c frm role now with
        | none => (.f, st)
        | some ft =>
          if hasRole st c to role now then (.f, st)
          else if delegateOuter ft.level level expire ft.expire && delegateInner ft.level level expire ft.expire then
            (.t, setStatus st c to (putDelegation (st.status c to) ⟨frm, role, expire, level⟩))
          else (.f, st)

/-- the removal loop of `withdraw`: the first record with that role and that root -/
def removeDelegation (ss : List DStatus) (role root : Nat) : Option (List DStatus) :=
  match ss with
  | [] => none
  | s :: r => if s.role = role ∧ s.root = root then some r else (removeDelegation r role root).map (s :: ·)

/-- `Withdraw` / `withdraw` -/
def withdraw (st : St) (c initiator dlg role : Nat) (sig : Sig) (now : Nat) : Res × St :=
  match sig with
  | .err => (.error, st)
  | .bad => (.f, st)
  | .ok =>
    match getAuthToken st c initiator role now with
    | none => (.f, st)
    | some _ =>
      match removeDelegation (st.status c dlg) role initiator with
      | none => (.f, st)
      | some ss => (.t, setStatus st c dlg ss)

def tokenSkip (v : Variant) (expire now : Nat) : Bool :=
  match v with
  | .asShipped => tokenSkipped expire now
  | .sound => false

def statusSkip (v : Variant) (expire now : Nat) : Bool :=
  match v with
  | .asShipped => statusSkipped expire now
  | .sound => !delegationLive expire now

/-- the two loops of `verifyToken`: permanent tokens first, then delegation records; `return true` at the first entry
that is not skipped and whose role contains the function -/
def verifyHit (v : Variant) (st : St) (c caller fn now : Nat) : Bool :=
  (tokensOf st c caller).any (fun t => !tokenSkip v t.expire now && (st.funcs c t.role).contains fn)
    || (st.status c caller).any (fun s => !statusSkip v s.expire now && (st.funcs c s.role).contains fn)

/-- `verifyToken` (state is not changed) -/
def verifyToken (v : Variant) (st : St) (c caller fn : Nat) (sig : Sig) (now : Nat) : Res :=
  match sig with
  | .err => .error
  | .bad => .f
  | .ok => if verifyHit v st c caller fn now then .t else .f

inductive Op
  | init (c id : Nat)
  | transfer (c newAdmin : Nat) (sig : Sig)
  | assignFuncs (c admin role : Nat) (fns : List Nat) (sig : Sig)
  | assignIds (c admin role : Nat) (ids : List Nat) (sig : Sig)
  | delegate (c frm to role period level : Nat) (sig : Sig)
  | withdraw (c initiator dlg role : Nat) (sig : Sig)
  | verify (c caller fn : Nat) (sig : Sig)

/-- one transaction at block time `now` (`native.Time`, uint32). An error reverts, so the state is unchanged. -/
def step (V : Nat → Bool) (v : Variant) (st : St) (now : Nat) : Op → Res × St
  | .init c id => initAdmin V st c id
  | .transfer c a sig => transfer V st c a sig
  | .assignFuncs c a r fns sig => assignFuncs st c a r fns sig
  | .assignIds c a r ids sig => assignIds V st c a r ids sig now
  | .delegate c f t r p l sig => delegate V st c f t r p l sig now
  | .withdraw c i d r sig => withdraw st c i d r sig now
  | .verify c caller fn sig => (verifyToken v st c caller fn sig now, st)

/-- a history: operations with their block times (any order of times) -/
def run (V : Nat → Bool) (v : Variant) : St → List (Nat × Op) → St
  | st, [] => st
  | st, (now, op) :: r => run V v (step V v st now op).2 r

/-! ## specification vocabulary -/

/-- `id` holds `role` directly: a permanent token of that role is stored for it -/
def HoldsDirect (st : St) (c id role : Nat) : Prop := ∃ t ∈ tokensOf st c id, t.role = role

/-- `id` holds `role` through an unexpired delegation from `root` -/
def HoldsDelegated (st : St) (c id role now : Nat) : Prop :=
  ∃ s ∈ st.status c id, s.role = role ∧ now < s.expire

def Holds (st : St) (c id role now : Nat) : Prop := HoldsDirect st c id role ∨ HoldsDelegated st c id role now

end OntVerif.Model.Auth
