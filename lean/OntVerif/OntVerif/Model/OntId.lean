import OntVerif.Util.Hex
/-!
# Model of the ONT ID native contract's access-control skeleton (property C45)

Mirrors `smartcontract/service/native/ontid/` of /repo:

* `utils.go`      `checkIDState` / `isValid` / `encodeID` / `checkWitness` / `checkWitnessByIndex` /
                  `checkWitnessWithoutAuth` / `deleteID`
* `owner.go`      `getPk`, `insertPk`, `revokePk`, `revokePkByIndex`, `changePkAuthentication`, `findPk_Version1`/`isOwner`
* `group.go`      `rDeserialize` (depth limit, threshold bound), `validateMembers`, `verifyThreshold`, `verifyGroupSignature`
* `controller.go` `verifySingleController`, `verifyGroupController`, `verifyControllerSignature`, `getController`
* `recovery.go`   `getRecovery` / `getOldRecovery` (storage version 1 / 0), `putRecovery`, `setOldRecovery`
* every method registered in `init.go:RegisterIDContract` that can write (40 methods) plus the two pure checks
  `verifySignature` / `verifyController`: see `plan`.

Abstractions (tied to the code by the correspondence harness `harness/cmd/c45`, not verified):

* byte-level argument decoding. An operation carries its *decoded* arguments. A controller / recovery proof is one
  var-bytes blob that the code decodes either as a Neo-encoded integer (`DecodeVarUint`) or as a signer list
  (`deserializeSigners`) depending on the *stored* controller; `Proof` therefore carries both readings of the blob.
  A group on the wire is a tree (`Grp`); undecodable bytes are `none` / `CtrlArg.malformed`.
* `account.VerifyID`, `encodeID`'s length check, `keypair.DeserializePublicKey`, `types.AddressFromPubKey`,
  `common.AddressParseFromBytes` are uninterpreted functions (`Env`). Every theorem holds for all of them.
* the transaction is its witness set (`ContextRef.CheckWitness a` = `a ∈ tx.wit`) and whether the block height is
  at or above `config.GetNewOntIdHeight()` (`tx.newApi`).  Below that height only the first 26 methods are
  registered, `insertPk` stores the version-0 record whose read-back has `controller = id`, `isPkList = isAuthentication
  = true`, and `updateTime` is a no-op.  Heights are monotone along a history, so a version-1 list is never read by the
  version-0 code; the model is exact for monotone histories.
* a failed invocation leaves no trace (the caller discards the `CacheDB` of a failed transaction).
* attribute / service / context payloads are opaque byte strings; size limits of a single attribute (80/64/512K) and
  the 1 MB limit of the key list are not modelled. `MAX_NUM = 100` attributes is.
* no modelled path panics. (`revokePkByIndex` used to wrap `index -= 1` for index 0 and panic on the slice access;
  since /repo bdce7b3a index 0 is refused like an out-of-range index. The harness reports any Go panic inside the
  contract as a predicate failure, and the old witness is a corpus line.)
-/
namespace OntVerif.Model.OntId
open OntVerif.Util

def two32 : Nat := 4294967296
/-- Go `uint32(x)` of a `uint64` -/
def u32 (n : Nat) : Nat := n % two32

/-- the uninterpreted primitives of the contract -/
structure Env where
  /-- `account.VerifyID(string(id))` -/
  validId : Bytes → Bool
  /-- `encodeID(id)` succeeds: `0 < len(id) <= 255` -/
  encodable : Bytes → Bool
  /-- `keypair.DeserializePublicKey(pk)` succeeds -/
  validPk : Bytes → Bool
  /-- `types.AddressFromPubKey` of a valid key (as the 20 address bytes) -/
  addrOf : Bytes → Bytes
  /-- `common.AddressParseFromBytes(b)` succeeds (20 bytes) -/
  isAddr : Bytes → Bool

/-- `publicKey` of owner.go -/
structure Key where
  key : Bytes
  revoked : Bool
  ctrl : Bytes
  isPkList : Bool
  isAuth : Bool
  deriving DecidableEq, Repr

/-- `Group` of group.go as a tree: a member is an ONT ID or a sub-group -/
inductive Grp where
  | id (i : Bytes) : Grp
  | sub (ms : List Grp) (thr : Nat) : Grp
  deriving Repr

/-- what is stored under `FIELD_CONTROLLER`: bytes that pass `VerifyID`, or a serialized group -/
inductive Ctrl where
  | single (id : Bytes)
  | group (g : Grp)
  deriving Repr

/-- what is stored under `FIELD_RECOVERY`: nothing, a version-0 item (an address, `addRecovery`/`changeRecovery`), or a
version-1 item (a group, `setRecovery`/`updateRecovery`) -/
inductive Rec where
  | none
  | old (addr : Bytes)
  | grp (g : Grp)
  deriving Repr

/-- `getRecovery` returns a group (`err == nil && re != nil`) -/
def Rec.isGrp : Rec → Bool
  | .grp _ => true
  | _ => false

/-- `getOldRecovery` returns a non-empty address (`err == nil && len(re) > 0`) -/
def Rec.isOldSet : Rec → Bool
  | .old a => !a.isEmpty
  | _ => false

/-- `flag_not_exist` / `flag_valid` / `flag_revoke` -/
inductive Status where
  | absent
  | valid
  | revoked
  deriving DecidableEq, Repr

/-- all records of one identity -/
structure Ident where
  status : Status
  keys : List Key
  ctrl : Option Ctrl
  recov : Rec
  /-- attribute linked list from its head: (key, opaque value) -/
  attrs : List (Bytes × Bytes)
  /-- services: (service id, opaque type/endpoint) -/
  svcs : List (Bytes × Bytes)
  ctxs : List Bytes

def Ident.empty : Ident :=
  { status := .absent, keys := [], ctrl := none, recov := .none, attrs := [], svcs := [], ctxs := [] }

/-- contract storage: identity bytes ↦ records (nothing stored = `Ident.empty`) -/
abbrev World := Bytes → Ident

def World.empty : World := fun _ => Ident.empty

def World.set (w : World) (id : Bytes) (x : Ident) : World := fun j => if j = id then x else w j

structure Tx where
  /-- addresses for which `ContextRef.CheckWitness` answers true -/
  wit : List Bytes
  /-- `srvc.Height >= config.GetNewOntIdHeight()` -/
  newApi : Bool

/-- `Signer{Id, Index}`; the index is the decoded uint64 (truncated to uint32 when used) -/
abbrev Signer := Bytes × Nat

/-- the proof blob under its two decoders -/
structure Proof where
  /-- `utils.DecodeVarUint` of the blob -/
  asIndex : Option Nat
  /-- `deserializeSigners` of the blob -/
  asSigners : Option (List Signer)

/-- argument 1 of `regIDWithController` -/
inductive CtrlArg where
  | single (id : Bytes)
  | group (g : Grp)
  | malformed

inductive Result where
  | ok
  | fail
  deriving DecidableEq, Repr

/-! ## utils.go / owner.go -/

/-- `checkWitness`: the key is tried as a public key, then as an address -/
def checkWitness (env : Env) (tx : Tx) (key : Bytes) : Bool :=
  (env.validPk key && tx.wit.contains (env.addrOf key)) || (env.isAddr key && tx.wit.contains key)

/-- `getPk` (1-based uint32 index) -/
def getPk (keys : List Key) (idx : Nat) : Option Key :=
  if keys.isEmpty then none
  else if idx < 1 || idx > keys.length then none
  else keys[idx - 1]?

/-- `checkWitnessByIndex` on the records of `id` -/
def checkWitnessByIndex (env : Env) (tx : Tx) (w : World) (id : Bytes) (idx : Nat) : Bool :=
  match getPk (w id).keys idx with
  | none => false
  | some k => !k.revoked && k.isAuth && checkWitness env tx k.key

/-- `checkWitnessWithoutAuth` (only `verifySignature`) -/
def checkWitnessNoAuth (env : Env) (tx : Tx) (w : World) (id : Bytes) (idx : Nat) : Bool :=
  match getPk (w id).keys idx with
  | none => false
  | some k => !k.revoked && checkWitness env tx k.key

/-- `isOwner` = `findPk_Version1`: the first entry with these key bytes *and* authentication rights decides -/
def isOwner (keys : List Key) (pub : Bytes) : Bool :=
  match keys.find? (fun k => k.key == pub && k.isAuth) with
  | some k => !k.revoked
  | none => false

/-- `insertPk`: duplicate key bytes (revoked or not) are refused; below the fork height the flags are not stored -/
def insertPk (tx : Tx) (id : Bytes) (keys : List Key) (pk ctrl : Bytes) (isPkList isAuth : Bool) : Option (List Key) :=
  if keys.any (fun k => k.key == pk) then none
  else if tx.newApi then some (keys ++ [{ key := pk, revoked := false, ctrl := ctrl, isPkList := isPkList, isAuth := isAuth }])
  else some (keys ++ [{ key := pk, revoked := false, ctrl := id, isPkList := true, isAuth := true }])

/-- the loop of `revokePk`: every entry with these key bytes is visited; an already revoked one aborts.
Returns the new list and whether an entry was found. -/
def revokeLoop (pub : Bytes) : List Key → Option (List Key × Bool)
  | [] => some ([], false)
  | k :: r =>
    if k.key == pub then
      if k.revoked then none
      else match revokeLoop pub r with
        | none => none
        | some (r', _) => some ({ k with revoked := true } :: r', true)
    else match revokeLoop pub r with
      | none => none
      | some (r', f) => some (k :: r', f)

/-- `revokePk` -/
def revokePk (keys : List Key) (pub : Bytes) : Option (List Key) :=
  match revokeLoop pub keys with
  | some (ks, true) => some ks
  | _ => none

/-- outcome of an effect on the records of the target identity -/
inductive EffRes where
  | ok (x : Ident)
  | fail

/-- `revokePkByIndex`: index 0 and `len < index` are refused ("no such key"), an already revoked entry too -/
def revokePkByIndex (keys : List Key) (idx : Nat) : Option (List Key) :=
  if idx = 0 || keys.length < idx then none
  else match keys[idx - 1]? with
    | none => none
    | some k => if k.revoked then none else some (keys.set (idx - 1) { k with revoked := true })

/-- `changePkAuthentication` -/
def changePkAuth (keys : List Key) (idx : Nat) (b : Bool) : Option (List Key) :=
  if idx < 1 || idx > keys.length then none
  else match keys[idx - 1]? with
    | none => none
    | some k => if k.revoked then none else some (keys.set (idx - 1) { k with isAuth := b })

/-! ## group.go -/

mutual
/-- `verifyThreshold` -/
def verifyThreshold (ids : List Bytes) : Grp → Bool
  | .id i => ids.contains i
  | .sub ms thr => decide (thr ≤ countSigned ids ms)
/-- the `signed` counter of `verifyThreshold` -/
def countSigned (ids : List Bytes) : List Grp → Nat
  | [] => 0
  | m :: r => (if verifyThreshold ids m then 1 else 0) + countSigned ids r
end

mutual
/-- `rDeserialize` accepts the tree at this recursion depth: `depth != MAX_DEPTH (8)`, `threshold <= len(members)` -/
def Grp.wf : Grp → Nat → Bool
  | .id _, _ => true
  | .sub ms thr, d => d != 8 && Grp.wfList ms (d + 1) && decide (thr ≤ ms.length)
def Grp.wfList : List Grp → Nat → Bool
  | [], _ => true
  | m :: r, d => Grp.wf m d && Grp.wfList r d
end

/-- `deserializeGroup` succeeds (the top level is a group) -/
def Grp.wfTop : Grp → Bool
  | .id _ => false
  | g => g.wf 0

mutual
/-- `validateMembers`: every member ID is registered and has a first key -/
def validateMembers (env : Env) (w : World) : Grp → Bool
  | .id i => env.encodable i && (w i).status == .valid && (getPk (w i).keys 1).isSome
  | .sub ms _ => validateList env w ms
def validateList (env : Env) (w : World) : List Grp → Bool
  | [] => true
  | m :: r => validateMembers env w m && validateList env w r
end

/-- `verifyGroupSignature`: the threshold is met by the signer IDs and *every* listed signer is witnessed by a
non-revoked authentication key of its identity -/
def verifyGroupSignature (env : Env) (tx : Tx) (w : World) (g : Grp) (ss : List Signer) : Bool :=
  verifyThreshold (ss.map (·.1)) g &&
  ss.all (fun s => env.encodable s.1 && checkWitnessByIndex env tx w s.1 (u32 s.2))

/-! ## controller.go -/

/-- `verifySingleController` -/
def verifySingleController (env : Env) (tx : Tx) (w : World) (cid : Bytes) (p : Proof) : Bool :=
  match p.asIndex with
  | none => false
  | some i => env.encodable cid && checkWitnessByIndex env tx w cid (u32 i)

/-- `verifyGroupController` -/
def verifyGroupController (env : Env) (tx : Tx) (w : World) (g : Grp) (p : Proof) : Bool :=
  match p.asSigners with
  | none => false
  | some ss => verifyGroupSignature env tx w g ss

/-- `verifyControllerSignature` -/
def verifyControllerSignature (env : Env) (tx : Tx) (w : World) (id : Bytes) (p : Proof) : Bool :=
  match (w id).ctrl with
  | none => false
  | some (.single cid) => verifySingleController env tx w cid p
  | some (.group g) => verifyGroupController env tx w g p

/-! ## what each method demands and does -/

/-- how `addKey` / `removeKey` / `addAttributes` … treat the deprecated recovery address -/
inductive RecMode where
  /-- not consulted (`addAttributes`, `removeAttribute`, `addRecovery`) -/
  | never
  /-- `addKey`: `rec, _ := getOldRecovery(...)` — a version-1 item is silently "no recovery" -/
  | lenient
  /-- `removeKey`: a version-1 item is an error -/
  | strict
  deriving DecidableEq, Repr

/-- the authorization a method demands -/
inductive AuthReq where
  /-- `checkWitnessByIndex(encId, uint32(idx))` -/
  | keyIdx (i : Nat)
  /-- `checkWitnessWithoutAuth` -/
  | keyIdxNoAuth (i : Nat)
  /-- `checkWitness(opk)` and (`isOwner(opk)` or `opk` is the deprecated recovery address) -/
  | ownerPk (opk : Bytes) (m : RecMode)
  /-- `verifyControllerSignature` -/
  | controller (p : Proof)
  /-- `getRecovery` (version 1) + `verifyGroupSignature` -/
  | recovery (p : Proof)
  /-- `changeRecovery`: the operator is the stored deprecated recovery address and witnesses -/
  | oldRecovery (addr : Bytes)
  /-- registration with a key: `CheckWitness(AddressFromPubKey(pk))` -/
  | regPk (pk : Bytes)
  /-- registration under a controller -/
  | regCtrl (c : CtrlArg) (p : Proof)
  /-- `addProof`: always refused -/
  | deny

def authOk (env : Env) (tx : Tx) (w : World) (id : Bytes) : AuthReq → Bool
  | .keyIdx i => checkWitnessByIndex env tx w id (u32 i)
  | .keyIdxNoAuth i => checkWitnessNoAuth env tx w id (u32 i)
  | .ownerPk opk m =>
    checkWitness env tx opk &&
    (match m, (w id).recov with
     | .never, _ => isOwner (w id).keys opk
     | _, .old a => (!a.isEmpty && a == opk) || isOwner (w id).keys opk
     | .lenient, _ => isOwner (w id).keys opk
     | .strict, .none => isOwner (w id).keys opk
     | .strict, .grp _ => false)
  | .controller p => verifyControllerSignature env tx w id p
  | .recovery p =>
    (match (w id).recov, p.asSigners with
     | .grp g, some ss => verifyGroupSignature env tx w g ss
     | _, _ => false)
  | .oldRecovery addr =>
    (match (w id).recov with
     | .old a => a == addr && checkWitness env tx addr
     | _ => false)
  | .regPk pk => env.validPk pk && tx.wit.contains (env.addrOf pk)
  | .regCtrl c p =>
    (match c with
     | .single cid => env.validId cid && verifySingleController env tx w cid p
     | .group g => g.wfTop && verifyGroupController env tx w g p
     | .malformed => false)
  | .deny => false

/-- what a method writes once authorized -/
inductive Eff where
  /-- `verifySignature` / `verifyController` -/
  | nop
  /-- `regIDWithPublicKey` (auth = true, no attributes) / `regIDWithAttributes` (auth = false) -/
  | regKey (pk : Bytes) (isAuth : Bool) (attrs : List (Bytes × Bytes))
  | regCtrl (c : CtrlArg)
  /-- `insertPk(pk, controller-or-id, isPkList, isAuth)` -/
  | insertKey (pk : Bytes) (kc : Option Bytes) (isPkList isAuth : Bool)
  | revokeKey (pk : Bytes)
  | revokeKeyIdx (i : Nat)
  | setAuth (i : Nat) (b : Bool)
  | insertAttrs (l : List (Bytes × Bytes))
  | deleteAttr (path : Bytes)
  | clearCtrl
  | clearRec
  /-- `putRecovery`; `guardSet`: refuse when a version-1 recovery exists (`setRecovery`) -/
  | setRecGrp (g : Option Grp) (guardSet : Bool)
  /-- `setOldRecovery`; `guardSet`: refuse when a version-0 recovery exists (`addRecovery`) -/
  | setRecOld (addr : Bytes) (guardSet : Bool)
  | deleteID
  | addSvc (sid payload : Bytes)
  | updSvc (sid payload : Bytes)
  | rmSvc (sid : Bytes)
  | addCtx (l : List Bytes)
  | rmCtx (l : List Bytes)

def Eff.isNop : Eff → Bool
  | .nop => true
  | _ => false

/-- `LinkedlistInsert`: update in place, or new head -/
def attrInsert (l : List (Bytes × Bytes)) (k v : Bytes) : List (Bytes × Bytes) :=
  if l.any (fun e => e.1 == k) then l.map (fun e => if e.1 == k then (k, v) else e) else (k, v) :: l

/-- `batchInsertAttr`: an empty key is `item == nil`; more than `MAX_NUM` items afterwards is an error -/
def batchInsertAttr : List (Bytes × Bytes) → List (Bytes × Bytes) → Option (List (Bytes × Bytes))
  | l, [] => if l.length > 100 then none else some l
  | l, (k, v) :: r => if k.isEmpty then none else batchInsertAttr (attrInsert l k v) r

/-- `removeDuplicate` of context.go (first occurrences are kept) -/
def dedup : List Bytes → List Bytes → List Bytes
  | [], acc => acc.reverse
  | c :: r, acc => if acc.contains c then dedup r acc else dedup r (c :: acc)

def defaultContexts : List Bytes :=
  ["https://www.w3.org/ns/did/v1".toUTF8.toList, "https://ontid.ont.io/did/v1".toUTF8.toList]

/-- `putContexts` -/
def putContexts (stored params : List Bytes) : List Bytes :=
  stored ++ (dedup params []).filter (fun c => !defaultContexts.contains c && !stored.contains c)

/-- `updateService`: the first entry with this id is replaced -/
def svcReplace : List (Bytes × Bytes) → Bytes → Bytes → Option (List (Bytes × Bytes))
  | [], _, _ => none
  | e :: r, sid, pl => if e.1 == sid then some ((sid, pl) :: r) else (svcReplace r sid pl).map (e :: ·)

/-- `removeService`: the first entry with this id is removed -/
def svcRemove : List (Bytes × Bytes) → Bytes → Option (List (Bytes × Bytes))
  | [], _ => none
  | e :: r, sid => if e.1 == sid then some r else (svcRemove r sid).map (e :: ·)

/-- `deleteID` -/
def deleted (tx : Tx) (x : Ident) : Ident :=
  { status := .revoked, keys := [], ctrl := none, recov := .none, attrs := [],
    svcs := if tx.newApi then [] else x.svcs, ctxs := if tx.newApi then [] else x.ctxs }

def CtrlArg.toCtrl : CtrlArg → Option Ctrl
  | .single i => some (.single i)
  | .group g => some (.group g)
  | .malformed => none

def applyEff (env : Env) (tx : Tx) (w : World) (id : Bytes) : Eff → EffRes
  | .nop => .ok (w id)
  | .regKey pk isAuth attrs =>
    match insertPk tx id (w id).keys pk id true isAuth with
    | none => .fail
    | some ks =>
      match batchInsertAttr (w id).attrs attrs with
      | none => .fail
      | some as => .ok { (w id) with keys := ks, attrs := as, status := .valid }
  | .regCtrl c =>
    match c.toCtrl with
    | none => .fail
    | some c => .ok { (w id) with ctrl := some c, status := .valid }
  | .insertKey pk kc isPkList isAuth =>
    match insertPk tx id (w id).keys pk (kc.getD id) isPkList isAuth with
    | none => .fail
    | some ks => .ok { (w id) with keys := ks }
  | .revokeKey pk =>
    match revokePk (w id).keys pk with
    | none => .fail
    | some ks => .ok { (w id) with keys := ks }
  | .revokeKeyIdx i =>
    match revokePkByIndex (w id).keys (u32 i) with
    | none => .fail
    | some ks => .ok { (w id) with keys := ks }
  | .setAuth i b =>
    match changePkAuth (w id).keys (u32 i) b with
    | none => .fail
    | some ks => .ok { (w id) with keys := ks }
  | .insertAttrs l =>
    match batchInsertAttr (w id).attrs l with
    | none => .fail
    | some as => .ok { (w id) with attrs := as }
  | .deleteAttr p =>
    if p.isEmpty then .fail
    else if (w id).attrs.any (fun e => e.1 == p) then .ok { (w id) with attrs := (w id).attrs.filter (fun e => !(e.1 == p)) }
    else .fail
  | .clearCtrl => .ok { (w id) with ctrl := none }
  | .clearRec => .ok { (w id) with recov := .none }
  | .setRecGrp g guardSet =>
    if guardSet && (w id).recov.isGrp then .fail
    else match g with
      | none => .fail
      | some g => if g.wfTop && validateMembers env w g then .ok { (w id) with recov := .grp g } else .fail
  | .setRecOld addr guardSet =>
    if guardSet && (w id).recov.isOldSet then .fail else .ok { (w id) with recov := .old addr }
  | .deleteID => .ok (deleted tx (w id))
  | .addSvc sid pl =>
    if (w id).svcs.any (fun e => e.1 == sid) then .fail else .ok { (w id) with svcs := (w id).svcs ++ [(sid, pl)] }
  | .updSvc sid pl =>
    match svcReplace (w id).svcs sid pl with
    | none => .fail
    | some l => .ok { (w id) with svcs := l }
  | .rmSvc sid =>
    match svcRemove (w id).svcs sid with
    | none => .fail
    | some l => .ok { (w id) with svcs := l }
  | .addCtx l => .ok { (w id) with ctxs := putContexts (w id).ctxs l }
  | .rmCtx l => .ok { (w id) with ctxs := (w id).ctxs.filter (fun c => !l.contains c) }

/-- the methods of `RegisterIDContract`; arguments are the decoded `srvc.Input` -/
inductive Op where
  | regIDWithPublicKey (id pk : Bytes)
  | regIDWithController (id : Bytes) (c : CtrlArg) (p : Proof)
  | regIDWithAttributes (id pk : Bytes) (attrs : List (Bytes × Bytes))
  | revokeID (id : Bytes) (idx : Nat)
  | revokeIDByController (id : Bytes) (p : Proof)
  | removeController (id : Bytes) (idx : Nat)
  | addRecovery (id addr opk : Bytes)
  | changeRecovery (id newAddr oldAddr : Bytes)
  | setRecovery (id : Bytes) (g : Option Grp) (idx : Nat)
  | updateRecovery (id : Bytes) (g : Option Grp) (p : Proof)
  | removeRecovery (id : Bytes) (idx : Nat)
  | addKey (id pk opk : Bytes) (kc : Option Bytes)
  | removeKey (id pk opk : Bytes)
  | addKeyByIndex (id pk : Bytes) (idx : Nat) (kc : Option Bytes)
  | removeKeyByIndex (id pk : Bytes) (idx : Nat)
  | addKeyByController (id pk : Bytes) (p : Proof) (kc : Option Bytes)
  | removeKeyByController (id : Bytes) (kidx : Nat) (p : Proof)
  | addKeyByRecovery (id pk : Bytes) (p : Proof) (kc : Option Bytes)
  | removeKeyByRecovery (id : Bytes) (kidx : Nat) (p : Proof)
  | addAttributes (id : Bytes) (attrs : List (Bytes × Bytes)) (opk : Bytes)
  | removeAttribute (id path opk : Bytes)
  | addAttributesByIndex (id : Bytes) (attrs : List (Bytes × Bytes)) (idx : Nat)
  | removeAttributeByIndex (id path : Bytes) (idx : Nat)
  | addAttributesByController (id : Bytes) (attrs : List (Bytes × Bytes)) (p : Proof)
  | removeAttributeByController (id path : Bytes) (p : Proof)
  | addNewAuthKey (id pk kc : Bytes) (idx : Nat)
  | addNewAuthKeyByRecovery (id pk kc : Bytes) (p : Proof)
  | addNewAuthKeyByController (id pk kc : Bytes) (p : Proof)
  | setAuthKey (id : Bytes) (kidx idx : Nat)
  | setAuthKeyByRecovery (id : Bytes) (kidx : Nat) (p : Proof)
  | setAuthKeyByController (id : Bytes) (kidx : Nat) (p : Proof)
  | removeAuthKey (id : Bytes) (kidx idx : Nat)
  | removeAuthKeyByRecovery (id : Bytes) (kidx : Nat) (p : Proof)
  | removeAuthKeyByController (id : Bytes) (kidx : Nat) (p : Proof)
  | addService (id sid payload : Bytes) (idx : Nat)
  | updateService (id sid payload : Bytes) (idx : Nat)
  | removeService (id sid : Bytes) (idx : Nat)
  | addContext (id : Bytes) (l : List Bytes) (idx : Nat)
  | removeContext (id : Bytes) (l : List Bytes) (idx : Nat)
  | addProof (id : Bytes)
  | verifySignature (id : Bytes) (idx : Nat)
  | verifyController (id : Bytes) (p : Proof)

/-- one row of the method table -/
structure Plan where
  /-- the identity whose records the method reads the authorization from and writes to -/
  id : Bytes
  /-- registered only when `Height >= GetNewOntIdHeight()` -/
  newOnly : Bool
  /-- registration (`checkIDState == flag_not_exist`, `VerifyID`) or modification (`isValid`) -/
  reg : Bool
  /-- argument checks that do not look at the state (`DeserializePublicKey` of a key to add, address parsing) -/
  pre : Bool
  auth : AuthReq
  eff : Eff

/-- the method table: target, availability, argument checks, demanded authorization, effect -/
def plan (env : Env) : Op → Plan
  | .regIDWithPublicKey id pk => ⟨id, false, true, !pk.isEmpty, .regPk pk, .regKey pk true []⟩
  | .regIDWithController id c p => ⟨id, false, true, true, .regCtrl c p, .regCtrl c⟩
  | .regIDWithAttributes id pk attrs => ⟨id, false, true, true, .regPk pk, .regKey pk false attrs⟩
  | .revokeID id idx => ⟨id, false, false, true, .keyIdx idx, .deleteID⟩
  | .revokeIDByController id p => ⟨id, false, false, true, .controller p, .deleteID⟩
  | .removeController id idx => ⟨id, false, false, true, .keyIdx idx, .clearCtrl⟩
  | .addRecovery id addr opk => ⟨id, false, false, env.isAddr addr, .ownerPk opk .never, .setRecOld addr true⟩
  | .changeRecovery id na oa => ⟨id, false, false, env.isAddr na && env.isAddr oa, .oldRecovery oa, .setRecOld na false⟩
  | .setRecovery id g idx => ⟨id, false, false, true, .keyIdx idx, .setRecGrp g true⟩
  | .updateRecovery id g p => ⟨id, false, false, true, .recovery p, .setRecGrp g false⟩
  | .removeRecovery id idx => ⟨id, true, false, true, .keyIdx idx, .clearRec⟩
  | .addKey id pk opk kc => ⟨id, false, false, env.validPk pk, .ownerPk opk .lenient, .insertKey pk kc true false⟩
  | .removeKey id pk opk => ⟨id, false, false, true, .ownerPk opk .strict, .revokeKey pk⟩
  | .addKeyByIndex id pk idx kc => ⟨id, true, false, env.validPk pk, .keyIdx idx, .insertKey pk kc true false⟩
  | .removeKeyByIndex id pk idx => ⟨id, true, false, true, .keyIdx idx, .revokeKey pk⟩
  | .addKeyByController id pk p kc => ⟨id, false, false, env.validPk pk, .controller p, .insertKey pk kc true false⟩
  | .removeKeyByController id kidx p => ⟨id, false, false, true, .controller p, .revokeKeyIdx kidx⟩
  | .addKeyByRecovery id pk p kc => ⟨id, false, false, env.validPk pk, .recovery p, .insertKey pk kc true false⟩
  | .removeKeyByRecovery id kidx p => ⟨id, false, false, true, .recovery p, .revokeKeyIdx kidx⟩
  | .addAttributes id attrs opk => ⟨id, false, false, true, .ownerPk opk .never, .insertAttrs attrs⟩
  | .removeAttribute id path opk => ⟨id, false, false, true, .ownerPk opk .never, .deleteAttr path⟩
  | .addAttributesByIndex id attrs idx => ⟨id, true, false, true, .keyIdx idx, .insertAttrs attrs⟩
  | .removeAttributeByIndex id path idx => ⟨id, true, false, true, .keyIdx idx, .deleteAttr path⟩
  | .addAttributesByController id attrs p => ⟨id, false, false, true, .controller p, .insertAttrs attrs⟩
  | .removeAttributeByController id path p => ⟨id, false, false, true, .controller p, .deleteAttr path⟩
  | .addNewAuthKey id pk kc idx => ⟨id, true, false, env.validPk pk, .keyIdx idx, .insertKey pk (some kc) false true⟩
  | .addNewAuthKeyByRecovery id pk kc p => ⟨id, true, false, env.validPk pk, .recovery p, .insertKey pk (some kc) false true⟩
  | .addNewAuthKeyByController id pk kc p => ⟨id, true, false, env.validPk pk, .controller p, .insertKey pk (some kc) false true⟩
  | .setAuthKey id kidx idx => ⟨id, true, false, true, .keyIdx idx, .setAuth kidx true⟩
  | .setAuthKeyByRecovery id kidx p => ⟨id, true, false, true, .recovery p, .setAuth kidx true⟩
  | .setAuthKeyByController id kidx p => ⟨id, true, false, true, .controller p, .setAuth kidx true⟩
  | .removeAuthKey id kidx idx => ⟨id, true, false, true, .keyIdx idx, .setAuth kidx false⟩
  | .removeAuthKeyByRecovery id kidx p => ⟨id, true, false, true, .recovery p, .setAuth kidx false⟩
  | .removeAuthKeyByController id kidx p => ⟨id, true, false, true, .controller p, .setAuth kidx false⟩
  | .addService id sid pl idx => ⟨id, true, false, true, .keyIdx idx, .addSvc sid pl⟩
  | .updateService id sid pl idx => ⟨id, true, false, true, .keyIdx idx, .updSvc sid pl⟩
  | .removeService id sid idx => ⟨id, true, false, true, .keyIdx idx, .rmSvc sid⟩
  | .addContext id l idx => ⟨id, true, false, true, .keyIdx idx, .addCtx l⟩
  | .removeContext id l idx => ⟨id, true, false, true, .keyIdx idx, .rmCtx l⟩
  | .addProof id => ⟨id, true, false, true, .deny, .nop⟩
  | .verifySignature id idx => ⟨id, false, false, true, .keyIdxNoAuth idx, .nop⟩
  | .verifyController id p => ⟨id, false, false, true, .controller p, .nop⟩

/-- `checkIDState` guard of a method -/
def statusOk (env : Env) (w : World) (p : Plan) : Bool :=
  if p.reg then env.validId p.id && env.encodable p.id && (w p.id).status == .absent
  else env.encodable p.id && (w p.id).status == .valid

/-- one native invocation. Failure leaves the storage as it was (transaction rollback). -/
def step (env : Env) (tx : Tx) (w : World) (op : Op) : World × Result :=
  let p := plan env op
  if p.newOnly && !tx.newApi then (w, .fail)
  else if !p.pre then (w, .fail)
  else if !statusOk env w p then (w, .fail)
  else if !authOk env tx w p.id p.auth then (w, .fail)
  else match applyEff env tx w p.id p.eff with
    | .ok x => (w.set p.id x, .ok)
    | .fail => (w, .fail)

/-- a history: each invocation comes with its own transaction (witness set, height side) -/
abbrev History := List (Tx × Op)

/-- state after a history -/
def run (env : Env) (w : World) : History → World
  | [] => w
  | (tx, op) :: r => run env (step env tx w op).1 r

/-- one entry of the execution trace -/
structure Event where
  pre : World
  tx : Tx
  op : Op
  res : Result
  post : World

/-- the execution trace of a history -/
def trace (env : Env) (w : World) : History → List Event
  | [] => []
  | (tx, op) :: r =>
    let s := step env tx w op
    { pre := w, tx := tx, op := op, res := s.2, post := s.1 } :: trace env s.1 r

/-! ## Specification vocabulary (independent of the executable checks above) -/

/-- the transaction is witnessed for this key (as a public key or, for a bare address, as itself) -/
def Witnessed (env : Env) (tx : Tx) (key : Bytes) : Prop :=
  (env.validPk key = true ∧ env.addrOf key ∈ tx.wit) ∨ (env.isAddr key = true ∧ key ∈ tx.wit)

/-- key number `idx` (1-based, after the uint32 truncation) of identity `id` exists, is not revoked, has
authentication rights, and the transaction is witnessed for it -/
def KeyWitness (env : Env) (tx : Tx) (w : World) (id : Bytes) (idx : Nat) : Prop :=
  ∃ k, 1 ≤ u32 idx ∧ (w id).keys[u32 idx - 1]? = some k ∧ k.revoked = false ∧ k.isAuth = true ∧ Witnessed env tx k.key

/-- a valid group proof: the signer IDs meet the (recursive) threshold of the group and every listed signer is a
`KeyWitness` of its own identity -/
def GroupProof (env : Env) (tx : Tx) (w : World) (g : Grp) (ss : List Signer) : Prop :=
  verifyThreshold (ss.map (·.1)) g = true ∧ ∀ s ∈ ss, KeyWitness env tx w s.1 s.2

/-- a valid proof for a controller `c` -/
def CtrlProof (env : Env) (tx : Tx) (w : World) (c : Ctrl) (p : Proof) : Prop :=
  match c with
  | .single cid => ∃ i, p.asIndex = some i ∧ KeyWitness env tx w cid i
  | .group g => ∃ ss, p.asSigners = some ss ∧ GroupProof env tx w g ss

/-- the authorization statement of C45 for a demanded authorization on identity `id` in state `w` -/
def Authorized (env : Env) (tx : Tx) (w : World) (id : Bytes) : AuthReq → Prop
  | .keyIdx i => KeyWitness env tx w id i
  | .keyIdxNoAuth _ => True
  | .ownerPk opk m =>
    Witnessed env tx opk ∧
    ((∃ k ∈ (w id).keys, k.key = opk ∧ k.revoked = false ∧ k.isAuth = true) ∨
     (m ≠ .never ∧ (w id).recov = .old opk))
  | .controller p => ∃ c, (w id).ctrl = some c ∧ CtrlProof env tx w c p
  | .recovery p => ∃ g ss, (w id).recov = .grp g ∧ p.asSigners = some ss ∧ GroupProof env tx w g ss
  | .oldRecovery addr => (w id).recov = .old addr ∧ Witnessed env tx addr
  | .regPk pk => env.validPk pk = true ∧ env.addrOf pk ∈ tx.wit
  | .regCtrl c p => ∃ c', c.toCtrl = some c' ∧ CtrlProof env tx w c' p
  | .deny => False

/-! ### group vocabulary -/

mutual
/-- the identities that occur in a group -/
def Grp.leaves : Grp → List Bytes
  | .id i => [i]
  | .sub ms _ => Grp.leavesList ms
def Grp.leavesList : List Grp → List Bytes
  | [] => []
  | m :: r => m.leaves ++ Grp.leavesList r
end

mutual
/-- every threshold in the tree is at least 1 (a threshold of 0 is satisfied by nobody signing) -/
def Grp.strict : Grp → Bool
  | .id _ => true
  | .sub ms thr => decide (1 ≤ thr) && Grp.strictList ms
def Grp.strictList : List Grp → Bool
  | [] => true
  | m :: r => m.strict && Grp.strictList r
end

/-- the identity a method reads its authorization from and writes to -/
def Op.target (env : Env) (op : Op) : Bytes := (plan env op).id

/-- the method can write (everything but `verifySignature`, `verifyController` and the always-failing `addProof`) -/
def Op.mutating (env : Env) (op : Op) : Bool := !(plan env op).eff.isNop

/-- the identity-state requirement: registrations need an unregistered, well-formed ID; everything else a valid one -/
def StatusReq (env : Env) (w : World) (op : Op) : Prop :=
  if (plan env op).reg = true then (w (op.target env)).status = .absent ∧ env.validId (op.target env) = true
  else (w (op.target env)).status = .valid

end OntVerif.Model.OntId
