import OntVerif.Gen.Quorum
/-!
# Model of the add-block pipeline of `core/store/ledgerstore/ledger_store.go` (C39)

`AddBlock` → `verifyHeader` → `saveBlock` → `executeBlock` → `submitBlock` → `saveBlockTo{Block,State,Event}Store` → three
`CommitTo` → `setCurrentBlock`, preceded (for a block that arrives as bytes) by the checks of `types.Block.Deserialization`.

The pipeline is a **list of steps in source order**.  A step is a guard (`if … { return err }`), a stop
(`if … { return nil }`) or an effect (a statement that changes memory or a store).  `run` executes the list the way Go executes
the statements: an effect that was executed before a failing guard *stays executed*.  "A rejected block changes nothing" is
therefore a theorem about the ORDER of the list (`Props/C39.lean`): it fails to check as soon as a guard is moved behind an effect.

Hashes, signatures, the merkle accumulators and contract execution are abstract functions (`Prims`).  Core-only, executable.
Solo / dBFT branch of `verifyHeader` (the VBFT branch is C32's).  `ccMsg = nil`.  Block pruning disabled (the default).
Store I/O errors after the guards are not modelled (C01's subject).
-/
namespace OntVerif.Model.AddBlock

abbrev Hash := List Nat
abbrev Tx := Nat
/-- contract state of the state store, abstract -/
abbrev St := List Nat

def u32 : Nat := 4294967296

structure Sig where
  key : Nat      -- the key that produced it
  msg : Hash     -- the digest it signs
  wf : Bool      -- `signature.Deserialize` succeeds
  deriving Repr, DecidableEq

/-- the hash-covered part of `types.Header` (`serializationUnsigned`) -/
structure Unsigned where
  version : Nat
  prev : Hash
  txRoot : Hash
  blockRoot : Hash
  ts : Nat
  height : Nat
  consData : Nat
  payload : List Nat
  nextBk : Nat
  deriving Repr, DecidableEq

structure Hdr where
  u : Unsigned
  keys : List Nat      -- Bookkeepers
  sigs : List Sig      -- SigData
  deriving Repr, DecidableEq

structure Block where
  hdr : Hdr
  txs : List Tx
  deriving Repr, DecidableEq

/-- abstract primitives -/
structure Prims where
  hdrHash : Unsigned → Hash                       -- Header.Hash
  txHash : Tx → Hash                              -- Transaction.Hash
  merkleRoot : List Hash → Hash                   -- common.ComputeMerkleRoot
  rootWith : List Hash → Hash → Hash              -- CompactMerkleTree.GetRootWithNewLeaves (block-root tree, one new leaf)
  stateRootWith : List Hash → Hash → Hash         -- deltaMerkleTree.GetRootWithNewLeaf
  addrOf : List Nat → Option Nat                  -- types.AddressFromBookkeepers (none = error)
  verify : Nat → Hash → Sig → Bool                -- signature.Verify key data sig
  exec : St → Unsigned → List Tx → Option (Hash × St)   -- executeBlock: (write-set hash, state after); none = execution infrastructure error

/-- one key/value write of a store batch -/
inductive W
  | curBlock (h : Nat) (hash : Hash)                       -- SYS_CURRENT_BLOCK
  | blockHash (h : Nat) (hash : Hash)                      -- DATA_BLOCK_HASH
  | header (hash : Hash) (hdr : Hdr) (txs : List Hash)     -- DATA_HEADER
  | tx (hash : Hash) (tx : Tx) (h : Nat)                   -- DATA_TRANSACTION
  | bloom (h : Nat)                                        -- DATA_BLOOM
  | stateTree (leaves : List Hash)                         -- SYS_STATE_MERKLE_TREE
  | stateRoot (h : Nat) (ws root : Hash)                   -- DATA_STATE_MERKLE_ROOT
  | blockTree (leaves : List Hash)                         -- SYS_BLOCK_MERKLE_TREE
  | state (st : St)                                        -- the write set, applied
  | notify (tx : Hash)                                     -- event store: notify of one tx
  | evBlock (h : Nat) (txs : List Hash)                    -- event store: tx list of a block
  deriving Repr, DecidableEq

/-- a LevelDB store = its committed writes, newest first (a later put shadows an earlier one) -/
structure Disk where
  block : List W
  state : List W
  event : List W
  deriving Repr, DecidableEq

structure Mem where
  curHeight : Nat                     -- currBlockHeight
  curHash : Hash                      -- currBlockHash
  hdrIndex : List (Nat × Hash)        -- headerIndexCache.headerIndex (newest first)
  hdrLast : Nat                       -- headerIndexCache.lastIndex
  hdrCache : List (Hash × Hdr)        -- headerCache (headers received ahead of their blocks)
  blockLeaves : List Hash             -- stateStore.merkleTree (+ merkle_tree.db hash file): the tx roots appended so far
  deltaLeaves : List Hash             -- stateStore.deltaMerkleTree
  closing : Bool
  bBlock : List W                     -- open batches (newest first)
  bState : List W
  bEvent : List W
  deriving Repr, DecidableEq

structure Ledger where
  disk : Disk
  mem : Mem
  deriving Repr, DecidableEq

inductive Err
  | decode | dupTx | txRoot                                   -- types.Block.Deserialization
  | notNext                                                   -- AddBlock / SubmitBlock / ExecuteBlock / AddHeader: height ≠ next
  | prevTip                                                   -- AddBlock / SubmitBlock: prev hash ≠ current block hash
  | prevUnknown | prevHeight | timestamp | bkAddr | bkMismatch | sigCount | sigInvalid   -- verifyHeader
  | closing | exec | stateRoot                                -- saveBlock
  | blockRoot                                                 -- submitBlock
  deriving Repr, DecidableEq

inductive Outcome
  | added                    -- nil error, block committed
  | ignored                  -- nil error, nothing done (`return nil` on a stale height)
  | rejected (e : Err)
  deriving Repr, DecidableEq

inductive Step
  | guard (site : String) (chk : Ledger → Option Err)
  | stop (site : String) (cond : Ledger → Bool)
  | effect (site : String) (f : Ledger → Ledger)

def Step.site : Step → String
  | .guard s _ => s
  | .stop s _ => s
  | .effect s _ => s

def Step.isEffect : Step → Bool
  | .effect _ _ => true
  | _ => false

/-- Go statement order: effects executed before a failing guard are kept -/
def run : List Step → Ledger → Outcome × Ledger
  | [], l => (.added, l)
  | .guard _ c :: r, l =>
    match c l with
    | some e => (.rejected e, l)
    | none => run r l
  | .stop _ c :: r, l => if c l then (.ignored, l) else run r l
  | .effect _ f :: r, l => run r (f l)

/-! ## reads -/

def findHeaderW (hash : Hash) : List W → Option Hdr
  | [] => none
  | .header h hdr _ :: r => if h = hash then some hdr else findHeaderW hash r
  | _ :: r => findHeaderW hash r

def findCache (hash : Hash) : List (Hash × Hdr) → Option Hdr
  | [] => none
  | (h, hdr) :: r => if h = hash then some hdr else findCache hash r

/-- `GetHeaderByHash`: header cache first, then the block store (its LRU block cache only mirrors the store) -/
def lookupHeader (l : Ledger) (hash : Hash) : Option Hdr :=
  match findCache hash l.mem.hdrCache with
  | some h => some h
  | none => findHeaderW hash l.disk.block

def curState : List W → St
  | [] => []
  | .state st :: _ => st
  | _ :: r => curState r

def execRes (P : Prims) (l : Ledger) (b : Block) : Option (Hash × St) :=
  P.exec (curState l.disk.state) b.hdr.u b.txs

def hasDup : List Hash → Bool
  | [] => false
  | h :: r => r.contains h || hasDup r

def removeFirst (p : Nat → Bool) : List Nat → Option (List Nat)
  | [] => none
  | k :: r => if p k then some r else (removeFirst p r).map (k :: ·)

/-- the loop of `signature.VerifyMultiSignature`: the first `m` signatures must each parse and verify under a
not-yet-used key (first match in key order is consumed) -/
def verifyLoop (P : Prims) (data : Hash) : Nat → List Sig → List Nat → Option Err
  | 0, _, _ => none
  | _ + 1, [], _ => some .sigCount
  | m + 1, s :: ss, ks =>
    if !s.wf then some .sigInvalid
    else match removeFirst (fun k => P.verify k data s) ks with
      | none => some .sigInvalid
      | some ks' => verifyLoop P data m ss ks'

def verifyMulti (P : Prims) (data : Hash) (keys : List Nat) (m : Nat) (sigs : List Sig) : Option Err :=
  if sigs.length < m then some .sigCount else verifyLoop P data m sigs keys

/-! ## the steps, in source order -/

/-- `types.Block.Deserialization` after the header and the transactions parsed: duplicate check (inside the loop),
then the transaction root -/
def decodeSteps (P : Prims) (b : Block) : List Step :=
  [ .guard "Block.Deserialization: mask[txhash]" (fun _ => if hasDup (b.txs.map P.txHash) then some .dupTx else none),
    .guard "Block.Deserialization: self.Header.TransactionsRoot != root"
      (fun _ => if b.hdr.u.txRoot ≠ P.merkleRoot (b.txs.map P.txHash) then some .txRoot else none) ]

/-- `verifyHeader`, non-VBFT branch (`header.Height == 0 → return nil` is unreachable behind the next-height guard) -/
def verifyHeaderSteps (P : Prims) (h : Hdr) : List Step :=
  [ .guard "GetHeaderByHash#0==nil" (fun l => if (lookupHeader l h.u.prev).isNone then some .prevUnknown else none),
    .guard "GetHeaderByHash#0.Height+1!=header.Height"
      (fun l => match lookupHeader l h.u.prev with
        | some ph => if (ph.u.height + 1) % u32 ≠ h.u.height then some .prevHeight else none
        | none => none),
    .guard "GetHeaderByHash#0.Timestamp>=header.Timestamp"
      (fun l => match lookupHeader l h.u.prev with
        | some ph => if ph.u.ts ≥ h.u.ts then some .timestamp else none
        | none => none),
    .guard "AddressFromBookkeepers" (fun _ => if (P.addrOf h.keys).isNone then some .bkAddr else none),
    .guard "GetHeaderByHash#0.NextBookkeeper!=AddressFromBookkeepers#0"
      (fun l => match lookupHeader l h.u.prev, P.addrOf h.keys with
        | some ph, some a => if ph.u.nextBk ≠ a then some .bkMismatch else none
        | _, _ => none),
    .guard "VerifyMultiSignature"
      (fun _ => verifyMulti P (P.hdrHash h.u) h.keys (OntVerif.Gen.Quorum.ledgerStore_m h.keys.length) h.sigs) ]

def putBlock (w : W) (l : Ledger) : Ledger := { l with mem := { l.mem with bBlock := w :: l.mem.bBlock } }
def putState (w : W) (l : Ledger) : Ledger := { l with mem := { l.mem with bState := w :: l.mem.bState } }
def putEvent (w : W) (l : Ledger) : Ledger := { l with mem := { l.mem with bEvent := w :: l.mem.bEvent } }

def setHeaderIndex (h : Nat) (hash : Hash) (l : Ledger) : Ledger :=
  { l with mem := { l.mem with hdrIndex := (h, hash) :: l.mem.hdrIndex, hdrLast := if l.mem.hdrLast < h then h else l.mem.hdrLast } }

/-- `submitBlock` (with `saveBlockToBlockStore`, `saveBlockToStateStore`, `saveBlockToEventStore` inlined) -/
def submitSteps (P : Prims) (b : Block) : List Step :=
  let hash := P.hdrHash b.hdr.u
  let h := b.hdr.u.height
  let txHashes := b.txs.map P.txHash
  [ .guard "header.Height!=0&&this.GetBlockRootWithNewTxRoots(header.Height,[]common.Uint256{header.TransactionsRoot})!=header.BlockRoot"
      (fun l => if h ≠ 0 ∧ P.rootWith l.mem.blockLeaves b.hdr.u.txRoot ≠ b.hdr.u.blockRoot then some .blockRoot else none),
    .effect "this.blockStore.NewBatch" (fun l => { l with mem := { l.mem with bBlock := [] } }),
    .effect "this.stateStore.NewBatch" (fun l => { l with mem := { l.mem with bState := [] } }),
    .effect "this.eventStore.NewBatch" (fun l => { l with mem := { l.mem with bEvent := [] } }),
    .effect "this.setHeaderIndex" (setHeaderIndex h hash),
    .effect "this.blockStore.SaveCurrentBlock" (putBlock (.curBlock h hash)),
    .effect "this.blockStore.SaveBlockHash" (putBlock (.blockHash h hash)),
    .effect "this.blockStore.SaveBlock"      -- SaveHeader, then SaveTransaction for every transaction
      (fun l => b.txs.foldl (fun l t => putBlock (.tx (P.txHash t) t h) l) (putBlock (.header hash b.hdr txHashes) l)),
    .effect "this.blockStore.SaveBloomData" (putBlock (.bloom h)),
    .effect "SaveNotify" (fun l => txHashes.foldl (fun l t => putEvent (.notify t) l) l),
    .effect "this.stateStore.AddStateMerkleTreeRoot"
      (fun l => match execRes P l b with
        | some (ws, _) =>
          let leaves := l.mem.deltaLeaves ++ [ws]
          putState (.stateRoot h ws (P.stateRootWith l.mem.deltaLeaves ws))
            (putState (.stateTree leaves) { l with mem := { l.mem with deltaLeaves := leaves } })
        | none => l),
    .effect "this.stateStore.AddBlockMerkleTreeRoot"
      (fun l => let leaves := l.mem.blockLeaves ++ [b.hdr.u.txRoot]
        putState (.blockTree leaves) { l with mem := { l.mem with blockLeaves := leaves } }),
    .effect "this.stateStore.SaveCurrentBlock" (putState (.curBlock h hash)),
    .effect ".WriteSet.ForEach"
      (fun l => match execRes P l b with
        | some (_, st) => putState (.state st) l
        | none => l),
    .effect "this.eventStore.SaveEventNotifyByBlock" (fun l => if txHashes.isEmpty then l else putEvent (.evBlock h txHashes) l),
    .effect "this.eventStore.SaveCurrentBlock" (putEvent (.curBlock h hash)),
    .effect "this.blockStore.CommitTo" (fun l => { l with disk := { l.disk with block := l.mem.bBlock ++ l.disk.block } }),
    .effect "this.eventStore.CommitTo" (fun l => { l with disk := { l.disk with event := l.mem.bEvent ++ l.disk.event } }),
    .effect "this.stateStore.CommitTo" (fun l => { l with disk := { l.disk with state := l.mem.bState ++ l.disk.state } }),
    .effect "this.setCurrentBlock" (fun l => { l with mem := { l.mem with curHeight := h, curHash := hash } }) ]

def delHeaderCache (hash : Hash) (l : Ledger) : Ledger :=
  { l with mem := { l.mem with hdrCache := l.mem.hdrCache.filter (fun e => e.1 ≠ hash) } }

def heightGuards (b : Block) : List Step :=
  [ .stop "header.Height<=this.GetCurrentBlockHeight()" (fun l => decide (b.hdr.u.height ≤ l.mem.curHeight)),
    .guard "header.Height!=(this.GetCurrentBlockHeight()+1)" (fun l => if b.hdr.u.height ≠ (l.mem.curHeight + 1) % u32 then some .notNext else none),
    .guard "header.PrevBlockHash!=this.GetCurrentBlockHash()" (fun l => if b.hdr.u.prev ≠ l.mem.curHash then some .prevTip else none) ]

/-- `AddBlock(block, nil, stateMerkleRoot)`: the path of a syncing node -/
def addBlockSteps (P : Prims) (b : Block) (sr : Hash) : List Step :=
  heightGuards b
  ++ verifyHeaderSteps P b.hdr
  ++ [ .stop "header.Height>0&&header.Height<=this.GetCurrentBlockHeight()" (fun l => decide (0 < b.hdr.u.height ∧ b.hdr.u.height ≤ l.mem.curHeight)),
       .guard "this.closing" (fun l => if l.mem.closing then some .closing else none),
       .stop "header.Height>0&&header.Height!=(this.GetCurrentBlockHeight()+1)" (fun l => decide (0 < b.hdr.u.height ∧ b.hdr.u.height ≠ (l.mem.curHeight + 1) % u32)),
       .guard "executeBlock" (fun l => if (execRes P l b).isNone then some .exec else none),
       .guard "len(block.Transactions)!=0&&executeBlock#0.MerkleRoot!=stateMerkleRoot"
         (fun l => match execRes P l b with
           | some (ws, _) => if b.txs ≠ [] ∧ P.stateRootWith l.mem.deltaLeaves ws ≠ sr then some .stateRoot else none
           | none => none) ]
  ++ submitSteps P b
  ++ [ .effect "this.delHeaderCache" (delHeaderCache (P.hdrHash b.hdr.u)) ]

/-- `ExecuteBlock(block)` then `SubmitBlock(block, nil, result)`: the path of a consensus node.  `ExecuteBlock` answers a
stale height with the stored state root (no error) and `SubmitBlock` then returns nil. -/
def submitBlockSteps (P : Prims) (b : Block) : List Step :=
  [ .guard "ExecuteBlock: blockHeight != nextBlockHeight"
      (fun l => if b.hdr.u.height ≤ l.mem.curHeight then none
                else if b.hdr.u.height ≠ (l.mem.curHeight + 1) % u32 then some .notNext else none),
    .guard "ExecuteBlock: executeBlock"
      (fun l => if b.hdr.u.height ≤ l.mem.curHeight then none else if (execRes P l b).isNone then some .exec else none),
    .guard "this.closing" (fun l => if l.mem.closing then some .closing else none) ]
  ++ heightGuards b
  ++ verifyHeaderSteps P b.hdr
  ++ submitSteps P b
  ++ [ .effect "this.delHeaderCache" (delHeaderCache (P.hdrHash b.hdr.u)) ]

/-- bytes from a peer: `types.BlockFromRawBytes` then `AddBlock` -/
def addBlockBytesSteps (P : Prims) (b : Block) (sr : Hash) : List Step :=
  decodeSteps P b ++ addBlockSteps P b sr

def addBlock (P : Prims) (b : Block) (sr : Hash) (l : Ledger) : Outcome × Ledger := run (addBlockSteps P b sr) l
def addBlockBytes (P : Prims) (b : Block) (sr : Hash) (l : Ledger) : Outcome × Ledger := run (addBlockBytesSteps P b sr) l
def submitBlock (P : Prims) (b : Block) (l : Ledger) : Outcome × Ledger := run (submitBlockSteps P b) l

/-- `AddHeader` (header sync): next header height, `verifyHeader`, then cache + index -/
def addHeaderSteps (P : Prims) (h : Hdr) : List Step :=
  [ .guard "header.Height!=(this.GetCurrentHeaderHeight()+1)"
      (fun l => if h.u.height ≠ ((if l.mem.hdrLast = 0 then l.mem.curHeight else l.mem.hdrLast) + 1) % u32 then some .notNext else none) ]
  ++ verifyHeaderSteps P h
  ++ [ .effect "this.addHeaderCache" (fun l => { l with mem := { l.mem with hdrCache := (P.hdrHash h.u, h) :: l.mem.hdrCache } }),
       .effect "this.setHeaderIndex" (setHeaderIndex h.u.height (P.hdrHash h.u)) ]

def addHeader (P : Prims) (h : Hdr) (l : Ledger) : Outcome × Ledger := run (addHeaderSteps P h) l

/-! ## a concrete instance of the primitives (injective "hashes"): used by the driver and by the witnesses in `Props/C39` -/

def encList (xs : List Nat) : List Nat := xs.length :: xs

def demoPrims : Prims where
  hdrHash u := [u.version, u.ts, u.height, u.consData, u.nextBk] ++ encList u.prev ++ encList u.txRoot ++ encList u.blockRoot ++ encList u.payload
  txHash t := [t]
  merkleRoot hs := 1 :: (hs.map encList).flatten
  rootWith leaves x := 2 :: ((leaves ++ [x]).map encList).flatten
  stateRootWith leaves x := 3 :: ((leaves ++ [x]).map encList).flatten
  addrOf ks := match ks with
    | [] => none
    | [k] => some k
    | k :: r => some (1000 + (k :: r).foldl (fun a x => a * 10 + x) 0)
  verify k data s := s.key == k && s.msg == data
  exec st _ txs := some (4 :: st.length :: txs, st ++ txs)

/-! ## building chains (driver, witnesses) -/

def emptyLedger : Ledger :=
  { disk := ⟨[], [], []⟩,
    mem := { curHeight := 0, curHash := [], hdrIndex := [], hdrLast := 0, hdrCache := [], blockLeaves := [], deltaLeaves := [],
             closing := false, bBlock := [], bState := [], bEvent := [] } }

def genesisBlock : Block :=
  { hdr := { u := { version := 0, prev := [], txRoot := [], blockRoot := [], ts := 100, height := 0, consData := 0, payload := [], nextBk := 1 },
             keys := [], sigs := [] },
    txs := [] }

/-- `InitLedgerStoreWithGenesisBlock`: `executeBlock` + `submitBlock` of the genesis block (no header verification at height 0) -/
def genesis (P : Prims) : Ledger := (run (submitSteps P genesisBlock) emptyLedger).2

def sign (P : Prims) (k : Nat) (u : Unsigned) : Sig := { key := k, msg := P.hdrHash u, wf := true }

def tipHdr (l : Ledger) : Hdr := (lookupHeader l l.mem.curHash).getD genesisBlock.hdr

/-- the key whose address is the tip's NextBookkeeper (keys 1 and 2 exist) -/
def owner (l : Ledger) : Nat := if (tipHdr l).u.nextBk = 2 then 2 else 1

/-- what the solo bookkeeper proposes next -/
def validNext (P : Prims) (l : Ledger) (txs : List Tx) (consAdd : Nat) : Block :=
  let tip := tipHdr l
  let txRoot := P.merkleRoot (txs.map P.txHash)
  let u : Unsigned := { version := 0, prev := l.mem.curHash, txRoot := txRoot, blockRoot := P.rootWith l.mem.blockLeaves txRoot,
                        ts := tip.u.ts + 1, height := l.mem.curHeight + 1, consData := (l.mem.curHeight + 1) * 7919 + consAdd,
                        payload := [], nextBk := tip.u.nextBk }
  { hdr := { u := u, keys := [owner l], sigs := [sign P (owner l) u] }, txs := txs }

/-- the state root the network agreed on for `b` on top of `l` -/
def stateRootOf (P : Prims) (l : Ledger) (b : Block) : Hash :=
  match execRes P l b with
  | some (ws, _) => P.stateRootWith l.mem.deltaLeaves ws
  | none => []

def findBlockHash (h : Nat) : List W → Option Hash
  | [] => none
  | .blockHash h' hash :: r => if h' = h then some hash else findBlockHash h r
  | _ :: r => findBlockHash h r

end OntVerif.Model.AddBlock
