/-!
# Model of `p2pserver/connect_controller.ConnectController` under concurrent connection attempts (C36)

Every connection attempt is a *thread* with an explicit program counter; the shared state is the controller's
address sets exactly as the Go code keeps them; `step s i` lets thread `i` perform its next atomic action
(one critical section of `ConnectController.mutex`, or the group of lock-protected reads of `beforeHandshakeCheck`);
a *schedule* is a list of thread ids and `run` folds `step` over it.  The Go scheduler is replaced by the
quantifier over schedules.

```
 pc        AcceptConnect (inbound)                         Connect (outbound)
 start     beforeHandshakeCheck: checkReservedPeers, hasBoundAddr, OwnAddress, isBoundFull, per-IP count
 checked   record the reservation, leave reserveMu            + tryAddConnecting, then Dial
 handshak. HandshakeServer … afterHandshakeCheck, savePeer  HandshakeClient … afterHandshakeCheck, savePeer,
                                                              deferred removeConnecting
 saved     Conn.Close -> removePeer
 closed    a further Close() of the stale Conn handle (if the connection had been established)
```

The model mirrors the controller as it is in the tree (with the slot reservation of commit 280bc886, "reserve-slot"):
`beforeHandshakeCheck` runs under `reserveMu` (field `lock`: other threads' checks block), counts established +
pending slots, and records the address in `pending` before it releases `reserveMu`; `savePeer` turns the pending slot
into an established one in the same critical section; every failure exit drops it (`releaseSlot`).  The controller
before that commit (no reservation: check-then-act) lives on only as the explicitly historical step function
`Model/ConnCtlHist.lean:stepHist`, for the refutation theorems.

A thread that has been `saved` keeps its `Conn` handle (`cid ≠ 0`) after it is `closed`; stepping it again is a
further `Close()` of that stale handle.  `Conn.Close` runs `removePeer` once per `Conn` (`closeOnce`, commit 471ac830),
so such a step changes nothing.  The controller between 280bc886 and 471ac830, whose every `Close()` ran `removePeer`
and thereby dropped the record of a live connection that had reused the address, is the historical function
`Model/ConnCtlHist.lean:stepStaleHist`.

What a thread's remote side will do (handshake completes / fails / dial fails, which peer id and listen port it
announces) is part of the thread's static data, so that a run is a function of the schedule alone.

`strset.Set` is a list with `ins` (Add: no effect if present), `del` (Remove) and `length` (Size); `peers` is an
association list.  Addresses are the strings the Go code stores (`conn.RemoteAddr().String()`, the dialled address), as
character lists; `ipOf` is the function the code applies to them (`common.ParseIPAddr` = host part of
`net.SplitHostPort`, `""` on error), mirrored on strings: `1.2.3.4:80 ↦ 1.2.3.4`, `[fe80::1%eth0]:80 ↦ fe80::1%eth0`.
The theorems quantify over arbitrary address strings.
-/
namespace OntVerif.Model.ConnCtl

inductive Dir | inb | outb
deriving DecidableEq, Repr

inductive Pc | start | checked | handshaking | saved | closed
deriving DecidableEq, Repr

/-- what the remote side of the connection does once the controller is in its handshake -/
inductive Fate | ok | hsFail | dialFail
deriving DecidableEq, Repr

/-- an address string as the controller stores it -/
abbrev Addr := List Char
/-- the ip string `ParseIPAddr` extracts -/
abbrev Ip := List Char

/-- `net.SplitHostPort(s)`'s host (`""` when it returns an error), i.e. `common.ParseIPAddr`:
`[host]:port` with no further `[`, `]` and no `:` in the port, or `host:port` with exactly one `:` and no bracket -/
def ipOf (s : Addr) : Ip :=
  match s with
  | '[' :: rest =>
    let h := rest.takeWhile (· != ']')
    match rest.dropWhile (· != ']') with
    | ']' :: ':' :: p =>
      if h.contains '[' || p.contains '[' || p.contains ']' || p.contains ':' then [] else h
    | _ => []
  | _ =>
    let h := s.takeWhile (· != ':')
    match s.dropWhile (· != ':') with
    | ':' :: p =>
      if p.contains ':' || s.contains '[' || s.contains ']' then [] else h
    | _ => []

structure Thread where
  dir : Dir
  /-- remote address string (`conn.RemoteAddr().String()` / the dialled address) -/
  addr : Addr
  /-- `PeerInfo.RemoteListenAddress()` = `isHandWithSelf`'s node address: ParseIPAddr(addr) + ":" + the sync port the
  remote announces (no brackets are added for an IPv6 host — as the code does it) -/
  listenAddr : Addr
  /-- the peer id the remote announces; `0` stands for the controller's own id -/
  pid : Nat
  fate : Fate
  pc : Pc := .start
  /-- connect id handed out by `savePeer` -/
  cid : Nat := 0
deriving Repr

/-- `common.ParseIPAddr(addr)` -/
def Thread.ip (t : Thread) : Ip := ipOf t.addr

structure Cfg where
  maxIn : Nat
  maxIp : Nat
  maxOut : Nat
  /-- `ReservedPeers`: `none` = `AllAddrFilter`, `some l` = `StaticReserveFilter` over the ips `l` -/
  rsv : Option (List Ip) := none
deriving Repr

def Cfg.max (c : Cfg) : Dir → Nat
  | .inb => c.maxIn
  | .outb => c.maxOut

/-- `Set.Add` -/
def ins (a : Addr) (l : List Addr) : List Addr := if a ∈ l then l else a :: l
/-- `Set.Remove` -/
def del (a : Addr) (l : List Addr) : List Addr := l.filter (fun x => x != a)
/-- number of recorded addresses with the given ip (`getInboundCountWithIp`) -/
def cnt (ip : Ip) (l : List Addr) : Nat := (l.filter (fun x => ipOf x == ip)).length

def upd (f : Dir → List Addr) (d : Dir) (g : List Addr → List Addr) : Dir → List Addr :=
  fun d' => if d' = d then g (f d') else f d'

structure State where
  cfg : Cfg
  threads : List Thread
  /-- `inoutbounds[INBOUND_INDEX]`, `inoutbounds[OUTBOUND_INDEX]` -/
  bound : Dir → List Addr := fun _ => []
  /-- `pending[INBOUND_INDEX]`, `pending[OUTBOUND_INDEX]`: slots reserved by `beforeHandshakeCheck` -/
  pend : Dir → List Addr := fun _ => []
  /-- `inboundListenAddress` -/
  listen : List Addr := []
  connecting : List Addr := []
  /-- holder of `reserveMu` -/
  lock : Option Nat := none
  /-- `ownListenAddr` -/
  own : Option Addr := none
  /-- `peers`: peer id ↦ (connectId, addr) -/
  peers : List (Nat × Nat × Addr) := []
  nextCid : Nat := 0
  /-- number of `logger.Fatalf` calls of `removePeer` -/
  fatal : Nat := 0

def init (cfg : Cfg) (ths : List Thread) : State := { cfg := cfg, threads := ths }

inductive Rej | reserved | dup | self | full | ipfull | connecting | dial | hs | hsself | peerip
deriving DecidableEq, Repr

/-- outcome of one step, for the driver -/
inductive Res | idle | blocked | pass | chk | saved | closed (fatal : Bool) | again (fatal : Bool) | rej (r : Rej)
deriving DecidableEq, Repr

/-- slots the limit check counts (`boundsCount`): established + reserved -/
def slots (s : State) (d : Dir) : Nat := (s.bound d).length + (s.pend d).length

/-- `getInboundCountWithIp` -/
def ipSlots (s : State) (ip : Ip) : Nat := cnt ip (s.bound .inb) + cnt ip (s.pend .inb)

/-- `hasBoundAddr` -/
def hasAddr (s : State) (a : Addr) : Bool :=
  a ∈ s.bound .inb || a ∈ s.bound .outb || a ∈ s.listen || a ∈ s.pend .inb || a ∈ s.pend .outb

/-- `checkReservedPeers` -/
def rsvReject (c : Cfg) (t : Thread) : Bool :=
  match c.rsv with
  | none => false
  | some l => !(l.contains t.ip)

/-- the part of `beforeHandshakeCheck` after `checkReservedPeers`; `none` = passed -/
def check (s : State) (t : Thread) : Option Rej :=
  if hasAddr s t.addr then some .dup
  else if s.own = some t.addr then some .self
  else if slots s t.dir ≥ s.cfg.max t.dir then some .full
  else if t.dir = .inb ∧ ipSlots s t.ip ≥ s.cfg.maxIp then some .ipfull
  else none

def setThread (s : State) (i : Nat) (t : Thread) : State := { s with threads := s.threads.set i t }
def setPc (s : State) (i : Nat) (t : Thread) (pc : Pc) : State := setThread s i { t with pc := pc }

def peersGet (ps : List (Nat × Nat × Addr)) (pid : Nat) : Option (Nat × Addr) :=
  (ps.find? (fun e => e.1 == pid)).map (·.2)
def peersDel (ps : List (Nat × Nat × Addr)) (pid : Nat) : List (Nat × Nat × Addr) :=
  ps.filter (fun e => e.1 != pid)
def peersSet (ps : List (Nat × Nat × Addr)) (pid : Nat) (v : Nat × Addr) : List (Nat × Nat × Addr) :=
  (pid, v) :: peersDel ps pid

/-- `checkPeerIdAndIP`: a connection with this peer id exists from a different ip -/
def peerIpMismatch (ps : List (Nat × Nat × Addr)) (t : Thread) : Bool :=
  match peersGet ps t.pid with
  | some (_, old) => ipOf old != t.ip
  | none => false

/-- what every exit of `Connect` and every failure exit of `AcceptConnect` after a passed check undoes:
the deferred `releaseSlot` and (outbound) the deferred `removeConnecting` -/
def release (s : State) (d : Dir) (a : Addr) : State :=
  let s := { s with pend := upd s.pend d (del a) }
  match d with
  | .inb => s
  | .outb => { s with connecting := del a s.connecting }

/-- `removePeer(conn)` for the `Conn` handle of thread `t`; the flag is the `logger.Fatalf` branch -/
def removePeer (s : State) (t : Thread) : State × Bool :=
  let s1 : State := { s with
    bound := upd s.bound t.dir (del t.addr)
    listen := if t.dir = .inb then del t.listenAddr s.listen else s.listen }
  match peersGet s.peers t.pid with
  | none => ({ s1 with fatal := s1.fatal + 1 }, true)
  | some (cid, _) =>
    if cid = t.cid then ({ s1 with peers := peersDel s1.peers t.pid }, false)   -- connection not replaced
    else (s1, false)

/-- one atomic action of thread `i` -/
def stepR (s : State) (i : Nat) : State × Res :=
  match s.threads[i]? with
  | none => (s, .idle)
  | some t =>
    let d := t.dir
    let a := t.addr
    match t.pc with
    | .start =>
      if rsvReject s.cfg t then (setPc s i t .closed, .rej .reserved)
      else if s.lock.isSome then (s, .blocked)            -- reserveMu is held by another check
      else match check s t with
        | some r => (setPc s i t .closed, .rej r)         -- reserveMu taken and released within the step
        | none => (setPc { s with lock := some i } i t .checked, .pass)
    | .checked =>
      -- record the reservation, leave reserveMu
      let s1 : State := { s with pend := upd s.pend d (ins a), lock := none }
      match d with
      | .inb => (setPc s1 i t .handshaking, .chk)
      | .outb =>
        if a ∈ s1.connecting then                          -- tryAddConnecting fails; deferred releaseSlot
          (setPc { s1 with pend := upd s1.pend d (del a) } i t .closed, .rej .connecting)
        else (setPc { s1 with connecting := ins a s1.connecting } i t .handshaking, .chk)
    | .handshaking =>
      match t.fate with
      | .hsFail => (setPc (release s d a) i t .closed, .rej .hs)
      | .dialFail => (setPc (release s d a) i t .closed, .rej (if d = .outb then .dial else .hs))
      | .ok =>
        -- afterHandshakeCheck: isHandWithSelf, checkPeerIdAndIP
        if t.pid = 0 then
          (setPc (release { s with own := some t.listenAddr } d a) i t .closed, .rej .hsself)
        else if peerIpMismatch s.peers t then
          (setPc (release s d a) i t .closed, .rej .peerip)
        else
          -- savePeer (one critical section) consumes the reservation
          let cid := s.nextCid + 1
          let s1 : State := { s with
            bound := upd s.bound d (ins a)
            listen := if d = .inb then ins t.listenAddr s.listen else s.listen
            nextCid := cid
            peers := peersSet s.peers t.pid (cid, a) }
          (setThread (release s1 d a) i { t with pc := .saved, cid := cid }, .saved)
    | .saved =>
      -- Conn.Close -> removePeer
      let r := removePeer s t
      (setPc r.1 i t .closed, .closed r.2)
    | .closed =>
      -- a further Close() of the Conn handle of a connection that had been established: closeOnce, nothing happens
      if t.cid = 0 then (s, .idle) else (s, .again false)

def step (s : State) (i : Nat) : State := (stepR s i).1

/-- a schedule is a list of thread ids -/
def run (s : State) (sched : List Nat) : State := sched.foldl step s

/-- number of threads of direction `d` whose connection is established (returned by `AcceptConnect`/`Connect`
and not yet closed) -/
def established (s : State) (d : Dir) : Nat :=
  (s.threads.filter (fun t => t.dir = d ∧ t.pc = .saved)).length

def establishedIp (s : State) (ip : Ip) : Nat :=
  (s.threads.filter (fun t => t.dir = .inb ∧ t.pc = .saved ∧ t.ip = ip)).length

/-- stepping thread `i` now would be a repeated `Close()` of a stale `Conn` handle -/
def staleStep (s : State) (i : Nat) : Bool :=
  match s.threads[i]? with
  | some t => t.pc = .closed ∧ t.cid ≠ 0
  | none => false

/-- the three limits on the controller's own counters (`InboundsCount`, `getInboundCountWithIp`, `OutboundsCount`) -/
def LimitsHold (s : State) : Prop :=
  (s.bound .inb).length ≤ s.cfg.maxIn ∧ (∀ ip, cnt ip (s.bound .inb) ≤ s.cfg.maxIp) ∧
  (s.bound .outb).length ≤ s.cfg.maxOut

/-- `macroStep`: what one op of the harness does — thread `i` runs until its next I/O point.  From `start` that is
the check followed (if it passed) by the `checked` action; otherwise one step. -/
def macroStep (s : State) (i : Nat) : State × Res :=
  match s.threads[i]? with
  | none => (s, .idle)
  | some t =>
    match t.pc with
    | .start =>
      let (s1, r1) := stepR s i
      match r1 with
      | .pass => stepR s1 i
      | _ => (s1, r1)
    | _ => stepR s i

end OntVerif.Model.ConnCtl
