/-!
# Model of `p2pserver/connect_controller.ConnectController` under concurrent connection attempts (C36)

Every connection attempt is a *thread* with an explicit program counter; the shared state is the controller's
address sets exactly as the Go code keeps them; `step v s i` lets thread `i` perform its next atomic action
(one critical section of `ConnectController.mutex`, or the group of lock-protected reads of `beforeHandshakeCheck`);
a *schedule* is a list of thread ids and `run` folds `step` over it.  The Go scheduler is replaced by the
quantifier over schedules.

```
 pc        AcceptConnect (inbound)                         Connect (outbound)
 start     beforeHandshakeCheck: checkReservedPeers, hasBoundAddr, OwnAddress, isBoundFull, per-IP count
 checked   (sound: record the reservation, leave reserveMu)   + tryAddConnecting, then Dial
 handshak. HandshakeServer … afterHandshakeCheck, savePeer  HandshakeClient … afterHandshakeCheck, savePeer,
                                                              deferred removeConnecting
 saved     Conn.Close -> removePeer
 closed    —
```

* `Variant.asShipped` is the code as it is: the limits are checked in `start` and nothing is recorded until
  `savePeer` — check-then-act.  (`connecting` only holds the *address* being dialled, it reserves no slot.)
* `Variant.sound` is the controller repaired by `fixes/C36-reserve-slot.patch`: `beforeHandshakeCheck` runs under
  `reserveMu` (field `lock`: other threads' checks block), counts established + pending slots, and records the
  address in `pending` before it releases `reserveMu`; `savePeer` turns the pending slot into an established one in
  the same critical section; every failure exit drops it (`releaseSlot`).

What a thread's remote side will do (handshake completes / fails / dial fails, which peer id and listen port it
announces) is part of the thread's static data, so that a run is a function of the schedule alone.

`strset.Set` is a list with `ins` (Add: no effect if present), `del` (Remove) and `length` (Size); `peers` is an
association list.  Addresses are `(ip, port)` pairs of naturals (`ParseIPAddr` is the first projection).
-/
namespace OntVerif.Model.ConnCtl

inductive Variant | asShipped | sound
deriving DecidableEq, Repr

inductive Dir | inb | outb
deriving DecidableEq, Repr

inductive Pc | start | checked | handshaking | saved | closed
deriving DecidableEq, Repr

/-- what the remote side of the connection does once the controller is in its handshake -/
inductive Fate | ok | hsFail | dialFail
deriving DecidableEq, Repr

abbrev Addr := Nat × Nat

structure Thread where
  dir : Dir
  ip : Nat
  port : Nat
  /-- the sync port the remote announces in its version message (`PeerInfo.Port`) -/
  lport : Nat
  /-- the peer id the remote announces; `0` stands for the controller's own id -/
  pid : Nat
  fate : Fate
  pc : Pc := .start
  /-- connect id handed out by `savePeer` -/
  cid : Nat := 0
deriving Repr

def Thread.addr (t : Thread) : Addr := (t.ip, t.port)
/-- `PeerInfo.RemoteListenAddress` -/
def Thread.listenAddr (t : Thread) : Addr := (t.ip, t.lport)

structure Cfg where
  maxIn : Nat
  maxIp : Nat
  maxOut : Nat
  /-- `ReservedPeers`: `none` = `AllAddrFilter`, `some l` = `StaticReserveFilter` over the ips `l` -/
  rsv : Option (List Nat) := none
deriving Repr

def Cfg.max (c : Cfg) : Dir → Nat
  | .inb => c.maxIn
  | .outb => c.maxOut

/-- `Set.Add` -/
def ins (a : Addr) (l : List Addr) : List Addr := if a ∈ l then l else a :: l
/-- `Set.Remove` -/
def del (a : Addr) (l : List Addr) : List Addr := l.filter (fun x => x != a)
/-- number of recorded addresses with the given ip (`getInboundCountWithIp`) -/
def cnt (ip : Nat) (l : List Addr) : Nat := (l.filter (fun x => x.1 == ip)).length

def upd (f : Dir → List Addr) (d : Dir) (g : List Addr → List Addr) : Dir → List Addr :=
  fun d' => if d' = d then g (f d') else f d'

structure State where
  cfg : Cfg
  threads : List Thread
  /-- `inoutbounds[INBOUND_INDEX]`, `inoutbounds[OUTBOUND_INDEX]` -/
  bound : Dir → List Addr := fun _ => []
  /-- `pending[…]` of the repaired controller (never written by `.asShipped`) -/
  pend : Dir → List Addr := fun _ => []
  /-- `inboundListenAddress` -/
  listen : List Addr := []
  connecting : List Addr := []
  /-- holder of `reserveMu` (repaired controller only) -/
  lock : Option Nat := none
  /-- `ownListenAddr` -/
  own : Option Addr := none
  /-- `peers`: peer id ↦ (connectId, addr) -/
  peers : List (Nat × Nat × Addr) := []
  nextCid : Nat := 0
  /-- number of `logger.Fatalf` calls of `removePeer` -/
  fatal : Nat := 0

def init (cfg : Cfg) (ths : List Thread) : State := { cfg := cfg, threads := ths }

inductive Rej | reserved | dup | self | full | ipfull | connecting | dial | hs | hsself | peerip
deriving DecidableEq, Repr

/-- outcome of one step, for the driver -/
inductive Res | idle | blocked | pass | chk | saved | closed (fatal : Bool) | rej (r : Rej)
deriving DecidableEq, Repr

/-- slots the limit check counts: established ones; the repaired controller adds the reserved ones -/
def slots (v : Variant) (s : State) (d : Dir) : Nat :=
  match v with
  | .asShipped => (s.bound d).length
  | .sound => (s.bound d).length + (s.pend d).length

def ipSlots (v : Variant) (s : State) (ip : Nat) : Nat :=
  match v with
  | .asShipped => cnt ip (s.bound .inb)
  | .sound => cnt ip (s.bound .inb) + cnt ip (s.pend .inb)

/-- `hasBoundAddr` -/
def hasAddr (v : Variant) (s : State) (a : Addr) : Bool :=
  a ∈ s.bound .inb || a ∈ s.bound .outb || a ∈ s.listen ||
    (match v with
     | .asShipped => false
     | .sound => a ∈ s.pend .inb || a ∈ s.pend .outb)

/-- `checkReservedPeers` -/
def rsvReject (c : Cfg) (t : Thread) : Bool :=
  match c.rsv with
  | none => false
  | some l => !(l.contains t.ip)

/-- the part of `beforeHandshakeCheck` after `checkReservedPeers`; `none` = passed -/
def check (v : Variant) (s : State) (t : Thread) : Option Rej :=
  if hasAddr v s t.addr then some .dup
  else if s.own = some t.addr then some .self
  else if slots v s t.dir ≥ s.cfg.max t.dir then some .full
  else if t.dir = .inb ∧ ipSlots v s t.ip ≥ s.cfg.maxIp then some .ipfull
  else none

def setThread (s : State) (i : Nat) (t : Thread) : State := { s with threads := s.threads.set i t }
def setPc (s : State) (i : Nat) (t : Thread) (pc : Pc) : State := setThread s i { t with pc := pc }

def peersGet (ps : List (Nat × Nat × Addr)) (pid : Nat) : Option (Nat × Addr) :=
  (ps.find? (fun e => e.1 == pid)).map (·.2)
def peersDel (ps : List (Nat × Nat × Addr)) (pid : Nat) : List (Nat × Nat × Addr) :=
  ps.filter (fun e => e.1 != pid)
def peersSet (ps : List (Nat × Nat × Addr)) (pid : Nat) (v : Nat × Addr) : List (Nat × Nat × Addr) :=
  (pid, v) :: peersDel ps pid

/-- `checkPeerIdAndIP`: a connection with this peer id exists from a different ip -/
def peerIpMismatch (ps : List (Nat × Nat × Addr)) (t : Thread) : Bool :=
  match peersGet ps t.pid with
  | some (_, old) => old.1 != t.ip
  | none => false

/-- what every exit of `Connect` and every failure exit of `AcceptConnect` after a passed check undoes:
the deferred `releaseSlot` (repaired controller) and the deferred `removeConnecting` (outbound) -/
def release (v : Variant) (s : State) (d : Dir) (a : Addr) : State :=
  let s := match v with
    | .asShipped => s
    | .sound => { s with pend := upd s.pend d (del a) }
  match d with
  | .inb => s
  | .outb => { s with connecting := del a s.connecting }

/-- one atomic action of thread `i` -/
def stepR (v : Variant) (s : State) (i : Nat) : State × Res :=
  match s.threads[i]? with
  | none => (s, .idle)
  | some t =>
    let d := t.dir
    let a := t.addr
    match t.pc with
    | .start =>
      if rsvReject s.cfg t then (setPc s i t .closed, .rej .reserved)
      else match v with
        | .asShipped =>
          match check v s t with
          | some r => (setPc s i t .closed, .rej r)
          | none => (setPc s i t .checked, .pass)
        | .sound =>
          if s.lock.isSome then (s, .blocked)            -- reserveMu is held by another check
          else match check v s t with
            | some r => (setPc s i t .closed, .rej r)     -- reserveMu taken and released within the step
            | none => (setPc { s with lock := some i } i t .checked, .pass)
    | .checked =>
      let s1 := match v with
        | .asShipped => s
        | .sound => { s with pend := upd s.pend d (ins a), lock := none }
      match d with
      | .inb => (setPc s1 i t .handshaking, .chk)
      | .outb =>
        if a ∈ s1.connecting then                          -- tryAddConnecting fails
          let s2 := match v with
            | .asShipped => s1
            | .sound => { s1 with pend := upd s1.pend d (del a) }
          (setPc s2 i t .closed, .rej .connecting)
        else (setPc { s1 with connecting := ins a s1.connecting } i t .handshaking, .chk)
    | .handshaking =>
      match t.fate with
      | .hsFail => (setPc (release v s d a) i t .closed, .rej .hs)
      | .dialFail => (setPc (release v s d a) i t .closed, .rej (if d = .outb then .dial else .hs))
      | .ok =>
        -- afterHandshakeCheck: isHandWithSelf, checkPeerIdAndIP
        if t.pid = 0 then
          (setPc (release v { s with own := some t.listenAddr } d a) i t .closed, .rej .hsself)
        else if peerIpMismatch s.peers t then
          (setPc (release v s d a) i t .closed, .rej .peerip)
        else
          -- savePeer (one critical section); the repaired controller consumes the reservation in it
          let cid := s.nextCid + 1
          let s1 : State := { s with
            bound := upd s.bound d (ins a)
            listen := if d = .inb then ins t.listenAddr s.listen else s.listen
            nextCid := cid
            peers := peersSet s.peers t.pid (cid, a) }
          (setThread (release v s1 d a) i { t with pc := .saved, cid := cid }, .saved)
    | .saved =>
      -- Conn.Close -> removePeer
      let s1 : State := { s with
        bound := upd s.bound d (del a)
        listen := if d = .inb then del t.listenAddr s.listen else s.listen }
      match peersGet s.peers t.pid with
      | none => (setPc { s1 with fatal := s1.fatal + 1 } i t .closed, .closed true)
      | some (cid, _) =>
        if cid = t.cid then (setPc { s1 with peers := peersDel s1.peers t.pid } i t .closed, .closed false)
        else (setPc s1 i t .closed, .closed false)
    | .closed => (s, .idle)

def step (v : Variant) (s : State) (i : Nat) : State := (stepR v s i).1

/-- a schedule is a list of thread ids -/
def run (v : Variant) (s : State) (sched : List Nat) : State := sched.foldl (step v) s

/-- number of threads of direction `d` whose connection is established (returned by `AcceptConnect`/`Connect`
and not yet closed) -/
def established (s : State) (d : Dir) : Nat :=
  (s.threads.filter (fun t => t.dir = d ∧ t.pc = .saved)).length

def establishedIp (s : State) (ip : Nat) : Nat :=
  (s.threads.filter (fun t => t.dir = .inb ∧ t.pc = .saved ∧ t.ip = ip)).length

/-- connection attempts of direction `d` between their check and their `savePeer` / failure -/
def inFlight (s : State) (d : Dir) : Nat :=
  (s.threads.filter (fun t => t.dir = d ∧ (t.pc = .checked ∨ t.pc = .handshaking))).length

def inFlightIp (s : State) (ip : Nat) : Nat :=
  (s.threads.filter (fun t => t.dir = .inb ∧ t.ip = ip ∧ (t.pc = .checked ∨ t.pc = .handshaking))).length

/-- no two attempts of one direction are between check and save at the same time -/
def NoOverlap (s : State) : Prop := ∀ d, inFlight s d ≤ 1

/-- `NoOverlap` holds after every step of the schedule (what a sequential test exercises) -/
def NoOverlapRun (v : Variant) : State → List Nat → Prop
  | _, [] => True
  | s, i :: r => NoOverlap (step v s i) ∧ NoOverlapRun v (step v s i) r

/-- the three limits on the controller's own counters (`InboundsCount`, `getInboundCountWithIp`, `OutboundsCount`) -/
def LimitsHold (s : State) : Prop :=
  (s.bound .inb).length ≤ s.cfg.maxIn ∧ (∀ ip, cnt ip (s.bound .inb) ≤ s.cfg.maxIp) ∧
  (s.bound .outb).length ≤ s.cfg.maxOut

/-- `macroStep`: what one op of the harness does — thread `i` runs until its next I/O point.  From `start` that is
the check followed (if it passed) by the `checked` action; otherwise one step. -/
def macroStep (v : Variant) (s : State) (i : Nat) : State × Res :=
  match s.threads[i]? with
  | none => (s, .idle)
  | some t =>
    match t.pc with
    | .start =>
      let (s1, r1) := stepR v s i
      match r1 with
      | .pass => stepR v s1 i
      | _ => (s1, r1)
    | _ => stepR v s i

end OntVerif.Model.ConnCtl
