import OntVerif.Util.Hex
/-!
# VBFT chain configuration from a stake set (C30)

Mirror of `consensus/vbft/config/genesis.go:GenesisChainConfig`:
sort the peers by `(InitPos desc, PeerPubkey desc)` with a stable sort, take the first `K`, sum their stakes (`uint64`,
wrapping), `scale = L/K - 1` (`uint32`, wrapping), rank of a peer = `ceil(stake * scale * K / sum)` in `float64`
(`1` when the stake or the sum is zero), position table = `rank` copies of each peer index in sorted order, shuffled
by a Fisher–Yates walk driven by a hash of `(txhash, height, peer id, position)`.

Two things are parameters of the model:
* `R stake scale K sum` — the `float64` expression `uint64(math.Ceil(float64(stake)*float64(scale)*float64(K)/float64(sum)))`.
  The theorems assume only that it is `≥ 1` and monotone in `stake`; the driver instantiates it with IEEE doubles.
* `H id i` — `shuffle_hash(txid, height, id, i)` (FNV-1a over a JSON rendering); the driver instantiates it.
-/
namespace OntVerif.Model.ChainConfig

structure StakePeer where
  index : Nat          -- uint32
  key : List Nat       -- bytes of PeerPubkey (a Go string)
  stake : Nat          -- InitPos, uint64
  deriving Repr, DecidableEq

/-- Go string `<`: lexicographic on bytes, a proper prefix is smaller -/
def keyLt : List Nat → List Nat → Bool
  | [], [] => false
  | [], _ :: _ => true
  | _ :: _, [] => false
  | a :: as, b :: bs => if a < b then true else if b < a then false else keyLt as bs

/-- the `less(i, j)` closure passed to `sort.SliceStable` -/
def less (p q : StakePeer) : Bool :=
  if p.stake > q.stake then true
  else if p.stake = q.stake then keyLt q.key p.key
  else false

/-- stable insertion: `a` goes in front of the first element that is not strictly before it -/
def insertSorted (a : StakePeer) : List StakePeer → List StakePeer
  | [] => [a]
  | b :: l => if less b a then b :: insertSorted a l else a :: b :: l

/-- `sort.SliceStable(peers, less)`: a stable sort is determined by its input, so any stable algorithm is a faithful model -/
def sortPeers : List StakePeer → List StakePeer
  | [] => []
  | a :: l => insertSorted a (sortPeers l)

def u64 : Nat := 18446744073709551616
def u32 : Nat := 4294967296

/-- `var sum uint64; for i < K { sum += peers[i].InitPos }` -/
def stakeSum (top : List StakePeer) : Nat := (top.map (·.stake)).foldl (fun s x => (s + x) % u64) 0

/-- `s := 1; if sum > 0 && InitPos > 0 { s = uint64(math.Ceil(...)) }` -/
def rankOf (R : Nat → Nat → Nat → Nat → Nat) (scale K sum : Nat) (p : StakePeer) : Nat :=
  if sum > 0 ∧ p.stake > 0 then R p.stake scale K sum else 1

/-- `chainPeers[idx].ID`: a Go map keyed by index, filled in sorted order — the last peer with that index wins -/
def idOf (top : List StakePeer) (idx : Nat) : Option (List Nat) :=
  (top.reverse.find? (fun p => p.index == idx)).map (·.key)

/-- `posTable[i], posTable[j] = posTable[j], posTable[i]` -/
def swap (l : List Nat) (i j : Nat) : List Nat :=
  match l[i]?, l[j]? with
  | some a, some b => (l.set i b).set j a
  | _, _ => l

/-- `for i := len(posTable)-1; i > 0; i-- { j := shuffle_hash(…, chainPeers[posTable[i]].ID, i) % i; swap(i, j) }`;
the argument is the current `i` (the loop body runs for `i, i-1, …, 1`) -/
def shuffleLoop (H : List Nat → Nat → Nat) (top : List StakePeer) : Nat → List Nat → List Nat
  | 0, l => l
  | i + 1, l =>
    match l[i + 1]? with
    | none => l
    | some idx =>
      match idOf top idx with
      | none => l
      | some id => shuffleLoop H top i (swap l (i + 1) (H id (i + 1) % u64 % (i + 1)))

structure Config where
  n : Nat
  c : Nat
  peers : List (Nat × List Nat)      -- (Index, ID) in sorted order
  posTable : List Nat
  deriving Repr, DecidableEq

inductive Outcome
  | ok (cfg : Config)
  | err                 -- "L is equal or less than K"
  | panic               -- index out of range (K > len(peers)) or integer division by zero (K = 0)
  deriving Repr, DecidableEq

/-- the unshuffled position table: `rank` copies of each selected peer's index, in sorted order -/
def posTable0 (R : Nat → Nat → Nat → Nat → Nat) (scale K sum : Nat) (top : List StakePeer) : List Nat :=
  top.flatMap fun p => List.replicate (rankOf R scale K sum p) p.index

/-- the `K` peers that make it into the configuration -/
def selected (K : Nat) (peers : List StakePeer) : List StakePeer := (sortPeers peers).take K

def genesisChainConfig (R : Nat → Nat → Nat → Nat → Nat) (H : List Nat → Nat → Nat)
    (K L C : Nat) (peers : List StakePeer) : Outcome :=
  if K > peers.length then .panic          -- `peers[i]` in the sum loop
  else if K = 0 then .panic                -- `conf.L / conf.K`
  else
    let top := selected K peers
    let sum := stakeSum top
    let scale := (L / K + u32 - 1) % u32   -- uint32: `L/K - 1` wraps to 2^32-1 when L < K
    if scale = 0 then .err
    else
      let pos0 := posTable0 R scale K sum top
      let pos := shuffleLoop H top (pos0.length - 1) pos0
      .ok { n := K, c := C, peers := top.map (fun p => (p.index, (idOf top p.index).getD p.key)), posTable := pos }

end OntVerif.Model.ChainConfig
