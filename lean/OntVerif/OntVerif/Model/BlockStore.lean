import OntVerif.Gen.LedgerQuery
/-!
# Model of the chain queries of `LedgerStoreImp` (C40)

`block_store.go` (three key spaces of the block LevelDB: header record by block hash, block hash by height, transaction record
by transaction hash), `header_Index_cache.go` (height → hash window with its eviction loop; sizes and window arithmetic are
generated from the source: `Gen/LedgerQuery.lean`), `block_cache.go` (block / transaction caches), and the five queries of
`ledger_store.go`.  A restart keeps the store and rebuilds the header index with `loadHeaderIndexList`; the caches start empty.

Hashes are abstract (`Prims`).  The store's key spaces are functions (a put is a function update).  Core-only, executable.
The ARC replacement policy of the two caches is not modelled (a bounded FIFO stands for it): the theorems hold for whatever
subset of the saved blocks / transactions a cache retains.
-/
namespace OntVerif.Model.BlockStore
open OntVerif.Gen.LedgerQuery

abbrev Hash := Nat
abbrev Tx := Nat

structure Hdr where
  height : Nat
  salt : Nat          -- stands for every other header field
  deriving Repr, DecidableEq

structure Block where
  hdr : Hdr
  txs : List Tx
  deriving Repr, DecidableEq

structure Prims where
  hH : Hdr → Hash
  hT : Tx → Hash

/-- the block LevelDB -/
structure Store where
  hdr : Hash → Option (Hdr × List Hash)     -- DATA_HEADER: header + tx hashes (`SaveHeader`)
  hgt : Nat → Option Hash                   -- DATA_BLOCK_HASH (`SaveBlockHash`)
  tx : Hash → Option (Tx × Nat)             -- DATA_TRANSACTION: tx + height (`SaveTransaction`)
  cur : Option (Nat × Hash)                 -- SYS_CURRENT_BLOCK

/-- `HeaderIndexCache` -/
structure Cache where
  idx : List (Nat × Hash)    -- the Go map, keys unique
  first : Nat
  last : Nat
  deriving Repr, DecidableEq

structure Ledger where
  store : Store
  cache : Cache
  curHeight : Nat                       -- currBlockHeight
  blkCache : List (Hash × Block)        -- BlockCache.blockCache
  txCache : List (Hash × Tx × Nat)      -- BlockCache.transactionCache

def emptyStore : Store := ⟨fun _ => none, fun _ => none, fun _ => none, none⟩
def emptyLedger : Ledger := ⟨emptyStore, ⟨[], 0, 0⟩, 0, [], []⟩

/-! ## header index cache -/

def mapSet (h : Nat) (x : Hash) (idx : List (Nat × Hash)) : List (Nat × Hash) := (h, x) :: idx.filter (fun e => e.1 ≠ h)
def mapDel (h : Nat) (idx : List (Nat × Hash)) : List (Nat × Hash) := idx.filter (fun e => e.1 ≠ h)
def mapGet (h : Nat) : List (Nat × Hash) → Option Hash
  | [] => none
  | (k, x) :: r => if k = h then some x else mapGet h r

/-- the eviction loop of `setHeaderIndex`: `for height := first; cacheSize > MAX; cacheSize-- { delete(height); height++; first = height }` -/
def evictLoop : Nat → Nat → Nat → List (Nat × Hash) → Nat × List (Nat × Hash)
  | 0, _, first, idx => (first, idx)
  | fuel + 1, size, first, idx =>
    if evictWhile size then evictLoop fuel (size - 1) (first + 1) (mapDel first idx) else (first, idx)

/-- `HeaderIndexCache.setHeaderIndex(curBlockHeight, curHeaderHeight, blockHash)` -/
def setHeaderIndex (curBlockHeight h : Nat) (x : Hash) (c : Cache) : Cache :=
  let idx := mapSet h x c.idx
  let last := if c.last < h then h else c.last
  if evictGuard curBlockHeight c.first then
    let size := cacheSize curBlockHeight c.first
    let (first, idx) := evictLoop size size c.first idx
    ⟨idx, first, last⟩
  else ⟨idx, c.first, last⟩

/-! ## block store writes -/

def putHdr (s : Store) (k : Hash) (v : Hdr × List Hash) : Store := { s with hdr := fun q => if q = k then some v else s.hdr q }
def putHgt (s : Store) (k : Nat) (v : Hash) : Store := { s with hgt := fun q => if q = k then some v else s.hgt q }
def putTx (s : Store) (k : Hash) (v : Tx × Nat) : Store := { s with tx := fun q => if q = k then some v else s.tx q }

def saveTxs (P : Prims) (h : Nat) : List Tx → Store → Store
  | [], s => s
  | t :: r, s => saveTxs P h r (putTx s (P.hT t) (t, h))

/-- the block-store batch of `saveBlockToBlockStore` -/
def saveBlock (P : Prims) (b : Block) (s : Store) : Store :=
  let x := P.hH b.hdr
  let s := { s with cur := some (b.hdr.height, x) }
  let s := putHgt s b.hdr.height x
  let s := putHdr s x (b.hdr, b.txs.map P.hT)
  saveTxs P b.hdr.height b.txs s

def pushBounded {α} (n : Nat) (a : α) (l : List α) : List α := (a :: l).take n

/-- commit of one block as far as the queries are concerned: `setHeaderIndex` (with the OLD current height), the block-store
batch, both caches, then `setCurrentBlock` -/
def commit (P : Prims) (b : Block) (l : Ledger) : Ledger :=
  let x := P.hH b.hdr
  { store := saveBlock P b l.store,
    cache := setHeaderIndex l.curHeight b.hdr.height x l.cache,
    curHeight := b.hdr.height,
    blkCache := pushBounded blockCacheSize (x, b) l.blkCache,
    txCache := b.txs.foldl (fun c t => pushBounded txCacheSize (P.hT t, t, b.hdr.height) c) l.txCache }

/-- `loadHeaderIndexList`: `none` = the reload fails (a height without a stored hash) -/
def reloadLoop (s : Store) (cur : Nat) : Nat → Nat → Cache → Option Cache
  | 0, _, c => some c
  | n + 1, i, c =>
    match s.hgt i with
    | none => none
    | some x => reloadLoop s cur n (i + 1) (setHeaderIndex cur i x c)

def restart (l : Ledger) : Option Ledger :=
  match l.store.cur with
  | none => none
  | some (cur, _) =>
    let start := loadStart cur
    match reloadLoop l.store cur (cur + 1 - start) start ⟨[], start, start⟩ with
    | none => none
    | some c => some { store := l.store, cache := c, curHeight := cur, blkCache := [], txCache := [] }

/-! ## the five queries -/

def assocGet {β} (k : Hash) : List (Hash × β) → Option β
  | [] => none
  | (q, v) :: r => if q = k then some v else assocGet k r

/-- `GetBlockHash(height)`: header index cache, else the store -/
def getBlockHash (l : Ledger) (h : Nat) : Option Hash :=
  match mapGet h l.cache.idx with
  | some x => some x
  | none => l.store.hgt h

/-- `BlockStore.GetTransaction(txHash)`: transaction cache, else the store -/
def getTransaction (l : Ledger) (th : Hash) : Option (Tx × Nat) :=
  match assocGet th l.txCache with
  | some v => some v
  | none => l.store.tx th

def loadTxs (l : Ledger) : List Hash → Option (List Tx)
  | [] => some []
  | th :: r =>
    match getTransaction l th, loadTxs l r with
    | some (t, _), some ts => some (t :: ts)
    | _, _ => none

/-- `GetBlockByHash`: block cache, else header record + every transaction by hash -/
def getBlockByHash (l : Ledger) (x : Hash) : Option Block :=
  match assocGet x l.blkCache with
  | some b => some b
  | none =>
    match l.store.hdr x with
    | none => none
    | some (hd, ths) => (loadTxs l ths).map fun ts => ⟨hd, ts⟩

/-- `GetHeaderByHash` (no header-sync cache here): block cache, else the header record -/
def getHeaderByHash (l : Ledger) (x : Hash) : Option Hdr :=
  match assocGet x l.blkCache with
  | some b => some b.hdr
  | none => (l.store.hdr x).map (·.1)

/-- `GetBlockByHeight` -/
def getBlockByHeight (l : Ledger) (h : Nat) : Option Block :=
  match getBlockHash l h with
  | none => none
  | some x => getBlockByHash l x

/-! ## histories -/

/-- `AddHeader` during header sync, as far as the height index is concerned: the header of the NEXT height (hash `x`) is
indexed with `setHeaderIndex(currBlockHeight, currBlockHeight+1, x)` — the eviction runs with the post-commit height -/
def syncHeader (x : Hash) (l : Ledger) : Ledger :=
  { l with cache := setHeaderIndex l.curHeight (l.curHeight + 1) x l.cache }

inductive Op
  | commit (b : Block)
  | restart
  | syncHeader (x : Hash)      -- only when no header is ahead of the blocks (`header.Height == currentHeaderHeight+1`)

def step (P : Prims) (l : Ledger) : Op → Option Ledger
  | .commit b => some (commit P b l)
  | .restart => restart l
  | .syncHeader x => if l.cache.last = l.curHeight then some (syncHeader x l) else none

def runOps (P : Prims) : List Op → Ledger → Option Ledger
  | [], l => some l
  | op :: r, l =>
    match step P l op with
    | none => none
    | some l' => runOps P r l'

def committed : List Op → List Block
  | [] => []
  | .commit b :: r => b :: committed r
  | .restart :: r => committed r
  | .syncHeader _ :: r => committed r

end OntVerif.Model.BlockStore
