/-!
# Model of the wallet client (C38)

Mirrors `account/client.go` (`ClientImpl`: `NewAccount`, `addAccountData`, `ImportAccount`, `getAccount`,
`DeleteAccount`, `SetDefaultAccount`, `SetLabel`, `ChangePassword`, `ChangeSigScheme`, `load`, the getters) and
`account/file_store.go` (`WalletData`: `AddAccount`, `DelAccount`, `GetAccountByIndex`, `Save`/`Load`).

* Go pointers: `accAddrs`, `accLabels`, `defaultAcc` and `walletData.Accounts` all point to the same `AccountData` objects.
  The model has a heap `id ↦ object` (objects are never freed) and the four structures hold ids, so a stale entry that still
  points to an account removed from the list behaves as in Go.
* crypto is *modelled*: `enc key password salt params` / `dec cipher password salt params` are the fields of `Crypto`;
  the theorems assume the ideal law `Crypto.Ideal` (decryption succeeds exactly with the same password and scrypt parameters,
  and returns the key). `keypair.DecryptWithCustomScrypt` rejecting the empty password is modelled in `decrypt`.
  Passwords, keys, salts, scrypt parameter sets, addresses, signature schemes are naturals (`0` = empty password).
* JSON `Save`/`Load` are *modelled* as the identity on `(scrypt, record list)`: `file` holds what the last successful
  `save` wrote. File-system errors are not modelled (every `save` succeeds).
* each record carries three ghost fields (`gSk gPw gPrm`: the key, password and parameters it was encrypted from); they are
  not in the Go struct, no operation reads them, and they are what "current password" means in the theorems.
* the model mirrors the code after the four repairs of this property (commits d294e356, a84b1885, 6bfbaccd, f7a6a185):
  `NewAccount` encrypts with the wallet's scrypt parameters, `addAccountData` refuses an address that is already present,
  `SetLabel(a, "")` does not index the empty label, `ChangePassword` refuses an empty new password. The four witnesses of the
  old behaviour are kept in `corpus/C38/` (a reversion is a correspondence break and a predicate failure).
Core Lean only.
-/
namespace OntVerif.Model.Wallet

structure Crypto where
  Cipher : Type
  enc : Nat → Nat → Nat → Nat → Cipher          -- key, password, salt, scrypt params
  dec : Cipher → Nat → Nat → Nat → Option Nat   -- cipher, password, salt, scrypt params

/-- ideal authenticated encryption under a password-derived key -/
def Crypto.Ideal (c : Crypto) : Prop :=
  ∀ k p s m p' m', c.dec (c.enc k p s m) p' s m' = if p' = p ∧ m' = m then some k else none

/-- the symbolic instance run by the driver: a ciphertext is the tuple it was made from -/
def Crypto.symbolic : Crypto where
  Cipher := Nat × Nat × Nat × Nat
  enc k p s m := (k, p, s, m)
  dec c p s m := if p = c.2.1 ∧ s = c.2.2.1 ∧ m = c.2.2.2 then some c.1 else none

/-- `keypair.GetScryptParameters()` (N=16384, r=8, p=8) as a parameter-set id -/
def DEFAULT_PRM : Nat := 0

structure Acc (cr : Crypto) where
  addr : Nat
  label : String
  isDefault : Bool
  salt : Nat
  key : cr.Cipher
  alg : Nat       -- 0 "ECDSA", 1 "SM2", 2 "Ed25519", other: unknown key type
  scheme : Nat    -- signature.SignatureScheme
  gSk : Nat       -- ghost: plaintext key
  gPw : Nat       -- ghost: password it is encrypted under
  gPrm : Nat      -- ghost: scrypt parameters it is encrypted under

/-- the record is the encryption of its ghost key under its ghost password / parameters -/
def Acc.Sealed {cr : Crypto} (a : Acc cr) : Prop := a.key = cr.enc a.gSk a.gPw a.salt a.gPrm

/-- `checkSigScheme` -/
def checkSig (alg scheme : Nat) : Bool :=
  match alg with
  | 0 => scheme ≤ 8
  | 1 => scheme = 9
  | 2 => scheme = 10
  | _ => false

/-! association lists (Go maps) -/
def lk {κ α} [DecidableEq κ] : List (κ × α) → κ → Option α
  | [], _ => none
  | (k', v) :: r, k => if k' = k then some v else lk r k
def ins {κ α} [DecidableEq κ] : List (κ × α) → κ → α → List (κ × α)
  | [], k, v => [(k, v)]
  | (k', v') :: r, k, v => if k' = k then (k, v) :: r else (k', v') :: ins r k v
def ers {κ α} [DecidableEq κ] : List (κ × α) → κ → List (κ × α)
  | [], _ => []
  | (k', v) :: r, k => if k' = k then ers r k else (k', v) :: ers r k

structure W (cr : Crypto) where
  prm : Nat                          -- walletData.Scrypt
  heap : List (Nat × Acc cr)         -- id ↦ AccountData object
  list : List Nat                    -- walletData.Accounts
  byAddr : List (Nat × Nat)          -- accAddrs
  byLabel : List (String × Nat)      -- accLabels
  dflt : Option Nat                  -- defaultAcc
  next : Nat                         -- allocation counter
  file : Option (Nat × List (Acc cr))  -- what the wallet file holds

variable {cr : Crypto}

def W.deref (w : W cr) (id : Nat) : Option (Acc cr) := lk w.heap id
def W.records (w : W cr) : List (Acc cr) := w.list.filterMap w.deref
def W.save (w : W cr) : W cr := { w with file := some (w.prm, w.records) }
def W.setObj (w : W cr) (id : Nat) (a : Acc cr) : W cr := { w with heap := ins w.heap id a }

/-- `NewClientImpl(path)` on a path with no file: default scrypt parameters -/
def W.fresh (cr : Crypto) : W cr := ⟨DEFAULT_PRM, [], [], [], [], none, 0, none⟩

/-- allocate the object, append it to `walletData.Accounts` and index it (`accAddrs`, `defaultAcc`, `accLabels`): the common
part of `load()` (per record) and of `addAccountData` -/
def W.push (w : W cr) (a : Acc cr) : W cr :=
  let id := w.next
  { w with heap := w.heap ++ [(id, a)], list := w.list ++ [id], next := id + 1,
           byAddr := ins w.byAddr a.addr id,
           byLabel := if a.label ≠ "" then ins w.byLabel a.label id else w.byLabel,
           dflt := if a.isDefault then some id else w.dflt }

/-- `load()`: index the records of the file in order (later entries overwrite earlier ones) -/
def loadRecs (w : W cr) : List (Acc cr) → W cr
  | [] => w
  | a :: r => loadRecs (w.push a) r

/-- `Open(path)` -/
def W.load (file : Option (Nat × List (Acc cr))) : W cr :=
  match file with
  | none => W.fresh cr
  | some (prm, recs) => loadRecs { (W.fresh cr) with prm := prm, file := some (prm, recs) } recs

def W.reload (w : W cr) : W cr := W.load w.file

inductive Err | ok | emptyPw | sigScheme | dupLabel | dupAddr | noAccount | isDefault | decrypt
deriving DecidableEq, Repr

/-- `addAccountData` -/
def W.addAccountData (w : W cr) (a : Acc cr) : Err × W cr :=
  if !checkSig a.alg a.scheme then (.sigScheme, w)
  else if a.label ≠ "" ∧ (lk w.byLabel a.label).isSome then (.dupLabel, w)
  else if (lk w.byAddr a.addr).isSome then (.dupAddr, w)
  else
    -- Go saves between the list append and the map updates; the file content does not depend on the maps
    (.ok, (w.push (if w.list.length = 0 then { a with isDefault := true } else a)).save)

/-- `NewAccount`: `sk`/`addr` = the generated key pair and its address, `salt` = the random salt -/
def W.newAccount (w : W cr) (label : String) (scheme pw sk addr salt : Nat) : Err × W cr :=
  if pw = 0 then (.emptyPw, w)
  else
    w.addAccountData ⟨addr, label, false, salt, cr.enc sk pw salt w.prm, 0, scheme, sk, pw, w.prm⟩

/-- `ImportAccount` of a record that was encrypted from `(sk, pw)` under parameters `prm`. Field by field as in the code:
Label, PubKey, SigSch, Key, Alg, Address, EncAlg, Hash, Salt, Param are taken from the metadata; `metaDefault` (the metadata's
`IsDefault`, e.g. of an account exported from a wallet where it was the default) is NOT copied — the fresh `AccountData` has
`IsDefault = false` and only `addAccountData`'s own rule (first account of the wallet) can set it. The assigned field set is
regenerated from the source by factgen (`Gen/WalletImport.lean`, theorem `C38_import_fields`). -/
def W.importAccount (w : W cr) (label : String) (alg scheme pw sk addr salt prm : Nat) (metaDefault : Bool) : Err × W cr :=
  let _ := metaDefault
  let label := if label ≠ "" ∧ (lk w.byLabel label).isSome then label ++ "_1" else label
  w.addAccountData ⟨addr, label, false, salt, cr.enc sk pw salt prm, alg, scheme, sk, pw, prm⟩

/-- `keypair.DecryptWithCustomScrypt(&accData.ProtectedKey, passwd, this.walletData.Scrypt)` -/
def W.decrypt (w : W cr) (a : Acc cr) (pw : Nat) : Option Nat :=
  if pw = 0 then none else cr.dec a.key pw a.salt w.prm

/-- `GetAccountByIndex(i+1, pw)` (0-based here): `none` = no such account, `some none` = decryption error -/
def W.openIndex (w : W cr) (i pw : Nat) : Option (Option Nat) :=
  match w.list[i]? with
  | none => none
  | some id => (w.deref id).map fun a => w.decrypt a pw

def W.openAddr (w : W cr) (addr pw : Nat) : Option (Option Nat) :=
  match lk w.byAddr addr with
  | none => none
  | some id => (w.deref id).map fun a => w.decrypt a pw

/-- `WalletData.DelAccount(address)`: removes the FIRST list entry with that address -/
def delFirst (w : W cr) (addr : Nat) : List Nat → List Nat
  | [] => []
  | id :: r =>
    match w.deref id with
    | some a => if a.addr = addr then r else id :: delFirst w addr r
    | none => id :: delFirst w addr r

/-- `DeleteAccount` -/
def W.deleteAccount (w : W cr) (addr pw : Nat) : Err × W cr :=
  match lk w.byAddr addr with
  | none => (.noAccount, w)
  | some id =>
    match w.deref id with
    | none => (.noAccount, w)
    | some a =>
      if a.isDefault then (.isDefault, w)
      else match w.decrypt a pw with
        | none => (.decrypt, w)
        | some _ =>
          let w1 : W cr := { w with list := delFirst w addr w.list }
          let w2 := w1.save
          let w3 : W cr := { w2 with byAddr := ers w2.byAddr addr }
          let w4 : W cr := if a.label ≠ "" then { w3 with byLabel := ers w3.byLabel a.label } else w3
          (.ok, w4)

/-- `this.defaultAcc != nil && this.defaultAcc.Address == address` -/
def W.defaultAddrIs (w : W cr) (addr : Nat) : Bool :=
  match w.dflt with
  | some d => (match w.deref d with | some a => decide (a.addr = addr) | none => false)
  | none => false

/-- `old := this.defaultAcc; if old != nil { old.IsDefault = false }` -/
def W.clearDefault (w : W cr) : W cr :=
  match w.dflt with
  | some d => (match w.deref d with | some o => w.setObj d { o with isDefault := false } | none => w)
  | none => w

/-- `SetDefaultAccount` -/
def W.setDefault (w : W cr) (addr : Nat) : Err × W cr :=
  if w.defaultAddrIs addr then (.ok, w)
  else match lk w.byAddr addr with
    | none => (.noAccount, w)
    | some id =>
      match w.deref id with
      | none => (.noAccount, w)
      | some _ =>
        -- re-read after clearing: `accData` is a pointer, it sees the cleared flag if it is the old default
        match w.clearDefault.deref id with
        | none => (.noAccount, w)
        | some a1 => (.ok, ({ (w.clearDefault.setObj id { a1 with isDefault := true }) with dflt := some id }).save)

/-- `SetLabel` -/
def W.setLabel (w : W cr) (addr : Nat) (label : String) : Err × W cr :=
  if (lk w.byLabel label).isSome then (.dupLabel, w)
  else match lk w.byAddr addr with
    | none => (.noAccount, w)
    | some id =>
      match w.deref id with
      | none => (.noAccount, w)
      | some a =>
        if a.label = label then (.ok, w)
        else
          let w1 := (w.setObj id { a with label := label }).save
          let w2 : W cr := { w1 with byLabel := ers w1.byLabel a.label }
          let w3 : W cr := if label = "" then w2 else { w2 with byLabel := ins w2.byLabel label id }
          (.ok, w3)

/-- `ChangePassword`; `salt` = the fresh random salt of the re-encryption -/
def W.changePassword (w : W cr) (addr old new salt : Nat) : Err × W cr :=
  if old = new then (.ok, w)
  else match lk w.byAddr addr with
    | none => (.noAccount, w)
    | some id =>
      match w.deref id with
      | none => (.noAccount, w)
      | some a =>
        match w.decrypt a old with
        | none => (.decrypt, w)
        | some k =>
          if new = 0 then (.emptyPw, w)
          else (.ok, (w.setObj id { a with key := cr.enc k new salt w.prm, salt := salt, gSk := k, gPw := new, gPrm := w.prm }).save)

/-- `ChangeSigScheme` -/
def W.changeScheme (w : W cr) (addr scheme : Nat) : Err × W cr :=
  match lk w.byAddr addr with
  | none => (.noAccount, w)
  | some id =>
    match w.deref id with
    | none => (.noAccount, w)
    | some a =>
      if !checkSig a.alg scheme then (.sigScheme, w)
      else (.ok, (w.setObj id { a with scheme := scheme }).save)

inductive Op
  | new (label : String) (scheme pw sk addr salt : Nat)
  | imp (label : String) (alg scheme pw sk addr salt prm : Nat) (metaDefault : Bool)
  | del (addr pw : Nat)
  | setDefault (addr : Nat)
  | setLabel (addr : Nat) (label : String)
  | changePw (addr old new salt : Nat)
  | changeScheme (addr scheme : Nat)
  | reload
  | openOther (prm : Nat)   -- another wallet file (scrypt parameters `prm`) is opened in the same process
deriving Repr

def W.step (w : W cr) : Op → Err × W cr
  | .new l s p sk a sa => w.newAccount l s p sk a sa
  | .imp l al s p sk a sa m d => w.importAccount l al s p sk a sa m d
  | .del a p => w.deleteAccount a p
  | .setDefault a => w.setDefault a
  | .setLabel a l => w.setLabel a l
  | .changePw a o n sa => w.changePassword a o n sa
  | .changeScheme a s => w.changeScheme a s
  | .reload => (.ok, w.reload)
  -- `NewClientImpl(otherPath)`: `NewWalletData` gives every wallet its own fresh `Scrypt` object
  -- (`keypair.GetScryptParameters()`), and `Load` decodes into that object only: nothing of `w` is shared
  | .openOther _ => (.ok, w)

def W.run (w : W cr) : List Op → W cr
  | [] => w
  | op :: r => W.run (w.step op).2 r

/-! ### observations (the getters of `ClientImpl`) -/

/-- `AccountMetadata` (ghost fields excluded) -/
structure Meta (cr : Crypto) where
  addr : Nat
  label : String
  isDefault : Bool
  salt : Nat
  key : cr.Cipher
  alg : Nat
  scheme : Nat

def Acc.meta (a : Acc cr) : Meta cr := ⟨a.addr, a.label, a.isDefault, a.salt, a.key, a.alg, a.scheme⟩

def W.num (w : W cr) : Nat := w.byAddr.length
def W.metaIndex (w : W cr) (i : Nat) : Option (Meta cr) := (w.list[i]?).bind fun id => (w.deref id).map Acc.meta
def W.metaAddr (w : W cr) (addr : Nat) : Option (Meta cr) := (lk w.byAddr addr).bind fun id => (w.deref id).map Acc.meta
def W.metaLabel (w : W cr) (l : String) : Option (Meta cr) :=
  if l = "" then none else (lk w.byLabel l).bind fun id => (w.deref id).map Acc.meta
def W.metaDefault (w : W cr) : Option (Meta cr) := w.dflt.bind fun id => (w.deref id).map Acc.meta

end OntVerif.Model.Wallet
