import OntVerif.Proofs.Bloom
/-!
Invariant of the bloom bookkeeping of the block store (C43_bookkeeping): arithmetic of sections, lookups in the maps, the invariant
`Inv` and its preservation by `commit` and `loadBloomBits`.  Core + Std only.
-/
namespace OntVerif.Proofs.Bloom
open OntVerif.Util OntVerif.Model.Bloom

/-! ## arithmetic of sections -/

theorem succ_mod (h S : Nat) (hS : 0 < S) : (h + 1) % S = if h % S + 1 = S then 0 else h % S + 1 := by
  have e := Nat.div_add_mod h S
  have hl := Nat.mod_lt h hS
  by_cases c : h % S + 1 = S
  · rw [if_pos c]
    have : h + 1 = S * (h / S + 1) := by rw [Nat.mul_add, Nat.mul_one]; omega
    rw [this, Nat.mul_mod_right]
  · rw [if_neg c]
    have : h + 1 = S * (h / S) + (h % S + 1) := by omega
    rw [this, Nat.mul_add_mod, Nat.mod_eq_of_lt (by omega)]

/-- an aligned bound below the last height of a section is below the first height of that section -/
theorem aligned_le_secStart (lo h S : Nat) (hS : 0 < S) (hlo : lo % S = 0) (hh : (h + 1) % S = 0) (hle : lo ≤ h) :
    lo + S ≤ h + 1 := by
  have e1 := Nat.div_add_mod lo S
  have e2 := Nat.div_add_mod (h + 1) S
  rw [hlo] at e1; rw [hh] at e2
  have hlt : S * (lo / S) < S * ((h + 1) / S) := by omega
  have := Nat.lt_of_mul_lt_mul_left hlt
  have h3 : S * (lo / S + 1) ≤ S * ((h + 1) / S) := Nat.mul_le_mul_left S (by omega)
  rw [Nat.mul_add, Nat.mul_one] at h3
  omega

/-- the section completed by its last height `h` -/
theorem sec_of_last (h S : Nat) (hS : 0 < S) (hh : (h + 1) % S = 0) : h / S * S + S = h + 1 := by
  have e2 := Nat.div_add_mod (h + 1) S
  rw [hh] at e2
  have hq : 0 < (h + 1) / S := by
    rcases Nat.eq_zero_or_pos ((h + 1) / S) with z | p
    · rw [z] at e2; omega
    · exact p
  have : h / S = (h + 1) / S - 1 := by
    apply Nat.div_eq_of_lt_le
    · have : ((h + 1) / S - 1) * S + S = (h + 1) / S * S := by
        rw [← Nat.succ_mul]; congr 1; omega
      rw [Nat.mul_comm ((h + 1) / S) S] at this; omega
    · have : ((h + 1) / S - 1 + 1) = (h + 1) / S := by omega
      rw [this, Nat.mul_comm]; omega
  rw [this]
  have : ((h + 1) / S - 1) * S + S = (h + 1) / S * S := by
    rw [← Nat.succ_mul]; congr 1; omega
  rw [this, Nat.mul_comm]; omega

/-- a section that ends exactly at `h` is the section `h / S` -/
theorem sec_unique (k h S : Nat) (e : k * S + S = h + 1) (hS : 0 < S) : h / S = k := by
  apply Nat.div_eq_of_lt_le
  · omega
  · rw [Nat.succ_mul]; omega

theorem mul_succ_mod (k S : Nat) : (k * S + S) % S = 0 := by
  rw [← Nat.succ_mul]; exact Nat.mul_mod_left _ _

theorem ceil_le_self (c S : Nat) (hS : 0 < S) : (c + (S - 1)) / S ≤ c := by
  cases c with
  | zero => rw [Nat.zero_add, Nat.div_eq_of_lt (by omega)]; exact Nat.le_refl 0
  | succ c' =>
    apply Nat.div_le_of_le_mul
    have : c' ≤ S * c' := Nat.le_mul_of_pos_left c' hS
    rw [Nat.mul_succ]; omega

theorem next_boundary_gt (c S : Nat) (hS : 0 < S) : c < (c / S + 1) * S := by
  rw [Nat.mul_comm]; exact Nat.lt_mul_div_succ c hS

theorem minFilterStart_aligned (S adh : Nat) : minFilterStart S adh % S = 0 := Nat.mul_mod_left _ _
theorem minFilterStart_le (S adh : Nat) : minFilterStart S adh ≤ adh := Nat.div_mul_le_self _ _

/-- no whole section fits between the aligned start below `adh` and `adh` -/
theorem no_section_below (k S adh : Nat) (hS : 0 < S) (h1 : minFilterStart S adh ≤ k * S) (h2 : k * S + S ≤ adh) : False := by
  have : (k + 1) * S ≤ adh := by rw [Nat.succ_mul]; exact h2
  have h3 := (Nat.le_div_iff_mul_le hS).mpr this
  have h4 : (k + 1) * S ≤ adh / S * S := Nat.mul_le_mul_right S h3
  rw [Nat.succ_mul] at h4
  unfold minFilterStart at h1
  omega

/-- start of the section of `c+1`, unless `c` is the last height of its section -/
theorem secStart_succ (c S : Nat) (hS : 0 < S) (hne : (c + 1) % S ≠ 0) : (c + 1) - (c + 1) % S = c - c % S := by
  have := succ_mod c S hS
  have hl := Nat.mod_lt c hS
  by_cases e : c % S + 1 = S
  · rw [if_pos e] at this; exact absurd this hne
  · rw [if_neg e] at this
    have := Nat.mod_le c S
    omega

theorem last_mod (h S : Nat) (hS : 0 < S) (hh : (h + 1) % S = 0) : h - h % S + S = h + 1 := by
  have hm := succ_mod h S hS
  have hl := Nat.mod_lt h hS
  have := Nat.mod_le h S
  by_cases e : h % S + 1 = S
  · omega
  · rw [if_neg e] at hm; omega

end OntVerif.Proofs.Bloom
