import OntVerif.Proofs.Bloom
/-!
Invariant of the bloom bookkeeping of the block store (C43_bookkeeping): arithmetic of sections, lookups in the maps, the invariant
`Inv` and its preservation by `commit` and `loadBloomBits`.  Core + Std only.
-/
namespace OntVerif.Proofs.Bloom
open OntVerif.Util OntVerif.Model.Bloom

/-! ## arithmetic of sections -/

theorem succ_mod (h S : Nat) (hS : 0 < S) : (h + 1) % S = if h % S + 1 = S then 0 else h % S + 1 := by
  have e := Nat.div_add_mod h S
  have hl := Nat.mod_lt h hS
  by_cases c : h % S + 1 = S
  · rw [if_pos c]
    have : h + 1 = S * (h / S + 1) := by rw [Nat.mul_add, Nat.mul_one]; omega
    rw [this, Nat.mul_mod_right]
  · rw [if_neg c]
    have : h + 1 = S * (h / S) + (h % S + 1) := by omega
    rw [this, Nat.mul_add_mod, Nat.mod_eq_of_lt (by omega)]

/-- an aligned bound below the last height of a section is below the first height of that section -/
theorem aligned_le_secStart (lo h S : Nat) (hS : 0 < S) (hlo : lo % S = 0) (hh : (h + 1) % S = 0) (hle : lo ≤ h) :
    lo + S ≤ h + 1 := by
  have e1 := Nat.div_add_mod lo S
  have e2 := Nat.div_add_mod (h + 1) S
  rw [hlo] at e1; rw [hh] at e2
  have hlt : S * (lo / S) < S * ((h + 1) / S) := by omega
  have := Nat.lt_of_mul_lt_mul_left hlt
  have h3 : S * (lo / S + 1) ≤ S * ((h + 1) / S) := Nat.mul_le_mul_left S (by omega)
  rw [Nat.mul_add, Nat.mul_one] at h3
  omega

/-- the section completed by its last height `h` -/
theorem sec_of_last (h S : Nat) (hS : 0 < S) (hh : (h + 1) % S = 0) : h / S * S + S = h + 1 := by
  have e2 := Nat.div_add_mod (h + 1) S
  rw [hh] at e2
  have hq : 0 < (h + 1) / S := by
    rcases Nat.eq_zero_or_pos ((h + 1) / S) with z | p
    · rw [z] at e2; omega
    · exact p
  have : h / S = (h + 1) / S - 1 := by
    apply Nat.div_eq_of_lt_le
    · have : ((h + 1) / S - 1) * S + S = (h + 1) / S * S := by
        rw [← Nat.succ_mul]; congr 1; omega
      rw [Nat.mul_comm ((h + 1) / S) S] at this; omega
    · have : ((h + 1) / S - 1 + 1) = (h + 1) / S := by omega
      rw [this, Nat.mul_comm]; omega
  rw [this]
  have : ((h + 1) / S - 1) * S + S = (h + 1) / S * S := by
    rw [← Nat.succ_mul]; congr 1; omega
  rw [this, Nat.mul_comm]; omega

/-- a section that ends exactly at `h` is the section `h / S` -/
theorem sec_unique (k h S : Nat) (e : k * S + S = h + 1) (hS : 0 < S) : h / S = k := by
  apply Nat.div_eq_of_lt_le
  · omega
  · rw [Nat.succ_mul]; omega

theorem mul_succ_mod (k S : Nat) : (k * S + S) % S = 0 := by
  rw [← Nat.succ_mul]; exact Nat.mul_mod_left _ _

theorem ceil_le_self (c S : Nat) (hS : 0 < S) : (c + (S - 1)) / S ≤ c := by
  cases c with
  | zero => rw [Nat.zero_add, Nat.div_eq_of_lt (by omega)]; exact Nat.le_refl 0
  | succ c' =>
    apply Nat.div_le_of_le_mul
    have : c' ≤ S * c' := Nat.le_mul_of_pos_left c' hS
    rw [Nat.mul_succ]; omega

theorem next_boundary_gt (c S : Nat) (hS : 0 < S) : c < (c / S + 1) * S := by
  rw [Nat.mul_comm]; exact Nat.lt_mul_div_succ c hS

theorem minFilterStart_aligned (S adh : Nat) : minFilterStart S adh % S = 0 := Nat.mul_mod_left _ _
theorem minFilterStart_le (S adh : Nat) : minFilterStart S adh ≤ adh := Nat.div_mul_le_self _ _

/-- no whole section fits between the aligned start below `adh` and `adh` -/
theorem no_section_below (k S adh : Nat) (hS : 0 < S) (h1 : minFilterStart S adh ≤ k * S) (h2 : k * S + S ≤ adh) : False := by
  have : (k + 1) * S ≤ adh := by rw [Nat.succ_mul]; exact h2
  have h3 := (Nat.le_div_iff_mul_le hS).mpr this
  have h4 : (k + 1) * S ≤ adh / S * S := Nat.mul_le_mul_right S h3
  rw [Nat.succ_mul] at h4
  unfold minFilterStart at h1
  omega

/-- start of the section of `c+1`, unless `c` is the last height of its section -/
theorem secStart_succ (c S : Nat) (hS : 0 < S) (hne : (c + 1) % S ≠ 0) : (c + 1) - (c + 1) % S = c - c % S := by
  have := succ_mod c S hS
  have hl := Nat.mod_lt c hS
  by_cases e : c % S + 1 = S
  · rw [if_pos e] at this; exact absurd this hne
  · rw [if_neg e] at this
    have := Nat.mod_le c S
    omega

theorem last_mod (h S : Nat) (hS : 0 < S) (hh : (h + 1) % S = 0) : h - h % S + S = h + 1 := by
  have hm := succ_mod h S hS
  have hl := Nat.mod_lt h hS
  have := Nat.mod_le h S
  by_cases e : h % S + 1 = S
  · omega
  · rw [if_neg e] at hm; omega


/-! ## maps -/

theorem getBloomData_ins (st st' : Store) (h h' : Nat) (b : Bloom) (e : st'.blooms = st.blooms.insert h b) :
    getBloomData st' h' = if h = h' then b else getBloomData st h' := by
  unfold getBloomData
  rw [e]
  simp only [Std.HashMap.getElem?_insert, beq_iff_eq]
  by_cases e : h = h' <;> simp [e]

theorem loadFrom_get (st : Store) (n lo : Nat) (c0 : HMap) (h : Nat) :
    (loadFrom st lo n c0)[h]? = if lo ≤ h ∧ h < lo + n then some (getBloomData st h) else c0[h]? := by
  induction n generalizing lo c0 with
  | zero => simp only [loadFrom]; rw [if_neg (by omega)]
  | succ n ih =>
    rw [loadFrom, ih]
    by_cases a : lo + 1 ≤ h ∧ h < lo + 1 + n
    · rw [if_pos a, if_pos (by omega)]
    · rw [if_neg a]
      simp only [Std.HashMap.getElem?_insert, beq_iff_eq]
      by_cases e : lo = h
      · subst e; rw [if_pos rfl, if_pos (by omega)]
      · rw [if_neg e, if_neg (by omega)]

theorem collect_spec (given : Nat → Bloom) (cache : HMap) (n lo : Nat)
    (hc : ∀ h, lo ≤ h → h < lo + n → cache[h]? = some (given h)) :
    collect cache lo n = some (secBlooms given lo n) := by
  induction n generalizing lo with
  | zero => rfl
  | succ n ih =>
    rw [collect, hc lo (Nat.le_refl _) (by omega), ih (lo + 1) (fun h h1 h2 => hc h (by omega) (by omega))]
    rfl


theorem secBlooms_length (given : Nat → Bloom) (n lo : Nat) : (secBlooms given lo n).length = n := by
  induction n generalizing lo with
  | zero => rfl
  | succ n ih => simp [secBlooms, ih]

theorem secBlooms_getElem (given : Nat → Bloom) (n lo j : Nat) (hj : j < (secBlooms given lo n).length) :
    (secBlooms given lo n)[j] = given (lo + j) := by
  induction n generalizing lo j with
  | zero => simp [secBlooms] at hj
  | succ n ih =>
    cases j with
    | zero => simp [secBlooms]
    | succ j' =>
      simp only [secBlooms, List.getElem_cons_succ]
      rw [ih]; congr 1; omega

/-! ## the invariant -/

/-- store part: from the aligned height `lo` on, every height up to the current one reads back the block's bloom and every complete
section is indexed with the blooms of its heights -/
structure SInv (S : Nat) (given : Nat → Bloom) (lo c : Nat) (st : Store) : Prop where
  cur : st.cur = some c
  stored : ∀ h, lo ≤ h → h ≤ c → getBloomData st h = given h
  index : ∀ k, lo ≤ k * S → k * S + S ≤ c + 1 → lookup k st.index = some (secBlooms given (k * S) S)

structure Inv (S : Nat) (given : Nat → Bloom) (lo c : Nat) (s : St) : Prop where
  st : SInv S given lo c s.store
  lo_al : lo % S = 0
  lo_fs : lo ≤ s.mem.filterStart
  fs : s.mem.filterStart ≤ lo ∨ s.mem.filterStart ≤ c
  key : ∀ k, s.store.filterKey = some k → lo ≤ k ∧ (k ≤ lo ∨ k ≤ c)
  nokey : s.store.filterKey = none → lo = 0
  cache : ∀ h, lo ≤ h → (c + 1) - (c + 1) % S ≤ h → h ≤ c → s.mem.cache[h]? = some (given h)

theorem SInv.weaken {S given lo lo' c st} (h : SInv S given lo c st) (hle : lo ≤ lo') : SInv S given lo' c st :=
  ⟨h.cur, fun x a b => h.stored x (by omega) b, fun k a b => h.index k (by omega) b⟩

/-- committing the next block keeps the invariant and never panics -/
theorem commit_inv {S : Nat} {given : Nat → Bloom} {lo c : Nat} {s : St} (hS : 0 < S) (h8 : S % 8 = 0)
    (I : Inv S given lo c s) :
    ∃ s', commit S s (c + 1) (given (c + 1)) = some s' ∧ Inv S given lo (c + 1) s' ∧ s'.store.filterKey = s.store.filterKey := by
  unfold commit saveBloomData
  by_cases hskip : c + 1 < s.mem.filterStart
  · -- below the filter start: nothing is written
    rw [if_pos hskip]
    have hfl : s.mem.filterStart ≤ lo := by rcases I.fs with a | a <;> omega
    refine ⟨_, rfl, ⟨⟨rfl, fun h a b => ?_, fun k a b => ?_⟩, I.lo_al, I.lo_fs, Or.inl hfl, fun k hk => ?_, I.nokey, fun h a b d => ?_⟩, rfl⟩
    · by_cases e : h = c + 1
      · omega
      · exact I.st.stored h a (by omega)
    · have := I.lo_fs
      by_cases e : k * S + S = c + 1 + 1
      · omega
      · exact I.st.index k a (by omega)
    · have := I.key k hk; omega
    · omega
  · rw [if_neg hskip]
    have hlo : lo ≤ c + 1 := by have := I.lo_fs; omega
    simp only []
    by_cases hend : (c + 1 + 1) % S = 0
    · -- the block completes a section
      rw [if_pos hend]
      have hstart : c + 1 - (c + 1) % S + S = c + 1 + 1 := last_mod (c + 1) S hS hend
      have hal := aligned_le_secStart lo (c + 1) S hS I.lo_al hend hlo
      have hsec := sec_of_last (c + 1) S hS hend
      have hcol : collect (if c + 1 > S * 2 then ((s.mem.cache.insert (c + 1) (given (c + 1))).erase (c + 1 - S * 2))
            else s.mem.cache.insert (c + 1) (given (c + 1))) (c + 1 + 1 - S) S
          = some (secBlooms given (c + 1 + 1 - S) S) := by
        apply collect_spec
        intro h a b
        by_cases e : h = c + 1
        · subst e
          split <;> simp [Std.HashMap.getElem?_erase] <;> omega
        · have hc := I.cache h (by omega) (by omega) (by omega)
          split
          · rw [Std.HashMap.getElem?_erase, if_neg (by simp; omega), Std.HashMap.getElem?_insert, if_neg (by simp; omega)]
            exact hc
          · rw [Std.HashMap.getElem?_insert, if_neg (by simp; omega)]
            exact hc
      rw [hcol]
      simp only [h8, ne_eq, not_true_eq_false, if_false]
      refine ⟨_, rfl, ⟨⟨rfl, fun h a b => ?_, fun k a b => ?_⟩, I.lo_al, I.lo_fs, Or.inr (by simp; omega), fun k hk => ?_, I.nokey, fun h a b d => ?_⟩, rfl⟩
      · rw [getBloomData_ins s.store _ (c + 1) h (given (c + 1)) rfl]
        by_cases e : c + 1 = h
        · rw [if_pos e, e]
        · rw [if_neg e]; exact I.st.stored h a (by omega)
      · simp only [lookup]
        by_cases e : (c + 1) / S = k
        · rw [if_pos e]
          have : c + 1 + 1 - S = k * S := by rw [← e]; omega
          rw [this]
        · rw [if_neg e]
          have : k * S + S ≠ c + 1 + 1 := fun x => e (sec_unique k (c + 1) S x hS)
          exact I.st.index k a (by omega)
      · have := I.key k hk; omega
      · simp only [] at b d ⊢
        rw [hend] at b; omega
    · -- inside a section
      rw [if_neg hend]
      refine ⟨_, rfl, ⟨⟨rfl, fun h a b => ?_, fun k a b => ?_⟩, I.lo_al, I.lo_fs, Or.inr (by simp; omega), fun k hk => ?_, I.nokey, fun h a b d => ?_⟩, rfl⟩
      · rw [getBloomData_ins s.store _ (c + 1) h (given (c + 1)) rfl]
        by_cases e : c + 1 = h
        · rw [if_pos e, e]
        · rw [if_neg e]; exact I.st.stored h a (by omega)
      · simp only []
        have : k * S + S ≠ c + 1 + 1 := fun x => hend (by rw [← x]; exact mul_succ_mod k S)
        exact I.st.index k a (by omega)
      · have := I.key k hk; omega
      · simp only [] at b d ⊢
        rw [secStart_succ (c + 1) S hS hend] at b
        have hm := Nat.mod_lt (c + 1) hS
        by_cases e : h = c + 1
        · subst e
          split <;> simp [Std.HashMap.getElem?_erase] <;> omega
        · have hc : s.mem.cache[h]? = some (given h) := by
            apply I.cache h a _ (by omega)
            by_cases z : (c + 1) % S = 0
            · rw [z] at b; omega
            · rw [secStart_succ c S hS z]
              have := succ_mod c S hS
              by_cases y : c % S + 1 = S
              · rw [if_pos y] at this; exact absurd this z
              · rw [if_neg y] at this; have := Nat.mod_le c S; omega
          split
          · rw [Std.HashMap.getElem?_erase, if_neg (by simp; omega), Std.HashMap.getElem?_insert, if_neg (by simp; omega)]
            exact hc
          · rw [Std.HashMap.getElem?_insert, if_neg (by simp; omega)]
            exact hc


theorem getBloomData_congr (st st' : Store) (e : st'.blooms = st.blooms) (h : Nat) : getBloomData st' h = getBloomData st h := by
  unfold getBloomData; rw [e]

/-- `LoadBloomBits` establishes the invariant from the store part, for whatever value `K` the filter start takes, provided `K` is
compatible with the aligned bound `lo` -/
theorem load_inv {S : Nat} {given : Nat → Bloom} {lo c : Nat} {st : Store} (v : Variant) (adh : Nat) (hS : 0 < S)
    (I : SInv S given lo c st) (hal : lo % S = 0) (K : Nat)
    (hK : K = filterStartOf v S adh st.filterKey c)
    (h1 : lo ≤ K) (h2 : K ≤ lo ∨ K ≤ c) :
    Inv S given lo c (loadBloomBits v S adh st) ∧ (loadBloomBits v S adh st).store.filterKey = some K := by
  unfold loadBloomBits
  simp only [I.cur, ← hK]
  have sinv : SInv S given lo c ⟨some c, some K, st.blooms, st.index⟩ :=
    ⟨rfl, fun h a b => by rw [getBloomData_congr st ⟨some c, some K, st.blooms, st.index⟩ rfl]; exact I.stored h a b, I.index⟩
  by_cases hlt : c < K
  · rw [if_pos hlt]
    refine ⟨⟨sinv, hal, h1, h2, fun k hk => ?_, fun hk => by simp at hk, fun h a b d => by omega⟩, rfl⟩
    simp only [Option.some.injEq] at hk; subst hk; exact ⟨h1, h2⟩
  · rw [if_neg hlt]
    refine ⟨⟨sinv, hal, h1, h2, fun k hk => ?_, fun hk => by simp at hk, fun h a b d => ?_⟩, rfl⟩
    · simp only [Option.some.injEq] at hk; subst hk; exact ⟨h1, h2⟩
    · simp only []
      rw [loadFrom_get]
      have hm := Nat.mod_le c S
      have hge : c - c % S ≤ h := by
        by_cases z : (c + 1) % S = 0
        · rw [z] at b; omega
        · rw [secStart_succ c S hS z] at b; exact b
      rw [if_pos (by omega), getBloomData_congr st ⟨some c, some K, st.blooms, st.index⟩ rfl, I.stored h a d]

theorem initStart_aligned_of_gt (v : Variant) (S adh c : Nat) (hS : 0 < S) (h : c < initStart v S adh c) :
    initStart v S adh c % S = 0 := by
  unfold initStart at h ⊢
  by_cases a : c < adh
  · rw [if_pos a]; exact minFilterStart_aligned S adh
  · rw [if_neg a] at h ⊢
    cases v with
    | asShipped => simp only [] at h; have := ceil_le_self c S hS; omega
    | sound => exact Nat.mul_mod_left _ _

/-- a reopen keeps the invariant; the aligned bound changes only when the filter start is fixed for the first time above the
current height -/
theorem reopen_inv {S : Nat} {given : Nat → Bloom} {lo c : Nat} {s : St} (v : Variant) (adh : Nat) (hS : 0 < S)
    (I : Inv S given lo c s) :
    ∃ lo', Inv S given lo' c (loadBloomBits v S adh s.store) ∧ (loadBloomBits v S adh s.store).store.filterKey ≠ none ∧
      (lo' = lo ∨ (s.store.filterKey = none ∧ c < lo' ∧ lo' = initStart v S adh c)) := by
  cases hk : s.store.filterKey with
  | some k =>
    have := I.key k hk
    obtain ⟨i, e⟩ := load_inv v adh hS I.st I.lo_al k (by rw [hk]; rfl) this.1 this.2
    exact ⟨lo, i, by rw [e]; simp, Or.inl rfl⟩
  | none =>
    have l0 := I.nokey hk
    subst l0
    by_cases hle : initStart v S adh c ≤ c
    · obtain ⟨i, e⟩ := load_inv v adh hS I.st I.lo_al (initStart v S adh c) (by rw [hk]; rfl) (Nat.zero_le _) (Or.inr hle)
      exact ⟨0, i, by rw [e]; simp, Or.inl rfl⟩
    · have hgt : c < initStart v S adh c := by omega
      obtain ⟨i, e⟩ := load_inv v adh hS (I.st.weaken (Nat.zero_le (initStart v S adh c)))
        (initStart_aligned_of_gt v S adh c hS hgt) (initStart v S adh c) (by rw [hk]; rfl) (Nat.le_refl _) (Or.inl (Nat.le_refl _))
      exact ⟨_, i, by rw [e]; simp, Or.inr ⟨rfl, hgt, rfl⟩⟩


/-! ## starts -/

theorem genesis_commit {S : Nat} {given : Nat → Bloom} (hS : 2 ≤ S) :
    ∃ s, commit S ⟨newMem, emptyStore⟩ 0 (given 0) = some s ∧ Inv S given 0 0 s ∧ s.store.filterKey = none := by
  have h1 : (0 + 1) % S ≠ 0 := by rw [Nat.mod_eq_of_lt (by omega)]; omega
  unfold commit saveBloomData newMem emptyStore
  simp only [Nat.lt_irrefl, if_false, h1, gt_iff_lt, Nat.not_lt_zero]
  refine ⟨_, rfl, ⟨⟨rfl, fun h a b => ?_, fun k a b => by omega⟩, Nat.zero_mod S, Nat.le_refl _, Or.inl (Nat.le_refl _),
    fun k hk => by simp at hk, fun _ => rfl, fun h a b d => ?_⟩, rfl⟩
  · have : h = 0 := by omega
    subst this
    simp [getBloomData]
  · have : h = 0 := by omega
    subst this
    simp

theorem sinv_setKey {S : Nat} {given : Nat → Bloom} {lo c : Nat} {st : Store} (I : SInv S given lo c st) (k : Option Nat) :
    SInv S given lo c { st with filterKey := k } :=
  ⟨I.cur, fun h a b => by rw [getBloomData_congr st { st with filterKey := k } rfl]; exact I.stored h a b, I.index⟩

theorem start_fresh_asShipped {S : Nat} {given : Nat → Bloom} (adh : Nat) (hS : 2 ≤ S) :
    ∃ s, start .asShipped S adh given .fresh = some s ∧ Inv S given 0 0 s := by
  obtain ⟨s, e, i, _⟩ := genesis_commit (given := given) hS
  exact ⟨s, by simp [start, e], i⟩

theorem start_fresh_sound {S : Nat} {given : Nat → Bloom} (adh : Nat) (hS : 2 ≤ S) :
    ∃ s, start .sound S adh given .fresh = some s ∧ Inv S given (minFilterStart S adh) 0 s ∧ s.store.filterKey ≠ none := by
  obtain ⟨s, e, i, _⟩ := genesis_commit (given := given) hS
  refine ⟨⟨{ s.mem with filterStart := minFilterStart S adh }, { s.store with filterKey := some (minFilterStart S adh) }⟩,
    by simp [start, e], ⟨(sinv_setKey i.st _).weaken (Nat.zero_le _), minFilterStart_aligned S adh, Nat.le_refl _,
    Or.inl (Nat.le_refl _), fun k hk => ?_, fun hk => by simp at hk, fun h a b d => i.cache h (Nat.zero_le _) b d⟩, by simp⟩
  simp only [Option.some.injEq] at hk
  subst hk
  exact ⟨Nat.le_refl _, Or.inl (Nat.le_refl _)⟩

theorem start_legacy_sound {S : Nat} {given : Nat → Bloom} (adh cur0 : Nat) (hS : 0 < S) (hg : ∀ h, h < adh → given h = 0) :
    ∃ s lo, start .sound S adh given (.legacy cur0) = some s ∧ Inv S given lo cur0 s ∧ s.store.filterKey ≠ none := by
  have hst : SInv S given (initStart .sound S adh cur0) cur0 { emptyStore with cur := some cur0 } := by
    refine ⟨rfl, fun h a b => ?_, fun k a b => ?_⟩
    · unfold initStart at a
      by_cases x : cur0 < adh
      · rw [hg h (by omega)]; simp [getBloomData, emptyStore]
      · rw [if_neg x] at a
        have := next_boundary_gt cur0 S hS
        simp only [] at a; omega
    · exfalso
      unfold initStart at a
      by_cases x : cur0 < adh
      · rw [if_pos x] at a; exact no_section_below k S adh hS a (by omega)
      · rw [if_neg x] at a
        have := next_boundary_gt cur0 S hS
        simp only [] at a; omega
  have hal : initStart .sound S adh cur0 % S = 0 := by
    unfold initStart
    by_cases x : cur0 < adh
    · rw [if_pos x]; exact minFilterStart_aligned S adh
    · rw [if_neg x]; exact Nat.mul_mod_left _ _
  obtain ⟨i, e⟩ := load_inv .sound adh hS hst hal (initStart .sound S adh cur0) rfl (Nat.le_refl _) (Or.inl (Nat.le_refl _))
  exact ⟨_, _, rfl, i, by rw [e]; simp⟩

/-! ## histories -/

theorem initStart_asShipped_gt (S adh c : Nat) (hS : 0 < S) (h : c < initStart .asShipped S adh c) :
    initStart .asShipped S adh c = minFilterStart S adh := by
  unfold initStart at h ⊢
  by_cases a : c < adh
  · rw [if_pos a]
  · rw [if_neg a] at h; simp only [] at h; have := ceil_le_self c S hS; omega

/-- once the filter start is persisted the aligned bound never changes -/
theorem runOps_keyed {S : Nat} {given : Nat → Bloom} (v : Variant) (adh : Nat) (hS : 0 < S) (h8 : S % 8 = 0) (ops : List Op)
    {lo c : Nat} {s : St} (I : Inv S given lo c s) (hk : s.store.filterKey ≠ none) :
    ∃ s' c', runOps v S adh given s ops = some s' ∧ Inv S given lo c' s' := by
  induction ops generalizing c s with
  | nil => exact ⟨s, c, rfl, I⟩
  | cons op r ih =>
    cases op with
    | save =>
      obtain ⟨s1, e1, i1, k1⟩ := commit_inv hS h8 I
      obtain ⟨s', c', e2, i2⟩ := ih i1 (by rw [k1]; exact hk)
      exact ⟨s', c', by simp [runOps, step, I.st.cur, e1, e2], i2⟩
    | reopen =>
      obtain ⟨lo', i1, k1, hl⟩ := reopen_inv v adh hS I
      rcases hl with rfl | ⟨x, _, _⟩
      · obtain ⟨s', c', e2, i2⟩ := ih i1 k1
        exact ⟨s', c', by simp [runOps, step, e2], i2⟩
      · exact absurd x hk

/-- as shipped: the aligned bound stays 0 until the filter start is fixed above the current height, which happens only below
`adh` and then it is `MinFilterStart` -/
theorem runOps_asShipped {S : Nat} {given : Nat → Bloom} (adh : Nat) (hS : 0 < S) (h8 : S % 8 = 0) (ops : List Op)
    {lo c : Nat} {s : St} (I : Inv S given lo c s) (hlo : lo ≤ minFilterStart S adh) :
    ∃ s' lo' c', runOps .asShipped S adh given s ops = some s' ∧ Inv S given lo' c' s' ∧ lo' ≤ minFilterStart S adh := by
  induction ops generalizing lo c s with
  | nil => exact ⟨s, lo, c, rfl, I, hlo⟩
  | cons op r ih =>
    cases op with
    | save =>
      obtain ⟨s1, e1, i1, _⟩ := commit_inv hS h8 I
      obtain ⟨s', lo', c', e2, i2, b2⟩ := ih i1 hlo
      exact ⟨s', lo', c', by simp [runOps, step, I.st.cur, e1, e2], i2, b2⟩
    | reopen =>
      obtain ⟨lo1, i1, _, hl⟩ := reopen_inv .asShipped adh hS I
      have b1 : lo1 ≤ minFilterStart S adh := by
        rcases hl with rfl | ⟨_, x, y⟩
        · exact hlo
        · rw [y, initStart_asShipped_gt S adh c hS (by rw [← y]; exact x)]; exact Nat.le_refl _
      obtain ⟨s', lo', c', e2, i2, b2⟩ := ih i1 b1
      exact ⟨s', lo', c', by simp [runOps, step, e2], i2, b2⟩

/-- the blooms used by the witnesses in `Props/C43.lean`: block 2 has a log -/
def exGiven : Nat → Bloom := fun h => if h = 2 then 1 else 0

end OntVerif.Proofs.Bloom
