import OntVerif.Proofs.P2PMsgRt
/-! C24 helper lemmas, top level: `ReadMessage`/`Rx` never panic, header checks, the Addr patch is conservative,
canonical payloads re-encode to themselves. Core-only. -/
namespace OntVerif.Proofs.P2PMsg
open OntVerif.Util OntVerif.Model.Codec OntVerif.Proofs.Codec OntVerif.Model.P2PMsg

theorem Spec.noPanic {g} {d : Dec α} {R : α → Bytes → Prop} (h : Spec g d R) (s : St) (w : s.src.wf)
    (h63 : s.src.bs.length < 2 ^ 63) : d s ≠ .panic := by
  intro hp
  have := h s w h63
  rw [hp] at this
  exact this

theorem spec_parseHeader {g} : Spec g parseHeader (fun _ _ => True) := by
  unfold parseHeader
  apply Spec.bind (spec_nUint 4 (lt64 4)); intro m
  apply Spec.bind (spec_nBytes 12 (lt64 12)); intro c
  apply Spec.bind (spec_nUint 4 (lt64 4)); intro l
  apply Spec.bind (spec_nBytes 4 (lt64 4)); intro k
  apply Spec.pure
  intros; trivial

theorem readFull_length (st : Bytes) (n : Nat) (b r : Bytes) (h : readFull st n = .ok (b, r)) :
    b.length = n ∧ r.length ≤ st.length ∧ b.length + r.length = st.length := by
  unfold readFull at h
  split at h
  · injection h with h; injection h with h1 h2; subst h1 h2; rename_i hn; simp [hn]
  · split at h
    · injection h with h; injection h with h1 h2; subst h1 h2; simp; omega
    · split at h <;> cases h

theorem readMessage_noPanic (magic : Nat) (H : Bytes → Bytes) (stream : Bytes) (hl : stream.length < two64) :
    readMessage .sound magic H stream ≠ .panic := by
  unfold readMessage
  cases h1 : readFull stream 24 with
  | error e => simp
  | ok r =>
    obtain ⟨hb, rest⟩ := r
    obtain ⟨l1, l2, l3⟩ := readFull_length _ _ _ _ h1
    simp only
    have wfh : (St.init hb).src.wf := ⟨by simp [St.init], by simp [St.init]; omega⟩
    have hp := spec_parseHeader (g := false).noPanic (St.init hb) wfh (by simp [St.init]; omega)
    cases h2 : parseHeader (St.init hb) with
    | panic => exact (hp h2).elim
    | err e => simp
    | ok r2 =>
      obtain ⟨hdr, _⟩ := r2
      simp only
      split
      · simp
      · split
        · simp
        · cases h3 : readFull rest hdr.length with
          | error e => simp
          | ok r3 =>
            obtain ⟨buf, rest'⟩ := r3
            obtain ⟨m1, m2, m3⟩ := readFull_length _ _ _ _ h3
            simp only
            split
            · simp
            · have wfb : (St.init buf).src.wf := ⟨by simp [St.init], by simp [St.init]; omega⟩
              have hd := (spec_decodePayload (trimRight0 hdr.cmd)).noPanic (St.init buf) wfb
                (by rename_i hlen _; simp only [St.init]; unfold MAX_PAYLOAD_LEN at hlen; omega)
              cases h4 : decodePayload .sound (trimRight0 hdr.cmd) (St.init buf) with
              | panic => exact (hd h4).elim
              | err e => simp
              | ok r4 => simp

theorem readMessage_rest (v : Variant) (magic : Nat) (H : Bytes → Bytes) (stream : Bytes) (r : ReadOk)
    (h : readMessage v magic H stream = .ok r) : r.rest.length + 24 ≤ stream.length := by
  unfold readMessage at h
  cases h1 : readFull stream 24 with
  | error e => rw [h1] at h; cases h
  | ok r1 =>
    obtain ⟨hb, rest⟩ := r1
    obtain ⟨l1, l2, l3⟩ := readFull_length _ _ _ _ h1
    rw [h1] at h
    simp only at h
    cases h2 : parseHeader (St.init hb) with
    | panic => rw [h2] at h; cases h
    | err e => rw [h2] at h; cases h
    | ok r2 =>
      obtain ⟨hdr, _⟩ := r2
      rw [h2] at h
      simp only at h
      split at h
      · cases h
      · split at h
        · cases h
        · cases h3 : readFull rest hdr.length with
          | error e => rw [h3] at h; cases h
          | ok r3 =>
            obtain ⟨buf, rest'⟩ := r3
            obtain ⟨m1, m2, m3⟩ := readFull_length _ _ _ _ h3
            rw [h3] at h
            simp only at h
            split at h
            · cases h
            · cases h4 : decodePayload v (trimRight0 hdr.cmd) (St.init buf) with
              | panic => rw [h4] at h; cases h
              | err e => rw [h4] at h; cases h
              | ok r4 =>
                rw [h4] at h
                obtain ⟨m, st⟩ := r4
                injection h with h
                subst h
                simp only
                omega

theorem rxLoop_noPanic (magic : Nat) (H : Bytes → Bytes) (fuel : Nat) (stream : Bytes) (hl : stream.length < two64) :
    rxLoop .sound magic H fuel stream ≠ none := by
  induction fuel generalizing stream with
  | zero => simp [rxLoop]
  | succ n ih =>
    unfold rxLoop
    cases h : readMessage .sound magic H stream with
    | panic => exact (readMessage_noPanic magic H stream hl h).elim
    | err e => simp
    | ok r =>
      simp only
      have := readMessage_rest _ _ _ _ _ h
      have := ih r.rest (by omega)
      cases hr : rxLoop .sound magic H n r.rest with
      | none => exact (this hr).elim
      | some k => simp


theorem decodePayload_variant (cmd : Bytes) (h : cmd ≠ cAddr) : decodePayload .asShipped cmd = decodePayload .sound cmd := by
  unfold decodePayload
  simp only [h, if_false]

/-! errors a decoder can return -/
def ErrsIn (d : Dec α) (E : DErr → Prop) : Prop := ∀ s e, d s = .err e → E e

theorem ErrsIn.bind {d : Dec α} {f : α → Dec β} {E : DErr → Prop} (hd : ErrsIn d E) (hf : ∀ a, ErrsIn (f a) E) :
    ErrsIn (d >>= f) E := by
  intro s e h
  have h' : Dec.bind d f s = .err e := h
  unfold Dec.bind at h'
  cases hds : d s with
  | panic => rw [hds] at h'; cases h'
  | err e' => rw [hds] at h'; injection h' with h'; subst h'; exact hd s _ hds
  | ok r => obtain ⟨a, s1⟩ := r; rw [hds] at h'; exact hf a s1 e h'

theorem ErrsIn.pure (a : α) {E : DErr → Prop} : ErrsIn (Pure.pure a : Dec α) E := by
  intro s e h; cases h
theorem ErrsIn.fail (e0 : DErr) {E : DErr → Prop} (h : E e0) : ErrsIn (Model.P2PMsg.fail e0 : Dec α) E := by
  intro s e he; injection he with he; subst he; exact h
theorem ErrsIn.liftO (f : Src → Option (α × Src)) {E : DErr → Prop} : ErrsIn (liftO f) E := by
  intro s e h
  unfold Model.P2PMsg.liftO at h
  split at h <;> cases h
theorem ErrsIn.ite {c : Prop} [Decidable c] {a b : Dec α} {E : DErr → Prop} (ha : ErrsIn a E) (hb : ErrsIn b E) :
    ErrsIn (if c then a else b) E := by
  split <;> assumption
theorem errsIn_nUint (k : Nat) {E : DErr → Prop} : ErrsIn (nUint k) E := ErrsIn.liftO _
theorem errsIn_nBytes (n : Nat) {E : DErr → Prop} : ErrsIn (nBytes n) E := ErrsIn.liftO _
theorem errsIn_uN (k : Nat) : ErrsIn (uN k) (· = .ueof) := by
  unfold uN
  refine ErrsIn.bind (errsIn_nUint k) (fun r => ?_)
  exact ErrsIn.ite (ErrsIn.fail _ rfl) (ErrsIn.pure _)
theorem errsIn_decPeerAddr : ErrsIn decPeerAddr (· = .ueof) := by
  unfold decPeerAddr
  refine ErrsIn.bind (errsIn_uN 8) (fun _ => ?_)
  refine ErrsIn.bind (errsIn_uN 8) (fun _ => ?_)
  refine ErrsIn.bind (errsIn_nBytes 16) (fun _ => ?_)
  refine ErrsIn.bind (errsIn_uN 2) (fun _ => ?_)
  refine ErrsIn.bind (errsIn_uN 2) (fun _ => ?_)
  refine ErrsIn.bind (errsIn_uN 8) (fun _ => ?_)
  exact ErrsIn.pure _
theorem errsIn_repeatD {body : Dec α} {E : DErr → Prop} (h : ErrsIn body E) (n : Nat) : ErrsIn (repeatD n body) E := by
  induction n with
  | zero => exact ErrsIn.pure _
  | succ n ih =>
    unfold repeatD
    refine ErrsIn.bind h (fun _ => ?_)
    refine ErrsIn.bind ih (fun _ => ?_)
    exact ErrsIn.pure _

/-- a count larger than the unread length can only end in `ErrUnexpectedEOF` -/
theorem addrLoop_too_long (count : Nat) (s1 : St) (w : s1.src.wf) (h63 : s1.src.bs.length < 2 ^ 63)
    (hgt : count > s1.src.bs.length - s1.src.off) : repeatD count decPeerAddr s1 = .err .ueof := by
  have hs := spec_addrLoop count s1 w h63
  cases hr : repeatD count decPeerAddr s1 with
  | panic => rw [hr] at hs; exact hs.elim
  | err e => rw [errsIn_repeatD errsIn_decPeerAddr count s1 e hr]
  | ok r =>
    exfalso
    obtain ⟨l, s2⟩ := r
    rw [hr] at hs
    obtain ⟨adv, _, hR⟩ := hs
    have hlen := (hR (by intro h; cases h)).2
    rw [seg_length adv] at hlen
    have := adv.2.2
    rw [adv.1] at this
    omega

/-- the patch changes nothing but the panic -/
theorem decAddr_conservative (s : St) (w : s.src.wf) (h63 : s.src.bs.length < 2 ^ 63) (h : decAddr .asShipped s ≠ .panic) :
    decAddr .asShipped s = decAddr .sound s := by
  unfold decAddr at h ⊢
  show Dec.bind (uN 8) _ s = Dec.bind (uN 8) _ s
  have h' : Dec.bind (uN 8) _ s ≠ .panic := h
  unfold Dec.bind at h' ⊢
  have hu8 := spec_uN (g := false) 8 (lt64 8) s w h63
  cases hu : uN 8 s with
  | panic => rfl
  | err e => rfl
  | ok r =>
    obtain ⟨count, s1⟩ := r
    rw [hu] at h' hu8
    obtain ⟨adv, _, _⟩ := hu8
    have w1 := adv.wf w
    have h631 : s1.src.bs.length < 2 ^ 63 := by rw [adv.1]; exact h63
    simp only at h' ⊢
    -- `rem ← remaining` does not touch the state
    show Dec.bind remaining _ s1 = Dec.bind remaining _ s1
    have h'' : Dec.bind remaining _ s1 ≠ .panic := h'
    unfold Dec.bind remaining at h'' ⊢
    simp only at h'' ⊢
    have hrem : (if s1.src.off ≥ s1.src.bs.length then 0 else s1.src.bs.length - s1.src.off) = s1.src.bs.length - s1.src.off := by
      split <;> omega
    rw [hrem] at h'' ⊢
    have e1 : ((Variant.asShipped == Variant.sound) && decide (count > s1.src.bs.length - s1.src.off)) = false := rfl
    rw [e1] at h'' ⊢
    simp only [Bool.false_eq_true, if_false, beq_self_eq_true, Bool.true_and, decide_eq_true_eq] at h'' ⊢
    by_cases hgt : count > s1.src.bs.length - s1.src.off
    · rw [if_pos hgt]
      by_cases hc : count < 2 ^ 63
      · have : loopBound64 count = count := by unfold loopBound64; rw [if_pos hc]
        rw [this]
        show Dec.bind (repeatD count decPeerAddr) _ s1 = _
        unfold Dec.bind
        rw [addrLoop_too_long count s1 w1 h631 hgt]
        rfl
      · exfalso
        apply h''
        have hl : loopBound64 count = 0 := by unfold loopBound64; rw [if_neg hc]
        have hgt2 : count > MAX_ADDR_NODE_CNT := by unfold MAX_ADDR_NODE_CNT; omega
        simp only [hl, hgt2, if_true, decide_true]
        rfl
    · rw [if_neg hgt]

theorem decodeAll_conservative (cmd p : Bytes) (hl : p.length < 2 ^ 63) (h : decodeAll .asShipped cmd p ≠ .panic) :
    decodeAll .asShipped cmd p = decodeAll .sound cmd p := by
  unfold decodeAll at h ⊢
  by_cases hc : cmd = cAddr
  · subst hc
    have k := (decodePayload_known .asShipped).2.2.2.2.1
    have k2 := (decodePayload_known .sound).2.2.2.2.1
    rw [k] at h ⊢
    rw [k2]
    exact decAddr_conservative _ ⟨by simp [St.init], by simp [St.init]; unfold two64; omega⟩ (by simpa [St.init] using hl) h
  · rw [decodePayload_variant cmd hc]

/-- canonical payloads re-encode to themselves -/
theorem decodeAll_reencode (cmd p : Bytes) (hl : p.length < 2 ^ 63) (m : Msg) (st : St)
    (h : decodeAll .sound cmd p = .ok (m, st)) (hc : canonicalEnd p st = true) (ho : m.isOpaque = false) :
    encode m = p := by
  have hs := spec_decodePayload cmd (St.init p) ⟨by simp [St.init], by simp [St.init]; unfold two64; omega⟩ (by simpa [St.init] using hl)
  unfold decodeAll at h
  rw [h] at hs
  obtain ⟨adv, _, r⟩ := hs
  unfold canonicalEnd at hc
  simp only [Bool.and_eq_true, Bool.not_eq_true', beq_iff_eq] at hc
  rcases r (fun _ => hc.1) with ⟨c, rfl⟩ | hr
  · simp [Msg.isOpaque] at ho
  · rw [← hr]
    simp [seg, St.init, hc.2]

theorem parseHeader_eval (hb : Bytes) (h : hb.length = 24) :
    parseHeader (St.init hb) = .ok (⟨fromLE (hb.take 4), (hb.drop 4).take 12, fromLE ((hb.drop 16).take 4), (hb.drop 20).take 4⟩,
      ⟨⟨hb, 24⟩, false⟩) := by
  have e : hb = leN 4 (fromLE (hb.take 4)) ++ (hb.drop 4).take 12 ++ leN 4 (fromLE ((hb.drop 16).take 4)) ++ (hb.drop 20).take 4 := by
    have l1 : (hb.take 4).length = 4 := by simp; omega
    have l2 : ((hb.drop 16).take 4).length = 4 := by simp; omega
    have a1 := leN_fromLE (hb.take 4)
    have a2 := leN_fromLE ((hb.drop 16).take 4)
    rw [l1] at a1
    rw [l2] at a2
    rw [a1, a2]
    have : hb = hb.take 4 ++ ((hb.drop 4).take 12 ++ ((hb.drop 16).take 4 ++ (hb.drop 20).take 4)) := by
      conv => lhs; rw [← List.take_append_drop 4 hb]
      congr 1
      conv => lhs; rw [← List.take_append_drop 12 (hb.drop 4)]
      congr 1
      rw [List.drop_drop]
      conv => lhs; rw [← List.take_append_drop 4 (hb.drop 16)]
      congr 1
      rw [List.drop_drop]
      rw [List.take_of_length_le (by simp; omega)]
    simpa using this
  have hm : fromLE (hb.take 4) < 2 ^ 32 := by
    have := fromLE_lt (hb.take 4)
    have l1 : (hb.take 4).length = 4 := by simp; omega
    rw [l1] at this; simpa using this
  have hl : fromLE ((hb.drop 16).take 4) < 2 ^ 32 := by
    have := fromLE_lt ((hb.drop 16).take 4)
    have l1 : ((hb.drop 16).take 4).length = 4 := by simp; omega
    rw [l1] at this; simpa using this
  have := (parseHeader_rt (fromLE (hb.take 4)) (fromLE ((hb.drop 16).take 4)) ((hb.drop 4).take 12) ((hb.drop 20).take 4)
    hm hl (by simp; omega) (by simp; omega)).whole (by rw [← e, h]; unfold two64; omega)
  rw [← e, h] at this
  exact this

theorem readFull_eq (st : Bytes) (n : Nat) (b r : Bytes) (h : readFull st n = .ok (b, r)) :
    b = st.take n ∧ r = st.drop n ∧ n ≤ st.length := by
  unfold readFull at h
  split at h
  · injection h with h; injection h with h1 h2; subst h1 h2; rename_i hn; subst hn; simp
  · split at h
    · injection h with h; injection h with h1 h2; subst h1 h2; exact ⟨rfl, rfl, by assumption⟩
    · split at h <;> cases h

theorem readMessage_checks (v : Variant) (magic : Nat) (H : Bytes → Bytes) (stream : Bytes) (r : ReadOk)
    (h : readMessage v magic H stream = .ok r) :
    24 ≤ stream.length ∧ fromLE (stream.take 4) = magic ∧ r.len = fromLE ((stream.drop 16).take 4) ∧
    r.len ≤ MAX_PAYLOAD_LEN ∧ r.alloc ≤ MAX_PAYLOAD_LEN ∧ 24 + r.len + r.rest.length = stream.length ∧
    H ((stream.drop 24).take r.len) = (stream.drop 20).take 4 ∧
    decodePayload v (trimRight0 ((stream.drop 4).take 12)) (St.init ((stream.drop 24).take r.len)) = .ok (r.msg, r.fin) := by
  unfold readMessage at h
  cases h1 : readFull stream 24 with
  | error e => rw [h1] at h; cases h
  | ok r1 =>
    obtain ⟨hb, rest⟩ := r1
    obtain ⟨e1, e2, e3⟩ := readFull_eq _ _ _ _ h1
    rw [h1] at h
    simp only at h
    have hbl : hb.length = 24 := by rw [e1]; simp; omega
    rw [parseHeader_eval hb hbl] at h
    simp only at h
    split at h
    · cases h
    · rename_i hmagic
      split at h
      · cases h
      · rename_i hlen
        cases h3 : readFull rest (fromLE ((hb.drop 16).take 4)) with
        | error e => rw [h3] at h; cases h
        | ok r3 =>
          obtain ⟨buf, rest'⟩ := r3
          obtain ⟨f1, f2, f3⟩ := readFull_eq _ _ _ _ h3
          rw [h3] at h
          simp only at h
          split at h
          · cases h
          · rename_i hck
            cases h4 : decodePayload v (trimRight0 ((hb.drop 4).take 12)) (St.init buf) with
            | panic => rw [h4] at h; cases h
            | err e => rw [h4] at h; cases h
            | ok r4 =>
              rw [h4] at h
              obtain ⟨m, st⟩ := r4
              injection h with h
              subst h
              simp only
              have t4 : hb.take 4 = stream.take 4 := by rw [e1, List.take_take]; simp
              have t12 : (hb.drop 4).take 12 = (stream.drop 4).take 12 := by
                rw [e1, List.drop_take, List.take_take]; simp
              have t16 : (hb.drop 16).take 4 = (stream.drop 16).take 4 := by
                rw [e1, List.drop_take, List.take_take]; simp
              have t20 : (hb.drop 20).take 4 = (stream.drop 20).take 4 := by
                rw [e1, List.drop_take, List.take_take]; simp
              rw [t4] at hmagic
              rw [t12] at h4
              rw [t16] at hlen f1 f2 f3 ⊢
              rw [t20] at hck
              have hbuf : buf = (stream.drop 24).take (fromLE ((stream.drop 16).take 4)) := by rw [f1, e2]
              rw [hbuf] at hck h4
              refine ⟨e3, by simpa using hmagic, rfl, by omega, by omega, ?_, by simpa using hck, h4⟩
              rw [f2, e2]
              simp only [List.length_drop]
              rw [e2] at f3
              simp only [List.length_drop] at f3
              omega

end OntVerif.Proofs.P2PMsg
