import OntVerif.Proofs.P2PMsgRt
import OntVerif.Proofs.P2PAlloc
/-! C24 helper lemmas, top level: `ReadMessage`/`Rx` never panic, header checks, the Addr patch is conservative,
canonical payloads re-encode to themselves. Core-only. -/
namespace OntVerif.Proofs.P2PMsg
open OntVerif.Util OntVerif.Model.Codec OntVerif.Proofs.Codec OntVerif.Model.P2PMsg

theorem Spec.noPanic {g} {d : Dec α} {R : α → Bytes → Prop} (h : Spec g d R) (s : St) (w : s.src.wf)
    (h63 : s.src.bs.length < 2 ^ 63) : d s ≠ .panic := by
  intro hp
  have := h s w h63
  rw [hp] at this
  exact this

theorem spec_parseHeader {g} : Spec g parseHeader (fun _ _ => True) := by
  unfold parseHeader
  apply Spec.bind (spec_nUint 4 (lt64 4)); intro m
  apply Spec.bind (spec_nBytes 12 (lt64 12)); intro c
  apply Spec.bind (spec_nUint 4 (lt64 4)); intro l
  apply Spec.bind (spec_nBytes 4 (lt64 4)); intro k
  apply Spec.pure
  intros; trivial

theorem readFull_length (st : Bytes) (n : Nat) (b r : Bytes) (h : readFull st n = .ok (b, r)) :
    b.length = n ∧ r.length ≤ st.length ∧ b.length + r.length = st.length := by
  unfold readFull at h
  split at h
  · injection h with h; injection h with h1 h2; subst h1 h2; rename_i hn; simp [hn]
  · split at h
    · injection h with h; injection h with h1 h2; subst h1 h2; simp; omega
    · split at h <;> cases h

theorem readMessage_noPanic (O : Oracle) (magic : Nat) (H : Bytes → Bytes) (stream : Bytes) (hl : stream.length < two64) :
    readMessage O magic H stream ≠ .panic := by
  unfold readMessage
  cases h1 : readFull stream 24 with
  | error e => simp
  | ok r =>
    obtain ⟨hb, rest⟩ := r
    obtain ⟨l1, l2, l3⟩ := readFull_length _ _ _ _ h1
    simp only
    have wfh : (St.init hb).src.wf := ⟨by simp [St.init], by simp [St.init]; omega⟩
    have hp := spec_parseHeader (g := false).noPanic (St.init hb) wfh (by simp [St.init]; omega)
    cases h2 : parseHeader (St.init hb) with
    | panic => exact (hp h2).elim
    | err e _ => simp
    | ok r2 =>
      obtain ⟨hdr, _⟩ := r2
      simp only
      split
      · simp
      · split
        · simp
        · cases h3 : readFull rest hdr.length with
          | error e => simp
          | ok r3 =>
            obtain ⟨buf, rest'⟩ := r3
            obtain ⟨m1, m2, m3⟩ := readFull_length _ _ _ _ h3
            simp only
            split
            · simp
            · have wfb : (St.init buf).src.wf := ⟨by simp [St.init], by simp [St.init]; omega⟩
              have hd := (spec_decodePayload O (trimRight0 hdr.cmd)).noPanic (St.init buf) wfb
                (by rename_i hlen _; simp only [St.init]; unfold MAX_PAYLOAD_LEN at hlen; omega)
              cases h4 : decodePayload O (trimRight0 hdr.cmd) (St.init buf) with
              | panic => exact (hd h4).elim
              | err e _ => simp
              | ok r4 => simp

theorem readMessage_rest (O : Oracle) (magic : Nat) (H : Bytes → Bytes) (stream : Bytes) (r : ReadOk)
    (h : readMessage O magic H stream = .ok r) : r.rest.length + 24 ≤ stream.length := by
  unfold readMessage at h
  cases h1 : readFull stream 24 with
  | error e => rw [h1] at h; cases h
  | ok r1 =>
    obtain ⟨hb, rest⟩ := r1
    obtain ⟨l1, l2, l3⟩ := readFull_length _ _ _ _ h1
    rw [h1] at h
    simp only at h
    cases h2 : parseHeader (St.init hb) with
    | panic => rw [h2] at h; cases h
    | err e _ => rw [h2] at h; cases h
    | ok r2 =>
      obtain ⟨hdr, _⟩ := r2
      rw [h2] at h
      simp only at h
      split at h
      · cases h
      · split at h
        · cases h
        · cases h3 : readFull rest hdr.length with
          | error e => rw [h3] at h; cases h
          | ok r3 =>
            obtain ⟨buf, rest'⟩ := r3
            obtain ⟨m1, m2, m3⟩ := readFull_length _ _ _ _ h3
            rw [h3] at h
            simp only at h
            split at h
            · cases h
            · cases h4 : decodePayload O (trimRight0 hdr.cmd) (St.init buf) with
              | panic => rw [h4] at h; cases h
              | err e _ => rw [h4] at h; cases h
              | ok r4 =>
                rw [h4] at h
                obtain ⟨m, st⟩ := r4
                injection h with h
                subst h
                simp only
                omega

theorem rxLoop_noPanic (O : Oracle) (magic : Nat) (H : Bytes → Bytes) (fuel : Nat) (stream : Bytes) (hl : stream.length < two64) :
    rxLoop O magic H fuel stream ≠ none := by
  induction fuel generalizing stream with
  | zero => simp [rxLoop]
  | succ n ih =>
    unfold rxLoop
    cases h : readMessage O magic H stream with
    | panic => exact (readMessage_noPanic O magic H stream hl h).elim
    | err e => simp
    | ok r =>
      simp only
      have := readMessage_rest _ _ _ _ _ h
      have := ih r.rest (by omega)
      cases hr : rxLoop O magic H n r.rest with
      | none => exact (this hr).elim
      | some k => simp


/-- canonical payloads re-encode to themselves -/
theorem decodeAll_reencode (O : Oracle) (cmd p : Bytes) (hl : p.length < 2 ^ 63) (m : Msg) (st : St)
    (h : decodeAll O cmd p = .ok (m, st)) (hc : canonicalEnd p st = true) (ho : m.isOpaque = false) :
    encode m = p := by
  have hs := spec_decodePayload O cmd (St.init p) ⟨by simp [St.init], by simp [St.init]; unfold two64; omega⟩ (by simpa [St.init] using hl)
  unfold decodeAll at h
  rw [h] at hs
  obtain ⟨adv, _, r⟩ := hs
  unfold canonicalEnd at hc
  simp only [Bool.and_eq_true, Bool.not_eq_true', beq_iff_eq] at hc
  rcases r (fun _ => hc.1) with ⟨c, rfl⟩ | hr
  · simp [Msg.isOpaque] at ho
  · rw [← hr]
    simp [seg, St.init, hc.2]

theorem parseHeader_eval (hb : Bytes) (h : hb.length = 24) :
    ∃ al, parseHeader (St.init hb) = .ok (⟨fromLE (hb.take 4), (hb.drop 4).take 12, fromLE ((hb.drop 16).take 4), (hb.drop 20).take 4⟩,
      ⟨⟨hb, 24⟩, false, al⟩) := by
  have e : hb = leN 4 (fromLE (hb.take 4)) ++ (hb.drop 4).take 12 ++ leN 4 (fromLE ((hb.drop 16).take 4)) ++ (hb.drop 20).take 4 := by
    have l1 : (hb.take 4).length = 4 := by simp; omega
    have l2 : ((hb.drop 16).take 4).length = 4 := by simp; omega
    have a1 := leN_fromLE (hb.take 4)
    have a2 := leN_fromLE ((hb.drop 16).take 4)
    rw [l1] at a1
    rw [l2] at a2
    rw [a1, a2]
    have : hb = hb.take 4 ++ ((hb.drop 4).take 12 ++ ((hb.drop 16).take 4 ++ (hb.drop 20).take 4)) := by
      conv => lhs; rw [← List.take_append_drop 4 hb]
      congr 1
      conv => lhs; rw [← List.take_append_drop 12 (hb.drop 4)]
      congr 1
      rw [List.drop_drop]
      conv => lhs; rw [← List.take_append_drop 4 (hb.drop 16)]
      congr 1
      rw [List.drop_drop]
      rw [List.take_of_length_le (by simp; omega)]
    simpa using this
  have hm : fromLE (hb.take 4) < 2 ^ 32 := by
    have := fromLE_lt (hb.take 4)
    have l1 : (hb.take 4).length = 4 := by simp; omega
    rw [l1] at this; simpa using this
  have hl : fromLE ((hb.drop 16).take 4) < 2 ^ 32 := by
    have := fromLE_lt ((hb.drop 16).take 4)
    have l1 : ((hb.drop 16).take 4).length = 4 := by simp; omega
    rw [l1] at this; simpa using this
  have := (parseHeader_rt (fromLE (hb.take 4)) (fromLE ((hb.drop 16).take 4)) ((hb.drop 4).take 12) ((hb.drop 20).take 4)
    hm hl (by simp; omega) (by simp; omega)).whole (by rw [← e, h]; unfold two64; omega)
  rw [← e, h] at this
  exact this

theorem readFull_eq (st : Bytes) (n : Nat) (b r : Bytes) (h : readFull st n = .ok (b, r)) :
    b = st.take n ∧ r = st.drop n ∧ n ≤ st.length := by
  unfold readFull at h
  split at h
  · injection h with h; injection h with h1 h2; subst h1 h2; rename_i hn; subst hn; simp
  · split at h
    · injection h with h; injection h with h1 h2; subst h1 h2; exact ⟨rfl, rfl, by assumption⟩
    · split at h <;> cases h

theorem readMessage_checks (O : Oracle) (magic : Nat) (H : Bytes → Bytes) (stream : Bytes) (r : ReadOk)
    (h : readMessage O magic H stream = .ok r) :
    24 ≤ stream.length ∧ fromLE (stream.take 4) = magic ∧ r.len = fromLE ((stream.drop 16).take 4) ∧
    r.len ≤ MAX_PAYLOAD_LEN ∧ r.alloc ≤ MAX_PAYLOAD_LEN ∧ 24 + r.len + r.rest.length = stream.length ∧
    H ((stream.drop 24).take r.len) = (stream.drop 20).take 4 ∧
    decodePayload O (trimRight0 ((stream.drop 4).take 12)) (St.init ((stream.drop 24).take r.len)) = .ok (r.msg, r.fin) := by
  unfold readMessage at h
  cases h1 : readFull stream 24 with
  | error e => rw [h1] at h; cases h
  | ok r1 =>
    obtain ⟨hb, rest⟩ := r1
    obtain ⟨e1, e2, e3⟩ := readFull_eq _ _ _ _ h1
    rw [h1] at h
    simp only at h
    have hbl : hb.length = 24 := by rw [e1]; simp; omega
    obtain ⟨alh, hph⟩ := parseHeader_eval hb hbl
    rw [hph] at h
    simp only at h
    split at h
    · cases h
    · rename_i hmagic
      split at h
      · cases h
      · rename_i hlen
        cases h3 : readFull rest (fromLE ((hb.drop 16).take 4)) with
        | error e => rw [h3] at h; cases h
        | ok r3 =>
          obtain ⟨buf, rest'⟩ := r3
          obtain ⟨f1, f2, f3⟩ := readFull_eq _ _ _ _ h3
          rw [h3] at h
          simp only at h
          split at h
          · cases h
          · rename_i hck
            cases h4 : decodePayload O (trimRight0 ((hb.drop 4).take 12)) (St.init buf) with
            | panic => rw [h4] at h; cases h
            | err e => rw [h4] at h; cases h
            | ok r4 =>
              rw [h4] at h
              obtain ⟨m, st⟩ := r4
              injection h with h
              subst h
              simp only
              have t4 : hb.take 4 = stream.take 4 := by rw [e1, List.take_take]; simp
              have t12 : (hb.drop 4).take 12 = (stream.drop 4).take 12 := by
                rw [e1, List.drop_take, List.take_take]; simp
              have t16 : (hb.drop 16).take 4 = (stream.drop 16).take 4 := by
                rw [e1, List.drop_take, List.take_take]; simp
              have t20 : (hb.drop 20).take 4 = (stream.drop 20).take 4 := by
                rw [e1, List.drop_take, List.take_take]; simp
              rw [t4] at hmagic
              rw [t12] at h4
              rw [t16] at hlen f1 f2 f3 ⊢
              rw [t20] at hck
              have hbuf : buf = (stream.drop 24).take (fromLE ((stream.drop 16).take 4)) := by rw [f1, e2]
              rw [hbuf] at hck h4
              refine ⟨e3, by simpa using hmagic, rfl, by omega, by omega, ?_, by simpa using hck, h4⟩
              rw [f2, e2]
              simp only [List.length_drop]
              rw [e2] at f3
              simp only [List.length_drop] at f3
              omega

end OntVerif.Proofs.P2PMsg
