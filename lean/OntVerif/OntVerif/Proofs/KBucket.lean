import OntVerif.Model.KBucket
/-! Helper lemmas for C37 (k-bucket routing table): termination of `nextBucket`, preservation of the structural
invariant by every operation, `NearestPeers` (insertion sort by XOR distance). Core-only. -/
namespace OntVerif.Proofs.KBucket
open OntVerif.Util OntVerif.Model.KBucket

theorem lz8_le (b : UInt8) : lz8 b ≤ 8 := by
  unfold lz8
  repeat' split
  all_goals omega

theorem zeroPrefixLen_le (b : Bytes) : zeroPrefixLen b ≤ 8 * b.length := by
  induction b with
  | nil => simp [zeroPrefixLen]
  | cons x r ih =>
    simp only [zeroPrefixLen, List.length_cons]
    split
    · have := lz8_le x; omega
    · omega

theorem cpl_le (a b : Id) : cpl a b ≤ 8 * b.length := by
  unfold cpl distance
  have := zeroPrefixLen_le (List.zipWith (· ^^^ ·) a b)
  simp only [List.length_zipWith] at this
  omega

/-- one unfolding step of `nextBucket` -/
def splitStep (t : Table) (last : List Peer) : Table :=
  { t with buckets := t.buckets.dropLast ++ [(split last (t.buckets.length - 1) t.loc).1, (split last (t.buckets.length - 1) t.loc).2] }

theorem nextBucket_succ (fuel : Nat) (t : Table) (last : List Peer) (h : t.buckets.getLast? = some last) :
    nextBucket (fuel + 1) t =
      if (split last (t.buckets.length - 1) t.loc).2.length ≥ t.bucketsize then nextBucket fuel (splitStep t last)
      else .ok (splitStep t last) := by
  simp only [nextBucket, h, splitStep]

theorem splitStep_length (t : Table) (last : List Peer) (h : t.buckets ≠ []) :
    (splitStep t last).buckets.length = t.buckets.length + 1 := by
  simp only [splitStep, List.length_append, List.length_dropLast, List.length_cons, List.length_nil]
  have : t.buckets.length > 0 := List.length_pos_iff.mpr h
  omega

theorem getLast?_of_ne_nil {α} (l : List α) (h : l ≠ []) : ∃ x, l.getLast? = some x := by
  cases hl : l.getLast? with
  | none => exact (h (List.getLast?_eq_none_iff.mp hl)).elim
  | some x => exact ⟨x, rfl⟩

/-- **termination of `nextBucket`**: with `bucketsize > 0` the recursion stops after at most `8·|id| + 1 − (len−1)` unfoldings -/
theorem nextBucket_ok (fuel : Nat) (t : Table) (hb : t.bucketsize > 0) (hne : t.buckets ≠ [])
    (hf1 : fuel ≥ 1) (hf : fuel + (t.buckets.length - 1) ≥ 8 * t.loc.length + 1) :
    ∃ t', nextBucket fuel t = .ok t' := by
  induction fuel generalizing t with
  | zero => omega
  | succ n ih =>
    obtain ⟨last, hl⟩ := getLast?_of_ne_nil _ hne
    rw [nextBucket_succ n t last hl]
    split
    · rename_i hge
      -- the new bucket is non-empty: some peer has cpl > len-1, hence len-1 < 8·|loc|
      have hpos : (split last (t.buckets.length - 1) t.loc).2.length > 0 := by omega
      obtain ⟨p, hp⟩ := List.exists_mem_of_length_pos hpos
      simp only [split, List.mem_filter, decide_eq_true_eq] at hp
      obtain ⟨_, hgt⟩ := hp
      have hc := cpl_le p.id t.loc
      have hlen := splitStep_length t last hne
      have hloc : (splitStep t last).loc = t.loc := rfl
      apply ih (splitStep t last) hb
      · intro h; rw [h] at hlen; simp at hlen
      · generalize t.buckets.length - 1 = k at hf hgt
        generalize List.length t.loc = c at hf hc
        generalize cpl p.id t.loc = d at hgt hc
        omega
      · rw [hlen, hloc]
        have hpos2 : t.buckets.length > 0 := List.length_pos_iff.mpr hne
        generalize t.buckets.length = len at hf hpos2
        generalize List.length t.loc = c at hf
        omega
    · exact ⟨_, rfl⟩

/-- with `bucketsize = 0` the recursion never returns -/
theorem nextBucket_diverges (fuel : Nat) (t : Table) (hb : t.bucketsize = 0) (hne : t.buckets ≠ []) :
    nextBucket fuel t = .error .diverge := by
  induction fuel generalizing t with
  | zero => rfl
  | succ n ih =>
    obtain ⟨last, hl⟩ := getLast?_of_ne_nil _ hne
    rw [nextBucket_succ n t last hl, hb]
    simp only [ge_iff_le, Nat.zero_le, if_true]
    apply ih (splitStep t last) hb
    simp [splitStep]


/-! ### the invariant -/

theorem bucketIdx_eq_min (t : Table) (c : Nat) : bucketIdx t c = min c (t.buckets.length - 1) ∨ t.buckets = [] := by
  unfold bucketIdx
  cases h : t.buckets with
  | nil => right; rfl
  | cons a r =>
    left
    simp only [List.length_cons]
    split <;> omega

theorem bucketIdx_lt (t : Table) (c : Nat) (h : t.buckets ≠ []) : bucketIdx t c < t.buckets.length := by
  have : t.buckets.length > 0 := List.length_pos_iff.mpr h
  unfold bucketIdx
  split <;> omega

theorem split_perm (last : List Peer) (c : Nat) (loc : Id) : ((split last c loc).1 ++ (split last c loc).2).Perm last := by
  have := List.filter_append_perm (fun p : Peer => !(decide (cpl p.id loc > c))) last
  simpa [split] using this

theorem inv_splitStep (t : Table) (last : List Peer) (hinv : Inv t) (hl : t.buckets.getLast? = some last) :
    Inv (splitStep t last) ∧ (splitStep t last).peers.Perm t.peers := by
  obtain ⟨hne, hnd, hsz, hpl⟩ := hinv
  obtain ⟨init, hinit⟩ := List.getLast?_eq_some_iff.mp hl
  have hlen : t.buckets.length - 1 = init.length := by rw [hinit]; simp
  have hb : (splitStep t last).buckets = init ++ [(split last init.length t.loc).1, (split last init.length t.loc).2] := by
    simp only [splitStep, hlen]
    rw [hinit, List.dropLast_concat]
  have hperm : (splitStep t last).peers.Perm t.peers := by
    simp only [Table.peers, hb]
    rw [hinit]
    simp only [List.flatten_append, List.flatten_cons, List.flatten_nil, List.append_nil]
    exact List.Perm.append_left _ (split_perm last init.length t.loc)
  refine ⟨⟨?_, ?_, ?_, ?_⟩, hperm⟩
  · rw [hb]; simp
  · exact (List.Perm.nodup_iff (hperm.map (·.id))).mpr hnd
  · intro b hbm
    rw [hb] at hbm
    have hlast : last.length ≤ t.bucketsize := hsz last (by rw [hinit]; simp)
    simp only [List.mem_append, List.mem_cons, List.not_mem_nil, or_false] at hbm
    rcases hbm with h | h | h
    · exact hsz b (by rw [hinit]; simp [h])
    · rw [h]; exact Nat.le_trans (List.length_filter_le _ _) hlast
    · rw [h]; exact Nat.le_trans (List.length_filter_le _ _) hlast
  · intro i b hib p hp
    have hloc : (splitStep t last).loc = t.loc := rfl
    rw [hb] at hib
    rw [hloc, hb]
    simp only [List.length_append, List.length_cons, List.length_nil]
    by_cases h1 : i < init.length
    · rw [List.getElem?_append_left h1] at hib
      have hold : t.buckets[i]? = some b := by rw [hinit, List.getElem?_append_left h1]; exact hib
      have := hpl i b hold p hp
      rw [hlen] at this
      omega
    · rw [List.getElem?_append_right (by omega)] at hib
      have hlast : t.buckets[init.length]? = some last := by
        rw [hinit, List.getElem?_append_right (Nat.le_refl _)]; simp
      by_cases h2 : i = init.length
      · subst h2
        simp only [Nat.sub_self, List.getElem?_cons_zero, Option.some.injEq] at hib
        subst hib
        simp only [split, List.mem_filter, Bool.not_eq_true', decide_eq_false_iff_not] at hp
        have := hpl init.length last hlast p hp.1
        rw [hlen] at this
        omega
      · by_cases h3 : i = init.length + 1
        · subst h3
          have e : init.length + 1 - init.length = 1 := by omega
          rw [e] at hib
          simp only [List.getElem?_cons_succ, List.getElem?_cons_zero, Option.some.injEq] at hib
          subst hib
          simp only [split, List.mem_filter, decide_eq_true_eq] at hp
          omega
        · exfalso
          have : i - init.length ≥ 2 := by omega
          obtain ⟨k, hk⟩ : ∃ k, i - init.length = k + 2 := ⟨i - init.length - 2, by omega⟩
          rw [hk] at hib
          simp at hib

theorem nextBucket_inv (fuel : Nat) (t t' : Table) (hinv : Inv t) (h : nextBucket fuel t = .ok t') :
    Inv t' ∧ t'.peers.Perm t.peers ∧ t'.loc = t.loc ∧ t'.bucketsize = t.bucketsize := by
  induction fuel generalizing t with
  | zero => simp [nextBucket] at h
  | succ n ih =>
    obtain ⟨last, hl⟩ := getLast?_of_ne_nil _ hinv.1
    rw [nextBucket_succ n t last hl] at h
    obtain ⟨hi, hp⟩ := inv_splitStep t last hinv hl
    split at h
    · obtain ⟨a, b, c, d⟩ := ih (splitStep t last) hi h
      exact ⟨a, b.trans hp, c, d⟩
    · injection h with h
      subst h
      exact ⟨hi, hp, rfl, rfl⟩

theorem flatten_set {α} (l : List (List α)) (i : Nat) (b : List α) (h : l[i]? = some b) :
    ∃ pre post, l.flatten = pre ++ b ++ post ∧ ∀ b', (l.set i b').flatten = pre ++ b' ++ post := by
  obtain ⟨hlt, hb⟩ := List.getElem?_eq_some_iff.mp h
  refine ⟨(l.take i).flatten, (l.drop (i + 1)).flatten, ?_, ?_⟩
  · conv => lhs; rw [← List.take_append_drop i l, List.drop_eq_getElem_cons hlt, hb]
    simp
  · intro b'
    rw [List.set_eq_take_append_cons_drop, if_pos hlt]
    simp

theorem inv_set (t : Table) (hinv : Inv t) (bid : Nat) (bucket b' : List Peer) (hb : t.buckets[bid]? = some bucket)
    (hlen : b'.length ≤ t.bucketsize) (hpl' : ∀ p ∈ b', bid = min (cpl p.id t.loc) (t.buckets.length - 1))
    (hnd' : ∀ pre post, t.peers = pre ++ bucket ++ post → ((pre ++ b' ++ post).map (·.id)).Nodup) :
    Inv { t with buckets := t.buckets.set bid b' } := by
  obtain ⟨hne, hnd, hsz, hpl⟩ := hinv
  obtain ⟨pre, post, e1, e2⟩ := flatten_set t.buckets bid bucket hb
  refine ⟨?_, ?_, ?_, ?_⟩
  · intro h
    have := congrArg List.length h
    simp only [List.length_set, List.length_nil] at this
    exact hne (List.length_eq_zero_iff.mp this)
  · show ((t.buckets.set bid b').flatten.map (·.id)).Nodup
    rw [e2 b']
    exact hnd' pre post e1
  · intro b hbm
    rcases List.mem_or_eq_of_mem_set hbm with h | h
    · exact hsz b h
    · rw [h]; exact hlen
  · intro i b hib p hp
    simp only [List.length_set]
    simp only [List.getElem?_set] at hib
    split at hib
    · rename_i heq
      subst heq
      split at hib
      · injection hib with hib
        subst hib
        exact hpl' p hp
      · cases hib
    · exact hpl i b hib p hp

theorem findFirst_perm (id : Id) (b : List Peer) (p : Peer) (h : findFirst id b = some p) :
    b.Perm (p :: removeFirst id b) ∧ p.id = id := by
  induction b with
  | nil => simp [findFirst] at h
  | cons q r ih =>
    simp only [findFirst] at h
    simp only [removeFirst]
    split at h
    · rename_i hq
      injection h with h
      subst h
      simp only [hq, if_true]
      exact ⟨List.Perm.refl _, by simpa using hq⟩
    · rename_i hq
      simp only [hq, Bool.false_eq_true, if_false]
      obtain ⟨hp, hid⟩ := ih h
      exact ⟨(List.Perm.cons q hp).trans (List.Perm.swap p q _), hid⟩

theorem moveToFront_perm (id : Id) (b : List Peer) : (moveToFront id b).Perm b := by
  unfold moveToFront
  cases h : findFirst id b with
  | none => exact List.Perm.refl _
  | some p => exact (findFirst_perm id b p h).1.symm

theorem removeFirst_sublist (id : Id) (b : List Peer) : (removeFirst id b).Sublist b := by
  induction b with
  | nil => exact List.Sublist.refl _
  | cons q r ih =>
    simp only [removeFirst]
    split
    · exact List.sublist_cons_self q r
    · exact List.Sublist.cons_cons q ih

/-- a peer id that is not in "its" bucket is nowhere in the table -/
theorem not_mem_of_not_has (t : Table) (hinv : Inv t) (id : Id) (bucket : List Peer)
    (hb : t.buckets[bucketIdx t (cpl id t.loc)]? = some bucket) (hh : has bucket id = false) :
    id ∉ t.peers.map (·.id) := by
  intro hm
  obtain ⟨q, hq, hqid⟩ := List.mem_map.mp hm
  obtain ⟨b, hbm, hqb⟩ := List.mem_flatten.mp hq
  obtain ⟨i, hi⟩ := List.mem_iff_getElem?.mp hbm
  have := hinv.2.2.2 i b hi q hqb
  rcases bucketIdx_eq_min t (cpl id t.loc) with h | h
  · rw [hqid, ← h] at this
    rw [← this, hi] at hb
    injection hb with hb
    subst hb
    have : has b id = true := by
      unfold has
      exact List.any_eq_true.mpr ⟨q, hqb, by simpa using hqid⟩
    rw [hh] at this
    cases this
  · exact hinv.1 h


theorem nodup_cons_middle (pre bucket post : List Peer) (p : Peer)
    (hnd : ((pre ++ bucket ++ post).map (·.id)).Nodup) (hnot : p.id ∉ (pre ++ bucket ++ post).map (·.id)) :
    ((pre ++ (p :: bucket) ++ post).map (·.id)).Nodup := by
  have hp : (pre ++ (p :: bucket) ++ post).Perm (p :: (pre ++ bucket ++ post)) := by
    simp only [List.append_assoc, List.cons_append]
    exact List.perm_middle
  refine (List.Perm.nodup_iff (hp.map (·.id))).mpr ?_
  simp only [List.map_cons]
  exact List.nodup_cons.mpr ⟨hnot, hnd⟩

/-- pushing a new peer to the front of its bucket -/
theorem inv_push (t : Table) (hinv : Inv t) (p : Peer) (bucket : List Peer)
    (hb : t.buckets[bucketIdx t (cpl p.id t.loc)]? = some bucket) (hh : has bucket p.id = false)
    (hlt : bucket.length < t.bucketsize) :
    Inv { t with buckets := t.buckets.set (bucketIdx t (cpl p.id t.loc)) (p :: bucket) } := by
  have hnot := not_mem_of_not_has t hinv p.id bucket hb hh
  apply inv_set t hinv _ bucket (p :: bucket) hb
  · simp only [List.length_cons]; omega
  · intro q hq
    rcases List.mem_cons.mp hq with rfl | hq
    · rcases bucketIdx_eq_min t (cpl q.id t.loc) with h | h
      · exact h
      · exact (hinv.1 h).elim
    · exact hinv.2.2.2 _ bucket hb q hq
  · intro pre post e
    have hnd := hinv.2.1
    rw [e] at hnot hnd
    exact nodup_cons_middle pre bucket post p hnd hnot

theorem updateF_inv (fuel : Nat) (t : Table) (p : Peer) (hinv : Inv t) (hbs : t.bucketsize > 0)
    (hfuel : fuel ≥ 8 * t.loc.length + 2) :
    ∃ t' r, updateF fuel t p = .ok (t', r) ∧ Inv t' ∧ t'.loc = t.loc ∧ t'.bucketsize = t.bucketsize := by
  unfold updateF
  simp only
  have hlt := bucketIdx_lt t (cpl p.id t.loc) hinv.1
  obtain ⟨bucket, hb⟩ : ∃ b, t.buckets[bucketIdx t (cpl p.id t.loc)]? = some b :=
    ⟨_, List.getElem?_eq_getElem hlt⟩
  rw [hb]
  simp only
  split
  · -- already present: move to front
    refine ⟨_, _, rfl, ?_, rfl, rfl⟩
    have hperm := moveToFront_perm p.id bucket
    apply inv_set t hinv _ bucket _ hb
    · rw [hperm.length_eq]; exact hinv.2.2.1 bucket (List.mem_of_getElem? hb)
    · intro q hq
      exact hinv.2.2.2 _ bucket hb q (hperm.mem_iff.mp hq)
    · intro pre post e
      have hnd := hinv.2.1
      unfold Table.peers at hnd e
      rw [e] at hnd
      have : (pre ++ moveToFront p.id bucket ++ post).Perm (pre ++ bucket ++ post) :=
        (List.Perm.append_left pre hperm).append_right post
      exact (List.Perm.nodup_iff (this.map (·.id))).mpr hnd
  · rename_i hh
    have hh' : has bucket p.id = false := by simpa using hh
    split
    · rename_i hlen
      exact ⟨_, _, rfl, inv_push t hinv p bucket hb hh' hlen, rfl, rfl⟩
    · split
      · -- last bucket full: unfold
        have hpos : t.buckets.length > 0 := List.length_pos_iff.mpr hinv.1
        obtain ⟨t1, h1⟩ := nextBucket_ok fuel t hbs hinv.1 (by omega) (by omega)
        rw [h1]
        simp only
        obtain ⟨hi1, hperm, hloc, hsz⟩ := nextBucket_inv fuel t t1 hinv h1
        have hlt1 := bucketIdx_lt t1 (cpl p.id t.loc) hi1.1
        obtain ⟨b1, hb1⟩ : ∃ b, t1.buckets[bucketIdx t1 (cpl p.id t.loc)]? = some b :=
          ⟨_, List.getElem?_eq_getElem hlt1⟩
        rw [hb1]
        simp only
        split
        · exact ⟨_, _, rfl, hi1, hloc, hsz⟩
        · rename_i hfull
          refine ⟨_, _, rfl, ?_, hloc, hsz⟩
          have hnot : p.id ∉ t.peers.map (·.id) := not_mem_of_not_has t hinv p.id bucket hb hh'
          have hnot1 : p.id ∉ t1.peers.map (·.id) := by
            intro hm
            exact hnot (((hperm.map (·.id)).mem_iff).mp hm)
          have hh1 : has b1 p.id = false := by
            cases hc : has b1 p.id with
            | false => rfl
            | true =>
              exfalso
              obtain ⟨q, hq, hqid⟩ := List.any_eq_true.mp hc
              apply hnot1
              refine List.mem_map.mpr ⟨q, List.mem_flatten.mpr ⟨b1, List.mem_of_getElem? hb1, hq⟩, by simpa using hqid⟩
          rw [← hloc] at hb1 ⊢
          exact inv_push t1 hi1 p b1 hb1 hh1 (by omega)
      · exact ⟨_, _, rfl, hinv, rfl, rfl⟩

theorem remove_inv (t : Table) (id : Id) (hinv : Inv t) :
    ∃ t' r, remove t id = .ok (t', r) ∧ Inv t' ∧ t'.loc = t.loc ∧ t'.bucketsize = t.bucketsize := by
  unfold remove
  simp only
  have hlt := bucketIdx_lt t (cpl id t.loc) hinv.1
  obtain ⟨bucket, hb⟩ : ∃ b, t.buckets[bucketIdx t (cpl id t.loc)]? = some b :=
    ⟨_, List.getElem?_eq_getElem hlt⟩
  rw [hb]
  refine ⟨_, _, rfl, ?_, rfl, rfl⟩
  have hsub := removeFirst_sublist id bucket
  apply inv_set t hinv _ bucket _ hb
  · exact Nat.le_trans hsub.length_le (hinv.2.2.1 bucket (List.mem_of_getElem? hb))
  · intro q hq
    exact hinv.2.2.2 _ bucket hb q (hsub.subset hq)
  · intro pre post e
    have hnd := hinv.2.1
    unfold Table.peers at hnd e
    rw [e] at hnd
    have : (pre ++ removeFirst id bucket ++ post).Sublist (pre ++ bucket ++ post) :=
      ((List.Sublist.refl pre).append hsub).append (List.Sublist.refl post)
    exact List.Nodup.sublist (this.map (·.id)) hnd

theorem inv_new (bs : Nat) (loc : Id) : Inv (Table.new bs loc) := by
  refine ⟨by simp [Table.new], by simp [Table.new, Table.peers], ?_, ?_⟩
  · intro b hb
    simp only [Table.new, List.mem_singleton] at hb
    subst hb; simp
  · intro i b hib p hp
    simp only [Table.new] at hib
    cases i with
    | zero => simp at hib; subst hib; simp at hp
    | succ k => simp at hib

theorem run_inv (ops : List Op) (t : Table) (hinv : Inv t) (hbs : t.bucketsize > 0) :
    ∃ t', run t ops = .ok t' ∧ Inv t' ∧ t'.loc = t.loc ∧ t'.bucketsize = t.bucketsize := by
  induction ops generalizing t with
  | nil => exact ⟨t, rfl, hinv, rfl, rfl⟩
  | cons op r ih =>
    have hstep : ∃ t1, step t op = .ok t1 ∧ Inv t1 ∧ t1.loc = t.loc ∧ t1.bucketsize = t.bucketsize := by
      cases op with
      | update p =>
        obtain ⟨t1, res, h, hi, hl, hs⟩ := updateF_inv (fuelFor t) t p hinv hbs (Nat.le_refl _)
        refine ⟨t1, ?_, hi, hl, hs⟩
        simp only [step, update, h]
        rfl
      | remove id =>
        obtain ⟨t1, res, h, hi, hl, hs⟩ := remove_inv t id hinv
        refine ⟨t1, ?_, hi, hl, hs⟩
        simp only [step, h]
        rfl
    obtain ⟨t1, h1, hi1, hl1, hs1⟩ := hstep
    obtain ⟨t2, h2, hi2, hl2, hs2⟩ := ih t1 hi1 (by omega)
    refine ⟨t2, ?_, hi2, by rw [hl2, hl1], by rw [hs2, hs1]⟩
    simp only [run, h1, h2]


/-! ### NearestPeers -/

theorem u8_lt_asymm {a b : UInt8} (h : a < b) : ¬ b < a := by
  rw [UInt8.lt_iff_toNat_lt] at *; omega
theorem u8_lt_trans {a b c : UInt8} (h : a < b) (h2 : b < c) : a < c := by
  rw [UInt8.lt_iff_toNat_lt] at *; omega
theorem u8_eq_of_not_lt {a b : UInt8} (h : ¬ a < b) (h2 : ¬ b < a) : a = b := by
  rw [UInt8.lt_iff_toNat_lt] at *
  exact UInt8.toNat_inj.mp (by omega)

theorem bytesLt_asymm (a b : Bytes) (h : bytesLt a b = true) : bytesLt b a = false := by
  induction a generalizing b with
  | nil => cases b <;> simp [bytesLt] at *
  | cons x xs ih =>
    cases b with
    | nil => simp [bytesLt] at h
    | cons y ys =>
      simp only [bytesLt] at h ⊢
      by_cases h1 : x < y
      · have := u8_lt_asymm h1
        simp [this, h1]
      · simp only [h1, if_false] at h
        by_cases h2 : y < x
        · simp [h2] at h
        · simp only [h2, if_false] at h ⊢
          simp only [h1, if_false]
          exact ih ys h

theorem bytesLt_trans (a b c : Bytes) (h1 : bytesLt a b = true) (h2 : bytesLt b c = true) : bytesLt a c = true := by
  induction a generalizing b c with
  | nil =>
    cases b with
    | nil => simp [bytesLt] at h1
    | cons y ys => cases c with
      | nil => simp [bytesLt] at h2
      | cons z zs => simp [bytesLt]
  | cons x xs ih =>
    cases b with
    | nil => simp [bytesLt] at h1
    | cons y ys =>
      cases c with
      | nil => simp [bytesLt] at h2
      | cons z zs =>
        simp only [bytesLt] at h1 h2 ⊢
        by_cases hxy : x < y
        · by_cases hyz : y < z
          · simp [u8_lt_trans hxy hyz]
          · simp only [hyz, if_false] at h2
            by_cases hzy : z < y
            · simp [hzy] at h2
            · have := u8_eq_of_not_lt hyz hzy
              subst this
              simp [hxy]
        · simp only [hxy, if_false] at h1
          by_cases hyx : y < x
          · simp [hyx] at h1
          · simp only [hyx, if_false] at h1
            have := u8_eq_of_not_lt hxy hyx
            subst this
            by_cases hyz : x < z
            · simp [hyz]
            · simp only [hyz, if_false] at h2 ⊢
              by_cases hzy : z < x
              · simp [hzy] at h2
              · simp only [hzy, if_false] at h2 ⊢
                exact ih ys zs h1 h2

theorem insertByDist_perm (tgt : Id) (p : Peer) (l : List Peer) : (insertByDist tgt p l).Perm (p :: l) := by
  induction l with
  | nil => exact List.Perm.refl _
  | cons q r ih =>
    simp only [insertByDist]
    split
    · exact List.Perm.refl _
    · exact (List.Perm.cons q ih).trans (List.Perm.swap p q r)

theorem sortByDist_perm (tgt : Id) (l : List Peer) : (sortByDist tgt l).Perm l := by
  induction l with
  | nil => exact List.Perm.refl _
  | cons p r ih =>
    simp only [sortByDist]
    exact (insertByDist_perm tgt p _).trans (List.Perm.cons p ih)

theorem insertByDist_sorted (tgt : Id) (p : Peer) (l : List Peer) (h : SortedByDist tgt l) :
    SortedByDist tgt (insertByDist tgt p l) := by
  unfold SortedByDist at *
  induction l with
  | nil => simp [insertByDist]
  | cons q r ih =>
    simp only [insertByDist]
    obtain ⟨hq, hr⟩ := List.pairwise_cons.mp h
    split
    · rename_i hlt
      refine List.pairwise_cons.mpr ⟨?_, h⟩
      intro x hx
      rcases List.mem_cons.mp hx with rfl | hx
      · exact bytesLt_asymm _ _ hlt
      · cases hc : bytesLt (distance tgt x.id) (distance tgt p.id) with
        | false => rfl
        | true =>
          have := bytesLt_trans _ _ _ hc hlt
          rw [hq x hx] at this
          cases this
    · rename_i hnlt
      refine List.pairwise_cons.mpr ⟨?_, ih hr⟩
      intro x hx
      rcases List.mem_cons.mp ((insertByDist_perm tgt p r).mem_iff.mp hx) with rfl | hx
      · simpa using hnlt
      · exact hq x hx

theorem sortByDist_sorted (tgt : Id) (l : List Peer) : SortedByDist tgt (sortByDist tgt l) := by
  induction l with
  | nil => exact List.Pairwise.nil
  | cons p r ih => exact insertByDist_sorted tgt p _ ih

theorem take_flatten_sublist {α} (k : Nat) (l : List (List α)) : (l.take k).flatten.Sublist l.flatten := by
  induction l generalizing k with
  | nil => simp
  | cons a r ih =>
    cases k with
    | zero => simp
    | succ k =>
      simp only [List.take_succ_cons, List.flatten_cons]
      exact (List.Sublist.refl a).append (ih k)

theorem collectUp_spec (count : Nat) (bs : List (List Peer)) (acc : List Peer) :
    (∃ k, collectUp count bs acc = acc ++ (bs.take k).flatten) ∧
    ((collectUp count bs acc).length ≥ count ∨ collectUp count bs acc = acc ++ bs.flatten) := by
  induction bs generalizing acc with
  | nil => exact ⟨⟨0, by simp [collectUp]⟩, Or.inr (by simp [collectUp])⟩
  | cons b r ih =>
    simp only [collectUp]
    split
    · obtain ⟨⟨k, hk⟩, h2⟩ := ih (acc ++ b)
      refine ⟨⟨k + 1, by rw [hk]; simp⟩, ?_⟩
      rcases h2 with h | h
      · exact Or.inl h
      · exact Or.inr (by rw [h]; simp)
    · exact ⟨⟨0, by simp⟩, Or.inl (by omega)⟩

theorem nearestPeers_spec (t : Table) (id : Id) (count : Nat) (hinv : Inv t) :
    ∃ l, nearestPeers t id count = .ok l ∧ (l.map (·.id)).Nodup ∧ SortedByDist id l ∧
      (∀ p ∈ l, p ∈ t.peers) ∧ l.length = min count t.peers.length := by
  unfold nearestPeers
  simp only
  have hlt := bucketIdx_lt t (cpl id t.loc) hinv.1
  generalize bucketIdx t (cpl id t.loc) = c at hlt
  obtain ⟨b0, hb0⟩ : ∃ b, t.buckets[c]? = some b := ⟨_, List.getElem?_eq_getElem hlt⟩
  rw [hb0]
  simp only
  refine ⟨_, rfl, ?_⟩
  -- the table, re-ordered the way the collection walks it
  obtain ⟨hlt', hb0'⟩ := List.getElem?_eq_some_iff.mp hb0
  have hdecomp : t.buckets = t.buckets.take c ++ b0 :: t.buckets.drop (c + 1) := by
    conv => lhs; rw [← List.take_append_drop c t.buckets, List.drop_eq_getElem_cons hlt', hb0']
  let U := b0 ++ (t.buckets.drop (c + 1)).flatten ++ (t.buckets.take c).reverse.flatten
  have hU : U.Perm t.peers := by
    show (b0 ++ (t.buckets.drop (c + 1)).flatten ++ (t.buckets.take c).reverse.flatten).Perm t.buckets.flatten
    conv => rhs; rw [hdecomp]
    simp only [List.flatten_append, List.flatten_cons]
    refine List.perm_append_comm.trans ?_
    exact ((List.reverse_perm _).flatten).append_right _ |>.trans (by simp)
  obtain ⟨⟨k1, h1⟩, d1⟩ := collectUp_spec count (t.buckets.drop (c + 1)) b0
  obtain ⟨⟨k2, h2⟩, d2⟩ := collectUp_spec count (t.buckets.take c).reverse (collectUp count (t.buckets.drop (c + 1)) b0)
  generalize hacc : collectUp count (t.buckets.take c).reverse (collectUp count (t.buckets.drop (c + 1)) b0) = acc at h2 d2
  have hsub : acc.Sublist U := by
    rw [h2, h1]
    exact ((List.Sublist.refl b0).append (take_flatten_sublist k1 _)).append (take_flatten_sublist k2 _)
  have hndU : (U.map (·.id)).Nodup := (List.Perm.nodup_iff (hU.map (·.id))).mpr hinv.2.1
  have hndacc : (acc.map (·.id)).Nodup := List.Nodup.sublist (hsub.map (·.id)) hndU
  have hsp := sortByDist_perm id acc
  have htake := List.take_sublist count (sortByDist id acc)
  refine ⟨?_, ?_, ?_, ?_⟩
  · exact List.Nodup.sublist (htake.map (·.id)) ((List.Perm.nodup_iff (hsp.map (·.id))).mpr hndacc)
  · exact List.Pairwise.sublist htake (sortByDist_sorted id acc)
  · intro p hp
    exact hU.mem_iff.mp (hsub.subset (hsp.mem_iff.mp (htake.subset hp)))
  · rw [List.length_take, hsp.length_eq]
    have hle : acc.length ≤ t.peers.length := by rw [← hU.length_eq]; exact hsub.length_le
    rcases d2 with h | h
    · omega
    · -- everything below c was taken; then either the first stage stopped early (impossible here) or took everything
      rcases d1 with h' | h'
      · have : acc.length ≥ count := by
          rw [h, List.length_append]; omega
        omega
      · have : acc = U := by rw [h, h']
        rw [this, hU.length_eq]

/-! ### Find, and what `Update` does to the peer set -/

theorem u8_xor_self (a : UInt8) : a ^^^ a = 0 := by
  apply UInt8.toNat_inj.mp
  simp

theorem u8_xor_eq_zero {a b : UInt8} (h : a ^^^ b = 0) : a = b := by
  have := congrArg (· ^^^ b) h
  simp only [UInt8.xor_assoc, u8_xor_self, UInt8.xor_zero, UInt8.zero_xor] at this
  exact this

/-- the XOR distance of equal-length ids is all zeros exactly when the ids are equal -/
theorem distance_zero_iff (a b : Id) (hl : a.length = b.length) :
    distance a b = List.replicate a.length 0 ↔ a = b := by
  induction a generalizing b with
  | nil => cases b <;> simp_all [distance]
  | cons x xs ih =>
    cases b with
    | nil => simp at hl
    | cons y ys =>
      simp only [List.length_cons, Nat.add_right_cancel_iff] at hl
      simp only [distance, List.zipWith_cons_cons, List.length_cons, List.replicate_succ, List.cons.injEq]
      constructor
      · rintro ⟨h1, h2⟩
        exact ⟨u8_xor_eq_zero h1, (ih ys hl).mp h2⟩
      · rintro ⟨rfl, rfl⟩
        exact ⟨u8_xor_self _, (ih xs rfl).mpr rfl⟩

theorem bytesLt_zeros (d : Bytes) : bytesLt d (List.replicate d.length 0) = false := by
  induction d with
  | nil => rfl
  | cons x xs ih =>
    simp only [List.length_cons, List.replicate_succ, bytesLt]
    have h1 : ¬ x < 0 := by rw [UInt8.lt_iff_toNat_lt]; simp
    simp only [h1, if_false]
    split
    · rfl
    · exact ih

/-- nothing of the same length is below all-zeros, and only all-zeros is not above it -/
theorem not_zeros_lt (d : Bytes) (h : bytesLt (List.replicate d.length 0) d = false) : d = List.replicate d.length 0 := by
  induction d with
  | nil => rfl
  | cons x xs ih =>
    simp only [List.length_cons, List.replicate_succ, bytesLt] at h ⊢
    by_cases h0 : (0 : UInt8) < x
    · simp [h0] at h
    · simp only [h0, if_false] at h
      have hx : x = 0 := by
        rw [UInt8.lt_iff_toNat_lt] at h0
        apply UInt8.toNat_inj.mp
        simp at h0 ⊢
        omega
      subst hx
      simp only [UInt8.lt_irrefl, if_false] at h
      rw [← ih h]


theorem eq_of_nodup_map {α β} [DecidableEq β] (f : α → β) (l : List α) (h : (l.map f).Nodup) (a b : α)
    (ha : a ∈ l) (hb : b ∈ l) (hf : f a = f b) : a = b := by
  induction l with
  | nil => cases ha
  | cons x xs ih =>
    simp only [List.map_cons, List.nodup_cons, List.mem_map, not_exists, not_and] at h
    rcases List.mem_cons.mp ha with rfl | ha' <;> rcases List.mem_cons.mp hb with rfl | hb'
    · rfl
    · exact (h.1 b hb' hf.symm).elim
    · exact (h.1 a ha' hf).elim
    · exact ih h.2 ha' hb'

/-- what `NearestPeers` sorts: the target's own bucket is always part of it -/
theorem nearestPeers_acc (t : Table) (id : Id) (count : Nat) (hinv : Inv t) :
    ∃ b0 acc, t.buckets[bucketIdx t (cpl id t.loc)]? = some b0 ∧
      nearestPeers t id count = .ok ((sortByDist id acc).take count) ∧ (∀ q ∈ b0, q ∈ acc) ∧ (∀ q ∈ acc, q ∈ t.peers) := by
  unfold nearestPeers
  simp only
  have hlt := bucketIdx_lt t (cpl id t.loc) hinv.1
  generalize bucketIdx t (cpl id t.loc) = c at hlt
  obtain ⟨b0, hb0⟩ : ∃ b, t.buckets[c]? = some b := ⟨_, List.getElem?_eq_getElem hlt⟩
  rw [hb0]
  simp only
  obtain ⟨⟨k1, h1⟩, _⟩ := collectUp_spec count (t.buckets.drop (c + 1)) b0
  obtain ⟨⟨k2, h2⟩, _⟩ := collectUp_spec count (t.buckets.take c).reverse (collectUp count (t.buckets.drop (c + 1)) b0)
  refine ⟨b0, _, rfl, rfl, ?_, ?_⟩
  · intro q hq
    rw [h2, h1]
    simp [hq]
  · intro q hq
    rw [h2, h1] at hq
    simp only [List.mem_append, List.mem_flatten] at hq
    unfold Table.peers
    rcases hq with (hq | ⟨b, hb, hqb⟩) | ⟨b, hb, hqb⟩
    · exact List.mem_flatten.mpr ⟨b0, List.mem_of_getElem? hb0, hq⟩
    · exact List.mem_flatten.mpr ⟨b, List.mem_of_mem_drop (List.mem_of_mem_take hb), hqb⟩
    · exact List.mem_flatten.mpr ⟨b, List.mem_of_mem_take (List.mem_reverse.mp (List.mem_of_mem_take hb)), hqb⟩

theorem distance_length (a b : Id) (h : a.length = b.length) : (distance a b).length = a.length := by
  simp [distance, h]

/-- **Find**: hit ⇔ member (ids of the length of the target, as in Go where every id has 20 bytes) -/
theorem find_spec (t : Table) (id : Id) (hinv : Inv t) (hlen : ∀ p ∈ t.peers, p.id.length = id.length) :
    ∃ r, find t id = .ok r ∧ ∀ p, r = some p ↔ (p ∈ t.peers ∧ p.id = id) := by
  obtain ⟨b0, acc, hb0, hn, hsub0, hsub⟩ := nearestPeers_acc t id 1 hinv
  unfold find
  rw [hn]
  have hperm := sortByDist_perm id acc
  have hsorted := sortByDist_sorted id acc
  -- uniqueness of ids in the table
  have huniq : ∀ a b, a ∈ t.peers → b ∈ t.peers → a.id = b.id → a = b :=
    fun a b ha hb h => eq_of_nodup_map (·.id) t.peers hinv.2.1 a b ha hb h
  cases hs : sortByDist id acc with
  | nil =>
    -- nothing collected: the target's bucket is empty, so the id is not in the table
    have hacc : acc = [] := by
      have := hperm.length_eq; rw [hs] at this; exact List.length_eq_zero_iff.mp this.symm
    refine ⟨none, by simp, ?_⟩
    intro p
    constructor
    · intro h; cases h
    · rintro ⟨hp, hid⟩
      exfalso
      -- p sits in the bucket of its id
      obtain ⟨b, hbm, hpb⟩ := List.mem_flatten.mp hp
      obtain ⟨i, hi⟩ := List.mem_iff_getElem?.mp hbm
      have hpl := hinv.2.2.2 i b hi p hpb
      rcases bucketIdx_eq_min t (cpl id t.loc) with h | h
      · rw [hid, ← h] at hpl
        rw [← hpl, hi] at hb0
        injection hb0 with hb0
        subst hb0
        have := hsub0 p hpb
        rw [hacc] at this
        cases this
      · exact hinv.1 h
  | cons x rest =>
    simp only [List.take_succ_cons, List.take_zero]
    have hx : x ∈ t.peers := hsub x (hperm.mem_iff.mp (by rw [hs]; exact List.mem_cons_self ..))
    by_cases hxid : x.id = id
    · refine ⟨some x, by simp [hxid], ?_⟩
      intro p
      constructor
      · intro h; injection h with h; subst h; exact ⟨hx, hxid⟩
      · rintro ⟨hp, hid⟩
        rw [huniq x p hx hp (by rw [hxid, hid])]
    · have hne : (x.id == id) = false := by simpa using hxid
      refine ⟨none, by simp [hne], ?_⟩
      intro p
      constructor
      · intro h; cases h
      · rintro ⟨hp, hid⟩
        exfalso
        -- p is in the target's bucket, hence among the sorted candidates; its distance is zero
        obtain ⟨b, hbm, hpb⟩ := List.mem_flatten.mp hp
        obtain ⟨i, hi⟩ := List.mem_iff_getElem?.mp hbm
        have hpl := hinv.2.2.2 i b hi p hpb
        rcases bucketIdx_eq_min t (cpl id t.loc) with h | h
        · rw [hid, ← h] at hpl
          rw [← hpl, hi] at hb0
          injection hb0 with hb0
          subst hb0
          have hpacc : p ∈ x :: rest := by rw [← hs]; exact hperm.mem_iff.mpr (hsub0 p hpb)
          rcases List.mem_cons.mp hpacc with rfl | hpr
          · exact hxid hid
          · rw [hs] at hsorted
            have hpw := (List.pairwise_cons.mp hsorted).1 p hpr
            -- distance(id, p.id) = zeros
            have hz : distance id p.id = List.replicate id.length 0 :=
              (distance_zero_iff id p.id (by rw [hid])).mpr hid.symm
            have hxl : x.id.length = id.length := hlen x hx
            have hdl : (distance id x.id).length = id.length := distance_length id x.id hxl.symm
            rw [hz, ← hdl] at hpw
            have := not_zeros_lt _ hpw
            rw [hdl] at this
            exact hxid ((distance_zero_iff id x.id hxl.symm).mp this).symm
        · exact hinv.1 h

/-! ### `Update` never evicts ("eldest preferred": a full bucket keeps its peers, the newcomer is dropped) -/

theorem peers_set (t : Table) (i : Nat) (bucket b' : List Peer) (hb : t.buckets[i]? = some bucket) :
    (∀ q, (∀ x ∈ bucket, x ∈ b') → q ∈ t.peers → q ∈ ({ t with buckets := t.buckets.set i b' } : Table).peers) ∧
    (∀ q, q ∈ ({ t with buckets := t.buckets.set i b' } : Table).peers → q ∈ t.peers ∨ q ∈ b') := by
  obtain ⟨pre, post, e1, e2⟩ := flatten_set t.buckets i bucket hb
  unfold Table.peers
  simp only
  rw [e1, e2 b']
  constructor
  · intro q hsub hq
    simp only [List.mem_append] at hq ⊢
    rcases hq with (h | h) | h
    · exact Or.inl (Or.inl h)
    · exact Or.inl (Or.inr (hsub q h))
    · exact Or.inr h
  · intro q hq
    simp only [List.mem_append] at hq ⊢
    rcases hq with (h | h) | h
    · exact Or.inl (Or.inl (Or.inl h))
    · exact Or.inr h
    · exact Or.inl (Or.inr h)

/-- `Update` never removes a peer, and adds at most the peer it was called with -/
theorem updateF_peers (fuel : Nat) (t t' : Table) (p : Peer) (r : UpdRes) (hinv : Inv t) (h : updateF fuel t p = .ok (t', r)) :
    (∀ q ∈ t.peers, q ∈ t'.peers) ∧ (∀ q ∈ t'.peers, q ∈ t.peers ∨ q = p) := by
  unfold updateF at h
  simp only at h
  have hlt := bucketIdx_lt t (cpl p.id t.loc) hinv.1
  obtain ⟨bucket, hb⟩ : ∃ b, t.buckets[bucketIdx t (cpl p.id t.loc)]? = some b :=
    ⟨_, List.getElem?_eq_getElem hlt⟩
  rw [hb] at h
  simp only at h
  split at h
  · injection h with h; injection h with h1 _
    subst h1
    have hperm := moveToFront_perm p.id bucket
    obtain ⟨m1, m2⟩ := peers_set t _ bucket (moveToFront p.id bucket) hb
    refine ⟨fun q hq => m1 q (fun x hx => hperm.mem_iff.mpr hx) hq, fun q hq => ?_⟩
    rcases m2 q hq with h | h
    · exact Or.inl h
    · exact Or.inl (List.mem_flatten.mpr ⟨bucket, List.mem_of_getElem? hb, hperm.mem_iff.mp h⟩)
  · split at h
    · injection h with h; injection h with h1 _
      subst h1
      obtain ⟨m1, m2⟩ := peers_set t _ bucket (p :: bucket) hb
      refine ⟨fun q hq => m1 q (fun x hx => List.mem_cons_of_mem _ hx) hq, fun q hq => ?_⟩
      rcases m2 q hq with h | h
      · exact Or.inl h
      · rcases List.mem_cons.mp h with rfl | h
        · exact Or.inr rfl
        · exact Or.inl (List.mem_flatten.mpr ⟨bucket, List.mem_of_getElem? hb, h⟩)
    · split at h
      · cases hnb : nextBucket fuel t with
        | error e => rw [hnb] at h; cases h
        | ok t1 =>
          rw [hnb] at h
          simp only at h
          obtain ⟨hi1, hperm, hloc, _⟩ := nextBucket_inv fuel t t1 hinv hnb
          have hlt1 := bucketIdx_lt t1 (cpl p.id t.loc) hi1.1
          obtain ⟨b1, hb1⟩ : ∃ b, t1.buckets[bucketIdx t1 (cpl p.id t.loc)]? = some b :=
            ⟨_, List.getElem?_eq_getElem hlt1⟩
          rw [hb1] at h
          simp only at h
          split at h
          · injection h with h; injection h with h1 _
            subst h1
            exact ⟨fun q hq => hperm.mem_iff.mpr hq, fun q hq => Or.inl (hperm.mem_iff.mp hq)⟩
          · injection h with h; injection h with h1 _
            subst h1
            obtain ⟨m1, m2⟩ := peers_set t1 _ b1 (p :: b1) hb1
            refine ⟨fun q hq => m1 q (fun x hx => List.mem_cons_of_mem _ hx) (hperm.mem_iff.mpr hq), fun q hq => ?_⟩
            rcases m2 q hq with h | h
            · exact Or.inl (hperm.mem_iff.mp h)
            · rcases List.mem_cons.mp h with rfl | h
              · exact Or.inr rfl
              · exact Or.inl (hperm.mem_iff.mp (List.mem_flatten.mpr ⟨b1, List.mem_of_getElem? hb1, h⟩))
      · injection h with h; injection h with h1 _
        subst h1
        exact ⟨fun q hq => hq, fun q hq => Or.inl hq⟩

/-- a newcomer whose bucket is full and is not the last one is dropped; the table does not change -/
theorem updateF_full_nonlast (fuel : Nat) (t : Table) (p : Peer) (bucket : List Peer)
    (hb : t.buckets[bucketIdx t (cpl p.id t.loc)]? = some bucket) (hh : has bucket p.id = false)
    (hfull : ¬ bucket.length < t.bucketsize) (hnl : bucketIdx t (cpl p.id t.loc) ≠ t.buckets.length - 1) :
    updateF fuel t p = .ok (t, .rejected) := by
  unfold updateF
  simp only [hb, hh, Bool.false_eq_true, if_false, hfull]
  have : (bucketIdx t (cpl p.id t.loc) == t.buckets.length - 1) = false := by simpa using hnl
  simp [this]

/-- a known peer moves to the front of its bucket, the others keep their relative order -/
theorem updateF_present (fuel : Nat) (t : Table) (p : Peer) (bucket : List Peer)
    (hb : t.buckets[bucketIdx t (cpl p.id t.loc)]? = some bucket) (hh : has bucket p.id = true) :
    updateF fuel t p = .ok ({ t with buckets := t.buckets.set (bucketIdx t (cpl p.id t.loc)) (moveToFront p.id bucket) }, .moved) := by
  unfold updateF
  simp only [hb, hh, if_true]


theorem remove_peers (t t' : Table) (id : Id) (r : Bool) (hinv : Inv t) (h : remove t id = .ok (t', r)) :
    ∀ q ∈ t'.peers, q ∈ t.peers := by
  unfold remove at h
  simp only at h
  have hlt := bucketIdx_lt t (cpl id t.loc) hinv.1
  obtain ⟨bucket, hb⟩ : ∃ b, t.buckets[bucketIdx t (cpl id t.loc)]? = some b := ⟨_, List.getElem?_eq_getElem hlt⟩
  rw [hb] at h
  injection h with h; injection h with h1 _
  subst h1
  intro q hq
  rcases (peers_set t _ bucket (removeFirst id bucket) hb).2 q hq with h | h
  · exact h
  · exact List.mem_flatten.mpr ⟨bucket, List.mem_of_getElem? hb, (removeFirst_sublist id bucket).subset h⟩

theorem run_idlen (L : Nat) (ops : List Op) (t : Table) (hinv : Inv t) (hbs : t.bucketsize > 0)
    (hl : ∀ q ∈ t.peers, q.id.length = L) (ho : OpsIdLen L ops) :
    ∃ t', run t ops = .ok t' ∧ Inv t' ∧ (∀ q ∈ t'.peers, q.id.length = L) := by
  induction ops generalizing t with
  | nil => exact ⟨t, rfl, hinv, hl⟩
  | cons op r ih =>
    have hstep : ∃ t1, step t op = .ok t1 ∧ Inv t1 ∧ t1.bucketsize = t.bucketsize ∧ (∀ q ∈ t1.peers, q.id.length = L) := by
      cases op with
      | update p =>
        obtain ⟨t1, res, h, hi, _, hs⟩ := updateF_inv (fuelFor t) t p hinv hbs (Nat.le_refl _)
        refine ⟨t1, by simp only [step, update, h]; rfl, hi, hs, ?_⟩
        intro q hq
        rcases (updateF_peers _ t t1 p res hinv h).2 q hq with h' | rfl
        · exact hl q h'
        · exact ho _ (List.mem_cons_self ..) _ rfl
      | remove id =>
        obtain ⟨t1, res, h, hi, _, hs⟩ := remove_inv t id hinv
        exact ⟨t1, by simp only [step, h]; rfl, hi, hs, fun q hq => hl q (remove_peers t t1 id res hinv h q hq)⟩
    obtain ⟨t1, h1, hi1, hs1, hl1⟩ := hstep
    obtain ⟨t2, h2, hi2, hl2⟩ := ih t1 hi1 (by omega) hl1 (fun op hop => ho op (List.mem_cons_of_mem _ hop))
    exact ⟨t2, by simp only [run, h1, h2], hi2, hl2⟩

end OntVerif.Proofs.KBucket
