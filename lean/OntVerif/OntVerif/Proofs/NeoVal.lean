import OntVerif.Model.NeoVal
import OntVerif.Proofs.Codec
/-! Specification vocabulary (reachability, cycles, well-formed heaps) and helper lemmas for C14 / C15. Core-only. -/
namespace OntVerif.Proofs.NeoVal
open OntVerif.Util OntVerif.Model.Codec OntVerif.Model.NeoVal OntVerif.Proofs.Codec

deriving instance DecidableEq for Except

/-! ## reachability -/

/-- object `r` has the reference `s` among its elements / entry values -/
def Edge (h : Heap) (r s : Ref) : Prop := ∃ o, h[r]? = some o ∧ Val.ref s ∈ o.kids

inductive Reach (h : Heap) : Ref → Ref → Prop
  | refl (r : Ref) : Reach h r r
  | step {a b c : Ref} : Edge h a b → Reach h b c → Reach h a c

theorem Reach.trans {h : Heap} {a b c : Ref} (h1 : Reach h a b) (h2 : Reach h b c) : Reach h a c := by
  induction h1 with
  | refl => exact h2
  | step e _ ih => exact .step e (ih h2)

theorem Reach.tail {h : Heap} {a b c : Ref} (h1 : Reach h a b) (e : Edge h b c) : Reach h a c :=
  h1.trans (.step e (.refl c))

/-- some object on a cycle is reachable from object `r` -/
def CycleFrom (h : Heap) (r : Ref) : Prop := ∃ c d, Reach h r c ∧ Edge h c d ∧ Reach h d c

/-- a reference cycle is reachable from the value -/
def CycleReachable (h : Heap) : Val → Prop
  | .ref r => CycleFrom h r
  | _ => False

/-! ## soundness of `hasCycle` (no fuel / heap hypotheses) -/

theorem safeIter_length (h : Heap) (k : Nat) : (safeIter h k).length = h.length := by
  cases k <;> simp [safeIter, safeStep]

theorem safeStep_getD {h : Heap} {s : List Bool} {r : Ref} (hs : (safeStep h s).getD r false = true) :
    ∃ o, h[r]? = some o ∧ ∀ c ∈ o.kids, isSafeVal s c = true := by
  unfold safeStep at hs
  rw [List.getD_eq_getElem?_getD, List.getElem?_map] at hs
  cases ho : h[r]? with
  | none => simp [ho] at hs
  | some o =>
    simp only [ho, Option.map_some, Option.getD_some, List.all_eq_true] at hs
    exact ⟨o, rfl, hs⟩

theorem safeIter_zero_getD (h : Heap) (r : Ref) : (safeIter h 0).getD r false = false := by
  unfold safeIter
  rw [List.getD_eq_getElem?_getD, List.getElem?_map]
  cases h[r]? <;> rfl

/-- an object marked safe after any number of rounds reaches no cycle -/
theorem safe_no_cycle (h : Heap) (k : Nat) : ∀ r, (safeIter h k).getD r false = true → ¬ CycleFrom h r := by
  induction k with
  | zero => intro r hs; rw [safeIter_zero_getD] at hs; cases hs
  | succ k ih =>
    intro r hs ⟨c, d, hrc, hcd, hdc⟩
    obtain ⟨o, ho, hk⟩ := safeStep_getD hs
    cases hrc with
    | refl =>
      -- r itself is on the cycle: its child d reaches r and r steps to d again
      obtain ⟨o', ho', hmem⟩ := hcd
      rw [ho] at ho'; cases ho'
      have hsd := hk _ hmem
      exact ih d hsd ⟨r, d, hdc, ⟨o, ho, hmem⟩, hdc⟩
    | step e rest =>
      obtain ⟨o', ho', hmem⟩ := e
      rw [ho] at ho'; cases ho'
      have hsb := hk _ hmem
      exact ih _ hsb ⟨c, d, rest, hcd, hdc⟩

theorem hasCycle_of_reachable (h : Heap) (v : Val) (hc : CycleReachable h v) : hasCycle h v = true := by
  cases v with
  | ref r =>
    cases hs : (safeIter h h.length).getD r false with
    | false =>
      show (!(safeIter h h.length).getD r false) = true
      rw [hs]; rfl
    | true => exact absurd hc (safe_no_cycle h _ r hs)
  | _ => cases hc

end OntVerif.Proofs.NeoVal
