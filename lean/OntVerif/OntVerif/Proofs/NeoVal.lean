import OntVerif.Model.NeoVal
import OntVerif.Proofs.Codec
import OntVerif.Props.C18
/-! Specification vocabulary (reachability, cycles, well-formed heaps) and helper lemmas for C14 / C15. Core-only. -/
namespace OntVerif.Proofs.NeoVal
open OntVerif.Util OntVerif.Model.Codec OntVerif.Model.NeoVal OntVerif.Proofs.Codec

deriving instance DecidableEq for Except

/-! ## reachability -/

/-- object `r` has the reference `s` among its elements / entry values -/
def Edge (h : Heap) (r s : Ref) : Prop := ∃ o, h[r]? = some o ∧ Val.ref s ∈ o.kids

inductive Reach (h : Heap) : Ref → Ref → Prop
  | refl (r : Ref) : Reach h r r
  | step {a b c : Ref} : Edge h a b → Reach h b c → Reach h a c

theorem Reach.trans {h : Heap} {a b c : Ref} (h1 : Reach h a b) (h2 : Reach h b c) : Reach h a c := by
  induction h1 with
  | refl => exact h2
  | step e _ ih => exact .step e (ih h2)

theorem Reach.tail {h : Heap} {a b c : Ref} (h1 : Reach h a b) (e : Edge h b c) : Reach h a c :=
  h1.trans (.step e (.refl c))

/-- some object on a cycle is reachable from object `r` -/
def CycleFrom (h : Heap) (r : Ref) : Prop := ∃ c d, Reach h r c ∧ Edge h c d ∧ Reach h d c

/-- a reference cycle is reachable from the value -/
def CycleReachable (h : Heap) : Val → Prop
  | .ref r => CycleFrom h r
  | _ => False

/-! ## soundness of `hasCycle` (no fuel / heap hypotheses) -/

theorem safeIter_length (h : Heap) (k : Nat) : (safeIter h k).length = h.length := by
  cases k <;> simp [safeIter, safeStep]

theorem safeStep_getD {h : Heap} {s : List Bool} {r : Ref} (hs : (safeStep h s).getD r false = true) :
    ∃ o, h[r]? = some o ∧ ∀ c ∈ o.kids, isSafeVal s c = true := by
  unfold safeStep at hs
  rw [List.getD_eq_getElem?_getD, List.getElem?_map] at hs
  cases ho : h[r]? with
  | none => simp [ho] at hs
  | some o =>
    simp only [ho, Option.map_some, Option.getD_some, List.all_eq_true] at hs
    exact ⟨o, rfl, hs⟩

theorem safeIter_zero_getD (h : Heap) (r : Ref) : (safeIter h 0).getD r false = false := by
  unfold safeIter
  rw [List.getD_eq_getElem?_getD, List.getElem?_map]
  cases h[r]? <;> rfl

/-- an object marked safe after any number of rounds reaches no cycle -/
theorem safe_no_cycle (h : Heap) (k : Nat) : ∀ r, (safeIter h k).getD r false = true → ¬ CycleFrom h r := by
  induction k with
  | zero => intro r hs; rw [safeIter_zero_getD] at hs; cases hs
  | succ k ih =>
    intro r hs ⟨c, d, hrc, hcd, hdc⟩
    obtain ⟨o, ho, hk⟩ := safeStep_getD hs
    cases hrc with
    | refl =>
      -- r itself is on the cycle: its child d reaches r and r steps to d again
      obtain ⟨o', ho', hmem⟩ := hcd
      rw [ho] at ho'; cases ho'
      have hsd := hk _ hmem
      exact ih d hsd ⟨r, d, hdc, ⟨o, ho, hmem⟩, hdc⟩
    | step e rest =>
      obtain ⟨o', ho', hmem⟩ := e
      rw [ho] at ho'; cases ho'
      have hsb := hk _ hmem
      exact ih _ hsb ⟨c, d, rest, hcd, hdc⟩

theorem hasCycle_of_reachable (h : Heap) (v : Val) (hc : CycleReachable h v) : hasCycle h v = true := by
  cases v with
  | ref r =>
    cases hs : (safeIter h h.length).getD r false with
    | false =>
      show (!(safeIter h h.length).getD r false) = true
      rw [hs]; rfl
    | true => exact absurd hc (safe_no_cycle h _ r hs)
  | _ => cases hc

/-! ## decoding is total -/

/-- a decoder result that is either a value with a cursor that only moved forward inside the buffer, or one of the
genuine error kinds (never `panic`, never `fuel`) -/
def Good {α : Type} (s : Src) : Except DErr (α × Src) → Prop
  | .ok (_, s') => Adv s s'
  | .error e => e ≠ .panic ∧ e ≠ .fuel

theorem readCount_good (s : Src) (w : s.wf) : Good s (readCount s) := by
  obtain ⟨r, s', h, adv, _⟩ := nextVarUint_total s w
  unfold readCount
  rw [h]
  simp only
  split
  · exact ⟨by decide, by decide⟩
  · split
    · exact ⟨by decide, by decide⟩
    · exact adv

theorem readVarBytes_good (s : Src) (w : s.wf) : Good s (readVarBytes s) := by
  obtain ⟨⟨d, sz, irr, eof⟩, s', h, adv⟩ := nextVarBytes_total s w
  unfold readVarBytes
  rw [h]
  simp only
  split
  · exact ⟨by decide, by decide⟩
  · split
    · exact ⟨by decide, by decide⟩
    · exact adv

theorem desList_good (rec : Src → Except DErr (Tree × Src)) (hrec : ∀ s, s.wf → Good s (rec s)) :
    ∀ n s acc, s.wf → Good s (desList rec n s acc) := by
  intro n
  induction n with
  | zero => intro s acc w; exact Adv.refl w
  | succ n ih =>
    intro s acc w
    unfold desList
    have h1 := hrec s w
    cases hr : rec s with
    | error e => rw [hr] at h1; exact h1
    | ok p =>
      obtain ⟨t, s'⟩ := p
      rw [hr] at h1
      simp only
      split
      · exact ⟨by decide, by decide⟩
      · have h2 := ih s' (t :: acc) (Adv.wf h1 w)
        cases hd : desList rec n s' (t :: acc) with
        | error e => rw [hd] at h2; exact h2
        | ok q => obtain ⟨ts, s''⟩ := q; rw [hd] at h2; exact Adv.trans h1 h2

theorem desMap_good (rec : Src → Except DErr (Tree × Src)) (hrec : ∀ s, s.wf → Good s (rec s)) :
    ∀ n s acc, s.wf → Good s (desMap rec n s acc) := by
  intro n
  induction n with
  | zero => intro s acc w; exact Adv.refl w
  | succ n ih =>
    intro s acc w
    unfold desMap
    have h1 := hrec s w
    cases hr : rec s with
    | error e => rw [hr] at h1; exact h1
    | ok p =>
      obtain ⟨k, s1⟩ := p
      rw [hr] at h1
      simp only
      have w1 := Adv.wf h1 w
      have h2 := hrec s1 w1
      cases hr2 : rec s1 with
      | error e => rw [hr2] at h2; exact h2
      | ok p2 =>
        obtain ⟨v, s2⟩ := p2
        rw [hr2] at h2
        simp only
        cases k.asBytes with
        | none => exact ⟨by decide, by decide⟩
        | some kb =>
          simp only
          have h3 := ih s2 (tmapSet kb k v acc) (Adv.wf h2 w1)
          cases hd : desMap rec n s2 (tmapSet kb k v acc) with
          | error e => rw [hd] at h3; exact h3
          | ok q => obtain ⟨es, s3⟩ := q; rw [hd] at h3; exact Adv.trans h1 (Adv.trans h2 h3)


theorem deser_good : ∀ f s depth, s.wf → f + depth ≥ MAX_COUNT + 2 → depth ≤ MAX_COUNT + 1 →
    Good s (deser f s depth) := by
  intro f
  induction f with
  | zero => intro s depth _ h1 h2; omega
  | succ f ih =>
    intro s depth w hf hd
    unfold deser
    split
    · exact ⟨by decide, by decide⟩
    · rename_i hdep
      have hrec : ∀ s, s.wf → Good s (deser f s (depth + 1)) := fun s w => ih s (depth + 1) w (by omega) (by omega)
      have a1 := nextByte_adv s w
      generalize nextByte s = nb at a1
      obtain ⟨⟨t, eof⟩, s1⟩ := nb
      simp only at a1 ⊢
      have w1 := Adv.wf a1 w
      split
      · exact ⟨by decide, by decide⟩
      split
      · -- bool
        have a2 := nextBool_adv s1 w1
        generalize nextBool s1 = nb2 at a2
        obtain ⟨⟨b, irr, eof2⟩, s2⟩ := nb2
        simp only at a2 ⊢
        split
        · exact ⟨by decide, by decide⟩
        split
        · exact ⟨by decide, by decide⟩
        · exact Adv.trans a1 a2
      split
      · -- bytes
        have h2 := readVarBytes_good s1 w1
        cases hr : readVarBytes s1 with
        | error e => rw [hr] at h2; exact h2
        | ok p =>
          obtain ⟨d, s2⟩ := p
          rw [hr] at h2
          simp only
          split
          · exact ⟨by decide, by decide⟩
          · exact Adv.trans a1 h2
      split
      · -- int
        have h2 := readVarBytes_good s1 w1
        cases hr : readVarBytes s1 with
        | error e => rw [hr] at h2; exact h2
        | ok p =>
          obtain ⟨d, s2⟩ := p
          rw [hr] at h2
          simp only
          split
          · exact ⟨by decide, by decide⟩
          · exact Adv.trans a1 h2
      split
      ·
        have h1 := readCount_good s1 w1
        cases hr : readCount s1 with
        | error e => rw [hr] at h1; exact h1
        | ok p =>
          obtain ⟨l, s2⟩ := p
          rw [hr] at h1
          simp only
          have h2 := desList_good _ hrec (loopCount l) s2 [] (Adv.wf h1 w1)
          generalize desList (fun s => deser f s (depth + 1)) (loopCount l) s2 [] = res at h2
          cases res with
          | error e => exact h2
          | ok q => obtain ⟨ts, s3⟩ := q; exact Adv.trans a1 (Adv.trans h1 h2)
      split
      ·
        have h1 := readCount_good s1 w1
        cases hr : readCount s1 with
        | error e => rw [hr] at h1; exact h1
        | ok p =>
          obtain ⟨l, s2⟩ := p
          rw [hr] at h1
          simp only
          have h2 := desMap_good _ hrec (loopCount l) s2 [] (Adv.wf h1 w1)
          generalize desMap (fun s => deser f s (depth + 1)) (loopCount l) s2 [] = res at h2
          cases res with
          | error e => exact h2
          | ok q => obtain ⟨ts, s3⟩ := q; exact Adv.trans a1 (Adv.trans h1 h2)
      split
      ·
        have h1 := readCount_good s1 w1
        cases hr : readCount s1 with
        | error e => rw [hr] at h1; exact h1
        | ok p =>
          obtain ⟨l, s2⟩ := p
          rw [hr] at h1
          simp only
          have h2 := desList_good _ hrec (loopCount l) s2 [] (Adv.wf h1 w1)
          generalize desList (fun s => deser f s (depth + 1)) (loopCount l) s2 [] = res at h2
          cases res with
          | error e => exact h2
          | ok q => obtain ⟨ts, s3⟩ := q; exact Adv.trans a1 (Adv.trans h1 h2)
      · exact ⟨by decide, by decide⟩

theorem deserialize_good (bs : Bytes) (hlen : bs.length < two64) : Good ⟨bs, 0⟩ (deserialize bs) :=
  deser_good _ _ _ ⟨Nat.zero_le _, hlen⟩ (by decide) (by decide)

/-! ## what the shipped detector does catch: cycles along the first-element chain -/

/-- the child the shipped detector certainly follows from object `r`: element 0 of an array/struct, the value of the only
entry of a one-entry map (every iteration order of a one-entry map starts with that entry) -/
def firstStep (h : Heap) (r : Ref) : Option Val :=
  match h[r]? with
  | some (.arr (v :: _)) => some v
  | some (.struct (v :: _)) => some v
  | some (.map [e]) => some e.val
  | _ => none

/-- follow the first-element chain `n` times through containers -/
def firstIter (h : Heap) : Nat → Ref → Option Ref
  | 0, r => some r
  | n+1, r =>
    match firstStep h r with
    | some (.ref s) => firstIter h n s
    | _ => none

/-- the first-element chain from `r` never reaches a leaf or an empty container -/
def NeverEnds (h : Heap) (r : Ref) : Prop := ∀ n, (firstIter h n r).isSome = true

/-- the first-element chain from `r` returns to `r` -/
def FirstCycle (h : Heap) (r : Ref) : Prop := ∃ n, 0 < n ∧ firstIter h n r = some r

theorem firstIter_add (h : Heap) (a b : Nat) (r : Ref) :
    firstIter h (a + b) r = (firstIter h a r).bind (firstIter h b) := by
  induction a generalizing r with
  | zero => simp [firstIter]
  | succ a ih =>
    rw [Nat.succ_add]
    simp only [firstIter]
    cases firstStep h r with
    | none => rfl
    | some v => cases v <;> simp [ih]

theorem neverEnds_of_firstCycle {h : Heap} {r : Ref} (hc : FirstCycle h r) : NeverEnds h r := by
  obtain ⟨n, hn, hr⟩ := hc
  intro m
  induction m using Nat.strongRecOn with
  | _ m ih =>
    by_cases hm : m ≤ n
    · have e : n = m + (n - m) := by omega
      rw [e, firstIter_add] at hr
      cases hx : firstIter h m r with
      | none => rw [hx] at hr; cases hr
      | some _ => rfl
    · have e : m = n + (m - n) := by omega
      rw [e, firstIter_add, hr]
      exact ih (m - n) (by omega)

theorem neverEnds_step {h : Heap} {r : Ref} (hn : NeverEnds h r) :
    ∃ s, firstStep h r = some (.ref s) ∧ NeverEnds h s := by
  have h1 := hn 1
  simp only [firstIter] at h1
  cases hs : firstStep h r with
  | none => rw [hs] at h1; cases h1
  | some v =>
    cases v with
    | ref s =>
      refine ⟨s, rfl, fun n => ?_⟩
      have := hn (n + 1)
      simpa [firstIter, hs] using this
    | _ => rw [hs] at h1; cases h1

theorem detShipped_of_neverEnds (perm : Perm) (hv : perm.valid) (path : List Nat) (h : Heap) :
    ∀ k r vis, NeverEnds h r → detShipped perm path h k vis (.ref r) = true := by
  intro k
  induction k with
  | zero => intro r vis _; rfl
  | succ k ih =>
    intro r vis hn
    obtain ⟨s, hs, hns⟩ := neverEnds_step hn
    unfold firstStep at hs
    unfold detShipped
    cases ho : h[r]? with
    | none => rw [ho] at hs; cases hs
    | some o =>
      rw [ho] at hs
      cases o with
      | arr vs =>
        cases vs with
        | nil => cases hs
        | cons v vs =>
          simp only at hs
          cases hs
          simp only
          split
          · rfl
          · exact ih s _ hns
      | struct vs =>
        cases vs with
        | nil => cases hs
        | cons v vs =>
          simp only at hs
          cases hs
          simp only
          split
          · rfl
          · exact ih s _ hns
      | map es =>
        match es, hs with
        | [e], hs =>
          simp only at hs
          have hp : perm path r [e] = [e] := List.perm_singleton.mp (hv path r [e])
          simp only [hp]
          have hev : e.val = Val.ref s := Option.some.inj hs
          split
          · rfl
          · rw [hev]
            exact ih s _ hns

/-! ## `BigIntToNeoBytes` / `BigIntFromNeoBytes` round trip -/

theorem toNeoAux_ne_nil (f : Nat) (z : Int) : toNeoAux (f + 1) z ≠ [] := by
  unfold toNeoAux
  simp only
  split <;> simp

theorem ofNat_emod_toNat (z : Int) : ((UInt8.ofNat (z % 256).toNat).toNat : Int) = z % 256 := by
  have h1 : 0 ≤ z % 256 := Int.emod_nonneg z (by decide)
  have h2 : z % 256 < 256 := Int.emod_lt_of_pos z (by decide)
  have : (z % 256).toNat < 256 := by omega
  rw [toNat_ofNat_lt _ this]
  omega

theorem fromNeo_cons (b : UInt8) (r : Bytes) (hr : r ≠ []) : fromNeo (b :: r) = (b.toNat : Int) + 256 * fromNeo r := by
  cases r with
  | nil => exact absurd rfl hr
  | cons c t => rfl

theorem fromNeo_toNeoAux : ∀ f z, z.natAbs ≤ f → 1 ≤ f → fromNeo (toNeoAux f z) = z := by
  intro f
  induction f with
  | zero => intro z _ hz; omega
  | succ f ih =>
    intro z hf hz
    unfold toNeoAux
    simp only
    have hb := ofNat_emod_toNat z
    split
    · rename_i hr
      show (if (UInt8.ofNat (z % 256).toNat).toNat < 128 then _ else _) = z
      have hb' : ((UInt8.ofNat (z % 256).toNat).toNat : Int) = z % 256 := hb
      split
      · rename_i hlt; omega
      · rename_i hge; omega
    · rename_i hr
      have hz' : 1 ≤ f := by omega
      have hzf : -((f : Int) + 1) ≤ z ∧ z ≤ (f : Int) + 1 := by omega
      have hq : -(f : Int) ≤ z / 256 ∧ z / 256 ≤ (f : Int) := by omega
      have hf' : (z / 256).natAbs ≤ f := by omega
      have hne : toNeoAux f (z / 256) ≠ [] := by
        cases f with
        | zero => omega
        | succ f => exact toNeoAux_ne_nil f _
      rw [fromNeo_cons _ _ hne, ih _ hf' hz', hb]
      omega

theorem fromNeo_toNeo (z : Int) : fromNeo (toNeo z) = z := by
  unfold toNeo
  split
  · rename_i h; subst h; rfl
  · rename_i h; exact fromNeo_toNeoAux _ z (Nat.le_refl _) (by omega)

/-! ## key order, sorted maps, independence of the iteration order -/

theorem ble_total : ∀ a b : Bytes, ble a b = true ∨ ble b a = true
  | [], _ => .inl rfl
  | _ :: _, [] => .inr rfl
  | a :: as, b :: bs => by
    simp only [ble, Bool.or_eq_true, decide_eq_true_eq, Bool.and_eq_true, beq_iff_eq]
    rcases ble_total as bs with h | h
    · by_cases h1 : a.toNat < b.toNat
      · exact .inl (.inl h1)
      · by_cases h2 : b.toNat < a.toNat
        · exact .inr (.inl h2)
        · exact .inl (.inr ⟨by omega, h⟩)
    · by_cases h1 : a.toNat < b.toNat
      · exact .inl (.inl h1)
      · by_cases h2 : b.toNat < a.toNat
        · exact .inr (.inl h2)
        · exact .inr (.inr ⟨by omega, h⟩)

theorem ble_antisymm : ∀ a b : Bytes, ble a b = true → ble b a = true → a = b
  | [], [], _, _ => rfl
  | [], _ :: _, _, h => by simp [ble] at h
  | _ :: _, [], h, _ => by simp [ble] at h
  | a :: as, b :: bs, h1, h2 => by
    simp only [ble, Bool.or_eq_true, decide_eq_true_eq, Bool.and_eq_true, beq_iff_eq] at h1 h2
    have hab : a.toNat = b.toNat := by
      rcases h1 with h1 | h1 <;> rcases h2 with h2 | h2 <;> omega
    have h1' : ble as bs = true := by rcases h1 with h1 | h1; omega; exact h1.2
    have h2' : ble bs as = true := by rcases h2 with h2 | h2; omega; exact h2.2
    rw [UInt8.toNat_inj.mp hab, ble_antisymm as bs h1' h2']

theorem ble_trans : ∀ a b c : Bytes, ble a b = true → ble b c = true → ble a c = true
  | [], _, _, _, _ => rfl
  | _ :: _, [], _, h, _ => by simp [ble] at h
  | _ :: _, _ :: _, [], _, h => by simp [ble] at h
  | a :: as, b :: bs, c :: cs, h1, h2 => by
    simp only [ble, Bool.or_eq_true, decide_eq_true_eq, Bool.and_eq_true, beq_iff_eq] at h1 h2 ⊢
    rcases h1 with h1 | ⟨h1, h1'⟩ <;> rcases h2 with h2 | ⟨h2, h2'⟩
    · exact .inl (by omega)
    · exact .inl (by omega)
    · exact .inl (by omega)
    · exact .inr ⟨by omega, ble_trans as bs cs h1' h2'⟩

def kle (a b : Entry) : Prop := ble a.key b.key = true

/-- a Go map in the model: entries sorted by key string, keys pairwise different -/
def SortedK (es : List Entry) : Prop := es.Pairwise fun a b => ble a.key b.key = true ∧ a.key ≠ b.key

theorem insertE_perm (e : Entry) : ∀ l, (insertE e l).Perm (e :: l)
  | [] => List.Perm.refl _
  | x :: xs => by
    unfold insertE
    split
    · exact List.Perm.refl _
    · exact ((insertE_perm e xs).cons x).trans (List.Perm.swap e x xs)

theorem sortE_perm : ∀ l, (sortE l).Perm l
  | [] => List.Perm.refl _
  | e :: es => (insertE_perm e (sortE es)).trans ((sortE_perm es).cons e)

theorem insertE_sorted (e : Entry) : ∀ l, l.Pairwise kle → (insertE e l).Pairwise kle
  | [], _ => List.pairwise_singleton _ _
  | x :: xs, h => by
    unfold insertE
    split
    · rename_i hle
      refine List.Pairwise.cons ?_ h
      intro y hy
      rcases List.mem_cons.mp hy with rfl | hy
      · exact hle
      · exact ble_trans _ _ _ hle ((List.pairwise_cons.mp h).1 y hy)
    · rename_i hle
      have hxe : kle x e := by
        rcases ble_total e.key x.key with h' | h'
        · exact absurd h' hle
        · exact h'
      refine List.Pairwise.cons ?_ (insertE_sorted e xs (List.pairwise_cons.mp h).2)
      intro y hy
      rcases List.mem_cons.mp ((insertE_perm e xs).subset hy) with rfl | hy
      · exact hxe
      · exact (List.pairwise_cons.mp h).1 y hy

theorem sortE_sorted : ∀ l, (sortE l).Pairwise kle
  | [] => List.Pairwise.nil
  | e :: es => insertE_sorted e _ (sortE_sorted es)

theorem SortedK.eq_of_key {es : List Entry} (hs : SortedK es) {a b : Entry} (ha : a ∈ es) (hb : b ∈ es)
    (hk : a.key = b.key) : a = b := by
  induction es with
  | nil => cases ha
  | cons x xs ih =>
    obtain ⟨hx, hxs⟩ := List.pairwise_cons.mp hs
    rcases List.mem_cons.mp ha with ha' | ha' <;> rcases List.mem_cons.mp hb with hb' | hb'
    · rw [ha', hb']
    · subst ha'; exact absurd hk (hx b hb').2
    · subst hb'; exact absurd hk.symm (hx a ha').2
    · exact ih hxs ha' hb'

/-- **Sorting removes the iteration order**: whatever order the entries of a map are visited in, sorting the visited
sequence gives the map's canonical entry list. -/
theorem sortE_of_perm {l es : List Entry} (hp : l.Perm es) (hs : SortedK es) : sortE l = es := by
  have p : (sortE l).Perm es := (sortE_perm l).trans hp
  refine List.Perm.eq_of_pairwise (le := kle) ?_ (sortE_sorted l) (hs.imp fun h => h.1) p
  intro a b ha hb hab hba
  exact hs.eq_of_key (p.subset ha) hb (ble_antisymm _ _ hab hba)

theorem sortedEntries_eq (perm : Perm) (hv : perm.valid) (path : List Nat) (r : Ref) {es : List Entry}
    (hs : SortedK es) : sortedEntries perm path r es = es :=
  sortE_of_perm (hv path r es) hs

/-! ## round trip -/

def valOK : Val → Prop
  | .int z => intTooBig z = false
  | _ => True

instance (v : Val) : Decidable (valOK v) := by
  cases v <;> unfold valOK <;> infer_instance

def elemsOf : Obj → List Val
  | .arr vs => vs
  | .struct vs => vs
  | .map es => es.flatMap fun e => [e.kv, e.val]

/-- the limits under which the round trip is claimed (they hold for every heap the VM can build, except the integer bound,
which `INVERT` can violate — see C13) -/
structure WFHeap (h : Heap) : Prop where
  arr : ∀ (r : Ref) vs, h[r]? = some (Obj.arr vs) → vs.length ≤ MAX_ARRAY_SIZE
  struct : ∀ (r : Ref) vs, h[r]? = some (Obj.struct vs) → vs.length ≤ MAX_ARRAY_SIZE
  map : ∀ (r : Ref) es, h[r]? = some (Obj.map es) → SortedK es ∧ es.length < 9223372036854775808 ∧ ∀ e ∈ es, asBytes e.kv = some e.key
  vals : ∀ (r : Ref) o, h[r]? = some o → ∀ v ∈ elemsOf o, valOK v

theorem chkSize_ok {size : Nat} {out b : Bytes} (h : chkSize size out = .ok b) :
    b = out ∧ size + out.length ≤ MAX_BYTEARRAY_SIZE := by
  unfold chkSize at h
  split at h
  · cases h
  · cases h; exact ⟨rfl, by omega⟩

theorem ser_zero {var perm h path v size} {out : Bytes} : ser var perm h 0 path v size ≠ .ok out := by
  simp [ser]

theorem ser_bytes_ok {var perm h f path size d} {out : Bytes}
    (hs : ser var perm h f path (.bytes d) size = .ok out) :
    out = encLeaf (.bytes d) ∧ size + out.length ≤ MAX_BYTEARRAY_SIZE := by
  cases f with
  | zero => exact absurd hs ser_zero
  | succ f =>
    unfold ser at hs
    split at hs
    · cases hs
    · obtain ⟨h1, h2⟩ := chkSize_ok hs; subst h1; exact ⟨rfl, h2⟩

theorem ser_bool_ok {var perm h f path size b} {out : Bytes}
    (hs : ser var perm h f path (.bool b) size = .ok out) :
    out = encLeaf (.bool b) ∧ size + out.length ≤ MAX_BYTEARRAY_SIZE := by
  cases f with
  | zero => exact absurd hs ser_zero
  | succ f =>
    unfold ser at hs
    split at hs
    · cases hs
    · obtain ⟨h1, h2⟩ := chkSize_ok hs; subst h1; exact ⟨rfl, h2⟩

theorem ser_int_ok {var perm h f path size z} {out : Bytes}
    (hs : ser var perm h f path (.int z) size = .ok out) :
    out = encLeaf (.int z) ∧ size + out.length ≤ MAX_BYTEARRAY_SIZE := by
  cases f with
  | zero => exact absurd hs ser_zero
  | succ f =>
    unfold ser at hs
    split at hs
    · cases hs
    · obtain ⟨h1, h2⟩ := chkSize_ok hs; subst h1; exact ⟨rfl, h2⟩

theorem ser_ref_ok {var perm h f path size r} {out : Bytes}
    (hs : ser var perm h f path (.ref r) size = .ok out) :
    ∃ f' o body, f = f' + 1 ∧ h[r]? = some o ∧
      serList (ser var perm h f') path 0 (serKids perm path r o) (size + (tagOf o :: writeVarUint (countOf o)).length) = .ok body ∧
      out = (tagOf o :: writeVarUint (countOf o)) ++ body ∧ size + out.length ≤ MAX_BYTEARRAY_SIZE := by
  cases f with
  | zero => exact absurd hs ser_zero
  | succ f =>
    unfold ser at hs
    split at hs
    · cases hs
    · simp only at hs
      cases ho : h[r]? with
      | none => rw [ho] at hs; cases hs
      | some o =>
        rw [ho] at hs
        simp only at hs
        cases hb : serList (ser var perm h f) path 0 (serKids perm path r o) (size + (tagOf o :: writeVarUint (countOf o)).length) with
        | error e => rw [hb] at hs; cases hs
        | ok body =>
          rw [hb] at hs
          obtain ⟨h1, h2⟩ := chkSize_ok hs
          subst h1
          exact ⟨f, o, body, rfl, rfl, hb, rfl, h2⟩

theorem serList_cons_ok {rec : List Nat → Val → Nat → Except VErr Bytes} {path i v vs size} {body : Bytes}
    (hs : serList rec path i (v :: vs) size = .ok body) :
    ∃ o os, rec (i :: path) v size = .ok o ∧ serList rec path (i + 1) vs (size + o.length) = .ok os ∧ body = o ++ os := by
  unfold serList at hs
  cases h1 : rec (i :: path) v size with
  | error e => rw [h1] at hs; cases hs
  | ok o =>
    rw [h1] at hs
    simp only at hs
    cases h2 : serList rec path (i + 1) vs (size + o.length) with
    | error e => rw [h2] at hs; cases hs
    | ok os => rw [h2] at hs; cases hs; exact ⟨o, os, rfl, h2, rfl⟩

theorem serList_nil_ok {rec : List Nat → Val → Nat → Except VErr Bytes} {path i size} {body : Bytes}
    (hs : serList rec path i [] size = .ok body) : body = [] := by
  unfold serList at hs; cases hs; rfl


/-! ### decoder side -/

theorem writeVarBytes_length (d : Bytes) : (writeVarBytes d).length = getVarUintSize d.length + d.length := by
  simp [writeVarBytes, writeVarUint_length]

theorem readVarBytes_rt (pre d rest : Bytes) (hlen : (pre ++ writeVarBytes d ++ rest).length < two64) :
    readVarBytes ⟨pre ++ writeVarBytes d ++ rest, pre.length⟩
      = .ok (d, ⟨pre ++ writeVarBytes d ++ rest, pre.length + (writeVarBytes d).length⟩) := by
  unfold readVarBytes
  rw [OntVerif.Props.C18.C18_rt_varbytes d pre rest hlen, writeVarBytes_length]
  simp [Nat.add_assoc]

theorem readCount_rt (pre : Bytes) (n : Nat) (rest : Bytes) (hn : n < two64)
    (hlen : (pre ++ writeVarUint n ++ rest).length < two64) :
    readCount ⟨pre ++ writeVarUint n ++ rest, pre.length⟩
      = .ok (n, ⟨pre ++ writeVarUint n ++ rest, pre.length + (writeVarUint n).length⟩) := by
  unfold readCount
  rw [rt_varuint n hn pre rest hlen, writeVarUint_length]
  simp

def leafTree : Val → Tree
  | .bytes d => .bytes d
  | .bool b => .bool b
  | .int z => .int z
  | .ref _ => .int 0

/-- one tag byte then a payload: what `deser` sees after `NextByte` -/
theorem deser_step (g depth : Nat) (pre : Bytes) (tag : UInt8) (tail : Bytes) (hd : depth ≤ MAX_COUNT) :
    deser (g + 1) ⟨pre ++ tag :: tail, pre.length⟩ depth =
      (let s1 : Src := ⟨pre ++ tag :: tail, pre.length + 1⟩
       if tag == 0x01 then
         let ((b, irr, eof), s2) := nextBool s1
         if eof then .error .eof else if irr then .error .irregular else .ok (.bool b, s2)
       else if tag == 0x00 then
         match readVarBytes s1 with
         | .error e => .error e
         | .ok (d, s2) => if d.length > MAX_BYTEARRAY_SIZE then .error .itemsize else .ok (.bytes d, s2)
       else if tag == 0x02 then
         match readVarBytes s1 with
         | .error e => .error e
         | .ok (d, s2) => if intTooBig (fromNeo d) then .error .bigint else .ok (.int (fromNeo d), s2)
       else if tag == 0x80 then
         match readCount s1 with
         | .error e => .error e
         | .ok (l, s2) =>
           match desList (fun s => deser g s (depth + 1)) (loopCount l) s2 [] with
           | .error e => .error e
           | .ok (ts, s3) => .ok (.arr ts, s3)
       else if tag == 0x82 then
         match readCount s1 with
         | .error e => .error e
         | .ok (l, s2) =>
           match desMap (fun s => deser g s (depth + 1)) (loopCount l) s2 [] with
           | .error e => .error e
           | .ok (es, s3) => .ok (.map es, s3)
       else if tag == 0x81 then
         match readCount s1 with
         | .error e => .error e
         | .ok (l, s2) =>
           match desList (fun s => deser g s (depth + 1)) (loopCount l) s2 [] with
           | .error e => .error e
           | .ok (ts, s3) => .ok (.struct ts, s3)
       else .error .badtype) := by
  rw [deser]
  have hnd : ¬ depth > MAX_COUNT := by omega
  simp only [hnd, if_false, nextByte_append, Bool.false_eq_true]
  rfl


theorem deser_leaf (v : Val) (hleaf : ∀ r, v ≠ .ref r) (hok : valOK v) (g depth : Nat) (pre rest : Bytes)
    (hd : depth ≤ MAX_COUNT) (hsz : (encLeaf v).length ≤ MAX_BYTEARRAY_SIZE)
    (hlen : (pre ++ encLeaf v ++ rest).length < two64) :
    deser (g + 1) ⟨pre ++ encLeaf v ++ rest, pre.length⟩ depth
      = .ok (leafTree v, ⟨pre ++ encLeaf v ++ rest, pre.length + (encLeaf v).length⟩) := by
  cases v with
  | ref r => exact absurd rfl (hleaf r)
  | bool b =>
    have e : pre ++ encLeaf (.bool b) ++ rest = pre ++ 0x01 :: (writeBool b ++ rest) := by simp [encLeaf]
    rw [e, deser_step g depth pre 0x01 _ hd]
    have e2 : pre ++ 0x01 :: (writeBool b ++ rest) = (pre ++ [0x01]) ++ writeBool b ++ rest := by simp
    have e3 : pre.length + 1 = (pre ++ [(0x01 : UInt8)]).length := by simp
    simp only [beq_self_eq_true, if_true]
    rw [e2, e3, OntVerif.Props.C18.C18_rt_bool b (pre ++ [0x01]) rest]
    simp [encLeaf, writeBool, leafTree, Nat.add_assoc]
  | bytes d =>
    have e : pre ++ encLeaf (.bytes d) ++ rest = pre ++ 0x00 :: (writeVarBytes d ++ rest) := by simp [encLeaf]
    have e2 : pre ++ 0x00 :: (writeVarBytes d ++ rest) = (pre ++ [0x00]) ++ writeVarBytes d ++ rest := by simp
    have e3 : pre.length + 1 = (pre ++ [(0x00 : UInt8)]).length := by simp
    have hl2 : ((pre ++ [0x00]) ++ writeVarBytes d ++ rest).length < two64 := by rw [← e2, ← e]; exact hlen
    rw [e, deser_step g depth pre 0x00 _ hd]
    have t1 : ((0x00 : UInt8) == 0x01) = false := by decide
    simp only [t1, Bool.false_eq_true, if_false, beq_self_eq_true, if_true]
    rw [e2, e3, readVarBytes_rt (pre ++ [0x00]) d rest hl2]
    have hdl : ¬ d.length > MAX_BYTEARRAY_SIZE := by
      simp [encLeaf, writeVarBytes_length] at hsz; omega
    simp [hdl, encLeaf, leafTree, Nat.add_assoc, Nat.add_comm]
  | int z =>
    have e : pre ++ encLeaf (.int z) ++ rest = pre ++ 0x02 :: (writeVarBytes (toNeo z) ++ rest) := by simp [encLeaf]
    have e2 : pre ++ 0x02 :: (writeVarBytes (toNeo z) ++ rest) = (pre ++ [0x02]) ++ writeVarBytes (toNeo z) ++ rest := by simp
    have e3 : pre.length + 1 = (pre ++ [(0x02 : UInt8)]).length := by simp
    have hl2 : ((pre ++ [0x02]) ++ writeVarBytes (toNeo z) ++ rest).length < two64 := by rw [← e2, ← e]; exact hlen
    rw [e, deser_step g depth pre 0x02 _ hd]
    have t1 : ((0x02 : UInt8) == 0x01) = false := by decide
    have t2 : ((0x02 : UInt8) == 0x00) = false := by decide
    simp only [t1, t2, Bool.false_eq_true, if_false, beq_self_eq_true, if_true]
    rw [e2, e3, readVarBytes_rt (pre ++ [0x02]) (toNeo z) rest hl2]
    have hz : intTooBig z = false := hok
    simp [fromNeo_toNeo, hz, encLeaf, leafTree, Nat.add_assoc, Nat.add_comm]


/-- the round-trip statement for one value at unfolding budget `u` -/
def RTv (var : Variant) (perm : Perm) (h : Heap) (u : Nat) : Prop :=
  ∀ v t, unfold h u v = some t → valOK v →
  ∀ f path size out, ser var perm h f path v size = .ok out →
  ∀ g depth pre rest, u + 1 ≤ g → depth + u ≤ MAX_COUNT → (pre ++ out ++ rest).length < two64 →
    deser g ⟨pre ++ out ++ rest, pre.length⟩ depth = .ok (t, ⟨pre ++ out ++ rest, pre.length + out.length⟩)

theorem unfold_leaf (h : Heap) (u : Nat) (v : Val) (hleaf : ∀ r, v ≠ .ref r) : unfold h u v = some (leafTree v) := by
  cases v with
  | ref r => exact absurd rfl (hleaf r)
  | _ => cases u <;> rfl

theorem rt_leaf (var : Variant) (perm : Perm) (h : Heap) (u : Nat) (v : Val) (hleaf : ∀ r, v ≠ .ref r) (t : Tree)
    (hu : unfold h u v = some t) (hok : valOK v)
    (f : Nat) (path : List Nat) (size : Nat) (out : Bytes) (hs : ser var perm h f path v size = .ok out)
    (g depth : Nat) (pre rest : Bytes) (hg : 1 ≤ g) (hd : depth ≤ MAX_COUNT)
    (hlen : (pre ++ out ++ rest).length < two64) :
    deser g ⟨pre ++ out ++ rest, pre.length⟩ depth = .ok (t, ⟨pre ++ out ++ rest, pre.length + out.length⟩) := by
  rw [unfold_leaf h u v hleaf] at hu
  cases hu
  have hout : out = encLeaf v ∧ size + out.length ≤ MAX_BYTEARRAY_SIZE := by
    cases v with
    | ref r => exact absurd rfl (hleaf r)
    | bytes d => exact ser_bytes_ok hs
    | bool b => exact ser_bool_ok hs
    | int z => exact ser_int_ok hs
  obtain ⟨ho, hsz⟩ := hout
  subst ho
  obtain ⟨g', rfl⟩ : ∃ g', g = g' + 1 := ⟨g - 1, by omega⟩
  exact deser_leaf v hleaf hok g' depth pre rest hd (by omega) hlen

/-- elements of an array / struct -/
theorem rt_list (var : Variant) (perm : Perm) (h : Heap) (u : Nat) (ih : RTv var perm h u) :
    ∀ vs ts, unfoldList (unfold h u) vs = some ts → (∀ v ∈ vs, valOK v) →
    ∀ f path i size body, serList (ser var perm h f) path i vs size = .ok body →
    ∀ g depth pre rest acc, u + 1 ≤ g → depth + u ≤ MAX_COUNT → (pre ++ body ++ rest).length < two64 →
      acc.length + vs.length ≤ MAX_ARRAY_SIZE →
      desList (fun s => deser g s depth) vs.length ⟨pre ++ body ++ rest, pre.length⟩ acc
        = .ok (acc.reverse ++ ts, ⟨pre ++ body ++ rest, pre.length + body.length⟩) := by
  intro vs
  induction vs with
  | nil =>
    intro ts hu _ f path i size body hs g depth pre rest acc _ _ _ _
    cases serList_nil_ok hs
    simp only [unfoldList] at hu
    cases hu
    simp [desList]
  | cons v vs ihl =>
    intro ts hu hok f path i size body hs g depth pre rest acc hg hd hlen hacc
    obtain ⟨o, os, h1, h2, rfl⟩ := serList_cons_ok hs
    simp only [unfoldList] at hu
    cases hv : unfold h u v with
    | none => rw [hv] at hu; cases hu
    | some t =>
      rw [hv] at hu
      simp only at hu
      cases hvs : unfoldList (unfold h u) vs with
      | none => rw [hvs] at hu; cases hu
      | some ts' =>
        rw [hvs] at hu
        cases hu
        have e : pre ++ (o ++ os) ++ rest = pre ++ o ++ (os ++ rest) := by simp
        have e2 : pre ++ o ++ (os ++ rest) = (pre ++ o) ++ os ++ rest := by simp
        have hl1 : (pre ++ o ++ (os ++ rest)).length < two64 := by rw [← e]; exact hlen
        have hl2 : ((pre ++ o) ++ os ++ rest).length < two64 := by rw [← e2]; exact hl1
        have d1 := ih v t hv (hok v (List.mem_cons_self)) f (i :: path) size o h1 g depth pre (os ++ rest) hg hd hl1
        have d2 := ihl ts' hvs (fun x hx => hok x (List.mem_cons_of_mem _ hx)) f path (i + 1) (size + o.length) os h2
          g depth (pre ++ o) rest (t :: acc) hg hd hl2 (by simp at hacc ⊢; omega)
        simp only [List.length_cons, desList]
        rw [e, d1]
        simp only
        have hnl : ¬ acc.length ≥ MAX_ARRAY_SIZE := by simp at hacc; omega
        simp only [hnl, if_false]
        rw [e2]
        have e3 : pre.length + o.length = (pre ++ o).length := by simp
        rw [e3, d2]
        simp [Nat.add_assoc]


theorem asBytes_leafTree (v : Val) (hleaf : ∀ r, v ≠ .ref r) : (leafTree v).asBytes = asBytes v := by
  cases v with
  | ref r => exact absurd rfl (hleaf r)
  | _ => rfl

theorem leaf_of_asBytes {v : Val} {k : Bytes} (h : asBytes v = some k) : ∀ r, v ≠ .ref r := by
  intro r hr; subst hr; cases h

/-- entries of a map -/
theorem rt_entries (var : Variant) (perm : Perm) (h : Heap) (u : Nat) (ih : RTv var perm h u) :
    ∀ es tes, unfoldEntries (unfold h u) es = some tes →
    (∀ e ∈ es, asBytes e.kv = some e.key ∧ valOK e.kv ∧ valOK e.val) →
    ∀ f path i size body, serList (ser var perm h f) path i (es.flatMap fun e => [e.kv, e.val]) size = .ok body →
    ∀ g depth pre rest acc, u + 1 ≤ g → depth + u ≤ MAX_COUNT → (pre ++ body ++ rest).length < two64 →
      desMap (fun s => deser g s depth) es.length ⟨pre ++ body ++ rest, pre.length⟩ acc
        = .ok (tes.foldl (fun a x => tmapSet x.1 x.2.1 x.2.2 a) acc, ⟨pre ++ body ++ rest, pre.length + body.length⟩) := by
  intro es
  induction es with
  | nil =>
    intro tes hu _ f path i size body hs g depth pre rest acc _ _ _
    simp only [List.flatMap_nil] at hs
    cases serList_nil_ok hs
    simp only [unfoldEntries] at hu
    cases hu
    simp [desMap]
  | cons e es ihl =>
    intro tes hu hok f path i size body hs g depth pre rest acc hg hd hlen
    have hfm : (e :: es).flatMap (fun e => [e.kv, e.val]) = e.kv :: e.val :: es.flatMap (fun e => [e.kv, e.val]) := by
      simp [List.flatMap_cons]
    rw [hfm] at hs
    obtain ⟨ok_, os1, h1, h2, rfl⟩ := serList_cons_ok hs
    obtain ⟨ov, os, h3, h4, rfl⟩ := serList_cons_ok h2
    obtain ⟨hkey, hokk, hokv⟩ := hok e List.mem_cons_self
    have hleafk := leaf_of_asBytes hkey
    simp only [unfoldEntries] at hu
    rw [unfold_leaf h u e.kv hleafk] at hu
    cases hv : unfold h u e.val with
    | none => rw [hv] at hu; cases hu
    | some tv =>
      rw [hv] at hu
      simp only at hu
      cases hes : unfoldEntries (unfold h u) es with
      | none => rw [hes] at hu; cases hu
      | some tes' =>
        rw [hes] at hu
        cases hu
        have e1 : pre ++ (ok_ ++ (ov ++ os)) ++ rest = pre ++ ok_ ++ (ov ++ os ++ rest) := by simp
        have e2 : pre ++ ok_ ++ (ov ++ os ++ rest) = (pre ++ ok_) ++ ov ++ (os ++ rest) := by simp
        have e3 : (pre ++ ok_) ++ ov ++ (os ++ rest) = (pre ++ ok_ ++ ov) ++ os ++ rest := by simp
        have hl1 : (pre ++ ok_ ++ (ov ++ os ++ rest)).length < two64 := by rw [← e1]; exact hlen
        have hl2 : ((pre ++ ok_) ++ ov ++ (os ++ rest)).length < two64 := by rw [← e2]; exact hl1
        have hl3 : ((pre ++ ok_ ++ ov) ++ os ++ rest).length < two64 := by rw [← e3]; exact hl2
        have d1 := ih e.kv _ (unfold_leaf h u e.kv hleafk) hokk f (i :: path) size ok_ h1 g depth pre (ov ++ os ++ rest) hg hd hl1
        have d2 := ih e.val tv hv hokv f ((i + 1) :: path) (size + ok_.length) ov h3 g depth (pre ++ ok_) (os ++ rest) hg hd hl2
        have d3 := ihl tes' hes (fun x hx => hok x (List.mem_cons_of_mem _ hx)) f path (i + 1 + 1) (size + ok_.length + ov.length) os h4
          g depth (pre ++ ok_ ++ ov) rest (tmapSet e.key (leafTree e.kv) tv acc) hg hd hl3
        simp only [List.length_cons, desMap]
        rw [e1, d1]
        simp only
        have ea : pre.length + ok_.length = (pre ++ ok_).length := by simp
        rw [e2, ea, d2]
        simp only
        rw [asBytes_leafTree e.kv hleafk, hkey]
        simp only
        have eb : (pre ++ ok_).length + ov.length = (pre ++ ok_ ++ ov).length := by simp only [List.length_append]
        rw [e3, eb, d3]
        simp only [List.length_append, Nat.add_assoc, List.foldl_cons]


def TSorted (l : List (Bytes × Tree × Tree)) : Prop := l.Pairwise fun a b => ble a.1 b.1 = true ∧ a.1 ≠ b.1

theorem tmapSet_append (k : Bytes) (kv v : Tree) :
    ∀ l : List (Bytes × Tree × Tree), (∀ x ∈ l, x.1 ≠ k ∧ ble k x.1 = false) → tmapSet k kv v l = l ++ [(k, kv, v)]
  | [], _ => rfl
  | x :: xs, hx => by
    obtain ⟨h1, h2⟩ := hx x List.mem_cons_self
    simp only [tmapSet, h1, if_false, h2, Bool.false_eq_true, List.cons_append]
    rw [tmapSet_append k kv v xs (fun y hy => hx y (List.mem_cons_of_mem _ hy))]

theorem foldl_tmapSet_sorted : ∀ (l2 l1 : List (Bytes × Tree × Tree)), TSorted (l1 ++ l2) →
    l2.foldl (fun a x => tmapSet x.1 x.2.1 x.2.2 a) l1 = l1 ++ l2
  | [], l1, _ => by simp
  | x :: l2, l1, hs => by
    have hx : ∀ y ∈ l1, y.1 ≠ x.1 ∧ ble x.1 y.1 = false := by
      intro y hy
      have := (List.pairwise_append.mp hs).2.2 y hy x List.mem_cons_self
      refine ⟨this.2, ?_⟩
      cases hb : ble x.1 y.1 with
      | false => rfl
      | true => exact absurd (ble_antisymm _ _ this.1 hb) this.2
    simp only [List.foldl_cons]
    rw [tmapSet_append _ _ _ l1 hx]
    have e : l1 ++ x :: l2 = (l1 ++ [x]) ++ l2 := by simp
    rw [e] at hs ⊢
    exact foldl_tmapSet_sorted l2 (l1 ++ [x]) hs

theorem unfoldEntries_keys (rec : Val → Option Tree) :
    ∀ es tes, unfoldEntries rec es = some tes → tes.map (·.1) = es.map (·.key)
  | [], tes, h => by simp only [unfoldEntries] at h; cases h; rfl
  | e :: es, tes, h => by
    simp only [unfoldEntries] at h
    cases hk : rec e.kv with
    | none => rw [hk] at h; cases h
    | some k =>
      cases hv : rec e.val with
      | none => rw [hk, hv] at h; cases h
      | some v =>
        rw [hk, hv] at h
        simp only at h
        cases hes : unfoldEntries rec es with
        | none => rw [hes] at h; cases h
        | some r =>
          rw [hes] at h
          cases h
          simp [unfoldEntries_keys rec es r hes]

theorem tsorted_of_unfold {rec : Val → Option Tree} {es : List Entry} {tes} (hu : unfoldEntries rec es = some tes)
    (hs : SortedK es) : TSorted tes := by
  have hk := unfoldEntries_keys rec es tes hu
  have h1 : (es.map (·.key)).Pairwise (fun a b => ble a b = true ∧ a ≠ b) := List.pairwise_map.mpr hs
  rw [← hk] at h1
  exact List.pairwise_map.mp h1

theorem loopCount_small {n : Nat} (h : n < 9223372036854775808) : loopCount n = n := by
  simp [loopCount, h]

/-- array / struct case of the round trip -/
theorem rt_seq (var : Variant) (perm : Perm) (h : Heap) (u : Nat) (ih : RTv var perm h u)
    (tag : UInt8) (mk : List Tree → Tree)
    (hstep : ∀ g depth pre tail, depth ≤ MAX_COUNT →
      deser (g + 1) ⟨pre ++ tag :: tail, pre.length⟩ depth =
        match readCount ⟨pre ++ tag :: tail, pre.length + 1⟩ with
        | .error e => .error e
        | .ok (l, s2) =>
          match desList (fun s => deser g s (depth + 1)) (loopCount l) s2 [] with
          | .error e => .error e
          | .ok (ts, s3) => .ok (mk ts, s3))
    (vs : List Val) (ts : List Tree) (hu : unfoldList (unfold h u) vs = some ts) (hok : ∀ v ∈ vs, valOK v)
    (hn : vs.length ≤ MAX_ARRAY_SIZE)
    (f : Nat) (path : List Nat) (size : Nat) (body : Bytes)
    (hs : serList (ser var perm h f) path 0 vs size = .ok body)
    (g depth : Nat) (pre rest : Bytes) (hg : u + 1 ≤ g) (hd : depth + (u + 1) ≤ MAX_COUNT)
    (hlen : (pre ++ ((tag :: writeVarUint vs.length) ++ body) ++ rest).length < two64) :
    deser (g + 1) ⟨pre ++ ((tag :: writeVarUint vs.length) ++ body) ++ rest, pre.length⟩ depth
      = .ok (mk ts, ⟨pre ++ ((tag :: writeVarUint vs.length) ++ body) ++ rest,
                     pre.length + ((tag :: writeVarUint vs.length) ++ body).length⟩) := by
  have hn64 : vs.length < two64 := by unfold MAX_ARRAY_SIZE at hn; unfold two64; omega
  have e0 : pre ++ ((tag :: writeVarUint vs.length) ++ body) ++ rest
      = pre ++ tag :: (writeVarUint vs.length ++ body ++ rest) := by simp
  have e1 : pre ++ tag :: (writeVarUint vs.length ++ body ++ rest)
      = (pre ++ [tag]) ++ writeVarUint vs.length ++ (body ++ rest) := by simp
  have e2 : (pre ++ [tag]) ++ writeVarUint vs.length ++ (body ++ rest)
      = (pre ++ [tag] ++ writeVarUint vs.length) ++ body ++ rest := by simp
  have hl1 : ((pre ++ [tag]) ++ writeVarUint vs.length ++ (body ++ rest)).length < two64 := by
    rw [← e1, ← e0]; exact hlen
  have hl2 : ((pre ++ [tag] ++ writeVarUint vs.length) ++ body ++ rest).length < two64 := by rw [← e2]; exact hl1
  rw [e0, hstep g depth pre _ (by omega)]
  have ea : pre.length + 1 = (pre ++ [tag]).length := by simp
  rw [e1, ea, readCount_rt (pre ++ [tag]) vs.length (body ++ rest) hn64 hl1]
  simp only
  rw [loopCount_small (by unfold MAX_ARRAY_SIZE at hn; omega)]
  have eb : (pre ++ [tag]).length + (writeVarUint vs.length).length = (pre ++ [tag] ++ writeVarUint vs.length).length := by
    simp only [List.length_append]
  have d := rt_list var perm h u ih vs ts hu hok f path 0 size body hs g (depth + 1)
    (pre ++ [tag] ++ writeVarUint vs.length) rest [] hg (by omega) hl2 (by simpa using hn)
  rw [e2, eb, d]
  simp only [List.reverse_nil, List.nil_append, List.length_append, List.length_cons, List.length_nil]
  have : pre.length + (0 + 1) + (writeVarUint vs.length).length + body.length = pre.length + ((writeVarUint vs.length).length + 1 + body.length) := by omega
  rw [this]


/-- map case of the round trip -/
theorem rt_mapc (var : Variant) (perm : Perm) (h : Heap) (u : Nat) (ih : RTv var perm h u)
    (es : List Entry) (tes : List (Bytes × Tree × Tree)) (hu : unfoldEntries (unfold h u) es = some tes)
    (hsorted : SortedK es) (hcnt : es.length < 9223372036854775808)
    (hok : ∀ e ∈ es, asBytes e.kv = some e.key ∧ valOK e.kv ∧ valOK e.val)
    (f : Nat) (path : List Nat) (size : Nat) (body : Bytes)
    (hs : serList (ser var perm h f) path 0 (es.flatMap fun e => [e.kv, e.val]) size = .ok body)
    (g depth : Nat) (pre rest : Bytes) (hg : u + 1 ≤ g) (hd : depth + (u + 1) ≤ MAX_COUNT)
    (hlen : (pre ++ (((0x82 : UInt8) :: writeVarUint es.length) ++ body) ++ rest).length < two64) :
    deser (g + 1) ⟨pre ++ (((0x82 : UInt8) :: writeVarUint es.length) ++ body) ++ rest, pre.length⟩ depth
      = .ok (.map tes, ⟨pre ++ (((0x82 : UInt8) :: writeVarUint es.length) ++ body) ++ rest,
                     pre.length + (((0x82 : UInt8) :: writeVarUint es.length) ++ body).length⟩) := by
  have hn64 : es.length < two64 := by unfold two64; omega
  have e0 : pre ++ (((0x82 : UInt8) :: writeVarUint es.length) ++ body) ++ rest
      = pre ++ (0x82 : UInt8) :: (writeVarUint es.length ++ body ++ rest) := by simp
  have e1 : pre ++ (0x82 : UInt8) :: (writeVarUint es.length ++ body ++ rest)
      = (pre ++ [(0x82 : UInt8)]) ++ writeVarUint es.length ++ (body ++ rest) := by simp
  have e2 : (pre ++ [(0x82 : UInt8)]) ++ writeVarUint es.length ++ (body ++ rest)
      = (pre ++ [(0x82 : UInt8)] ++ writeVarUint es.length) ++ body ++ rest := by simp
  have hl1 : ((pre ++ [(0x82 : UInt8)]) ++ writeVarUint es.length ++ (body ++ rest)).length < two64 := by
    rw [← e1, ← e0]; exact hlen
  have hl2 : ((pre ++ [(0x82 : UInt8)] ++ writeVarUint es.length) ++ body ++ rest).length < two64 := by rw [← e2]; exact hl1
  rw [e0, deser_step g depth pre 0x82 _ (by omega)]
  have t1 : ((0x82 : UInt8) == 0x01) = false := by decide
  have t2 : ((0x82 : UInt8) == 0x00) = false := by decide
  have t3 : ((0x82 : UInt8) == 0x02) = false := by decide
  have t4 : ((0x82 : UInt8) == 0x80) = false := by decide
  simp only [t1, t2, t3, t4, Bool.false_eq_true, if_false, beq_self_eq_true, if_true]
  have ea : pre.length + 1 = (pre ++ [(0x82 : UInt8)]).length := by simp
  rw [e1, ea, readCount_rt (pre ++ [0x82]) es.length (body ++ rest) hn64 hl1]
  simp only
  rw [loopCount_small hcnt]
  have eb : (pre ++ [(0x82 : UInt8)]).length + (writeVarUint es.length).length = (pre ++ [(0x82 : UInt8)] ++ writeVarUint es.length).length := by
    simp only [List.length_append]
  have d := rt_entries var perm h u ih es tes hu hok f path 0 size body hs g (depth + 1)
    (pre ++ [0x82] ++ writeVarUint es.length) rest [] hg (by omega) hl2
  rw [e2, eb, d, foldl_tmapSet_sorted tes [] (by simpa using tsorted_of_unfold hu hsorted)]
  simp only [List.nil_append, List.length_append, List.length_cons, List.length_nil]
  have : pre.length + (0 + 1) + (writeVarUint es.length).length + body.length = pre.length + ((writeVarUint es.length).length + 1 + body.length) := by omega
  rw [this]

theorem deser_step_arr (g depth : Nat) (pre tail : Bytes) (hd : depth ≤ MAX_COUNT) :
    deser (g + 1) ⟨pre ++ (0x80 : UInt8) :: tail, pre.length⟩ depth =
      match readCount ⟨pre ++ (0x80 : UInt8) :: tail, pre.length + 1⟩ with
      | .error e => .error e
      | .ok (l, s2) =>
        match desList (fun s => deser g s (depth + 1)) (loopCount l) s2 [] with
        | .error e => .error e
        | .ok (ts, s3) => .ok (Tree.arr ts, s3) := by
  rw [deser_step g depth pre 0x80 _ hd]
  have t1 : ((0x80 : UInt8) == 0x01) = false := by decide
  have t2 : ((0x80 : UInt8) == 0x00) = false := by decide
  have t3 : ((0x80 : UInt8) == 0x02) = false := by decide
  simp only [t1, t2, t3, Bool.false_eq_true, if_false, beq_self_eq_true, if_true]
  first | done | rfl

theorem deser_step_struct (g depth : Nat) (pre tail : Bytes) (hd : depth ≤ MAX_COUNT) :
    deser (g + 1) ⟨pre ++ (0x81 : UInt8) :: tail, pre.length⟩ depth =
      match readCount ⟨pre ++ (0x81 : UInt8) :: tail, pre.length + 1⟩ with
      | .error e => .error e
      | .ok (l, s2) =>
        match desList (fun s => deser g s (depth + 1)) (loopCount l) s2 [] with
        | .error e => .error e
        | .ok (ts, s3) => .ok (Tree.struct ts, s3) := by
  rw [deser_step g depth pre 0x81 _ hd]
  have t1 : ((0x81 : UInt8) == 0x01) = false := by decide
  have t2 : ((0x81 : UInt8) == 0x00) = false := by decide
  have t3 : ((0x81 : UInt8) == 0x02) = false := by decide
  have t4 : ((0x81 : UInt8) == 0x80) = false := by decide
  have t5 : ((0x81 : UInt8) == 0x82) = false := by decide
  simp only [t1, t2, t3, t4, t5, Bool.false_eq_true, if_false, beq_self_eq_true, if_true]
  first | done | rfl


theorem rt_all (var : Variant) (perm : Perm) (hv : perm.valid) (h : Heap) (w : WFHeap h) : ∀ u, RTv var perm h u := by
  intro u
  induction u with
  | zero =>
    intro v t hu hok f path size out hs g depth pre rest hg hd hlen
    cases v with
    | ref r => simp [unfold] at hu
    | bytes d => exact rt_leaf var perm h 0 _ (by intro r hr; cases hr) t hu hok f path size out hs g depth pre rest (by omega) (by omega) hlen
    | bool b => exact rt_leaf var perm h 0 _ (by intro r hr; cases hr) t hu hok f path size out hs g depth pre rest (by omega) (by omega) hlen
    | int z => exact rt_leaf var perm h 0 _ (by intro r hr; cases hr) t hu hok f path size out hs g depth pre rest (by omega) (by omega) hlen
  | succ u ih =>
    intro v t hu hok f path size out hs g depth pre rest hg hd hlen
    cases v with
    | bytes d => exact rt_leaf var perm h _ _ (by intro r hr; cases hr) t hu hok f path size out hs g depth pre rest (by omega) (by omega) hlen
    | bool b => exact rt_leaf var perm h _ _ (by intro r hr; cases hr) t hu hok f path size out hs g depth pre rest (by omega) (by omega) hlen
    | int z => exact rt_leaf var perm h _ _ (by intro r hr; cases hr) t hu hok f path size out hs g depth pre rest (by omega) (by omega) hlen
    | ref r =>
      obtain ⟨f', o, body, rfl, ho, hb, rfl, _⟩ := ser_ref_ok hs
      obtain ⟨g', rfl⟩ : ∃ g', g = g' + 1 := ⟨g - 1, by omega⟩
      simp only [unfold, ho] at hu
      cases o with
      | arr vs =>
        simp only at hu
        cases hl : unfoldList (unfold h u) vs with
        | none => rw [hl] at hu; cases hu
        | some ts =>
          rw [hl] at hu
          cases hu
          exact rt_seq var perm h u ih 0x80 Tree.arr (fun g depth pre tail hd => deser_step_arr g depth pre tail hd)
            vs ts hl (fun x hx => w.vals r _ ho x hx) (w.arr r vs ho) f' path _ body hb g' depth pre rest (by omega) hd hlen
      | struct vs =>
        simp only at hu
        cases hl : unfoldList (unfold h u) vs with
        | none => rw [hl] at hu; cases hu
        | some ts =>
          rw [hl] at hu
          cases hu
          exact rt_seq var perm h u ih 0x81 Tree.struct (fun g depth pre tail hd => deser_step_struct g depth pre tail hd)
            vs ts hl (fun x hx => w.vals r _ ho x hx) (w.struct r vs ho) f' path _ body hb g' depth pre rest (by omega) hd hlen
      | map es =>
        simp only at hu
        cases hl : unfoldEntries (unfold h u) es with
        | none => rw [hl] at hu; cases hu
        | some tes =>
          rw [hl] at hu
          cases hu
          obtain ⟨hsorted, hcnt, hkeys⟩ := w.map r es ho
          have hkids : serKids perm path r (.map es) = es.flatMap fun e => [e.kv, e.val] := by
            simp only [serKids, sortedEntries_eq perm hv path r hsorted]
          rw [hkids] at hb
          have hok' : ∀ e ∈ es, asBytes e.kv = some e.key ∧ valOK e.kv ∧ valOK e.val := by
            intro e he
            refine ⟨hkeys e he, ?_, ?_⟩
            · exact w.vals r _ ho e.kv (by simp only [elemsOf, List.mem_flatMap]; exact ⟨e, he, by simp⟩)
            · exact w.vals r _ ho e.val (by simp only [elemsOf, List.mem_flatMap]; exact ⟨e, he, by simp⟩)
          exact rt_mapc var perm h u ih es tes hl hsorted hcnt hok' f' path _ body hb g' depth pre rest (by omega) hd hlen

/-- **Round trip.** -/
theorem roundtrip (var : Variant) (perm : Perm) (hv : perm.valid) (h : Heap) (w : WFHeap h) (v : Val) (hok : valOK v)
    (t : Tree) (hu : unfold h MAX_COUNT v = some t) (out : Bytes) (hs : serialize var perm h v = .ok out) :
    deserialize out = .ok (t, ⟨out, out.length⟩) := by
  have hsz : out.length ≤ MAX_BYTEARRAY_SIZE := by
    unfold serialize at hs
    cases v with
    | bytes d => have := (ser_bytes_ok hs).2; omega
    | bool b => have := (ser_bool_ok hs).2; omega
    | int z => have := (ser_int_ok hs).2; omega
    | ref r => obtain ⟨_, _, _, _, _, _, _, h2⟩ := ser_ref_ok hs; omega
  have := rt_all var perm hv h w MAX_COUNT v t hu hok serFuel [] 0 out hs (MAX_COUNT + 2) 0 [] []
    (by omega) (by omega) (by simp; unfold MAX_BYTEARRAY_SIZE at hsz; unfold two64; omega)
  simpa [deserialize] using this

/-! ## independence of the iteration order -/

/-- every map of the heap is in canonical form (what every VM operation maintains) -/
def WFMaps (h : Heap) : Prop := ∀ (r : Ref) es, h[r]? = some (Obj.map es) → SortedK es

theorem chainDeep_perm_free (p1 p2 : Perm) (h1 : p1.valid) (h2 : p2.valid) (path1 path2 : List Nat) (h : Heap) :
    ∀ k v, chainDeep p1 path1 h k v = chainDeep p2 path2 h k v := by
  intro k
  induction k with
  | zero => intro v; rfl
  | succ k ih =>
    intro v
    cases v with
    | ref r =>
      unfold chainDeep
      cases ho : h[r]? with
      | none => rfl
      | some o =>
        cases o with
        | arr vs => cases vs with
          | nil => rfl
          | cons v0 _ => exact ih v0
        | struct vs => cases vs with
          | nil => rfl
          | cons v0 _ => exact ih v0
        | map es =>
          simp only
          have e : (fun e : Entry => chainDeep p1 path1 h k e.val) = (fun e : Entry => chainDeep p2 path2 h k e.val) := by
            funext e; exact ih e.val
          rw [e, ((h1 path1 r es).trans (h2 path2 r es).symm).any_eq]
    | _ => rfl

theorem detect_sound_perm_free (p1 p2 : Perm) (h1 : p1.valid) (h2 : p2.valid) (path1 path2 : List Nat) (h : Heap) (v : Val) :
    detect .sound p1 path1 h v = detect .sound p2 path2 h v := by
  simp only [detect, detSound, chainDeep_perm_free p1 p2 h1 h2 path1 path2 h]

theorem serList_congr {rec1 rec2 : List Nat → Val → Nat → Except VErr Bytes} (hr : ∀ p v s, rec1 p v s = rec2 p v s)
    (path : List Nat) : ∀ vs i size, serList rec1 path i vs size = serList rec2 path i vs size := by
  intro vs
  induction vs with
  | nil => intro i size; rfl
  | cons v vs ih =>
    intro i size
    simp only [serList, hr]
    cases rec2 (i :: path) v size with
    | error e => rfl
    | ok o => simp only [ih]

/-- `ser` depends on the iteration orders only through the detector's verdicts (the sorted key order is canonical) -/
theorem ser_congr (var1 var2 : Variant) (p1 p2 : Perm) (hv1 : p1.valid) (hv2 : p2.valid) (h : Heap) (w : WFMaps h)
    (hd : ∀ path v, detect var1 p1 path h v = detect var2 p2 path h v) :
    ∀ f path v size, ser var1 p1 h f path v size = ser var2 p2 h f path v size := by
  intro f
  induction f with
  | zero => intro path v size; rfl
  | succ f ih =>
    intro path v size
    unfold ser
    rw [hd path v]
    split
    · rfl
    · cases v with
      | ref r =>
        simp only
        cases ho : h[r]? with
        | none => rfl
        | some o =>
          simp only
          have hk : serKids p1 path r o = serKids p2 path r o := by
            cases o with
            | map es =>
              have hs := w r es ho
              simp only [serKids]
              rw [sortedEntries_eq _ hv1 path r hs, sortedEntries_eq _ hv2 path r hs]
            | _ => rfl
          rw [hk, serList_congr (fun p v s => ih p v s)]
      | _ => rfl

theorem serialize_sound_perm_free (p1 p2 : Perm) (hv1 : p1.valid) (hv2 : p2.valid) (h : Heap) (w : WFMaps h) (v : Val) :
    serialize .sound p1 h v = serialize .sound p2 h v :=
  ser_congr .sound .sound p1 p2 hv1 hv2 h w (fun path v => detect_sound_perm_free p1 p2 hv1 hv2 path path h v) _ _ _ _

theorem serList_ok_unique {rec1 rec2 : List Nat → Val → Nat → Except VErr Bytes}
    (hr : ∀ p1 p2 v s b1 b2, rec1 p1 v s = .ok b1 → rec2 p2 v s = .ok b2 → b1 = b2) :
    ∀ vs path1 path2 i1 i2 size b1 b2, serList rec1 path1 i1 vs size = .ok b1 → serList rec2 path2 i2 vs size = .ok b2 → b1 = b2 := by
  intro vs
  induction vs with
  | nil => intro _ _ _ _ _ b1 b2 h1 h2; rw [serList_nil_ok h1, serList_nil_ok h2]
  | cons v vs ih =>
    intro path1 path2 i1 i2 size b1 b2 h1 h2
    obtain ⟨o1, os1, a1, a2, rfl⟩ := serList_cons_ok h1
    obtain ⟨o2, os2, c1, c2, rfl⟩ := serList_cons_ok h2
    have e := hr _ _ _ _ _ _ a1 c1
    subst e
    rw [ih _ _ _ _ _ _ _ a2 c2]

/-- **Whenever serialization succeeds its bytes are the same** — for either detector variant, any two iteration orders, any
recursion budgets: the order in which a map is written is the sorted key order. -/
theorem ser_ok_unique (var1 var2 : Variant) (p1 p2 : Perm) (hv1 : p1.valid) (hv2 : p2.valid) (h : Heap) (w : WFMaps h) :
    ∀ f1 f2 path1 path2 v size b1 b2, ser var1 p1 h f1 path1 v size = .ok b1 → ser var2 p2 h f2 path2 v size = .ok b2 → b1 = b2 := by
  intro f1
  induction f1 with
  | zero => intro f2 path1 path2 v size b1 b2 h1 _; exact absurd h1 ser_zero
  | succ f1 ih =>
    intro f2 path1 path2 v size b1 b2 h1 h2
    cases v with
    | bytes d => rw [(ser_bytes_ok h1).1, (ser_bytes_ok h2).1]
    | bool b => rw [(ser_bool_ok h1).1, (ser_bool_ok h2).1]
    | int z => rw [(ser_int_ok h1).1, (ser_int_ok h2).1]
    | ref r =>
      obtain ⟨f1', o1, body1, e1, ho1, hb1, rfl, _⟩ := ser_ref_ok h1
      obtain ⟨f2', o2, body2, e2, ho2, hb2, rfl, _⟩ := ser_ref_ok h2
      cases e1
      rw [ho1] at ho2
      cases ho2
      have hk : serKids p1 path1 r o1 = serKids p2 path2 r o1 := by
        cases o1 with
        | map es =>
          have hs := w r es ho1
          simp only [serKids]
          rw [sortedEntries_eq _ hv1 path1 r hs, sortedEntries_eq _ hv2 path2 r hs]
        | _ => rfl
      rw [hk] at hb1
      rw [serList_ok_unique (fun q1 q2 v s c1 c2 a1 a2 => ih f2' q1 q2 v s c1 c2 a1 a2) _ _ _ _ _ _ _ _ hb1 hb2]

/-! ## completeness of `hasCycle`: `|heap|` rounds suffice (the explicit bound is adequate) -/

/-- every reference stored in the heap points into the heap -/
def NoDangling (h : Heap) : Prop := ∀ (r : Ref) o, h[r]? = some o → ∀ s, Val.ref s ∈ o.kids → s < h.length

inductive Walk (h : Heap) : List Ref → Prop
  | single (r : Ref) : Walk h [r]
  | cons {a b : Ref} {rest : List Ref} : Edge h a b → Walk h (b :: rest) → Walk h (a :: b :: rest)

theorem nodup_bound : ∀ (n : Nat) (l : List Nat), l.Nodup → (∀ x ∈ l, x < n) → l.length ≤ n := by
  intro n
  induction n with
  | zero =>
    intro l _ h
    cases l with
    | nil => simp
    | cons a t => exact absurd (h a List.mem_cons_self) (Nat.not_lt_zero _)
  | succ n ih =>
    intro l hn hl
    by_cases hm : n ∈ l
    · have h1 := ih (l.erase n) (hn.erase n) (by
        intro x hx
        have hx' := (List.Nodup.mem_erase_iff hn).mp hx
        have := hl x hx'.2
        omega)
      rw [List.length_erase_of_mem hm] at h1
      omega
    · have h1 := ih l hn (by
        intro x hx
        have := hl x hx
        have : x ≠ n := fun e => hm (e ▸ hx)
        omega)
      omega

theorem walk_reach {h : Heap} : ∀ {l : List Ref} {a : Ref}, Walk h (a :: l) → ∀ b ∈ a :: l, Reach h a b := by
  intro l
  induction l with
  | nil => intro a _ b hb; simp at hb; subst hb; exact .refl _
  | cons c t ih =>
    intro a w b hb
    cases w with
    | cons e w' =>
      rcases List.mem_cons.mp hb with rfl | hb
      · exact .refl _
      · exact .step e (ih w' b hb)

theorem walk_dup {h : Heap} : ∀ {l : List Ref}, Walk h l → ¬ l.Nodup → ∃ c ∈ l, ∃ d, Edge h c d ∧ Reach h d c := by
  intro l w
  induction w with
  | single r => intro hn; exact absurd (by simp) hn
  | @cons a b rest e w' ih =>
    intro hn
    by_cases ha : a ∈ b :: rest
    · exact ⟨a, List.mem_cons_self, b, e, walk_reach w' a ha⟩
    · have : ¬ (b :: rest).Nodup := fun hnd => hn (List.nodup_cons.mpr ⟨ha, hnd⟩)
      obtain ⟨c, hc, d, hd⟩ := ih this
      exact ⟨c, List.mem_cons_of_mem _ hc, d, hd⟩

theorem unsafe_walk (h : Heap) (nd : NoDangling h) : ∀ k r, r < h.length → (safeIter h k).getD r false = false →
    ∃ l, Walk h (r :: l) ∧ l.length = k ∧ ∀ x ∈ r :: l, x < h.length := by
  intro k
  induction k with
  | zero => intro r hr _; exact ⟨[], .single r, rfl, by simpa using hr⟩
  | succ k ih =>
    intro r hr hs
    simp only [safeIter, safeStep] at hs
    rw [List.getD_eq_getElem?_getD, List.getElem?_map] at hs
    have ho : h[r]? = some h[r] := List.getElem?_eq_getElem hr
    rw [ho] at hs
    simp only [Option.map_some, Option.getD_some] at hs
    have : ∃ c ∈ (h[r]).kids, isSafeVal (safeIter h k) c = false := by
      obtain ⟨c, hc, hn⟩ := List.all_eq_false.mp hs
      exact ⟨c, hc, by simpa using hn⟩
    obtain ⟨c, hc, hcs⟩ := this
    cases c with
    | ref s =>
      have hslt := nd r _ ho s hc
      obtain ⟨l, w, hl, hb⟩ := ih s hslt hcs
      refine ⟨s :: l, .cons ⟨_, ho, hc⟩ w, by simp [hl], ?_⟩
      intro x hx
      rcases List.mem_cons.mp hx with rfl | hx
      · exact hr
      · exact hb x hx
    | _ => simp [isSafeVal] at hcs

/-- on a heap without dangling references `hasCycle` answers true only if a cycle is reachable: the `|heap|` rounds of
`safeIter` are enough for every heap -/
theorem reachable_of_hasCycle (h : Heap) (nd : NoDangling h) (r : Ref) (hr : r < h.length)
    (hc : hasCycle h (.ref r) = true) : CycleReachable h (.ref r) := by
  have hs : (safeIter h h.length).getD r false = false := by
    have e : hasCycle h (.ref r) = !((safeIter h h.length).getD r false) := rfl
    rw [e] at hc
    cases hx : (safeIter h h.length).getD r false with
    | false => rfl
    | true => rw [hx] at hc; cases hc
  obtain ⟨l, w, hl, hb⟩ := unsafe_walk h nd h.length r hr hs
  have hnd : ¬ (r :: l).Nodup := by
    intro hn
    have := nodup_bound h.length (r :: l) hn hb
    simp only [List.length_cons, hl] at this
    omega
  obtain ⟨c, hc', d, hcd, hdc⟩ := walk_dup w hnd
  exact ⟨c, d, walk_reach w c hc', hcd, hdc⟩

/-! ## the repaired `BuildParamToNative` -/

theorem serList_err {rec : List Nat → Val → Nat → Except VErr Bytes} {e : VErr} :
    ∀ {vs path i size}, serList rec path i vs size = .error e → ∃ v ∈ vs, ∃ p s, rec p v s = .error e := by
  intro vs
  induction vs with
  | nil => intro path i size h; simp [serList] at h
  | cons v vs ih =>
    intro path i size h
    unfold serList at h
    cases h1 : rec (i :: path) v size with
    | error e' =>
      rw [h1] at h
      cases h
      exact ⟨v, List.mem_cons_self, _, _, h1⟩
    | ok o =>
      rw [h1] at h
      simp only at h
      cases h2 : serList rec path (i + 1) vs (size + o.length) with
      | error e' =>
        rw [h2] at h
        cases h
        obtain ⟨v', hv', p, s, hr⟩ := ih h2
        exact ⟨v', List.mem_cons_of_mem _ hv', p, s, hr⟩
      | ok os => rw [h2] at h; cases h

theorem serList_ok_all {rec : List Nat → Val → Nat → Except VErr Bytes} :
    ∀ {vs path i size body}, serList rec path i vs size = .ok body → ∀ v ∈ vs, ∃ p s o, rec p v s = .ok o := by
  intro vs
  induction vs with
  | nil => intro _ _ _ _ _ v hv; cases hv
  | cons x xs ih =>
    intro path i size body h v hv
    obtain ⟨o, os, h1, h2, _⟩ := serList_cons_ok h
    rcases List.mem_cons.mp hv with rfl | hv
    · exact ⟨_, _, _, h1⟩
    · exact ih h2 v hv

/-- the recursion budget `|heap| + 2` is never exhausted: the containers on the path are pairwise different objects -/
theorem natvP_no_fuel (var : Variant) (perm : Perm) (h : Heap) :
    ∀ f path on v, on.Nodup → (∀ x ∈ on, x < h.length) → h.length + 2 ≤ f + on.length →
      natvP var perm h f path on v ≠ .error .fuel := by
  intro f
  induction f with
  | zero =>
    intro path on v hn hb hf
    have := nodup_bound h.length on hn hb
    omega
  | succ f ih =>
    intro path on v hn hb hf
    unfold natvP
    split
    · intro c; cases c
    · cases v with
      | ref r =>
        simp only
        cases ho : h[r]? with
        | none => intro c; cases c
        | some o =>
          have hr : r < h.length := by
            have := List.getElem?_eq_some_iff.mp ho
            exact this.1
          cases o with
          | map es => intro c; cases c
          | arr vs =>
            simp only
            split
            · intro c; cases c
            · rename_i hc
              cases hs : serList (fun p v _ => natvP var perm h f p (r :: on) v) path 0 vs 0 with
              | ok b => intro c; cases c
              | error e =>
                simp only
                intro c
                cases c
                obtain ⟨v', hv', p, s, hr'⟩ := serList_err hs
                have hne : vs.length > 0 := List.length_pos_of_mem hv'
                have hnc : on.contains r = false := by
                  cases hx : on.contains r with
                  | false => rfl
                  | true => simp [hne] at hc; exact absurd (by simpa using hx) hc
                have hnm : r ∉ on := by simpa using hnc
                exact ih p (r :: on) v' (List.nodup_cons.mpr ⟨hnm, hn⟩)
                  (by intro x hx; rcases List.mem_cons.mp hx with rfl | hx; exact hr; exact hb x hx)
                  (by simp; omega) hr'
          | struct vs =>
            simp only
            split
            · intro c; cases c
            · rename_i hc
              intro hs
              obtain ⟨v', hv', p, s, hr'⟩ := serList_err hs
              have hne : vs.length > 0 := List.length_pos_of_mem hv'
              have hnc : on.contains r = false := by
                cases hx : on.contains r with
                | false => rfl
                | true => simp [hne] at hc; exact absurd (by simpa using hx) hc
              have hnm : r ∉ on := by simpa using hnc
              exact ih p (r :: on) v' (List.nodup_cons.mpr ⟨hnm, hn⟩)
                (by intro x hx; rcases List.mem_cons.mp hx with rfl | hx; exact hr; exact hb x hx)
                (by simp; omega) hr'
      | _ => intro c; cases c

/-- a run that returns bytes has visited everything reachable: no cycle is reachable -/
theorem natvP_ok_acyclic (var : Variant) (perm : Perm) (h : Heap) :
    ∀ f path on v out, natvP var perm h f path on v = .ok out → ¬ CycleReachable h v := by
  intro f
  induction f with
  | zero => intro path on v out h0; simp [natvP] at h0
  | succ f ih =>
    intro path on v out hok hcyc
    cases v with
    | ref r =>
      unfold natvP at hok
      split at hok
      · cases hok
      · simp only at hok
        cases ho : h[r]? with
        | none => rw [ho] at hok; cases hok
        | some o =>
          rw [ho] at hok
          -- every reference child was marshalled successfully
          have hk : ∀ s, Val.ref s ∈ o.kids → ¬ CycleFrom h s := by
            intro s hs
            cases o with
            | map es => cases hok
            | arr vs =>
              simp only at hok
              split at hok
              · cases hok
              · cases hsl : serList (fun p v _ => natvP var perm h f p (r :: on) v) path 0 vs 0 with
                | error e => rw [hsl] at hok; cases hok
                | ok body =>
                  obtain ⟨p, s', o', hr⟩ := serList_ok_all hsl _ hs
                  exact ih p (r :: on) _ o' hr
            | struct vs =>
              simp only at hok
              split at hok
              · cases hok
              · obtain ⟨p, s', o', hr⟩ := serList_ok_all hok _ hs
                exact ih p (r :: on) _ o' hr
          obtain ⟨c, d, hrc, hcd, hdc⟩ := hcyc
          cases hrc with
          | refl =>
            obtain ⟨o', ho', hmem⟩ := hcd
            rw [ho] at ho'; cases ho'
            exact hk d hmem ⟨r, d, hdc, ⟨o, ho, hmem⟩, hdc⟩
          | step e rest =>
            obtain ⟨o', ho', hmem⟩ := e
            rw [ho] at ho'; cases ho'
            exact hk _ hmem ⟨c, d, rest, hcd, hdc⟩
    | _ => exact hcyc

/-- error kinds: never `size`; `badtype` only if the heap has a map; `dangling` only for a reference outside the heap -/
theorem natvP_err (var : Variant) (perm : Perm) (h : Heap) (nd : NoDangling h) :
    ∀ f path on v e, (∀ r, v = .ref r → r < h.length) → natvP var perm h f path on v = .error e →
      e = .cycle ∨ e = .fuel ∨ (e = .badtype ∧ ∃ (r : Ref) (es : List Entry), h[r]? = some (Obj.map es)) := by
  intro f
  induction f with
  | zero => intro path on v e _ h0; simp only [natvP] at h0; cases h0; exact .inr (.inl rfl)
  | succ f ih =>
    intro path on v e hv herr
    cases v with
    | ref r =>
      unfold natvP at herr
      split at herr
      · cases herr; exact .inl rfl
      · simp only at herr
        have hr := hv r rfl
        have ho : h[r]? = some h[r] := List.getElem?_eq_getElem hr
        rw [ho] at herr
        have kidsOK : ∀ v' ∈ (h[r]).kids, ∀ s, v' = Val.ref s → s < h.length := by
          intro v' hv' s hs; subst hs; exact nd r _ ho s hv'
        generalize h[r] = o at herr ho kidsOK
        cases o with
        | map es => cases herr; exact .inr (.inr ⟨rfl, r, es, ho⟩)
        | arr vs =>
          simp only at herr
          split at herr
          · cases herr; exact .inl rfl
          · cases hsl : serList (fun p v _ => natvP var perm h f p (r :: on) v) path 0 vs 0 with
            | ok b => rw [hsl] at herr; cases herr
            | error e' =>
              rw [hsl] at herr
              cases herr
              obtain ⟨v', hv', p, s, hr'⟩ := serList_err hsl
              exact ih p (r :: on) v' _ (kidsOK v' hv') hr'
        | struct vs =>
          simp only at herr
          split at herr
          · cases herr; exact .inl rfl
          · obtain ⟨v', hv', p, s, hr'⟩ := serList_err herr
            exact ih p (r :: on) v' _ (kidsOK v' hv') hr'
    | bytes d => unfold natvP at herr; split at herr <;> cases herr; exact .inl rfl
    | bool b => unfold natvP at herr; split at herr <;> cases herr; exact .inl rfl
    | int z => unfold natvP at herr; split at herr <;> cases herr; exact .inl rfl

end OntVerif.Proofs.NeoVal
