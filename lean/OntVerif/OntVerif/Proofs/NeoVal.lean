import OntVerif.Model.NeoVal
import OntVerif.Proofs.Codec
/-! Specification vocabulary (reachability, cycles, well-formed heaps) and helper lemmas for C14 / C15. Core-only. -/
namespace OntVerif.Proofs.NeoVal
open OntVerif.Util OntVerif.Model.Codec OntVerif.Model.NeoVal OntVerif.Proofs.Codec

deriving instance DecidableEq for Except

/-! ## reachability -/

/-- object `r` has the reference `s` among its elements / entry values -/
def Edge (h : Heap) (r s : Ref) : Prop := ∃ o, h[r]? = some o ∧ Val.ref s ∈ o.kids

inductive Reach (h : Heap) : Ref → Ref → Prop
  | refl (r : Ref) : Reach h r r
  | step {a b c : Ref} : Edge h a b → Reach h b c → Reach h a c

theorem Reach.trans {h : Heap} {a b c : Ref} (h1 : Reach h a b) (h2 : Reach h b c) : Reach h a c := by
  induction h1 with
  | refl => exact h2
  | step e _ ih => exact .step e (ih h2)

theorem Reach.tail {h : Heap} {a b c : Ref} (h1 : Reach h a b) (e : Edge h b c) : Reach h a c :=
  h1.trans (.step e (.refl c))

/-- some object on a cycle is reachable from object `r` -/
def CycleFrom (h : Heap) (r : Ref) : Prop := ∃ c d, Reach h r c ∧ Edge h c d ∧ Reach h d c

/-- a reference cycle is reachable from the value -/
def CycleReachable (h : Heap) : Val → Prop
  | .ref r => CycleFrom h r
  | _ => False

/-! ## soundness of `hasCycle` (no fuel / heap hypotheses) -/

theorem safeIter_length (h : Heap) (k : Nat) : (safeIter h k).length = h.length := by
  cases k <;> simp [safeIter, safeStep]

theorem safeStep_getD {h : Heap} {s : List Bool} {r : Ref} (hs : (safeStep h s).getD r false = true) :
    ∃ o, h[r]? = some o ∧ ∀ c ∈ o.kids, isSafeVal s c = true := by
  unfold safeStep at hs
  rw [List.getD_eq_getElem?_getD, List.getElem?_map] at hs
  cases ho : h[r]? with
  | none => simp [ho] at hs
  | some o =>
    simp only [ho, Option.map_some, Option.getD_some, List.all_eq_true] at hs
    exact ⟨o, rfl, hs⟩

theorem safeIter_zero_getD (h : Heap) (r : Ref) : (safeIter h 0).getD r false = false := by
  unfold safeIter
  rw [List.getD_eq_getElem?_getD, List.getElem?_map]
  cases h[r]? <;> rfl

/-- an object marked safe after any number of rounds reaches no cycle -/
theorem safe_no_cycle (h : Heap) (k : Nat) : ∀ r, (safeIter h k).getD r false = true → ¬ CycleFrom h r := by
  induction k with
  | zero => intro r hs; rw [safeIter_zero_getD] at hs; cases hs
  | succ k ih =>
    intro r hs ⟨c, d, hrc, hcd, hdc⟩
    obtain ⟨o, ho, hk⟩ := safeStep_getD hs
    cases hrc with
    | refl =>
      -- r itself is on the cycle: its child d reaches r and r steps to d again
      obtain ⟨o', ho', hmem⟩ := hcd
      rw [ho] at ho'; cases ho'
      have hsd := hk _ hmem
      exact ih d hsd ⟨r, d, hdc, ⟨o, ho, hmem⟩, hdc⟩
    | step e rest =>
      obtain ⟨o', ho', hmem⟩ := e
      rw [ho] at ho'; cases ho'
      have hsb := hk _ hmem
      exact ih _ hsb ⟨c, d, rest, hcd, hdc⟩

theorem hasCycle_of_reachable (h : Heap) (v : Val) (hc : CycleReachable h v) : hasCycle h v = true := by
  cases v with
  | ref r =>
    cases hs : (safeIter h h.length).getD r false with
    | false =>
      show (!(safeIter h h.length).getD r false) = true
      rw [hs]; rfl
    | true => exact absurd hc (safe_no_cycle h _ r hs)
  | _ => cases hc

/-! ## decoding is total -/

/-- a decoder result that is either a value with a cursor that only moved forward inside the buffer, or one of the
genuine error kinds (never `panic`, never `fuel`) -/
def Good {α : Type} (s : Src) : Except DErr (α × Src) → Prop
  | .ok (_, s') => Adv s s'
  | .error e => e ≠ .panic ∧ e ≠ .fuel

theorem readCount_good (s : Src) (w : s.wf) : Good s (readCount s) := by
  obtain ⟨r, s', h, adv, _⟩ := nextVarUint_total s w
  unfold readCount
  rw [h]
  simp only
  split
  · exact ⟨by decide, by decide⟩
  · split
    · exact ⟨by decide, by decide⟩
    · exact adv

theorem readVarBytes_good (s : Src) (w : s.wf) : Good s (readVarBytes s) := by
  obtain ⟨⟨d, sz, irr, eof⟩, s', h, adv⟩ := nextVarBytes_total s w
  unfold readVarBytes
  rw [h]
  simp only
  split
  · exact ⟨by decide, by decide⟩
  · split
    · exact ⟨by decide, by decide⟩
    · exact adv

theorem desList_good (rec : Src → Except DErr (Tree × Src)) (hrec : ∀ s, s.wf → Good s (rec s)) :
    ∀ n s acc, s.wf → Good s (desList rec n s acc) := by
  intro n
  induction n with
  | zero => intro s acc w; exact Adv.refl w
  | succ n ih =>
    intro s acc w
    unfold desList
    have h1 := hrec s w
    cases hr : rec s with
    | error e => rw [hr] at h1; exact h1
    | ok p =>
      obtain ⟨t, s'⟩ := p
      rw [hr] at h1
      simp only
      split
      · exact ⟨by decide, by decide⟩
      · have h2 := ih s' (t :: acc) (Adv.wf h1 w)
        cases hd : desList rec n s' (t :: acc) with
        | error e => rw [hd] at h2; exact h2
        | ok q => obtain ⟨ts, s''⟩ := q; rw [hd] at h2; exact Adv.trans h1 h2

theorem desMap_good (rec : Src → Except DErr (Tree × Src)) (hrec : ∀ s, s.wf → Good s (rec s)) :
    ∀ n s acc, s.wf → Good s (desMap rec n s acc) := by
  intro n
  induction n with
  | zero => intro s acc w; exact Adv.refl w
  | succ n ih =>
    intro s acc w
    unfold desMap
    have h1 := hrec s w
    cases hr : rec s with
    | error e => rw [hr] at h1; exact h1
    | ok p =>
      obtain ⟨k, s1⟩ := p
      rw [hr] at h1
      simp only
      have w1 := Adv.wf h1 w
      have h2 := hrec s1 w1
      cases hr2 : rec s1 with
      | error e => rw [hr2] at h2; exact h2
      | ok p2 =>
        obtain ⟨v, s2⟩ := p2
        rw [hr2] at h2
        simp only
        cases k.asBytes with
        | none => exact ⟨by decide, by decide⟩
        | some kb =>
          simp only
          have h3 := ih s2 (tmapSet kb k v acc) (Adv.wf h2 w1)
          cases hd : desMap rec n s2 (tmapSet kb k v acc) with
          | error e => rw [hd] at h3; exact h3
          | ok q => obtain ⟨es, s3⟩ := q; rw [hd] at h3; exact Adv.trans h1 (Adv.trans h2 h3)


theorem deser_good : ∀ f s depth, s.wf → f + depth ≥ MAX_COUNT + 2 → depth ≤ MAX_COUNT + 1 →
    Good s (deser f s depth) := by
  intro f
  induction f with
  | zero => intro s depth _ h1 h2; omega
  | succ f ih =>
    intro s depth w hf hd
    unfold deser
    split
    · exact ⟨by decide, by decide⟩
    · rename_i hdep
      have hrec : ∀ s, s.wf → Good s (deser f s (depth + 1)) := fun s w => ih s (depth + 1) w (by omega) (by omega)
      have a1 := nextByte_adv s w
      generalize nextByte s = nb at a1
      obtain ⟨⟨t, eof⟩, s1⟩ := nb
      simp only at a1 ⊢
      have w1 := Adv.wf a1 w
      split
      · exact ⟨by decide, by decide⟩
      split
      · -- bool
        have a2 := nextBool_adv s1 w1
        generalize nextBool s1 = nb2 at a2
        obtain ⟨⟨b, irr, eof2⟩, s2⟩ := nb2
        simp only at a2 ⊢
        split
        · exact ⟨by decide, by decide⟩
        split
        · exact ⟨by decide, by decide⟩
        · exact Adv.trans a1 a2
      split
      · -- bytes
        have h2 := readVarBytes_good s1 w1
        cases hr : readVarBytes s1 with
        | error e => rw [hr] at h2; exact h2
        | ok p =>
          obtain ⟨d, s2⟩ := p
          rw [hr] at h2
          simp only
          split
          · exact ⟨by decide, by decide⟩
          · exact Adv.trans a1 h2
      split
      · -- int
        have h2 := readVarBytes_good s1 w1
        cases hr : readVarBytes s1 with
        | error e => rw [hr] at h2; exact h2
        | ok p =>
          obtain ⟨d, s2⟩ := p
          rw [hr] at h2
          simp only
          split
          · exact ⟨by decide, by decide⟩
          · exact Adv.trans a1 h2
      split
      ·
        have h1 := readCount_good s1 w1
        cases hr : readCount s1 with
        | error e => rw [hr] at h1; exact h1
        | ok p =>
          obtain ⟨l, s2⟩ := p
          rw [hr] at h1
          simp only
          have h2 := desList_good _ hrec (loopCount l) s2 [] (Adv.wf h1 w1)
          generalize desList (fun s => deser f s (depth + 1)) (loopCount l) s2 [] = res at h2
          cases res with
          | error e => exact h2
          | ok q => obtain ⟨ts, s3⟩ := q; exact Adv.trans a1 (Adv.trans h1 h2)
      split
      ·
        have h1 := readCount_good s1 w1
        cases hr : readCount s1 with
        | error e => rw [hr] at h1; exact h1
        | ok p =>
          obtain ⟨l, s2⟩ := p
          rw [hr] at h1
          simp only
          have h2 := desMap_good _ hrec (loopCount l) s2 [] (Adv.wf h1 w1)
          generalize desMap (fun s => deser f s (depth + 1)) (loopCount l) s2 [] = res at h2
          cases res with
          | error e => exact h2
          | ok q => obtain ⟨ts, s3⟩ := q; exact Adv.trans a1 (Adv.trans h1 h2)
      split
      ·
        have h1 := readCount_good s1 w1
        cases hr : readCount s1 with
        | error e => rw [hr] at h1; exact h1
        | ok p =>
          obtain ⟨l, s2⟩ := p
          rw [hr] at h1
          simp only
          have h2 := desList_good _ hrec (loopCount l) s2 [] (Adv.wf h1 w1)
          generalize desList (fun s => deser f s (depth + 1)) (loopCount l) s2 [] = res at h2
          cases res with
          | error e => exact h2
          | ok q => obtain ⟨ts, s3⟩ := q; exact Adv.trans a1 (Adv.trans h1 h2)
      · exact ⟨by decide, by decide⟩

theorem deserialize_good (bs : Bytes) (hlen : bs.length < two64) : Good ⟨bs, 0⟩ (deserialize bs) :=
  deser_good _ _ _ ⟨Nat.zero_le _, hlen⟩ (by decide) (by decide)

/-! ## what the shipped detector does catch: cycles along the first-element chain -/

/-- the child the shipped detector certainly follows from object `r`: element 0 of an array/struct, the value of the only
entry of a one-entry map (every iteration order of a one-entry map starts with that entry) -/
def firstStep (h : Heap) (r : Ref) : Option Val :=
  match h[r]? with
  | some (.arr (v :: _)) => some v
  | some (.struct (v :: _)) => some v
  | some (.map [e]) => some e.val
  | _ => none

/-- follow the first-element chain `n` times through containers -/
def firstIter (h : Heap) : Nat → Ref → Option Ref
  | 0, r => some r
  | n+1, r =>
    match firstStep h r with
    | some (.ref s) => firstIter h n s
    | _ => none

/-- the first-element chain from `r` never reaches a leaf or an empty container -/
def NeverEnds (h : Heap) (r : Ref) : Prop := ∀ n, (firstIter h n r).isSome = true

/-- the first-element chain from `r` returns to `r` -/
def FirstCycle (h : Heap) (r : Ref) : Prop := ∃ n, 0 < n ∧ firstIter h n r = some r

theorem firstIter_add (h : Heap) (a b : Nat) (r : Ref) :
    firstIter h (a + b) r = (firstIter h a r).bind (firstIter h b) := by
  induction a generalizing r with
  | zero => simp [firstIter]
  | succ a ih =>
    rw [Nat.succ_add]
    simp only [firstIter]
    cases firstStep h r with
    | none => rfl
    | some v => cases v <;> simp [ih]

theorem neverEnds_of_firstCycle {h : Heap} {r : Ref} (hc : FirstCycle h r) : NeverEnds h r := by
  obtain ⟨n, hn, hr⟩ := hc
  intro m
  induction m using Nat.strongRecOn with
  | _ m ih =>
    by_cases hm : m ≤ n
    · have e : n = m + (n - m) := by omega
      rw [e, firstIter_add] at hr
      cases hx : firstIter h m r with
      | none => rw [hx] at hr; cases hr
      | some _ => rfl
    · have e : m = n + (m - n) := by omega
      rw [e, firstIter_add, hr]
      exact ih (m - n) (by omega)

theorem neverEnds_step {h : Heap} {r : Ref} (hn : NeverEnds h r) :
    ∃ s, firstStep h r = some (.ref s) ∧ NeverEnds h s := by
  have h1 := hn 1
  simp only [firstIter] at h1
  cases hs : firstStep h r with
  | none => rw [hs] at h1; cases h1
  | some v =>
    cases v with
    | ref s =>
      refine ⟨s, rfl, fun n => ?_⟩
      have := hn (n + 1)
      simpa [firstIter, hs] using this
    | _ => rw [hs] at h1; cases h1

theorem detShipped_of_neverEnds (perm : Perm) (hv : perm.valid) (path : List Nat) (h : Heap) :
    ∀ k r vis, NeverEnds h r → detShipped perm path h k vis (.ref r) = true := by
  intro k
  induction k with
  | zero => intro r vis _; rfl
  | succ k ih =>
    intro r vis hn
    obtain ⟨s, hs, hns⟩ := neverEnds_step hn
    unfold firstStep at hs
    unfold detShipped
    cases ho : h[r]? with
    | none => rw [ho] at hs; cases hs
    | some o =>
      rw [ho] at hs
      cases o with
      | arr vs =>
        cases vs with
        | nil => cases hs
        | cons v vs =>
          simp only at hs
          cases hs
          simp only
          split
          · rfl
          · exact ih s _ hns
      | struct vs =>
        cases vs with
        | nil => cases hs
        | cons v vs =>
          simp only at hs
          cases hs
          simp only
          split
          · rfl
          · exact ih s _ hns
      | map es =>
        match es, hs with
        | [e], hs =>
          simp only at hs
          have hp : perm path r [e] = [e] := List.perm_singleton.mp (hv path r [e])
          simp only [hp]
          have hev : e.val = Val.ref s := Option.some.inj hs
          split
          · rfl
          · rw [hev]
            exact ih s _ hns

/-! ## `BigIntToNeoBytes` / `BigIntFromNeoBytes` round trip -/

theorem toNeoAux_ne_nil (f : Nat) (z : Int) : toNeoAux (f + 1) z ≠ [] := by
  unfold toNeoAux
  simp only
  split <;> simp

theorem ofNat_emod_toNat (z : Int) : ((UInt8.ofNat (z % 256).toNat).toNat : Int) = z % 256 := by
  have h1 : 0 ≤ z % 256 := Int.emod_nonneg z (by decide)
  have h2 : z % 256 < 256 := Int.emod_lt_of_pos z (by decide)
  have : (z % 256).toNat < 256 := by omega
  rw [toNat_ofNat_lt _ this]
  omega

theorem fromNeo_cons (b : UInt8) (r : Bytes) (hr : r ≠ []) : fromNeo (b :: r) = (b.toNat : Int) + 256 * fromNeo r := by
  cases r with
  | nil => exact absurd rfl hr
  | cons c t => rfl

theorem fromNeo_toNeoAux : ∀ f z, z.natAbs ≤ f → 1 ≤ f → fromNeo (toNeoAux f z) = z := by
  intro f
  induction f with
  | zero => intro z _ hz; omega
  | succ f ih =>
    intro z hf hz
    unfold toNeoAux
    simp only
    have hb := ofNat_emod_toNat z
    split
    · rename_i hr
      show (if (UInt8.ofNat (z % 256).toNat).toNat < 128 then _ else _) = z
      have hb' : ((UInt8.ofNat (z % 256).toNat).toNat : Int) = z % 256 := hb
      split
      · rename_i hlt; omega
      · rename_i hge; omega
    · rename_i hr
      have hz' : 1 ≤ f := by omega
      have hzf : -((f : Int) + 1) ≤ z ∧ z ≤ (f : Int) + 1 := by omega
      have hq : -(f : Int) ≤ z / 256 ∧ z / 256 ≤ (f : Int) := by omega
      have hf' : (z / 256).natAbs ≤ f := by omega
      have hne : toNeoAux f (z / 256) ≠ [] := by
        cases f with
        | zero => omega
        | succ f => exact toNeoAux_ne_nil f _
      rw [fromNeo_cons _ _ hne, ih _ hf' hz', hb]
      omega

theorem fromNeo_toNeo (z : Int) : fromNeo (toNeo z) = z := by
  unfold toNeo
  split
  · rename_i h; subst h; rfl
  · rename_i h; exact fromNeo_toNeoAux _ z (Nat.le_refl _) (by omega)

/-! ## key order, sorted maps, independence of the iteration order -/

theorem ble_total : ∀ a b : Bytes, ble a b = true ∨ ble b a = true
  | [], _ => .inl rfl
  | _ :: _, [] => .inr rfl
  | a :: as, b :: bs => by
    simp only [ble, Bool.or_eq_true, decide_eq_true_eq, Bool.and_eq_true, beq_iff_eq]
    rcases ble_total as bs with h | h
    · by_cases h1 : a.toNat < b.toNat
      · exact .inl (.inl h1)
      · by_cases h2 : b.toNat < a.toNat
        · exact .inr (.inl h2)
        · exact .inl (.inr ⟨by omega, h⟩)
    · by_cases h1 : a.toNat < b.toNat
      · exact .inl (.inl h1)
      · by_cases h2 : b.toNat < a.toNat
        · exact .inr (.inl h2)
        · exact .inr (.inr ⟨by omega, h⟩)

theorem ble_antisymm : ∀ a b : Bytes, ble a b = true → ble b a = true → a = b
  | [], [], _, _ => rfl
  | [], _ :: _, _, h => by simp [ble] at h
  | _ :: _, [], h, _ => by simp [ble] at h
  | a :: as, b :: bs, h1, h2 => by
    simp only [ble, Bool.or_eq_true, decide_eq_true_eq, Bool.and_eq_true, beq_iff_eq] at h1 h2
    have hab : a.toNat = b.toNat := by
      rcases h1 with h1 | h1 <;> rcases h2 with h2 | h2 <;> omega
    have h1' : ble as bs = true := by rcases h1 with h1 | h1; omega; exact h1.2
    have h2' : ble bs as = true := by rcases h2 with h2 | h2; omega; exact h2.2
    rw [UInt8.toNat_inj.mp hab, ble_antisymm as bs h1' h2']

theorem ble_trans : ∀ a b c : Bytes, ble a b = true → ble b c = true → ble a c = true
  | [], _, _, _, _ => rfl
  | _ :: _, [], _, h, _ => by simp [ble] at h
  | _ :: _, _ :: _, [], _, h => by simp [ble] at h
  | a :: as, b :: bs, c :: cs, h1, h2 => by
    simp only [ble, Bool.or_eq_true, decide_eq_true_eq, Bool.and_eq_true, beq_iff_eq] at h1 h2 ⊢
    rcases h1 with h1 | ⟨h1, h1'⟩ <;> rcases h2 with h2 | ⟨h2, h2'⟩
    · exact .inl (by omega)
    · exact .inl (by omega)
    · exact .inl (by omega)
    · exact .inr ⟨by omega, ble_trans as bs cs h1' h2'⟩

def kle (a b : Entry) : Prop := ble a.key b.key = true

/-- a Go map in the model: entries sorted by key string, keys pairwise different -/
def SortedK (es : List Entry) : Prop := es.Pairwise fun a b => ble a.key b.key = true ∧ a.key ≠ b.key

theorem insertE_perm (e : Entry) : ∀ l, (insertE e l).Perm (e :: l)
  | [] => List.Perm.refl _
  | x :: xs => by
    unfold insertE
    split
    · exact List.Perm.refl _
    · exact ((insertE_perm e xs).cons x).trans (List.Perm.swap e x xs)

theorem sortE_perm : ∀ l, (sortE l).Perm l
  | [] => List.Perm.refl _
  | e :: es => (insertE_perm e (sortE es)).trans ((sortE_perm es).cons e)

theorem insertE_sorted (e : Entry) : ∀ l, l.Pairwise kle → (insertE e l).Pairwise kle
  | [], _ => List.pairwise_singleton _ _
  | x :: xs, h => by
    unfold insertE
    split
    · rename_i hle
      refine List.Pairwise.cons ?_ h
      intro y hy
      rcases List.mem_cons.mp hy with rfl | hy
      · exact hle
      · exact ble_trans _ _ _ hle ((List.pairwise_cons.mp h).1 y hy)
    · rename_i hle
      have hxe : kle x e := by
        rcases ble_total e.key x.key with h' | h'
        · exact absurd h' hle
        · exact h'
      refine List.Pairwise.cons ?_ (insertE_sorted e xs (List.pairwise_cons.mp h).2)
      intro y hy
      rcases List.mem_cons.mp ((insertE_perm e xs).subset hy) with rfl | hy
      · exact hxe
      · exact (List.pairwise_cons.mp h).1 y hy

theorem sortE_sorted : ∀ l, (sortE l).Pairwise kle
  | [] => List.Pairwise.nil
  | e :: es => insertE_sorted e _ (sortE_sorted es)

theorem SortedK.eq_of_key {es : List Entry} (hs : SortedK es) {a b : Entry} (ha : a ∈ es) (hb : b ∈ es)
    (hk : a.key = b.key) : a = b := by
  induction es with
  | nil => cases ha
  | cons x xs ih =>
    obtain ⟨hx, hxs⟩ := List.pairwise_cons.mp hs
    rcases List.mem_cons.mp ha with ha' | ha' <;> rcases List.mem_cons.mp hb with hb' | hb'
    · rw [ha', hb']
    · subst ha'; exact absurd hk (hx b hb').2
    · subst hb'; exact absurd hk.symm (hx a ha').2
    · exact ih hxs ha' hb'

/-- **Sorting removes the iteration order**: whatever order the entries of a map are visited in, sorting the visited
sequence gives the map's canonical entry list. -/
theorem sortE_of_perm {l es : List Entry} (hp : l.Perm es) (hs : SortedK es) : sortE l = es := by
  have p : (sortE l).Perm es := (sortE_perm l).trans hp
  refine List.Perm.eq_of_pairwise (le := kle) ?_ (sortE_sorted l) (hs.imp fun h => h.1) p
  intro a b ha hb hab hba
  exact hs.eq_of_key (p.subset ha) hb (ble_antisymm _ _ hab hba)

theorem sortedEntries_eq (perm : Perm) (hv : perm.valid) (path : List Nat) (r : Ref) {es : List Entry}
    (hs : SortedK es) : sortedEntries perm path r es = es :=
  sortE_of_perm (hv path r es) hs

end OntVerif.Proofs.NeoVal
