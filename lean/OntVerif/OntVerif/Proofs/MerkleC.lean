import OntVerif.Proofs.MerkleB
namespace OntVerif.Proofs.Merkle
open OntVerif.Util OntVerif.Model.Merkle

section
variable {Hash : Type} (H1 : Hash → Hash → Hash) (He : Hash)

/-- one more level on top of a sub-evaluation: the sibling is on the right (`left = false`) or on the left -/
def topStep (left : Bool) : Except VErr (Hash × List Hash) → Except VErr (Hash × List Hash)
  | .error e => .error e
  | .ok (_, []) => .error .short
  | .ok (c, p :: r) => .ok (if left then H1 p c else H1 c p, r)

/-- recursive (RFC 6962 shaped) evaluation of an audit path, consuming from the front, returning the rest -/
def evalRec (leaf : Hash) (idx size : Nat) (path : List Hash) : Except VErr (Hash × List Hash) :=
  if _h : size ≤ 1 then .ok (leaf, path) else
  if idx < splitK size then topStep H1 false (evalRec leaf idx (splitK size) path)
  else topStep H1 true (evalRec leaf (idx - splitK size) (size - splitK size) path)
termination_by size
decreasing_by
  · exact splitK_lt (by omega)
  · have := splitK_pos size; omega

theorem calcLoop_fuel (f : Nat) : ∀ (g : Nat) (c : Hash) (i l : Nat) (path : List Hash), l < f → l < g →
    calcLoop H1 f c i l path = calcLoop H1 g c i l path := by
  induction f with
  | zero => intro g c i l path h; omega
  | succ f ih =>
    intro g c i l path hf hg
    obtain ⟨g, rfl⟩ : ∃ g', g = g' + 1 := ⟨g - 1, by omega⟩
    by_cases h0 : l = 0
    · simp [calcLoop, h0]
    · cases path with
      | nil => simp [calcLoop, h0]
      | cons p rest =>
        simp only [calcLoop, h0, if_false]
        rw [ih g (H1 p c) (i / 2) (l / 2) rest (by omega) (by omega),
            ih g (H1 c p) (i / 2) (l / 2) rest (by omega) (by omega),
            ih g c (i / 2) (l / 2) (p :: rest) (by omega) (by omega)]

theorem calcLoop_zero (f : Nat) (c : Hash) (i : Nat) (path : List Hash) :
    calcLoop H1 f c i 0 path = .ok (c, path) := by
  cases f <;> simp [calcLoop]

theorem calcLoop_step (f : Nat) (c : Hash) (i l : Nat) (p : Hash) (rest : List Hash) (hl : l ≠ 0) :
    calcLoop H1 (f + 1) c i l (p :: rest) =
      if i % 2 = 1 then calcLoop H1 f (H1 p c) (i / 2) (l / 2) rest
      else if i < l then calcLoop H1 f (H1 c p) (i / 2) (l / 2) rest
      else calcLoop H1 f c (i / 2) (l / 2) (p :: rest) := by
  simp [calcLoop, hl]

theorem calcLoop_nil (f : Nat) (c : Hash) (i l : Nat) (hl : l ≠ 0) :
    calcLoop H1 (f + 1) c i l [] = .error .short := by
  simp [calcLoop, hl]

/-- the node lies in the full left subtree of `2^x` leaves of a tree whose last node is `l`, `2^x ≤ l < 2^(x+1)` -/
theorem calcLoop_left (x : Nat) : ∀ (c : Hash) (i l : Nat) (path : List Hash) (f : Nat),
    2 ^ x ≤ l → l < 2 ^ (x + 1) → i < 2 ^ x → l < f →
    calcLoop H1 f c i l path = topStep H1 false (calcLoop H1 f c i (2 ^ x - 1) path) := by
  induction x with
  | zero =>
    intro c i l path f h1 h2 h3 hf
    have hl : l = 1 := by simp at h1 h2; omega
    have hi : i = 0 := by simp at h3; omega
    subst hl hi
    obtain ⟨f, rfl⟩ : ∃ f', f = f' + 1 := ⟨f - 1, by omega⟩
    simp only [Nat.pow_zero, Nat.sub_self, calcLoop_zero]
    cases path with
    | nil => simp [calcLoop_nil, topStep]
    | cons p rest => rw [calcLoop_step H1 f c 0 1 p rest (by omega)]; simp [calcLoop_zero, topStep]
  | succ x ih =>
    intro c i l path f h1 h2 h3 hf
    have hp := Nat.two_pow_pos x
    have e1 : 2 ^ (x + 1) = 2 * 2 ^ x := by rw [Nat.pow_succ]; omega
    have e2 : 2 ^ (x + 1 + 1) = 2 * (2 * 2 ^ x) := by rw [Nat.pow_succ, e1]; omega
    rw [e1] at h1 h3 ⊢
    rw [e2] at h2
    obtain ⟨f, rfl⟩ : ∃ f', f = f' + 1 := ⟨f - 1, by omega⟩
    cases path with
    | nil => rw [calcLoop_nil H1 f c i l (by omega), calcLoop_nil H1 f c i _ (by omega)]; simp [topStep]
    | cons p rest =>
      rw [calcLoop_step H1 f c i l p rest (by omega), calcLoop_step H1 f c i (2 * 2 ^ x - 1) p rest (by omega)]
      have e3 : (2 * 2 ^ x - 1) / 2 = 2 ^ x - 1 := by omega
      rw [e3]
      by_cases hodd : i % 2 = 1
      · simp only [hodd, if_true]
        rw [ih (H1 p c) (i / 2) (l / 2) rest f (by omega) (by rw [e1]; omega) (by omega) (by omega)]
      · have hlt : i < l := by omega
        have hlt2 : i < 2 * 2 ^ x - 1 := by omega
        simp only [hodd, hlt, hlt2, if_true, if_false]
        rw [ih (H1 c p) (i / 2) (l / 2) rest f (by omega) (by rw [e1]; omega) (by omega) (by omega)]

/-- the node lies in the right subtree: indexes shifted by the full left subtree `2^x` -/
theorem calcLoop_right (x : Nat) : ∀ (c : Hash) (i l : Nat) (path : List Hash) (f : Nat),
    i ≤ l → l < 2 ^ x → 2 ^ x + l < f →
    calcLoop H1 f c (2 ^ x + i) (2 ^ x + l) path = topStep H1 true (calcLoop H1 f c i l path) := by
  induction x with
  | zero =>
    intro c i l path f h1 h2 hf
    have hl : l = 0 := by simp at h2; omega
    have hi : i = 0 := by omega
    subst hl hi
    obtain ⟨f, rfl⟩ : ∃ f', f = f' + 1 := ⟨f - 1, by omega⟩
    simp only [Nat.pow_zero, Nat.add_zero, calcLoop_zero]
    cases path with
    | nil => simp [calcLoop_nil, topStep]
    | cons p rest => rw [calcLoop_step H1 f c 1 1 p rest (by omega)]; simp [calcLoop_zero, topStep]
  | succ x ih =>
    intro c i l path f h1 h2 hf
    have hp := Nat.two_pow_pos x
    have e1 : 2 ^ (x + 1) = 2 * 2 ^ x := by rw [Nat.pow_succ]; omega
    rw [e1] at h2 hf ⊢
    obtain ⟨f, rfl⟩ : ∃ f', f = f' + 1 := ⟨f - 1, by omega⟩
    have e3 : (2 * 2 ^ x + i) / 2 = 2 ^ x + i / 2 := by omega
    have e4 : (2 * 2 ^ x + l) / 2 = 2 ^ x + l / 2 := by omega
    cases path with
    | nil =>
      rw [calcLoop_nil H1 f c _ _ (by omega)]
      by_cases hl : l = 0
      · subst hl; simp [calcLoop_zero, topStep]
      · rw [calcLoop_nil H1 f c _ _ hl]; simp [topStep]
    | cons p rest =>
      rw [calcLoop_step H1 f c _ _ p rest (by omega), e3, e4]
      by_cases hl : l = 0
      · have hi : i = 0 := by omega
        subst hl hi
        have : ¬ (2 * 2 ^ x + 0) % 2 = 1 := by omega
        simp only [this, Nat.lt_irrefl, if_false, Nat.zero_div, calcLoop_zero]
        rw [ih c 0 0 (p :: rest) f (by omega) (by omega) (by omega), calcLoop_zero]
      · rw [calcLoop_step H1 f c i l p rest hl]
        have hm : (2 * 2 ^ x + i) % 2 = i % 2 := by omega
        rw [hm]
        by_cases hodd : i % 2 = 1
        · simp only [hodd, if_true]
          exact ih _ _ _ _ f (by omega) (by omega) (by omega)
        · by_cases hlt : i < l
          · have : 2 * 2 ^ x + i < 2 * 2 ^ x + l := by omega
            simp only [hodd, hlt, this, if_true, if_false]
            exact ih _ _ _ _ f (by omega) (by omega) (by omega)
          · have : ¬ 2 * 2 ^ x + i < 2 * 2 ^ x + l := by omega
            simp only [hodd, hlt, this, if_false]
            exact ih _ _ _ _ f (by omega) (by omega) (by omega)

theorem splitK_spec {n : Nat} (h : 2 ≤ n) : ∃ x, splitK n = 2 ^ x ∧ 2 ^ x ≤ n - 1 ∧ n - 1 < 2 ^ (x + 1) :=
  ⟨(n - 1).log2, rfl, Nat.log2_self_le (by omega), Nat.lt_log2_self⟩

/-- **the iterative verifier loop computes the recursive RFC 6962 evaluation** -/
theorem calcLoop_eq_evalRec (size : Nat) : ∀ (leaf : Hash) (idx : Nat) (path : List Hash) (f : Nat),
    1 ≤ size → idx < size → size ≤ f →
    calcLoop H1 f leaf idx (size - 1) path = evalRec H1 leaf idx size path := by
  induction size using Nat.strongRecOn with
  | _ size ih =>
    intro leaf idx path f h1 hi hf
    rw [evalRec]
    by_cases hs : size ≤ 1
    · have : size = 1 := by omega
      subst this
      simp [calcLoop_zero]
    · simp only [hs, dite_false]
      obtain ⟨x, hk, hx1, hx2⟩ := splitK_spec (n := size) (by omega)
      rw [hk]
      by_cases hlt : idx < 2 ^ x
      · simp only [hlt, if_true]
        rw [calcLoop_left H1 x leaf idx (size - 1) path f hx1 hx2 hlt (by omega)]
        congr 1
        have hp := Nat.two_pow_pos x
        exact ih (2 ^ x) (by omega) leaf idx path f hp hlt (by omega)
      · simp only [hlt, if_false]
        have e : size - 1 = 2 ^ x + (size - 2 ^ x - 1) := by omega
        have e' : idx = 2 ^ x + (idx - 2 ^ x) := by omega
        rw [e]
        conv => lhs; rw [e']
        rw [calcLoop_right H1 x leaf (idx - 2 ^ x) (size - 2 ^ x - 1) path f (by omega) (by omega) (by omega)]
        congr 1
        have hp := Nat.two_pow_pos x
        exact ih (size - 2 ^ x) (by omega) leaf (idx - 2 ^ x) path f (by omega) (by omega) (by omega)

end
end OntVerif.Proofs.Merkle
