import OntVerif.Model.Recover
/-!
# Lemmas for C01 (crash recovery of the ledger store): bit arithmetic of tree sizes, the compact tree append,
the hash file, tables keyed by height, and the analysis of `fill` / `submit` / `crashDisk` / `reopen`.
-/
namespace OntVerif.Proofs.Recover
open OntVerif.Model.Recover

theorem bitsAux_fuel : ∀ (f f' n : Nat), n ≤ f → n ≤ f' → bitsAux f n = bitsAux f' n := by
  intro f
  induction f with
  | zero =>
    intro f' n h _
    have : n = 0 := by omega
    subst this
    cases f' <;> simp [bitsAux]
  | succ f ih =>
    intro f' n h h'
    cases f' with
    | zero =>
      have : n = 0 := by omega
      subst this
      simp [bitsAux]
    | succ f' =>
      simp only [bitsAux]
      split
      · rfl
      · rw [ih f' (n / 2) (by omega) (by omega)]

theorem bits_eq (n : Nat) : bits n = if n = 0 then [] else (n % 2 == 1) :: bits (n / 2) := by
  unfold bits
  cases n with
  | zero => simp [bitsAux]
  | succ m =>
    simp only [bitsAux]
    rw [bitsAux_fuel m ((m + 1) / 2) ((m + 1) / 2) (by omega) (by omega)]

/-- binary increment, least significant digit first -/
def inc : List Bool → List Bool
  | [] => [true]
  | false :: r => true :: r
  | true :: r => false :: inc r

theorem bits_succ (n : Nat) : bits (n + 1) = inc (bits n) := by
  induction n using Nat.strongRecOn with
  | _ n ih =>
    rw [bits_eq (n + 1), bits_eq n]
    by_cases h0 : n = 0
    · subst h0; simp [bits_eq, inc]
    · simp only [h0, if_false, Nat.succ_ne_zero]
      by_cases hodd : n % 2 = 1
      · have h1 : (n + 1) % 2 = 0 := by omega
        have h2 : (n + 1) / 2 = n / 2 + 1 := by omega
        simp [hodd, h1, h2, inc, ih (n / 2) (by omega)]
      · have h1 : (n + 1) % 2 = 1 := by omega
        have h2 : (n + 1) / 2 = n / 2 := by omega
        have h3 : n % 2 = 0 := by omega
        simp [h3, h1, h2, inc]

theorem storedGo_inc (l : List Bool) : ∀ id, 1 ≤ id → storedGo (inc l) id = storedGo l id + 2 * id - 1 + leadTrue l := by
  induction l with
  | nil => intro id h; simp [inc, storedGo, leadTrue]
  | cons b r ih =>
    intro id h
    cases b with
    | false => simp [inc, storedGo, leadTrue]; omega
    | true =>
      simp only [inc, storedGo, leadTrue, if_true, Bool.false_eq_true, if_false]
      rw [ih (2 * id) (by omega)]
      omega

theorem storedHashNum_succ (n : Nat) : storedHashNum (n + 1) = storedHashNum n + 1 + leadTrue (bits n) := by
  unfold storedHashNum
  rw [bits_succ, storedGo_inc _ 1 (by omega)]
  omega

theorem countTrue_inc (l : List Bool) : countTrue (inc l) + leadTrue l = countTrue l + 1 := by
  induction l with
  | nil => simp [inc, countTrue, leadTrue]
  | cons b r ih =>
    cases b with
    | false => simp [inc, countTrue, leadTrue]; omega
    | true => simp only [inc, countTrue, leadTrue, if_true, Bool.false_eq_true, if_false]; omega

theorem countBit_succ (n : Nat) : countBit (n + 1) + leadTrue (bits n) = countBit n + 1 := by
  unfold countBit
  rw [bits_succ]
  exact countTrue_inc _

theorem leadTrue_le_countTrue (l : List Bool) : leadTrue l ≤ countTrue l := by
  induction l with
  | nil => simp [leadTrue]
  | cons b r ih => cases b <;> simp [leadTrue, countTrue] <;> omega


/-! ## compact tree -/

theorem mergeLoop_some {H : Type} (hc : H → H → H) :
    ∀ (bs : List Bool) (rev : List H) (leaf : H) (acc rev' : List H) (l : H) (acc' : List H),
      mergeLoop hc bs rev leaf acc = some (rev', l, acc') →
      acc'.length = acc.length + leadTrue bs ∧ rev'.length + leadTrue bs = rev.length := by
  intro bs
  induction bs with
  | nil =>
    intro rev leaf acc rev' l acc' h
    simp [mergeLoop] at h
    obtain ⟨rfl, rfl, rfl⟩ := h
    simp [leadTrue]
  | cons b bs ih =>
    intro rev leaf acc rev' l acc' h
    cases b with
    | false =>
      simp [mergeLoop] at h
      obtain ⟨rfl, rfl, rfl⟩ := h
      simp [leadTrue]
    | true =>
      cases rev with
      | nil => simp [mergeLoop] at h
      | cons top rest =>
        simp only [mergeLoop] at h
        have := ih rest (hc top leaf) (acc ++ [hc top leaf]) rev' l acc' h
        simp [leadTrue] at this ⊢
        omega

theorem appendHash_some {H : Type} (hc : H → H → H) (t t' : Tree H) (leaf : H) (stored : List H)
    (h : appendHash hc t leaf = some (t', stored)) :
    t'.size = t.size + 1 ∧ stored.length = 1 + leadTrue (bits t.size) ∧ (WF t → WF t') := by
  unfold appendHash at h
  split at h
  · simp at h
  · rename_i rev l st hm
    simp at h
    obtain ⟨rfl, rfl⟩ := h
    have := mergeLoop_some hc _ _ _ _ _ _ _ hm
    simp at this
    refine ⟨rfl, by omega, ?_⟩
    intro hwf
    unfold WF at hwf ⊢
    simp
    have hc' := countBit_succ t.size
    omega

/-! ## file -/

theorem cell_length {H : Type} (enc : H → Bytes) (h : H) : (cell enc h).length = 32 := by
  simp [cell]

theorem encAll_length {H : Type} (enc : H → Bytes) (l : List H) : (encAll enc l).length = 32 * l.length := by
  induction l with
  | nil => simp [encAll]
  | cons h r ih => simp [encAll, cell_length, ih]; omega

/-- writing at the committed offset keeps the committed part and replaces what follows, up to the length written -/
theorem writeAt_take (f : Bytes) (p : Nat) (d : Bytes) (hp : p ≤ f.length) :
    writeAt f p d = f.take p ++ d ++ f.drop (p + d.length) := by
  simp [writeAt, Nat.sub_eq_zero_of_le hp]

theorem writeAt_cover (f : Bytes) (p : Nat) (d : Bytes) (hp : p ≤ f.length) (hl : f.length ≤ p + d.length) :
    writeAt f p d = f.take p ++ d := by
  rw [writeAt_take f p d hp, List.drop_of_length_le hl, List.append_nil]

theorem writeAt_length (f : Bytes) (p : Nat) (d : Bytes) (hp : p ≤ f.length) :
    (writeAt f p d).length = max f.length (p + d.length) := by
  rw [writeAt_take f p d hp]
  simp
  omega

theorem writeAt_prefix (f : Bytes) (p : Nat) (d : Bytes) (hp : p ≤ f.length) :
    (writeAt f p d).take p = f.take p := by
  rw [writeAt_take f p d hp, List.append_assoc, List.take_append_of_le_length (by simp; omega)]
  simp [List.take_take]

/-! ## tables keyed by height -/

theorem putAt_get {α : Type} (l : List (Option α)) (i : Nat) (x : α) : (putAt l i x)[i]? = some (some x) := by
  unfold putAt
  split
  · rename_i h; simp [h]
  · rename_i h
    have h1 : (l ++ List.replicate (i - l.length) none).length = i := by simp; omega
    rw [List.getElem?_append_right (by omega)]
    simp [h1]

theorem getAt_putAt {α : Type} (l : List (Option α)) (i : Nat) (x : α) : getAt (putAt l i x) i = some x := by
  unfold getAt
  rw [putAt_get]

theorem putAt_of_lt {α : Type} (l : List (Option α)) (i : Nat) (x : α) (h : i < l.length) :
    putAt l i x = l.set i (some x) := by
  unfold putAt; rw [if_pos h]

theorem putAt_length_gt {α : Type} (l : List (Option α)) (i : Nat) (x : α) : i < (putAt l i x).length := by
  unfold putAt; split <;> simp <;> omega

theorem putAt_putAt {α : Type} (l : List (Option α)) (i : Nat) (x : α) : putAt (putAt l i x) i x = putAt l i x := by
  rw [putAt_of_lt _ _ _ (putAt_length_gt l i x)]
  apply List.ext_getElem?
  intro j
  by_cases hj : j = i
  · subst hj
    rw [List.getElem?_set_self (putAt_length_gt l j x), putAt_get]
  · rw [List.getElem?_set_ne (by omega)]

variable {β σ ε H : Type}

/-! ## `fill` -/

/-- the shape of a successful `fill` -/
theorem fill_some (S : Sem β σ ε H) (L : Ledger β σ ε H) (b : β) (F : Filled β σ ε H) (h : fill S L b = some F) :
    ∃ stree' x btree' stored,
      appendHash S.hc L.stree (S.chash L.disk.st.data b) = some (stree', x) ∧
      appendHash S.hc L.btree (S.txRoot b) = some (btree', stored) ∧
      F = { blk := ⟨S.height b, putAt L.disk.blk.blocks (S.height b) b⟩
            evt := ⟨S.height b, putAt L.disk.evt.recs (S.height b) (S.events L.disk.st.data b)⟩
            st := ⟨S.height b, S.exec L.disk.st.data b, btree', stree',
                   putAt L.disk.st.roots (S.height b) (S.chash L.disk.st.data b, treeRoot S.hc S.emptyRoot stree')⟩
            btree := btree', stree := stree', data := encAll S.enc stored } := by
  unfold fill at h
  simp only at h
  split at h
  · simp at h
  · rename_i stree' x h1
    split at h
    · simp at h
    · rename_i btree' stored h2
      simp at h
      exact ⟨stree', x, btree', stored, h1, h2, h.symm⟩

theorem fill_facts (S : Sem β σ ε H) (L : Ledger β σ ε H) (b : β) (F : Filled β σ ε H) (h : fill S L b = some F) :
    F.data.length = 32 * (1 + leadTrue (bits L.btree.size)) ∧
    F.btree.size = L.btree.size + 1 ∧ F.stree.size = L.stree.size + 1 ∧
    (WF L.btree → WF F.btree) ∧ (WF L.stree → WF F.stree) ∧
    F.st.cur = S.height b ∧ F.blk.cur = S.height b ∧ F.st.btree = F.btree ∧ F.st.stree = F.stree ∧
    getAt F.blk.blocks (S.height b) = some b := by
  obtain ⟨stree', x, btree', stored, h1, h2, rfl⟩ := fill_some S L b F h
  have a1 := appendHash_some _ _ _ _ _ h1
  have a2 := appendHash_some _ _ _ _ _ h2
  refine ⟨?_, a2.1, a1.1, a2.2.2, a1.2.2, rfl, rfl, rfl, rfl, getAt_putAt _ _ _⟩
  simp [encAll_length, a2.2.1]

/-- `fill` reads the state store and the in-memory trees; re-filling after the block store and/or the event store
already contain the block gives the same batches -/
theorem fill_after_crash (S : Sem β σ ε H) (d d' : Disk β σ ε H) (b : β) (F : Filled β σ ε H)
    (h : fill S (ledgerOf d) b = some F) (hst : d'.st = d.st)
    (hblk : d'.blk = d.blk ∨ d'.blk = F.blk) (hevt : d'.evt = d.evt ∨ d'.evt = F.evt) :
    fill S (ledgerOf d') b = some F := by
  obtain ⟨stree', x, btree', stored, h1, h2, rfl⟩ := fill_some S _ b F h
  simp only [ledgerOf] at h1 h2
  unfold fill
  simp only [ledgerOf, hst, h1, h2]
  rcases hblk with hb | hb <;> rcases hevt with he | he <;> simp [hb, he, ledgerOf, putAt_putAt]


/-! ## `ledgerOf`, `reopen` on a consistent directory -/

theorem ledgerOf_fpos (d : Disk β σ ε H) (h : 32 * storedHashNum d.st.btree.size ≤ d.file.length) :
    (ledgerOf d).fpos = some (32 * storedHashNum d.st.btree.size) := by
  simp [ledgerOf, Nat.not_lt.mpr h]

theorem reopen_ok (S : Sem β σ ε H) (lo hi arg : Nat) (rc : List Nat) (d : Disk β σ ε H)
    (hlo : lo + arg = 1) (hhi : hi + arg = 1) (hd : DiskOK d) :
    reopen S lo hi arg rc d = .ok (ledgerOf d) := by
  obtain ⟨h1, h2, h3, h4, h5, _, _⟩ := hd
  unfold WF at h4 h5
  have hz : d.blk.cur + hi - (d.st.cur + lo) = 0 := by omega
  unfold reopen
  simp [h2, h3, h4, h5, hz, replayAll]

/-! ## `submit` -/

/-- a successful submit of a new block: the checks passed and the result is the filled batches, all committed -/
theorem submit_ok_new [DecidableEq H] (S : Sem β σ ε H) (L L1 : Ledger β σ ε H) (b : β)
    (h : submit S [0, 1, 2] L b = .ok L1) (hnew : L.height < S.height b) :
    ∃ F, fill S L b = some F ∧ S.height b = L.height + 1 ∧
      L1 = { disk := ⟨F.blk, F.evt, F.st, fileAfter L F.data⟩, height := S.height b,
             btree := F.btree, stree := F.stree, fpos := fposAfter L F.data } := by
  unfold submit at h
  rw [if_neg (by omega)] at h
  split at h
  · simp at h
  · rename_i hh
    split at h
    · simp at h
    · split at h
      · simp at h
      · split at h
        · simp at h
        · split at h
          · simp at h
          · rename_i F hF
            refine ⟨F, hF, by omega, ?_⟩
            simp [commitStep] at h
            exact h.symm

/-- committing a block on a consistent ledger gives a consistent ledger whose hash file has no tail -/
theorem commit_inv (S : Sem β σ ε H) (L : Ledger β σ ε H) (b : β) (F : Filled β σ ε H)
    (hinv : Consistent L) (hF : fill S L b = some F) (hh : S.height b = L.height + 1) :
    Consistent ({ disk := ⟨F.blk, F.evt, F.st, fileAfter L F.data⟩, height := S.height b,
                  btree := F.btree, stree := F.stree, fpos := fposAfter L F.data } : Ledger β σ ε H) ∧
    (fileAfter L F.data).length = 32 * storedHashNum F.btree.size := by
  obtain ⟨hL, hd⟩ := hinv
  obtain ⟨h1, h2, h3, h4, h5, h6, h7⟩ := hd
  have hbt : L.btree = L.disk.st.btree := by rw [hL]; rfl
  have hst : L.stree = L.disk.st.stree := by rw [hL]; rfl
  have hht : L.height = L.disk.blk.cur := by rw [hL]; rfl
  have hfp : L.fpos = some (32 * storedHashNum L.disk.st.btree.size) := by rw [hL]; exact ledgerOf_fpos _ h6
  obtain ⟨f1, f2, f3, f4, f5, f6, f7, f8, f9, _⟩ := fill_facts S L b F hF
  rw [hbt] at f1 f2 f4
  rw [hst] at f3 f5
  have hsn := storedHashNum_succ L.disk.st.btree.size
  have hfile : fileAfter L F.data = L.disk.file.take (32 * storedHashNum L.disk.st.btree.size) ++ F.data := by
    simp only [fileAfter, hfp]
    exact writeAt_cover _ _ _ h6 (by rw [f1]; omega)
  have hlen : (fileAfter L F.data).length = 32 * storedHashNum F.btree.size := by
    rw [hfile, f2, hsn]
    simp [f1]
    omega
  refine ⟨⟨?_, ?_⟩, hlen⟩
  · have hfp' : fposAfter L F.data = some (32 * storedHashNum F.btree.size) := by
      simp only [fposAfter, hfp, f1, f2, hsn]
      congr 1
      omega
    simp only [ledgerOf, f7, f8, f9, hlen, hfp']
    simp
  · refine ⟨?_, ?_, ?_, ?_, ?_, ?_, ?_⟩
    · simp [f6, f7]
    · simp only [f8, f6, f2, hh, hht, h2, h1]
    · simp only [f9, f6, f3, hh, hht, h3, h1]
    · simp only [f8]; exact f4 h4
    · simp only [f9]; exact f5 h5
    · simp only [f8]; omega
    · simp only [f8]
      have := storedHashNum_succ F.btree.size
      omega


/-! ## crash states -/

theorem torn_then_rewrite (f : Bytes) (p : Nat) (d : Bytes) (t : Nat) (hp : p ≤ f.length) (hl : f.length ≤ p + d.length) :
    writeAt (writeAt f p (d.take t)) p d = writeAt f p d ∧
    p ≤ (writeAt f p (d.take t)).length ∧ (writeAt f p (d.take t)).length ≤ p + d.length ∧
    (writeAt f p (d.take t)).take p = f.take p := by
  have hlen := writeAt_length f p (d.take t) hp
  have ht : (d.take t).length ≤ d.length := by simp; omega
  have h1 : p ≤ (writeAt f p (d.take t)).length := by omega
  have h2 : (writeAt f p (d.take t)).length ≤ p + d.length := by omega
  refine ⟨?_, h1, h2, writeAt_prefix f p _ hp⟩
  rw [writeAt_cover _ p d h1 h2, writeAt_prefix f p _ hp, writeAt_cover f p d hp hl]

/-- the facts about a consistent ledger that the crash analysis uses -/
theorem inv_facts (L : Ledger β σ ε H) (hinv : Consistent L) :
    L.btree = L.disk.st.btree ∧ L.stree = L.disk.st.stree ∧ L.height = L.disk.blk.cur ∧
    L.fpos = some (32 * storedHashNum L.disk.st.btree.size) ∧ L = ledgerOf L.disk := by
  obtain ⟨hL, hd⟩ := hinv
  refine ⟨by rw [hL]; rfl, by rw [hL]; rfl, by rw [hL]; rfl, ?_, hL⟩
  rw [hL]; exact ledgerOf_fpos _ hd.2.2.2.2.2.1

/-- Reopening after a crash that happened once the block store had committed (with or without the event store, with any
part of the hash-file append): the replay loop re-executes exactly the committed block and arrives at the uncrashed
ledger. -/
theorem reopen_crash_replay (S : Sem β σ ε H) (lo hi arg : Nat) (hlo : lo + arg = 1) (hhi : hi + arg = 1)
    (L : Ledger β σ ε H) (b : β) (F : Filled β σ ε H)
    (hinv : Consistent L) (hF : fill S L b = some F) (hh : S.height b = L.height + 1)
    (d' : Disk β σ ε H) (t : Nat) (hst : d'.st = L.disk.st) (hblk : d'.blk = F.blk)
    (hevt : d'.evt = L.disk.evt ∨ d'.evt = F.evt) (hfile : d'.file = fileAfter L (F.data.take t)) :
    reopen S lo hi arg [1, 2] d' =
      .ok { disk := ⟨F.blk, F.evt, F.st, fileAfter L F.data⟩, height := S.height b,
            btree := F.btree, stree := F.stree, fpos := fposAfter L F.data } := by
  obtain ⟨hbt, hstr, hht, hfp, hL⟩ := inv_facts L hinv
  obtain ⟨h1, h2, h3, h4, h5, h6, h7⟩ := hinv.2
  obtain ⟨f1, f2, f3, f4, f5, f6, f7, f8, f9, f10⟩ := fill_facts S L b F hF
  rw [hbt] at f1 f2
  have hsn := storedHashNum_succ L.disk.st.btree.size
  have hF0 : fill S (ledgerOf L.disk) b = some F := by rw [← hL]; exact hF
  have hF' : fill S (ledgerOf d') b = some F := fill_after_crash S L.disk d' b F hF0 hst (Or.inr hblk) hevt
  -- the file
  have hf := torn_then_rewrite L.disk.file (32 * storedHashNum L.disk.st.btree.size) F.data t h6 (by rw [f1]; omega)
  have hfile' : d'.file = writeAt L.disk.file (32 * storedHashNum L.disk.st.btree.size) (F.data.take t) := by
    rw [hfile]; simp only [fileAfter, hfp]
  have hfp' : (ledgerOf d').fpos = some (32 * storedHashNum L.disk.st.btree.size) := by
    have := ledgerOf_fpos d' (by rw [hst, hfile']; exact hf.2.1)
    rw [hst] at this; exact this
  have hfa : fileAfter (ledgerOf d') F.data = fileAfter L F.data := by
    simp only [fileAfter, hfp', hfp]
    show writeAt d'.file _ _ = _
    rw [hfile']; exact hf.1
  have hfpa : fposAfter (ledgerOf d') F.data = fposAfter L F.data := by
    simp only [fposAfter, hfp', hfp]
  -- the loop
  unfold WF at h4 h5
  have hcnt : d'.blk.cur + hi - (d'.st.cur + lo) = 1 := by rw [hblk, hst, f7, hh, hht, h1]; omega
  have hidx : d'.st.cur + lo + arg = S.height b := by rw [hst, hh, hht, h1]; omega
  have hget : getAt (ledgerOf d').disk.blk.blocks (S.height b) = some b := by
    show getAt d'.blk.blocks _ = _
    rw [hblk]; exact f10
  unfold reopen
  rw [hst]
  simp only [h2, h3, h4, h5]
  rw [← hst, hcnt]
  simp only [List.range', replayAll, hidx, replay, hget, hF', hfa, hfpa]
  simp [commitStep, ledgerOf, hblk, f7]


/-- A crash before the block store commits leaves a consistent directory of the old height whose hash file carries a
tail (a prefix of the interrupted append) behind the committed part. -/
theorem crash_before_block (S : Sem β σ ε H) (L : Ledger β σ ε H) (b : β) (F : Filled β σ ε H)
    (hinv : Consistent L) (hF : fill S L b = some F) (t : Nat) :
    DiskOK ({ L.disk with file := fileAfter L (F.data.take t) } : Disk β σ ε H) ∧
    TailEq (ledgerOf ({ L.disk with file := fileAfter L (F.data.take t) } : Disk β σ ε H)) L := by
  obtain ⟨hbt, hstr, hht, hfp, hL⟩ := inv_facts L hinv
  obtain ⟨h1, h2, h3, h4, h5, h6, h7⟩ := hinv.2
  obtain ⟨f1, -⟩ := fill_facts S L b F hF
  rw [hbt] at f1
  have hsn := storedHashNum_succ L.disk.st.btree.size
  have hf := torn_then_rewrite L.disk.file (32 * storedHashNum L.disk.st.btree.size) F.data t h6 (by rw [f1]; omega)
  have hfile : fileAfter L (F.data.take t) = writeAt L.disk.file (32 * storedHashNum L.disk.st.btree.size) (F.data.take t) := by
    simp only [fileAfter, hfp]
  have hok : DiskOK ({ L.disk with file := fileAfter L (F.data.take t) } : Disk β σ ε H) := by
    refine ⟨h1, h2, h3, h4, h5, ?_, ?_⟩
    · show _ ≤ (fileAfter L (F.data.take t)).length
      rw [hfile]; exact hf.2.1
    · show (fileAfter L (F.data.take t)).length ≤ 32 * storedHashNum (L.disk.st.btree.size + 1)
      rw [hfile]; have := hf.2.2.1; omega
  refine ⟨hok, ?_⟩
  have hfp' := ledgerOf_fpos _ hok.2.2.2.2.2.1
  refine ⟨hht.symm, hbt.symm, hstr.symm, ?_, rfl, rfl, rfl, 32 * storedHashNum L.disk.st.btree.size, hfp, h6, ?_, ?_, ?_, ?_⟩
  · rw [hfp', hfp]
  · show _ ≤ (fileAfter L (F.data.take t)).length
    rw [hfile]; exact hf.2.1
  · show (fileAfter L (F.data.take t)).take _ = _
    rw [hfile]; exact hf.2.2.2
  · rw [hbt]; omega
  · show (fileAfter L (F.data.take t)).length ≤ _
    rw [hfile, hbt]; have := hf.2.2.1; omega

/-! ## the following blocks -/

theorem fill_tailEq (S : Sem β σ ε H) (L' L : Ledger β σ ε H) (b : β) (h : TailEq L' L) : fill S L' b = fill S L b := by
  obtain ⟨_, hb, hs, _, hblk, hevt, hst, _⟩ := h
  unfold fill
  rw [hb, hs, hblk, hevt, hst]

/-- a ledger that differs from another only behind the committed part of the hash file treats every block the same
way, and once a block is committed the difference is gone -/
theorem submit_tailEq [DecidableEq H] (S : Sem β σ ε H) (L' L : Ledger β σ ε H) (b : β) (h : TailEq L' L) :
    match submit S [0, 1, 2] L' b, submit S [0, 1, 2] L b with
    | .ok a, .ok c => Eqv a c
    | .error e', .error e => e' = e
    | _, _ => False := by
  have hfill := fill_tailEq S L' L b h
  obtain ⟨hh, hb, hs, hfp, hblk, hevt, hst, p, hp, hpl, hpl', hpre, hA, hA'⟩ := h
  unfold submit
  rw [hh, hb, hblk, hst, hfill]
  by_cases c1 : S.height b ≤ L.height
  · rw [if_pos c1, if_pos c1]
    exact Or.inr ⟨hh, hb, hs, hfp, hblk, hevt, hst, p, hp, hpl, hpl', hpre, hA, hA'⟩
  · rw [if_neg c1, if_neg c1]
    by_cases c2 : S.height b ≠ L.height + 1
    · rw [if_pos c2, if_pos c2]
    · rw [if_neg c2, if_neg c2]
      by_cases c3 : S.verify L.disk.blk.blocks L.disk.st.data b = false
      · rw [if_pos c3, if_pos c3]
      · rw [if_neg c3, if_neg c3]
        cases hr : rootWithLeaf S L.btree (S.txRoot b) with
        | none => simp
        | some r =>
          simp only
          by_cases c4 : S.height b ≠ 0 ∧ r ≠ S.hdrRoot b
          · rw [if_pos c4, if_pos c4]
          · rw [if_neg c4, if_neg c4]
            cases hf : fill S L b with
            | none => simp
            | some F =>
              simp only
              left
              obtain ⟨f1, -⟩ := fill_facts S L b F hf
              have e1 : fileAfter L' F.data = fileAfter L F.data := by
                simp only [fileAfter, hfp, hp]
                rw [writeAt_cover _ p _ hpl' (by rw [f1]; exact hA'), writeAt_cover _ p _ hpl (by rw [f1]; exact hA), hpre]
              have e2 : fposAfter L' F.data = fposAfter L F.data := by simp only [fposAfter, hfp]
              simp [commitStep, e1, e2]

theorem run_eqv [DecidableEq H] (S : Sem β σ ε H) (bs : List β) :
    ∀ (L' L : Ledger β σ ε H), Eqv L' L → Eqv (run S [0, 1, 2] L' bs) (run S [0, 1, 2] L bs) := by
  induction bs with
  | nil => intro L' L h; exact h
  | cons b bs ih =>
    intro L' L h
    rcases h with rfl | h
    · exact Or.inl rfl
    · have := submit_tailEq S L' L b h
      simp only [run]
      cases h1 : submit S [0, 1, 2] L' b <;> cases h2 : submit S [0, 1, 2] L b <;> simp only [h1, h2] at this
      · exact ih _ _ (Or.inr h)
      · exact ih _ _ this

/-! ## invariants of the uncrashed run -/

theorem submit_inv [DecidableEq H] (S : Sem β σ ε H) (L L1 : Ledger β σ ε H) (b : β) (hinv : Consistent L)
    (h : submit S [0, 1, 2] L b = .ok L1) : Consistent L1 := by
  by_cases hnew : L.height < S.height b
  · obtain ⟨F, hF, hh, rfl⟩ := submit_ok_new S L L1 b h hnew
    exact (commit_inv S L b F hinv hF hh).1
  · unfold submit at h
    rw [if_pos (by omega)] at h
    cases h
    exact hinv

theorem run_inv [DecidableEq H] (S : Sem β σ ε H) (bs : List β) :
    ∀ (L : Ledger β σ ε H), Consistent L → Consistent (run S [0, 1, 2] L bs) := by
  induction bs with
  | nil => intro L h; exact h
  | cons b bs ih =>
    intro L h
    simp only [run]
    cases h1 : submit S [0, 1, 2] L b with
    | error e => exact ih L h
    | ok L1 => exact ih L1 (submit_inv S L L1 b h h1)

/-! ## genesis -/

theorem appendHash_empty (hc : H → H → H) (leaf : H) : appendHash hc ⟨0, []⟩ leaf = some (⟨1, [leaf]⟩, [leaf]) := by
  simp [appendHash, bits, bitsAux, mergeLoop]

/-- the first-run initialisation produces a consistent ledger of height 0 -/
theorem genesis_consistent (S : Sem β σ ε H) (s0 : σ) (g : β) (L : Ledger β σ ε H)
    (h : genesis S [0, 1, 2] s0 g = some L) (hg : S.height g = 0) : Consistent L ∧ L.height = 0 := by
  unfold genesis fill at h
  simp only [emptyLedger, appendHash_empty] at h
  simp only [Option.some.injEq] at h
  subst h
  have e1 : storedHashNum 1 = 1 := by decide
  have e2 : storedHashNum 2 = 3 := by decide
  have e3 : countBit 1 = 1 := by decide
  refine ⟨⟨?_, ?_⟩, hg⟩
  · simp [ledgerOf, commitStep, fileAfter, fposAfter, writeAt, encAll, cell_length, e1, hg]
  · simp [DiskOK, WF, commitStep, fileAfter, writeAt, encAll, cell_length, e1, e2, e3, hg]

/-! ## the two shapes of a recovered ledger -/

theorem sameVerdict_refl (r : Except Err (Ledger β σ ε H)) : SameVerdict r r := by
  cases r <;> simp [SameVerdict, Eqv]

/-- recovered to the new height -/
theorem recovered_new [DecidableEq H] (S : Sem β σ ε H) (lo hi arg : Nat) (hlo : lo + arg = 1) (hhi : hi + arg = 1)
    (L L1 : Ledger β σ ε H) (hinv1 : Consistent L1) (hh : L1.height = L.height + 1) :
    Recovered S lo hi arg [1, 2] [0, 1, 2] L L1 L1 := by
  have hne : ¬ L1.height = L.height := by omega
  refine ⟨Or.inr rfl, fun h => absurd h hne, fun _ => rfl, ?_, ?_, ?_⟩
  · intro b'; rw [if_neg hne]; exact sameVerdict_refl _
  · intro bs; rw [if_neg hne]; exact Or.inl rfl
  · have := reopen_ok S lo hi arg [1, 2] L1.disk hlo hhi hinv1.2
    rw [← hinv1.1] at this; exact this

/-- recovered to the old height -/
theorem recovered_old [DecidableEq H] (S : Sem β σ ε H) (lo hi arg : Nat) (hlo : lo + arg = 1) (hhi : hi + arg = 1)
    (L L1 : Ledger β σ ε H) (d : Disk β σ ε H) (hd : DiskOK d) (ht : TailEq (ledgerOf d) L)
    (hh : L1.height = L.height + 1) :
    Recovered S lo hi arg [1, 2] [0, 1, 2] L L1 (ledgerOf d) := by
  have he : (ledgerOf d).height = L.height := ht.1
  refine ⟨Or.inl he, fun _ => ht, fun h => by omega, ?_, ?_, ?_⟩
  · intro b'; rw [if_pos he]; exact submit_tailEq S _ L b' ht
  · intro bs; rw [if_pos he]; exact run_eqv S bs _ _ (Or.inr ht)
  · exact reopen_ok S lo hi arg [1, 2] d hlo hhi hd

end OntVerif.Proofs.Recover
