import OntVerif.Model.Program
import OntVerif.Proofs.Codec
/-! Helper lemmas for C23 (signature scripts): the key order as a lexicographic rank, uniqueness of the sorted
arrangement, `ReadBytes ∘ PushBytes`, the parser loops on built scripts, totality. Core-only. -/
namespace OntVerif.Proofs.Program
open OntVerif.Util OntVerif.Model.Codec OntVerif.Model.Program OntVerif.Proofs.Codec

theorem bytesLt_iff (a b : Bytes) : bytesLt a b = true ↔ a.map (·.toNat) < b.map (·.toNat) := by
  induction a generalizing b with
  | nil => cases b <;> simp [bytesLt]
  | cons x r ih =>
    cases b with
    | nil => simp [bytesLt]
    | cons y t =>
      simp only [bytesLt, List.map_cons, List.cons_lt_cons_iff]
      by_cases h1 : x.toNat < y.toNat
      · simp [h1]
      · by_cases h2 : y.toNat < x.toNat
        · simp [h1, h2]; omega
        · have : x.toNat = y.toNat := by omega
          simp [this, ih]

theorem nil_lt_nil : ¬ (([] : List Nat) < []) := by simp

theorem less_iff (a b : Key) : less a b = true ↔ rank a < rank b := by
  unfold less rank
  cases ha : a.typ <;> cases hb : b.typ <;>
    simp [KeyType.code, List.cons_lt_cons_iff, bytesLt_iff] <;>
    (try (repeat' split) <;> omega)


/-- the comparison handed to the sort: `a` may stay before `b` -/
def kle (a b : Key) : Bool := !less b a

theorem kle_iff (a b : Key) : kle a b = true ↔ rank a ≤ rank b := by
  unfold kle
  rw [← List.not_lt, ← less_iff]
  simp

theorem kle_trans (a b c : Key) (h1 : kle a b = true) (h2 : kle b c = true) : kle a c = true := by
  rw [kle_iff] at *
  exact List.le_trans h1 h2

theorem kle_total (a b : Key) : (kle a b || kle b a) = true := by
  simp only [Bool.or_eq_true, kle_iff]
  exact List.le_total _ _

theorem sortKeys_sorted (l : List Key) : (sortKeys l).Pairwise (fun a b => kle a b = true) :=
  List.pairwise_mergeSort kle_trans kle_total l

theorem sortKeys_perm (l : List Key) : (sortKeys l).Perm l := List.mergeSort_perm l _

/-- the order is decided by `rank`: two sorted arrangements of the same keys coincide as soon as `rank` identifies keys -/
theorem sortKeys_congr (l₁ l₂ : List Key) (hp : l₁.Perm l₂)
    (hinj : ∀ a ∈ l₁, ∀ b ∈ l₁, rank a = rank b → a = b) : sortKeys l₁ = sortKeys l₂ := by
  apply List.Perm.eq_of_pairwise (le := fun a b => kle a b = true)
  · intro a b ha hb h1 h2
    rw [kle_iff] at h1 h2
    have ha' : a ∈ l₁ := (sortKeys_perm l₁).mem_iff.mp ha
    have hb' : b ∈ l₁ := hp.mem_iff.mpr ((sortKeys_perm l₂).mem_iff.mp hb)
    exact hinj a ha' b hb' (List.le_antisymm h1 h2)
  · exact sortKeys_sorted l₁
  · exact sortKeys_sorted l₂
  · exact (sortKeys_perm l₁).trans (hp.trans (sortKeys_perm l₂).symm)


/-- the serialized sequence after sorting does not depend on the input order, as soon as keys that compare equal
serialize equally -/
theorem sortKeys_ser_congr (l₁ l₂ : List Key) (hp : l₁.Perm l₂)
    (hinj : ∀ a ∈ l₁, ∀ b ∈ l₁, rank a = rank b → a.ser = b.ser) :
    (sortKeys l₁).map (·.ser) = (sortKeys l₂).map (·.ser) := by
  let p : Key → List Nat × Bytes := fun k => (rank k, k.ser)
  have key : (sortKeys l₁).map p = (sortKeys l₂).map p := by
    apply List.Perm.eq_of_pairwise (le := fun x y => x.1 ≤ y.1)
    · intro x y hx hy h1 h2
      obtain ⟨a, ha, rfl⟩ := List.mem_map.mp hx
      obtain ⟨b, hb, rfl⟩ := List.mem_map.mp hy
      have ha' : a ∈ l₁ := (sortKeys_perm l₁).mem_iff.mp ha
      have hb' : b ∈ l₁ := hp.mem_iff.mpr ((sortKeys_perm l₂).mem_iff.mp hb)
      have hr : rank a = rank b := List.le_antisymm h1 h2
      show (rank a, a.ser) = (rank b, b.ser)
      rw [hr, hinj a ha' b hb' hr]
    · rw [List.pairwise_map]
      exact (sortKeys_sorted l₁).imp (fun h => (kle_iff _ _).mp h)
    · rw [List.pairwise_map]
      exact (sortKeys_sorted l₂).imp (fun h => (kle_iff _ _).mp h)
    · exact ((sortKeys_perm l₁).trans (hp.trans (sortKeys_perm l₂).symm)).map p
  have := congrArg (List.map Prod.snd) key
  rw [List.map_map, List.map_map] at this
  exact this


/-! ## builder / parser -/

theorem nextByte_at (bs pre : Bytes) (b : UInt8) (tail : Bytes) (off : Nat) (h : bs = pre ++ b :: tail) (ho : off = pre.length) :
    nextByte ⟨bs, off⟩ = ((b, false), ⟨bs, off + 1⟩) := by
  subst h ho; exact nextByte_append pre b tail

theorem readOpCode_at (bs pre : Bytes) (b : UInt8) (tail : Bytes) (off : Nat) (h : bs = pre ++ b :: tail) (ho : off = pre.length) :
    readOpCode ⟨bs, off⟩ = .ok (b, ⟨bs, off + 1⟩) := by
  unfold readOpCode
  rw [nextByte_at bs pre b tail off h ho]
  rfl

theorem nextBytes_at (bs pre d rest : Bytes) (off : Nat) (h : bs = pre ++ d ++ rest) (ho : off = pre.length)
    (hl : bs.length < two64) : nextBytes ⟨bs, off⟩ d.length = some ((d, false), ⟨bs, off + d.length⟩) := by
  subst h ho; exact nextBytes_append pre d rest hl

theorem uintN_at (k v : Nat) (hv : v < 256 ^ k) (bs pre rest : Bytes) (off : Nat)
    (h : bs = pre ++ writeUintN k v ++ rest) (ho : off = pre.length) (hl : bs.length < two64) :
    nextUintN k ⟨bs, off⟩ = some ((v, false), ⟨bs, off + k⟩) := by
  subst h ho; exact rt_uintN k v hv pre rest hl

theorem ofNat_toNat (n : Nat) (h : n < 256) : (UInt8.ofNat n).toNat = n := toNat_ofNat_lt n h

theorem ofNat_beq (n : Nat) (h : n < 256) (c : UInt8) : (UInt8.ofNat n == c) = decide (n = c.toNat) := by
  have : (UInt8.ofNat n = c) ↔ n = c.toNat := by
    rw [← UInt8.toNat_inj, ofNat_toNat n h]
  by_cases hc : UInt8.ofNat n = c
  · simp [this.mp hc]
  · have := mt this.mpr hc
    simp [hc, this]

/-- `ReadBytes` returns what `PushBytes` pushed, wherever the push sits in a script -/
theorem readBytes_push (data p : Bytes) (hp : pushBytes data = some p) (h32 : data.length < 4294967296)
    (bs pre rest : Bytes) (off : Nat) (h : bs = pre ++ p ++ rest) (ho : off = pre.length) (hl : bs.length < two64) :
    readBytes ⟨bs, off⟩ = .ok (data, ⟨bs, off + p.length⟩) := by
  unfold pushBytes at hp
  simp only at hp
  split at hp
  · cases hp
  rename_i hn0
  split at hp
  · -- PUSHBYTESn
    rename_i h75
    injection hp with hp; subst hp
    unfold readBytes
    rw [readOpCode_at bs pre (UInt8.ofNat data.length) (data ++ rest) off (by simp [h]) ho]
    simp only [ofNat_beq _ (by omega : data.length < 256), PUSHDATA4, PUSHDATA2, PUSHDATA1, PUSHBYTES75, PUSHBYTES1,
      ofNat_toNat _ (by omega : data.length < 256)]
    have c1 : decide (data.length = (0x4E : UInt8).toNat) = false := by simp; omega
    have c2 : decide (data.length = (0x4D : UInt8).toNat) = false := by simp; omega
    have c3 : decide (data.length = (0x4C : UInt8).toNat) = false := by simp; omega
    have c4 : (decide (data.length ≤ (0x4B : UInt8).toNat) && decide (data.length ≥ (0x01 : UInt8).toNat)) = true := by
      simp; omega
    simp only [c1, c2, c3, c4, Bool.false_eq_true, if_false, if_true]
    have e : data.length - (0x01 : UInt8).toNat + 1 = data.length := by simp; omega
    rw [e, nextBytes_at bs (pre ++ [UInt8.ofNat data.length]) data rest (off + 1) (by simp [h]) (by simp [ho]) hl]
    simp; omega
  split at hp
  · -- PUSHDATA1
    rename_i h75 h256
    injection hp with hp; subst hp
    unfold readBytes
    rw [readOpCode_at bs pre PUSHDATA1 (UInt8.ofNat data.length :: data ++ rest) off (by simp [h]) ho]
    have c1 : (PUSHDATA1 == PUSHDATA4) = false := by decide
    have c2 : (PUSHDATA1 == PUSHDATA2) = false := by decide
    simp only [c1, c2, beq_self_eq_true, Bool.false_eq_true, if_false, if_true]
    rw [nextByte_at bs (pre ++ [PUSHDATA1]) (UInt8.ofNat data.length) (data ++ rest) (off + 1) (by simp [h]) (by simp [ho])]
    simp only [Bool.false_eq_true, if_false, ofNat_toNat _ (by omega : data.length < 256)]
    rw [nextBytes_at bs (pre ++ [PUSHDATA1, UInt8.ofNat data.length]) data rest (off + 1 + 1) (by simp [h]) (by simp [ho]) hl]
    simp; omega
  split at hp
  · -- PUSHDATA2
    rename_i h75 h256 h64k
    injection hp with hp; subst hp
    unfold readBytes
    rw [readOpCode_at bs pre PUSHDATA2 (writeUintN 2 data.length ++ data ++ rest) off (by simp [h]) ho]
    have c1 : (PUSHDATA2 == PUSHDATA4) = false := by decide
    simp only [c1, beq_self_eq_true, Bool.false_eq_true, if_false, if_true]
    rw [uintN_at 2 data.length (by omega) bs (pre ++ [PUSHDATA2]) (data ++ rest) (off + 1) (by simp [h]) (by simp [ho]) hl]
    simp only [Bool.false_eq_true, if_false]
    rw [nextBytes_at bs (pre ++ PUSHDATA2 :: writeUintN 2 data.length) data rest (off + 1 + 2) (by simp [h])
      (by simp [ho, writeUintN, leN_length]) hl]
    simp [writeUintN, leN_length]; omega
  · -- PUSHDATA4
    rename_i h75 h256 h64k
    injection hp with hp; subst hp
    rw [Nat.mod_eq_of_lt h32] at h ⊢
    unfold readBytes
    rw [readOpCode_at bs pre PUSHDATA4 (writeUintN 4 data.length ++ data ++ rest) off (by simp [h]) ho]
    simp only [beq_self_eq_true, if_true]
    rw [uintN_at 4 data.length (by omega) bs (pre ++ [PUSHDATA4]) (data ++ rest) (off + 1) (by simp [h]) (by simp [ho]) hl]
    simp only [Bool.false_eq_true, if_false]
    rw [nextBytes_at bs (pre ++ PUSHDATA4 :: writeUintN 4 data.length) data rest (off + 1 + 4) (by simp [h])
      (by simp [ho, writeUintN, leN_length]) hl]
    simp [writeUintN, leN_length]; omega


theorem pushBytes_shape (data p : Bytes) (hp : pushBytes data = some p) :
    ∃ c tail, p = c :: tail ∧ 1 ≤ c.toNat ∧ c.toNat ≤ 0x4E ∧ 2 ≤ p.length ∧ p.length ≤ data.length + 5 ∧ 0 < data.length := by
  unfold pushBytes at hp
  simp only at hp
  split at hp
  · cases hp
  rename_i hn0
  split at hp
  · rename_i h75
    injection hp with hp; subst hp
    exact ⟨_, _, rfl, by rw [ofNat_toNat _ (by omega)]; omega, by rw [ofNat_toNat _ (by omega)]; omega, by simp; omega, by simp, by omega⟩
  split at hp
  · injection hp with hp; subst hp
    exact ⟨_, _, rfl, by decide, by decide, by simp, by simp, by omega⟩
  split at hp
  · injection hp with hp; subst hp
    exact ⟨_, _, rfl, by decide, by decide, by simp [writeUintN, leN_length]; omega, by simp [writeUintN, leN_length]; omega, by omega⟩
  · injection hp with hp; subst hp
    exact ⟨_, _, rfl, by decide, by decide, by simp [writeUintN, leN_length]; omega, by simp [writeUintN, leN_length]; omega, by omega⟩

theorem pushAll_append (l1 l2 : List Bytes) (b : Bytes) (h : pushAll (l1 ++ l2) = some b) :
    ∃ b1 b2, pushAll l1 = some b1 ∧ pushAll l2 = some b2 ∧ b = b1 ++ b2 := by
  induction l1 generalizing b with
  | nil => exact ⟨[], b, rfl, h, rfl⟩
  | cons d r ih =>
    simp only [List.cons_append, pushAll] at h
    split at h
    · rename_i a t ha ht
      injection h with h; subst h
      obtain ⟨b1, b2, h1, h2, e⟩ := ih t ht
      exact ⟨a ++ b1, b2, by simp only [pushAll, ha, h1], h2, by simp [e]⟩
    · cases h

theorem pushAll_length (l : List Bytes) (b : Bytes) (h : pushAll l = some b) (hk : ∀ k ∈ l, k.length < 4294967296) :
    b.length ≤ l.length * 4294967301 ∧ l.length ≤ b.length := by
  induction l generalizing b with
  | nil => simp [pushAll] at h; subst h; simp
  | cons d r ih =>
    simp only [pushAll] at h
    split at h
    · rename_i a t ha ht
      injection h with h; subst h
      obtain ⟨_, _, _, _, _, h2, h5, _⟩ := pushBytes_shape d a ha
      have := ih t ht (fun k hk' => hk k (by simp [hk']))
      have := hk d (by simp)
      simp only [List.length_append, List.length_cons]
      omega
    · cases h

theorem readKeys_pushAll (canon : Bytes → Option Bytes) (ks : List Bytes) (b : Bytes) (hb : pushAll ks = some b)
    (hk : ∀ k ∈ ks, canon k = some k ∧ k.length < 4294967296)
    (bs pre rest : Bytes) (off : Nat) (h : bs = pre ++ b ++ rest) (ho : off = pre.length) (hl : bs.length < two64) :
    readKeys canon ks.length ⟨bs, off⟩ = .ok (ks, ⟨bs, off + b.length⟩) := by
  induction ks generalizing b pre off with
  | nil => simp [pushAll] at hb; subst hb; simp [readKeys]
  | cons d r ih =>
    simp only [pushAll] at hb
    split at hb
    · rename_i a t ha ht
      injection hb with hb; subst hb
      have hd := hk d (by simp)
      simp only [List.length_cons, readKeys, readPubKey]
      rw [readBytes_push d a ha hd.2 bs pre (t ++ rest) off (by simp [h]) ho hl]
      simp only [hd.1]
      rw [ih t ht (fun k hk' => hk k (by simp [hk'])) (pre ++ a) (off + a.length) (by simp [h]) (by simp [ho])]
      simp; omega
    · cases hb

theorem canonAll_id (canon : Bytes → Option Bytes) (ks : List Bytes) (hk : ∀ k ∈ ks, canon k = some k) :
    canonAll canon ks = .ok ks := by
  induction ks with
  | nil => rfl
  | cons d r ih =>
    simp only [canonAll, hk d (by simp), ih (fun k hk' => hk k (by simp [hk']))]


theorem peekOpCode_at (bs pre : Bytes) (b : UInt8) (tail : Bytes) (off : Nat) (h : bs = pre ++ b :: tail) (ho : off = pre.length) :
    peekOpCode ⟨bs, off⟩ = .ok b := by
  unfold peekOpCode
  rw [readOpCode_at bs pre b tail off h ho]

/-- the opcode `PushNum` emits for 1..16 -/
def numOp (n : Nat) : UInt8 := UInt8.ofNat (n - 1 + 0x51)

theorem pushNum_small (n : Nat) (h1 : 1 ≤ n) (h16 : n ≤ 16) : pushNum n = some [numOp n] := by
  unfold pushNum numOp
  have : ¬ n = 0 := by omega
  simp [this, h16]

theorem numOp_facts (n : Nat) (h1 : 1 ≤ n) (h16 : n ≤ 16) :
    (numOp n == PUSH0) = false ∧ (numOp n == CHECKMULTISIG) = false ∧ ((numOp n).toNat : Int) - 0x51 + 1 = (n : Int) := by
  unfold numOp
  rw [ofNat_beq _ (by omega), ofNat_beq _ (by omega), ofNat_toNat _ (by omega)]
  refine ⟨by simp [PUSH0], by simp [CHECKMULTISIG]; omega, by omega⟩

theorem readNum_op (n : Nat) (h1 : 1 ≤ n) (h16 : n ≤ 16) (bs pre tail : Bytes) (off : Nat)
    (h : bs = pre ++ numOp n :: tail) (ho : off = pre.length) :
    readNum ⟨bs, off⟩ = .ok (n, ⟨bs, off + 1⟩) := by
  obtain ⟨f1, _, f3⟩ := numOp_facts n h1 h16
  unfold readNum
  rw [peekOpCode_at bs pre (numOp n) tail off h ho]
  simp only [f1, Bool.false_eq_true, if_false, f3]
  have : (1 : Int) ≤ (n : Int) ∧ (n : Int) ≤ 16 := by omega
  simp only [this, and_self, if_true]
  rw [readOpCode_at bs pre (numOp n) tail off h ho]
  simp

/-- the `buffers` loop over the remaining key pushes, the key count and CHECKMULTISIG -/
theorem readBuffers_pushAll (ks : List Bytes) (b : Bytes) (hb : pushAll ks = some b)
    (hk : ∀ k ∈ ks, k.length < 4294967296) (n : Nat) (h1 : 1 ≤ n) (h16 : n ≤ 16)
    (bs pre rest : Bytes) (off : Nat) (h : bs = pre ++ b ++ numOp n :: CHECKMULTISIG :: rest) (ho : off = pre.length)
    (hl : bs.length < two64) (f : Nat) (hf : ks.length + 2 ≤ f) :
    readBuffers f ⟨bs, off⟩ = .ok (ks ++ [[UInt8.ofNat n]], ⟨bs, off + b.length + 2⟩) := by
  obtain ⟨f1, f2, f3⟩ := numOp_facts n h1 h16
  induction ks generalizing b pre off f with
  | nil =>
    simp [pushAll] at hb; subst hb
    match f, hf with
    | f + 2, _ =>
      unfold readBuffers
      rw [peekOpCode_at bs pre (numOp n) (CHECKMULTISIG :: rest) off (by simp [h]) ho]
      simp only [f1, f2, Bool.false_eq_true, if_false, f3]
      have : (1 : Int) ≤ (n : Int) ∧ (n : Int) ≤ 16 := by omega
      simp only [this, and_self, if_true]
      rw [readOpCode_at bs pre (numOp n) (CHECKMULTISIG :: rest) off (by simp [h]) ho]
      simp only
      unfold readBuffers
      rw [peekOpCode_at bs (pre ++ [numOp n]) CHECKMULTISIG rest (off + 1) (by simp [h]) (by simp [ho])]
      simp only [beq_self_eq_true, if_true]
      rw [readOpCode_at bs (pre ++ [numOp n]) CHECKMULTISIG rest (off + 1) (by simp [h]) (by simp [ho])]
      simp
  | cons d r ih =>
    simp only [pushAll] at hb
    split at hb
    · rename_i a t ha ht
      injection hb with hb; subst hb
      obtain ⟨c, tail, hc, c1, c2, _, _, _⟩ := pushBytes_shape d a ha
      match f, hf with
      | f + 1, hf =>
        unfold readBuffers
        rw [peekOpCode_at bs pre c (tail ++ t ++ numOp n :: CHECKMULTISIG :: rest) off (by simp [h, hc]) ho]
        have e1 : (c == CHECKMULTISIG) = false := by
          have : c ≠ CHECKMULTISIG := by
            intro hx; rw [hx] at c2; simp [CHECKMULTISIG] at c2
          simpa using this
        have e2 : (c == PUSH0) = false := by
          have : c ≠ PUSH0 := by
            intro hx; rw [hx] at c1; simp [PUSH0] at c1
          simpa using this
        have e3 : ¬ ((1 : Int) ≤ (c.toNat : Int) - 0x51 + 1 ∧ (c.toNat : Int) - 0x51 + 1 ≤ 16) := by omega
        simp only [e1, e2, Bool.false_eq_true, if_false, e3]
        rw [readBytes_push d a ha (hk d (by simp)) bs pre (t ++ numOp n :: CHECKMULTISIG :: rest) off (by simp [h]) ho hl]
        simp only
        rw [ih t ht (fun k hk' => hk k (by simp [hk'])) (pre ++ a) (off + a.length) (by simp [h]) (by simp [ho]) f
          (by simp at hf; omega)]
        simp; omega
    · cases hb


theorem pushAll_some (l : List Bytes) (h : ∀ k ∈ l, 0 < k.length) : ∃ b, pushAll l = some b := by
  induction l with
  | nil => exact ⟨[], rfl⟩
  | cons d r ih =>
    obtain ⟨t, ht⟩ := ih (fun k hk => h k (by simp [hk]))
    have hd := h d (by simp)
    have : ∃ a, pushBytes d = some a := by
      unfold pushBytes
      have : ¬ d.length = 0 := by omega
      simp only [this, if_false]
      repeat' split
      all_goals exact ⟨_, rfl⟩
    obtain ⟨a, ha⟩ := this
    exact ⟨a ++ t, by simp only [pushAll, ha, ht]⟩

theorem int64OfBig_small (n : Nat) (h : n ≤ 16) : int64OfBig (bigOfBE [UInt8.ofNat n]) = (n : Int) := by
  have e : bigOfBE [UInt8.ofNat n] = n := by
    unfold bigOfBE
    simp [fromLE, ofNat_toNat n (by omega)]
  rw [e]
  unfold int64OfBig two64 two63
  simp only [Int.natAbs_natCast]
  have : n % 18446744073709551616 = n := Nat.mod_eq_of_lt (by omega)
  rw [this]
  have h1 : ¬ n ≥ 9223372036854775808 := by omega
  have h2 : ¬ ((n : Int) < 0) := by omega
  simp [h1, h2]

/-! ## totality -/

/-- neither a Go panic nor an exhausted model budget; a success satisfies `P` -/
def PSafe {α : Type} (P : α → Prop) : PRes α → Prop
  | .ok a => P a
  | .error e => e ≠ .panic ∧ e ≠ .fuel

theorem PSafe.mono {α : Type} {P Q : α → Prop} {r : PRes α} (h : PSafe P r) (hpq : ∀ a, P a → Q a) : PSafe Q r := by
  cases r with
  | ok a => exact hpq a h
  | error e => exact h

def Fwd (s : Src) (p : Src) : Prop := Adv s p ∧ s.off < p.off

theorem readOpCode_safe (s : Src) (w : s.wf) : PSafe (fun p : UInt8 × Src => Adv s p.2 ∧ p.2.off = s.off + 1) (readOpCode s) := by
  unfold readOpCode
  generalize hnb : nextByte s = nb
  obtain ⟨⟨c, eof⟩, s1⟩ := nb
  cases eof
  · have ha := nextByte_adv s w
    rw [hnb] at ha
    unfold nextByte at hnb
    split at hnb
    · simp at hnb
    · injection hnb with _ h; subst h
      exact ⟨ha, rfl⟩
  · simp [PSafe]

theorem nextBytes_safe (s : Src) (w : s.wf) (n : Nat) (hn : n < two64) :
    ∃ d e s', nextBytes s n = some ((d, e), s') ∧ Adv s s' := by
  obtain ⟨d, e, s', h, a, _⟩ := nextBytes_total s n w hn
  exact ⟨d, e, s', h, a⟩

theorem readBytes_safe (s : Src) (w : s.wf) : PSafe (fun p : Bytes × Src => Fwd s p.2) (readBytes s) := by
  unfold readBytes
  have h0 := readOpCode_safe s w
  split
  · rename_i e he; rw [he] at h0; exact h0
  · rename_i code s1 he
    rw [he] at h0
    obtain ⟨a1, o1⟩ := h0
    replace a1 : Adv s s1 := a1
    replace o1 : s1.off = s.off + 1 := o1
    have w1 := a1.wf w
    -- the length
    have hlen : PSafe (fun p : Nat × Src => Adv s1 p.2 ∧ p.1 < two64)
        (if code == PUSHDATA4 then
          match nextUintN 4 s1 with
          | none => .error .panic
          | some ((v, eof), s2) => if eof then .error .eof else .ok (v, s2)
        else if code == PUSHDATA2 then
          match nextUintN 2 s1 with
          | none => .error .panic
          | some ((v, eof), s2) => if eof then .error .eof else .ok (v, s2)
        else if code == PUSHDATA1 then
          let ((v, eof), s2) := nextByte s1
          if eof then .error .eof else .ok (v.toNat, s2)
        else if code.toNat ≤ PUSHBYTES75.toNat && code.toNat ≥ PUSHBYTES1.toNat then
          .ok (code.toNat - PUSHBYTES1.toNat + 1, s1)
        else .error .opcode) := by
      have hu : ∀ k, k ≤ 8 → PSafe (fun p : Nat × Src => Adv s1 p.2 ∧ p.1 < two64)
          (match nextUintN k s1 with
            | none => .error .panic
            | some ((v, eof), s2) => if eof then .error .eof else .ok (v, s2)) := by
        intro k hk
        obtain ⟨d, e, s2, hb, a2, hd⟩ := nextBytes_total s1 k w1 (by unfold two64; omega)
        unfold nextUintN
        rw [hb]
        cases e
        · simp only [Bool.false_eq_true, if_false, PSafe]
          refine ⟨a2, ?_⟩
          have := fromLE_lt d
          rw [(hd rfl).1] at this
          have : 256 ^ k ≤ 256 ^ 8 := Nat.pow_le_pow_right (by omega) hk
          unfold two64; omega
        · simp [PSafe]
      split
      · exact hu 4 (by omega)
      split
      · exact hu 2 (by omega)
      split
      · generalize hnb : nextByte s1 = nb
        obtain ⟨⟨v, eof⟩, s2⟩ := nb
        have ha := nextByte_adv s1 w1
        rw [hnb] at ha
        cases eof
        · simp only [Bool.false_eq_true, if_false, PSafe]
          exact ⟨ha, by have := v.toNat_lt; unfold two64; omega⟩
        · simp [PSafe]
      split
      · simp only [PSafe]
        exact ⟨Adv.refl w1, by have := code.toNat_lt; unfold two64; omega⟩
      · simp [PSafe]
    generalize hlr : (if code == PUSHDATA4 then _ else _ : PRes (Nat × Src)) = lr at hlen
    cases lr with
    | error e => exact hlen
    | ok p =>
      obtain ⟨keylen, s2⟩ := p
      obtain ⟨a2, hk⟩ := hlen
      replace a2 : Adv s1 s2 := a2
      replace hk : keylen < two64 := hk
      simp only
      obtain ⟨d, e, s3, hb, a3⟩ := nextBytes_safe s2 (a2.wf w1) keylen hk
      rw [hb]
      cases e
      · simp only [Bool.false_eq_true, if_false, PSafe, Fwd]
        exact ⟨a1.trans (a2.trans a3), by have := a2.2.1; have := a3.2.1; omega⟩
      · simp [PSafe]


theorem readPubKey_safe (canon : Bytes → Option Bytes) (s : Src) (w : s.wf) :
    PSafe (fun p : Bytes × Src => Fwd s p.2) (readPubKey canon s) := by
  unfold readPubKey
  have h := readBytes_safe s w
  split
  · rename_i e he; rw [he] at h; exact h
  · rename_i buf s1 he
    rw [he] at h
    split
    · simp [PSafe]
    · exact h

theorem readNum_safe (s : Src) (w : s.wf) : PSafe (fun p : Nat × Src => Fwd s p.2) (readNum s) := by
  unfold readNum
  have hop := readOpCode_safe s w
  have hrb := readBytes_safe s w
  unfold peekOpCode
  cases hro : readOpCode s with
  | error e => rw [hro] at hop; exact hop
  | ok p =>
    obtain ⟨c, s1⟩ := p
    rw [hro] at hop
    have hf : Fwd s s1 := ⟨hop.1, by have := hop.2; simp only at this; omega⟩
    simp only
    split
    · exact hf
    · split
      · exact hf
      · split
        · rename_i e he; rw [he] at hrb; exact hrb
        · rename_i buff s2 he
          rw [he] at hrb
          split
          · simp [PSafe]
          · exact hrb

theorem readKeys_safe (canon : Bytes → Option Bytes) (k : Nat) (s : Src) (w : s.wf) :
    PSafe (fun p : List Bytes × Src => Adv s p.2) (readKeys canon k s) := by
  induction k generalizing s with
  | zero => exact Adv.refl w
  | succ k ih =>
    unfold readKeys
    have h := readPubKey_safe canon s w
    split
    · rename_i e he; rw [he] at h; exact h
    · rename_i key s1 he
      rw [he] at h
      have a1 : Adv s s1 := h.1
      have h2 := ih s1 (a1.wf w)
      split
      · rename_i e he2; rw [he2] at h2; exact h2
      · rename_i ks s2 he2
        rw [he2] at h2
        exact a1.trans h2

theorem rem_lt {s s1 : Src} (h : Fwd s s1) : s1.bs.length - s1.off < s.bs.length - s.off := by
  obtain ⟨⟨h1, h2, h3⟩, h4⟩ := h
  rw [h1] at h3 ⊢
  omega

theorem readBuffers_safe (f : Nat) (s : Src) (w : s.wf) (hf : s.bs.length - s.off + 1 ≤ f) :
    PSafe (fun p : List Bytes × Src => Adv s p.2) (readBuffers f s) := by
  induction f generalizing s with
  | zero => omega
  | succ f ih =>
    unfold readBuffers
    have hop := readOpCode_safe s w
    have hrb := readBytes_safe s w
    unfold peekOpCode
    cases hro : readOpCode s with
    | error e => rw [hro] at hop; exact hop
    | ok p =>
      obtain ⟨c, s1⟩ := p
      rw [hro] at hop
      have hf1 : Fwd s s1 := ⟨hop.1, by have := hop.2; simp only at this; omega⟩
      simp only
      split
      · exact hf1.1
      · -- one buffer, then the rest of the loop
        have hone : PSafe (fun p : Bytes × Src => Fwd s p.2)
            (if c == PUSH0 then (.ok ([], s1) : PRes (Bytes × Src))
             else if 1 ≤ (c.toNat : Int) - 0x51 + 1 ∧ (c.toNat : Int) - 0x51 + 1 ≤ 16 then
               .ok ([UInt8.ofNat ((c.toNat : Int) - 0x51 + 1).toNat], s1)
             else readBytes s) := by
          split
          · exact hf1
          · split
            · exact hf1
            · exact hrb
        generalize (if c == PUSH0 then (.ok ([], s1) : PRes (Bytes × Src)) else _) = one at hone
        cases one with
        | error e => exact hone
        | ok q =>
          obtain ⟨b, s2⟩ := q
          replace hone : Fwd s s2 := hone
          simp only
          have h2 := ih s2 (hone.1.wf w) (by have := rem_lt hone; omega)
          split
          · rename_i e he; rw [he] at h2; exact h2
          · rename_i bs s3 he
            rw [he] at h2
            exact hone.1.trans h2

theorem readParams_safe (f : Nat) (s : Src) (w : s.wf) (hf : s.bs.length - s.off + 1 ≤ f) :
    PSafe (fun _ : List Bytes => True) (readParams f s) := by
  induction f generalizing s with
  | zero => omega
  | succ f ih =>
    unfold readParams
    split
    · trivial
    · have hrb := readBytes_safe s w
      split
      · rename_i e he; rw [he] at hrb; exact hrb
      · rename_i sig s1 he
        rw [he] at hrb
        replace hrb : Fwd s s1 := hrb
        have h2 := ih s1 (hrb.1.wf w) (by have := rem_lt hrb; omega)
        split
        · rename_i e he2; rw [he2] at h2; exact h2
        · trivial

theorem canonAll_safe (canon : Bytes → Option Bytes) (l : List Bytes) : PSafe (fun _ : List Bytes => True) (canonAll canon l) := by
  induction l with
  | nil => trivial
  | cons b r ih =>
    unfold canonAll
    split
    · simp [PSafe]
    · split
      · rename_i e he; rw [he] at ih; exact ih
      · trivial


theorem getProgramInfo_safe (canon : Bytes → Option Bytes) (prog : Bytes) (hl : prog.length < two64) :
    PSafe (fun _ => True) (getProgramInfo canon prog) := by
  unfold getProgramInfo
  split
  · simp [PSafe]
  split
  · simp [PSafe]
  split
  · -- single key
    have w : (⟨prog.take (prog.length - 1), 0⟩ : Src).wf := ⟨Nat.zero_le _, by
      show (prog.take (prog.length - 1)).length < two64
      simp; omega⟩
    have h := readPubKey_safe canon _ w
    split
    · rename_i e he; rw [he] at h; exact h
    · split
      · simp [PSafe]
      · trivial
  split
  · -- multi
    have w : (⟨prog, 0⟩ : Src).wf := ⟨Nat.zero_le _, hl⟩
    have h1 := readNum_safe _ w
    split
    · rename_i e he; rw [he] at h1; exact h1
    rename_i m s1 he1
    rw [he1] at h1
    have a1 : Adv ⟨prog, 0⟩ s1 := h1.1
    have w1 := a1.wf w
    have h2 := readKeys_safe canon m s1 w1
    split
    · rename_i e he; rw [he] at h2; exact h2
    rename_i keys1 s2 he2
    rw [he2] at h2
    have a2 : Adv s1 s2 := h2
    have w2 := a2.wf w1
    have h3 := readBuffers_safe (s2.bs.length - s2.off + 1) s2 w2 (Nat.le_refl _)
    split
    · rename_i e he; rw [he] at h3; exact h3
    split
    · simp [PSafe]
    split
    · simp [PSafe]
    simp only
    split
    · rename_i e he
      have h4 := he ▸ canonAll_safe canon _
      exact h4
    split
    · simp [PSafe]
    split
    · simp [PSafe]
    · trivial
  · simp [PSafe]

theorem getParamInfo_safe (prog : Bytes) (hl : prog.length < two64) : PSafe (fun _ => True) (getParamInfo prog) := by
  unfold getParamInfo
  exact readParams_safe _ ⟨prog, 0⟩ ⟨Nat.zero_le _, hl⟩ (by simp)

/-- `GetParamInfo ∘ ProgramFromParams` -/
theorem readParams_pushAll (sigs : List Bytes) (b : Bytes) (hb : pushAll sigs = some b)
    (hk : ∀ k ∈ sigs, k.length < 4294967296)
    (bs pre : Bytes) (off : Nat) (h : bs = pre ++ b) (ho : off = pre.length) (hl : bs.length < two64)
    (f : Nat) (hf : sigs.length + 1 ≤ f) : readParams f ⟨bs, off⟩ = .ok sigs := by
  induction sigs generalizing b pre off f with
  | nil =>
    simp [pushAll] at hb; subst hb
    match f, hf with
    | f + 1, _ =>
      unfold readParams expectEOF
      simp [h, ho]
  | cons d r ih =>
    simp only [pushAll] at hb
    split at hb
    · rename_i a t ha ht
      injection hb with hb; subst hb
      obtain ⟨_, _, _, _, _, h2, _, _⟩ := pushBytes_shape d a ha
      match f, hf with
      | f + 1, hf =>
        unfold readParams
        have hne : expectEOF ⟨bs, off⟩ = false := by
          unfold expectEOF
          have : bs.length - off = a.length + t.length := by rw [h, ho]; simp
          rw [this]
          exact decide_eq_false (by omega)
        simp only [hne, Bool.false_eq_true, if_false]
        rw [readBytes_push d a ha (hk d (by simp)) bs pre t off (by simp [h]) ho hl]
        simp only
        rw [ih t ht (fun k hk' => hk k (by simp [hk'])) (pre ++ a) (off + a.length) (by simp [h]) (by simp [ho]) f
          (by simp at hf; omega)]
    · cases hb


end OntVerif.Proofs.Program
