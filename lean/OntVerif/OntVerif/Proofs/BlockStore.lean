import OntVerif.Model.BlockStore
/-! Helper lemmas for C40: the store invariant of the query model and its preservation by commit / restart. -/
namespace OntVerif.Proofs.BlockStore
open OntVerif.Model.BlockStore OntVerif.Gen.LedgerQuery

/-! ### association lists -/

theorem mapGet_filter (h k : Nat) (idx : List (Nat × Hash)) :
    mapGet h (idx.filter (fun e => e.1 ≠ k)) = if h = k then none else mapGet h idx := by
  induction idx with
  | nil => simp [mapGet]
  | cons e r ih =>
    obtain ⟨a, x⟩ := e
    by_cases hak : a = k
    · subst hak
      simp only [List.filter, ne_eq, not_true_eq_false, decide_false, ih, mapGet]
      by_cases hh : h = a
      · simp [hh]
      · have : ¬ a = h := fun e => hh e.symm
        simp [hh, this]
    · simp only [List.filter, ne_eq, hak, not_false_eq_true, decide_true, mapGet, ih]
      by_cases hah : a = h
      · subst hah; simp [hak]
      · simp [hah]

theorem mapGet_mapSet (h' h : Nat) (x : Hash) (idx : List (Nat × Hash)) :
    mapGet h' (mapSet h x idx) = if h' = h then some x else mapGet h' idx := by
  unfold mapSet
  simp only [mapGet, mapGet_filter]
  by_cases e : h = h'
  · subst e; simp
  · have : ¬ h' = h := fun q => e q.symm
    simp [e, this]

theorem mapGet_mapDel (h k : Nat) (idx : List (Nat × Hash)) (x : Hash) (hx : mapGet h (mapDel k idx) = some x) :
    mapGet h idx = some x := by
  unfold mapDel at hx
  rw [mapGet_filter] at hx
  by_cases e : h = k
  · simp [e] at hx
  · simpa [e] using hx

theorem evictLoop_sub (fuel size first : Nat) (idx : List (Nat × Hash)) (h : Nat) (x : Hash)
    (hx : mapGet h (evictLoop fuel size first idx).2 = some x) : mapGet h idx = some x := by
  induction fuel generalizing size first idx with
  | zero => simpa [evictLoop] using hx
  | succ n ih =>
    simp only [evictLoop] at hx
    by_cases hw : evictWhile size = true
    · simp only [hw, if_true] at hx
      exact mapGet_mapDel _ _ _ _ (ih _ _ _ hx)
    · simp only [hw, Bool.false_eq_true, if_false] at hx
      exact hx

/-- every entry of the cache after `setHeaderIndex` is the entry just set or an old one -/
theorem setHeaderIndex_get (cur h : Nat) (x : Hash) (c : Cache) (h' : Nat) (y : Hash)
    (hy : mapGet h' (setHeaderIndex cur h x c).idx = some y) : (h' = h ∧ y = x) ∨ (h' ≠ h ∧ mapGet h' c.idx = some y) := by
  have key : mapGet h' (mapSet h x c.idx) = some y := by
    unfold setHeaderIndex at hy
    by_cases g : evictGuard cur c.first = true
    · simp only [g, if_true] at hy
      exact evictLoop_sub _ _ _ _ _ _ hy
    · simp only [g, Bool.false_eq_true, if_false] at hy
      exact hy
  rw [mapGet_mapSet] at key
  by_cases e : h' = h
  · simp only [e, if_true, Option.some.injEq] at key
    exact Or.inl ⟨e, key.symm⟩
  · simp only [e, if_false] at key
    exact Or.inr ⟨e, key⟩

theorem assocGet_mem {β} (k : Hash) (l : List (Hash × β)) (v : β) (h : assocGet k l = some v) : (k, v) ∈ l := by
  induction l with
  | nil => simp [assocGet] at h
  | cons e r ih =>
    obtain ⟨q, w⟩ := e
    simp only [assocGet] at h
    by_cases e : q = k
    · simp only [e, if_true, Option.some.injEq] at h
      subst h; subst e; simp
    · simp only [e, if_false] at h
      simp [ih h]

/-! ### store writes -/

theorem saveTxs_other (P : Prims) (h : Nat) (txs : List Tx) (s : Store) :
    (saveTxs P h txs s).hdr = s.hdr ∧ (saveTxs P h txs s).hgt = s.hgt ∧ (saveTxs P h txs s).cur = s.cur := by
  induction txs generalizing s with
  | nil => simp [saveTxs]
  | cons t r ih =>
    simp only [saveTxs]
    obtain ⟨a, b, c⟩ := ih (putTx s (P.hT t) (t, h))
    exact ⟨by rw [a]; rfl, by rw [b]; rfl, by rw [c]; rfl⟩

theorem saveTxs_miss (P : Prims) (h : Nat) (txs : List Tx) (s : Store) (q : Hash) (hq : ∀ t ∈ txs, P.hT t ≠ q) :
    (saveTxs P h txs s).tx q = s.tx q := by
  induction txs generalizing s with
  | nil => simp [saveTxs]
  | cons t r ih =>
    simp only [saveTxs]
    rw [ih _ (fun t' ht' => hq t' (by simp [ht']))]
    have : q ≠ P.hT t := fun e => hq t (by simp) e.symm
    simp [putTx, this]

theorem saveTxs_hit (P : Prims) (h : Nat) (txs : List Tx) (s : Store) (t : Tx) (ht : t ∈ txs)
    (inj : ∀ t' ∈ txs, P.hT t' = P.hT t → t' = t) : (saveTxs P h txs s).tx (P.hT t) = some (t, h) := by
  induction txs generalizing s with
  | nil => simp at ht
  | cons t0 r ih =>
    simp only [saveTxs]
    by_cases hr : t ∈ r
    · exact ih _ hr (fun t' ht' => inj t' (by simp [ht']))
    · have e : t = t0 := by
        simp only [List.mem_cons] at ht
        rcases ht with e | e
        · exact e
        · exact absurd e hr
      subst e
      rw [saveTxs_miss]
      · simp [putTx]
      · intro t' ht' heq
        exact hr (inj t' (by simp [ht']) heq ▸ ht')

/-! ### the invariant -/

def HdrDistinct (P : Prims) (bs : List Block) : Prop :=
  ∀ (i j : Nat) (b b' : Block), bs[i]? = some b → bs[j]? = some b' → P.hH b.hdr = P.hH b'.hdr → i = j

/-- a transaction hash identifies one transaction of one block -/
def TxDistinct (P : Prims) (bs : List Block) : Prop :=
  ∀ (i j : Nat) (b b' : Block) (t t' : Tx), bs[i]? = some b → bs[j]? = some b' → t ∈ b.txs → t' ∈ b'.txs → P.hT t = P.hT t' → t = t' ∧ i = j

structure Good (P : Prims) (bs : List Block) : Prop where
  heights : ∀ (i : Nat) (b : Block), bs[i]? = some b → b.hdr.height = i
  hdrs : HdrDistinct P bs
  txs : TxDistinct P bs

structure Inv (P : Prims) (bs : List Block) (l : Ledger) : Prop where
  cur : ∀ b : Block, bs.getLast? = some b → l.curHeight = bs.length - 1 ∧ l.store.cur = some (bs.length - 1, P.hH b.hdr)
  hgt : ∀ (i : Nat) (b : Block), bs[i]? = some b → l.store.hgt i = some (P.hH b.hdr)
  hdr : ∀ (i : Nat) (b : Block), bs[i]? = some b → l.store.hdr (P.hH b.hdr) = some (b.hdr, b.txs.map P.hT)
  tx : ∀ (i : Nat) (b : Block), bs[i]? = some b → ∀ t ∈ b.txs, l.store.tx (P.hT t) = some (t, i)
  cache : ∀ (h : Nat) (x : Hash), mapGet h l.cache.idx = some x → ∀ b : Block, bs[h]? = some b → x = P.hH b.hdr
  blk : ∀ e ∈ l.blkCache, e.1 = P.hH e.2.hdr ∧ ∃ i : Nat, bs[i]? = some e.2
  txc : ∀ e ∈ l.txCache, e.1 = P.hT e.2.1 ∧ ∃ b : Block, bs[e.2.2]? = some b ∧ e.2.1 ∈ b.txs
  len : bs.length ≤ l.curHeight + 1

theorem inv_empty (P : Prims) : Inv P [] emptyLedger :=
  ⟨by simp, by simp, by simp, by simp, by simp [emptyLedger, mapGet], by simp [emptyLedger], by simp [emptyLedger], by simp⟩

theorem good_prefix {P : Prims} {bs : List Block} {b : Block} (g : Good P (bs ++ [b])) : Good P bs := by
  have up : ∀ i c, bs[i]? = some c → (bs ++ [b])[i]? = some c := fun i c h => by
    rw [List.getElem?_append_left (by
      rcases Nat.lt_or_ge i bs.length with h1 | h1
      · exact h1
      · rw [List.getElem?_eq_none h1] at h; cases h)]
    exact h
  exact ⟨fun i c h => g.heights i c (up i c h),
    fun i j c c' h h' e => g.hdrs i j c c' (up i c h) (up j c' h') e,
    fun i j c c' t t' h h' m m' e => g.txs i j c c' t t' (up i c h) (up j c' h') m m' e⟩

theorem txCache_fold (P : Prims) (h : Nat) (txs : List Tx) (c : List (Hash × Tx × Nat)) :
    ∀ e ∈ txs.foldl (fun c t => pushBounded txCacheSize (P.hT t, t, h) c) c, e ∈ c ∨ ∃ t ∈ txs, e = (P.hT t, t, h) := by
  induction txs generalizing c with
  | nil => intro e he; exact Or.inl he
  | cons t r ih =>
    intro e he
    simp only [List.foldl] at he
    rcases ih _ e he with h1 | ⟨t', ht', rfl⟩
    · have := List.mem_of_mem_take h1
      simp only [List.mem_cons] at this
      rcases this with rfl | h2
      · exact Or.inr ⟨t, by simp, rfl⟩
      · exact Or.inl h2
    · exact Or.inr ⟨t', by simp [ht'], rfl⟩

theorem getElem?_snoc {α} (bs : List α) (b c : α) (i : Nat) (h : (bs ++ [b])[i]? = some c) :
    (i < bs.length ∧ bs[i]? = some c) ∨ (i = bs.length ∧ c = b) := by
  rcases Nat.lt_or_ge i bs.length with h1 | h1
  · rw [List.getElem?_append_left h1] at h
    exact Or.inl ⟨h1, h⟩
  · rw [List.getElem?_append_right h1] at h
    rcases Nat.eq_or_lt_of_le h1 with e | e
    · right
      have : i - bs.length = 0 := by omega
      rw [this] at h
      simp at h
      exact ⟨e.symm, h.symm⟩
    · have : i - bs.length ≥ 1 := by omega
      rw [List.getElem?_eq_none (by simp; omega)] at h
      cases h

theorem inv_commit (P : Prims) (bs : List Block) (b : Block) (l : Ledger) (inv : Inv P bs l) (g : Good P (bs ++ [b])) :
    Inv P (bs ++ [b]) (commit P b l) := by
  have hb : b.hdr.height = bs.length := g.heights bs.length b (by simp)
  have last : (bs ++ [b])[bs.length]? = some b := by simp
  have up : ∀ i c, bs[i]? = some c → (bs ++ [b])[i]? = some c := fun i c h => by
    rw [List.getElem?_append_left (by
      rcases Nat.lt_or_ge i bs.length with h1 | h1
      · exact h1
      · rw [List.getElem?_eq_none h1] at h; cases h)]
    exact h
  obtain ⟨so1, so2, so3⟩ := saveTxs_other P b.hdr.height b.txs
    (putHdr (putHgt { l.store with cur := some (b.hdr.height, P.hH b.hdr) } b.hdr.height (P.hH b.hdr)) (P.hH b.hdr) (b.hdr, b.txs.map P.hT))
  refine ⟨?_, ?_, ?_, ?_, ?_, ?_, ?_, by simp [commit, hb]⟩
  · intro c hc
    simp at hc
    subst hc
    simp only [commit, saveBlock, List.length_append, List.length_cons, List.length_nil]
    rw [so3]
    simp [putHdr, putHgt, hb]
  · intro i c hc
    simp only [commit, saveBlock]
    rw [so2]
    rcases getElem?_snoc bs b c i hc with ⟨h1, h2⟩ | ⟨h1, h2⟩
    · have : i ≠ b.hdr.height := by omega
      simp [putHdr, putHgt, this, inv.hgt i c h2]
    · subst h2; simp [putHdr, putHgt, h1, hb]
  · intro i c hc
    simp only [commit, saveBlock]
    rw [so1]
    rcases getElem?_snoc bs b c i hc with ⟨h1, h2⟩ | ⟨h1, h2⟩
    · have ne : P.hH c.hdr ≠ P.hH b.hdr := fun e => by
        have := g.hdrs i bs.length c b hc last e
        omega
      simp [putHdr, putHgt, ne, inv.hdr i c h2]
    · subst h2; simp [putHdr]
  · intro i c hc t ht
    simp only [commit, saveBlock]
    rcases getElem?_snoc bs b c i hc with ⟨h1, h2⟩ | ⟨h1, h2⟩
    · rw [saveTxs_miss]
      · simp [putHdr, putHgt, inv.tx i c h2 t ht]
      · intro t' ht' e
        have := (g.txs bs.length i b c t' t last hc ht' ht e).2
        omega
    · subst h2
      rw [hb, ← h1]
      apply saveTxs_hit _ _ _ _ _ ht
      intro t' ht' e
      exact (g.txs bs.length bs.length c c t' t last last ht' ht e).1
  · intro h x hx c hc
    simp only [commit] at hx
    rcases setHeaderIndex_get _ _ _ _ _ _ hx with ⟨e1, e2⟩ | ⟨e1, e2⟩
    · subst e1 e2
      rw [hb, last] at hc
      cases hc; rfl
    · rcases getElem?_snoc bs b c h hc with ⟨h1, h2⟩ | ⟨h1, h2⟩
      · exact inv.cache h x e2 c h2
      · exact absurd (h1.trans hb.symm) e1
  · intro e he
    simp only [commit, pushBounded] at he
    have := List.mem_of_mem_take he
    simp only [List.mem_cons] at this
    rcases this with rfl | h2
    · exact ⟨rfl, bs.length, last⟩
    · obtain ⟨a, i, hi⟩ := inv.blk e h2
      exact ⟨a, i, up i _ hi⟩
  · intro e he
    simp only [commit] at he
    rcases txCache_fold P _ _ _ e he with h1 | ⟨t, ht, rfl⟩
    · obtain ⟨a, c, hc, m⟩ := inv.txc e h1
      exact ⟨a, c, up _ _ hc, m⟩
    · exact ⟨rfl, b, by simp [hb], ht⟩

theorem reloadLoop_get (s : Store) (cur : Nat) (n i : Nat) (c c' : Cache) (h : reloadLoop s cur n i c = some c')
    (h' : Nat) (y : Hash) (hy : mapGet h' c'.idx = some y) : mapGet h' c.idx = some y ∨ s.hgt h' = some y := by
  induction n generalizing i c with
  | zero => simp only [reloadLoop, Option.some.injEq] at h; subst h; exact Or.inl hy
  | succ n ih =>
    simp only [reloadLoop] at h
    cases hs : s.hgt i with
    | none => simp [hs] at h
    | some x =>
      simp only [hs] at h
      rcases ih _ _ h with h1 | h1
      · rcases setHeaderIndex_get _ _ _ _ _ _ h1 with ⟨e1, e2⟩ | ⟨_, e2⟩
        · subst e1 e2; exact Or.inr hs
        · exact Or.inl e2
      · exact Or.inr h1

theorem reloadLoop_total (s : Store) (cur : Nat) (n i : Nat) (c : Cache) (hh : ∀ j, i ≤ j → j < i + n → (s.hgt j).isSome) :
    (reloadLoop s cur n i c).isSome := by
  induction n generalizing i c with
  | zero => simp [reloadLoop]
  | succ n ih =>
    simp only [reloadLoop]
    have := hh i (Nat.le_refl _) (by omega)
    cases hs : s.hgt i with
    | none => simp [hs] at this
    | some x => exact ih _ _ (fun j h1 h2 => hh j (by omega) (by omega))

theorem inv_restart (P : Prims) (bs : List Block) (l l' : Ledger) (inv : Inv P bs l) (h : restart l = some l') : Inv P bs l' := by
  unfold restart at h
  cases hc : l.store.cur with
  | none => simp [hc] at h
  | some p =>
    obtain ⟨cur, x0⟩ := p
    simp only [hc] at h
    cases hr : reloadLoop l.store cur (cur + 1 - loadStart cur) (loadStart cur) ⟨[], loadStart cur, loadStart cur⟩ with
    | none => simp [hr] at h
    | some c =>
      simp only [hr, Option.some.injEq] at h
      subst h
      refine ⟨?_, inv.hgt, inv.hdr, inv.tx, ?_, by simp, by simp, ?_⟩
      rotate_left 2
      · cases hl : bs.getLast? with
        | none => simp [List.getLast?_eq_none_iff.mp hl]
        | some b =>
          obtain ⟨_, h2⟩ := inv.cur b hl
          rw [hc] at h2
          simp only [Option.some.injEq, Prod.mk.injEq] at h2
          have : 0 < bs.length := by
            cases bs with
            | nil => simp at hl
            | cons _ _ => simp
          simp only; omega
      · intro b hb
        obtain ⟨h1, h2⟩ := inv.cur b hb
        rw [hc] at h2
        simp only [Option.some.injEq, Prod.mk.injEq] at h2
        exact ⟨h2.1, by rw [hc, h2.1, h2.2]⟩
      · intro h x hx b hb
        rcases reloadLoop_get _ _ _ _ _ _ hr h x hx with h1 | h1
        · simp [mapGet] at h1
        · rw [inv.hgt h b hb] at h1
          exact (Option.some.inj h1).symm

/-- on a ledger that holds at least one block a restart succeeds -/
theorem restart_total (P : Prims) (bs : List Block) (l : Ledger) (inv : Inv P bs l) (ne : bs ≠ []) : (restart l).isSome := by
  obtain ⟨b, hb⟩ : ∃ b, bs.getLast? = some b := by
    cases h : bs.getLast? with
    | none => exact absurd (List.getLast?_eq_none_iff.mp h) ne
    | some b => exact ⟨b, rfl⟩
  obtain ⟨h1, h2⟩ := inv.cur b hb
  unfold restart
  simp only [h2]
  have tot := reloadLoop_total l.store (bs.length - 1) (bs.length - 1 + 1 - loadStart (bs.length - 1)) (loadStart (bs.length - 1))
    ⟨[], loadStart (bs.length - 1), loadStart (bs.length - 1)⟩ (by
      intro j _ hj
      have hl : 0 < bs.length := List.length_pos_iff.mpr ne
      have : j < bs.length := by omega
      rw [inv.hgt j bs[j] (by simp [this])]
      rfl)
  cases hr : reloadLoop l.store (bs.length - 1) (bs.length - 1 + 1 - loadStart (bs.length - 1)) (loadStart (bs.length - 1))
      ⟨[], loadStart (bs.length - 1), loadStart (bs.length - 1)⟩ with
  | none => rw [hr] at tot; cases tot
  | some c => simp

theorem mem_getElem? {α} (l : List α) (a : α) (h : a ∈ l) : ∃ i : Nat, l[i]? = some a := by
  obtain ⟨i, hi, e⟩ := List.getElem_of_mem h
  exact ⟨i, by simp [hi, e]⟩

theorem getTransaction_agree (P : Prims) (bs : List Block) (l : Ledger) (inv : Inv P bs l) (g : Good P bs)
    (i : Nat) (b : Block) (hb : bs[i]? = some b) (t : Tx) (ht : t ∈ b.txs) : getTransaction l (P.hT t) = some (t, i) := by
  unfold getTransaction
  cases hc : assocGet (P.hT t) l.txCache with
  | none => exact inv.tx i b hb t ht
  | some v =>
    obtain ⟨t', h'⟩ := v
    obtain ⟨e1, c, hc', m⟩ := inv.txc _ (assocGet_mem _ _ _ hc)
    simp only at e1 hc' m
    obtain ⟨e2, e3⟩ := g.txs i h' b c t t' hb hc' ht m e1
    subst e2 e3; rfl

theorem loadTxs_agree (P : Prims) (bs : List Block) (l : Ledger) (inv : Inv P bs l) (g : Good P bs)
    (i : Nat) (b : Block) (hb : bs[i]? = some b) (ts : List Tx) (hs : ∀ t ∈ ts, t ∈ b.txs) :
    loadTxs l (ts.map P.hT) = some ts := by
  induction ts with
  | nil => rfl
  | cons t r ih =>
    simp only [List.map, loadTxs]
    rw [getTransaction_agree P bs l inv g i b hb t (hs t (by simp)), ih (fun t' ht' => hs t' (by simp [ht']))]

theorem queries_agree (P : Prims) (bs : List Block) (l : Ledger) (inv : Inv P bs l) (g : Good P bs)
    (i : Nat) (b : Block) (hb : bs[i]? = some b) :
    getBlockHash l i = some (P.hH b.hdr) ∧ getBlockByHeight l i = some b ∧ getBlockByHash l (P.hH b.hdr) = some b
      ∧ getHeaderByHash l (P.hH b.hdr) = some b.hdr ∧ ∀ t ∈ b.txs, getTransaction l (P.hT t) = some (t, i) := by
  have h1 : getBlockHash l i = some (P.hH b.hdr) := by
    unfold getBlockHash
    cases hc : mapGet i l.cache.idx with
    | none => exact inv.hgt i b hb
    | some x => rw [inv.cache i x hc b hb]
  have cacheHit : ∀ b', assocGet (P.hH b.hdr) l.blkCache = some b' → b' = b := by
    intro b' hc
    obtain ⟨e1, j, hj⟩ := inv.blk _ (assocGet_mem _ _ _ hc)
    simp only at e1 hj
    have := g.hdrs i j b b' hb hj e1
    subst this
    rw [hb] at hj
    exact (Option.some.inj hj).symm
  have h3 : getBlockByHash l (P.hH b.hdr) = some b := by
    unfold getBlockByHash
    cases hc : assocGet (P.hH b.hdr) l.blkCache with
    | some b' => rw [cacheHit b' hc]
    | none =>
      simp only [inv.hdr i b hb, loadTxs_agree P bs l inv g i b hb b.txs (fun _ h => h)]
      rfl
  have h4 : getHeaderByHash l (P.hH b.hdr) = some b.hdr := by
    unfold getHeaderByHash
    cases hc : assocGet (P.hH b.hdr) l.blkCache with
    | some b' => rw [cacheHit b' hc]
    | none => simp [inv.hdr i b hb]
  refine ⟨h1, ?_, h3, h4, getTransaction_agree P bs l inv g i b hb⟩
  unfold getBlockByHeight
  rw [h1]
  exact h3

theorem good_prefix_append {P : Prims} {xs ys : List Block} (g : Good P (xs ++ ys)) : Good P xs := by
  have up : ∀ (i : Nat) (c : Block), xs[i]? = some c → (xs ++ ys)[i]? = some c := fun i c h => by
    rw [List.getElem?_append_left (by
      rcases Nat.lt_or_ge i xs.length with h1 | h1
      · exact h1
      · rw [List.getElem?_eq_none h1] at h; cases h)]
    exact h
  exact ⟨fun i c h => g.heights i c (up i c h),
    fun i j c c' h h' e => g.hdrs i j c c' (up i c h) (up j c' h') e,
    fun i j c c' t t' h h' m m' e => g.txs i j c c' t t' (up i c h) (up j c' h') m m' e⟩

theorem inv_syncHeader (P : Prims) (bs : List Block) (x : Hash) (l : Ledger) (inv : Inv P bs l) : Inv P bs (syncHeader x l) := by
  refine ⟨inv.cur, inv.hgt, inv.hdr, inv.tx, ?_, inv.blk, inv.txc, inv.len⟩
  intro h y hy b hb
  simp only [syncHeader] at hy
  rcases setHeaderIndex_get _ _ _ _ _ _ hy with ⟨e1, _⟩ | ⟨_, e2⟩
  · subst e1
    have := inv.len
    rw [List.getElem?_eq_none (by omega)] at hb
    cases hb
  · exact inv.cache h y e2 b hb

theorem inv_runOps (P : Prims) (ops : List Op) (bs : List Block) (l l' : Ledger) (inv : Inv P bs l)
    (h : runOps P ops l = some l') (g : Good P (bs ++ committed ops)) : Inv P (bs ++ committed ops) l' := by
  induction ops generalizing bs l with
  | nil =>
    simp only [runOps, Option.some.injEq] at h
    subst h
    simpa [committed] using inv
  | cons op r ih =>
    simp only [runOps] at h
    cases op with
    | commit b =>
      simp only [step] at h
      have e : bs ++ committed (Op.commit b :: r) = (bs ++ [b]) ++ committed r := by simp [committed]
      rw [e] at g ⊢
      have gp : Good P (bs ++ [b]) := good_prefix_append g
      exact ih _ _ (inv_commit P bs b l inv gp) h g
    | restart =>
      simp only [step] at h
      cases hr : restart l with
      | none => simp [hr] at h
      | some l1 =>
        simp only [hr] at h
        have e : bs ++ committed (Op.restart :: r) = bs ++ committed r := by simp [committed]
        rw [e] at g ⊢
        exact ih _ _ (inv_restart P bs l l1 inv hr) h g
    | syncHeader x =>
      simp only [step] at h
      have e : bs ++ committed (Op.syncHeader x :: r) = bs ++ committed r := by simp [committed]
      rw [e] at g ⊢
      by_cases hl : l.cache.last = l.curHeight
      · simp only [hl, if_true] at h
        exact ih _ _ (inv_syncHeader P bs x l inv) h g
      · simp [hl] at h

/-! ### the exact window of the header index cache -/

/-- the keys of the index are exactly the half-open interval `[lo, hiE)`, each once -/
structure KeysAre (idx : List (Nat × Hash)) (lo hiE : Nat) : Prop where
  keys : ∀ k, (mapGet k idx).isSome ↔ (lo ≤ k ∧ k < hiE)
  nodup : (idx.map (·.1)).Nodup
  len : idx.length + lo = hiE

theorem mapGet_isSome_iff (k : Nat) (idx : List (Nat × Hash)) : (mapGet k idx).isSome ↔ k ∈ idx.map (·.1) := by
  induction idx with
  | nil => simp [mapGet]
  | cons e r ih =>
    obtain ⟨a, x⟩ := e
    simp only [mapGet, List.map_cons, List.mem_cons]
    by_cases h : a = k
    · simp [h]
    · have : ¬ k = a := fun e => h e.symm
      simp [h, this, ih]

theorem filter_len_absent (k : Nat) (idx : List (Nat × Hash)) (h : k ∉ idx.map (·.1)) :
    idx.filter (fun e => e.1 ≠ k) = idx := by
  apply List.filter_eq_self.mpr
  intro e he
  have : e.1 ≠ k := fun q => h (by simp; exact ⟨e.2, by rw [← q]; exact he⟩)
  simpa using this

theorem filter_len_present (k : Nat) (idx : List (Nat × Hash)) (nd : (idx.map (·.1)).Nodup) (h : k ∈ idx.map (·.1)) :
    (idx.filter (fun e => e.1 ≠ k)).length + 1 = idx.length := by
  induction idx with
  | nil => simp at h
  | cons e r ih =>
    obtain ⟨a, x⟩ := e
    simp only [List.map_cons, List.nodup_cons] at nd
    by_cases hak : a = k
    · subst hak
      have : (r.filter (fun e => e.1 ≠ a)) = r := filter_len_absent a r nd.1
      have hd : List.filter (fun e => decide (e.1 ≠ a)) ((a, x) :: r) = List.filter (fun e => decide (e.1 ≠ a)) r :=
        List.filter_cons_of_neg (by simp)
      rw [hd, this]; simp
    · have hr : k ∈ r.map (·.1) := by
        simp only [List.map_cons, List.mem_cons] at h
        rcases h with e | e
        · exact absurd e.symm hak
        · exact e
      have := ih nd.2 hr
      have hd : List.filter (fun e => decide (e.1 ≠ k)) ((a, x) :: r) = (a, x) :: List.filter (fun e => decide (e.1 ≠ k)) r :=
        List.filter_cons_of_pos (by simpa using hak)
      rw [hd]; simp only [List.length_cons]; omega

theorem nodup_filter (k : Nat) (idx : List (Nat × Hash)) (nd : (idx.map (·.1)).Nodup) :
    ((idx.filter (fun e => e.1 ≠ k)).map (·.1)).Nodup :=
  List.Pairwise.sublist ((List.filter_sublist).map _) nd

theorem keysAre_del (idx : List (Nat × Hash)) (lo hiE : Nat) (ka : KeysAre idx lo hiE) (h : lo < hiE) :
    KeysAre (mapDel lo idx) (lo + 1) hiE := by
  refine ⟨?_, nodup_filter lo idx ka.nodup, ?_⟩
  · intro k
    unfold mapDel
    rw [mapGet_filter]
    by_cases e : k = lo
    · subst e; simp; omega
    · simp only [e, if_false, ka.keys k]
      omega
  · have hp : lo ∈ idx.map (·.1) := (mapGet_isSome_iff lo idx).mp ((ka.keys lo).mpr ⟨Nat.le_refl _, h⟩)
    have := filter_len_present lo idx ka.nodup hp
    have := ka.len
    unfold mapDel
    omega

/-- setting the key just above the interval extends it -/
theorem keysAre_set_new (idx : List (Nat × Hash)) (lo hiE : Nat) (x : Hash) (ka : KeysAre idx lo hiE) (h : lo ≤ hiE) :
    KeysAre (mapSet hiE x idx) lo (hiE + 1) := by
  have ab : hiE ∉ idx.map (·.1) := fun q => by
    have := (ka.keys hiE).mp ((mapGet_isSome_iff hiE idx).mpr q)
    omega
  have fe : idx.filter (fun e => e.1 ≠ hiE) = idx := filter_len_absent hiE idx ab
  refine ⟨?_, ?_, ?_⟩
  · intro k
    rw [mapGet_mapSet]
    by_cases e : k = hiE
    · subst e; simp; exact h
    · simp only [e, if_false, ka.keys k]; omega
  · unfold mapSet; rw [fe]; simp only [List.map_cons, List.nodup_cons]; exact ⟨ab, ka.nodup⟩
  · unfold mapSet; rw [fe]; simp only [List.length_cons]; have := ka.len; omega

/-- overwriting a key inside the interval keeps it -/
theorem keysAre_set_old (idx : List (Nat × Hash)) (lo hiE h : Nat) (x : Hash) (ka : KeysAre idx lo hiE) (h1 : lo ≤ h) (h2 : h < hiE) :
    KeysAre (mapSet h x idx) lo hiE := by
  have hp : h ∈ idx.map (·.1) := (mapGet_isSome_iff h idx).mp ((ka.keys h).mpr ⟨h1, h2⟩)
  refine ⟨?_, ?_, ?_⟩
  · intro k
    rw [mapGet_mapSet]
    by_cases e : k = h
    · subst e; simp; exact ⟨h1, h2⟩
    · simp only [e, if_false, ka.keys k]
  · unfold mapSet
    simp only [List.map_cons, List.nodup_cons]
    refine ⟨?_, nodup_filter h idx ka.nodup⟩
    intro q
    simp only [List.mem_map, List.mem_filter] at q
    obtain ⟨e, ⟨_, he⟩, hq⟩ := q
    simp at he
    exact he hq
  · unfold mapSet
    have := filter_len_present h idx ka.nodup hp
    have := ka.len
    simp only [List.length_cons]; omega

/-- the eviction loop removes `size - MAX` keys from the bottom -/
theorem evictLoop_spec (fuel size first hiE : Nat) (idx : List (Nat × Hash)) (ka : KeysAre idx first hiE)
    (hf : size - headerIndexMaxSize ≤ fuel) (hb : first + (size - headerIndexMaxSize) ≤ hiE) :
    (evictLoop fuel size first idx).1 = first + (size - headerIndexMaxSize)
      ∧ KeysAre (evictLoop fuel size first idx).2 (first + (size - headerIndexMaxSize)) hiE := by
  induction fuel generalizing size first idx with
  | zero =>
    have : size - headerIndexMaxSize = 0 := by omega
    rw [this, Nat.add_zero]
    exact ⟨rfl, ka⟩
  | succ n ih =>
    simp only [evictLoop, evictWhile]
    by_cases hs : size > headerIndexMaxSize
    · simp only [hs, decide_true, if_true]
      have h1 : first < hiE := by omega
      have := ih (size - 1) (first + 1) (mapDel first idx) (keysAre_del idx first hiE ka h1) (by omega) (by omega)
      have e : first + 1 + (size - 1 - headerIndexMaxSize) = first + (size - headerIndexMaxSize) := by omega
      rw [e] at this
      exact this
    · simp only [hs, decide_false, Bool.false_eq_true, if_false]
      have : size - headerIndexMaxSize = 0 := by omega
      rw [this, Nat.add_zero]
      exact ⟨rfl, ka⟩

theorem maxSize_pos : 1 ≤ headerIndexMaxSize := by decide

structure Window (c : Cache) (lo hiE : Nat) : Prop where
  first : c.first = lo
  keys : KeysAre c.idx lo hiE
  lastLe : c.last ≤ hiE
  last : lo < hiE → c.last + 1 = hiE

/-- bottom of the window after `setHeaderIndex` ran its eviction with current block height `cur` -/
def evictedLo (cur lo : Nat) : Nat := if lo < cur then lo + (cacheSize cur lo - headerIndexMaxSize) else lo

theorem evictedLo_eq_max (cur lo : Nat) : evictedLo cur lo = max lo (cur + 1 - headerIndexMaxSize) := by
  have := maxSize_pos
  unfold evictedLo cacheSize
  by_cases h : lo < cur
  · simp only [h, if_true]; omega
  · simp only [h, if_false]; omega

theorem setHeaderIndex_new (cur : Nat) (x : Hash) (c : Cache) (lo hiE : Nat) (w : Window c lo hiE) (hl : lo ≤ hiE)
    (hb : evictedLo cur lo ≤ hiE + 1) : Window (setHeaderIndex cur hiE x c) (evictedLo cur lo) (hiE + 1) := by
  have k1 := keysAre_set_new c.idx lo hiE x w.keys hl
  have hlast : (if c.last < hiE then hiE else c.last) = hiE := by
    have := w.lastLe
    by_cases q : c.last < hiE
    · simp [q]
    · simp only [q, if_false]; omega
  unfold setHeaderIndex evictedLo at *
  rw [w.first]
  by_cases g : lo < cur
  · have g' : evictGuard cur lo = true := by simp [evictGuard, g]
    simp only [g, if_true] at hb ⊢
    simp only [g', if_true]
    obtain ⟨e1, e2⟩ := evictLoop_spec (cacheSize cur lo) (cacheSize cur lo) lo (hiE + 1) _ k1 (by omega) hb
    refine ⟨e1, e2, ?_, ?_⟩
    · simp only [hlast]; omega
    · intro _; simp only [hlast]
  · have g' : evictGuard cur lo = false := by simp [evictGuard, g]
    simp only [g, if_false] at hb ⊢
    simp only [g', Bool.false_eq_true, if_false]
    refine ⟨rfl, k1, ?_, ?_⟩
    · simp only [hlast]; omega
    · intro _; simp only [hlast]

theorem setHeaderIndex_old (cur h : Nat) (x : Hash) (c : Cache) (lo hiE : Nat) (w : Window c lo hiE) (h1 : lo ≤ h) (h2 : h < hiE)
    (hb : evictedLo cur lo ≤ hiE) : Window (setHeaderIndex cur h x c) (evictedLo cur lo) hiE := by
  have k1 := keysAre_set_old c.idx lo hiE h x w.keys h1 h2
  have hlast : (if c.last < h then h else c.last) = c.last := by
    have := w.last (by omega)
    have q : ¬ c.last < h := by omega
    simp [q]
  unfold setHeaderIndex evictedLo at *
  rw [w.first]
  by_cases g : lo < cur
  · have g' : evictGuard cur lo = true := by simp [evictGuard, g]
    simp only [g, if_true] at hb ⊢
    simp only [g', if_true]
    obtain ⟨e1, e2⟩ := evictLoop_spec (cacheSize cur lo) (cacheSize cur lo) lo hiE _ k1 (by omega) hb
    refine ⟨e1, e2, ?_, ?_⟩
    · simp only [hlast]; exact w.lastLe
    · intro _; simp only [hlast]; exact w.last (by omega)
  · have g' : evictGuard cur lo = false := by simp [evictGuard, g]
    simp only [g, if_false] at hb ⊢
    simp only [g', Bool.false_eq_true, if_false]
    refine ⟨rfl, k1, ?_, ?_⟩
    · simp only [hlast]; exact w.lastLe
    · intro q; simp only [hlast]; exact w.last q

/-- window of a ledger that holds at least one block: `[lo, hiE)` with `hiE` = current height + 1, or + 2 when one header is ahead -/
structure LWin (l : Ledger) (lo hiE : Nat) : Prop where
  win : Window l.cache lo hiE
  lo_le : lo ≤ l.curHeight
  hi : hiE = l.curHeight + 1 ∨ hiE = l.curHeight + 2

theorem evictedLo_le (cur lo : Nat) (h : lo ≤ cur) : evictedLo cur lo ≤ cur := by
  have := maxSize_pos
  rw [evictedLo_eq_max]; omega

theorem lwin_commit (P : Prims) (b : Block) (l : Ledger) (lo hiE : Nat) (w : LWin l lo hiE) (hb : b.hdr.height = l.curHeight + 1) :
    LWin (commit P b l) (evictedLo l.curHeight lo) (l.curHeight + 2) := by
  have hle := evictedLo_le l.curHeight lo w.lo_le
  rcases w.hi with e | e
  · subst e
    refine ⟨?_, by simp [commit, hb]; omega, Or.inl (by simp [commit, hb])⟩
    simp only [commit, hb]
    exact setHeaderIndex_new l.curHeight _ l.cache lo (l.curHeight + 1) w.win (by have := w.lo_le; omega) (by omega)
  · subst e
    refine ⟨?_, by simp [commit, hb]; omega, Or.inl (by simp [commit, hb])⟩
    simp only [commit, hb]
    exact setHeaderIndex_old l.curHeight (l.curHeight + 1) _ l.cache lo (l.curHeight + 2) w.win (by have := w.lo_le; omega) (by omega) (by omega)

theorem lwin_sync (x : Hash) (l : Ledger) (lo hiE : Nat) (w : LWin l lo hiE) (hl : l.cache.last = l.curHeight) :
    LWin (syncHeader x l) (evictedLo l.curHeight lo) (l.curHeight + 2) := by
  have hle := evictedLo_le l.curHeight lo w.lo_le
  have e : hiE = l.curHeight + 1 := by
    rcases w.hi with e | e
    · exact e
    · have h1 := w.lo_le
      have := w.win.last (by omega); omega
  subst e
  refine ⟨?_, by simp [syncHeader]; omega, Or.inr (by simp [syncHeader])⟩
  simp only [syncHeader]
  exact setHeaderIndex_new l.curHeight x l.cache lo (l.curHeight + 1) w.win (by have := w.lo_le; omega) (by omega)

theorem cacheSize_loadStart (cur : Nat) : cacheSize cur (loadStart cur) - headerIndexMaxSize = 0 := by
  have := maxSize_pos
  unfold cacheSize loadStart
  by_cases h : cur + 1 > headerIndexMaxSize
  · simp only [h, if_true]; omega
  · simp only [h, if_false]; omega

theorem reloadLoop_window (s : Store) (cur n i : Nat) (c c' : Cache) (w : Window c (loadStart cur) i) (hi : loadStart cur ≤ i)
    (h : reloadLoop s cur n i c = some c') : Window c' (loadStart cur) (i + n) := by
  induction n generalizing i c with
  | zero => simp only [reloadLoop, Option.some.injEq] at h; subst h; simpa using w
  | succ n ih =>
    simp only [reloadLoop] at h
    cases hs : s.hgt i with
    | none => simp [hs] at h
    | some x =>
      simp only [hs] at h
      have e : evictedLo cur (loadStart cur) = loadStart cur := by
        unfold evictedLo; rw [cacheSize_loadStart]; simp
      have w1 := setHeaderIndex_new cur x c (loadStart cur) i w hi (by rw [e]; omega)
      rw [e] at w1
      have := ih (i + 1) _ w1 (by omega) h
      rw [Nat.add_assoc, Nat.add_comm 1 n] at this
      exact this

theorem loadStart_le (cur : Nat) : loadStart cur ≤ cur := by
  have := maxSize_pos
  unfold loadStart
  by_cases h : cur + 1 > headerIndexMaxSize
  · simp only [h, if_true]; omega
  · simp only [h, if_false]; omega

theorem lwin_restart (l l' : Ledger) (cur : Nat) (x0 : Hash) (hc : l.store.cur = some (cur, x0)) (h : restart l = some l') :
    LWin l' (loadStart cur) (cur + 1) ∧ l'.curHeight = cur := by
  unfold restart at h
  simp only [hc] at h
  cases hr : reloadLoop l.store cur (cur + 1 - loadStart cur) (loadStart cur) ⟨[], loadStart cur, loadStart cur⟩ with
  | none => simp [hr] at h
  | some c =>
    simp only [hr, Option.some.injEq] at h
    subst h
    have w0 : Window (⟨[], loadStart cur, loadStart cur⟩ : Cache) (loadStart cur) (loadStart cur) :=
      ⟨rfl, ⟨fun k => ⟨fun q => by simp [mapGet] at q, fun ⟨a, b⟩ => by omega⟩, by simp, by simp⟩, Nat.le_refl _, fun q => absurd q (Nat.lt_irrefl _)⟩
    have w := reloadLoop_window l.store cur _ _ _ c w0 (Nat.le_refl _) hr
    have hl := loadStart_le cur
    have e : loadStart cur + (cur + 1 - loadStart cur) = cur + 1 := by omega
    rw [e] at w
    exact ⟨⟨w, hl, Or.inl rfl⟩, rfl⟩

/-- the specification of the window: bottom and (exclusive) top after each operation, by plain arithmetic -/
def specStep : Nat × Nat × Nat → Op → Option (Nat × Nat × Nat)
  | (cur, lo, _), .commit _ => some (cur + 1, max lo (cur + 1 - headerIndexMaxSize), cur + 2)
  | (cur, _, _), .restart => some (cur, loadStart cur, cur + 1)
  | (cur, lo, hiE), .syncHeader _ => if hiE = cur + 1 then some (cur, max lo (cur + 1 - headerIndexMaxSize), cur + 2) else none

def specRun : List Op → Nat × Nat × Nat → Option (Nat × Nat × Nat)
  | [], st => some st
  | op :: r, st => match specStep st op with
    | none => none
    | some st' => specRun r st'

theorem window_runOps (P : Prims) (ops : List Op) (bs : List Block) (l l' : Ledger) (lo hiE : Nat) (inv : Inv P bs l) (ne : bs ≠ [])
    (w : LWin l lo hiE) (h : runOps P ops l = some l') (g : Good P (bs ++ committed ops)) :
    ∃ lo' hiE', specRun ops (l.curHeight, lo, hiE) = some (l'.curHeight, lo', hiE') ∧ LWin l' lo' hiE' := by
  induction ops generalizing bs l lo hiE with
  | nil =>
    simp only [runOps, Option.some.injEq] at h
    subst h
    exact ⟨lo, hiE, rfl, w⟩
  | cons op r ih =>
    obtain ⟨bl, hbl⟩ : ∃ b, bs.getLast? = some b := by
      cases hq : bs.getLast? with
      | none => exact absurd (List.getLast?_eq_none_iff.mp hq) ne
      | some b => exact ⟨b, rfl⟩
    obtain ⟨hcur, hstore⟩ := inv.cur bl hbl
    have hpos : 0 < bs.length := List.length_pos_iff.mpr ne
    simp only [runOps] at h
    cases op with
    | commit b =>
      simp only [step] at h
      have e : bs ++ committed (Op.commit b :: r) = (bs ++ [b]) ++ committed r := by simp [committed]
      rw [e] at g
      have gp : Good P (bs ++ [b]) := good_prefix_append g
      have hb : b.hdr.height = l.curHeight + 1 := by
        have := gp.heights bs.length b (by simp)
        omega
      have w1 := lwin_commit P b l lo hiE w hb
      obtain ⟨lo', hiE', h1, h2⟩ := ih (bs ++ [b]) (commit P b l) _ _ (inv_commit P bs b l inv gp) (by simp) w1 h g
      refine ⟨lo', hiE', ?_, h2⟩
      simp only [specRun, specStep]
      have : (commit P b l).curHeight = l.curHeight + 1 := by simp [commit, hb]
      rw [this, evictedLo_eq_max] at h1
      exact h1
    | restart =>
      simp only [step] at h
      cases hr : restart l with
      | none => simp [hr] at h
      | some l1 =>
        simp only [hr] at h
        have e : bs ++ committed (Op.restart :: r) = bs ++ committed r := by simp [committed]
        rw [e] at g
        obtain ⟨w1, hc1⟩ := lwin_restart l l1 _ _ hstore hr
        obtain ⟨lo', hiE', h1, h2⟩ := ih bs l1 _ _ (inv_restart P bs l l1 inv hr) ne w1 h g
        refine ⟨lo', hiE', ?_, h2⟩
        simp only [specRun, specStep]
        rw [hc1, ← hcur] at h1
        exact h1
    | syncHeader x =>
      simp only [step] at h
      have e : bs ++ committed (Op.syncHeader x :: r) = bs ++ committed r := by simp [committed]
      rw [e] at g
      by_cases hl : l.cache.last = l.curHeight
      · simp only [hl, if_true] at h
        have w1 := lwin_sync x l lo hiE w hl
        have ehi : hiE = l.curHeight + 1 := by
          rcases w.hi with q | q
          · exact q
          · have h1 := w.lo_le
            have := w.win.last (by omega); omega
        obtain ⟨lo', hiE', h1, h2⟩ := ih bs (syncHeader x l) _ _ (inv_syncHeader P bs x l inv) ne w1 h g
        refine ⟨lo', hiE', ?_, h2⟩
        simp only [specRun, specStep, ehi, if_true]
        have : (syncHeader x l).curHeight = l.curHeight := rfl
        rw [this, evictedLo_eq_max] at h1
        exact h1
      · simp [hl] at h

theorem lwin_genesis (P : Prims) (b0 : Block) (h0 : b0.hdr.height = 0) : LWin (commit P b0 emptyLedger) 0 1 := by
  have w0 : Window emptyLedger.cache 0 0 :=
    ⟨rfl, ⟨fun k => ⟨fun q => by simp [emptyLedger, mapGet] at q, fun ⟨a, b⟩ => by omega⟩, by simp [emptyLedger], by simp [emptyLedger]⟩,
      by simp [emptyLedger], fun q => absurd q (Nat.lt_irrefl _)⟩
  have e : evictedLo 0 0 = 0 := by simp [evictedLo]
  have w := setHeaderIndex_new 0 (P.hH b0.hdr) emptyLedger.cache 0 0 w0 (Nat.le_refl _) (by rw [e]; omega)
  rw [e] at w
  refine ⟨?_, by simp, Or.inl (by simp [commit, h0])⟩
  simpa [commit, h0, emptyLedger] using w

def Op.isCommit : Op → Bool
  | .commit _ => true
  | _ => false

attribute [local irreducible] OntVerif.Gen.LedgerQuery.headerIndexMaxSize in
theorem specRun_commits_step (b : Block) (r : List Op) (cur lo hiE : Nat) :
    specRun (Op.commit b :: r) (cur, lo, hiE) = specRun r (cur + 1, max lo (cur + 1 - headerIndexMaxSize), cur + 2) := rfl

theorem specRun_append (a b : List Op) (st : Nat × Nat × Nat) :
    specRun (a ++ b) st = match specRun a st with | none => none | some st' => specRun b st' := by
  induction a generalizing st with
  | nil => rfl
  | cons op r ih =>
    simp only [List.cons_append, specRun]
    cases specStep st op with
    | none => rfl
    | some st' => exact ih st'

theorem specRun_commits (ops : List Op) (hc : ∀ op ∈ ops, Op.isCommit op = true) (cur : Nat) :
    specRun ops (cur, cur - headerIndexMaxSize, cur + 1)
      = some (cur + ops.length, cur + ops.length - headerIndexMaxSize, cur + ops.length + 1) := by
  induction ops generalizing cur with
  | nil => rfl
  | cons op r ih =>
    cases op with
    | commit b =>
      rw [specRun_commits_step]
      have e : max (cur - headerIndexMaxSize) (cur + 1 - headerIndexMaxSize) = cur + 1 - headerIndexMaxSize := by omega
      rw [e, ih (fun o ho => hc o (by simp [ho])) (cur + 1)]
      simp only [List.length_cons]
      have e2 : cur + 1 + r.length = cur + (r.length + 1) := by omega
      rw [e2]
    | restart => have := hc .restart (by simp); simp [Op.isCommit] at this
    | syncHeader x => have := hc (.syncHeader x) (by simp); simp [Op.isCommit] at this

end OntVerif.Proofs.BlockStore
