import OntVerif.Proofs.MerkleF
namespace OntVerif.Proofs.Merkle
open OntVerif.Util OntVerif.Model.Merkle

section
variable {Hash : Type} (H1 : Hash → Hash → Hash)

/-! ## fuel-free versions of the three loops of `VerifyConsistency` -/

def stripW (node last : Nat) : Nat × Nat :=
  if node % 2 = 1 then stripW (node / 2) (last / 2) else (node, last)
termination_by node
decreasing_by omega

theorem stripOnes_eq (f : Nat) : ∀ node last, node < f → stripOnes f node last = stripW node last := by
  induction f with
  | zero => intro node last h; omega
  | succ f ih =>
    intro node last h
    rw [stripW.eq_def]
    simp only [stripOnes]
    by_cases ho : node % 2 = 1
    · rw [if_pos ho, if_pos ho]; exact ih _ _ (by omega)
    · rw [if_neg ho, if_neg ho]

def tailW (last : Nat) (n : Hash) (path : List Hash) : Except VErr (Hash × List Hash) :=
  if _h : last = 0 then .ok (n, path) else
  match path with
  | [] => .error .short
  | p :: rest => tailW (last / 2) (H1 n p) rest
termination_by last
decreasing_by omega

theorem consVTail_eq (f : Nat) : ∀ last (n : Hash) path, last < f → consVTail H1 f last n path = tailW H1 last n path := by
  induction f with
  | zero => intro last n path h; omega
  | succ f ih =>
    intro last n path h
    rw [tailW.eq_def]
    simp only [consVTail]
    by_cases hl : last = 0
    · simp [hl]
    · simp only [hl, if_false, dite_false]
      cases path with
      | nil => rfl
      | cons p rest => exact ih _ _ _ (by omega)

def loopW (node last : Nat) (o n : Hash) (path : List Hash) : Except VErr (Nat × Hash × Hash × List Hash) :=
  if _h : node = 0 then .ok (last, o, n, path) else
  if node % 2 = 1 then
    match path with
    | [] => .error .short
    | p :: rest => loopW (node / 2) (last / 2) (H1 p o) (H1 p n) rest
  else if node < last then
    match path with
    | [] => .error .short
    | p :: rest => loopW (node / 2) (last / 2) o (H1 n p) rest
  else loopW (node / 2) (last / 2) o n path
termination_by node
decreasing_by all_goals omega

theorem consVLoop_eq (f : Nat) : ∀ node last (o n : Hash) path, node < f →
    consVLoop H1 f node last o n path = loopW H1 node last o n path := by
  induction f with
  | zero => intro node last o n path h; omega
  | succ f ih =>
    intro node last o n path h
    rw [loopW.eq_def]
    simp only [consVLoop]
    by_cases hn : node = 0
    · simp [hn]
    · simp only [hn, if_false, dite_false]
      by_cases ho : node % 2 = 1
      · rw [if_pos ho, if_pos ho]
        cases path with
        | nil => rfl
        | cons p rest => exact ih _ _ _ _ _ (by omega)
      · rw [if_neg ho, if_neg ho]
        by_cases hlt : node < last
        · rw [if_pos hlt, if_pos hlt]
          cases path with
          | nil => rfl
          | cons p rest => exact ih _ _ _ _ _ (by omega)
        · rw [if_neg hlt, if_neg hlt]; exact ih _ _ _ _ _ (by omega)

theorem loopW_last_le (node : Nat) : ∀ last (o n : Hash) path l' o' n' path',
    loopW H1 node last o n path = .ok (l', o', n', path') → l' ≤ last := by
  induction node using Nat.strongRecOn with
  | _ node ih =>
    intro last o n path l' o' n' path' h
    rw [loopW.eq_def] at h
    by_cases hn : node = 0
    · simp [hn] at h; omega
    · simp only [hn, dite_false] at h
      by_cases ho : node % 2 = 1
      · rw [if_pos ho] at h
        cases path with
        | nil => cases h
        | cons p rest => have := ih (node / 2) (by omega) _ _ _ _ _ _ _ _ h; omega
      · rw [if_neg ho] at h
        by_cases hlt : node < last
        · rw [if_pos hlt] at h
          cases path with
          | nil => cases h
          | cons p rest => have := ih (node / 2) (by omega) _ _ _ _ _ _ _ _ h; omega
        · rw [if_neg hlt] at h
          have := ih (node / 2) (by omega) _ _ _ _ _ _ _ _ h; omega

theorem loopW_zero (last : Nat) (o n : Hash) (path : List Hash) : loopW H1 0 last o n path = .ok (last, o, n, path) := by
  rw [loopW.eq_def]; simp

/-- main loop then tail loop -/
def runW (node last : Nat) (o n : Hash) (path : List Hash) : Except VErr (Hash × Hash × List Hash) :=
  match loopW H1 node last o n path with
  | .error e => .error e
  | .ok (last', o', n', path') =>
    match tailW H1 last' n' path' with
    | .error e => .error e
    | .ok (n'', path'') => .ok (o', n'', path'')

theorem consVRun_eq (f node last : Nat) (o n : Hash) (path : List Hash) (h1 : node < f) (h2 : last < f) :
    consVRun H1 f node last o n path = runW H1 node last o n path := by
  unfold consVRun runW
  rw [consVLoop_eq H1 f node last o n path h1]
  cases h : loopW H1 node last o n path with
  | error e => rfl
  | ok r =>
    obtain ⟨l', o', n', path'⟩ := r
    have := loopW_last_le H1 node last o n path l' o' n' path' h
    simp only
    rw [consVTail_eq H1 f l' n' path' (by omega)]
    cases tailW H1 l' n' path' <;> rfl

/-! unfolding equations of `runW` -/

theorem runW_zero_zero (o n : Hash) (path : List Hash) : runW H1 0 0 o n path = .ok (o, n, path) := by
  unfold runW; rw [loopW.eq_def]; simp; rw [tailW.eq_def]; simp

theorem runW_zero_nil (last : Nat) (o n : Hash) (hl : last ≠ 0) : runW H1 0 last o n [] = .error .short := by
  unfold runW; rw [loopW.eq_def]; simp; rw [tailW.eq_def]; simp [hl]

theorem runW_zero_cons (last : Nat) (o n p : Hash) (rest : List Hash) (hl : last ≠ 0) :
    runW H1 0 last o n (p :: rest) = runW H1 0 (last / 2) o (H1 n p) rest := by
  unfold runW
  rw [loopW_zero, loopW_zero]
  simp only
  rw [tailW.eq_def]; simp [hl]

theorem runW_nil (node last : Nat) (o n : Hash) (hn : node ≠ 0) (hc : node % 2 = 1 ∨ node < last) :
    runW H1 node last o n [] = .error .short := by
  unfold runW; rw [loopW.eq_def]
  simp only [hn, dite_false]
  by_cases ho : node % 2 = 1
  · simp [ho]
  · have hlt : node < last := by omega
    simp [ho, hlt]

theorem runW_odd (node last : Nat) (o n p : Hash) (rest : List Hash) (ho : node % 2 = 1) :
    runW H1 node last o n (p :: rest) = runW H1 (node / 2) (last / 2) (H1 p o) (H1 p n) rest := by
  unfold runW; rw [loopW.eq_def]
  simp [show node ≠ 0 by omega, ho]

theorem runW_even_lt (node last : Nat) (o n p : Hash) (rest : List Hash) (hn : node ≠ 0) (ho : node % 2 = 0)
    (hlt : node < last) :
    runW H1 node last o n (p :: rest) = runW H1 (node / 2) (last / 2) o (H1 n p) rest := by
  unfold runW; rw [loopW.eq_def]
  simp [hn, show ¬ node % 2 = 1 by omega, hlt]

theorem runW_skip (node last : Nat) (o n : Hash) (path : List Hash) (hn : node ≠ 0) (ho : node % 2 = 0)
    (hlt : ¬ node < last) :
    runW H1 node last o n path = runW H1 (node / 2) (last / 2) o n path := by
  unfold runW; rw [loopW.eq_def]
  simp [hn, show ¬ node % 2 = 1 by omega, hlt]

end
end OntVerif.Proofs.Merkle
