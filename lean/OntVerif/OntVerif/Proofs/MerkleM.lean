import OntVerif.Proofs.MerkleL
namespace OntVerif.Proofs.Merkle
open OntVerif.Util OntVerif.Model.Merkle

section
variable {Hash : Type} (H1 : Hash → Hash → Hash) (He : Hash)

/-- loop of `subproof` followed by the final read (`if !b { … }`), before the reversal -/
def consFull (store : List Hash) (f m n : Nat) (b : Bool) (offset : Nat) (acc : List Hash) : Option (List Hash) :=
  match consLoop H1 store f m n b offset acc with
  | none => none
  | some (acc', n', offset', b') =>
    if b' then some acc'
    else
      match getSubTreePos n' with
      | [p] =>
        match getHash store (p + offset' - 1) with
        | none => none
        | some h => some (acc' ++ [h])
      | _ => none

theorem subproof_eq (store : List Hash) (m n : Nat) (b : Bool) :
    subproof H1 store m n b = (consFull H1 store (n + 1) m n b 0 []).map List.reverse := by
  unfold subproof consFull
  cases consLoop H1 store (n + 1) m n b 0 [] with
  | none => rfl
  | some r =>
    obtain ⟨acc, n', off, b'⟩ := r
    simp only
    cases b' with
    | true => simp
    | false =>
      simp only [Bool.false_eq_true, if_false]
      cases getSubTreePos n' with
      | nil => simp
      | cons p r =>
        cases r with
        | nil => simp only []; cases hg : getHash store (p + off - 1) <;> simp
        | cons q r' => simp

theorem getSubTreePos_pow (x : Nat) : getSubTreePos (2 ^ x) = [2 * 2 ^ x - 1] := by
  have hp := Nat.two_pow_pos x
  rw [getSubTreePos_high x (2 ^ x) (Nat.le_refl _) (by rw [pow_succ2]; omega), Nat.sub_self, getSubTreePos_zero]
  rfl

theorem consFull_spec (n : Nat) : ∀ (D pre suf : List Hash) (m : Nat) (b : Bool) (offset : Nat) (acc : List Hash) (f : Nat),
    D.length = n → 1 ≤ m → m ≤ n → (m < n ∨ b = true ∨ ∃ x, n = 2 ^ x) → pre.length = offset → n < f →
    consFull H1 (pre ++ lay H1 He D ++ suf) f m n b offset acc =
      some (acc ++ (subproofSpec H1 He (!b) m D).reverse) := by
  induction n using Nat.strongRecOn with
  | _ n ih =>
    intro D pre suf m b offset acc f hD h1 hmn hpre2 hpre hf
    obtain ⟨f, rfl⟩ : ∃ f', f = f' + 1 := ⟨f - 1, by omega⟩
    subst hD
    by_cases hlt : m < D.length
    · have h2 : 2 ≤ D.length := by omega
      have hk := splitK_lt h2
      have hp := splitK_pos D.length
      obtain ⟨ext, hsplit⟩ := lay_split H1 He D h2
      obtain ⟨front, hfront, hfl⟩ := lay_left H1 He D h2
      have hll : (lay H1 He (D.take (splitK D.length))).length = 2 * splitK D.length - 1 := by
        rw [hfront, List.length_append, hfl]; simp; omega
      have hstore : pre ++ lay H1 He D ++ suf =
          (pre ++ lay H1 He (D.take (splitK D.length))) ++ lay H1 He (D.drop (splitK D.length)) ++ (ext ++ suf) := by
        rw [hsplit]; simp
      by_cases hle : m ≤ splitK D.length
      · have hread := readFold_spec H1 He (D.length - splitK D.length) (D.drop (splitK D.length))
          (pre ++ lay H1 He (D.take (splitK D.length))) (ext ++ suf) (offset + splitK D.length * 2 - 1)
          (by rw [List.length_drop]) (by omega) (by rw [List.length_append, hll]; omega)
        rw [← hstore] at hread
        have hstep : consFull H1 (pre ++ lay H1 He D ++ suf) (f + 1) m D.length b offset acc =
            consFull H1 (pre ++ lay H1 He D ++ suf) f m (splitK D.length) b offset (acc ++ [mth H1 He (D.drop (splitK D.length))]) := by
          unfold consFull
          simp only [consLoop, hlt, not_true_eq_false, if_false, hle, if_true, hread]
        rw [hstep]
        have hstore2 : pre ++ lay H1 He D ++ suf =
            pre ++ lay H1 He (D.take (splitK D.length)) ++ (lay H1 He (D.drop (splitK D.length)) ++ ext ++ suf) := by
          rw [hsplit]; simp
        obtain ⟨x, hkx, _, _⟩ := splitK_spec (n := D.length) h2
        rw [hstore2, ih (splitK D.length) hk (D.take (splitK D.length)) pre _ m b offset _ f
          (by rw [List.length_take]; omega) h1 hle (Or.inr (Or.inr ⟨x, hkx⟩)) hpre (by omega),
          subproofSpec_left H1 He (!b) m D h1 hlt hle]
        simp
      · have hget : getHash (pre ++ lay H1 He D ++ suf) (offset + (splitK D.length * 2 - 1) - 1) =
            some (mth H1 He (D.take (splitK D.length))) := by
          unfold getHash
          rw [hsplit, hfront]
          have e : pre ++ (front ++ [mth H1 He (D.take (splitK D.length))] ++ lay H1 He (D.drop (splitK D.length)) ++ ext) ++ suf =
              (pre ++ front) ++ (mth H1 He (D.take (splitK D.length)) :: (lay H1 He (D.drop (splitK D.length)) ++ ext ++ suf)) := by
            simp
          rw [e, List.getElem?_append_right (by rw [List.length_append]; omega)]
          rw [show offset + (splitK D.length * 2 - 1) - 1 - (pre ++ front).length = 0 by rw [List.length_append]; omega]
          rfl
        have hstep : consFull H1 (pre ++ lay H1 He D ++ suf) (f + 1) m D.length b offset acc =
            consFull H1 (pre ++ lay H1 He D ++ suf) f (m - splitK D.length) (D.length - splitK D.length) false
              (offset + (splitK D.length * 2 - 1)) (acc ++ [mth H1 He (D.take (splitK D.length))]) := by
          unfold consFull
          simp only [consLoop, hlt, not_true_eq_false, if_false, hle, hget]
        rw [hstep, hstore, ih (D.length - splitK D.length) (by omega) (D.drop (splitK D.length)) _ _ (m - splitK D.length)
          false (offset + (splitK D.length * 2 - 1)) _ f (by rw [List.length_drop]) (by omega) (by omega) (Or.inl (by omega))
          (by rw [List.length_append, hll]; omega) (by omega),
          subproofSpec_right H1 He (!b) m D h1 hlt hle]
        simp
    · have hm : m = D.length := by omega
      subst hm
      rw [subproofSpec_base H1 He (!b) _ D (Nat.le_refl _)]
      unfold consFull
      simp only [consLoop, Nat.lt_irrefl, not_false_eq_true, if_true]
      cases b with
      | true => simp
      | false =>
        rcases hpre2 with h | h | ⟨x, hx⟩
        · omega
        · cases h
        · simp only [Bool.false_eq_true, if_false, Bool.not_false, if_true]
          rw [hx, getSubTreePos_pow]
          simp only
          obtain ⟨front, hfront, hfl⟩ := post_last H1 He x D hx
          have hget : getHash (pre ++ lay H1 He D ++ suf) (2 * 2 ^ x - 1 + offset - 1) = some (mth H1 He D) := by
            unfold getHash
            rw [lay_pow H1 He x D hx, hfront]
            have e : pre ++ (front ++ [mth H1 He D]) ++ suf = (pre ++ front) ++ (mth H1 He D :: suf) := by simp
            have hp := Nat.two_pow_pos x
            rw [e, List.getElem?_append_right (by rw [List.length_append]; omega)]
            rw [show 2 * 2 ^ x - 1 + offset - 1 - (pre ++ front).length = 0 by rw [List.length_append]; omega]
            rfl
          rw [hget]
          simp

/-- `ConsistencyProof(m, n)` on a tree that holds `L` and has a hash store: the RFC 6962 consistency proof between the
first `m` and the first `n` leaves (empty for `m = 0` — repaired code — and for `m = n`) -/
theorem holds_consistencyProof (t : Tree Hash) (L : List Hash) (h : Holds H1 He t L) (s : List Hash) (hs : t.store = some s)
    (m n : Nat) (hm : m ≤ n) (hn : n ≤ L.length) :
    t.consistencyProof H1 m n = some (some (consProofSpec H1 He m (L.take n))) := by
  unfold Tree.consistencyProof
  rw [if_neg (by rw [h.size]; omega), hs]
  simp only
  have hlen : (L.take n).length = n := by rw [List.length_take]; omega
  by_cases hz : m = 0
  · rw [if_pos hz]; simp [consProofSpec, hz]
  · rw [if_neg hz]
    have hs' : s = lay H1 He L := h.store s hs
    obtain ⟨ext, hext⟩ := lay_take H1 He L n
    have := consFull_spec H1 He n (L.take n) [] ext m true 0 [] (n + 1) hlen (by omega) hm (Or.inr (Or.inl rfl)) rfl (by omega)
    rw [List.nil_append, ← hext, ← hs'] at this
    rw [subproof_eq, this]
    simp only [Bool.not_true, List.nil_append, Option.map_some, List.reverse_reverse]
    unfold consProofSpec
    by_cases hmn : m = n
    · subst hmn
      rw [if_pos (Or.inr hlen.symm), subproofSpec_base H1 He false _ _ (by omega)]; rfl
    · rw [if_neg (by rw [hlen]; omega)]

end
end OntVerif.Proofs.Merkle
