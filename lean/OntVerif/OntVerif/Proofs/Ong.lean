import OntVerif.Model.Ong
/-!
# Helper lemmas for C09 (ONG unbinding schedule)

The specification of the schedule is a *rate per second* (`rateH`, `rateG`) and the amount released over `[s, e)`
is the point-wise sum `sumIco rate s e`.  `segment_eq` (F_prefix) shows that the split/loop/tail computation of the
Go code is that sum; additivity is then `sumIco_split`.  Everything is proved for an arbitrary configuration
satisfying `WF`; `netOK` is the computable per-network check evaluated on the regenerated constants.
-/
namespace OntVerif.Proofs.Ong
open OntVerif.Model.Ong

/-- per-second release rate read from a table: `A[t / TI]` (0 beyond the table) -/
def rate (TI : Nat) (A : List Nat) (t : Nat) : Nat :=
  match A[t / TI]? with
  | some a => a
  | none => 0

/-- `f a + f (a+1) + … + f (a+n-1)` -/
def sumFrom (f : Nat → Nat) : Nat → Nat → Nat
  | _, 0 => 0
  | a, n + 1 => f a + sumFrom f (a + 1) n

/-- `Σ_{t ∈ [s, e)} f t` -/
def sumIco (f : Nat → Nat) (s e : Nat) : Nat := sumFrom f s (e - s)

theorem sumFrom_add (f : Nat → Nat) (a n m : Nat) :
    sumFrom f a (n + m) = sumFrom f a n + sumFrom f (a + n) m := by
  induction n generalizing a with
  | zero => simp [sumFrom]
  | succ n ih =>
    have : n + 1 + m = (n + m) + 1 := by omega
    rw [this]
    simp only [sumFrom]
    rw [ih]
    have : a + 1 + n = a + (n + 1) := by omega
    rw [this]; omega

theorem sumFrom_congr (f g : Nat → Nat) (a n : Nat) (h : ∀ k, k < n → f (a + k) = g (a + k)) :
    sumFrom f a n = sumFrom g a n := by
  induction n generalizing a with
  | zero => rfl
  | succ n ih =>
    simp only [sumFrom]
    have h0 := h 0 (by omega)
    simp at h0
    rw [h0, ih]
    intro k hk
    have := h (k + 1) (by omega)
    have e : a + (k + 1) = a + 1 + k := by omega
    rw [e] at this; exact this

theorem sumFrom_const (f : Nat → Nat) (a n c : Nat) (h : ∀ k, k < n → f (a + k) = c) :
    sumFrom f a n = n * c := by
  induction n generalizing a with
  | zero => simp [sumFrom]
  | succ n ih =>
    simp only [sumFrom]
    have h0 := h 0 (by omega)
    simp at h0
    rw [h0, ih]
    · rw [Nat.succ_mul]; omega
    · intro k hk
      have := h (k + 1) (by omega)
      have e : a + (k + 1) = a + 1 + k := by omega
      rw [e] at this; exact this

theorem sumIco_split (f : Nat → Nat) (s m e : Nat) (h1 : s ≤ m) (h2 : m ≤ e) :
    sumIco f s e = sumIco f s m + sumIco f m e := by
  unfold sumIco
  have : e - s = (m - s) + (e - m) := by omega
  rw [this, sumFrom_add]
  have : s + (m - s) = m := by omega
  rw [this]

theorem sumIco_empty (f : Nat → Nat) (s e : Nat) (h : e ≤ s) : sumIco f s e = 0 := by
  unfold sumIco
  have : e - s = 0 := by omega
  rw [this]; rfl

theorem sumIco_congr (f g : Nat → Nat) (s e : Nat) (h : ∀ t, s ≤ t → t < e → f t = g t) :
    sumIco f s e = sumIco g s e := by
  unfold sumIco
  apply sumFrom_congr
  intro k hk
  exact h (s + k) (by omega) (by omega)

theorem sumIco_zero (f : Nat → Nat) (s e : Nat) (h : ∀ t, s ≤ t → t < e → f t = 0) : sumIco f s e = 0 := by
  unfold sumIco
  rw [sumFrom_const f s (e - s) 0]
  · simp
  · intro k hk
    exact h (s + k) (by omega) (by omega)

theorem sumIco_one (f : Nat → Nat) (s : Nat) : sumIco f s (s + 1) = f s := by
  unfold sumIco
  have : s + 1 - s = 1 := by omega
  rw [this]; simp [sumFrom]

/-- inside the interval `u`: `(u*TI + j) / TI = u` for `j < TI` -/
theorem div_in_interval (TI u j : Nat) (hj : j < TI) : (u * TI + j) / TI = u := by
  have hTI : 0 < TI := by omega
  rw [Nat.mul_comm, Nat.mul_add_div hTI, Nat.div_eq_of_lt hj]; simp

theorem rate_in_interval (TI : Nat) (A : List Nat) (u j a : Nat) (hj : j < TI) (ha : A[u]? = some a) :
    rate TI A (u * TI + j) = a := by
  unfold rate
  rw [div_in_interval TI u j hj, ha]

/-- a stretch `[u*TI + i, u*TI + i + n)` that stays inside interval `u` releases `n * A[u]` -/
theorem sum_in_interval (TI : Nat) (A : List Nat) (u i n a : Nat) (h : i + n ≤ TI) (ha : A[u]? = some a) :
    sumFrom (rate TI A) (u * TI + i) n = n * a := by
  apply sumFrom_const
  intro k hk
  have : u * TI + i + k = u * TI + (i + k) := by omega
  rw [this]
  exact rate_in_interval TI A u (i + k) a (by omega) ha

/-- loop invariant of `segLoop` -/
theorem segLoop_spec (TI : Nat) (A : List Nat) (n u i amt : Nat) (hi : i < TI) (hlen : u + n ≤ A.length) :
    segLoop TI A n u i amt
      = some (u + n, (if n = 0 then i else 0), amt + sumFrom (rate TI A) (u * TI + i) (n * TI - i)) := by
  induction n generalizing u i amt with
  | zero => simp [segLoop, sumFrom]
  | succ n ih =>
    have hu : u < A.length := by omega
    have ha : A[u]? = some A[u] := List.getElem?_eq_getElem hu
    simp only [segLoop, ha]
    rw [ih (u + 1) 0 (amt + (TI - i) * A[u]) (by omega) (by omega)]
    have e1 : (n + 1) * TI - i = (TI - i) + n * TI := by rw [Nat.succ_mul]; omega
    rw [e1, sumFrom_add, sum_in_interval TI A u i (TI - i) A[u] (by omega) ha]
    have e2 : u * TI + i + (TI - i) = (u + 1) * TI + 0 := by rw [Nat.succ_mul]; omega
    rw [e2]
    have e3 : u + 1 + n = u + (n + 1) := by omega
    simp [e3]
    omega


theorem u32sub_of_le (a b : Nat) (hb : b ≤ a) (ha : a < two32) : u32sub a b = a - b := by
  unfold u32sub
  have h1 : a % two32 = a := Nat.mod_eq_of_lt ha
  have h2 : b % two32 = b := Nat.mod_eq_of_lt (by omega)
  rw [h1, h2]
  have : a + two32 - b = (a - b) + two32 := by omega
  rw [this, Nat.add_mod_right]
  exact Nat.mod_eq_of_lt (by omega)

/-- **F_prefix**: the split/loop/tail computation is the point-wise sum of the table rate over `[s, e)` -/
theorem segment_eq (TI : Nat) (A : List Nat) (s e : Nat) (hTI : 0 < TI) (hTI32 : TI ≤ two32) (hse : s ≤ e)
    (he : e / TI < A.length) :
    segment TI A s e = some (sumIco (rate TI A) s e) := by
  have hs : s = s / TI * TI + s % TI := by rw [Nat.mul_comm]; exact (Nat.div_add_mod s TI).symm
  have hee : e = e / TI * TI + e % TI := by rw [Nat.mul_comm]; exact (Nat.div_add_mod e TI).symm
  have hsm : s % TI < TI := Nat.mod_lt _ hTI
  have hem : e % TI < TI := Nat.mod_lt _ hTI
  have hdiv : s / TI ≤ e / TI := Nat.div_le_div_right hse
  unfold segment
  rw [if_neg (by omega)]
  rw [segLoop_spec TI A (e / TI - s / TI) (s / TI) (s % TI) 0 hsm (by omega)]
  simp only
  have hu : s / TI + (e / TI - s / TI) = e / TI := by omega
  rw [hu]
  have ha : A[e / TI]? = some A[e / TI] := List.getElem?_eq_getElem he
  rw [ha]
  simp only [Option.some.injEq, Nat.zero_add]
  rw [← hs]
  by_cases hn : e / TI - s / TI = 0
  · -- same interval
    have hq : e / TI = s / TI := by omega
    rw [if_pos hn, hn]
    simp only [Nat.zero_mul, Nat.zero_sub, sumFrom, Nat.zero_add]
    have hle : s % TI ≤ e % TI := by
      rw [hq] at hee
      omega
    rw [u32sub_of_le _ _ hle (by omega)]
    unfold sumIco
    have hes : e - s = e % TI - s % TI := by rw [hq] at hee; omega
    rw [hes]
    have := sum_in_interval TI A (s / TI) (s % TI) (e % TI - s % TI) A[e / TI] (by omega) (by rw [← hq]; exact ha)
    rw [← hs] at this
    rw [this]
  · rw [if_neg hn]
    rw [u32sub_of_le _ _ (Nat.zero_le _) (by omega)]
    unfold sumIco
    -- e - s = ((e/TI - s/TI) * TI - s % TI) + e % TI
    have hmul : (e / TI - s / TI) * TI = e / TI * TI - s / TI * TI := Nat.sub_mul _ _ _
    have hge : s / TI * TI + TI ≤ e / TI * TI := by
      have : s / TI + 1 ≤ e / TI := by omega
      have := Nat.mul_le_mul_right TI this
      rw [Nat.succ_mul] at this; exact this
    have hes : e - s = ((e / TI - s / TI) * TI - s % TI) + e % TI := by omega
    rw [hes, sumFrom_add]
    have hst : s + ((e / TI - s / TI) * TI - s % TI) = e / TI * TI + 0 := by omega
    rw [hst, sum_in_interval TI A (e / TI) 0 (e % TI) A[e / TI] (by omega) ha]
    simp


/-- side conditions on a configuration under which no Go panic can occur in `CalcUnbindOng` -/
structure WF (c : Cfg) : Prop where
  ti_pos : 0 < c.TI
  ti_u32 : c.TI ≤ two32
  d_in : c.D / c.TI < c.G.length

/-- ONG released per second and per ONT to holders -/
def rateH (c : Cfg) (t : Nat) : Nat := if t < c.D then rate c.TI c.G t else 0

/-- ONG released per second (in units of `ONT_TOTAL_SUPPLY`) to governance: the new table from the holder deadline
up to the governance deadline, the remainder `gap` in the deadline second, nothing afterwards -/
def rateG (c : Cfg) (dl gapc t : Nat) : Nat :=
  if c.D ≤ t ∧ t < dl then rate c.TI c.NG t else if t = dl then gapc else 0

theorem holderAmount_eq (c : Cfg) (w : WF c) (s e : Nat) :
    holderAmount c s e = some (sumIco (rateH c) s e) := by
  unfold holderAmount
  by_cases h1 : s ≥ e
  · rw [if_pos h1, sumIco_empty _ _ _ h1]
  · rw [if_neg h1]
    by_cases h2 : s < c.D
    · rw [if_pos h2]
      have key : ∀ e', s ≤ e' → e' ≤ c.D → e' ≤ e → (e' < e → e' = c.D) →
          segment c.TI c.G s e' = some (sumIco (rateH c) s e) := by
        intro e' a1 a2 a3 a4
        rw [segment_eq c.TI c.G s e' w.ti_pos w.ti_u32 a1
          (Nat.lt_of_le_of_lt (Nat.div_le_div_right a2) w.d_in)]
        rw [sumIco_split (rateH c) s e' e a1 a3]
        have z : sumIco (rateH c) e' e = 0 := by
          apply sumIco_zero
          intro t t1 t2
          have : e' = c.D := a4 (by omega)
          unfold rateH
          rw [if_neg (by omega)]
        rw [z, Nat.add_zero]
        congr 1
        apply sumIco_congr
        intro t t1 t2
        unfold rateH
        rw [if_pos (by omega)]
      by_cases h3 : e ≥ c.D
      · rw [if_pos h3]; exact key c.D (by omega) (by omega) h3 (fun _ => rfl)
      · rw [if_neg h3]; exact key e (by omega) (by omega) (by omega) (fun h => by omega)
    · rw [if_neg h2]
      rw [sumIco_zero]
      intro t t1 t2
      unfold rateH
      rw [if_neg (by omega)]

theorem govAmount_sound_eq (c : Cfg) (w : WF c) (dl gapc : Nat) (hd : govDeadline c = some (dl, gapc))
    (hD : c.D ≤ dl) (hlen : dl / c.TI < c.NG.length) (s e : Nat) :
    govAmount .sound c s e = some (sumIco (rateG c dl gapc) s e) := by
  unfold govAmount
  by_cases h1 : e < c.D
  · rw [if_pos h1, sumIco_zero]
    intro t t1 t2
    unfold rateG
    rw [if_neg (by omega), if_neg (by omega)]
  · rw [if_neg h1]
    simp only
    by_cases h2 : (if s < c.D then c.D else s) ≥ e
    · rw [if_pos h2, sumIco_zero]
      intro t t1 t2
      unfold rateG
      split at h2
      · rw [if_neg (by omega), if_neg (by omega)]
      · omega
    · rw [if_neg h2, hd]
      simp only
      generalize hs1 : (if s < c.D then c.D else s) = s1 at h2
      have hs1a : s ≤ s1 := by rw [← hs1]; split <;> omega
      have hs1b : c.D ≤ s1 := by rw [← hs1]; split <;> omega
      have hs1c : s1 ≤ c.D ∨ s1 = s := by rw [← hs1]; split <;> omega
      have pre : sumIco (rateG c dl gapc) s s1 = 0 := by
        apply sumIco_zero
        intro t t1 t2
        unfold rateG
        rw [if_neg (by omega), if_neg (by omega)]
      rw [sumIco_split _ s s1 e hs1a (by omega), pre, Nat.zero_add]
      by_cases h3 : s1 ≤ dl
      · simp only [h3, decide_true, if_true]
        by_cases h4 : e > dl
        · rw [if_pos h4, if_pos h4]
          rw [segment_eq c.TI c.NG s1 dl w.ti_pos w.ti_u32 h3 hlen]
          simp only [Option.some.injEq]
          rw [sumIco_split _ s1 dl e h3 (by omega), sumIco_split _ dl (dl + 1) e (by omega) (by omega), sumIco_one]
          have z : sumIco (rateG c dl gapc) (dl + 1) e = 0 := by
            apply sumIco_zero
            intro t t1 t2
            unfold rateG
            rw [if_neg (by omega), if_neg (by omega)]
          have g : rateG c dl gapc dl = gapc := by
            unfold rateG
            rw [if_neg (by omega), if_pos rfl]
          rw [z, g, Nat.add_zero]
          congr 1
          apply sumIco_congr
          intro t t1 t2
          unfold rateG
          rw [if_pos ⟨by omega, t2⟩]
        · rw [if_neg h4, if_neg h4]
          rw [segment_eq c.TI c.NG s1 e w.ti_pos w.ti_u32 (by omega)
            (Nat.lt_of_le_of_lt (Nat.div_le_div_right (by omega)) hlen)]
          simp only [Option.some.injEq, Nat.add_zero]
          apply sumIco_congr
          intro t t1 t2
          unfold rateG
          rw [if_pos ⟨by omega, by omega⟩]
      · simp only [h3, decide_false, Bool.false_eq_true, if_false]
        rw [sumIco_zero]
        intro t t1 t2
        unfold rateG
        rw [if_neg (by omega), if_neg (by omega)]

/-- the shipped comparison `startOffset < deadline` differs from the repaired one exactly when the (clipped)
start is the deadline second itself and the interval extends beyond it: then it pays 0 instead of `gap` -/
theorem govAmount_asShipped_eq (c : Cfg) (s e : Nat) :
    govAmount .asShipped c s e =
      match govDeadline c with
      | none => govAmount .sound c s e
      | some (dl, _) => if (if s < c.D then c.D else s) = dl ∧ dl < e ∧ c.D ≤ e then some 0 else govAmount .sound c s e := by
  unfold govAmount
  by_cases h1 : e < c.D
  · simp only [if_pos h1]
    split
    · rfl
    · rw [if_neg (by omega)]
  · simp only [if_neg h1]
    by_cases h2 : (if s < c.D then c.D else s) ≥ e
    · simp only [if_pos h2]
      split
      · rfl
      · rw [if_neg (by omega)]
    · simp only [if_neg h2]
      cases hd : govDeadline c with
      | none => rfl
      | some p =>
        obtain ⟨dl, gapc⟩ := p
        simp only
        generalize (if s < c.D then c.D else s) = s1 at h2
        by_cases h3 : s1 < dl
        · have h3' : s1 ≤ dl := by omega
          simp only [h3, h3', decide_true, if_true]
          rw [if_neg (show ¬ (s1 = dl ∧ dl < e ∧ c.D ≤ e) by omega)]
        · by_cases h4 : s1 = dl
          · subst h4
            simp only [Nat.lt_irrefl, decide_false, Bool.false_eq_true, if_false]
            rw [if_pos (show (True ∧ s1 < e ∧ c.D ≤ e) from ⟨trivial, by omega, by omega⟩)]
          · have h5 : ¬ s1 ≤ dl := by omega
            simp only [h3, h5, decide_false, Bool.false_eq_true, if_false]
            rw [if_neg (show ¬ (s1 = dl ∧ dl < e ∧ c.D ≤ e) by omega)]


/-! ### monotonicity / bounds -/

theorem sumIco_le_of_subset (f : Nat → Nat) (a s e b : Nat) (h1 : a ≤ s) (h2 : s ≤ e) (h3 : e ≤ b) :
    sumIco f s e ≤ sumIco f a b := by
  rw [sumIco_split f a s b h1 (by omega), sumIco_split f s e b h2 h3]
  omega

/-! ### results of the two functions as optional values; Go's `+` on them -/

/-- `a + b` when neither computation panicked -/
def oadd (a b : Option Nat) : Option Nat :=
  match a, b with
  | some x, some y => some (x + y)
  | _, _ => none

/-- Go `uint64` addition of two results -/
def oaddWrap (a b : Option Nat) : Option Nat :=
  match a, b with
  | some x, some y => some ((x + y) % two64)
  | _, _ => none

/-! ### the per-network check (evaluated by `decide` on the regenerated constants) -/

/-- everything the general theorems need to know about one configuration, as a computable check -/
def netOK (c : Cfg) (ongTotal : Nat) : Bool :=
  decide (0 < c.TI) && decide (c.TI ≤ two32) && decide (c.D / c.TI < c.G.length) && decide (0 < c.supply) &&
  match govDeadline c, holderAmount c 0 c.D with
  | some (dl, gap), some H =>
    decide (c.D < dl) && decide (dl / c.TI < c.NG.length) && decide (dl + 1 < two32) && decide (0 < gap) &&
    match govAmount .sound c 0 (dl + 1) with
    | some Gv => decide (H * c.supply < two64) && decide (Gv * c.supply < two64) &&
                 decide (H * c.supply + Gv * c.supply = ongTotal)
    | none => false
  | _, _ => false

structure NetFacts (c : Cfg) (ongTotal dl gap H Gv : Nat) : Prop where
  wf : WF c
  supply_pos : 0 < c.supply
  hdl : govDeadline c = some (dl, gap)
  d_lt : c.D < dl
  dl_in : dl / c.TI < c.NG.length
  dl_u32 : dl + 1 < two32
  gap_pos : 0 < gap
  hH : sumIco (rateH c) 0 c.D = H
  hG : sumIco (rateG c dl gap) 0 (dl + 1) = Gv
  bH : H * c.supply < two64
  bG : Gv * c.supply < two64
  total : H * c.supply + Gv * c.supply = ongTotal

theorem netOK_facts (c : Cfg) (T : Nat) (h : netOK c T = true) : ∃ dl gap H Gv, NetFacts c T dl gap H Gv := by
  unfold netOK at h
  simp only [Bool.and_eq_true, decide_eq_true_eq] at h
  obtain ⟨⟨⟨⟨a1, a2⟩, a3⟩, a4⟩, h⟩ := h
  have w : WF c := ⟨a1, a2, a3⟩
  cases hd : govDeadline c with
  | none => rw [hd] at h; simp at h
  | some p =>
    obtain ⟨dl, gap⟩ := p
    cases hh : holderAmount c 0 c.D with
    | none => rw [hd, hh] at h; simp at h
    | some H =>
      rw [hd, hh] at h
      simp only [Bool.and_eq_true, decide_eq_true_eq] at h
      obtain ⟨⟨⟨⟨b1, b2⟩, b3⟩, b4⟩, h⟩ := h
      cases hg : govAmount .sound c 0 (dl + 1) with
      | none => rw [hg] at h; simp at h
      | some Gv =>
        rw [hg] at h
        simp only [Bool.and_eq_true, decide_eq_true_eq] at h
        obtain ⟨⟨c1, c2⟩, c3⟩ := h
        refine ⟨dl, gap, H, Gv, ⟨w, a4, hd, b1, b2, b3, b4, ?_, ?_, c1, c2, c3⟩⟩
        · have := holderAmount_eq c w 0 c.D
          rw [hh] at this
          exact (Option.some.inj this).symm
        · have := govAmount_sound_eq c w dl gap hd (by omega) b2 0 (dl + 1)
          rw [hg] at this
          exact (Option.some.inj this).symm

/-- no interval releases more to holders (per ONT) than the whole holder phase -/
theorem holder_le_total (c : Cfg) (s e : Nat) : sumIco (rateH c) s e ≤ sumIco (rateH c) 0 c.D := by
  by_cases hse : s ≤ e
  · have hz : sumIco (rateH c) c.D (max e c.D) = 0 := by
      apply sumIco_zero
      intro t t1 t2
      unfold rateH
      rw [if_neg (by omega)]
    have := sumIco_le_of_subset (rateH c) 0 s e (max e c.D) (by omega) hse (by omega)
    rw [sumIco_split (rateH c) 0 c.D (max e c.D) (by omega) (by omega), hz] at this
    omega
  · rw [sumIco_empty _ _ _ (by omega)]; omega

theorem gov_le_total (c : Cfg) (dl gap s e : Nat) :
    sumIco (rateG c dl gap) s e ≤ sumIco (rateG c dl gap) 0 (dl + 1) := by
  by_cases hse : s ≤ e
  · have hz : sumIco (rateG c dl gap) (dl + 1) (max e (dl + 1)) = 0 := by
      apply sumIco_zero
      intro t t1 t2
      unfold rateG
      rw [if_neg (by omega), if_neg (by omega)]
    have := sumIco_le_of_subset (rateG c dl gap) 0 s e (max e (dl + 1)) (by omega) hse (by omega)
    rw [sumIco_split (rateG c dl gap) 0 (dl + 1) (max e (dl + 1)) (by omega) (by omega), hz] at this
    omega
  · rw [sumIco_empty _ _ _ (by omega)]; omega

/-- every network id other than mainnet / polaris takes the `default:` branch of `GetOntHolderUnboundDeadline` -/
theorem cfgOf_other (net : Nat) (h1 : net ≠ OntVerif.Gen.Ong.NETWORK_ID_MAIN_NET) (h2 : net ≠ OntVerif.Gen.Ong.NETWORK_ID_POLARIS_NET) :
    cfgOf net = cfgOf 0 := by
  unfold cfgOf OntVerif.Gen.Ong.GetOntHolderUnboundDeadline
  rw [if_neg h1, if_neg h2, if_neg (by decide), if_neg (by decide)]

end OntVerif.Proofs.Ong
