import OntVerif.Proofs.NeoIntOps
import OntVerif.Proofs.NeoIntSpec
/-! Helper lemmas for C13, part 2: every opcode of the executor model, observed through `obs`, equals an integer-level
function `sem*` of the integers its operands denote (so the operand representation is irrelevant), and `sem* .sound` is the
ideal semantics of `NeoIntSpec`. Core-only. -/
namespace OntVerif.Proofs.NeoIntExec
open OntVerif.Util OntVerif.Model.Codec OntVerif.Model.NeoInt OntVerif.Proofs.NeoInt OntVerif.Proofs.NeoIntOps OntVerif.Proofs.NeoIntSpec

/-! ### popping operands -/
theorem boolBits_toInt (b : Bool) : (boolBits b).toInt = if b then 1 else 0 := by cases b <;> decide

theorem asIntValue_cases (a : Val) :
    (overSize (valInt a) = true ∧ a.asIntValue = .error .oversize) ∨
    (overSize (valInt a) = false ∧ ∃ x, a.asIntValue = .ok x ∧ x.toInt = valInt a) := by
  cases a with
  | int i => right; exact ⟨overSize_i64 i, _, rfl, rfl⟩
  | bool b => right; exact ⟨overSize_i64 _, _, rfl, rfl⟩
  | bigint z =>
    simp only [valInt, Val.asBigInt, Val.asIntValue, intValFromBigInt]
    cases h : overSize z with
    | true => left; simp
    | false => right; simp [normInt_toInt]
  | bytes bs =>
    simp only [valInt, Val.asBigInt, Val.asIntValue, intValFromBigInt]
    cases h : overSize (fromNeo bs) with
    | true => left; simp
    | false => right; simp [normInt_toInt]

theorem obs_ofIntValue (x : IntValue) : obs (ofIntValue x) = .int x.toInt := by cases x <;> rfl

theorem pushInt_obs (r : R) : (pushInt r).map obs = (r.map IntValue.toInt).map Res.int := by
  cases r with
  | error e => rfl
  | ok x => simp only [pushInt, Except.map, obs_ofIntValue]

/-! ### Int-level semantics of the opcodes (with fault kinds) -/
def semBinary (v : Variant) (op : BOp) (x y : Int) : Except Fault Res :=
  if op.isCmp then
    match v with
    | .asShipped => .ok (.bool (cmpResult op x y))
    | .sound => if overSize y || overSize x then .error .oversize else .ok (.bool (cmpResult op x y))
  else if overSize y then .error .oversize
  else if overSize x then .error .oversize
  else (semFn v op x y).map Res.int

def semUnary (v : Variant) (op : UOp) (x : Int) : Except Fault Res :=
  if overSize x then .error .oversize else
  match op with
  | .inc => (bounded (x + 1)).map Res.int
  | .dec => (bounded (x - 1)).map Res.int
  | .sign => .ok (.int (IntValue.cmpInt x 0))
  | .negate => (bounded (0 - x)).map Res.int
  | .abs => .ok (.int (Int.ofNat x.natAbs))
  | .invert => (notSem v x).map Res.int
  | .nz => .ok (.bool (IntValue.cmpInt x 0 != 0))

def semWithin (x a b : Int) : Except Fault Res :=
  if overSize b then .error .oversize
  else if overSize a then .error .oversize
  else if overSize x then .error .oversize
  else .ok (.bool (decide (IntValue.cmpInt x a ≥ 0) && decide (IntValue.cmpInt x b < 0)))

theorem binInt_sem (f : IntValue → IntValue → R) (g : Int → Int → Except Fault Int)
    (h : ∀ x y, (f x y).map IntValue.toInt = g x.toInt y.toInt) (a b : Val) :
    (binInt f a b).map obs =
      if overSize (valInt b) then .error .oversize
      else if overSize (valInt a) then .error .oversize
      else (g (valInt a) (valInt b)).map Res.int := by
  unfold binInt
  rcases asIntValue_cases b with ⟨ob, eb⟩ | ⟨ob, y, eb, hy⟩
  · rw [eb, ob]; rfl
  · rw [eb, ob]
    rcases asIntValue_cases a with ⟨oa, ea⟩ | ⟨oa, x, ea, hx⟩
    · rw [ea, oa]; rfl
    · rw [ea, oa]
      simp only [Bool.false_eq_true, if_false, pushInt_obs, h, hx, hy]

theorem cmpOperand_eq (op : BOp) (a : Val) : cmpOperand op a = valInt a := by
  have hb : ∀ a : Val, fromNeo a.asBytes = valInt a := by
    intro a
    cases a with
    | int i => simp only [Val.asBytes, valInt, Val.asBigInt, neo_rt]
    | bigint z => simp only [Val.asBytes, valInt, Val.asBigInt, neo_rt]
    | bytes bs => rfl
    | bool b => cases b <;> decide
  cases op <;> simp only [cmpOperand, hb] <;> rfl

theorem execBinary_sem (v : Variant) (op : BOp) (a b : Val) :
    (execBinary v op a b).map obs = semBinary v op (valInt a) (valInt b) := by
  unfold execBinary semBinary
  by_cases hc : op.isCmp = true
  · simp only [hc, if_true, cmpOperand_eq]
    cases v with
    | asShipped => rfl
    | sound => simp only; split <;> rfl
  · simp only [hc, Bool.false_eq_true, if_false]
    exact binInt_sem _ _ (arithFn_exact v op) a b

theorem toInt_ofInt_cmp (x y : Int) : (BitVec.ofInt 64 (IntValue.cmpInt x y)).toInt = IntValue.cmpInt x y := by
  unfold IntValue.cmpInt
  split
  · decide
  · split <;> decide

theorem execUnary_sem (v : Variant) (op : UOp) (a : Val) :
    (execUnary v op a).map obs = semUnary v op (valInt a) := by
  unfold execUnary semUnary
  rcases asIntValue_cases a with ⟨oa, ea⟩ | ⟨oa, x, ea, hx⟩
  · rw [ea, oa]; rfl
  · rw [ea, oa]
    simp only [Bool.false_eq_true, if_false]
    cases op <;> simp only
    · rw [pushInt_obs, add_exact, hx]; rfl
    · rw [pushInt_obs, sub_exact, hx]; rfl
    · simp only [Except.map, obs, cmp_exact, hx, toInt_ofInt_cmp]; rfl
    · rw [pushInt_obs, sub_exact, hx]; rfl
    · simp only [Except.map, obs_ofIntValue, abs_exact, hx]
    · rw [pushInt_obs, notV_exact, hx]
    · simp only [Except.map, obs, cmp_exact, hx]; rfl

theorem execWithin_sem (x a b : Val) :
    (execWithin x a b).map obs = semWithin (valInt x) (valInt a) (valInt b) := by
  unfold execWithin semWithin
  rcases asIntValue_cases b with ⟨ob, eb⟩ | ⟨ob, r, eb, hr⟩
  · rw [eb, ob]; rfl
  · rw [eb, ob]
    rcases asIntValue_cases a with ⟨oa, ea⟩ | ⟨oa, l, ea, hl⟩
    · rw [ea, oa]; rfl
    · rw [ea, oa]
      rcases asIntValue_cases x with ⟨ox, ex⟩ | ⟨ox, w, ex, hw⟩
      · rw [ex, ox]; rfl
      · rw [ex, ox]
        simp only [Bool.false_eq_true, if_false, Except.map, obs, cmp_exact, hr, hl, hw]

/-! ### `sem .sound` is the ideal semantics -/
theorem overSize_false_inB (z : Int) : overSize z = false ↔ inB z := by
  rw [overSize_false_iff]; unfold inB; omega

theorem overSize_true_inB (z : Int) : overSize z = true ↔ ¬ inB z := by
  rw [← overSize_false_inB]; cases overSize z <;> simp

theorem bounded_bnd (z : Int) : ((bounded z).map Res.int).toOption = bnd z := by
  unfold bounded bnd
  cases h : overSize z with
  | true => have := (overSize_true_inB z).mp h; simp [this, Except.map, Except.toOption]
  | false => have := (overSize_false_inB z).mp h; simp [this, Except.map, Except.toOption]

theorem cmpInt_zero_sign (x : Int) : IntValue.cmpInt x 0 = x.sign := by
  unfold IntValue.cmpInt
  by_cases h1 : x < 0
  · simp [h1, Int.sign_eq_neg_one_of_neg h1]
  · by_cases h2 : x = 0
    · simp [h2]
    · simp [h1, h2, Int.sign_eq_one_of_pos (by omega : 0 < x)]

theorem cmpInt_zero_ne (x : Int) : (IntValue.cmpInt x 0 != 0) = decide (x ≠ 0) := by
  unfold IntValue.cmpInt
  by_cases h1 : x < 0
  · have : x ≠ 0 := by omega
    simp [h1, this]
  · by_cases h2 : x = 0 <;> simp [h1, h2]

theorem semUnary_sound (op : UOp) (x : Int) : (semUnary .sound op x).toOption = idealUnary op x := by
  unfold semUnary idealUnary
  cases h : overSize x with
  | true => have := (overSize_true_inB x).mp h; simp [this, Except.toOption]
  | false =>
    have hb := (overSize_false_inB x).mp h
    simp only [Bool.false_eq_true, if_false, hb, not_true_eq_false]
    cases op <;> simp only
    · exact bounded_bnd _
    · exact bounded_bnd _
    · simp only [Except.toOption, cmpInt_zero_sign]
    · rw [Int.zero_sub]; exact bounded_bnd _
    · have : inB (Int.ofNat x.natAbs) := by unfold inB at *; simp only [Int.ofNat_eq_natCast]; omega
      simp only [Except.toOption, bnd, this, if_true]
    · exact bounded_bnd _
    · simp only [Except.toOption, cmpInt_zero_ne]


theorem inB_natAbs (z : Int) : inB z ↔ z.natAbs < 115792089237316195423570985008687907853269984665640564039457584007913129639936 := by
  unfold inB; omega

theorem pow2_256 : (2 : Nat) ^ 256 = 115792089237316195423570985008687907853269984665640564039457584007913129639936 := by decide

theorem not_inB_shl (x : Int) (k : Nat) (hx : x ≠ 0) (hk : 256 < k) : ¬ inB (x * 2 ^ k) := by
  rw [inB_natAbs, Int.natAbs_mul, Int.natAbs_pow]
  have h1 : 1 ≤ x.natAbs := by omega
  have h2 : (2 : Nat) ^ 256 ≤ 2 ^ k := Nat.pow_le_pow_right (by decide) (by omega)
  have h3 : 1 * 2 ^ k ≤ x.natAbs * 2 ^ k := Nat.mul_le_mul_right _ h1
  have e : (2 : Int).natAbs = 2 := rfl
  rw [e, ← pow2_256]
  omega

theorem lshSem_sound (x n : Int) :
    ((lshSem .sound x n).map Res.int).toOption = if n < 0 then none else bnd (x * 2 ^ n.toNat) := by
  unfold lshSem
  by_cases h1 : n < 0
  · simp [h1, Except.map, Except.toOption]
  · simp only [h1, if_false]
    by_cases h0 : x = 0
    · subst h0
      simp only [if_true, Except.map, Except.toOption, Int.zero_mul, bnd]
      have : inB 0 := by decide
      simp [this]
    · simp only [h0, if_false]
      by_cases h2 : n > 256
      · simp only [h2, if_true, Except.map, Except.toOption, bnd, not_inB_shl x n.toNat h0 (by omega), if_false]
      · simp only [h2, if_false, Int.shiftLeft_eq]
        exact bounded_bnd _

theorem ediv_big (x d : Int) (hd : 0 < d) (h1 : -d ≤ x) (h2 : x < d) : x / d = if x < 0 then -1 else 0 := by
  by_cases hx : x < 0
  · simp only [hx, if_true]
    have a : -1 ≤ x / d := (Int.le_ediv_iff_mul_le hd).mpr (by omega)
    have b : x / d < 0 := (Int.ediv_lt_iff_lt_mul hd).mpr (by omega)
    omega
  · simp only [hx, if_false]
    exact Int.ediv_eq_zero_of_lt (by omega) h2

theorem rshSem_sound (x n : Int) (hx : inB x) :
    ((rshSem .sound x n).map Res.int).toOption = if n < 0 then none else bnd (x / 2 ^ n.toNat) := by
  unfold rshSem
  by_cases h1 : n < 0
  · simp [h1, Except.map, Except.toOption]
  · simp only [h1, if_false]
    by_cases h2 : n > 256
    · simp only [h2, if_true]
      have hp : (115792089237316195423570985008687907853269984665640564039457584007913129639936 : Int) ≤ 2 ^ n.toNat := by
        have : (2 : Nat) ^ 256 ≤ 2 ^ n.toNat := Nat.pow_le_pow_right (by decide) (by omega)
        rw [pow2_256] at this
        have := Int.ofNat_le.mpr this
        simpa [Int.natCast_pow] using this
      unfold inB at hx
      rw [ediv_big x (2 ^ n.toNat) (by omega) (by omega) (by omega)]
      by_cases hn : x < 0
      · simp only [hn, if_true, Except.map, Except.toOption, bnd]
        have : inB (-1) := by decide
        simp [this]
      · simp only [hn, if_false, Except.map, Except.toOption, bnd]
        have : inB 0 := by decide
        simp [this]
    · simp only [h2, if_false, Int.shiftRight_eq_div_pow, Int.natCast_pow]
      exact bounded_bnd _

theorem semBinary_sound (op : BOp) (x y : Int) : (semBinary .sound op x y).toOption = idealBinary op x y := by
  unfold semBinary idealBinary
  by_cases hc : op.isCmp = true
  · simp only [hc, if_true]
    cases hy : overSize y with
    | true => have := (overSize_true_inB y).mp hy; simp [this, Except.toOption]
    | false =>
      have by' := (overSize_false_inB y).mp hy
      cases hx : overSize x with
      | true => have := (overSize_true_inB x).mp hx; simp [this, Except.toOption]
      | false =>
        have bx := (overSize_false_inB x).mp hx
        simp only [Bool.or_self, Bool.false_eq_true, if_false, bx, by', and_self, not_true_eq_false, Except.toOption]
        cases op <;> simp [BOp.isCmp] at hc <;> simp [cmpResult]
  · simp only [hc, Bool.false_eq_true, if_false]
    cases hy : overSize y with
    | true => have := (overSize_true_inB y).mp hy; simp [this, Except.toOption]
    | false =>
      have by' := (overSize_false_inB y).mp hy
      cases hx : overSize x with
      | true => have := (overSize_true_inB x).mp hx; simp [this, Except.toOption]
      | false =>
        have bx := (overSize_false_inB x).mp hx
        simp only [Bool.false_eq_true, if_false, bx, by', and_self, not_true_eq_false]
        cases op <;> simp only [semFn]
        · exact bounded_bnd _
        · exact bounded_bnd _
        · exact bounded_bnd _
        · by_cases h0 : y = 0
          · simp [h0, Except.map, Except.toOption]
          · simp only [h0, if_false]; exact bounded_bnd _
        · by_cases h0 : y = 0
          · simp [h0, Except.map, Except.toOption]
          · simp only [h0, if_false]; exact bounded_bnd _
        · rw [Int.max_def]; exact bounded_bnd _
        · rw [Int.min_def]; exact bounded_bnd _
        · exact bounded_bnd _
        · exact bounded_bnd _
        · exact bounded_bnd _
        · exact lshSem_sound x y
        · exact rshSem_sound x y bx
        all_goals (simp [BOp.isCmp] at hc)

theorem semWithin_sound (x a b : Int) : (semWithin x a b).toOption = idealWithin x a b := by
  unfold semWithin idealWithin
  cases hb : overSize b with
  | true => have := (overSize_true_inB b).mp hb; simp [this, Except.toOption]
  | false =>
    have bb := (overSize_false_inB b).mp hb
    cases ha : overSize a with
    | true => have := (overSize_true_inB a).mp ha; simp [this, Except.toOption]
    | false =>
      have ba := (overSize_false_inB a).mp ha
      cases hx : overSize x with
      | true => have := (overSize_true_inB x).mp hx; simp [this, Except.toOption]
      | false =>
        have bx := (overSize_false_inB x).mp hx
        simp only [Bool.false_eq_true, if_false, bx, ba, bb, and_self, not_true_eq_false, Except.toOption]
        congr 2
        unfold IntValue.cmpInt
        by_cases h1 : x < a <;> by_cases h2 : x = a <;> by_cases h3 : x < b <;> by_cases h4 : x = b <;>
          simp [h1, h2, h3, h4] <;> omega
/-! ### the as-shipped code agrees with the ideal semantics outside the recorded deviations -/
theorem semUnary_asShipped (op : UOp) (x : Int) (h : ¬ deviatesUnary op x) :
    (semUnary .asShipped op x).toOption = idealUnary op x := by
  rw [← semUnary_sound]
  unfold semUnary
  cases hx : overSize x with
  | true => rfl
  | false =>
    have bx := (overSize_false_inB x).mp hx
    simp only [Bool.false_eq_true, if_false]
    cases op <;> try rfl
    -- INVERT
    simp only [notSem, bounded]
    have : overSize (-x - 1) = false := by
      rw [overSize_false_inB]
      unfold deviatesUnary at h
      unfold inB at *
      have : x ≠ 115792089237316195423570985008687907853269984665640564039457584007913129639935 := fun e => h ⟨rfl, e⟩
      omega
    rw [this]; rfl

theorem shiftAmt_ok (n : Int) (h1 : ¬ n < 0) (h2 : ¬ 18446744073709551616 ≤ n) : shiftAmt n = .ok n.toNat := by
  unfold shiftAmt
  have : ¬ (n < 0 ∨ 18446744073709551616 ≤ n) := by omega
  rw [if_neg this]

theorem lshSem_agree (x n : Int) (h : ¬ (x = 0 ∧ n > 256)) :
    ((lshSem .asShipped x n).map Res.int).toOption = ((lshSem .sound x n).map Res.int).toOption := by
  simp only [lshSem]
  by_cases h1 : n < 0
  · have : shiftAmt n = .error .shiftneg := by unfold shiftAmt; simp [h1]
    simp [this, h1, Except.map, Except.toOption]
  · by_cases h2 : 18446744073709551616 ≤ n
    · have : shiftAmt n = .error .shiftneg := by unfold shiftAmt; simp [h2]
      have h0 : x ≠ 0 := fun e => h ⟨e, by omega⟩
      have h3 : n > 256 := by omega
      simp [this, h1, h0, h3, Except.map, Except.toOption]
    · rw [shiftAmt_ok n h1 h2]
      simp only [h1, if_false]
      by_cases h3 : n > 256
      · have h0 : x ≠ 0 := fun e => h ⟨e, h3⟩
        have : n.toNat > 256 := by omega
        simp [this, h0, h3, Except.map, Except.toOption]
      · have : ¬ n.toNat > 256 := by omega
        simp only [this, h3, if_false]
        by_cases h0 : x = 0
        · subst h0
          simp only [if_true, Int.zero_shiftLeft, bounded]
          have : overSize 0 = false := by decide
          rw [this]; rfl
        · simp only [h0, if_false]

theorem rshSem_agree (x n : Int) (h : ¬ 18446744073709551616 ≤ n) :
    rshSem .asShipped x n = rshSem .sound x n := by
  simp only [rshSem]
  by_cases h1 : n < 0
  · have : shiftAmt n = .error .shiftneg := by unfold shiftAmt; simp [h1]
    simp [this, h1]
  · rw [shiftAmt_ok n h1 h]
    simp only [h1, if_false]
    by_cases h3 : n > 256
    · have : n.toNat > 256 := by omega
      simp [this, h3]
    · have : ¬ n.toNat > 256 := by omega
      simp [this, h3]

theorem semBinary_asShipped (op : BOp) (x y : Int) (h : ¬ deviatesBinary op x y) :
    (semBinary .asShipped op x y).toOption = idealBinary op x y := by
  rw [← semBinary_sound]
  unfold semBinary
  unfold deviatesBinary at h
  by_cases hc : op.isCmp = true
  · have hb : inB x ∧ inB y := by
      apply Classical.byContradiction; intro hn; exact h (Or.inr (Or.inr ⟨hc, hn⟩))
    have ox := (overSize_false_inB x).mpr hb.1
    have oy := (overSize_false_inB y).mpr hb.2
    simp [hc, ox, oy]
  · simp only [hc, Bool.false_eq_true, if_false]
    cases hy : overSize y with
    | true => rfl
    | false =>
      cases hx : overSize x with
      | true => rfl
      | false =>
        simp only [Bool.false_eq_true, if_false]
        cases op <;> try rfl
        · -- SHL
          simp only [semFn]
          exact lshSem_agree x y (fun hh => h (Or.inl ⟨rfl, hh.1, hh.2⟩))
        · -- SHR
          simp only [semFn]
          rw [rshSem_agree x y (fun hh => h (Or.inr (Or.inl ⟨rfl, hh⟩)))]

/-! ### bitwise operations, bit by bit -/
theorem bitAt_ofNat (n k : Nat) : bitAt (Int.ofNat n) k = n.testBit k := by
  unfold bitAt
  rw [Nat.testBit_eq_decide_div_mod_eq]
  have e : (Int.ofNat n) / 2 ^ k = ((n / 2 ^ k : Nat) : Int) := by
    simp only [Int.ofNat_eq_natCast, Int.natCast_ediv, Int.natCast_pow]; rfl
  rw [e]
  congr 1
  apply propext
  omega

theorem bitAt_negSucc (n k : Nat) : bitAt (Int.negSucc n) k = !n.testBit k := by
  unfold bitAt
  rw [Nat.testBit_eq_decide_div_mod_eq]
  have hp : (0 : Int) < 2 ^ k := Int.pow_pos (by decide)
  have e : (Int.negSucc n) / 2 ^ k = -(((n / 2 ^ k : Nat) : Int) + 1) := by
    rw [Int.negSucc_ediv n hp]
    simp only [Int.natCast_ediv, Int.natCast_pow]; rfl
  rw [e]
  generalize n / 2 ^ k = q
  by_cases h : q % 2 = 1
  · have : ¬ (-((q : Int) + 1) % 2 = 1) := by omega
    rw [decide_eq_false this, decide_eq_true h]; rfl
  · have : (-((q : Int) + 1) % 2 = 1) := by omega
    rw [decide_eq_true this, decide_eq_false h]; rfl

theorem testBit_natAndNot (x y k : Nat) : (natAndNot x y).testBit k = (x.testBit k && !y.testBit k) := by
  unfold natAndNot
  rw [Nat.testBit_xor, Nat.testBit_and]
  cases x.testBit k <;> cases y.testBit k <;> rfl

theorem bitAt_bigAnd (x y : Int) (k : Nat) : bitAt (bigAnd x y) k = (bitAt x k && bitAt y k) := by
  cases x <;> cases y <;>
    simp only [bigAnd, bitAt_ofNat, bitAt_negSucc, Nat.testBit_and, Nat.testBit_or, testBit_natAndNot]
  · rename_i m n; cases m.testBit k <;> cases n.testBit k <;> rfl
  · rename_i m n; cases m.testBit k <;> cases n.testBit k <;> rfl

theorem bitAt_bigOr (x y : Int) (k : Nat) : bitAt (bigOr x y) k = (bitAt x k || bitAt y k) := by
  cases x <;> cases y <;>
    simp only [bigOr, bitAt_ofNat, bitAt_negSucc, Nat.testBit_and, Nat.testBit_or, testBit_natAndNot] <;>
    (rename_i m n; cases m.testBit k <;> cases n.testBit k <;> rfl)

theorem bitAt_bigXor (x y : Int) (k : Nat) : bitAt (bigXor x y) k = (bitAt x k ^^ bitAt y k) := by
  cases x <;> cases y <;>
    simp only [bigXor, bitAt_ofNat, bitAt_negSucc, Nat.testBit_xor] <;>
    (rename_i m n; cases m.testBit k <;> cases n.testBit k <;> rfl)

theorem bitAt_not (x : Int) (k : Nat) : bitAt (-x - 1) k = !bitAt x k := by
  rw [← bigNot_eq]
  cases x <;> simp only [bigNot, bitAt_ofNat, bitAt_negSucc, Bool.not_not]

end OntVerif.Proofs.NeoIntExec
