import OntVerif.Model.Codec
/-! Helper lemmas for C18 (and every codec built on the zero-copy source). Core-only. -/
namespace OntVerif.Proofs.Codec
open OntVerif.Util OntVerif.Model.Codec

theorem leN_length (k v : Nat) : (leN k v).length = k := by
  induction k generalizing v with
  | zero => rfl
  | succ k ih => simp [leN, ih]

theorem fromLE_leN (k v : Nat) (h : v < 256 ^ k) : fromLE (leN k v) = v := by
  induction k generalizing v with
  | zero => simp at h; subst h; rfl
  | succ k ih =>
    have h2 : v / 256 < 256 ^ k := by
      rw [Nat.pow_succ] at h
      exact Nat.div_lt_of_lt_mul (by rw [Nat.mul_comm]; exact h)
    simp only [leN, fromLE, ih _ h2]
    have : (UInt8.ofNat (v % 256)).toNat = v % 256 := by
      simp [UInt8.toNat_ofNat']
    rw [this]; omega

theorem fromLE_lt (d : Bytes) : fromLE d < 256 ^ d.length := by
  induction d with
  | nil => simp [fromLE]
  | cons b r ih =>
    simp only [fromLE, List.length_cons, Nat.pow_succ]
    have := b.toNat_lt
    omega

theorem leN_fromLE (d : Bytes) : leN d.length (fromLE d) = d := by
  induction d with
  | nil => rfl
  | cons b r ih =>
    simp only [List.length_cons, leN, fromLE]
    have hb := b.toNat_lt
    have h1 : (b.toNat + 256 * fromLE r) % 256 = b.toNat := by omega
    have h2 : (b.toNat + 256 * fromLE r) / 256 = fromLE r := by omega
    rw [h1, h2, ih]
    simp

end OntVerif.Proofs.Codec

namespace OntVerif.Proofs.Codec
open OntVerif.Util OntVerif.Model.Codec

/-- what every reader preserves -/
def Adv (s s' : Src) : Prop := s'.bs = s.bs ∧ s.off ≤ s'.off ∧ s'.off ≤ s'.bs.length

theorem Adv.wf {s s' : Src} (h : Adv s s') (w : s.wf) : s'.wf := by
  obtain ⟨h1, _, h3⟩ := h
  exact ⟨h3, by rw [h1]; exact w.2⟩

theorem Adv.trans {a b c : Src} (h1 : Adv a b) (h2 : Adv b c) : Adv a c :=
  ⟨by rw [h2.1, h1.1], Nat.le_trans h1.2.1 h2.2.1, h2.2.2⟩

theorem Adv.refl {s : Src} (w : s.wf) : Adv s s := ⟨rfl, Nat.le_refl _, w.1⟩

theorem nextBytes_total (s : Src) (n : Nat) (w : s.wf) (_hn : n < two64) :
    ∃ d e s', nextBytes s n = some ((d, e), s') ∧ Adv s s' ∧
      (e = false → d.length = n ∧ s'.off = s.off + n ∧ d = (s.bs.drop s.off).take n) := by
  obtain ⟨w1, w2⟩ := w
  unfold nextBytes safeAdd goSlice
  simp only
  by_cases hov : n > two64 - 1 - s.off
  · have : (decide (n > two64 - 1 - s.off) || decide ((s.off + n) % two64 > s.bs.length)) = true := by simp [hov]
    simp only [this, if_true]
    simp only [w1, Nat.le_refl, and_self, if_true]
    exact ⟨_, _, _, rfl, ⟨rfl, w1, Nat.le_refl _⟩, by intro h; cases h⟩
  · have hsum : s.off + n < two64 := by unfold two64 at *; omega
    have hmod : (s.off + n) % two64 = s.off + n := Nat.mod_eq_of_lt hsum
    rw [hmod]
    by_cases hgt : s.off + n > s.bs.length
    · have : (decide (n > two64 - 1 - s.off) || decide (s.off + n > s.bs.length)) = true := by simp [hgt]
      simp only [this, if_true]
      simp only [w1, Nat.le_refl, and_self, if_true]
      exact ⟨_, _, _, rfl, ⟨rfl, w1, Nat.le_refl _⟩, by intro h; cases h⟩
    · have : (decide (n > two64 - 1 - s.off) || decide (s.off + n > s.bs.length)) = false := by simp [hov, hgt]
      simp only [this]
      have h1 : s.off ≤ s.off + n ∧ s.off + n ≤ s.bs.length := ⟨by omega, by omega⟩
      simp only [Bool.false_eq_true, if_false, h1, and_self, if_true]
      refine ⟨_, _, _, rfl, ⟨rfl, by simp, by simp; omega⟩, ?_⟩
      intro _
      refine ⟨?_, rfl, by simp⟩
      simp; omega

theorem skip_adv (s : Src) (n : Nat) (w : s.wf) : Adv s (skip s n).2 := by
  obtain ⟨w1, w2⟩ := w
  unfold skip safeAdd
  simp only
  split
  · exact ⟨rfl, w1, Nat.le_refl _⟩
  · rename_i h
    simp only [Bool.or_eq_true, decide_eq_true_eq, not_or, Nat.not_lt] at h
    have hsum : s.off + n < two64 := by unfold two64 at *; omega
    rw [Nat.mod_eq_of_lt hsum] at h ⊢
    exact ⟨rfl, by simp, by simp; omega⟩

theorem nextByte_adv (s : Src) (w : s.wf) : Adv s (nextByte s).2 := by
  unfold nextByte
  split
  · exact Adv.refl w
  · rename_i b hb
    have := (List.getElem?_eq_some_iff.mp hb).1
    exact ⟨rfl, by simp, by simp; omega⟩

theorem nextBool_adv (s : Src) (w : s.wf) : Adv s (nextBool s).2 := by
  have := nextByte_adv s w
  unfold nextBool
  split
  rename_i v eof s' heq
  rw [heq] at this
  simp only at this
  repeat' split
  all_goals exact this

theorem nextUintN_total (k : Nat) (s : Src) (w : s.wf) (hk : k < two64) :
    ∃ r s', nextUintN k s = some (r, s') ∧ Adv s s' := by
  obtain ⟨d, e, s', h, adv, _⟩ := nextBytes_total s k w hk
  unfold nextUintN
  rw [h]
  cases e <;> exact ⟨_, _, rfl, adv⟩

theorem nextFixed_total (k : Nat) (s : Src) (w : s.wf) (hk : k < two64) :
    ∃ r s', nextFixed k s = some (r, s') ∧ Adv s s' := by
  obtain ⟨d, e, s', h, adv, _⟩ := nextBytes_total s k w hk
  unfold nextFixed
  rw [h]
  cases e <;> exact ⟨_, _, rfl, adv⟩

theorem nextVarUint_total (s : Src) (w : s.wf) :
    ∃ r s', nextVarUint s = some (r, s') ∧ Adv s s' ∧ r.val < two64 := by
  have h1 := nextByte_adv s w
  unfold nextVarUint
  generalize hnb : nextByte s = nb at h1
  obtain ⟨⟨fb, eof⟩, s1⟩ := nb
  simp only at h1 ⊢
  cases eof
  · simp only [Bool.false_eq_true, if_false]
    generalize hk : prefixK fb = k
    have hk8 : k ≤ 8 := by
      subst hk
      unfold prefixK
      repeat' split
      all_goals omega
    by_cases hk0 : (k == 0) = true
    · simp only [hk0, if_true]
      refine ⟨_, _, rfl, h1, ?_⟩
      show fb.toNat < two64
      have := fb.toNat_lt; unfold two64; omega
    · simp only [hk0, Bool.false_eq_true, if_false]
      have hk64 : k < two64 := by unfold two64; omega
      obtain ⟨d, e, s2, hb, adv, hd⟩ := nextBytes_total s1 k (h1.wf w) hk64
      unfold nextUintN
      rw [hb]
      cases e
      · simp only [Bool.false_eq_true, if_false]
        refine ⟨_, _, rfl, h1.trans adv, ?_⟩
        show fromLE d < two64
        have hlen := (hd rfl).1
        have := fromLE_lt d
        rw [hlen] at this
        refine Nat.lt_of_lt_of_le this ?_
        show 256 ^ k ≤ 256 ^ 8
        exact Nat.pow_le_pow_right (by omega) hk8
      · simp only [if_true]
        exact ⟨_, _, rfl, h1.trans adv, by unfold two64; simp⟩
  · simp only [if_true]
    exact ⟨_, _, rfl, h1, by unfold two64; simp⟩

theorem nextVarBytes_total (s : Src) (w : s.wf) :
    ∃ r s', nextVarBytes s = some (r, s') ∧ Adv s s' := by
  obtain ⟨r, s1, h, adv, hv⟩ := nextVarUint_total s w
  unfold nextVarBytes
  rw [h]
  simp only
  split
  · obtain ⟨d, e, s2, hb, adv2, _⟩ := nextBytes_total s1 r.val (adv.wf w) hv
    rw [hb]
    exact ⟨_, _, rfl, adv.trans adv2⟩
  · exact ⟨_, _, rfl, adv⟩

theorem stepR_total (s : Src) (op : ROp) (w : s.wf) (ha : op.argOK) :
    ∃ s', stepR s op = some s' ∧ Adv s s' := by
  cases op with
  | u8 => exact ⟨_, rfl, nextByte_adv s w⟩
  | u16 => obtain ⟨r, s', h, a⟩ := nextUintN_total 2 s w (by unfold two64; omega); exact ⟨s', by simp [stepR, h], a⟩
  | u32 => obtain ⟨r, s', h, a⟩ := nextUintN_total 4 s w (by unfold two64; omega); exact ⟨s', by simp [stepR, h], a⟩
  | u64 => obtain ⟨r, s', h, a⟩ := nextUintN_total 8 s w (by unfold two64; omega); exact ⟨s', by simp [stepR, h], a⟩
  | bool => exact ⟨_, rfl, nextBool_adv s w⟩
  | vu => obtain ⟨r, s', h, a, _⟩ := nextVarUint_total s w; exact ⟨s', by simp [stepR, h], a⟩
  | vb => obtain ⟨r, s', h, a⟩ := nextVarBytes_total s w; exact ⟨s', by simp [stepR, h], a⟩
  | fixed k => obtain ⟨r, s', h, a⟩ := nextFixed_total k s w ha; exact ⟨s', by simp [stepR, h], a⟩
  | bytes n => obtain ⟨d, e, s', h, a, _⟩ := nextBytes_total s n w ha; exact ⟨s', by simp [stepR, h], a⟩
  | skip n => exact ⟨_, rfl, skip_adv s n w⟩

end OntVerif.Proofs.Codec

namespace OntVerif.Proofs.Codec
open OntVerif.Util OntVerif.Model.Codec

/-- reading `d.length` bytes placed at the cursor returns exactly `d` -/
theorem nextBytes_append (pre d rest : Bytes) (hlen : (pre ++ d ++ rest).length < two64) :
    nextBytes ⟨pre ++ d ++ rest, pre.length⟩ d.length
      = some ((d, false), ⟨pre ++ d ++ rest, pre.length + d.length⟩) := by
  have w : (⟨pre ++ d ++ rest, pre.length⟩ : Src).wf := ⟨by simp, hlen⟩
  have hn : d.length < two64 := by simp at hlen; omega
  obtain ⟨d', e, s', h, adv, hd⟩ := nextBytes_total _ _ w hn
  have he : e = false := by
    -- eof would need off + n > len
    unfold nextBytes safeAdd goSlice at h
    simp only at h
    have hsum : pre.length + d.length < two64 := by simp at hlen; omega
    have hov : ¬ (d.length > two64 - 1 - pre.length) := by unfold two64 at *; omega
    rw [Nat.mod_eq_of_lt hsum] at h
    have hgt : ¬ (pre.length + d.length > (pre ++ d ++ rest).length) := by simp
    have hb : (decide (d.length > two64 - 1 - pre.length) || decide (pre.length + d.length > (pre ++ d ++ rest).length)) = false := by
      simp [hov]
    rw [hb] at h
    simp only [Bool.false_eq_true, if_false] at h
    split at h
    · cases h
    · injection h with h; injection h with h1 h2; injection h1 with _ h4; exact h4.symm
  subst he
  obtain ⟨_, hoff, hdd⟩ := hd rfl
  rw [h]
  have : d' = d := by
    rw [hdd]; simp
  subst this
  obtain ⟨hbs, _, _⟩ := adv
  cases s'
  simp only at hbs hoff
  subst hbs hoff
  rfl

theorem nextByte_append (pre : Bytes) (b : UInt8) (rest : Bytes) :
    nextByte ⟨pre ++ b :: rest, pre.length⟩ = ((b, false), ⟨pre ++ b :: rest, pre.length + 1⟩) := by
  unfold nextByte
  simp

theorem rt_uintN (k v : Nat) (hv : v < 256 ^ k) (pre rest : Bytes)
    (hlen : (pre ++ writeUintN k v ++ rest).length < two64) :
    nextUintN k ⟨pre ++ writeUintN k v ++ rest, pre.length⟩
      = some ((v, false), ⟨pre ++ writeUintN k v ++ rest, pre.length + k⟩) := by
  have h := nextBytes_append pre (writeUintN k v) rest hlen
  unfold writeUintN at *
  rw [leN_length] at h
  unfold nextUintN
  rw [h]
  simp [fromLE_leN k v hv]

theorem writeVarUint_length (v : Nat) : (writeVarUint v).length = getVarUintSize v := by
  unfold writeVarUint getVarUintSize
  repeat' split
  all_goals simp [leN_length]

end OntVerif.Proofs.Codec

namespace OntVerif.Proofs.Codec
open OntVerif.Util OntVerif.Model.Codec

theorem prefixK_le (fb : UInt8) : prefixK fb ≤ 8 := by
  unfold prefixK
  repeat' split
  all_goals omega

theorem nextVarUint_plain (pre : Bytes) (fb : UInt8) (rest : Bytes) (hk : prefixK fb = 0) :
    nextVarUint ⟨pre ++ fb :: rest, pre.length⟩
      = some (⟨fb.toNat, 1, 1 != getVarUintSize fb.toNat, false⟩, ⟨pre ++ fb :: rest, pre.length + 1⟩) := by
  unfold nextVarUint
  rw [nextByte_append]
  simp only [Bool.false_eq_true, if_false, hk, beq_self_eq_true, if_true]

theorem nextVarUint_wide (pre : Bytes) (fb : UInt8) (d rest : Bytes) (hk : prefixK fb ≠ 0)
    (hd : d.length = prefixK fb) (hlen : (pre ++ fb :: d ++ rest).length < two64) :
    nextVarUint ⟨pre ++ fb :: d ++ rest, pre.length⟩
      = some (⟨fromLE d, prefixK fb + 1, (prefixK fb + 1) != getVarUintSize (fromLE d), false⟩,
              ⟨pre ++ fb :: d ++ rest, pre.length + 1 + prefixK fb⟩) := by
  unfold nextVarUint
  have e1 : pre ++ fb :: d ++ rest = pre ++ fb :: (d ++ rest) := by simp
  rw [e1, nextByte_append]
  have hk' : (prefixK fb == 0) = false := by simpa using hk
  simp only [Bool.false_eq_true, if_false, hk']
  have e2 : pre ++ fb :: (d ++ rest) = (pre ++ [fb]) ++ d ++ rest := by simp
  have hl2 : ((pre ++ [fb]) ++ d ++ rest).length < two64 := by rw [← e2, ← e1]; exact hlen
  have h := nextBytes_append (pre ++ [fb]) d rest hl2
  rw [hd] at h
  unfold nextUintN
  rw [e2]
  have e3 : (pre ++ [fb]).length = pre.length + 1 := by simp
  rw [e3] at h
  rw [h]
  simp

/-- decomposition of a successful, non-eof var-uint read -/
theorem nextVarUint_shape (s : Src) (w : s.wf) (r : VarRes) (s' : Src)
    (h : nextVarUint s = some (r, s')) (he : r.eof = false) :
    ∃ pre fb tail, s = ⟨pre ++ fb :: tail, pre.length⟩ ∧
      ((prefixK fb = 0 ∧ r = ⟨fb.toNat, 1, 1 != getVarUintSize fb.toNat, false⟩) ∨
       (prefixK fb ≠ 0 ∧ ∃ d rest, tail = d ++ rest ∧ d.length = prefixK fb ∧
          r = ⟨fromLE d, prefixK fb + 1, (prefixK fb + 1) != getVarUintSize (fromLE d), false⟩)) := by
  obtain ⟨w1, w2⟩ := w
  obtain ⟨bs, off⟩ := s
  simp only at w1 w2
  cases hdrop : bs.drop off with
  | nil =>
    have hlen : bs.length ≤ off := by simpa using hdrop
    unfold nextVarUint nextByte at h
    have : bs[off]? = none := by simp; omega
    simp only [this] at h
    simp at h
    rw [← h.1] at he
    cases he
  | cons fb tail =>
    have hbs : bs = bs.take off ++ fb :: tail := by rw [← hdrop]; simp
    have hpl : (bs.take off).length = off := by simp; omega
    clear hdrop
    generalize bs.take off = pre at hbs hpl
    subst hbs; subst hpl
    refine ⟨pre, fb, tail, rfl, ?_⟩
    by_cases hk : prefixK fb = 0
    · left
      refine ⟨hk, ?_⟩
      rw [nextVarUint_plain _ _ _ hk] at h
      injection h with h; injection h with h1 _; exact h1.symm
    · right
      refine ⟨hk, ?_⟩
      by_cases hshort : tail.length < prefixK fb
      · exfalso
        unfold nextVarUint at h
        rw [nextByte_append] at h
        have hk' : (prefixK fb == 0) = false := by simpa using hk
        simp only [Bool.false_eq_true, if_false, hk'] at h
        have w' : (⟨pre ++ fb :: tail, pre.length + 1⟩ : Src).wf := ⟨by simp, w2⟩
        have hk8 : prefixK fb < two64 := by have := prefixK_le fb; unfold two64; omega
        obtain ⟨d, e, s2, hb, _, hd⟩ := nextBytes_total _ _ w' hk8
        unfold nextUintN at h
        rw [hb] at h
        cases e
        · have h1 := (hd rfl).1
          have h3 := (hd rfl).2.2
          rw [h3] at h1
          simp at h1
          omega
        · simp at h
          rw [← h.1] at he
          cases he
      · have hsplit : tail = tail.take (prefixK fb) ++ tail.drop (prefixK fb) := by simp
        have hdl : (tail.take (prefixK fb)).length = prefixK fb := by simp; omega
        refine ⟨_, _, hsplit, hdl, ?_⟩
        have e : pre ++ fb :: tail = pre ++ fb :: tail.take (prefixK fb) ++ tail.drop (prefixK fb) := by simp
        have hl : (pre ++ fb :: tail.take (prefixK fb) ++ tail.drop (prefixK fb)).length < two64 := by
          rw [← e]; exact w2
        rw [e, nextVarUint_wide _ _ _ _ hk hdl hl] at h
        injection h with h; injection h with h1 _; exact h1.symm

end OntVerif.Proofs.Codec

namespace OntVerif.Proofs.Codec
open OntVerif.Util OntVerif.Model.Codec

theorem prefixK_toNat (fb : UInt8) :
    prefixK fb = if fb.toNat = 253 then 2 else if fb.toNat = 254 then 4 else if fb.toNat = 255 then 8 else 0 := by
  unfold prefixK
  have h (c : UInt8) : (fb == c) = true ↔ fb.toNat = c.toNat := by
    simp [← UInt8.toNat_inj]
  simp only [h]
  rfl

theorem toNat_ofNat_lt (v : Nat) (h : v < 256) : (UInt8.ofNat v).toNat = v := by
  simp [UInt8.toNat_ofNat']; omega

/-- writing then reading a var-uint, at any position of any buffer -/
theorem rt_varuint (v : Nat) (hv : v < two64) (pre rest : Bytes)
    (hlen : (pre ++ writeVarUint v ++ rest).length < two64) :
    nextVarUint ⟨pre ++ writeVarUint v ++ rest, pre.length⟩
      = some (⟨v, getVarUintSize v, false, false⟩,
              ⟨pre ++ writeVarUint v ++ rest, pre.length + getVarUintSize v⟩) := by
  unfold writeVarUint at hlen ⊢
  by_cases h1 : v < 0xFD
  · simp only [h1, if_true] at hlen ⊢
    have hb := toNat_ofNat_lt v (by omega)
    have hk : prefixK (UInt8.ofNat v) = 0 := by
      rw [prefixK_toNat, hb]
      repeat' split
      all_goals omega
    have e : pre ++ [UInt8.ofNat v] ++ rest = pre ++ UInt8.ofNat v :: rest := by simp
    rw [e, nextVarUint_plain _ _ _ hk, hb]
    have : getVarUintSize v = 1 := by unfold getVarUintSize; simp [h1]
    simp [this]
  · simp only [h1, if_false] at hlen ⊢
    by_cases h2 : v ≤ 0xFFFF
    · simp only [h2, if_true] at hlen ⊢
      have hk : prefixK 0xFD = 2 := by decide
      have hd : (leN 2 v).length = prefixK 0xFD := by rw [leN_length, hk]
      rw [nextVarUint_wide pre 0xFD (leN 2 v) rest (by rw [hk]; omega) hd hlen]
      have hv' : fromLE (leN 2 v) = v := fromLE_leN 2 v (by omega)
      have : getVarUintSize v = 3 := by unfold getVarUintSize; simp [h1, h2]
      rw [hv', hk, this]
      simp
    · simp only [h2, if_false] at hlen ⊢
      by_cases h3 : v ≤ 0xFFFFFFFF
      · simp only [h3, if_true] at hlen ⊢
        have hk : prefixK 0xFE = 4 := by decide
        have hd : (leN 4 v).length = prefixK 0xFE := by rw [leN_length, hk]
        rw [nextVarUint_wide pre 0xFE (leN 4 v) rest (by rw [hk]; omega) hd hlen]
        have hv' : fromLE (leN 4 v) = v := fromLE_leN 4 v (by omega)
        have : getVarUintSize v = 5 := by unfold getVarUintSize; simp [h1, h2, h3]
        rw [hv', hk, this]
        simp
      · simp only [h3, if_false] at hlen ⊢
        have hk : prefixK 0xFF = 8 := by decide
        have hd : (leN 8 v).length = prefixK 0xFF := by rw [leN_length, hk]
        rw [nextVarUint_wide pre 0xFF (leN 8 v) rest (by rw [hk]; omega) hd hlen]
        have hv' : fromLE (leN 8 v) = v := fromLE_leN 8 v (by unfold two64 at hv; omega)
        have : getVarUintSize v = 9 := by unfold getVarUintSize; simp [h1, h2, h3]
        rw [hv', hk, this]
        simp

/-- the bytes a successful var-uint read consumed are the canonical encoding iff it is not flagged irregular -/
theorem varuint_canonical (s : Src) (w : s.wf) (r : VarRes) (s' : Src)
    (h : nextVarUint s = some (r, s')) (he : r.eof = false) :
    r.irregular = false ↔ (s.bs.drop s.off).take r.size = writeVarUint r.val := by
  obtain ⟨pre, fb, tail, hs, hcase⟩ := nextVarUint_shape s w r s' h he
  subst hs
  simp only [List.drop_left']
  rcases hcase with ⟨hk, hr⟩ | ⟨hk, d, rest, ht, hd, hr⟩
  · subst hr
    have hlt : fb.toNat < 0xFD := by
      rw [prefixK_toNat] at hk
      have := fb.toNat_lt
      repeat' split at hk
      all_goals omega
    have hsz : getVarUintSize fb.toNat = 1 := by unfold getVarUintSize; simp [hlt]
    have hw : writeVarUint fb.toNat = [fb] := by
      unfold writeVarUint; simp [hlt]
    simp [hsz, hw]
  · subst hr ht
    simp only
    have hfl := fromLE_lt d
    have hkk : (prefixK fb = 2 ∧ fb = 0xFD) ∨ (prefixK fb = 4 ∧ fb = 0xFE) ∨ (prefixK fb = 8 ∧ fb = 0xFF) := by
      have h (c : UInt8) : (fb == c) = true ↔ fb = c := by simp
      unfold prefixK at hk ⊢
      by_cases a : fb = 0xFD
      · left; simp [a]
      · by_cases b : fb = 0xFE
        · right; left; subst b; decide
        · by_cases c : fb = 0xFF
          · right; right; subst c; decide
          · simp [a, b, c] at hk
    have htake : (fb :: (d ++ rest)).take (prefixK fb + 1) = fb :: d := by
      simp [List.take_succ_cons, ← hd]
    rw [htake]
    constructor
    · intro hirr
      have hsz : getVarUintSize (fromLE d) = prefixK fb + 1 := by
        simp at hirr; omega
      unfold writeVarUint
      unfold getVarUintSize at hsz
      rcases hkk with ⟨k, f⟩ | ⟨k, f⟩ | ⟨k, f⟩ <;> rw [k] at hsz hd <;> subst f
      · have : ¬ fromLE d < 0xFD := by intro c; simp [c] at hsz
        have h2 : fromLE d ≤ 0xFFFF := by
          rw [hd] at hfl; omega
        simp only [this, if_false, h2, if_true]
        rw [← hd, leN_fromLE]
      · have h1 : ¬ fromLE d < 0xFD := by intro c; simp [c] at hsz
        have h2 : ¬ fromLE d ≤ 0xFFFF := by intro c; simp [h1, c] at hsz
        have h3 : fromLE d ≤ 0xFFFFFFFF := by rw [hd] at hfl; omega
        simp only [h1, h2, h3, if_false, if_true]
        rw [← hd, leN_fromLE]
      · have h1 : ¬ fromLE d < 0xFD := by intro c; simp [c] at hsz
        have h2 : ¬ fromLE d ≤ 0xFFFF := by intro c; simp [h1, c] at hsz
        have h3 : ¬ fromLE d ≤ 0xFFFFFFFF := by intro c; simp [h1, h2, c] at hsz
        simp only [h1, h2, h3, if_false]
        rw [← hd, leN_fromLE]
    · intro heq
      have hl := congrArg List.length heq
      rw [writeVarUint_length] at hl
      simp at hl
      simp
      omega

end OntVerif.Proofs.Codec
