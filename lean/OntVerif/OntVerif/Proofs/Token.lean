import OntVerif.Model.Token
/-!
# Helper lemmas for C06 (native ONT / ONG token contracts)

`sumBal l t` is the sum of the balances of the accounts in `l`.  Every primitive of the model gets an `_ok` lemma
(what a completed call did, as an equation on the cache) and a `_fail` lemma (what a failing call leaves behind).
-/
namespace OntVerif.Proofs.Token
open OntVerif.Model.Token

/-- sum of the balances of the accounts in `l` -/
def sumBal (l : List Addr) (t : Tok) : Nat := (l.map t.bal).sum

@[simp] theorem setAllow_bal (t : Tok) (o sp : Addr) (v : Nat) : (t.setAllow o sp v).bal = t.bal := rfl
@[simp] theorem setBal_allow (t : Tok) (a : Addr) (v : Nat) : (t.setBal a v).allow = t.allow := rfl
@[simp] theorem setBal_bal_self (t : Tok) (a : Addr) (v : Nat) : (t.setBal a v).bal a = v := by simp [Tok.setBal]
theorem setBal_bal_other (t : Tok) (a x : Addr) (v : Nat) (h : x ≠ a) : (t.setBal a v).bal x = t.bal x := by
  simp [Tok.setBal, h]
theorem setBal_bal (t : Tok) (a x : Addr) (v : Nat) : (t.setBal a v).bal x = if x = a then v else t.bal x := rfl
theorem setAllow_allow (t : Tok) (o sp x y : Addr) (v : Nat) :
    (t.setAllow o sp v).allow x y = if x = o ∧ y = sp then v else t.allow x y := rfl

theorem sumBal_setAllow (l : List Addr) (t : Tok) (o sp : Addr) (v : Nat) :
    sumBal l (t.setAllow o sp v) = sumBal l t := rfl

theorem sumBal_setBal_notin (l : List Addr) (t : Tok) (a : Addr) (v : Nat) (h : a ∉ l) :
    sumBal l (t.setBal a v) = sumBal l t := by
  induction l with
  | nil => rfl
  | cons x xs ih =>
    simp only [List.mem_cons, not_or] at h
    simp only [sumBal, List.map_cons, List.sum_cons]
    rw [setBal_bal_other t a x v (fun e => h.1 e.symm)]
    have := ih h.2
    simp only [sumBal] at this
    rw [this]

theorem sumBal_setBal_in (l : List Addr) (t : Tok) (a : Addr) (v : Nat) (hn : l.Nodup) (h : a ∈ l) :
    sumBal l (t.setBal a v) + t.bal a = sumBal l t + v := by
  induction l with
  | nil => simp at h
  | cons x xs ih =>
    have hx : x ∉ xs := (List.nodup_cons.mp hn).1
    have hn' : xs.Nodup := (List.nodup_cons.mp hn).2
    simp only [sumBal, List.map_cons, List.sum_cons]
    by_cases hax : a = x
    · subst hax
      have := sumBal_setBal_notin xs t a v hx
      simp only [sumBal] at this
      rw [this, setBal_bal_self]
      omega
    · have hm : a ∈ xs := by
        cases List.mem_cons.mp h with
        | inl e => exact absurd e hax
        | inr m => exact m
      have := ih hn' hm
      simp only [sumBal] at this
      rw [setBal_bal_other t a x v (fun e => hax e.symm)]
      omega

theorem bal_le_sumBal (l : List Addr) (t : Tok) (a : Addr) (h : a ∈ l) : t.bal a ≤ sumBal l t := by
  induction l with
  | nil => simp at h
  | cons x xs ih =>
    simp only [sumBal, List.map_cons, List.sum_cons]
    cases List.mem_cons.mp h with
    | inl e => subst e; omega
    | inr m => have := ih m; simp only [sumBal] at this; omega

/-! ### the three primitives -/

theorem reduceFrom_ok (t : Tok) (a : Addr) (v old : Nat) (t' : Tok) (h : reduceFrom t a v = .ok old t') :
    old = t.bal a ∧ v ≤ t.bal a ∧ t' = t.setBal a (t.bal a - v) := by
  unfold reduceFrom at h
  simp only at h
  split at h
  · cases h
  · split at h
    · rename_i h0
      cases h
      refine ⟨rfl, by omega, ?_⟩
      rw [h0]
    · split at h
      · cases h; exact ⟨rfl, by omega, rfl⟩
      · cases h

theorem reduceFrom_fail (t : Tok) (a : Addr) (v : Nat) (r : Err) (t' : Tok) (h : reduceFrom t a v = .fail r t') :
    t' = t := by
  unfold reduceFrom at h
  simp only at h
  split at h
  · cases h; rfl
  · split at h
    · cases h
    · split at h
      · cases h
      · cases h; rfl

theorem increaseTo_ok (t : Tok) (a : Addr) (v old : Nat) (t' : Tok) (h : increaseTo t a v = .ok old t') :
    old = t.bal a ∧ t' = t.setBal a (t.bal a + v) := by
  unfold increaseTo at h
  simp only at h
  split at h
  · cases h; exact ⟨rfl, rfl⟩
  · cases h

theorem increaseTo_fail (t : Tok) (a : Addr) (v : Nat) (r : Err) (t' : Tok) (h : increaseTo t a v = .fail r t') :
    t' = t ∧ r = .panic := by
  unfold increaseTo at h
  simp only at h
  split at h
  · cases h
  · cases h; exact ⟨rfl, rfl⟩

theorem fromApprove_ok (t : Tok) (o sp : Addr) (v : Nat) (t' : Tok) (h : fromApprove t o sp v = .ok () t') :
    v ≤ t.allow o sp ∧ t' = t.setAllow o sp (t.allow o sp - v) := by
  unfold fromApprove at h
  simp only at h
  split at h
  · cases h
  · split at h
    · rename_i h0
      cases h
      refine ⟨by omega, ?_⟩
      rw [h0]
    · split at h
      · cases h; exact ⟨by omega, rfl⟩
      · cases h

theorem fromApprove_fail (t : Tok) (o sp : Addr) (v : Nat) (r : Err) (t' : Tok) (h : fromApprove t o sp v = .fail r t') :
    t' = t := by
  unfold fromApprove at h
  simp only at h
  split at h
  · cases h; rfl
  · split at h
    · cases h
    · split at h
      · cases h
      · cases h; rfl


/-! ### a transfer of `v` from `frm` to `to` in the order debit-write, credit-read, credit-write -/

def movedTok (t : Tok) (frm to : Addr) (v : Nat) : Tok :=
  (t.setBal frm (t.bal frm - v)).setBal to ((t.setBal frm (t.bal frm - v)).bal to + v)

@[simp] theorem movedTok_allow (t : Tok) (frm to : Addr) (v : Nat) : (movedTok t frm to v).allow = t.allow := rfl

theorem movedTok_sum (l : List Addr) (t : Tok) (frm to : Addr) (v : Nat) (hn : l.Nodup) (hf : frm ∈ l) (ht : to ∈ l)
    (hv : v ≤ t.bal frm) : sumBal l (movedTok t frm to v) = sumBal l t := by
  unfold movedTok
  have h1 := sumBal_setBal_in l t frm (t.bal frm - v) hn hf
  have h2 := sumBal_setBal_in l (t.setBal frm (t.bal frm - v)) to
    ((t.setBal frm (t.bal frm - v)).bal to + v) hn ht
  have h3 := bal_le_sumBal l t frm hf
  omega

/-- only `frm` can end up with less than before (and not even `frm` in a self-transfer) -/
theorem movedTok_bal_lt (t : Tok) (frm to a : Addr) (v : Nat) (h : (movedTok t frm to v).bal a < t.bal a) : a = frm := by
  unfold movedTok at h
  rw [setBal_bal] at h
  by_cases h1 : a = to
  · rw [if_pos h1, setBal_bal] at h
    by_cases h2 : to = frm
    · rw [← h2]; exact h1
    · rw [if_neg h2, ← h1] at h; omega
  · rw [if_neg h1, setBal_bal] at h
    by_cases h2 : a = frm
    · exact h2
    · rw [if_neg h2] at h; omega

theorem movedTok_bal_frm (t : Tok) (frm to : Addr) (v : Nat) (hne : frm ≠ to) :
    (movedTok t frm to v).bal frm = t.bal frm - v := by
  unfold movedTok
  rw [setBal_bal, if_neg hne, setBal_bal_self]

theorem transferPrim_ok (env : Env) (c : Option Addr) (t : Tok) (frm to : Addr) (v oF oT : Nat) (t' : Tok)
    (h : transferPrim env c t frm to v = .ok (oF, oT) t') :
    witness env c frm = true ∧ v ≤ t.bal frm ∧ oF = t.bal frm ∧ t' = movedTok t frm to v := by
  unfold transferPrim at h
  split at h
  · cases h
  · rename_i hw
    split at h
    · cases h
    · rename_i old1 t1 h1
      obtain ⟨e1, e2, e3⟩ := reduceFrom_ok _ _ _ _ _ h1
      split at h
      · cases h
      · rename_i old2 t2 h2
        obtain ⟨e4, e5⟩ := increaseTo_ok _ _ _ _ _ h2
        cases h
        refine ⟨by simpa using hw, e2, e1, ?_⟩
        rw [e5, e3]; rfl

theorem transferPrim_fail (env : Env) (c : Option Addr) (t : Tok) (frm to : Addr) (v : Nat) (r : Err) (t' : Tok)
    (h : transferPrim env c t frm to v = .fail r t') : r = .panic ∨ t' = t := by
  unfold transferPrim at h
  split at h
  · cases h; exact Or.inr rfl
  · split at h
    · rename_i r1 t1 h1
      cases h
      exact Or.inr (reduceFrom_fail _ _ _ _ _ h1)
    · split at h
      · rename_i r2 t2 h2
        cases h
        exact Or.inl (increaseTo_fail _ _ _ _ _ h2).2
      · cases h

theorem transferFromPrim_ok (env : Env) (c : Option Addr) (t : Tok) (sender frm to : Addr) (v oF oT : Nat) (t' : Tok)
    (h : transferFromPrim env c t sender frm to v = .ok (oF, oT) t') :
    transferFromAllowed env c sender frm to = true ∧ v ≤ t.allow frm sender ∧ v ≤ t.bal frm ∧ oF = t.bal frm ∧
      t' = movedTok (t.setAllow frm sender (t.allow frm sender - v)) frm to v := by
  unfold transferFromPrim at h
  split at h
  · cases h
  · rename_i hw
    split at h
    · cases h
    · rename_i u t1 h1
      obtain ⟨a1, a2⟩ := fromApprove_ok _ _ _ _ _ h1
      split at h
      · cases h
      · rename_i old1 t2 h2
        obtain ⟨e1, e2, e3⟩ := reduceFrom_ok _ _ _ _ _ h2
        split at h
        · cases h
        · rename_i old2 t3 h3
          obtain ⟨e4, e5⟩ := increaseTo_ok _ _ _ _ _ h3
          cases h
          subst a2
          refine ⟨by simpa using hw, a1, e2, e1, ?_⟩
          rw [e5, e3]; rfl

/-- a failing `TransferedFrom` that did not panic has not touched any balance (it may have consumed the allowance) -/
theorem transferFromPrim_fail (env : Env) (c : Option Addr) (t : Tok) (sender frm to : Addr) (v : Nat) (r : Err) (t' : Tok)
    (h : transferFromPrim env c t sender frm to v = .fail r t') : r = .panic ∨ t'.bal = t.bal := by
  unfold transferFromPrim at h
  split at h
  · cases h; exact Or.inr rfl
  · split at h
    · rename_i r1 t1 h1
      cases h
      rw [fromApprove_fail _ _ _ _ _ _ h1]; exact Or.inr rfl
    · rename_i u t1 h1
      obtain ⟨a1, a2⟩ := fromApprove_ok _ _ _ _ _ h1
      split at h
      · rename_i r2 t2 h2
        cases h
        rw [reduceFrom_fail _ _ _ _ _ h2, a2]; exact Or.inr rfl
      · split at h
        · rename_i r3 t3 h3
          cases h
          exact Or.inl (increaseTo_fail _ _ _ _ _ h3).2
        · cases h

/-! ### the ONG grant triggered by an ONT balance change -/

/-- ONG balances after a grant step: untouched, or an amount moved from the ONT contract's pool to `address` -/
def GrantRel (env : Env) (address : Addr) (g g' : Tok) : Prop :=
  g'.bal = g.bal ∨ ∃ A v, A.bal = g.bal ∧ v ≤ A.bal env.ontAddr ∧ g' = movedTok A env.ontAddr address v

theorem GrantRel.sum {env : Env} {address : Addr} {g g' : Tok} (h : GrantRel env address g g') (l : List Addr)
    (hn : l.Nodup) (ho : env.ontAddr ∈ l) (ha : address ∈ l) : sumBal l g' = sumBal l g := by
  cases h with
  | inl e => unfold sumBal; rw [e]
  | inr h =>
    obtain ⟨A, v, e1, e2, e3⟩ := h
    rw [e3, movedTok_sum l A _ _ v hn ho ha e2]
    unfold sumBal; rw [e1]

theorem GrantRel.debit {env : Env} {address : Addr} {g g' : Tok} (h : GrantRel env address g g') (a : Addr)
    (hlt : g'.bal a < g.bal a) : a = env.ontAddr := by
  cases h with
  | inl e => rw [e] at hlt; omega
  | inr h =>
    obtain ⟨A, v, e1, e2, e3⟩ := h
    rw [e3, ← e1] at hlt
    exact movedTok_bal_lt A _ _ a v hlt

theorem grantTransferFrom_ok (env : Env) (g : Tok) (address : Addr) (total : Nat) (g' : Tok)
    (h : grantTransferFrom env g address total = .ok () g') : GrantRel env address g g' := by
  unfold grantTransferFrom at h
  split at h
  · cases h; exact Or.inl rfl
  · split at h
    · cases h
    · split at h
      · cases h
      · rename_i p g1 h1
        cases h
        obtain ⟨oF, oT⟩ := p
        obtain ⟨_, _, b2, _, b4⟩ := transferFromPrim_ok _ _ _ _ _ _ _ _ _ _ h1
        exact Or.inr ⟨g.setAllow env.ontAddr address (g.allow env.ontAddr address - total), total, rfl, b2, b4⟩

theorem grantTransferFrom_fail (env : Env) (g : Tok) (address : Addr) (total : Nat) (r : Err) (g' : Tok)
    (h : grantTransferFrom env g address total = .fail r g') : r = .panic ∨ g'.bal = g.bal := by
  unfold grantTransferFrom at h
  split at h
  · cases h
  · split at h
    · cases h; exact Or.inr rfl
    · split at h
      · rename_i r1 g1 h1
        cases h
        exact transferFromPrim_fail _ _ _ _ _ _ _ _ _ h1
      · cases h

theorem grantPay_ok (env : Env) (s1 : St) (address : Addr) (total endOffset : Nat) (s' : St)
    (h : grantPay env s1 address total endOffset = .ok () s') : s'.ont = s1.ont ∧ GrantRel env address s1.ong s'.ong := by
  unfold grantPay at h
  split at h
  · split at h
    · cases h
    · rename_i u g1 h1
      cases h
      exact ⟨rfl, grantTransferFrom_ok _ _ _ _ _ h1⟩
  · cases h; exact ⟨rfl, Or.inl rfl⟩

theorem grantPay_fail (env : Env) (s1 : St) (address : Addr) (total endOffset : Nat) (r : Err) (s' : St)
    (h : grantPay env s1 address total endOffset = .fail r s') :
    s'.ont = s1.ont ∧ (r = .panic ∨ s'.ong.bal = s1.ong.bal) := by
  unfold grantPay at h
  split at h
  · split at h
    · rename_i r1 g1 h1
      cases h
      exact ⟨rfl, grantTransferFrom_fail _ _ _ _ _ _ h1⟩
    · cases h
  · cases h

theorem grantAccrue_ok (env : Env) (s : St) (address : Addr) (balance so eo : Nat) (s' : St)
    (h : grantAccrue env s address balance so eo = .ok () s') : s'.ont = s.ont ∧ GrantRel env address s.ong s'.ong := by
  unfold grantAccrue at h
  split at h
  · cases h
  · dsimp only at h
    split at h
    · cases h
    · split at h
      · cases h
      · split at h
        · cases h
        · obtain ⟨e1, e2⟩ := grantPay_ok _ _ _ _ _ _ h
          refine ⟨e1, ?_⟩
          cases e2 with
          | inl e => exact Or.inl e
          | inr e =>
            obtain ⟨A, v, a1, a2, a3⟩ := e
            exact Or.inr ⟨A, v, a1, a2, a3⟩

theorem grantAccrue_fail (env : Env) (s : St) (address : Addr) (balance so eo : Nat) (r : Err) (s' : St)
    (h : grantAccrue env s address balance so eo = .fail r s') :
    s'.ont = s.ont ∧ (r = .panic ∨ s'.ong.bal = s.ong.bal) := by
  unfold grantAccrue at h
  split at h
  · cases h; exact ⟨rfl, Or.inl rfl⟩
  · dsimp only at h
    split at h
    · cases h; exact ⟨rfl, Or.inl rfl⟩
    · split at h
      · cases h; exact ⟨rfl, Or.inr rfl⟩
      · split at h
        · cases h; exact ⟨rfl, Or.inr rfl⟩
        · have := grantPay_fail _ _ _ _ _ _ _ h
          exact this

theorem grantOng_ok (env : Env) (s : St) (address : Addr) (balance : Nat) (s' : St)
    (h : grantOng env s address balance = .ok () s') : s'.ont = s.ont ∧ GrantRel env address s.ong s'.ong := by
  unfold grantOng at h
  dsimp only at h
  split at h
  · cases h; exact ⟨rfl, Or.inl rfl⟩
  · split at h
    · split at h
      · cases h; exact ⟨rfl, Or.inl rfl⟩
      · cases h
    · split at h
      · cases h; exact ⟨rfl, Or.inl rfl⟩
      · split at h
        · cases h; exact ⟨rfl, Or.inl rfl⟩
        · exact grantAccrue_ok _ _ _ _ _ _ _ h

theorem grantOng_fail (env : Env) (s : St) (address : Addr) (balance : Nat) (r : Err) (s' : St)
    (h : grantOng env s address balance = .fail r s') : s'.ont = s.ont ∧ (r = .panic ∨ s'.ong.bal = s.ong.bal) := by
  unfold grantOng at h
  dsimp only at h
  split at h
  · cases h
  · split at h
    · split at h
      · cases h
      · cases h; exact ⟨rfl, Or.inr rfl⟩
    · split at h
      · cases h
      · split at h
        · cases h
        · exact grantAccrue_fail _ _ _ _ _ _ _ _ h

/-! ### balance relations that compose along a call -/

/-- between two caches: whoever has less than before satisfies `W`, and the sum over any duplicate-free account
list containing the parties `P` is the same -/
def BalRel (W : Addr → Prop) (P : List Addr) (t t' : Tok) : Prop :=
  (∀ a, t'.bal a < t.bal a → W a) ∧ (∀ l : List Addr, l.Nodup → (∀ a ∈ P, a ∈ l) → sumBal l t' = sumBal l t)

theorem BalRel.of_bal_eq {W : Addr → Prop} {P : List Addr} {t t' : Tok} (h : t'.bal = t.bal) : BalRel W P t t' := by
  refine ⟨fun a hlt => ?_, fun l _ _ => ?_⟩
  · rw [h] at hlt; omega
  · unfold sumBal; rw [h]

theorem BalRel.refl (W : Addr → Prop) (P : List Addr) (t : Tok) : BalRel W P t t := BalRel.of_bal_eq rfl

theorem BalRel.trans {W : Addr → Prop} {P : List Addr} {t t1 t2 : Tok} (h1 : BalRel W P t t1) (h2 : BalRel W P t1 t2) :
    BalRel W P t t2 := by
  refine ⟨fun a hlt => ?_, fun l hn hp => ?_⟩
  · by_cases h : t1.bal a < t.bal a
    · exact h1.1 a h
    · exact h2.1 a (by omega)
  · rw [h2.2 l hn hp, h1.2 l hn hp]

theorem BalRel.mono {W : Addr → Prop} {P P' : List Addr} {t t' : Tok} (h : BalRel W P t t') (hp : ∀ a ∈ P, a ∈ P') :
    BalRel W P' t t' :=
  ⟨h.1, fun l hn hl => h.2 l hn (fun a ha => hl a (hp a ha))⟩

theorem BalRel.moved {W : Addr → Prop} (t : Tok) (frm to : Addr) (v : Nat) (hv : v ≤ t.bal frm) (hw : W frm) :
    BalRel W [frm, to] t (movedTok t frm to v) := by
  refine ⟨fun a hlt => ?_, fun l hn hp => ?_⟩
  · rw [movedTok_bal_lt t frm to a v hlt]; exact hw
  · exact movedTok_sum l t frm to v hn (hp frm (by simp)) (hp to (by simp)) hv

theorem GrantRel.balRel {env : Env} {address : Addr} {g g' : Tok} (h : GrantRel env address g g') :
    BalRel (fun a => a = env.ontAddr) [env.ontAddr, address] g g' :=
  ⟨fun a hlt => h.debit a hlt, fun l hn hp => h.sum l hn (hp _ (by simp)) (hp _ (by simp))⟩

theorem setTok_tok (s : St) (k : Token) : s.setTok k (s.tok k) = s := by cases k <;> rfl
@[simp] theorem tok_setTok (s : St) (k : Token) (t : Tok) : (s.setTok k t).tok k = t := by cases k <;> rfl

/-- both grants: ONT storage untouched; ONG only moves out of the ONT contract's pool, balanced -/
theorem grantBoth_spec (env : Env) (s : St) (frm to : Addr) (oF oT : Nat) (res : R St Unit)
    (h : grantBoth env s frm to oF oT = res) :
    res.panicked ∨
    (res.st.ont = s.ont ∧ BalRel (fun a => a = env.ontAddr) [env.ontAddr, frm, to] s.ong res.st.ong) := by
  unfold grantBoth at h
  split at h
  · subst h; exact Or.inl rfl
  · split at h
    · rename_i r s1 h1
      subst h
      obtain ⟨e1, e2⟩ := grantOng_fail _ _ _ _ _ _ h1
      cases e2 with
      | inl p => exact Or.inl p
      | inr e => exact Or.inr ⟨e1, BalRel.of_bal_eq e⟩
    · rename_i u s1 h1
      obtain ⟨e1, e2⟩ := grantOng_ok _ _ _ _ _ h1
      have r1 : BalRel (fun a => a = env.ontAddr) [env.ontAddr, frm, to] s.ong s1.ong :=
        e2.balRel.mono (by intro a ha; simp at ha ⊢; cases ha with | inl h => exact Or.inl h | inr h => exact Or.inr (Or.inl h))
      split at h
      · subst h; exact Or.inl rfl
      · cases h2 : grantOng env s1 to (oT / SF) with
        | fail r s2 =>
          rw [h2] at h; subst h
          obtain ⟨f1, f2⟩ := grantOng_fail _ _ _ _ _ _ h2
          cases f2 with
          | inl p => exact Or.inl p
          | inr e => exact Or.inr ⟨f1.trans e1, r1.trans (BalRel.of_bal_eq e)⟩
        | ok u2 s2 =>
          rw [h2] at h; subst h
          obtain ⟨f1, f2⟩ := grantOng_ok _ _ _ _ _ h2
          refine Or.inr ⟨f1.trans e1, r1.trans (f2.balRel.mono ?_)⟩
          intro a ha; simp at ha ⊢; cases ha with | inl h => exact Or.inl h | inr h => exact Or.inr (Or.inr h)


/-- the other token's storage, as seen from a call on token `k`: an ONG call touches nothing of ONT (nor the unbound
offsets); an ONT call may move ONG out of the ONT contract's pool, balanced -/
def OtherRel (env : Env) (k : Token) (P : List Addr) (s s' : St) : Prop :=
  match k with
  | .ong => s'.ont = s.ont ∧ s'.off = s.off
  | .ont => BalRel (fun a => a = env.ontAddr) (env.ontAddr :: P) s.ong s'.ong

theorem OtherRel.refl (env : Env) (k : Token) (P : List Addr) (s : St) : OtherRel env k P s s := by
  cases k
  · exact BalRel.refl _ _ _
  · exact ⟨rfl, rfl⟩

theorem OtherRel.trans {env : Env} {k : Token} {P : List Addr} {s s1 s2 : St} (h1 : OtherRel env k P s s1)
    (h2 : OtherRel env k P s1 s2) : OtherRel env k P s s2 := by
  cases k
  · exact BalRel.trans h1 h2
  · exact ⟨h2.1.trans h1.1, h2.2.trans h1.2⟩

theorem OtherRel.mono {env : Env} {k : Token} {P P' : List Addr} {s s' : St} (h : OtherRel env k P s s')
    (hp : ∀ a ∈ P, a ∈ P') : OtherRel env k P' s s' := by
  cases k
  · exact BalRel.mono h (by
      intro a ha
      cases List.mem_cons.mp ha with
      | inl e => exact List.mem_cons.mpr (Or.inl e)
      | inr m => exact List.mem_cons.mpr (Or.inr (hp a m)))
  · exact h

/-- `OtherRel` only looks at the other token: replacing the own token's storage does not matter -/
theorem OtherRel.setTok_left {env : Env} {k : Token} {P : List Addr} {s s' : St} (t : Tok)
    (h : OtherRel env k P (s.setTok k t) s') : OtherRel env k P s s' := by
  cases k
  · exact h
  · exact h

structure CallRel (env : Env) (k : Token) (W : Addr → Prop) (P : List Addr) (s s' : St) : Prop where
  own : BalRel W P (s.tok k) (s'.tok k)
  other : OtherRel env k P s s'

theorem CallRel.refl (env : Env) (k : Token) (W : Addr → Prop) (P : List Addr) (s : St) : CallRel env k W P s s :=
  ⟨BalRel.refl _ _ _, OtherRel.refl _ _ _ _⟩

theorem CallRel.trans {env : Env} {k : Token} {W : Addr → Prop} {P : List Addr} {s s1 s2 : St}
    (h1 : CallRel env k W P s s1) (h2 : CallRel env k W P s1 s2) : CallRel env k W P s s2 :=
  ⟨h1.own.trans h2.own, h1.other.trans h2.other⟩

theorem CallRel.mono {env : Env} {k : Token} {W : Addr → Prop} {P P' : List Addr} {s s' : St}
    (h : CallRel env k W P s s') (hp : ∀ a ∈ P, a ∈ P') : CallRel env k W P' s s' :=
  ⟨h.own.mono hp, h.other.mono hp⟩

theorem afterMove_spec (env : Env) (k : Token) (s : St) (frm to : Addr) (oF oT : Nat) (res : R St Unit)
    (h : afterMove env k s frm to oF oT = res) :
    res.panicked ∨ (res.st.tok k = s.tok k ∧ OtherRel env k [frm, to] s res.st) := by
  unfold afterMove at h
  cases k with
  | ong => subst h; exact Or.inr ⟨rfl, rfl, rfl⟩
  | ont =>
    simp only at h
    cases grantBoth_spec env s frm to oF oT res h with
    | inl p => exact Or.inl p
    | inr e => exact Or.inr ⟨e.1, e.2⟩

theorem xferStep_spec (env : Env) (k : Token) (x : Xfer) (s : St) (res : R St Unit) (h : xferStep env k x s = res) :
    res.panicked ∨
    (CallRel env k (fun a => witness env env.caller a = true) [x.frm, x.to] s res.st ∧
      (res.st.tok k).allow = (s.tok k).allow) := by
  unfold xferStep at h
  split at h
  · subst h; exact Or.inr ⟨CallRel.refl _ _ _ _ _, rfl⟩
  · split at h
    · subst h; exact Or.inr ⟨CallRel.refl _ _ _ _ _, rfl⟩
    · split at h
      · rename_i r t h1
        subst h
        cases transferPrim_fail _ _ _ _ _ _ _ _ h1 with
        | inl p => exact Or.inl p
        | inr e =>
          subst e
          show _ ∨ (CallRel env k _ _ s (s.setTok k (s.tok k)) ∧ ((s.setTok k (s.tok k)).tok k).allow = (s.tok k).allow)
          rw [setTok_tok]
          exact Or.inr ⟨CallRel.refl _ _ _ _ _, rfl⟩
      · rename_i oF oT t h1
        obtain ⟨w, hv, _, et⟩ := transferPrim_ok _ _ _ _ _ _ _ _ _ h1
        cases afterMove_spec env k (s.setTok k t) x.frm x.to oF oT res h with
        | inl p => exact Or.inl p
        | inr e =>
          obtain ⟨e1, e2⟩ := e
          rw [tok_setTok] at e1
          refine Or.inr ⟨⟨?_, e2.setTok_left t⟩, ?_⟩
          · rw [e1, et]; exact BalRel.moved _ _ _ _ hv w
          · rw [e1, et]; rfl

def parties : List Xfer → List Addr
  | [] => []
  | x :: xs => x.frm :: x.to :: parties xs

theorem transferLoop_spec (env : Env) (k : Token) (xs : List Xfer) (s : St) (res : R St Unit)
    (h : transferLoop env k xs s = res) :
    res.panicked ∨
    (CallRel env k (fun a => witness env env.caller a = true) (parties xs) s res.st ∧
      (res.st.tok k).allow = (s.tok k).allow) := by
  induction xs generalizing s res with
  | nil =>
    simp only [transferLoop] at h
    subst h
    exact Or.inr ⟨CallRel.refl _ _ _ _ _, rfl⟩
  | cons x xs ih =>
    simp only [transferLoop] at h
    cases h1 : xferStep env k x s with
    | fail r s1 =>
      rw [h1] at h
      simp only at h
      subst h
      cases xferStep_spec env k x s _ h1 with
      | inl p => exact Or.inl p
      | inr e => exact Or.inr ⟨e.1.mono (by intro a ha; simp [parties] at ha ⊢; cases ha with | inl h => exact Or.inl h | inr h => exact Or.inr (Or.inl h)), e.2⟩
    | ok u s1 =>
      rw [h1] at h
      simp only at h
      cases xferStep_spec env k x s _ h1 with
      | inl p => exact absurd p (by simp [R.panicked])
      | inr e =>
        cases ih s1 res h with
        | inl p => exact Or.inl p
        | inr e2 =>
          refine Or.inr ⟨CallRel.trans (e.1.mono ?_) (e2.1.mono ?_), e2.2.trans e.2⟩
          · intro a ha; simp [parties] at ha ⊢; cases ha with | inl h => exact Or.inl h | inr h => exact Or.inr (Or.inl h)
          · intro a ha; simp [parties]; exact Or.inr (Or.inr ha)

/-! ### whole calls -/

/-- the account addresses a call names -/
def opAddrs : Op → List Addr
  | .transfer _ xs => parties xs
  | .approve _ frm to _ => [frm, to]
  | .transferFrom _ sender frm to _ => [sender, frm, to]

def opToken : Op → Token
  | .transfer k _ => k
  | .approve k _ _ _ => k
  | .transferFrom k _ _ _ _ => k

theorem CallRel.sums {env : Env} {k : Token} {W : Addr → Prop} {P : List Addr} {s s' : St} (h : CallRel env k W P s s')
    (l : List Addr) (hn : l.Nodup) (hp : ∀ a ∈ P, a ∈ l) (ho : env.ontAddr ∈ l) :
    sumBal l s'.ont = sumBal l s.ont ∧ sumBal l s'.ong = sumBal l s.ong := by
  cases k with
  | ont =>
    refine ⟨h.own.2 l hn hp, ?_⟩
    have o : BalRel (fun a => a = env.ontAddr) (env.ontAddr :: P) s.ong s'.ong := h.other
    exact o.2 l hn (by
      intro a ha
      cases List.mem_cons.mp ha with
      | inl e => rw [e]; exact ho
      | inr m => exact hp a m)
  | ong =>
    have o : s'.ont = s.ont ∧ s'.off = s.off := h.other
    refine ⟨by rw [o.1], h.own.2 l hn hp⟩

theorem OtherRel.setTok_right {env : Env} {k : Token} {P : List Addr} {s s' : St} (t : Tok)
    (h : OtherRel env k P s s') : OtherRel env k P s (s'.setTok k t) := by
  cases k
  · exact h
  · exact h

/-- what `transferFrom` did when it returned BYTE_TRUE -/
theorem exec_transferFrom_ok (env : Env) (s : St) (k : Token) (sender frm to : Addr) (v : Nat) (s' : St)
    (h : exec env s (.transferFrom k sender frm to v) = (.ok, s')) :
    transferFromAllowed env env.caller sender frm to = true ∧ v ≤ (s.tok k).allow frm sender ∧ v ≤ (s.tok k).bal frm ∧
    s'.tok k = movedTok ((s.tok k).setAllow frm sender ((s.tok k).allow frm sender - v)) frm to v ∧
    OtherRel env k [frm, to] s s' := by
  simp only [exec] at h
  split at h
  · cases h
  · split at h
    · cases h
    · split at h
      · cases h
      · rename_i oF oT t h1
        obtain ⟨a1, a2, a3, _, a5⟩ := transferFromPrim_ok _ _ _ _ _ _ _ _ _ _ h1
        split at h
        · cases h
        · rename_i u s2 h2
          have := (Prod.mk.inj h).2
          subst this
          cases afterMove_spec env k (s.setTok k t) frm to oF oT _ h2 with
          | inl p => exact absurd p (by simp [R.panicked])
          | inr e =>
            obtain ⟨e1, e2⟩ := e
            rw [tok_setTok] at e1
            simp only [R.st] at e1 e2
            exact ⟨a1, a2, a3, by rw [e1, a5], e2.setTok_left t⟩

/-- every outcome of `transferFrom` other than a panic leaves both token supplies balanced in the cache -/
theorem exec_transferFrom_rel (env : Env) (s : St) (k : Token) (sender frm to : Addr) (v : Nat) :
    (exec env s (.transferFrom k sender frm to v)).1 = .err .panic ∨
    CallRel env k (fun _ => True) [sender, frm, to] s (exec env s (.transferFrom k sender frm to v)).2 := by
  cases hx : exec env s (.transferFrom k sender frm to v) with
  | mk r s' =>
  simp only [exec] at hx
  split at hx
  · cases hx; exact Or.inr (CallRel.refl _ _ _ _ _)
  · split at hx
    · cases hx; exact Or.inr (CallRel.refl _ _ _ _ _)
    · split at hx
      · rename_i e t h1
        cases hx
        cases transferFromPrim_fail _ _ _ _ _ _ _ _ _ h1 with
        | inl p => subst p; exact Or.inl rfl
        | inr eb =>
          refine Or.inr ⟨?_, ?_⟩
          · rw [tok_setTok]; exact BalRel.of_bal_eq eb
          · exact OtherRel.setTok_right t (OtherRel.refl _ _ _ _)
      · rename_i oF oT t h1
        obtain ⟨a1, a2, a3, _, a5⟩ := transferFromPrim_ok _ _ _ _ _ _ _ _ _ _ h1
        have own : BalRel (fun _ => True) [sender, frm, to] (s.tok k) t := by
          rw [a5]
          have m := BalRel.moved (W := fun _ => True) ((s.tok k).setAllow frm sender ((s.tok k).allow frm sender - v))
            frm to v a3 trivial
          exact (BalRel.mono m (by intro a ha; simp at ha ⊢; exact Or.inr ha))
        have post : ∀ res : R St Unit, afterMove env k (s.setTok k t) frm to oF oT = res →
            res.panicked ∨ CallRel env k (fun _ => True) [sender, frm, to] s res.st := by
          intro res hr
          cases afterMove_spec env k (s.setTok k t) frm to oF oT res hr with
          | inl p => exact Or.inl p
          | inr e =>
            obtain ⟨e1, e2⟩ := e
            rw [tok_setTok] at e1
            refine Or.inr ⟨by rw [e1]; exact own, ?_⟩
            exact (e2.setTok_left t).mono (by intro a ha; simp at ha ⊢; exact Or.inr ha)
        split at hx
        · rename_i e s2 h2
          cases hx
          cases post _ h2 with
          | inl p => simp only [R.panicked] at p; subst p; exact Or.inl rfl
          | inr c => exact Or.inr c
        · rename_i u s2 h2
          cases hx
          cases post _ h2 with
          | inl p => exact absurd p (by simp [R.panicked])
          | inr c => exact Or.inr c


theorem BalRel.imp {W W' : Addr → Prop} {P : List Addr} {t t' : Tok} (h : BalRel W P t t') (hw : ∀ a, W a → W' a) :
    BalRel W' P t t' := ⟨fun a hlt => hw a (h.1 a hlt), h.2⟩

theorem CallRel.imp {env : Env} {k : Token} {W W' : Addr → Prop} {P : List Addr} {s s' : St}
    (h : CallRel env k W P s s') (hw : ∀ a, W a → W' a) : CallRel env k W' P s s' := ⟨h.own.imp hw, h.other⟩

theorem exec_transfer_rel (env : Env) (s : St) (k : Token) (xs : List Xfer) :
    (exec env s (.transfer k xs)).1 = .err .panic ∨
    (CallRel env k (fun a => witness env env.caller a = true) (parties xs) s (exec env s (.transfer k xs)).2 ∧
      ((exec env s (.transfer k xs)).2.tok k).allow = (s.tok k).allow) := by
  simp only [exec]
  cases h : transferLoop env k xs s with
  | ok u s' =>
    cases transferLoop_spec env k xs s _ h with
    | inl p => exact absurd p (by simp [R.panicked])
    | inr e => exact Or.inr e
  | fail r s' =>
    cases transferLoop_spec env k xs s _ h with
    | inl p => simp only [R.panicked] at p; subst p; exact Or.inl rfl
    | inr e => exact Or.inr e

theorem exec_approve_cases (env : Env) (s : St) (k : Token) (frm to : Addr) (v : Nat) :
    ((exec env s (.approve k frm to v)).1 = .ok ∧ witness env env.caller frm = true ∧ v ≤ env.supply k ∧
      (exec env s (.approve k frm to v)).2 = s.setTok k ((s.tok k).setAllow frm to v)) ∨
    ((∃ e, (exec env s (.approve k frm to v)).1 = .err e ∧ e ≠ .panic) ∧ (exec env s (.approve k frm to v)).2 = s) := by
  simp only [exec]
  split
  · exact Or.inr ⟨⟨_, rfl, by decide⟩, rfl⟩
  · split
    · exact Or.inr ⟨⟨_, rfl, by decide⟩, rfl⟩
    · rename_i h1 h2
      exact Or.inl ⟨rfl, by simpa using h2, by omega, rfl⟩

/-- **every call, whatever its outcome short of a panic, leaves both supplies balanced in its cache** -/
theorem exec_rel (env : Env) (s : St) (op : Op) :
    (exec env s op).1 = .err .panic ∨ CallRel env (opToken op) (fun _ => True) (opAddrs op) s (exec env s op).2 := by
  cases op with
  | transfer k xs =>
    cases exec_transfer_rel env s k xs with
    | inl p => exact Or.inl p
    | inr e => exact Or.inr (e.1.imp (fun _ _ => trivial))
  | approve k frm to v =>
    cases exec_approve_cases env s k frm to v with
    | inl e =>
      refine Or.inr ?_
      rw [e.2.2.2]
      refine ⟨?_, OtherRel.setTok_right _ (OtherRel.refl _ _ _ _)⟩
      show BalRel _ _ (s.tok k) ((s.setTok k ((s.tok k).setAllow frm to v)).tok k)
      rw [tok_setTok]
      exact BalRel.of_bal_eq rfl
    | inr e =>
      refine Or.inr ?_
      rw [e.2]
      exact CallRel.refl _ _ _ _ _
  | transferFrom k sender frm to v => exact exec_transferFrom_rel env s k sender frm to v

theorem txStep_eq (env : Env) (s : St) (op : Op) :
    txStep env s op = ((exec env s op).1, if (exec env s op).1.commits then (exec env s op).2 else s) := by
  unfold txStep
  cases exec env s op with
  | mk r s' =>
    simp only
    split <;> rfl

end OntVerif.Proofs.Token
