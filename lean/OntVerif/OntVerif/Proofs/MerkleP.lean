import OntVerif.Proofs.MerkleO
import OntVerif.Props.C18
namespace OntVerif.Proofs.Merkle
open OntVerif.Util OntVerif.Model.Merkle OntVerif.Model

section
variable {Hash : Type}

/-- `MerkleProve`'s reading loop reads back what `MerkleLeafPath` wrote, at any position of any buffer -/
theorem readSteps_roundtrip (enc : Hash → Bytes) (henc : ∀ h, (enc h).length = 32) (steps : List (UInt8 × Hash)) :
    ∀ (pre rest : Bytes), (pre ++ steps.flatMap (fun s => s.1 :: enc s.2) ++ rest).length < Codec.two64 →
    readSteps steps.length ⟨pre ++ steps.flatMap (fun s => s.1 :: enc s.2) ++ rest, pre.length⟩ =
      .ok (steps.map fun s => (s.1, enc s.2)) := by
  induction steps with
  | nil => intro pre rest _; rfl
  | cons s r ih =>
    intro pre rest hlen
    obtain ⟨f, h⟩ := s
    simp only [List.flatMap_cons, List.length_cons, readSteps, List.map_cons]
    have e1 : pre ++ (f :: enc h ++ r.flatMap (fun s => s.1 :: enc s.2)) ++ rest =
        pre ++ f :: (enc h ++ r.flatMap (fun s => s.1 :: enc s.2) ++ rest) := by simp
    rw [e1, Props.C18.C18_rt_u8]
    simp only [Bool.false_eq_true, if_false]
    have e2 : pre ++ f :: (enc h ++ r.flatMap (fun s => s.1 :: enc s.2) ++ rest) =
        (pre ++ [f]) ++ enc h ++ (r.flatMap (fun s => s.1 :: enc s.2) ++ rest) := by simp
    have hl2 : ((pre ++ [f]) ++ enc h ++ (r.flatMap (fun s => s.1 :: enc s.2) ++ rest)).length < Codec.two64 := by
      rw [← e2, ← e1]; exact hlen
    have hfix := Props.C18.C18_rt_fixed (enc h) (pre ++ [f]) (r.flatMap (fun s => s.1 :: enc s.2) ++ rest) hl2
    rw [henc h] at hfix
    have e3 : (pre ++ [f]).length = pre.length + 1 := by simp
    rw [e3] at hfix
    rw [e2, hfix]
    simp only [Bool.false_eq_true, if_false]
    have e4 : (pre ++ [f]) ++ enc h ++ (r.flatMap (fun s => s.1 :: enc s.2) ++ rest) =
        (pre ++ [f] ++ enc h) ++ r.flatMap (fun s => s.1 :: enc s.2) ++ rest := by simp
    have e5 : (pre ++ [f] ++ enc h).length = pre.length + 1 + 32 := by simp [henc h]
    have := ih (pre ++ [f] ++ enc h) rest (by rw [← e4]; exact hl2)
    rw [e5, ← e4] at this
    rw [this]

theorem flatMap_steps_length (enc : Hash → Bytes) (henc : ∀ h, (enc h).length = 32) (steps : List (UInt8 × Hash)) :
    (steps.flatMap (fun s => s.1 :: enc s.2)).length = 33 * steps.length := by
  induction steps with
  | nil => rfl
  | cons s r ih => simp [List.flatMap_cons, henc, ih]; omega

/-- **byte-level round trip**: the parser of `MerkleProve` reads the bytes written by `MerkleLeafPath` back to exactly
(value, steps), for fewer than 32 steps (with 32 or more the loop bound `remaining/32` overshoots: see the harness kind
`32+steps`) -/
theorem parsePath_pathBytes (enc : Hash → Bytes) (henc : ∀ h, (enc h).length = 32) (data : Bytes) (steps : List (UInt8 × Hash))
    (hk : steps.length < 32) (hlen : (pathBytes enc data steps).length < Codec.two64) :
    parsePath (pathBytes enc data steps) = .ok (data, steps.map fun s => (s.1, enc s.2)) := by
  unfold parsePath pathBytes at *
  have hvb := Props.C18.C18_rt_varbytes data [] (steps.flatMap (fun s => s.1 :: enc s.2)) (by simpa using hlen)
  simp only [List.nil_append, List.length_nil, Nat.zero_add] at hvb
  rw [hvb]
  simp only [Bool.or_self, Bool.false_eq_true, if_false]
  have hsz : ((Codec.writeVarBytes data ++ steps.flatMap (fun s => s.1 :: enc s.2)).length -
      (Codec.getVarUintSize data.length + data.length)) / 32 = steps.length := by
    have : (Codec.writeVarBytes data).length = Codec.getVarUintSize data.length + data.length := by
      simp [Codec.writeVarBytes, Proofs.Codec.writeVarUint_length]
    rw [List.length_append, this, flatMap_steps_length enc henc]
    omega
  rw [hsz]
  have := readSteps_roundtrip enc henc steps (Codec.writeVarBytes data) [] (by simpa using hlen)
  simp only [List.append_nil] at this
  have hl : (Codec.writeVarBytes data).length = Codec.getVarUintSize data.length + data.length := by
    simp [Codec.writeVarBytes, Proofs.Codec.writeVarUint_length]
  rw [hl] at this
  rw [this]

theorem leafPathLoop_length : ∀ (levels : List (List Hash)) (i : Nat) (s : List (UInt8 × Hash)),
    leafPathLoop levels i = some s → s.length + 1 ≤ levels.length ∨ (levels = [] ∧ s = []) := by
  intro levels
  induction levels with
  | nil => intro i s h; simp [leafPathLoop] at h; right; exact ⟨rfl, h⟩
  | cons sub rest ih =>
    intro i s h
    cases rest with
    | nil => simp [leafPathLoop] at h; left; simp [← h]
    | cons nxt rest' =>
      rw [leafPathLoop_cons] at h
      cases hb : bottomStep sub i with
      | none => simp [hb] at h
      | some b =>
        cases hr : leafPathLoop (nxt :: rest') (i / 2) with
        | none => simp [hb, hr] at h
        | some r =>
          simp only [hb, hr, Option.some.injEq] at h
          have hbl : b.length ≤ 1 := by
            unfold bottomStep at hb
            split at hb
            · cases hb; simp
            · split at hb
              · cases hx : sub[i - 1]? <;> simp [hx] at hb; simp [← hb]
              · cases hx : sub[i + 1]? <;> simp [hx] at hb; simp [← hb]
          rcases ih (i / 2) r hr with h1 | ⟨h1, _⟩
          · left; rw [← h, List.length_append]; simp only [List.length_cons] at h1 ⊢; omega
          · cases h1

theorem merkleLevels_length (H1 : Hash → Hash → Hash) (d : Nat) : ∀ l : List Hash, (merkleLevels H1 d l).length = d + 1 := by
  induction d with
  | zero => intro l; rfl
  | succ d ih => intro l; simp [merkleLevels, ih]

theorem depth_le_15 (n : Nat) (h : n * 33 ≤ maxSize) : depth n ≤ 15 := by
  unfold depth
  by_cases h1 : n ≤ 1
  · simp [h1]
  · simp only [h1, if_false]
    have : n - 1 < 2 ^ 15 := by unfold maxSize at h; omega
    have := (Nat.log2_lt (n := n - 1) (k := 15) (by omega)).2 this
    omega

theorem getVarUintSize_le (v : Nat) : Codec.getVarUintSize v ≤ 9 := by
  unfold Codec.getVarUintSize; split <;> (try split) <;> (try split) <;> omega

/-- `MerkleLeafPath` for a member: the value with the RFC audit path of its first occurrence, at most 15 steps -/
theorem merkleLeafPath_spec [DecidableEq Hash] (H0 : Bytes → Hash) (H1 : Hash → Hash → Hash) (He : Hash)
    (data : Bytes) (hashes : List Hash) (hmem : H0 data ∈ hashes)
    (hsz : hashes.length * 33 + data.length + 8 ≤ maxSize) :
    ∃ i, hashes[i]? = some (H0 data) ∧
      merkleLeafPath H0 H1 data hashes = .ok (some (data, stepsSpec H1 He i hashes)) ∧
      (stepsSpec H1 He i hashes).length ≤ 15 := by
  obtain ⟨i, hi⟩ := getIndex_mem (H0 data) hashes hmem 0
  obtain ⟨_, hget⟩ := getIndex_spec (H0 data) hashes 0 i hi
  simp only [Nat.sub_zero] at hget
  have hlt : i < hashes.length := by
    rcases Nat.lt_or_ge i hashes.length with h | h
    · exact h
    · rw [List.getElem?_eq_none h] at hget; cases hget
  have hloop := leafPathLoop_spec H1 He (depth hashes.length) hashes i (by omega) (le_two_pow_depth _ (by omega)) hlt
  refine ⟨i, hget, ?_, ?_⟩
  · unfold merkleLeafPath
    rw [if_neg (by omega), hi]
    simp only
    rw [hloop]; rfl
  · rcases leafPathLoop_length _ i _ hloop with h | ⟨h, _⟩
    · rw [merkleLevels_length] at h
      have := depth_le_15 hashes.length (by omega)
      omega
    · have := merkleLevels_length H1 (depth hashes.length) hashes
      rw [h] at this; simp at this

end
end OntVerif.Proofs.Merkle
